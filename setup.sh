#!/bin/sh
# MANIFEST.setup_cmd: builds everything from files on disk (offline).
set -e
cd "$(dirname "$0")"
export GOFLAGS=-mod=mod GOPROXY=off GOSUMDB=off GOTOOLCHAIN=local
mkdir -p build coq/Gen evidence replays
cp /repo/go.sum harness/go.sum
(cd harness && go build -o ../build/astfacts ./tools/astfacts)
if [ -d harness/tools/clockoverlay ]; then (cd harness && go build -o ../build/clockoverlay ./tools/clockoverlay); fi
./build/astfacts -repo /repo -out coq/Gen/Facts.v
./mkcoq.sh
(cd coq && timeout 7200 make -j16 -k) || echo 'setup: some Coq targets failed (each check reports its own)'
ROOT="$(pwd)"
if [ -x build/clockoverlay ]; then ./build/clockoverlay -repo /repo -out "$ROOT/build/overlay"; fi
OV=""; [ -f build/overlay.json ] && OV="-overlay $ROOT/build/overlay.json"
for d in harness/cmd/*/; do n=$(basename $d); (cd harness && CGO_ENABLED=0 go build -tags verif $OV -o ../build/$n ./cmd/$n) || echo "setup: driver $n did not build (its checks will report it)"; done
echo "setup ok"
