#!/bin/sh
# runs make in coq/ under the same build lock ./check uses (avoid racing with concurrent checks)
cd /verif/coq && ../mkcoq.sh && flock /verif/build/.buildlock timeout 3000 make "$@"
