#!/bin/sh
# regenerates coq/Makefile from the _CoqProject entries whose files exist (others may be mid-creation)
cd "${COQDIR:-$(dirname "$0")/coq}" || exit 1
{ grep -v '\.v$' _CoqProject; grep '\.v$' _CoqProject | sort -u | while read f; do [ -f "$f" ] && echo "$f"; done; } > .CoqProject.eff
if [ ! -f Makefile ] || ! cmp -s .CoqProject.eff .CoqProject.eff.prev; then
  coq_makefile -f .CoqProject.eff -o Makefile >/dev/null && cp .CoqProject.eff .CoqProject.eff.prev
fi
