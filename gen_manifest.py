#!/usr/bin/env python3
"""Regenerates MANIFEST.json from props.py (single source of truth for what is claimed)."""
import json, os, sys
ROOT = os.path.dirname(os.path.abspath(__file__))
sys.path.insert(0, ROOT)
import props as P
ids = [json.loads(l)["id"] for l in open(os.path.join(ROOT, "properties.jsonl"))]
ready = set(l.strip() for l in open(os.path.join(ROOT, "ready.txt")) if l.strip())
hooks_commits = [l.strip() for l in open(os.path.join(ROOT, "hooks_commits.txt")) if l.strip()]
checks = []
for pid in ids:
    if pid not in P.PROPS or pid not in ready:
        continue
    s = P.PROPS[pid]
    checks.append({
        "property_id": pid,
        "quick_cmd": "./check %s quick" % pid,
        "thorough_cmd": "./check %s thorough" % pid,
        "evidence_file": "evidence/%s.json" % pid,
        "replay_cmd_template": "./check %s --replay {path}" % pid,
        "engine": "coq+drive",
        "level_claimed": {"category": "proof", "text": s["level_text"], "design_ref": "DESIGN.md section 5, %s" % pid},
        "level_note": s["level_note"],
        "technique": s.get("technique", "Coq 8.16 theorems over a Gallina model + differential correspondence evaluated in Coq (vm_compute) against the Go code"),
    })
na = [{"property_id": pid, "reason": P.NOT_APPLICABLE.get(pid, "not claimed: check not built yet (work in progress; see DESIGN.md section 10)")}
      for pid in ids if pid not in P.PROPS or pid not in ready]
m = {
    "version": 1,
    "setup_cmd": "./setup.sh",
    "hooks": {
        "guard": "verif",
        "enable": "go build -tags verif (harness module with replace github.com/absfs/absnfs => /repo; clock overlay via -overlay when present)",
        "baseline_off_cmd": "cd /repo && GOFLAGS=-mod=mod GOPROXY=off GOSUMDB=off go test -json -vet=off -count=1 -timeout 25m ./...",
        "source_commits": hooks_commits,
        "add_only": True,
    },
    "engines": [
        {"name": "coq", "path": "coq/", "serves_properties": [c["property_id"] for c in checks],
         "kind_free_text": "Coq 8.16.1 development: Model (executable Gallina), Proofs, Properties (theorems + Print Assumptions), Corr (model-vs-implementation and spec-oracle evaluators run by vm_compute on cases the Go driver produces)"},
        {"name": "astfacts", "path": "harness/tools/astfacts", "serves_properties": [c["property_id"] for c in checks],
         "kind_free_text": "Go AST translator-lite: regenerates coq/Gen/Facts.v (constants, dispatch/guard/limiter-order/option-literal facts) from /repo on every run"},
        {"name": "drive", "path": "harness/cmd/drive", "serves_properties": [c["property_id"] for c in checks],
         "kind_free_text": "Go driver built from /repo's working tree with -tags verif; seeded generators; runs cases on the real code and writes them with the observed outputs as Coq terms"},
    ],
    "checks": checks,
    "notes": "All checks go through ./check (python3). known_findings.jsonl lists fixed and known findings. VERIF_SEED honoured.",
    "not_applicable": na,
}
json.dump(m, open(os.path.join(ROOT, "MANIFEST.json"), "w"), indent=1)
print("MANIFEST.json: %d checks, %d not claimed" % (len(checks), len(na)))
