module verifharness

go 1.23

require github.com/absfs/absnfs v0.0.0

require (
	github.com/absfs/absfs v1.0.0
	github.com/absfs/memfs v1.1.0
)

require github.com/absfs/inode v1.1.0 // indirect

replace github.com/absfs/absnfs => /repo
