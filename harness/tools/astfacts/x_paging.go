package main

// x_paging.go: structural facts for the paging group (C26, C23).
//
// C26 - the size arithmetic of the READDIR / READDIRPLUS loops is written with literals inside the handlers:
//
//	const trailerSize = 8
//	for i, entry := range entries {
//	    if uint64(i) < cookie { continue }
//	    entrySize := 4 + 8 + 4 + (len(path.Base(entry.path))+3)&^3 + 8 [+ 88 + 16]
//	    if entryCount > 0 && buf.Len()+entrySize+trailerSize > int(<count|maxCount>) { reachedLimit = true; break }
//	    ...
//	    entryCookie := uint64(i + 1)
//
//   f_readdir_entry_fixed / f_readdirplus_entry_fixed   the integer literals of entrySize, in source order
//   f_readdir_entry_pad / f_readdirplus_entry_pad       (a, m) of the name term (len(path.Base(entry.path))+a)&^m
//   f_readdir_pad_index / f_readdirplus_pad_index       position of the name term among the summands
//   f_readdir_trailer / f_readdirplus_trailer           trailerSize
//   f_readdir_limit_var / f_readdirplus_limit_var       the variable the guard compares with
//   f_readdir_guard_first_free / ...                    the guard is `entryCount > 0 && ...` (first entry always sent)
//   f_readdir_cookie_plus / ...                         k of entryCookie := uint64(i + k)
//   f_readdir_skip_below_cookie / ...                   `if uint64(i) < cookie { continue }` is the first statement of the loop
//
// C23 - handleFsinfo, handleWrite, ReadWithContext:
//
//	const recordHeadroom = 4096
//	maxXfer := uint32(DefaultMaxRecordSize - recordHeadroom)
//	if ts := ...TransferSize; ts > 0 && uint32(ts) < maxXfer { maxXfer = uint32(ts) }
//	atMost := func(v uint32) uint32 { if v > maxXfer { return maxXfer }; return v }
//	binary.Write(&buf, binary.BigEndian, <maxXfer | atMost(K) | uint32(K) | uint64(K) | ident>) ...
//
//   f_fsinfo_record_headroom, f_fsinfo_cap, f_fsinfo_clamp_uint32, f_fsinfo_fields
//   f_write_bound_uint32 (maxWriteSize := uint32(...TransferSize)), f_write_zero_fallback (if maxWriteSize == 0 { = K }),
//   f_write_bound_status (the constant returned by `if count > maxWriteSize`), f_read_clamp_int64

import (
	"fmt"
	"go/ast"
	"go/token"
	"strings"
)

func init() { extractors = append(extractors, pagingFacts) }

func flattenAdd(e ast.Expr) []ast.Expr {
	if be, ok := e.(*ast.BinaryExpr); ok && be.Op == token.ADD {
		return append(flattenAdd(be.X), flattenAdd(be.Y)...)
	}
	return []ast.Expr{e}
}

func exprStr(e ast.Expr) string {
	switch x := e.(type) {
	case *ast.Ident:
		return x.Name
	case *ast.SelectorExpr:
		return exprStr(x.X) + "." + x.Sel.Name
	case *ast.CallExpr:
		var as []string
		for _, a := range x.Args {
			as = append(as, exprStr(a))
		}
		return exprStr(x.Fun) + "(" + strings.Join(as, ",") + ")"
	case *ast.BasicLit:
		return x.Value
	case *ast.ParenExpr:
		return "(" + exprStr(x.X) + ")"
	case *ast.BinaryExpr:
		return exprStr(x.X) + x.Op.String() + exprStr(x.Y)
	case *ast.UnaryExpr:
		return x.Op.String() + exprStr(x.X)
	case *ast.StarExpr:
		return "*" + exprStr(x.X)
	}
	return fmt.Sprintf("<%T>", e)
}

func zlist(xs []string) string { return "[" + strings.Join(xs, "; ") + "]" }

func (c *ctxT) pagingLoop(recv, fn, prefix string) error {
	fd := c.funcDecl(recv, fn)
	if fd == nil {
		return fmt.Errorf("%s not found", fn)
	}
	// the single `for i, entry := range entries` loop
	var loops []*ast.RangeStmt
	var trailers []string
	ast.Inspect(fd.Body, func(n ast.Node) bool {
		switch x := n.(type) {
		case *ast.RangeStmt:
			loops = append(loops, x)
		case *ast.GenDecl:
			if x.Tok == token.CONST {
				for _, s := range x.Specs {
					vs := s.(*ast.ValueSpec)
					for i, nm := range vs.Names {
						if nm.Name == "trailerSize" && i < len(vs.Values) {
							if v, ok := c.constVal(vs.Values[i]); ok {
								trailers = append(trailers, v)
							}
						}
					}
				}
			}
		}
		return true
	})
	if len(loops) != 1 || len(trailers) != 1 {
		return fmt.Errorf("%s: expected one range loop and one const trailerSize, found %d / %d", fn, len(loops), len(trailers))
	}
	loop := loops[0]
	idx, _ := loop.Key.(*ast.Ident)
	if idx == nil || exprStr(loop.X) != "entries" {
		return fmt.Errorf("%s: loop is not `for i, entry := range entries`", fn)
	}
	body := loop.Body.List
	if len(body) < 3 {
		return fmt.Errorf("%s: loop body too short", fn)
	}
	// 1. if uint64(i) < cookie { continue }
	skipOK := false
	if is, ok := body[0].(*ast.IfStmt); ok && is.Init == nil && is.Else == nil && len(is.Body.List) == 1 {
		if br, ok := is.Body.List[0].(*ast.BranchStmt); ok && br.Tok == token.CONTINUE && exprStr(is.Cond) == "uint64("+idx.Name+")<cookie" {
			skipOK = true
		}
	}
	if !skipOK {
		return fmt.Errorf("%s: first loop statement is not `if uint64(%s) < cookie { continue }`", fn, idx.Name)
	}
	// 2. entrySize := lit + ... + (len(path.Base(entry.path))+a)&^m + ...
	as, ok := body[1].(*ast.AssignStmt)
	if !ok || as.Tok != token.DEFINE || len(as.Lhs) != 1 || exprStr(as.Lhs[0]) != "entrySize" {
		return fmt.Errorf("%s: second loop statement is not `entrySize := ...`", fn)
	}
	var fixed []string
	padIdx, padA, padM := -1, "", ""
	for i, t := range flattenAdd(as.Rhs[0]) {
		if bl, ok := t.(*ast.BasicLit); ok && bl.Kind == token.INT {
			v, _ := c.constVal(bl)
			fixed = append(fixed, v)
			continue
		}
		be, ok := t.(*ast.BinaryExpr)
		if !ok || be.Op != token.AND_NOT || padIdx >= 0 {
			return fmt.Errorf("%s: entrySize summand %d has an unrecognised shape: %s", fn, i, exprStr(t))
		}
		pe, ok := be.X.(*ast.ParenExpr)
		if !ok {
			return fmt.Errorf("%s: entrySize name term: %s", fn, exprStr(t))
		}
		in, ok := pe.X.(*ast.BinaryExpr)
		if !ok || in.Op != token.ADD || exprStr(in.X) != "len(path.Base(entry.path))" {
			return fmt.Errorf("%s: entrySize name term: %s", fn, exprStr(t))
		}
		a, ok1 := c.constVal(in.Y)
		m, ok2 := c.constVal(be.Y)
		if !ok1 || !ok2 {
			return fmt.Errorf("%s: entrySize name term constants: %s", fn, exprStr(t))
		}
		padIdx, padA, padM = i, a, m
	}
	if padIdx < 0 {
		return fmt.Errorf("%s: entrySize has no name term", fn)
	}
	// 3. if entryCount > 0 && buf.Len()+entrySize+trailerSize > int(<var>) { reachedLimit = true; break }
	is, ok := body[2].(*ast.IfStmt)
	if !ok || is.Init != nil || is.Else != nil || len(is.Body.List) != 2 {
		return fmt.Errorf("%s: third loop statement is not the size guard", fn)
	}
	cond, ok := is.Cond.(*ast.BinaryExpr)
	if !ok || cond.Op != token.LAND || exprStr(cond.X) != "entryCount>0" {
		return fmt.Errorf("%s: size guard is not `entryCount > 0 && ...`: %s", fn, exprStr(is.Cond))
	}
	cmp, ok := cond.Y.(*ast.BinaryExpr)
	if !ok || cmp.Op != token.GTR || exprStr(cmp.X) != "buf.Len()+entrySize+trailerSize" {
		return fmt.Errorf("%s: size guard comparison: %s", fn, exprStr(cond.Y))
	}
	lim, ok := cmp.Y.(*ast.CallExpr)
	if !ok || exprStr(lim.Fun) != "int" || len(lim.Args) != 1 {
		return fmt.Errorf("%s: size guard limit: %s", fn, exprStr(cmp.Y))
	}
	limVar := exprStr(lim.Args[0])
	if exprStr2(is.Body.List[0]) != "reachedLimit=true" {
		return fmt.Errorf("%s: size guard body does not set reachedLimit", fn)
	}
	if br, ok := is.Body.List[1].(*ast.BranchStmt); !ok || br.Tok != token.BREAK {
		return fmt.Errorf("%s: size guard body does not break", fn)
	}
	// 4. entryCookie := uint64(i + k), exactly once
	var cookies []string
	ast.Inspect(loop.Body, func(n ast.Node) bool {
		a, ok := n.(*ast.AssignStmt)
		if !ok || len(a.Lhs) != 1 || exprStr(a.Lhs[0]) != "entryCookie" {
			return true
		}
		call, ok := a.Rhs[0].(*ast.CallExpr)
		if !ok || exprStr(call.Fun) != "uint64" || len(call.Args) != 1 {
			cookies = append(cookies, "?")
			return true
		}
		be, ok := call.Args[0].(*ast.BinaryExpr)
		if !ok || be.Op != token.ADD || exprStr(be.X) != idx.Name {
			cookies = append(cookies, "?")
			return true
		}
		if v, ok := c.constVal(be.Y); ok {
			cookies = append(cookies, v)
		} else {
			cookies = append(cookies, "?")
		}
		return true
	})
	if len(cookies) != 1 || cookies[0] == "?" {
		return fmt.Errorf("%s: expected exactly one `entryCookie := uint64(%s + k)`, found %v", fn, idx.Name, cookies)
	}
	b := c.b
	fmt.Fprintf(b, "Definition f_%s_entry_fixed : list Z := %s.\n", prefix, zlist(fixed))
	fmt.Fprintf(b, "Definition f_%s_entry_pad : Z * Z := (%s, %s).\n", prefix, padA, padM)
	fmt.Fprintf(b, "Definition f_%s_pad_index : Z := %d.\n", prefix, padIdx)
	fmt.Fprintf(b, "Definition f_%s_trailer : Z := %s.\n", prefix, trailers[0])
	fmt.Fprintf(b, "Definition f_%s_limit_var : string := \"%s\"%%string.\n", prefix, limVar)
	fmt.Fprintf(b, "Definition f_%s_guard_first_free : bool := true.\n", prefix)
	fmt.Fprintf(b, "Definition f_%s_cookie_plus : Z := %s.\n", prefix, cookies[0])
	fmt.Fprintf(b, "Definition f_%s_skip_below_cookie : bool := true.\n", prefix)
	return nil
}

func exprStr2(s ast.Stmt) string {
	if a, ok := s.(*ast.AssignStmt); ok && len(a.Lhs) == 1 && len(a.Rhs) == 1 {
		return exprStr(a.Lhs[0]) + a.Tok.String() + exprStr(a.Rhs[0])
	}
	return fmt.Sprintf("<%T>", s)
}

func (c *ctxT) fsinfoFacts() error {
	fd := c.funcDecl("NFSProcedureHandler", "handleFsinfo")
	if fd == nil {
		return fmt.Errorf("handleFsinfo not found")
	}
	b := c.b
	headroom, capV := "", ""
	clamp := false
	var fields []string
	for _, st := range fd.Body.List {
		switch x := st.(type) {
		case *ast.DeclStmt:
			gd, ok := x.Decl.(*ast.GenDecl)
			if !ok || gd.Tok != token.CONST {
				continue
			}
			for _, s := range gd.Specs {
				vs := s.(*ast.ValueSpec)
				for i, nm := range vs.Names {
					if nm.Name == "recordHeadroom" && i < len(vs.Values) {
						if v, ok := c.constVal(vs.Values[i]); ok {
							headroom = v
						}
					}
				}
			}
		case *ast.AssignStmt:
			if x.Tok == token.DEFINE && len(x.Lhs) == 1 && exprStr(x.Lhs[0]) == "maxXfer" {
				if exprStr(x.Rhs[0]) != "uint32(DefaultMaxRecordSize-recordHeadroom)" {
					return fmt.Errorf("handleFsinfo: maxXfer := %s", exprStr(x.Rhs[0]))
				}
				v, ok := c.constVal(x.Rhs[0])
				if !ok {
					return fmt.Errorf("handleFsinfo: maxXfer initialiser is not constant")
				}
				capV = v
			}
		case *ast.IfStmt:
			if x.Init == nil {
				continue
			}
			ini, ok := x.Init.(*ast.AssignStmt)
			if !ok || len(ini.Lhs) != 1 || exprStr(ini.Lhs[0]) != "ts" {
				continue
			}
			if !strings.HasSuffix(exprStr(ini.Rhs[0]), ".TransferSize") {
				return fmt.Errorf("handleFsinfo: ts := %s", exprStr(ini.Rhs[0]))
			}
			if exprStr(x.Cond) != "ts>0&&uint32(ts)<maxXfer" || len(x.Body.List) != 1 || exprStr2(x.Body.List[0]) != "maxXfer=uint32(ts)" || x.Else != nil {
				return fmt.Errorf("handleFsinfo: unrecognised clamp `if %s`", exprStr(x.Cond))
			}
			clamp = true
		case *ast.ExprStmt:
			call, ok := x.X.(*ast.CallExpr)
			if !ok || exprStr(call.Fun) != "binary.Write" || len(call.Args) != 3 {
				continue
			}
			if capV == "" { // writes before maxXfer exists are not transfer-size fields
				continue
			}
			a := call.Args[2]
			switch {
			case exprStr(a) == "maxXfer":
				fields = append(fields, "(\"max\"%string, 0)")
			default:
				if ce, ok := a.(*ast.CallExpr); ok && len(ce.Args) == 1 {
					if v, ok := c.constVal(ce.Args[0]); ok {
						switch exprStr(ce.Fun) {
						case "atMost":
							fields = append(fields, fmt.Sprintf("(\"atmost\"%%string, %s)", v))
							continue
						case "uint32", "uint64":
							fields = append(fields, fmt.Sprintf("(\"const\"%%string, %s)", v))
							continue
						}
					}
				}
				if id, ok := a.(*ast.Ident); ok {
					fields = append(fields, fmt.Sprintf("(\"ident:%s\"%%string, 0)", id.Name))
					continue
				}
				return fmt.Errorf("handleFsinfo: unrecognised FSINFO field expression %s", exprStr(a))
			}
		}
	}
	// atMost must be the clamp to maxXfer
	atMostOK := false
	ast.Inspect(fd.Body, func(n ast.Node) bool {
		as, ok := n.(*ast.AssignStmt)
		if !ok || len(as.Lhs) != 1 || exprStr(as.Lhs[0]) != "atMost" {
			return true
		}
		fl, ok := as.Rhs[0].(*ast.FuncLit)
		if !ok || len(fl.Body.List) != 2 {
			return true
		}
		is, ok1 := fl.Body.List[0].(*ast.IfStmt)
		rt, ok2 := fl.Body.List[1].(*ast.ReturnStmt)
		if ok1 && ok2 && exprStr(is.Cond) == "v>maxXfer" && len(is.Body.List) == 1 && len(rt.Results) == 1 && exprStr(rt.Results[0]) == "v" {
			if r, ok := is.Body.List[0].(*ast.ReturnStmt); ok && len(r.Results) == 1 && exprStr(r.Results[0]) == "maxXfer" {
				atMostOK = true
			}
		}
		return true
	})
	if headroom == "" || capV == "" || !clamp || !atMostOK || len(fields) < 6 {
		return fmt.Errorf("handleFsinfo: shape not recognised (headroom=%q cap=%q clamp=%v atMost=%v fields=%d)", headroom, capV, clamp, atMostOK, len(fields))
	}
	fmt.Fprintf(b, "Definition f_fsinfo_record_headroom : Z := %s.\n", headroom)
	fmt.Fprintf(b, "Definition f_fsinfo_cap : Z := %s.\n", capV)
	fmt.Fprintf(b, "Definition f_fsinfo_clamp_uint32 : bool := true.\n")
	fmt.Fprintf(b, "Definition f_fsinfo_fields : list (string * Z) := %s.\n", zlist(fields))

	// handleWrite: maxWriteSize := uint32(...TransferSize); if maxWriteSize == 0 { maxWriteSize = K }; if count > maxWriteSize { return nfsErrorWithWcc(reply, S) }
	fw := c.funcDecl("NFSProcedureHandler", "handleWrite")
	if fw == nil {
		return fmt.Errorf("handleWrite not found")
	}
	u32, fallback, status := false, "", ""
	for _, st := range fw.Body.List {
		switch x := st.(type) {
		case *ast.AssignStmt:
			if x.Tok == token.DEFINE && len(x.Lhs) == 1 && exprStr(x.Lhs[0]) == "maxWriteSize" {
				s := exprStr(x.Rhs[0])
				if !strings.HasPrefix(s, "uint32(") || !strings.HasSuffix(s, ".TransferSize)") {
					return fmt.Errorf("handleWrite: maxWriteSize := %s", s)
				}
				u32 = true
			}
		case *ast.IfStmt:
			switch exprStr(x.Cond) {
			case "maxWriteSize==0":
				if len(x.Body.List) == 1 {
					if a, ok := x.Body.List[0].(*ast.AssignStmt); ok && exprStr(a.Lhs[0]) == "maxWriteSize" {
						if v, ok := c.constVal(a.Rhs[0]); ok {
							fallback = v
						}
					}
				}
			case "count>maxWriteSize":
				if len(x.Body.List) == 1 {
					if r, ok := x.Body.List[0].(*ast.ReturnStmt); ok && len(r.Results) == 2 {
						if call, ok := r.Results[0].(*ast.CallExpr); ok && exprStr(call.Fun) == "nfsErrorWithWcc" && len(call.Args) == 2 {
							if v, ok := c.constVal(call.Args[1]); ok {
								status = v
							}
						}
					}
				}
			}
		}
	}
	if !u32 || fallback == "" || status == "" {
		return fmt.Errorf("handleWrite: count bound not recognised (uint32=%v fallback=%q status=%q)", u32, fallback, status)
	}
	fmt.Fprintf(b, "Definition f_write_bound_uint32 : bool := true.\n")
	fmt.Fprintf(b, "Definition f_write_zero_fallback : Z := %s.\n", fallback)
	fmt.Fprintf(b, "Definition f_write_bound_status : Z := %s.\n", status)

	// ReadWithContext: if count > int64(tuning.TransferSize) { count = int64(tuning.TransferSize) }
	fr := c.funcDecl("AbsfsNFS", "ReadWithContext")
	if fr == nil {
		return fmt.Errorf("ReadWithContext not found")
	}
	n := 0
	ast.Inspect(fr.Body, func(x ast.Node) bool {
		is, ok := x.(*ast.IfStmt)
		if ok && exprStr(is.Cond) == "count>int64(tuning.TransferSize)" && len(is.Body.List) == 1 &&
			exprStr2(is.Body.List[0]) == "count=int64(tuning.TransferSize)" {
			n++
		}
		return true
	})
	if n != 1 {
		return fmt.Errorf("ReadWithContext: expected one clamp `if count > int64(tuning.TransferSize) { count = ... }`, found %d", n)
	}
	fmt.Fprintf(b, "Definition f_read_clamp_int64 : bool := true.\n")
	return nil
}

func pagingFacts(c *ctxT) error {
	c.b.WriteString("\n(* ---- paging group (C26, C23): harness/tools/astfacts/x_paging.go ---- *)\n")
	if err := c.pagingLoop("NFSProcedureHandler", "handleReaddir", "readdir"); err != nil {
		return err
	}
	if err := c.pagingLoop("NFSProcedureHandler", "handleReaddirplus", "readdirplus"); err != nil {
		return err
	}
	return c.fsinfoFacts()
}
