package main

import (
	"fmt"
	"go/ast"
	"sort"
	"strings"
)

// Facts for C14 (reply shapes and status values):
//   c14_error_sites     : every call of an nfsError* helper with a CONSTANT status: (enclosing function, helper, value)
//   c14_dynamic_sites   : every call of an nfsError* helper with a computed status: (function, helper, expression);
//                         only `mapError(...)`, `status` (result of validateFilename / validateMode) and `errCode` are
//                         recognised expressions
//   c14_status_sources  : the constants those expressions can take: every `return <const>` of mapError, validateFilename
//                         and validateMode, every constant assigned to `errCode`
//   c14_direct_statuses : every `xdrEncodeUint32(&buf, X)` with X a named NFS_OK / NFSERR_* constant (status words the
//                         handlers write themselves): (function, value)
//   c14_handler_helpers : for every handler of the nfsHandlers table, the set of nfsError* helpers it uses
func init() { extractors = append(extractors, extractC14) }

var c14Helpers = map[string]bool{"nfsErrorReply": true, "nfsErrorWithPostOp": true, "nfsErrorWithWcc": true,
	"nfsErrorWithDoubleWcc": true, "nfsErrorWithPostOpAndWcc": true}

func extractC14(c *ctxT) error {
	type site struct{ fn, helper, val string }
	var consts, dyn []site
	var direct []site
	helpers := map[string]map[string]bool{}
	var srcs []site
	for _, f := range c.files {
		for _, d := range f.Decls {
			fd, ok := d.(*ast.FuncDecl)
			if !ok || fd.Body == nil {
				continue
			}
			fn := fd.Name.Name
			if c14Helpers[fn] {
				continue
			}
			var err error
			ast.Inspect(fd.Body, func(n ast.Node) bool {
				switch x := n.(type) {
				case *ast.CallExpr:
					name := exprString(x.Fun)
					if c14Helpers[name] {
						if len(x.Args) != 2 {
							err = fmt.Errorf("%s: %s called with %d arguments", fn, name, len(x.Args))
							return false
						}
						if helpers[fn] == nil {
							helpers[fn] = map[string]bool{}
						}
						helpers[fn][name] = true
						if v, ok := c.constVal(x.Args[1]); ok {
							consts = append(consts, site{fn, name, v})
						} else {
							e := exprString(x.Args[1])
							if e != "mapError()" && e != "status" && e != "errCode" {
								err = fmt.Errorf("%s: %s with unrecognised status expression %q", fn, name, e)
								return false
							}
							dyn = append(dyn, site{fn, name, e})
						}
					}
					if name == "xdrEncodeUint32" && len(x.Args) == 2 {
						if id, ok := x.Args[1].(*ast.Ident); ok && (id.Name == "NFS_OK" || strings.HasPrefix(id.Name, "NFSERR_")) {
							if v, ok := c.constVal(x.Args[1]); ok {
								direct = append(direct, site{fn, "", v})
							}
						}
					}
				case *ast.ReturnStmt:
					if fn == "mapError" || fn == "validateFilename" || fn == "validateMode" {
						if len(x.Results) != 1 {
							err = fmt.Errorf("%s: return with %d results", fn, len(x.Results))
							return false
						}
						v, ok := c.constVal(x.Results[0])
						if !ok {
							err = fmt.Errorf("%s: non-constant return", fn)
							return false
						}
						srcs = append(srcs, site{fn, "", v})
					}
				case *ast.AssignStmt:
					if len(x.Lhs) == 1 && len(x.Rhs) == 1 && exprString(x.Lhs[0]) == "errCode" {
						if v, ok := c.constVal(x.Rhs[0]); ok {
							srcs = append(srcs, site{"errCode", "", v})
						} else if e := exprString(x.Rhs[0]); e != "mapError()" {
							err = fmt.Errorf("%s: errCode assigned from %q", fn, e)
							return false
						}
					}
				}
				return true
			})
			if err != nil {
				return err
			}
		}
	}
	if len(consts) == 0 || len(srcs) == 0 {
		return fmt.Errorf("c14: no nfsError* call sites / status sources found")
	}
	less := func(a, b site) bool {
		if a.fn != b.fn {
			return a.fn < b.fn
		}
		if a.helper != b.helper {
			return a.helper < b.helper
		}
		return a.val < b.val
	}
	uniq := func(l []site) []site {
		sort.Slice(l, func(i, j int) bool { return less(l[i], l[j]) })
		var out []site
		for i, s := range l {
			if i == 0 || s != l[i-1] {
				out = append(out, s)
			}
		}
		return out
	}
	b := c.b
	b.WriteString("\n(* C14: nfsError* helper calls with a constant status: (function, helper, status) *)\n")
	b.WriteString("Definition c14_error_sites : list (string * string * Z) := [\n")
	for i, s := range uniq(consts) {
		sep := ";"
		if i == len(uniq(consts))-1 {
			sep = ""
		}
		b.WriteString(fmt.Sprintf("  (\"%s\"%%string, \"%s\"%%string, %s)%s\n", s.fn, s.helper, zlit(s.val), sep))
	}
	b.WriteString("].\n(* ... with a computed status: (function, helper, expression) *)\n")
	b.WriteString("Definition c14_dynamic_sites : list (string * string * string) := [\n")
	ud := uniq(dyn)
	for i, s := range ud {
		sep := ";"
		if i == len(ud)-1 {
			sep = ""
		}
		b.WriteString(fmt.Sprintf("  (\"%s\"%%string, \"%s\"%%string, \"%s\"%%string)%s\n", s.fn, s.helper, s.val, sep))
	}
	b.WriteString("].\n(* the constants the computed statuses range over: (source, value) *)\n")
	b.WriteString("Definition c14_status_sources : list (string * Z) := [")
	us := uniq(srcs)
	for i, s := range us {
		if i > 0 {
			b.WriteString("; ")
		}
		b.WriteString(fmt.Sprintf("(\"%s\"%%string, %s)", s.fn, zlit(s.val)))
	}
	b.WriteString("].\n(* status words written directly with xdrEncodeUint32 and a named NFS_OK / NFSERR constant: (function, value) *)\n")
	b.WriteString("Definition c14_direct_statuses : list (string * Z) := [")
	udr := uniq(direct)
	for i, s := range udr {
		if i > 0 {
			b.WriteString("; ")
		}
		b.WriteString(fmt.Sprintf("(\"%s\"%%string, %s)", s.fn, zlit(s.val)))
	}
	b.WriteString("].\n(* helpers used per function *)\nDefinition c14_handler_helpers : list (string * list string) := [\n")
	var fns []string
	for fn := range helpers {
		fns = append(fns, fn)
	}
	sort.Strings(fns)
	for i, fn := range fns {
		var hs []string
		for h := range helpers[fn] {
			hs = append(hs, "\""+h+"\"%string")
		}
		sort.Strings(hs)
		sep := ";"
		if i == len(fns)-1 {
			sep = ""
		}
		b.WriteString(fmt.Sprintf("  (\"%s\"%%string, [%s])%s\n", fn, strings.Join(hs, "; "), sep))
	}
	b.WriteString("].\n")
	return nil
}
