package main

// x_lts.go: structural facts for the transition-system group (C16 policy drain-and-swap, C17 connection lifecycle),
// read off options.go, nfs_handlers.go and server.go.  Properties/C16.v and C17.v compare them with what the LTS
// models assume (C16_facts / C17_facts), so that a change of the locking protocol breaks a named obligation.
// A missing function is a refusal; a different shape yields a different value (and a failed obligation).
//
//   f_lts_update_order          UpdatePolicyOptions, in source order:  1 policyMu.Lock  8 defer policyMu.Unlock
//                               2 policyRWMu.Lock  3 policy.Store  4 mu.Lock  5 rateLimiter = ...  6 mu.Unlock
//                               7 policyRWMu.Unlock
//   f_lts_tryrlock_guard        HandleCall: the first use of policyRWMu is `if !handler.policyRWMu.TryRLock() {`
//   f_lts_runlock_in_goroutine  HandleCall: `defer handler.policyRWMu.RUnlock()` opens the `go func() {...}` body and
//                               HandleCall itself defers no RUnlock
//   f_lts_limiter_per_request   handleConnectionLoop: currentRateLimiter() is called inside the request loop and the
//                               field rateLimiter is never read directly there
//   f_lts_limiter_locked_read   currentRateLimiter: n.mu.RLock(); defer n.mu.RUnlock(); return n.rateLimiter
//   f_lts_register_order        registerConnection, in source order: 1 connMutex.Lock  2 defer connMutex.Unlock
//                               3 connCount >= MaxConnections test  4 activeConns[conn] = ...  5 connCount++
//   f_lts_unregister_guarded    unregisterConnection: unregisterOnce.Do(func(){ ... if _, stillExists := ...; stillExists
//                               { delete(...); connCount-- } })
//   f_lts_stop_order            Stop, in source order: 1 cancel  2 listener.Close  3 closeAllConnections  4 wg.Wait
//   f_lts_stop_timeout_s        Stop: time.After(K * time.Second)

import (
	"bytes"
	"fmt"
	"go/ast"
	"go/printer"
	"go/token"
	"sort"
	"strings"
)

func init() { extractors = append(extractors, ltsFacts) }

func ltsSrc(n ast.Node) string {
	var b bytes.Buffer
	printer.Fprint(&b, fset, n)
	return strings.Join(strings.Fields(b.String()), " ")
}
func ltsBool(b bool) string {
	if b {
		return "true"
	}
	return "false"
}

type ltsHit struct {
	pos  token.Pos
	code int
}

// ltsOrder lists, in source order, the nodes of fn whose printed form satisfies one of the matchers.
func ltsOrder(fn *ast.FuncDecl, match func(n ast.Node, src string) int) []int {
	var hits []ltsHit
	ast.Inspect(fn.Body, func(n ast.Node) bool {
		switch n.(type) {
		case *ast.ExprStmt, *ast.DeferStmt, *ast.AssignStmt, *ast.IncDecStmt, *ast.IfStmt, *ast.BinaryExpr, *ast.CallExpr:
			var src string
			if ifs, ok := n.(*ast.IfStmt); ok {
				src = "if " + ltsSrc(ifs.Cond)
			} else {
				src = ltsSrc(n)
			}
			if c := match(n, src); c != 0 {
				hits = append(hits, ltsHit{n.Pos(), c})
			}
		}
		return true
	})
	sort.SliceStable(hits, func(i, j int) bool { return hits[i].pos < hits[j].pos })
	var out []int
	for _, h := range hits {
		out = append(out, h.code)
	}
	return out
}
func ltsList(xs []int) string {
	s := make([]string, len(xs))
	for i, x := range xs {
		s[i] = fmt.Sprint(x)
	}
	return "[" + strings.Join(s, "; ") + "]"
}

func ltsFacts(c *ctxT) error {
	need := func(recv, name string) (*ast.FuncDecl, error) {
		fd := c.funcDecl(recv, name)
		if fd == nil || fd.Body == nil {
			return nil, fmt.Errorf("lts: function %s.%s not found", recv, name)
		}
		return fd, nil
	}
	upd, err := need("AbsfsNFS", "UpdatePolicyOptions")
	if err != nil {
		return err
	}
	hc, err := need("NFSProcedureHandler", "HandleCall")
	if err != nil {
		return err
	}
	loop, err := need("Server", "handleConnectionLoop")
	if err != nil {
		return err
	}
	reg, err := need("Server", "registerConnection")
	if err != nil {
		return err
	}
	unreg, err := need("Server", "unregisterConnection")
	if err != nil {
		return err
	}
	stop, err := need("Server", "Stop")
	if err != nil {
		return err
	}
	b := c.b
	b.WriteString("\n(* transition-system group (C16, C17): locking protocol read off the source *)\n")

	// ---- UpdatePolicyOptions ----
	order := ltsOrder(upd, func(n ast.Node, src string) int {
		switch n.(type) {
		case *ast.ExprStmt:
			// the receiver's name is irrelevant: match the field and the method
			switch {
			case strings.HasSuffix(src, ".policyMu.Lock()"):
				return 1
			case strings.HasSuffix(src, ".policyRWMu.Lock()"):
				return 2
			case strings.HasSuffix(src, ".mu.Lock()"):
				return 4
			case strings.HasSuffix(src, ".mu.Unlock()"):
				return 6
			case strings.HasSuffix(src, ".policyRWMu.Unlock()"):
				return 7
			case strings.Contains(src, ".policy.Store("):
				return 3
			}
		case *ast.DeferStmt:
			if strings.HasSuffix(src, ".policyMu.Unlock()") {
				return 8
			}
		case *ast.AssignStmt:
			if strings.Contains(strings.SplitN(src, "=", 2)[0], ".rateLimiter") {
				return 5
			}
		}
		return 0
	})
	b.WriteString(fmt.Sprintf("Definition f_lts_update_order : list Z := %s.\n", ltsList(order)))

	// ---- HandleCall ----
	guard := false
	firstUse := token.NoPos
	ast.Inspect(hc.Body, func(n ast.Node) bool {
		if se, ok := n.(*ast.SelectorExpr); ok && se.Sel.Name == "policyRWMu" {
			if firstUse == token.NoPos || se.Pos() < firstUse {
				firstUse = se.Pos()
			}
		}
		return true
	})
	for _, st := range hc.Body.List {
		if ifs, ok := st.(*ast.IfStmt); ok && strings.HasPrefix(ltsSrc(ifs.Cond), "!") && strings.HasSuffix(ltsSrc(ifs.Cond), ".policyRWMu.TryRLock()") {
			guard = ifs.Cond.Pos() <= firstUse && firstUse <= ifs.Cond.End()
			// the guarded branch must leave HandleCall
			if n := len(ifs.Body.List); n == 0 {
				guard = false
			} else if _, ok := ifs.Body.List[n-1].(*ast.ReturnStmt); !ok {
				guard = false
			}
		}
	}
	b.WriteString(fmt.Sprintf("Definition f_lts_tryrlock_guard : bool := %s.\n", ltsBool(guard)))
	inGo, topDefer := false, false
	for _, st := range hc.Body.List {
		if d, ok := st.(*ast.DeferStmt); ok && strings.Contains(ltsSrc(d), "policyRWMu.RUnlock") {
			topDefer = true
		}
		if g, ok := st.(*ast.GoStmt); ok {
			if fl, ok := g.Call.Fun.(*ast.FuncLit); ok && len(fl.Body.List) > 0 {
				if d, ok := fl.Body.List[0].(*ast.DeferStmt); ok && strings.HasSuffix(ltsSrc(d), ".policyRWMu.RUnlock()") {
					inGo = true
				}
			}
		}
	}
	b.WriteString(fmt.Sprintf("Definition f_lts_runlock_in_goroutine : bool := %s.\n", ltsBool(inGo && !topDefer)))

	// ---- handleConnectionLoop ----
	perReq, direct := false, false
	ast.Inspect(loop.Body, func(n ast.Node) bool {
		if fs, ok := n.(*ast.ForStmt); ok {
			ast.Inspect(fs.Body, func(m ast.Node) bool {
				if ce, ok := m.(*ast.CallExpr); ok && strings.HasSuffix(ltsSrc(ce), ".currentRateLimiter()") {
					if as, ok := findAssign(fs.Body, ce); ok && as {
						perReq = true
					}
				}
				return true
			})
		}
		if se, ok := n.(*ast.SelectorExpr); ok && se.Sel.Name == "rateLimiter" {
			direct = true
		}
		return true
	})
	b.WriteString(fmt.Sprintf("Definition f_lts_limiter_per_request : bool := %s.\n", ltsBool(perReq && !direct)))
	cur := c.funcDecl("AbsfsNFS", "currentRateLimiter")
	locked := false
	if cur != nil && cur.Body != nil && len(cur.Body.List) == 3 {
		locked = strings.HasSuffix(ltsSrc(cur.Body.List[0]), ".mu.RLock()") && strings.HasSuffix(ltsSrc(cur.Body.List[1]), ".mu.RUnlock()") &&
			strings.HasSuffix(ltsSrc(cur.Body.List[2]), ".rateLimiter")
	}
	b.WriteString(fmt.Sprintf("Definition f_lts_limiter_locked_read : bool := %s.\n", ltsBool(locked)))

	// ---- registerConnection ----
	rorder := ltsOrder(reg, func(n ast.Node, src string) int {
		switch n.(type) {
		case *ast.ExprStmt:
			if strings.HasSuffix(src, ".connMutex.Lock()") {
				return 1
			}
		case *ast.DeferStmt:
			if strings.HasSuffix(src, ".connMutex.Unlock()") {
				return 2
			}
		case *ast.BinaryExpr:
			if n.(*ast.BinaryExpr).Op == token.GEQ && strings.Contains(src, ".connCount >= ") && strings.HasSuffix(src, ".MaxConnections") {
				return 3
			}
		case *ast.AssignStmt:
			if strings.Contains(strings.SplitN(src, "=", 2)[0], ".activeConns[") {
				return 4
			}
		case *ast.IncDecStmt:
			if strings.HasSuffix(src, ".connCount++") {
				return 5
			}
		}
		return 0
	})
	b.WriteString(fmt.Sprintf("Definition f_lts_register_order : list Z := %s.\n", ltsList(rorder)))

	// ---- unregisterConnection ----
	guarded := false
	ast.Inspect(unreg.Body, func(n ast.Node) bool {
		ce, ok := n.(*ast.CallExpr)
		if !ok || !strings.HasSuffix(ltsSrc(ce.Fun), ".unregisterOnce.Do") || len(ce.Args) != 1 {
			return true
		}
		fl, ok := ce.Args[0].(*ast.FuncLit)
		if !ok {
			return true
		}
		ast.Inspect(fl.Body, func(m ast.Node) bool {
			ifs, ok := m.(*ast.IfStmt)
			if !ok || ifs.Init == nil || !strings.Contains(ltsSrc(ifs.Init), ".activeConns[") || !strings.HasPrefix(ltsSrc(ifs.Init), "_, "+ltsSrc(ifs.Cond)+" :=") {
				return true
			}
			del, dec := false, false
			for _, st := range ifs.Body.List {
				switch x := ltsSrc(st); {
				case strings.HasPrefix(x, "delete(") && strings.Contains(x, ".activeConns,"):
					del = true
				case strings.HasSuffix(x, ".connCount--"):
					dec = true
				}
			}
			// and no decrement anywhere outside this guarded block
			outside := false
			ast.Inspect(unreg.Body, func(k ast.Node) bool {
				if id, ok := k.(*ast.IncDecStmt); ok && strings.HasSuffix(ltsSrc(id), ".connCount--") && !(ifs.Body.Pos() <= id.Pos() && id.End() <= ifs.Body.End()) {
					outside = true
				}
				return true
			})
			guarded = del && dec && !outside
			return true
		})
		return true
	})
	b.WriteString(fmt.Sprintf("Definition f_lts_unregister_guarded : bool := %s.\n", ltsBool(guarded)))

	// ---- Stop ----
	sorder := ltsOrder(stop, func(n ast.Node, src string) int {
		if _, ok := n.(*ast.ExprStmt); ok {
			switch {
			case strings.HasSuffix(src, ".cancel()"):
				return 1
			case strings.HasSuffix(src, ".listener.Close()"):
				return 2
			case strings.HasSuffix(src, ".closeAllConnections()"):
				return 3
			case strings.HasSuffix(src, ".wg.Wait()"):
				return 4
			}
		}
		return 0
	})
	b.WriteString(fmt.Sprintf("Definition f_lts_stop_order : list Z := %s.\n", ltsList(sorder)))
	timeout := "0"
	ast.Inspect(stop.Body, func(n ast.Node) bool {
		ce, ok := n.(*ast.CallExpr)
		if !ok || ltsSrc(ce.Fun) != "time.After" || len(ce.Args) != 1 {
			return true
		}
		if be, ok := ce.Args[0].(*ast.BinaryExpr); ok && be.Op == token.MUL && ltsSrc(be.Y) == "time.Second" {
			if v, ok := c.constVal(be.X); ok {
				timeout = v
			} else if lit, ok := be.X.(*ast.BasicLit); ok {
				timeout = lit.Value
			}
		}
		return true
	})
	b.WriteString(fmt.Sprintf("Definition f_lts_stop_timeout_s : Z := %s.\n", timeout))
	return nil
}

// findAssign reports whether call is the right-hand side of an assignment statement somewhere in body.
func findAssign(body *ast.BlockStmt, call *ast.CallExpr) (bool, bool) {
	found := false
	ast.Inspect(body, func(n ast.Node) bool {
		if as, ok := n.(*ast.AssignStmt); ok && len(as.Rhs) == 1 && as.Rhs[0] == ast.Expr(call) {
			found = true
		}
		return true
	})
	return found, true
}
