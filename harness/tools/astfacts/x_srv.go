package main

import (
	"fmt"
	"go/ast"
	"sort"
	"strings"
)

// Facts about the procedure handlers (C08, C14):
//   nfs_dispatch       : the nfsHandlers table, procedure constant name -> handler name
//   ro_guard_first     : for every handler of a mutating procedure, whether its first statement is
//                        `if <...>.ReadOnly { return nfsError...(reply, NFSERR_ROFS), nil }`
//                        (MKNOD and LINK: whether every return is an unconditional NOTSUPP error reply)
func init() { extractors = append(extractors, extractSrv) }

var mutatingHandlers = []string{"handleSetattr", "handleWrite", "handleCreate", "handleMkdir", "handleSymlink",
	"handleRemove", "handleRmdir", "handleRename", "handleCommit"}
var notsuppHandlers = []string{"handleMknod", "handleLink"}

func exprString(e ast.Expr) string {
	switch x := e.(type) {
	case *ast.Ident:
		return x.Name
	case *ast.SelectorExpr:
		return exprString(x.X) + "." + x.Sel.Name
	case *ast.CallExpr:
		return exprString(x.Fun) + "()"
	case *ast.StarExpr:
		return "*" + exprString(x.X)
	case *ast.ParenExpr:
		return "(" + exprString(x.X) + ")"
	}
	return "?"
}

func isROGuard(st ast.Stmt) bool {
	ifs, ok := st.(*ast.IfStmt)
	if !ok || ifs.Init != nil || ifs.Else != nil {
		return false
	}
	if !strings.HasSuffix(exprString(ifs.Cond), "policy.Load().ReadOnly") {
		return false
	}
	if len(ifs.Body.List) != 1 {
		return false
	}
	ret, ok := ifs.Body.List[0].(*ast.ReturnStmt)
	if !ok || len(ret.Results) != 2 {
		return false
	}
	call, ok := ret.Results[0].(*ast.CallExpr)
	if !ok || len(call.Args) != 2 || !strings.HasPrefix(exprString(call.Fun), "nfsError") {
		return false
	}
	return exprString(call.Args[1]) == "NFSERR_ROFS"
}

func extractSrv(c *ctxT) error {
	// dispatch table
	var table *ast.CompositeLit
	for _, f := range c.files {
		for _, d := range f.Decls {
			gd, ok := d.(*ast.GenDecl)
			if !ok {
				continue
			}
			for _, sp := range gd.Specs {
				vs, ok := sp.(*ast.ValueSpec)
				if !ok || len(vs.Names) != 1 || vs.Names[0].Name != "nfsHandlers" || len(vs.Values) != 1 {
					continue
				}
				table, _ = vs.Values[0].(*ast.CompositeLit)
			}
		}
	}
	if table == nil {
		return fmt.Errorf("nfsHandlers composite literal not found")
	}
	type ent struct{ proc, handler string }
	var ents []ent
	for _, el := range table.Elts {
		kv, ok := el.(*ast.KeyValueExpr)
		if !ok {
			return fmt.Errorf("nfsHandlers: unexpected element")
		}
		sel, ok := kv.Value.(*ast.SelectorExpr)
		if !ok {
			return fmt.Errorf("nfsHandlers: value is not a method expression")
		}
		ents = append(ents, ent{exprString(kv.Key), sel.Sel.Name})
	}
	sort.Slice(ents, func(i, j int) bool { return ents[i].proc < ents[j].proc })
	c.b.WriteString("\n(* nfsHandlers dispatch table: (procedure number, handler) *)\nDefinition nfs_dispatch : list (Z * string) := [\n")
	for i, e := range ents {
		sep := ";"
		if i == len(ents)-1 {
			sep = ""
		}
		c.b.WriteString(fmt.Sprintf("  (c_%s, \"%s\"%%string)%s\n", e.proc, e.handler, sep))
	}
	c.b.WriteString("].\n")
	// read-only guards
	var flags, names []string
	for _, h := range mutatingHandlers {
		fd := c.funcDecl("NFSProcedureHandler", h)
		if fd == nil || fd.Body == nil || len(fd.Body.List) == 0 {
			return fmt.Errorf("handler %s not found", h)
		}
		flags = append(flags, fmt.Sprint(isROGuard(fd.Body.List[0])))
		names = append(names, h)
	}
	for _, h := range notsuppHandlers {
		fd := c.funcDecl("NFSProcedureHandler", h)
		if fd == nil || fd.Body == nil {
			return fmt.Errorf("handler %s not found", h)
		}
		ok := true
		nret := 0
		ast.Inspect(fd.Body, func(n ast.Node) bool {
			if ret, isRet := n.(*ast.ReturnStmt); isRet {
				nret++
				if len(ret.Results) != 2 {
					ok = false
					return true
				}
				call, isCall := ret.Results[0].(*ast.CallExpr)
				if !isCall || len(call.Args) != 2 || !strings.HasPrefix(exprString(call.Fun), "nfsError") {
					ok = false
					return true
				}
				a := exprString(call.Args[1])
				if a != "NFSERR_NOTSUPP" && a != "mapError()" {
					ok = false
				}
			}
			return true
		})
		// no backend call at all in these handlers
		ast.Inspect(fd.Body, func(n ast.Node) bool {
			if sel, isSel := n.(*ast.SelectorExpr); isSel && (sel.Sel.Name == "fs" || sel.Sel.Name == "handler") {
				ok = false
			}
			return true
		})
		flags = append(flags, fmt.Sprint(ok && nret == 1))
		names = append(names, h)
	}
	c.b.WriteString("\n(* first statement of each mutating handler is the ReadOnly guard (MKNOD/LINK: unconditional NOTSUPP, no backend access): " + strings.Join(names, " ") + " *)\n")
	c.b.WriteString("Definition ro_guard_first : list bool := [" + strings.Join(flags, "; ") + "].\n")
	return nil
}
