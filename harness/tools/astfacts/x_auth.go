// x_auth.go: structural facts of auth.go / rpc_types.go / nfs_handlers.go for C09 and C10.
//
//   - the auxiliary-gid limit of ParseAuthSysCredential (`if gidCount > 16`) and the string limit
//     of byteReader.readString;
//   - the case labels of applySquashing's switch over strings.ToLower(squash), whether it has a
//     default, and the single id every squashing assignment uses (65534);
//   - ValidateAuthentication: the order host filter -> secure port -> flavour switch, the
//     privileged-port bound, the flavour case labels;
//   - HandleCall: ValidateAuthentication is called before either program dispatcher and a
//     not-Allowed result returns at once with reply.Status = MSG_DENIED.
//
// Every recogniser returns an error on a shape it does not know.
package main

import (
	"fmt"
	"go/ast"
	"go/token"
	"strconv"
	"strings"
)

func init() { extractors = append(extractors, authFacts) }

func authSel(e ast.Expr) string {
	switch x := e.(type) {
	case *ast.Ident:
		return x.Name
	case *ast.SelectorExpr:
		p := authSel(x.X)
		if p == "" {
			return ""
		}
		return p + "." + x.Sel.Name
	case *ast.ParenExpr:
		return authSel(x.X)
	}
	return ""
}

// authCmpConst: `<sel> <op> <const>` -> value of the constant.
func (c *ctxT) authCmpConst(e ast.Expr, sel string, op token.Token) (string, bool) {
	b, ok := e.(*ast.BinaryExpr)
	if !ok || b.Op != op || authSel(b.X) != sel {
		return "", false
	}
	return c.constVal(b.Y)
}

func authEndsInReturn(b *ast.BlockStmt) bool {
	if len(b.List) == 0 {
		return false
	}
	_, ok := b.List[len(b.List)-1].(*ast.ReturnStmt)
	return ok
}

func authCoqStrList(xs []string) string {
	q := make([]string, len(xs))
	for i, x := range xs {
		q[i] = "\"" + strings.ReplaceAll(x, "\"", "\"\"") + "\"%string"
	}
	return "[" + strings.Join(q, "; ") + "]"
}

func authFacts(c *ctxT) error {
	b := c.b
	b.WriteString("\n(* auth facts (x_auth.go) *)\n")

	// --- ParseAuthSysCredential: the auxiliary gid limit ---
	fd := c.funcDecl("", "ParseAuthSysCredential")
	if fd == nil {
		return fmt.Errorf("ParseAuthSysCredential not found")
	}
	limit := ""
	for _, s := range fd.Body.List {
		if is, ok := s.(*ast.IfStmt); ok && is.Init == nil {
			if v, ok := c.authCmpConst(is.Cond, "gidCount", token.GTR); ok && authEndsInReturn(is.Body) {
				if limit != "" {
					return fmt.Errorf("ParseAuthSysCredential: two gidCount limits")
				}
				limit = v
			}
		}
	}
	if limit == "" {
		return fmt.Errorf("ParseAuthSysCredential: `if gidCount > <const> { ... return }` not found")
	}
	fmt.Fprintf(b, "Definition f_auth_max_aux_gids : Z := %s.\n", zlit(limit))

	// --- byteReader.readString: the length limit ---
	fd = c.funcDecl("byteReader", "readString")
	if fd == nil {
		return fmt.Errorf("byteReader.readString not found")
	}
	limit = ""
	for _, s := range fd.Body.List {
		if is, ok := s.(*ast.IfStmt); ok && is.Init == nil {
			if v, ok := c.authCmpConst(is.Cond, "length", token.GTR); ok && authEndsInReturn(is.Body) {
				limit = v
			}
		}
	}
	if limit == "" {
		return fmt.Errorf("byteReader.readString: `if length > <const> { return }` not found")
	}
	fmt.Fprintf(b, "Definition f_auth_string_limit : Z := %s.\n", zlit(limit))

	// --- applySquashing: labels, default, the squash id ---
	fd = c.funcDecl("", "applySquashing")
	if fd == nil {
		return fmt.Errorf("applySquashing not found")
	}
	if len(fd.Body.List) != 1 {
		return fmt.Errorf("applySquashing: body is not a single switch")
	}
	sw, ok := fd.Body.List[0].(*ast.SwitchStmt)
	if !ok || sw.Init != nil {
		return fmt.Errorf("applySquashing: body is not a single switch")
	}
	if call, ok := sw.Tag.(*ast.CallExpr); !ok || authSel(call.Fun) != "strings.ToLower" || len(call.Args) != 1 || authSel(call.Args[0]) != "squash" {
		return fmt.Errorf("applySquashing: switch tag is not strings.ToLower(squash)")
	}
	var clauses []string
	hasDefault := false
	for _, s := range sw.Body.List {
		cc := s.(*ast.CaseClause)
		if cc.List == nil {
			hasDefault = true
			continue
		}
		var labels []string
		for _, e := range cc.List {
			lit, ok := e.(*ast.BasicLit)
			if !ok || lit.Kind != token.STRING {
				return fmt.Errorf("applySquashing: non-literal case label")
			}
			v, err := strconv.Unquote(lit.Value)
			if err != nil {
				return err
			}
			labels = append(labels, v)
		}
		clauses = append(clauses, authCoqStrList(labels))
	}
	fmt.Fprintf(b, "Definition f_auth_squash_labels : list (list string) := [%s].\n", strings.Join(clauses, "; "))
	fmt.Fprintf(b, "Definition f_auth_squash_has_default : bool := %v.\n", hasDefault)

	ids := map[string]bool{}
	collect := func(n ast.Node) {
		ast.Inspect(n, func(x ast.Node) bool {
			switch v := x.(type) {
			case *ast.AssignStmt:
				for i, l := range v.Lhs {
					if i >= len(v.Rhs) {
						break
					}
					p := authSel(l)
					_, isIdx := l.(*ast.IndexExpr)
					if strings.HasSuffix(p, ".UID") || strings.HasSuffix(p, ".GID") || isIdx {
						if lit, ok := v.Rhs[i].(*ast.BasicLit); ok && lit.Kind == token.INT {
							ids[lit.Value] = true
						}
					}
				}
			case *ast.KeyValueExpr:
				if k, ok := v.Key.(*ast.Ident); ok && (k.Name == "UID" || k.Name == "GID") {
					if lit, ok := v.Value.(*ast.BasicLit); ok && lit.Kind == token.INT {
						ids[lit.Value] = true
					}
				}
			}
			return true
		})
	}
	collect(fd.Body)

	// --- ValidateAuthentication ---
	fd = c.funcDecl("", "ValidateAuthentication")
	if fd == nil {
		return fmt.Errorf("ValidateAuthentication not found")
	}
	collect(fd.Body)
	if len(ids) != 1 {
		return fmt.Errorf("squashing assigns %d distinct id literals, expected exactly one", len(ids))
	}
	for k := range ids {
		fmt.Fprintf(b, "Definition f_auth_nobody : Z := %s.\n", k)
	}
	var order []string
	port := ""
	var flavors []string
	flavorDefault := false
	for _, s := range fd.Body.List {
		switch v := s.(type) {
		case *ast.IfStmt:
			cond := ""
			ast.Inspect(v.Cond, func(x ast.Node) bool {
				if e, ok := x.(ast.Expr); ok {
					switch authSel(e) {
					case "policy.AllowedIPs":
						cond = "AllowedIPs"
					case "policy.Secure":
						cond = "Secure"
					}
				}
				return true
			})
			if cond == "" {
				return fmt.Errorf("ValidateAuthentication: unexpected top-level if")
			}
			order = append(order, cond)
			if cond == "Secure" {
				if authSel(v.Cond) != "policy.Secure" || len(v.Body.List) != 1 {
					return fmt.Errorf("ValidateAuthentication: secure-port step has an unexpected shape")
				}
				inner, ok := v.Body.List[0].(*ast.IfStmt)
				if !ok || !authEndsInReturn(inner.Body) {
					return fmt.Errorf("ValidateAuthentication: secure-port step has an unexpected shape")
				}
				pv, ok := c.authCmpConst(inner.Cond, "ctx.ClientPort", token.GEQ)
				if !ok {
					return fmt.Errorf("ValidateAuthentication: `ctx.ClientPort >= <const>` not found")
				}
				port = pv
			}
			if cond == "AllowedIPs" {
				// if len(policy.AllowedIPs) > 0 { if !isIPAllowed(ctx.ClientIP, policy.AllowedIPs) { ...; return result } }
				if len(v.Body.List) != 1 {
					return fmt.Errorf("ValidateAuthentication: host-filter step has an unexpected shape")
				}
				inner, ok := v.Body.List[0].(*ast.IfStmt)
				if !ok || !authEndsInReturn(inner.Body) {
					return fmt.Errorf("ValidateAuthentication: host-filter step has an unexpected shape")
				}
				u, ok := inner.Cond.(*ast.UnaryExpr)
				if !ok || u.Op != token.NOT {
					return fmt.Errorf("ValidateAuthentication: host-filter condition is not a negated call")
				}
				call, ok := u.X.(*ast.CallExpr)
				if !ok || authSel(call.Fun) != "isIPAllowed" || len(call.Args) != 2 ||
					authSel(call.Args[0]) != "ctx.ClientIP" || authSel(call.Args[1]) != "policy.AllowedIPs" {
					return fmt.Errorf("ValidateAuthentication: host-filter call is not isIPAllowed(ctx.ClientIP, policy.AllowedIPs)")
				}
			}
		case *ast.SwitchStmt:
			if authSel(v.Tag) != "ctx.Credential.Flavor" {
				return fmt.Errorf("ValidateAuthentication: unexpected switch")
			}
			order = append(order, "Flavor")
			for _, cs := range v.Body.List {
				cc := cs.(*ast.CaseClause)
				if cc.List == nil {
					flavorDefault = true
					if !authEndsInReturn(&ast.BlockStmt{List: cc.Body}) {
						return fmt.Errorf("ValidateAuthentication: default flavour clause does not return")
					}
					continue
				}
				for _, e := range cc.List {
					fv, ok := c.constVal(e)
					if !ok {
						return fmt.Errorf("ValidateAuthentication: non-constant flavour label")
					}
					flavors = append(flavors, fv)
				}
			}
		}
	}
	fmt.Fprintf(b, "Definition f_auth_validate_order : list string := %s.\n", authCoqStrList(order))
	if port == "" {
		return fmt.Errorf("ValidateAuthentication: secure-port step not found")
	}
	fmt.Fprintf(b, "Definition f_auth_privileged_port_limit : Z := %s.\n", zlit(port))
	fmt.Fprintf(b, "Definition f_auth_flavor_cases : list Z := [%s].\n", strings.Join(flavors, "; "))
	fmt.Fprintf(b, "Definition f_auth_flavor_default_denies : bool := %v.\n", flavorDefault)

	// --- HandleCall: the authentication gate precedes every dispatcher ---
	fd = c.funcDecl("NFSProcedureHandler", "HandleCall")
	if fd == nil {
		return fmt.Errorf("HandleCall not found")
	}
	gate := false
	var gatePos token.Pos
	for i, s := range fd.Body.List {
		as, ok := s.(*ast.AssignStmt)
		if !ok || len(as.Lhs) != 1 || len(as.Rhs) != 1 || authSel(as.Lhs[0]) != "authResult" {
			continue
		}
		call, ok := as.Rhs[0].(*ast.CallExpr)
		if !ok || authSel(call.Fun) != "ValidateAuthentication" {
			continue
		}
		if i+1 >= len(fd.Body.List) {
			return fmt.Errorf("HandleCall: nothing follows ValidateAuthentication")
		}
		is, ok := fd.Body.List[i+1].(*ast.IfStmt)
		if !ok {
			return fmt.Errorf("HandleCall: ValidateAuthentication is not followed by the Allowed test")
		}
		u, ok := is.Cond.(*ast.UnaryExpr)
		if !ok || u.Op != token.NOT || authSel(u.X) != "authResult.Allowed" || !authEndsInReturn(is.Body) {
			return fmt.Errorf("HandleCall: the Allowed test has an unexpected shape")
		}
		denied := false
		called := false
		ast.Inspect(is.Body, func(x ast.Node) bool {
			switch v := x.(type) {
			case *ast.AssignStmt:
				if len(v.Lhs) == 1 && len(v.Rhs) == 1 && authSel(v.Lhs[0]) == "reply.Status" && authSel(v.Rhs[0]) == "MSG_DENIED" {
					denied = true
				}
			case *ast.CallExpr:
				n := authSel(v.Fun)
				if strings.HasSuffix(n, "handleMountCall") || strings.HasSuffix(n, "handleNFSCall") {
					called = true
				}
			}
			return true
		})
		if !denied || called {
			return fmt.Errorf("HandleCall: the denied branch does not set MSG_DENIED or calls a dispatcher")
		}
		gate = true
		gatePos = s.Pos()
	}
	if !gate {
		return fmt.Errorf("HandleCall: authResult := ValidateAuthentication(...) not found at top level")
	}
	early := false
	ndisp := 0
	ast.Inspect(fd.Body, func(x ast.Node) bool {
		if call, ok := x.(*ast.CallExpr); ok {
			n := authSel(call.Fun)
			if strings.HasSuffix(n, "handleMountCall") || strings.HasSuffix(n, "handleNFSCall") {
				ndisp++
				if call.Pos() < gatePos {
					early = true
				}
			}
		}
		return true
	})
	if ndisp == 0 {
		return fmt.Errorf("HandleCall: no dispatcher call found")
	}
	fmt.Fprintf(b, "Definition f_handlecall_auth_gate_first : bool := %v.\n", !early)
	return nil
}
