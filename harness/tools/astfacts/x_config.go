// x_config.go: structural facts for the "config" group (C24 runtime reconfiguration, C28 start paths,
// C30 TLS).  Everything is read off the syntax of /repo's current sources; a shape that is not
// recognised is an error (astfacts exits 1), never a guess.
package main

import (
	"fmt"
	"go/ast"
	"go/token"
	"go/types"
	"regexp"
	"sort"
	"strings"
)

func init() { extractors = append(extractors, configExtractor) }

type cfgDefault struct {
	field string
	expr  string // Coq term of type cfg_dexpr
}

func es(e ast.Expr) string { return types.ExprString(e) }

// defaultExpr renders the right-hand side of a defaulting assignment.
func (c *ctxT) defaultExpr(e ast.Expr) (string, error) {
	if v, ok := c.constVal(e); ok {
		return "CfgConst " + zlit(v), nil
	}
	if b, ok := e.(*ast.BinaryExpr); ok && b.Op == token.MUL {
		if es(b.X) == "runtime.NumCPU()" {
			if v, ok := c.constVal(b.Y); ok {
				return "CfgNumCPUTimes " + zlit(v), nil
			}
		}
		if es(b.Y) == "runtime.NumCPU()" {
			if v, ok := c.constVal(b.X); ok {
				return "CfgNumCPUTimes " + zlit(v), nil
			}
		}
	}
	return "", fmt.Errorf("default value %q is neither a constant nor runtime.NumCPU()*k", es(e))
}

// leDefault recognises   if <recv>.<F> <= 0 { <recv>.<F> = E }   and returns (F, E).
func (c *ctxT) leDefault(s *ast.IfStmt, recv string) (string, string, bool, error) {
	cond := es(s.Cond)
	re := regexp.MustCompile(`^` + regexp.QuoteMeta(recv) + `\.([A-Za-z0-9_]+) <= 0$`)
	m := re.FindStringSubmatch(cond)
	if m == nil {
		return "", "", false, nil
	}
	if s.Init != nil || s.Else != nil || len(s.Body.List) != 1 {
		return "", "", true, fmt.Errorf("defaulting statement for %s has an unexpected shape (init/else/body)", cond)
	}
	as, ok := s.Body.List[0].(*ast.AssignStmt)
	if !ok || as.Tok != token.ASSIGN || len(as.Lhs) != 1 || len(as.Rhs) != 1 || es(as.Lhs[0]) != recv+"."+m[1] {
		return "", "", true, fmt.Errorf("body of `if %s` is not `%s.%s = <default>`", cond, recv, m[1])
	}
	e, err := c.defaultExpr(as.Rhs[0])
	if err != nil {
		return "", "", true, fmt.Errorf("%s: %v", cond, err)
	}
	return m[1], e, true, nil
}

func coqStrList(xs []string) string {
	q := make([]string, len(xs))
	for i, x := range xs {
		q[i] = fmt.Sprintf("%q%%string", x)
	}
	return "[" + strings.Join(q, "; ") + "]"
}

func coqDefaults(ds []cfgDefault) string {
	q := make([]string, len(ds))
	for i, d := range ds {
		q[i] = fmt.Sprintf("(%q%%string, %s)", d.field, d.expr)
	}
	return "[" + strings.Join(q, "; ") + "]"
}

func coqBool(b bool) string {
	if b {
		return "true"
	}
	return "false"
}

func structFields(c *ctxT, name string, exportedOnly bool) ([]string, error) {
	for _, f := range c.files {
		for _, d := range f.Decls {
			gd, ok := d.(*ast.GenDecl)
			if !ok || gd.Tok != token.TYPE {
				continue
			}
			for _, sp := range gd.Specs {
				ts := sp.(*ast.TypeSpec)
				if ts.Name.Name != name {
					continue
				}
				st, ok := ts.Type.(*ast.StructType)
				if !ok {
					return nil, fmt.Errorf("%s is not a struct", name)
				}
				var out []string
				for _, fl := range st.Fields.List {
					for _, n := range fl.Names {
						if !exportedOnly || n.IsExported() {
							out = append(out, n.Name)
						}
					}
				}
				return out, nil
			}
		}
	}
	return nil, fmt.Errorf("struct %s not found", name)
}

// fieldsCopied lists the fields of the composite literal of type lit built in fn, plus the fields assigned
// afterwards through `<v>.<F> = ...` anywhere in the body.
func fieldsCopied(fd *ast.FuncDecl, lit, v string) []string {
	set := map[string]bool{}
	ast.Inspect(fd.Body, func(n ast.Node) bool {
		switch x := n.(type) {
		case *ast.CompositeLit:
			if es(x.Type) == lit {
				for _, el := range x.Elts {
					if kv, ok := el.(*ast.KeyValueExpr); ok {
						set[es(kv.Key)] = true
					}
				}
			}
		case *ast.AssignStmt:
			for _, l := range x.Lhs {
				if s := es(l); strings.HasPrefix(s, v+".") && !strings.Contains(s[len(v)+1:], ".") {
					set[s[len(v)+1:]] = true
				}
			}
		}
		return true
	})
	var out []string
	for k := range set {
		out = append(out, k)
	}
	sort.Strings(out)
	return out
}

func configExtractor(c *ctxT) error {
	b := c.b
	b.WriteString("\n(* ---- config group (C24, C28, C30): harness/tools/astfacts/x_config.go ---- *)\n")
	b.WriteString("(* a default value: a constant (durations in ns) or runtime.NumCPU()*k *)\n")
	b.WriteString("Inductive cfg_dexpr := CfgConst (z : Z) | CfgNumCPUTimes (k : Z).\n")

	// ---------- New ----------
	fdNew := c.funcDecl("", "New")
	if fdNew == nil {
		return fmt.Errorf("func New not found")
	}
	var newDefs, newToNil, newToFill []cfgDefault
	var tcpForced []string
	newRlc := false
	sawTimeouts := false
	for _, st := range fdNew.Body.List {
		switch s := st.(type) {
		case *ast.AssignStmt:
			for _, l := range s.Lhs {
				if strings.HasPrefix(es(l), "options.") {
					return fmt.Errorf("New: unconditional assignment to %s", es(l))
				}
			}
		case *ast.IfStmt:
			cond := es(s.Cond)
			if f, e, is, err := c.leDefault(s, "options"); is {
				if err != nil {
					return fmt.Errorf("New: %v", err)
				}
				newDefs = append(newDefs, cfgDefault{f, e})
				continue
			}
			switch cond {
			case "!options.hasExplicitTCPSettings":
				for _, bs := range s.Body.List {
					as, ok := bs.(*ast.AssignStmt)
					if !ok || len(as.Lhs) != 1 || es(as.Rhs[0]) != "true" || !strings.HasPrefix(es(as.Lhs[0]), "options.") {
						return fmt.Errorf("New: unexpected statement under !options.hasExplicitTCPSettings")
					}
					tcpForced = append(tcpForced, strings.TrimPrefix(es(as.Lhs[0]), "options."))
				}
			case "options.RateLimitConfig == nil":
				if len(s.Body.List) != 2 || s.Else != nil {
					return fmt.Errorf("New: unexpected RateLimitConfig defaulting")
				}
				a0, ok0 := s.Body.List[0].(*ast.AssignStmt)
				a1, ok1 := s.Body.List[1].(*ast.AssignStmt)
				if !ok0 || !ok1 || es(a0.Rhs[0]) != "DefaultRateLimiterConfig()" || es(a1.Lhs[0]) != "options.RateLimitConfig" ||
					es(a1.Rhs[0]) != "&"+es(a0.Lhs[0]) {
					return fmt.Errorf("New: RateLimitConfig is not defaulted to DefaultRateLimiterConfig()")
				}
				newRlc = true
			case "options.Timeouts == nil":
				sawTimeouts = true
				if len(s.Body.List) != 1 {
					return fmt.Errorf("New: unexpected Timeouts == nil branch")
				}
				as, ok := s.Body.List[0].(*ast.AssignStmt)
				if !ok || es(as.Lhs[0]) != "options.Timeouts" {
					return fmt.Errorf("New: Timeouts == nil branch does not assign options.Timeouts")
				}
				ue, ok := as.Rhs[0].(*ast.UnaryExpr)
				if !ok || ue.Op != token.AND {
					return fmt.Errorf("New: Timeouts default is not &TimeoutConfig{...}")
				}
				cl, ok := ue.X.(*ast.CompositeLit)
				if !ok || es(cl.Type) != "TimeoutConfig" {
					return fmt.Errorf("New: Timeouts default is not &TimeoutConfig{...}")
				}
				for _, el := range cl.Elts {
					kv, ok := el.(*ast.KeyValueExpr)
					if !ok {
						return fmt.Errorf("New: positional TimeoutConfig literal")
					}
					e, err := c.defaultExpr(kv.Value)
					if err != nil {
						return fmt.Errorf("New: Timeouts.%s: %v", es(kv.Key), err)
					}
					newToNil = append(newToNil, cfgDefault{es(kv.Key), e})
				}
				eb, ok := s.Else.(*ast.BlockStmt)
				if !ok {
					return fmt.Errorf("New: Timeouts != nil branch missing")
				}
				for _, bs := range eb.List {
					is, ok := bs.(*ast.IfStmt)
					if !ok {
						return fmt.Errorf("New: unexpected statement in the Timeouts fill branch")
					}
					f, e, rec, err := c.leDefault(is, "options.Timeouts")
					if !rec || err != nil {
						return fmt.Errorf("New: unexpected statement in the Timeouts fill branch: %v", err)
					}
					newToFill = append(newToFill, cfgDefault{f, e})
				}
			default:
				if strings.Contains(cond, "options.") && (strings.Contains(cond, "<= 0") || strings.Contains(cond, "== 0") ||
					strings.Contains(cond, "< 0") || strings.Contains(cond, "== nil")) {
					return fmt.Errorf("New: unrecognised defaulting condition %q", cond)
				}
			}
		}
	}
	if !sawTimeouts {
		return fmt.Errorf("New: no Timeouts defaulting found")
	}
	b.WriteString("(* New: `if options.F <= 0 { options.F = d }` in source order *)\n")
	b.WriteString("Definition cfg_new_defaults : list (string * cfg_dexpr) := " + coqDefaults(newDefs) + ".\n")
	b.WriteString("(* New: the TimeoutConfig literal used when options.Timeouts == nil, and the per-field fill otherwise *)\n")
	b.WriteString("Definition cfg_new_timeouts_nil : list (string * cfg_dexpr) := " + coqDefaults(newToNil) + ".\n")
	b.WriteString("Definition cfg_new_timeouts_fill : list (string * cfg_dexpr) := " + coqDefaults(newToFill) + ".\n")
	b.WriteString("Definition cfg_new_tcp_forced : list string := " + coqStrList(tcpForced) + ".\n")
	b.WriteString("Definition cfg_new_rlc_defaulted : bool := " + coqBool(newRlc) + ".\n")

	// ---------- applyTuningDefaults ----------
	var rtDefs, rtTo []cfgDefault
	rtToNil := false
	if fd := c.funcDecl("", "applyTuningDefaults"); fd != nil {
		if len(fd.Type.Params.List) != 1 || len(fd.Type.Params.List[0].Names) != 1 {
			return fmt.Errorf("applyTuningDefaults: unexpected signature")
		}
		recv := fd.Type.Params.List[0].Names[0].Name
		for _, st := range fd.Body.List {
			switch s := st.(type) {
			case *ast.IfStmt:
				if f, e, is, err := c.leDefault(s, recv); is {
					if err != nil {
						return fmt.Errorf("applyTuningDefaults: %v", err)
					}
					rtDefs = append(rtDefs, cfgDefault{f, e})
					continue
				}
				if es(s.Cond) == recv+".Timeouts == nil" && len(s.Body.List) == 1 && s.Else == nil {
					as, ok := s.Body.List[0].(*ast.AssignStmt)
					if ok && es(as.Lhs[0]) == recv+".Timeouts" && es(as.Rhs[0]) == "&TimeoutConfig{}" {
						rtToNil = true
						continue
					}
				}
				return fmt.Errorf("applyTuningDefaults: unrecognised statement `if %s`", es(s.Cond))
			case *ast.RangeStmt:
				cl, ok := s.X.(*ast.CompositeLit)
				if !ok || s.Value == nil {
					return fmt.Errorf("applyTuningDefaults: range over something else than a literal table")
				}
				d := es(s.Value)
				if len(s.Body.List) != 1 {
					return fmt.Errorf("applyTuningDefaults: unexpected loop body")
				}
				is, ok := s.Body.List[0].(*ast.IfStmt)
				if !ok || es(is.Cond) != "*"+d+".v <= 0" || len(is.Body.List) != 1 || is.Else != nil {
					return fmt.Errorf("applyTuningDefaults: loop body is not `if *d.v <= 0 { *d.v = d.def }`")
				}
				as, ok := is.Body.List[0].(*ast.AssignStmt)
				if !ok || es(as.Lhs[0]) != "*"+d+".v" || es(as.Rhs[0]) != d+".def" {
					return fmt.Errorf("applyTuningDefaults: loop body is not `if *d.v <= 0 { *d.v = d.def }`")
				}
				for _, el := range cl.Elts {
					row, ok := el.(*ast.CompositeLit)
					if !ok || len(row.Elts) != 2 {
						return fmt.Errorf("applyTuningDefaults: unexpected table row")
					}
					p := es(row.Elts[0])
					pre := "&" + recv + ".Timeouts."
					if !strings.HasPrefix(p, pre) {
						return fmt.Errorf("applyTuningDefaults: table row %q does not point into Timeouts", p)
					}
					e, err := c.defaultExpr(row.Elts[1])
					if err != nil {
						return fmt.Errorf("applyTuningDefaults: %s: %v", p, err)
					}
					rtTo = append(rtTo, cfgDefault{strings.TrimPrefix(p, pre), e})
				}
			default:
				return fmt.Errorf("applyTuningDefaults: unrecognised statement kind %T", st)
			}
		}
	}
	b.WriteString("(* applyTuningDefaults (runtime): same reading; empty when the function does not exist *)\n")
	b.WriteString("Definition cfg_rt_defaults : list (string * cfg_dexpr) := " + coqDefaults(rtDefs) + ".\n")
	b.WriteString("Definition cfg_rt_timeouts : list (string * cfg_dexpr) := " + coqDefaults(rtTo) + ".\n")
	b.WriteString("Definition cfg_rt_timeouts_nil_alloc : bool := " + coqBool(rtToNil) + ".\n")

	// ---------- UpdateTuningOptions: order of fn / defaults / store / side effects ----------
	fd := c.funcDecl("AbsfsNFS", "UpdateTuningOptions")
	if fd == nil {
		return fmt.Errorf("UpdateTuningOptions not found")
	}
	var tsteps []string
	for _, st := range fd.Body.List {
		x, ok := st.(*ast.ExprStmt)
		if !ok {
			continue
		}
		switch s := es(x.X); {
		case s == "fn(&updated)":
			tsteps = append(tsteps, "fn")
		case s == "applyTuningDefaults(&updated)":
			tsteps = append(tsteps, "defaults")
		case s == "n.tuning.Store(&updated)":
			tsteps = append(tsteps, "store")
		case s == "n.applyTuningSideEffects(old, &updated)":
			tsteps = append(tsteps, "side_effects")
		case strings.HasPrefix(s, "n.tuningMu."):
		default:
			return fmt.Errorf("UpdateTuningOptions: unrecognised call %s", s)
		}
	}
	b.WriteString("Definition cfg_update_tuning_steps : list string := " + coqStrList(tsteps) + ".\n")

	// ---------- UpdateExportOptions: order of squash check / tuning / policy; preserved pointers ----------
	fd = c.funcDecl("AbsfsNFS", "UpdateExportOptions")
	if fd == nil {
		return fmt.Errorf("UpdateExportOptions not found")
	}
	var esteps, preserved []string
	for _, st := range fd.Body.List {
		switch s := st.(type) {
		case *ast.IfStmt:
			cond := es(s.Cond)
			if strings.Contains(cond, "newOptions.Squash") {
				if cond != `newOptions.Squash != "" && newOptions.Squash != currentPolicy.Squash` || len(s.Body.List) != 1 {
					return fmt.Errorf("UpdateExportOptions: unrecognised Squash check %q", cond)
				}
				if _, ok := s.Body.List[0].(*ast.ReturnStmt); !ok {
					return fmt.Errorf("UpdateExportOptions: Squash check does not return")
				}
				esteps = append(esteps, "squash_check")
			}
		case *ast.ExprStmt:
			call, ok := s.X.(*ast.CallExpr)
			if ok && es(call.Fun) == "n.UpdateTuningOptions" {
				esteps = append(esteps, "tuning")
				fl, ok := call.Args[0].(*ast.FuncLit)
				if !ok {
					return fmt.Errorf("UpdateExportOptions: tuning mutation is not a function literal")
				}
				okAssign := false
				for _, bs := range fl.Body.List {
					switch q := bs.(type) {
					case *ast.IfStmt:
						m := regexp.MustCompile(`^newTuning\.([A-Za-z]+) == nil$`).FindStringSubmatch(es(q.Cond))
						if m == nil || len(q.Body.List) != 1 {
							return fmt.Errorf("UpdateExportOptions: unrecognised statement in tuning mutation: if %s", es(q.Cond))
						}
						as, ok := q.Body.List[0].(*ast.AssignStmt)
						if !ok || es(as.Lhs[0]) != "newTuning."+m[1] || es(as.Rhs[0]) != "t."+m[1] {
							return fmt.Errorf("UpdateExportOptions: %s is not preserved from the current snapshot", m[1])
						}
						preserved = append(preserved, m[1])
					case *ast.AssignStmt:
						l, r := es(q.Lhs[0]), es(q.Rhs[0])
						if l == "newTuning" && r == "tuningFromExportOptions(&newOptions)" {
							continue
						}
						if l == "*t" && r == "*newTuning" {
							okAssign = true
							continue
						}
						return fmt.Errorf("UpdateExportOptions: unrecognised assignment %s = %s in tuning mutation", l, r)
					default:
						return fmt.Errorf("UpdateExportOptions: unrecognised statement in tuning mutation")
					}
				}
				if !okAssign {
					return fmt.Errorf("UpdateExportOptions: tuning mutation does not replace *t")
				}
			}
		case *ast.ReturnStmt:
			if len(s.Results) == 1 && es(s.Results[0]) == "n.UpdatePolicyOptions(newPolicy)" {
				esteps = append(esteps, "policy")
			}
		}
	}
	if len(esteps) != 3 {
		return fmt.Errorf("UpdateExportOptions: expected squash check, tuning and policy steps, found %v", esteps)
	}
	b.WriteString("Definition cfg_update_export_steps : list string := " + coqStrList(esteps) + ".\n")
	b.WriteString("Definition cfg_update_export_preserves : list string := " + coqStrList(preserved) + ".\n")

	// ---------- UpdatePolicyOptions ----------
	fd = c.funcDecl("AbsfsNFS", "UpdatePolicyOptions")
	if fd == nil {
		return fmt.Errorf("UpdatePolicyOptions not found")
	}
	var psteps []string
	for _, st := range fd.Body.List {
		switch s := st.(type) {
		case *ast.IfStmt:
			cond := es(s.Cond)
			switch {
			case cond == "old.Squash != newPolicy.Squash":
				if _, ok := s.Body.List[0].(*ast.ReturnStmt); !ok || len(s.Body.List) != 1 {
					return fmt.Errorf("UpdatePolicyOptions: Squash check does not return")
				}
				psteps = append(psteps, "squash_check")
			case cond == "newPolicy.RateLimitConfig == nil":
				if len(s.Body.List) != 2 {
					return fmt.Errorf("UpdatePolicyOptions: unrecognised RateLimitConfig defaulting")
				}
				a0, ok0 := s.Body.List[0].(*ast.AssignStmt)
				a1, ok1 := s.Body.List[1].(*ast.AssignStmt)
				if !ok0 || !ok1 || es(a0.Rhs[0]) != "DefaultRateLimiterConfig()" || es(a1.Lhs[0]) != "newPolicy.RateLimitConfig" ||
					es(a1.Rhs[0]) != "&"+es(a0.Lhs[0]) {
					return fmt.Errorf("UpdatePolicyOptions: RateLimitConfig is not defaulted to DefaultRateLimiterConfig()")
				}
				psteps = append(psteps, "rlc_default")
			case cond == "newPolicy.EnableRateLimiting && newPolicy.RateLimitConfig != nil":
				ok := len(s.Body.List) == 1 && es(s.Body.List[0].(*ast.AssignStmt).Lhs[0]) == "n.rateLimiter" &&
					es(s.Body.List[0].(*ast.AssignStmt).Rhs[0]) == "NewRateLimiter(*newPolicy.RateLimitConfig)"
				ei, ok2 := s.Else.(*ast.IfStmt)
				if !ok || !ok2 || es(ei.Cond) != "!newPolicy.EnableRateLimiting" || ei.Else != nil || len(ei.Body.List) != 1 ||
					es(ei.Body.List[0].(*ast.AssignStmt).Lhs[0]) != "n.rateLimiter" || es(ei.Body.List[0].(*ast.AssignStmt).Rhs[0]) != "nil" {
					return fmt.Errorf("UpdatePolicyOptions: unrecognised rate limiter replacement")
				}
				psteps = append(psteps, "limiter")
			case strings.HasPrefix(cond, "len(newPolicy.AllowedIPs)"), cond == "newPolicy.RateLimitConfig != nil", cond == "newPolicy.TLS != nil":
				// deep copies into the snapshot
			default:
				return fmt.Errorf("UpdatePolicyOptions: unrecognised statement `if %s`", cond)
			}
		case *ast.ExprStmt:
			if es(s.X) == "n.policy.Store(&snapshot)" {
				psteps = append(psteps, "store")
			}
		}
	}
	b.WriteString("Definition cfg_update_policy_steps : list string := " + coqStrList(psteps) + ".\n")

	// ---------- field coverage of the conversions ----------
	ef, err := structFields(c, "ExportOptions", true)
	if err != nil {
		return err
	}
	tf, err := structFields(c, "TuningOptions", true)
	if err != nil {
		return err
	}
	pf, err := structFields(c, "PolicyOptions", true)
	if err != nil {
		return err
	}
	b.WriteString("Definition cfg_export_fields : list string := " + coqStrList(ef) + ".\n")
	b.WriteString("Definition cfg_tuning_fields : list string := " + coqStrList(tf) + ".\n")
	b.WriteString("Definition cfg_policy_fields : list string := " + coqStrList(pf) + ".\n")
	for _, x := range []struct{ fn, lit, v, name string }{
		{"exportOptionsFromSnapshots", "ExportOptions", "opts", "cfg_get_copies"},
		{"tuningFromExportOptions", "TuningOptions", "t", "cfg_tuning_from_export_copies"},
		{"policyFromExportOptions", "PolicyOptions", "p", "cfg_policy_from_export_copies"},
	} {
		fd := c.funcDecl("", x.fn)
		if fd == nil {
			return fmt.Errorf("%s not found", x.fn)
		}
		b.WriteString("Definition " + x.name + " : list string := " + coqStrList(fieldsCopied(fd, x.lit, x.v)) + ".\n")
	}
	fd = c.funcDecl("AbsfsNFS", "UpdateExportOptions")
	b.WriteString("Definition cfg_update_export_policy_copies : list string := " + coqStrList(fieldsCopied(fd, "PolicyOptions", "newPolicy")) + ".\n")

	// ---------- C28: which framing each start path selects ----------
	fd = c.funcDecl("AbsfsNFS", "Export")
	if fd == nil {
		return fmt.Errorf("Export not found")
	}
	exportRM, exportLit, exportListen := false, false, false
	var exportFields []string
	ast.Inspect(fd.Body, func(n ast.Node) bool {
		switch x := n.(type) {
		case *ast.CompositeLit:
			if es(x.Type) == "ServerOptions" {
				exportLit = true
				for _, el := range x.Elts {
					if kv, ok := el.(*ast.KeyValueExpr); ok {
						exportFields = append(exportFields, es(kv.Key))
						if es(kv.Key) == "UseRecordMarking" && es(kv.Value) == "true" {
							exportRM = true
						}
					}
				}
			}
		case *ast.CallExpr:
			if es(x.Fun) == "server.Listen" {
				exportListen = true
			}
		}
		return true
	})
	if !exportLit || !exportListen {
		return fmt.Errorf("Export: no ServerOptions literal or no server.Listen() call")
	}
	b.WriteString("(* C28 *)\nDefinition cfg_export_server_fields : list string := " + coqStrList(exportFields) + ".\n")
	b.WriteString("Definition cfg_export_sets_record_marking : bool := " + coqBool(exportRM) + ".\n")
	// acceptLoop: if s.options.UseRecordMarking { record-marking loop } else { raw loop }
	fd = c.funcDecl("Server", "acceptLoop")
	if fd == nil {
		return fmt.Errorf("acceptLoop not found")
	}
	acceptOK, nDispatch := false, 0
	ast.Inspect(fd.Body, func(n ast.Node) bool {
		s, ok := n.(*ast.IfStmt)
		if !ok {
			return true
		}
		txt := es(s.Cond)
		if strings.Contains(txt, "UseRecordMarking") {
			nDispatch++
			eb, ok := s.Else.(*ast.BlockStmt)
			if txt == "s.options.UseRecordMarking" && ok && len(s.Body.List) == 1 && len(eb.List) == 1 &&
				strings.HasPrefix(es(s.Body.List[0].(*ast.ExprStmt).X), "s.handleConnectionWithRecordMarking(") &&
				strings.HasPrefix(es(eb.List[0].(*ast.ExprStmt).X), "s.handleConnection(") {
				acceptOK = true
			}
		}
		return true
	})
	if nDispatch != 1 || !acceptOK {
		return fmt.Errorf("acceptLoop: framing dispatch on s.options.UseRecordMarking not recognised")
	}
	b.WriteString("Definition cfg_accept_dispatches_on_flag : bool := true.\n")
	usesIO := func(fn, io string) (bool, error) {
		fd := c.funcDecl("Server", fn)
		if fd == nil {
			return false, fmt.Errorf("%s not found", fn)
		}
		found := false
		ast.Inspect(fd.Body, func(n ast.Node) bool {
			if cl, ok := n.(*ast.CompositeLit); ok && es(cl.Type) == io {
				found = true
			}
			return true
		})
		return found, nil
	}
	rmIO, err := usesIO("handleConnectionWithRecordMarking", "recordMarkingConnIO")
	if err != nil {
		return err
	}
	rawIO, err := usesIO("handleConnection", "rawConnIO")
	if err != nil {
		return err
	}
	b.WriteString("Definition cfg_rm_loop_uses_record_io : bool := " + coqBool(rmIO) + ".\n")
	b.WriteString("Definition cfg_raw_loop_uses_raw_io : bool := " + coqBool(rawIO) + ".\n")
	// StartWithPortmapper: s.options.UseRecordMarking = true before s.Listen(); Listen/NewServer never touch the flag
	fd = c.funcDecl("Server", "StartWithPortmapper")
	if fd == nil {
		return fmt.Errorf("StartWithPortmapper not found")
	}
	var posSet, posListen token.Pos
	ast.Inspect(fd.Body, func(n ast.Node) bool {
		switch x := n.(type) {
		case *ast.AssignStmt:
			if es(x.Lhs[0]) == "s.options.UseRecordMarking" && es(x.Rhs[0]) == "true" && posSet == 0 {
				posSet = x.Pos()
			}
		case *ast.CallExpr:
			if es(x.Fun) == "s.Listen" && posListen == 0 {
				posListen = x.Pos()
			}
		}
		return true
	})
	if posListen == 0 {
		return fmt.Errorf("StartWithPortmapper: no s.Listen() call")
	}
	b.WriteString("Definition cfg_swp_sets_record_marking : bool := " + coqBool(posSet != 0 && posSet < posListen) + ".\n")
	for _, fn := range []string{"Listen", "acceptLoop", "SetHandler"} {
		fd := c.funcDecl("Server", fn)
		if fd == nil {
			return fmt.Errorf("Server.%s not found", fn)
		}
		bad := false
		ast.Inspect(fd.Body, func(n ast.Node) bool {
			if as, ok := n.(*ast.AssignStmt); ok {
				for _, l := range as.Lhs {
					if strings.Contains(es(l), "UseRecordMarking") {
						bad = true
					}
				}
			}
			return true
		})
		if bad {
			return fmt.Errorf("Server.%s assigns UseRecordMarking: framing model does not cover this", fn)
		}
	}

	// ---------- C30: Validate, BuildConfig, Clone, ReloadCertificates ----------
	fd = c.funcDecl("TLSConfig", "Validate")
	if fd == nil {
		return fmt.Errorf("TLSConfig.Validate not found")
	}
	var vsteps []string
	floor, caThreshold := "0", "0"
	for i, st := range fd.Body.List {
		s, ok := st.(*ast.IfStmt)
		if !ok {
			if r, ok := st.(*ast.ReturnStmt); ok && i == len(fd.Body.List)-1 && es(r.Results[0]) == "nil" {
				continue
			}
			return fmt.Errorf("Validate: unrecognised statement kind %T", st)
		}
		cond := es(s.Cond)
		returnsErr := func(body *ast.BlockStmt) bool {
			if len(body.List) != 1 {
				return false
			}
			r, ok := body.List[0].(*ast.ReturnStmt)
			return ok && len(r.Results) == 1 && es(r.Results[0]) != "nil"
		}
		switch {
		case cond == "!tc.Enabled":
			r, ok := s.Body.List[0].(*ast.ReturnStmt)
			if i != 0 || !ok || es(r.Results[0]) != "nil" {
				return fmt.Errorf("Validate: `if !tc.Enabled` is not the first statement returning nil")
			}
			vsteps = append(vsteps, "disabled_ok")
		case cond == `tc.CertFile == ""` && returnsErr(s.Body):
			vsteps = append(vsteps, "cert_given")
		case cond == `tc.KeyFile == ""` && returnsErr(s.Body):
			vsteps = append(vsteps, "key_given")
		case s.Init != nil && strings.Contains(es(s.Init.(*ast.AssignStmt).Rhs[0]), "os.Stat(tc.CertFile)") && cond == "err != nil" && returnsErr(s.Body):
			vsteps = append(vsteps, "cert_exists")
		case s.Init != nil && strings.Contains(es(s.Init.(*ast.AssignStmt).Rhs[0]), "os.Stat(tc.KeyFile)") && cond == "err != nil" && returnsErr(s.Body):
			vsteps = append(vsteps, "key_exists")
		case strings.HasPrefix(cond, "tc.ClientAuth >= ") && strings.HasSuffix(cond, ` && tc.CAFile != ""`):
			be := s.Cond.(*ast.BinaryExpr).X.(*ast.BinaryExpr)
			v, ok := c.constVal(be.Y)
			if !ok {
				return fmt.Errorf("Validate: ClientAuth threshold is not a constant")
			}
			inner, ok := s.Body.List[0].(*ast.IfStmt)
			if !ok || len(s.Body.List) != 1 || inner.Init == nil || !strings.Contains(es(inner.Init.(*ast.AssignStmt).Rhs[0]), "os.Stat(tc.CAFile)") || !returnsErr(inner.Body) {
				return fmt.Errorf("Validate: CA file check not recognised")
			}
			caThreshold = v
			vsteps = append(vsteps, "ca_exists")
		case cond == "tc.MinVersion > tc.MaxVersion" && returnsErr(s.Body):
			vsteps = append(vsteps, "min_le_max")
		case strings.HasPrefix(cond, "tc.MinVersion != 0 && tc.MinVersion < ") && returnsErr(s.Body):
			v, ok := c.constVal(s.Cond.(*ast.BinaryExpr).Y.(*ast.BinaryExpr).Y)
			if !ok {
				return fmt.Errorf("Validate: version floor is not a constant")
			}
			floor = v
			vsteps = append(vsteps, "floor")
		case cond == "tc.InsecureSkipVerify" && len(s.Body.List) == 0:
		default:
			return fmt.Errorf("Validate: unrecognised check `if %s`", cond)
		}
	}
	b.WriteString("(* C30 *)\nDefinition cfg_tls_validate_steps : list string := " + coqStrList(vsteps) + ".\n")
	b.WriteString("Definition cfg_tls_floor : Z := " + zlit(floor) + ".\n")
	b.WriteString("Definition cfg_tls_ca_auth_threshold : Z := " + zlit(caThreshold) + ".\n")
	fd = c.funcDecl("TLSConfig", "BuildConfig")
	if fd == nil {
		return fmt.Errorf("BuildConfig not found")
	}
	var posValidate, posLoad, posStore token.Pos
	passes := map[string]bool{}
	getCertFromCell := false
	ast.Inspect(fd.Body, func(n ast.Node) bool {
		switch x := n.(type) {
		case *ast.CallExpr:
			switch es(x.Fun) {
			case "tc.Validate":
				posValidate = x.Pos()
			case "tls.LoadX509KeyPair":
				posLoad = x.Pos()
			case "cell.Store":
				posStore = x.Pos()
			}
		case *ast.CompositeLit:
			if es(x.Type) == "tls.Config" {
				for _, el := range x.Elts {
					kv := el.(*ast.KeyValueExpr)
					if es(kv.Value) == "tc."+es(kv.Key) {
						passes[es(kv.Key)] = true
					}
					if es(kv.Key) == "GetCertificate" {
						if fl, ok := kv.Value.(*ast.FuncLit); ok && len(fl.Body.List) == 1 {
							if r, ok := fl.Body.List[0].(*ast.ReturnStmt); ok && es(r.Results[0]) == "cell.Load()" {
								getCertFromCell = true
							}
						}
					}
				}
			}
		case *ast.AssignStmt:
			if len(x.Lhs) == 1 && es(x.Lhs[0]) == "cell" && es(x.Rhs[0]) != "tc.certCell()" {
				getCertFromCell = false
			}
		}
		return true
	})
	var passList []string
	for k := range passes {
		passList = append(passList, k)
	}
	sort.Strings(passList)
	b.WriteString("Definition cfg_tls_build_validates_first : bool := " + coqBool(posValidate != 0 && posLoad != 0 && posValidate < posLoad) + ".\n")
	b.WriteString("Definition cfg_tls_build_passes : list string := " + coqStrList(passList) + ".\n")
	b.WriteString("Definition cfg_tls_listener_reads_cell : bool := " + coqBool(getCertFromCell && posStore != 0) + ".\n")
	fd = c.funcDecl("TLSConfig", "Clone")
	if fd == nil {
		return fmt.Errorf("Clone not found")
	}
	shares := false
	ast.Inspect(fd.Body, func(n ast.Node) bool {
		if cl, ok := n.(*ast.CompositeLit); ok && es(cl.Type) == "TLSConfig" {
			for _, el := range cl.Elts {
				if kv, ok := el.(*ast.KeyValueExpr); ok && es(kv.Key) == "currentCert" && es(kv.Value) == "tc.certCell()" {
					shares = true
				}
			}
		}
		return true
	})
	b.WriteString("Definition cfg_tls_clone_shares_cell : bool := " + coqBool(shares) + ".\n")
	fd = c.funcDecl("TLSConfig", "ReloadCertificates")
	if fd == nil {
		return fmt.Errorf("ReloadCertificates not found")
	}
	reloadStores := false
	ast.Inspect(fd.Body, func(n ast.Node) bool {
		if ce, ok := n.(*ast.CallExpr); ok && es(ce.Fun) == "tc.certCell().Store" {
			reloadStores = true
		}
		return true
	})
	b.WriteString("Definition cfg_tls_reload_stores_cell : bool := " + coqBool(reloadStores) + ".\n")
	// Listen takes the TLS settings from the policy snapshot and builds the listener from BuildConfig
	fd = c.funcDecl("Server", "Listen")
	listenTLS := false
	ast.Inspect(fd.Body, func(n ast.Node) bool {
		if s, ok := n.(*ast.IfStmt); ok && es(s.Cond) == "policy.TLS != nil && policy.TLS.Enabled" {
			src := ""
			for _, st := range s.Body.List {
				if as, ok := st.(*ast.AssignStmt); ok {
					src += es(as.Rhs[0]) + ";"
				}
			}
			if strings.Contains(src, "policy.TLS.BuildConfig()") && strings.Contains(src, `tls.Listen("tcp", addr, tlsConfig)`) {
				listenTLS = true
			}
		}
		return true
	})
	b.WriteString("Definition cfg_listen_tls_from_policy : bool := " + coqBool(listenTLS) + ".\n")
	return nil
}
