package main

// x_pool.go: structural facts for the worker-pool group (C20), read off worker_pool.go.
// Model/PoolLTS.v is parameterised by the three booleans of its `cfg`; Properties/C20.v checks the
// remaining facts against what the model assumes (C20_facts).  Anything not recognised => refusal.
//
//   f_pool_queue_factor        NewWorkerPool and Resize: make(chan Task, maxWorkers*K)       (same K in both)
//   f_pool_result_buffer       Submit: make(chan interface{}, K)
//   f_pool_submit_timeout_ns   Submit: time.NewTimer(K)
//   f_pool_submit_rlock        Submit starts with p.closeMu.RLock(); defer p.closeMu.RUnlock()
//   f_pool_close_under_lock    the stop body closes p.taskQueue between p.closeMu.Lock() and p.closeMu.Unlock()
//   f_pool_send_nonblocking    worker: the result send is a `select { case task.ResultChan <- result: default: }`
//   f_pool_stop_drains         the stop body ends with `if !p.resizing { for task := range p.taskQueue { close(task.ResultChan) } }`
//                              after p.wg.Wait()
//   f_pool_overflow_closes     Resize: every `default:` / not-running branch closes task.ResultChan (true) or sends on it (false)
//   f_pool_stop_locks          Stop starts with p.resizeMu.Lock(); defer p.resizeMu.Unlock() and Resize does not call Stop itself
//   f_pool_resize_min          Resize: if maxWorkers <= 0 { maxWorkers = K }
//
// "the stop body" is Stop itself, or the WorkerPool method Stop delegates to after taking resizeMu.

import (
	"bytes"
	"fmt"
	"go/ast"
	"go/printer"
	"strings"
)

func init() { extractors = append(extractors, poolFacts) }

func poolSrc(n ast.Node) string {
	var b bytes.Buffer
	printer.Fprint(&b, fset, n)
	return strings.Join(strings.Fields(b.String()), " ")
}

func poolBool(b bool) string {
	if b {
		return "true"
	}
	return "false"
}

// poolMakeChanArg returns the capacity expressions of every make(chan <elem>, cap) in fn.
func poolMakeChanArg(fn *ast.FuncDecl, elem string) []ast.Expr {
	var out []ast.Expr
	ast.Inspect(fn.Body, func(n ast.Node) bool {
		ce, ok := n.(*ast.CallExpr)
		if !ok || len(ce.Args) != 2 {
			return true
		}
		if id, ok := ce.Fun.(*ast.Ident); !ok || id.Name != "make" {
			return true
		}
		ch, ok := ce.Args[0].(*ast.ChanType)
		if !ok || poolSrc(ch.Value) != elem {
			return true
		}
		out = append(out, ce.Args[1])
		return true
	})
	return out
}

func (c *ctxT) poolFactor(fn *ast.FuncDecl) (string, error) {
	caps := poolMakeChanArg(fn, "Task")
	if len(caps) != 1 {
		return "", fmt.Errorf("%s: expected exactly one make(chan Task, ...), found %d", fn.Name.Name, len(caps))
	}
	be, ok := caps[0].(*ast.BinaryExpr)
	if !ok || be.Op.String() != "*" || poolSrc(be.X) != "maxWorkers" {
		return "", fmt.Errorf("%s: queue capacity is %q, expected maxWorkers*<const>", fn.Name.Name, poolSrc(caps[0]))
	}
	v, ok := c.constVal(be.Y)
	if !ok {
		return "", fmt.Errorf("%s: queue factor %q is not a constant", fn.Name.Name, poolSrc(be.Y))
	}
	return v, nil
}

func poolFacts(c *ctxT) error {
	get := func(name string) (*ast.FuncDecl, error) {
		fd := c.funcDecl("WorkerPool", name)
		if fd == nil || fd.Body == nil {
			return nil, fmt.Errorf("method (*WorkerPool).%s not found", name)
		}
		return fd, nil
	}
	newFn := c.funcDecl("", "NewWorkerPool")
	if newFn == nil {
		return fmt.Errorf("NewWorkerPool not found")
	}
	submit, err := get("Submit")
	if err != nil {
		return err
	}
	stop, err := get("Stop")
	if err != nil {
		return err
	}
	resize, err := get("Resize")
	if err != nil {
		return err
	}
	worker, err := get("worker")
	if err != nil {
		return err
	}
	if _, err := get("SubmitWait"); err != nil {
		return err
	}
	// queue factor
	k1, err := c.poolFactor(newFn)
	if err != nil {
		return err
	}
	k2, err := c.poolFactor(resize)
	if err != nil {
		return err
	}
	if k1 != k2 {
		return fmt.Errorf("queue factor differs between NewWorkerPool (%s) and Resize (%s)", k1, k2)
	}
	// Submit
	rb := poolMakeChanArg(submit, "interface{}")
	if len(rb) != 1 {
		return fmt.Errorf("Submit: expected exactly one make(chan interface{}, ...), found %d", len(rb))
	}
	resBuf, ok := c.constVal(rb[0])
	if !ok {
		return fmt.Errorf("Submit: result channel buffer is not a constant")
	}
	timeout := ""
	ast.Inspect(submit.Body, func(n ast.Node) bool {
		ce, ok := n.(*ast.CallExpr)
		if ok && poolSrc(ce.Fun) == "time.NewTimer" && len(ce.Args) == 1 {
			if v, ok := c.constVal(ce.Args[0]); ok {
				timeout = v
			}
		}
		return true
	})
	if timeout == "" {
		return fmt.Errorf("Submit: time.NewTimer(<const>) not found")
	}
	st := submit.Body.List
	rlock := len(st) >= 2 && poolSrc(st[0]) == "p.closeMu.RLock()" && poolSrc(st[1]) == "defer p.closeMu.RUnlock()"
	// the select in Submit: one send on p.taskQueue, one timer case, no default
	nsel := 0
	ast.Inspect(submit.Body, func(n ast.Node) bool {
		if s, ok := n.(*ast.SelectStmt); ok {
			nsel++
			var kinds []string
			for _, cl := range s.Body.List {
				cc := cl.(*ast.CommClause)
				if cc.Comm == nil {
					kinds = append(kinds, "default")
				} else {
					kinds = append(kinds, poolSrc(cc.Comm))
				}
			}
			if strings.Join(kinds, " | ") != "p.taskQueue <- task | <-timer.C" {
				err = fmt.Errorf("Submit: unexpected select shape: %s", strings.Join(kinds, " | "))
			}
		}
		return true
	})
	if err != nil {
		return err
	}
	if nsel != 1 {
		return fmt.Errorf("Submit: expected exactly one select, found %d", nsel)
	}
	// worker: select on ctx.Done / taskQueue, non-blocking result send
	wsrc := poolSrc(worker.Body)
	if !strings.Contains(wsrc, "case <-p.ctx.Done():") || !strings.Contains(wsrc, "case task, ok := <-p.taskQueue:") {
		return fmt.Errorf("worker: select between <-p.ctx.Done() and <-p.taskQueue not recognised")
	}
	nonblocking := strings.Contains(wsrc, "select { case task.ResultChan <- result: default: }")
	if !nonblocking && !strings.Contains(wsrc, "task.ResultChan <- result") {
		return fmt.Errorf("worker: result send not recognised")
	}
	// Stop: optional resizeMu, then the stop body
	body := stop
	ss := stop.Body.List
	stopLocks := len(ss) >= 2 && poolSrc(ss[0]) == "p.resizeMu.Lock()" && poolSrc(ss[1]) == "defer p.resizeMu.Unlock()"
	inner := "Stop"
	if stopLocks {
		if len(ss) != 3 {
			return fmt.Errorf("Stop: takes resizeMu but is not a three-statement wrapper")
		}
		es, ok := ss[2].(*ast.ExprStmt)
		if !ok {
			return fmt.Errorf("Stop: third statement is not a call")
		}
		ce, ok := es.X.(*ast.CallExpr)
		if !ok || len(ce.Args) != 0 || !strings.HasPrefix(poolSrc(ce.Fun), "p.") {
			return fmt.Errorf("Stop: third statement %q is not a call p.<method>()", poolSrc(ss[2]))
		}
		inner = strings.TrimPrefix(poolSrc(ce.Fun), "p.")
		if body, err = get(inner); err != nil {
			return err
		}
	}
	bsrc := poolSrc(body.Body)
	iCAS := strings.Index(bsrc, "atomic.CompareAndSwapInt32(&p.running, 1, 0)")
	iCancel := strings.Index(bsrc, "p.cancel()")
	iLock := strings.Index(bsrc, "p.closeMu.Lock()")
	iClose := strings.Index(bsrc, "close(p.taskQueue)")
	iUnlock := strings.Index(bsrc, "p.closeMu.Unlock()")
	iWait := strings.Index(bsrc, "p.wg.Wait()")
	if iCAS < 0 || iCancel < iCAS || iClose < iCancel || iWait < iClose {
		return fmt.Errorf("%s: expected CAS(running,1,0); p.cancel(); close(p.taskQueue); p.wg.Wait() in this order", inner)
	}
	closeUnderLock := iLock >= 0 && iLock < iClose && iClose < iUnlock && iUnlock < iWait
	drains := false
	var bodyErr error
	for _, s := range body.Body.List {
		is, ok := s.(*ast.IfStmt)
		if !ok || poolSrc(is.Cond) != "!p.resizing" {
			continue
		}
		want := "{ for task := range p.taskQueue { if task.ResultChan != nil { close(task.ResultChan) } } }"
		if poolSrc(is.Body) != want || is.Else != nil {
			bodyErr = fmt.Errorf("%s: `if !p.resizing` body not recognised: %s", inner, poolSrc(is.Body))
		}
		if strings.Index(bsrc, "if !p.resizing") < iWait {
			bodyErr = fmt.Errorf("%s: drain precedes p.wg.Wait()", inner)
		}
		drains = true
	}
	if bodyErr != nil {
		return bodyErr
	}
	if !drains && strings.Contains(bsrc, "range p.taskQueue") {
		return fmt.Errorf("%s: a loop over p.taskQueue exists but not in the recognised `if !p.resizing` form", inner)
	}
	// Resize
	rsrc := poolSrc(resize.Body)
	rs := resize.Body.List
	if len(rs) < 2 || poolSrc(rs[0]) != "p.resizeMu.Lock()" || poolSrc(rs[1]) != "defer p.resizeMu.Unlock()" {
		return fmt.Errorf("Resize: does not start with p.resizeMu.Lock(); defer p.resizeMu.Unlock()")
	}
	callsStop := strings.Contains(rsrc, "p."+inner+"()")
	if !callsStop {
		return fmt.Errorf("Resize: does not call p.%s()", inner)
	}
	if !strings.Contains(rsrc, "p.resizing = true p."+inner+"() p.resizing = false") && drains {
		return fmt.Errorf("Resize: p.resizing is not set around p.%s()", inner)
	}
	for _, want := range []string{"wasRunning := atomic.LoadInt32(&p.running) == 1", "oldQueue := p.taskQueue",
		"for task := range oldQueue { pendingTasks = append(pendingTasks, task) }", "p.maxWorkers = maxWorkers",
		"p.ctx, p.cancel = context.WithCancel(context.Background())", "p.Start()",
		"for _, task := range pendingTasks { select { case p.taskQueue <- task: default:"} {
		if !strings.Contains(rsrc, want) {
			return fmt.Errorf("Resize: expected %q", want)
		}
	}
	minW, err := func() (string, error) {
		for _, s := range rs {
			if is, ok := s.(*ast.IfStmt); ok && poolSrc(is.Cond) == "maxWorkers <= 0" && len(is.Body.List) == 1 {
				if as, ok := is.Body.List[0].(*ast.AssignStmt); ok && poolSrc(as.Lhs[0]) == "maxWorkers" {
					if v, ok := c.constVal(as.Rhs[0]); ok {
						return v, nil
					}
				}
			}
		}
		return "", fmt.Errorf("Resize: `if maxWorkers <= 0 { maxWorkers = <const> }` not found")
	}()
	if err != nil {
		return err
	}
	nClose := strings.Count(rsrc, "if task.ResultChan != nil { close(task.ResultChan) }")
	nSend := strings.Count(rsrc, "task.ResultChan <-")
	var overflowCloses bool
	switch {
	case nClose == 2 && nSend == 0:
		overflowCloses = true
	case nClose == 0 && nSend == 2:
		overflowCloses = false
	default:
		return fmt.Errorf("Resize: dropped tasks are neither all closed nor all sent to (%d close, %d send)", nClose, nSend)
	}
	b := c.b
	b.WriteString("\n(* ---- worker_pool.go (x_pool.go) ---- *)\n")
	b.WriteString(fmt.Sprintf("Definition f_pool_queue_factor : Z := %s.\n", zlit(k1)))
	b.WriteString(fmt.Sprintf("Definition f_pool_result_buffer : Z := %s.\n", zlit(resBuf)))
	b.WriteString(fmt.Sprintf("Definition f_pool_submit_timeout_ns : Z := %s.\n", zlit(timeout)))
	b.WriteString(fmt.Sprintf("Definition f_pool_resize_min : Z := %s.\n", zlit(minW)))
	b.WriteString(fmt.Sprintf("Definition f_pool_submit_rlock : bool := %s.\n", poolBool(rlock)))
	b.WriteString(fmt.Sprintf("Definition f_pool_close_under_lock : bool := %s.\n", poolBool(closeUnderLock)))
	b.WriteString(fmt.Sprintf("Definition f_pool_send_nonblocking : bool := %s.\n", poolBool(nonblocking)))
	b.WriteString(fmt.Sprintf("Definition f_pool_stop_drains : bool := %s.\n", poolBool(drains)))
	b.WriteString(fmt.Sprintf("Definition f_pool_overflow_closes : bool := %s.\n", poolBool(overflowCloses)))
	b.WriteString(fmt.Sprintf("Definition f_pool_stop_locks : bool := %s.\n", poolBool(stopLocks)))
	return nil
}
