package main

// x_conn.go: structural facts about the connection loop of server.go for C15 (Model/Conn.v mirrors them).
//
//   f_c15_loop_defers_close            the first statement of (*Server).handleConnectionLoop is `defer conn.Close()`
//   f_c15_conn_goroutine_recovers      the goroutine acceptLoop starts per connection defers a func that calls recover()
//   f_c15_conn_goroutine_unregisters   ... and defers s.unregisterConnection(conn)
//   f_c15_read_call_sites              number of `cio.ReadCall()` calls in handleConnectionLoop                (1)
//   f_c15_read_err_returns             every `if readErr != nil { ... }` of the loop ends in `return`
//   f_c15_handle_err_returns           every `if handleErr != nil { ... }` of the loop ends in `return`
//   f_c15_write_reply_sites            number of `cio.WriteReply(...)` calls in the loop          (2: rate limit, normal)
//   f_c15_write_err_returns            every `if writeErr ... != nil { ... }` of the loop ends in `return`
//   f_c15_ratelimit_continues          the `if !connRateLimiter.AllowRequest(...) { ... }` branch ends in `continue`
//   f_c15_readcall_record_then_decode  (*recordMarkingConnIO).ReadCall calls ReadRecord, then DecodeRPCCall, and
//                                      returns the error of either (`if err != nil { return nil, nil, err }`)
//   f_c15_decode_from_record           DecodeRPCCall's argument there is bytes.NewReader(<the slice ReadRecord returned>)
//   f_c15_conn_default_limits          handleConnectionWithRecordMarking builds its connection with
//                                      NewRecordMarkingConn, which uses NewRecordMarkingReader / NewRecordMarkingWriter
//                                      (the constructors whose limits are f_reader_default_max / f_writer_default_frag)
//
// A boolean is false when the construct is present but not of the expected form; astfacts refuses (error) when
// a function or a construct the facts are about is missing altogether.

import (
	"fmt"
	"go/ast"
	"go/token"
	"strings"
)

func init() { extractors = append(extractors, connFacts) }

// endsIn reports whether the last statement of a block is `return` / a branch statement with the given token.
func endsInReturn(b *ast.BlockStmt) bool {
	if b == nil || len(b.List) == 0 {
		return false
	}
	_, ok := b.List[len(b.List)-1].(*ast.ReturnStmt)
	return ok
}
func endsInBranch(b *ast.BlockStmt, tok token.Token) bool {
	if b == nil || len(b.List) == 0 {
		return false
	}
	br, ok := b.List[len(b.List)-1].(*ast.BranchStmt)
	return ok && br.Tok == tok && br.Label == nil
}

// nilCheckOn reports whether cond is `<name> != nil`.
func nilCheckOn(cond ast.Expr, name string) bool {
	be, ok := cond.(*ast.BinaryExpr)
	if !ok || be.Op != token.NEQ {
		return false
	}
	x, ok := be.X.(*ast.Ident)
	y, ok2 := be.Y.(*ast.Ident)
	return ok && ok2 && x.Name == name && y.Name == "nil"
}

func countCalls(n ast.Node, fun string) int {
	k := 0
	ast.Inspect(n, func(x ast.Node) bool {
		if ce, ok := x.(*ast.CallExpr); ok && exprString(ce.Fun) == fun {
			k++
		}
		return true
	})
	return k
}

func connFacts(c *ctxT) error {
	b := c.b
	b.WriteString("\n(* connection loop structure (x_conn.go, C15) *)\n")
	loop := c.funcDecl("Server", "handleConnectionLoop")
	if loop == nil || loop.Body == nil || len(loop.Body.List) == 0 {
		return fmt.Errorf("(*Server).handleConnectionLoop not found")
	}
	// first statement: defer conn.Close()
	defersClose := false
	if ds, ok := loop.Body.List[0].(*ast.DeferStmt); ok && exprString(ds.Call.Fun) == "conn.Close" && len(ds.Call.Args) == 0 {
		defersClose = true
	}
	b.WriteString("Definition f_c15_loop_defers_close : bool := " + coqBool(defersClose) + ".\n")

	// error branches of the loop
	nRead, nHandle, nWrite := 0, 0, 0
	readRet, handleRet, writeRet := true, true, true
	rlFound, rlCont := 0, true
	ast.Inspect(loop.Body, func(n ast.Node) bool {
		is, ok := n.(*ast.IfStmt)
		if !ok {
			return true
		}
		switch {
		case nilCheckOn(is.Cond, "readErr"):
			nRead++
			readRet = readRet && endsInReturn(is.Body) && is.Else == nil
		case nilCheckOn(is.Cond, "handleErr"):
			nHandle++
			handleRet = handleRet && endsInReturn(is.Body) && is.Else == nil
		case nilCheckOn(is.Cond, "writeErr"):
			nWrite++
			writeRet = writeRet && endsInReturn(is.Body) && is.Else == nil
		default:
			if ue, ok := is.Cond.(*ast.UnaryExpr); ok && ue.Op == token.NOT {
				if ce, ok := ue.X.(*ast.CallExpr); ok && strings.HasSuffix(exprString(ce.Fun), ".AllowRequest") {
					rlFound++
					rlCont = rlCont && endsInBranch(is.Body, token.CONTINUE) && is.Else == nil
				}
			}
		}
		return true
	})
	readSites := countCalls(loop.Body, "cio.ReadCall")
	writeSites := countCalls(loop.Body, "cio.WriteReply")
	if nRead == 0 || nHandle == 0 || nWrite == 0 || rlFound == 0 || readSites == 0 || writeSites == 0 {
		return fmt.Errorf("handleConnectionLoop: expected `if readErr != nil`, `if handleErr != nil`, `if writeErr != nil`, "+
			"`if !<limiter>.AllowRequest(...)`, cio.ReadCall and cio.WriteReply; found %d %d %d %d %d %d",
			nRead, nHandle, nWrite, rlFound, readSites, writeSites)
	}
	if nWrite != writeSites {
		// a WriteReply whose error is not checked by `if writeErr != nil`
		writeRet = false
	}
	b.WriteString(fmt.Sprintf("Definition f_c15_read_call_sites : Z := %d.\n", readSites))
	b.WriteString("Definition f_c15_read_err_returns : bool := " + coqBool(readRet) + ".\n")
	b.WriteString("Definition f_c15_handle_err_returns : bool := " + coqBool(handleRet) + ".\n")
	b.WriteString(fmt.Sprintf("Definition f_c15_write_reply_sites : Z := %d.\n", writeSites))
	b.WriteString("Definition f_c15_write_err_returns : bool := " + coqBool(writeRet) + ".\n")
	b.WriteString("Definition f_c15_ratelimit_continues : bool := " + coqBool(rlCont && rlFound == 1) + ".\n")

	// the per-connection goroutine of acceptLoop
	acc := c.funcDecl("Server", "acceptLoop")
	if acc == nil || acc.Body == nil {
		return fmt.Errorf("(*Server).acceptLoop not found")
	}
	var connGo *ast.FuncLit
	ast.Inspect(acc.Body, func(n ast.Node) bool {
		gs, ok := n.(*ast.GoStmt)
		if !ok {
			return true
		}
		if fl, ok := gs.Call.Fun.(*ast.FuncLit); ok && countCalls(fl.Body, "s.handleConnectionWithRecordMarking") > 0 {
			connGo = fl
		}
		return true
	})
	if connGo == nil {
		return fmt.Errorf("acceptLoop: no `go func() { ... s.handleConnectionWithRecordMarking(...) ... }()`")
	}
	recovers, unregisters := false, false
	for _, st := range connGo.Body.List {
		ds, ok := st.(*ast.DeferStmt)
		if !ok {
			continue
		}
		if fl, ok := ds.Call.Fun.(*ast.FuncLit); ok && countCalls(fl.Body, "recover") > 0 {
			recovers = true
		}
		if exprString(ds.Call.Fun) == "s.unregisterConnection" {
			unregisters = true
		}
	}
	b.WriteString("Definition f_c15_conn_goroutine_recovers : bool := " + coqBool(recovers) + ".\n")
	b.WriteString("Definition f_c15_conn_goroutine_unregisters : bool := " + coqBool(unregisters) + ".\n")

	// recordMarkingConnIO.ReadCall: ReadRecord, then DecodeRPCCall on a reader over the returned slice
	rc := c.funcDecl("recordMarkingConnIO", "ReadCall")
	if rc == nil || rc.Body == nil {
		return fmt.Errorf("(*recordMarkingConnIO).ReadCall not found")
	}
	posRecord, posDecode := token.NoPos, token.NoPos
	recordVar, readerVar, readerSrc, decodeArg := "", "", "", ""
	errReturns := 0
	ast.Inspect(rc.Body, func(n ast.Node) bool {
		switch x := n.(type) {
		case *ast.AssignStmt:
			if len(x.Rhs) == 1 {
				if ce, ok := x.Rhs[0].(*ast.CallExpr); ok {
					f := exprString(ce.Fun)
					switch {
					case strings.HasSuffix(f, ".ReadRecord") && len(x.Lhs) == 2:
						posRecord = ce.Pos()
						recordVar = exprString(x.Lhs[0])
					case f == "bytes.NewReader" && len(x.Lhs) == 1 && len(ce.Args) == 1 && readerVar == "":
						readerVar = exprString(x.Lhs[0])
						readerSrc = exprString(ce.Args[0])
					case f == "DecodeRPCCall" && len(ce.Args) == 1:
						posDecode = ce.Pos()
						decodeArg = exprString(ce.Args[0])
					}
				}
			}
		case *ast.IfStmt:
			if nilCheckOn(x.Cond, "err") && len(x.Body.List) == 1 {
				if rs, ok := x.Body.List[0].(*ast.ReturnStmt); ok && len(rs.Results) == 3 && exprString(rs.Results[2]) == "err" {
					errReturns++
				}
			}
		}
		return true
	})
	if posRecord == token.NoPos || posDecode == token.NoPos {
		return fmt.Errorf("recordMarkingConnIO.ReadCall: ReadRecord / DecodeRPCCall calls not found")
	}
	b.WriteString("Definition f_c15_readcall_record_then_decode : bool := " + coqBool(posRecord < posDecode && errReturns == 2) + ".\n")
	b.WriteString("Definition f_c15_decode_from_record : bool := " +
		coqBool(recordVar != "" && decodeArg == readerVar && readerSrc == recordVar) + ".\n")

	// constructors
	hc := c.funcDecl("Server", "handleConnectionWithRecordMarking")
	nc := c.funcDecl("", "NewRecordMarkingConn")
	if hc == nil || nc == nil || hc.Body == nil || nc.Body == nil {
		return fmt.Errorf("handleConnectionWithRecordMarking / NewRecordMarkingConn not found")
	}
	def := countCalls(hc.Body, "NewRecordMarkingConn") == 1 &&
		countCalls(nc.Body, "NewRecordMarkingReader") == 1 && countCalls(nc.Body, "NewRecordMarkingWriter") == 1 &&
		countCalls(hc.Body, "s.handleConnectionLoop") == 1
	b.WriteString("Definition f_c15_conn_default_limits : bool := " + coqBool(def) + ".\n")
	return nil
}
