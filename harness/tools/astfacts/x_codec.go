package main

// x_codec.go: structural facts for the codec group (C13): the length guards of the XDR/RPC decoders.
// For every decoder the model needs to know WHICH bound guards WHICH declared length, not only that a
// constant of that name exists.  Each fact is read off an `if <var> > <constant expression>` statement
// (or `!=`) in the named function; the function must contain exactly one such guard on that variable,
// otherwise astfacts refuses.
//
//   f_string_limit          xdrDecodeString:            if length > K   { return error }
//   f_fh_max_len            xdrDecodeFileHandle:        if length > K   { return error }
//   f_fh_len                xdrDecodeFileHandle:        if length != K  { ... return error }
//   f_fh_enc_len            xdrEncodeFileHandle:        xdrEncodeUint32(w, K)
//   f_cred_limit            DecodeRPCCall:              if credLen > K  { return error }
//   f_verf_limit            DecodeRPCCall:              if verLen > K   { return error }
//   f_authsys_name_limit    (*byteReader).readString:   if length > K   { return error }
//   f_authsys_max_gids      ParseAuthSysCredential:     if gidCount > K { return error }
//   f_reader_default_max    NewRecordMarkingReader:     MaxRecordSize: K   (composite literal field)
//   f_reader_fallback_max   (*RecordMarkingReader).ReadRecord: if maxSize <= 0 { maxSize = K }
//   f_writer_default_frag   NewRecordMarkingWriter:     maxFragment: K
//   f_writer_fallback_frag  NewRecordMarkingWriterWithSize: if maxFragment <= 0 || maxFragment > K2 { maxFragment = K }
//   f_writer_frag_cap       ... the K2 above

import (
	"fmt"
	"go/ast"
	"go/token"
)

func init() { extractors = append(extractors, codecFacts) }

// guard finds the single `if <name> <op> K` (K constant) in fn whose body ends in a return, and returns K.
func (c *ctxT) guard(fn *ast.FuncDecl, name string, op token.Token) (string, error) {
	var found []string
	ast.Inspect(fn.Body, func(n ast.Node) bool {
		is, ok := n.(*ast.IfStmt)
		if !ok || is.Init != nil {
			return true
		}
		be, ok := is.Cond.(*ast.BinaryExpr)
		if !ok || be.Op != op {
			return true
		}
		id, ok := be.X.(*ast.Ident)
		if !ok || id.Name != name {
			return true
		}
		v, ok := c.constVal(be.Y)
		if !ok {
			return true
		}
		if len(is.Body.List) == 0 {
			return true
		}
		if _, isRet := is.Body.List[len(is.Body.List)-1].(*ast.ReturnStmt); !isRet {
			return true
		}
		found = append(found, v)
		return true
	})
	if len(found) != 1 {
		return "", fmt.Errorf("%s: expected exactly one guard `if %s %s <const> {... return}`, found %d", fn.Name.Name, name, op, len(found))
	}
	return found[0], nil
}

// litField finds the single composite literal in fn that sets field to a constant.
func (c *ctxT) litField(fn *ast.FuncDecl, field string) (string, error) {
	var found []string
	ast.Inspect(fn.Body, func(n ast.Node) bool {
		kv, ok := n.(*ast.KeyValueExpr)
		if !ok {
			return true
		}
		id, ok := kv.Key.(*ast.Ident)
		if !ok || id.Name != field {
			return true
		}
		if v, ok := c.constVal(kv.Value); ok {
			found = append(found, v)
		}
		return true
	})
	if len(found) != 1 {
		return "", fmt.Errorf("%s: expected exactly one literal field %s: <const>, found %d", fn.Name.Name, field, len(found))
	}
	return found[0], nil
}

// fallback finds `if <cond mentioning name> { name = K }` and returns K plus the constants compared in cond.
func (c *ctxT) fallback(fn *ast.FuncDecl, name string) (k string, condConsts []string, err error) {
	n := 0
	ast.Inspect(fn.Body, func(x ast.Node) bool {
		is, ok := x.(*ast.IfStmt)
		if !ok || len(is.Body.List) != 1 {
			return true
		}
		as, ok := is.Body.List[0].(*ast.AssignStmt)
		if !ok || as.Tok != token.ASSIGN || len(as.Lhs) != 1 || len(as.Rhs) != 1 {
			return true
		}
		id, ok := as.Lhs[0].(*ast.Ident)
		if !ok || id.Name != name {
			return true
		}
		v, ok := c.constVal(as.Rhs[0])
		if !ok {
			return true
		}
		k = v
		n++
		condConsts = nil
		ast.Inspect(is.Cond, func(y ast.Node) bool {
			if be, ok := y.(*ast.BinaryExpr); ok {
				if xid, ok := be.X.(*ast.Ident); ok && xid.Name == name {
					if cv, ok := c.constVal(be.Y); ok {
						condConsts = append(condConsts, be.Op.String()+cv)
					}
				}
			}
			return true
		})
		return true
	})
	if n != 1 {
		return "", nil, fmt.Errorf("%s: expected exactly one `if ... { %s = <const> }`, found %d", fn.Name.Name, name, n)
	}
	return k, condConsts, nil
}

func codecFacts(c *ctxT) error {
	c.b.WriteString("\n(* codec guards (x_codec.go): which bound guards which declared length *)\n")
	emit := func(name, v string) { c.b.WriteString(fmt.Sprintf("Definition %s : Z := %s.\n", name, zlit(v))) }
	need := func(recv, name string) (*ast.FuncDecl, error) {
		fd := c.funcDecl(recv, name)
		if fd == nil || fd.Body == nil {
			return nil, fmt.Errorf("function %s.%s not found", recv, name)
		}
		return fd, nil
	}
	type g struct {
		fact, recv, fn, v string
		op                token.Token
	}
	for _, x := range []g{
		{"f_string_limit", "", "xdrDecodeString", "length", token.GTR},
		{"f_fh_max_len", "", "xdrDecodeFileHandle", "length", token.GTR},
		{"f_fh_len", "", "xdrDecodeFileHandle", "length", token.NEQ},
		{"f_cred_limit", "", "DecodeRPCCall", "credLen", token.GTR},
		{"f_verf_limit", "", "DecodeRPCCall", "verLen", token.GTR},
		{"f_authsys_name_limit", "byteReader", "readString", "length", token.GTR},
		{"f_authsys_max_gids", "", "ParseAuthSysCredential", "gidCount", token.GTR},
	} {
		fd, err := need(x.recv, x.fn)
		if err != nil {
			return err
		}
		v, err := c.guard(fd, x.v, x.op)
		if err != nil {
			return err
		}
		emit(x.fact, v)
	}
	// xdrEncodeFileHandle: first statement encodes the length word with a constant
	fd, err := need("", "xdrEncodeFileHandle")
	if err != nil {
		return err
	}
	var encLens []string
	ast.Inspect(fd.Body, func(n ast.Node) bool {
		ce, ok := n.(*ast.CallExpr)
		if !ok || len(ce.Args) != 2 {
			return true
		}
		if id, ok := ce.Fun.(*ast.Ident); ok && id.Name == "xdrEncodeUint32" {
			if v, ok := c.constVal(ce.Args[1]); ok {
				encLens = append(encLens, v)
			}
		}
		return true
	})
	if len(encLens) != 1 {
		return fmt.Errorf("xdrEncodeFileHandle: expected one xdrEncodeUint32(w, <const>), found %d", len(encLens))
	}
	emit("f_fh_enc_len", encLens[0])
	// record marking reader / writer defaults
	if fd, err = need("", "NewRecordMarkingReader"); err != nil {
		return err
	}
	v, err := c.litField(fd, "MaxRecordSize")
	if err != nil {
		return err
	}
	emit("f_reader_default_max", v)
	if fd, err = need("RecordMarkingReader", "ReadRecord"); err != nil {
		return err
	}
	k, conds, err := c.fallback(fd, "maxSize")
	if err != nil {
		return err
	}
	if len(conds) != 1 || conds[0] != "<=0" {
		return fmt.Errorf("ReadRecord: fallback condition on maxSize is %v, expected [<=0]", conds)
	}
	emit("f_reader_fallback_max", k)
	if fd, err = need("", "NewRecordMarkingWriter"); err != nil {
		return err
	}
	if v, err = c.litField(fd, "maxFragment"); err != nil {
		return err
	}
	emit("f_writer_default_frag", v)
	if fd, err = need("", "NewRecordMarkingWriterWithSize"); err != nil {
		return err
	}
	k, conds, err = c.fallback(fd, "maxFragment")
	if err != nil {
		return err
	}
	if len(conds) != 2 || conds[0] != "<=0" || len(conds[1]) < 2 || conds[1][0] != '>' {
		return fmt.Errorf("NewRecordMarkingWriterWithSize: fallback condition is %v, expected [<=0 ><cap>]", conds)
	}
	emit("f_writer_fallback_frag", k)
	emit("f_writer_frag_cap", conds[1][1:])
	return nil
}
