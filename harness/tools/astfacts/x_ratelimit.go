// x_ratelimit.go: structural facts of rate_limiter.go and its call sites for C18 / C19.
//
//   - the ORDER in which RateLimiter.AllowRequest consults the global, per-IP and per-connection
//     limiters (C19 hinges on the global bucket being consulted last);
//   - the configuration fields feeding each limiter's rate / burst, the per-operation burst
//     literals and the divisor of the mount rate (per minute -> per second);
//   - the AllowOperation / AllowRequest call sites with their operation type and size threshold.
//
// Every recogniser returns an error on a shape it does not know: the check then reports a broken tie
// instead of guessing.
package main

import (
	"fmt"
	"go/ast"
	"go/token"
	"sort"
	"strings"
)

func init() { extractors = append(extractors, ratelimitFacts) }

// selPath renders a.b.c selector chains ("" when the expression is anything else).
func selPath(e ast.Expr) string {
	switch x := e.(type) {
	case *ast.Ident:
		return x.Name
	case *ast.SelectorExpr:
		p := selPath(x.X)
		if p == "" {
			return ""
		}
		return p + "." + x.Sel.Name
	case *ast.ParenExpr:
		return selPath(x.X)
	}
	return ""
}

// allowCallRecv: for `<recv>.Allow(args...)` returns the selector path of <recv>.
func allowCallRecv(e ast.Expr) (string, bool) {
	c, ok := e.(*ast.CallExpr)
	if !ok {
		return "", false
	}
	s, ok := c.Fun.(*ast.SelectorExpr)
	if !ok || s.Sel.Name != "Allow" {
		return "", false
	}
	p := selPath(s.X)
	return p, p != ""
}

func countAllowCalls(n ast.Node) int {
	k := 0
	ast.Inspect(n, func(x ast.Node) bool {
		if e, ok := x.(ast.Expr); ok {
			if _, ok := allowCallRecv(e); ok {
				k++
			}
		}
		return true
	})
	return k
}

func countReturns(n ast.Node) int {
	k := 0
	ast.Inspect(n, func(x ast.Node) bool {
		if _, ok := x.(*ast.ReturnStmt); ok {
			k++
		}
		return true
	})
	return k
}

func isReturnBool(s ast.Stmt, want string) bool {
	r, ok := s.(*ast.ReturnStmt)
	if !ok || len(r.Results) != 1 {
		return false
	}
	id, ok := r.Results[0].(*ast.Ident)
	return ok && id.Name == want
}

// refuseIf recognises   if !<recv>.Allow(...) { return false }   and returns <recv>.
func refuseIf(s ast.Stmt) (string, bool) {
	i, ok := s.(*ast.IfStmt)
	if !ok || i.Init != nil || i.Else != nil || len(i.Body.List) != 1 || !isReturnBool(i.Body.List[0], "false") {
		return "", false
	}
	u, ok := i.Cond.(*ast.UnaryExpr)
	if !ok || u.Op != token.NOT {
		return "", false
	}
	return allowCallRecv(u.X)
}

// connLeaves: a statement list of the per-connection stage must END with either the refusing `if` on a
// local bucket, or an if/else whose branches both do; returns the number of such leaves.
func connLeaves(stmts []ast.Stmt) (int, error) {
	if len(stmts) == 0 {
		return 0, fmt.Errorf("AllowRequest: empty branch in the per-connection stage")
	}
	last := stmts[len(stmts)-1]
	if recv, ok := refuseIf(last); ok {
		if strings.Contains(recv, ".") {
			return 0, fmt.Errorf("AllowRequest: per-connection stage consults %s, expected a local bucket", recv)
		}
		return 1, nil
	}
	if i, ok := last.(*ast.IfStmt); ok && i.Else != nil {
		a, err := connLeaves(i.Body.List)
		if err != nil {
			return 0, err
		}
		eb, ok := i.Else.(*ast.BlockStmt)
		if !ok {
			return 0, fmt.Errorf("AllowRequest: else-if in the per-connection stage")
		}
		b, err := connLeaves(eb.List)
		if err != nil {
			return 0, err
		}
		return a + b, nil
	}
	return 0, fmt.Errorf("AllowRequest: per-connection stage does not end in `if !limiter.Allow() { return false }`")
}

var rlKind = map[string]string{
	"rl.globalLimiter": "RL_Global",
	"rl.perIPLimiter":  "RL_PerIP",
}

// configField recognises  [float64(] <x>.config.F | config.F [)]  and returns F.
func configField(e ast.Expr) (string, bool) {
	if c, ok := e.(*ast.CallExpr); ok && len(c.Args) == 1 {
		if id, ok := c.Fun.(*ast.Ident); ok && id.Name == "float64" {
			e = c.Args[0]
		}
	}
	p := selPath(e)
	parts := strings.Split(p, ".")
	if len(parts) >= 2 && parts[len(parts)-2] == "config" {
		return parts[len(parts)-1], true
	}
	return "", false
}

func coqStr(s string) string { return "\"" + s + "\"%string" }

func ratelimitFacts(c *ctxT) error {
	b := c.b
	b.WriteString("\n(* ---- rate_limiter.go (x_ratelimit.go) ---- *)\n")
	// 1. limiter order in AllowRequest
	fd := c.funcDecl("RateLimiter", "AllowRequest")
	if fd == nil || fd.Body == nil {
		return fmt.Errorf("RateLimiter.AllowRequest not found")
	}
	if fd.Recv.List[0].Names == nil || fd.Recv.List[0].Names[0].Name != "rl" {
		return fmt.Errorf("AllowRequest: receiver is not named rl")
	}
	var order []string
	connGuard := ""
	recognised := 0
	stmts := fd.Body.List
	for idx, s := range stmts {
		if recv, ok := refuseIf(s); ok {
			k, ok := rlKind[recv]
			if !ok {
				return fmt.Errorf("AllowRequest: unknown limiter %s", recv)
			}
			order = append(order, k)
			recognised++
			continue
		}
		if r, ok := s.(*ast.ReturnStmt); ok {
			if idx != len(stmts)-1 {
				return fmt.Errorf("AllowRequest: return before the end of the body")
			}
			if isReturnBool(s, "true") {
				continue
			}
			if len(r.Results) == 1 {
				if recv, ok := allowCallRecv(r.Results[0]); ok {
					k, ok := rlKind[recv]
					if !ok {
						return fmt.Errorf("AllowRequest: unknown limiter %s", recv)
					}
					order = append(order, k)
					recognised++
					continue
				}
			}
			return fmt.Errorf("AllowRequest: unrecognised final return")
		}
		if i, ok := s.(*ast.IfStmt); ok && i.Init == nil && i.Else == nil {
			// if rl.config.PerConnectionRequestsPerSecond > 0 { ... per-connection bucket ... }
			be, ok := i.Cond.(*ast.BinaryExpr)
			if !ok || be.Op != token.GTR {
				return fmt.Errorf("AllowRequest: unrecognised guard at statement %d", idx)
			}
			f, okf := configField(be.X)
			lit, okl := be.Y.(*ast.BasicLit)
			if !okf || !okl || lit.Value != "0" {
				return fmt.Errorf("AllowRequest: unrecognised guard at statement %d", idx)
			}
			usesConnMap := false
			ast.Inspect(i.Body, func(x ast.Node) bool {
				if se, ok := x.(*ast.SelectorExpr); ok && selPath(se) == "rl.perConnectionLimiter" {
					usesConnMap = true
				}
				return true
			})
			if !usesConnMap {
				return fmt.Errorf("AllowRequest: guarded block does not use rl.perConnectionLimiter")
			}
			leaves, err := connLeaves(i.Body.List)
			if err != nil {
				return err
			}
			if countAllowCalls(i.Body) != leaves || countReturns(i.Body) != leaves {
				return fmt.Errorf("AllowRequest: extra Allow call or return in the per-connection stage")
			}
			// bucket parameters: NewTokenBucket(float64(rl.config.R), rl.config.B)
			var rateF, burstF string
			nNew := 0
			ast.Inspect(i.Body, func(x ast.Node) bool {
				if ce, ok := x.(*ast.CallExpr); ok {
					if id, ok := ce.Fun.(*ast.Ident); ok && id.Name == "NewTokenBucket" && len(ce.Args) == 2 {
						nNew++
						rateF, _ = configField(ce.Args[0])
						burstF, _ = configField(ce.Args[1])
					}
				}
				return true
			})
			if nNew != 1 || rateF == "" || burstF == "" {
				return fmt.Errorf("AllowRequest: per-connection bucket construction not recognised")
			}
			if connGuard != "" {
				return fmt.Errorf("AllowRequest: two per-connection stages")
			}
			connGuard = f
			order = append(order, "RL_PerConn")
			recognised += leaves
			fmt.Fprintf(b, "Definition rl_conn_fields : list string := [%s; %s].\n", coqStr(rateF), coqStr(burstF))
			continue
		}
		return fmt.Errorf("AllowRequest: unrecognised statement %d", idx)
	}
	if countAllowCalls(fd.Body) != recognised {
		return fmt.Errorf("AllowRequest: %d Allow calls, %d recognised", countAllowCalls(fd.Body), recognised)
	}
	if connGuard == "" {
		return fmt.Errorf("AllowRequest: per-connection stage not found")
	}
	b.WriteString("(* RateLimiter.AllowRequest: limiters in the order they are consulted; a refusal returns at once *)\n")
	b.WriteString("Inductive rl_limiter : Set := RL_Global | RL_PerIP | RL_PerConn.\n")
	fmt.Fprintf(b, "Definition allow_request_order : list rl_limiter := [%s].\n", strings.Join(order, "; "))
	fmt.Fprintf(b, "Definition rl_conn_guard_field : string := %s. (* stage skipped unless this field > 0 *)\n", coqStr(connGuard))

	// 2. NewRateLimiter: which fields feed the global and per-IP limiters
	nr := c.funcDecl("", "NewRateLimiter")
	if nr == nil {
		return fmt.Errorf("NewRateLimiter not found")
	}
	found := map[string]bool{}
	var ferr error
	ast.Inspect(nr, func(x ast.Node) bool {
		kv, ok := x.(*ast.KeyValueExpr)
		if !ok {
			return true
		}
		key, ok := kv.Key.(*ast.Ident)
		if !ok {
			return true
		}
		ce, ok := kv.Value.(*ast.CallExpr)
		if !ok {
			return true
		}
		fn, _ := ce.Fun.(*ast.Ident)
		switch key.Name {
		case "globalLimiter":
			if fn == nil || fn.Name != "NewTokenBucket" || len(ce.Args) != 2 {
				ferr = fmt.Errorf("NewRateLimiter: globalLimiter construction not recognised")
				return false
			}
			r, ok1 := configField(ce.Args[0])
			bu, ok2 := configField(ce.Args[1])
			if !ok1 || !ok2 {
				ferr = fmt.Errorf("NewRateLimiter: globalLimiter arguments not recognised")
				return false
			}
			fmt.Fprintf(b, "Definition rl_global_fields : list string := [%s; %s]. (* rate, burst *)\n", coqStr(r), coqStr(bu))
			found["g"] = true
		case "perIPLimiter":
			if fn == nil || fn.Name != "NewPerIPLimiter" || len(ce.Args) != 3 {
				ferr = fmt.Errorf("NewRateLimiter: perIPLimiter construction not recognised")
				return false
			}
			r, ok1 := configField(ce.Args[0])
			bu, ok2 := configField(ce.Args[1])
			iv, ok3 := configField(ce.Args[2])
			if !ok1 || !ok2 || !ok3 {
				ferr = fmt.Errorf("NewRateLimiter: perIPLimiter arguments not recognised")
				return false
			}
			fmt.Fprintf(b, "Definition rl_perip_fields : list string := [%s; %s; %s]. (* rate, burst, cleanup interval *)\n",
				coqStr(r), coqStr(bu), coqStr(iv))
			found["ip"] = true
		case "perOperationLimiter":
			if fn == nil || fn.Name != "NewPerOperationLimiter" || len(ce.Args) != 1 || selPath(ce.Args[0]) != "config" {
				ferr = fmt.Errorf("NewRateLimiter: perOperationLimiter construction not recognised")
				return false
			}
			found["op"] = true
		}
		return true
	})
	if ferr != nil {
		return ferr
	}
	if !found["g"] || !found["ip"] || !found["op"] {
		return fmt.Errorf("NewRateLimiter: global / per-IP / per-operation limiter construction not found")
	}

	// 3. NewPerOperationLimiter: rates and bursts literals
	np := c.funcDecl("", "NewPerOperationLimiter")
	if np == nil {
		return fmt.Errorf("NewPerOperationLimiter not found")
	}
	opNames := map[string]string{"OpTypeReadLarge": "read_large", "OpTypeWriteLarge": "write_large",
		"OpTypeReaddir": "readdir", "OpTypeMount": "mount"}
	rates := map[string]string{}
	bursts := map[string]string{}
	ivField := ""
	ast.Inspect(np, func(x ast.Node) bool {
		switch n := x.(type) {
		case *ast.AssignStmt:
			if len(n.Lhs) != 1 || len(n.Rhs) != 1 {
				return true
			}
			id, ok := n.Lhs[0].(*ast.Ident)
			cl, ok2 := n.Rhs[0].(*ast.CompositeLit)
			if !ok || !ok2 || (id.Name != "rates" && id.Name != "bursts") {
				return true
			}
			for _, el := range cl.Elts {
				kv, ok := el.(*ast.KeyValueExpr)
				if !ok {
					ferr = fmt.Errorf("NewPerOperationLimiter: %s literal element", id.Name)
					return false
				}
				k, ok := kv.Key.(*ast.Ident)
				if !ok || opNames[k.Name] == "" {
					ferr = fmt.Errorf("NewPerOperationLimiter: unknown operation type key in %s", id.Name)
					return false
				}
				if id.Name == "bursts" {
					v, ok := c.constVal(kv.Value)
					if !ok {
						ferr = fmt.Errorf("NewPerOperationLimiter: burst of %s is not an integer constant", k.Name)
						return false
					}
					bursts[k.Name] = v
				} else {
					// float64(config.F)  or  float64(config.F) / <const>
					div := "1"
					val := kv.Value
					if be, ok := val.(*ast.BinaryExpr); ok {
						if be.Op != token.QUO {
							ferr = fmt.Errorf("NewPerOperationLimiter: rate of %s: unrecognised operator", k.Name)
							return false
						}
						tv, ok := c.info.Types[be.Y]
						if !ok || tv.Value == nil {
							ferr = fmt.Errorf("NewPerOperationLimiter: rate divisor of %s is not constant", k.Name)
							return false
						}
						ds := tv.Value.ExactString()
						if strings.ContainsAny(ds, "/.e") {
							ferr = fmt.Errorf("NewPerOperationLimiter: rate divisor of %s is not an integer (%s)", k.Name, ds)
							return false
						}
						div = ds
						val = be.X
					}
					f, ok := configField(val)
					if _, isCall := val.(*ast.CallExpr); !ok || !isCall {
						ferr = fmt.Errorf("NewPerOperationLimiter: rate of %s is not float64(config.F)[/const]", k.Name)
						return false
					}
					rates[k.Name] = coqStr(f) + ", " + zlit(div)
				}
			}
		case *ast.KeyValueExpr:
			if k, ok := n.Key.(*ast.Ident); ok && k.Name == "cleanupInterval" {
				ivField, _ = configField(n.Value)
			}
		}
		return true
	})
	if ferr != nil {
		return ferr
	}
	if len(rates) != 4 || len(bursts) != 4 || ivField == "" {
		return fmt.Errorf("NewPerOperationLimiter: expected 4 rates, 4 bursts and the cleanup interval (got %d, %d, %q)",
			len(rates), len(bursts), ivField)
	}
	b.WriteString("(* NewPerOperationLimiter: rate = float64(config.<field>) / <divisor>; burst literal *)\n")
	var ks []string
	for k := range opNames {
		ks = append(ks, k)
	}
	sort.Strings(ks)
	for _, k := range ks {
		fmt.Fprintf(b, "Definition rl_op_rate_%s : string * Z := (%s).\n", opNames[k], rates[k])
		fmt.Fprintf(b, "Definition rl_op_burst_%s : Z := %s.\n", opNames[k], zlit(bursts[k]))
	}
	fmt.Fprintf(b, "Definition rl_op_cleanup_field : string := %s.\n", coqStr(ivField))

	// 4. call sites of AllowOperation / AllowRequest
	type site struct {
		fn, op, thr string
	}
	var sites []site
	var reqSites []string
	for _, f := range c.files {
		for _, d := range f.Decls {
			fdecl, ok := d.(*ast.FuncDecl)
			if !ok || fdecl.Body == nil {
				continue
			}
			if fdecl.Recv != nil && len(fdecl.Recv.List) == 1 {
				t := fdecl.Recv.List[0].Type
				if s, ok := t.(*ast.StarExpr); ok {
					t = s.X
				}
				if id, ok := t.(*ast.Ident); ok && id.Name == "RateLimiter" {
					continue // the limiter's own methods
				}
			}
			// walk with a stack of enclosing if-conditions
			var walk func(n ast.Node, conds []ast.Expr)
			walk = func(n ast.Node, conds []ast.Expr) {
				if n == nil {
					return
				}
				switch x := n.(type) {
				case *ast.IfStmt:
					if x.Init != nil {
						walk(x.Init, conds)
					}
					walk(x.Cond, conds)
					walk(x.Body, append(append([]ast.Expr{}, conds...), x.Cond))
					if x.Else != nil {
						walk(x.Else, conds)
					}
					return
				case *ast.CallExpr:
					if se, ok := x.Fun.(*ast.SelectorExpr); ok {
						switch se.Sel.Name {
						case "AllowOperation":
							if len(x.Args) != 2 {
								ferr = fmt.Errorf("%s: AllowOperation with %d arguments", fdecl.Name.Name, len(x.Args))
								return
							}
							op, ok := x.Args[1].(*ast.Ident)
							if !ok || opNames[op.Name] == "" {
								ferr = fmt.Errorf("%s: AllowOperation with a non-constant operation type", fdecl.Name.Name)
								return
							}
							if p := selPath(x.Args[0]); !strings.HasSuffix(p, ".ClientIP") {
								ferr = fmt.Errorf("%s: AllowOperation keyed by %q, expected the client IP", fdecl.Name.Name, p)
								return
							}
							thr := "0"
							for _, cnd := range conds {
								for _, cj := range conjuncts(cnd) {
									if be, ok := cj.(*ast.BinaryExpr); ok && be.Op == token.GTR {
										if id, ok := be.X.(*ast.Ident); ok && id.Name == "count" {
											if v, ok := c.constVal(be.Y); ok {
												thr = v
											} else {
												ferr = fmt.Errorf("%s: size threshold is not constant", fdecl.Name.Name)
												return
											}
										}
									}
								}
							}
							sites = append(sites, site{fdecl.Name.Name, opNames[op.Name], thr})
						case "AllowRequest":
							reqSites = append(reqSites, fdecl.Name.Name)
						}
					}
				}
				// generic descent
				ast.Inspect(n, func(ch ast.Node) bool {
					if ch == n || ch == nil {
						return true
					}
					walk(ch, conds)
					return false
				})
			}
			walk(fdecl.Body, nil)
			if ferr != nil {
				return ferr
			}
		}
	}
	sort.Slice(sites, func(i, j int) bool {
		if sites[i].fn != sites[j].fn {
			return sites[i].fn < sites[j].fn
		}
		return sites[i].op < sites[j].op
	})
	sort.Strings(reqSites)
	b.WriteString("(* call sites: (function, operation type, `count > threshold` guard or 0) *)\n")
	var ss []string
	for _, s := range sites {
		ss = append(ss, fmt.Sprintf("(%s, %s, %s)", coqStr(s.fn), coqStr(s.op), zlit(s.thr)))
	}
	fmt.Fprintf(b, "Definition rl_operation_sites : list (string * string * Z) :=\n  [%s].\n", strings.Join(ss, ";\n   "))
	var rs []string
	for _, s := range reqSites {
		rs = append(rs, coqStr(s))
	}
	fmt.Fprintf(b, "Definition rl_request_sites : list string := [%s].\n", strings.Join(rs, "; "))
	return nil
}

func conjuncts(e ast.Expr) []ast.Expr {
	if p, ok := e.(*ast.ParenExpr); ok {
		return conjuncts(p.X)
	}
	if be, ok := e.(*ast.BinaryExpr); ok && be.Op == token.LAND {
		return append(conjuncts(be.X), conjuncts(be.Y)...)
	}
	return []ast.Expr{e}
}
