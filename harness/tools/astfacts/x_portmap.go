// x_portmap.go: structural facts of portmapper.go for C27.
//
//   - the versions handleCall serves: `if version != a && version != b && ... { return makeReply(.., PROG_MISMATCH, ..) }`;
//   - the version range makeReply writes after PROG_MISMATCH: `if status == PROG_MISMATCH { Write(uint32(lo)); Write(uint32(hi)) }`;
//   - the loopback guards: handleSet / handleUnset start with `if !isLoopbackAddr(remoteAddr) { return pm.encodeBool(false) }`,
//     and in handleCall the calls of handleRpcbSet / handleRpcbUnset sit in the then-branch of `if isLoopbackAddr(remoteAddr)`
//     whose else-branch is `result = pm.encodeBool(false)`.
//
// Every recogniser returns an error on a shape it does not know.
package main

import (
	"fmt"
	"go/ast"
	"go/token"
	"strings"
)

func init() { extractors = append(extractors, portmapFacts) }

func pmSel(e ast.Expr) string {
	switch x := e.(type) {
	case *ast.Ident:
		return x.Name
	case *ast.SelectorExpr:
		return pmSel(x.X) + "." + x.Sel.Name
	case *ast.ParenExpr:
		return pmSel(x.X)
	}
	return ""
}

// pmIsGuardCall: isLoopbackAddr(remoteAddr)
func pmIsGuardCall(e ast.Expr) bool {
	c, ok := e.(*ast.CallExpr)
	return ok && pmSel(c.Fun) == "isLoopbackAddr" && len(c.Args) == 1 && pmSel(c.Args[0]) == "remoteAddr"
}

// pmIsEncodeFalse: pm.encodeBool(false)
func pmIsEncodeFalse(e ast.Expr) bool {
	c, ok := e.(*ast.CallExpr)
	return ok && pmSel(c.Fun) == "pm.encodeBool" && len(c.Args) == 1 && pmSel(c.Args[0]) == "false"
}

func pmCalls(n ast.Node, name string) bool {
	found := false
	ast.Inspect(n, func(x ast.Node) bool {
		if c, ok := x.(*ast.CallExpr); ok && pmSel(c.Fun) == name {
			found = true
		}
		return true
	})
	return found
}

// pmFirstStmtGuard: true when the handler starts with `if !isLoopbackAddr(remoteAddr) { return pm.encodeBool(false) }`,
// false when it never consults isLoopbackAddr; any other use of isLoopbackAddr is an unknown shape.
func (c *ctxT) pmFirstStmtGuard(name string) (bool, error) {
	fd := c.funcDecl("Portmapper", name)
	if fd == nil {
		return false, fmt.Errorf("Portmapper.%s not found", name)
	}
	if !pmCalls(fd.Body, "isLoopbackAddr") {
		return false, nil
	}
	bad := fmt.Errorf("%s: uses isLoopbackAddr but does not start with `if !isLoopbackAddr(remoteAddr) { return pm.encodeBool(false) }`", name)
	if len(fd.Body.List) == 0 {
		return false, bad
	}
	is, ok := fd.Body.List[0].(*ast.IfStmt)
	if !ok || is.Init != nil || is.Else != nil || len(is.Body.List) != 1 {
		return false, bad
	}
	u, ok := is.Cond.(*ast.UnaryExpr)
	if !ok || u.Op != token.NOT || !pmIsGuardCall(u.X) {
		return false, bad
	}
	r, ok := is.Body.List[0].(*ast.ReturnStmt)
	if !ok || len(r.Results) != 1 || !pmIsEncodeFalse(r.Results[0]) {
		return false, bad
	}
	return true, nil
}

func portmapFacts(c *ctxT) error {
	b := c.b
	b.WriteString("\n(* portmapper facts (x_portmap.go) *)\n")

	hc := c.funcDecl("Portmapper", "handleCall")
	if hc == nil {
		return fmt.Errorf("Portmapper.handleCall not found")
	}
	// --- versions served ---
	var versions []string
	for _, s := range hc.Body.List {
		is, ok := s.(*ast.IfStmt)
		if !ok || is.Init != nil || !pmCalls(is.Body, "pm.makeReply") {
			continue
		}
		mentions := false
		ast.Inspect(is.Body, func(x ast.Node) bool {
			if id, ok := x.(*ast.Ident); ok && id.Name == "PROG_MISMATCH" {
				mentions = true
			}
			return true
		})
		if !mentions {
			continue
		}
		if versions != nil {
			return fmt.Errorf("handleCall: two PROG_MISMATCH branches")
		}
		var walk func(e ast.Expr) error
		walk = func(e ast.Expr) error {
			if p, ok := e.(*ast.ParenExpr); ok {
				return walk(p.X)
			}
			be, ok := e.(*ast.BinaryExpr)
			if !ok {
				return fmt.Errorf("handleCall: version test is not a conjunction of `version != <const>`")
			}
			if be.Op == token.LAND {
				if err := walk(be.X); err != nil {
					return err
				}
				return walk(be.Y)
			}
			if be.Op != token.NEQ || pmSel(be.X) != "version" {
				return fmt.Errorf("handleCall: version test is not a conjunction of `version != <const>`")
			}
			v, ok := c.constVal(be.Y)
			if !ok {
				return fmt.Errorf("handleCall: version compared with a non-constant")
			}
			versions = append(versions, zlit(v))
			return nil
		}
		if err := walk(is.Cond); err != nil {
			return err
		}
	}
	if len(versions) == 0 {
		return fmt.Errorf("handleCall: `if version != .. && .. { return pm.makeReply(xid, PROG_MISMATCH, nil) }` not found")
	}
	fmt.Fprintf(b, "Definition f_pm_versions : list Z := [%s].\n", strings.Join(versions, "; "))

	// --- mismatch_info written by makeReply ---
	mr := c.funcDecl("Portmapper", "makeReply")
	if mr == nil {
		return fmt.Errorf("Portmapper.makeReply not found")
	}
	var lohi []string
	ast.Inspect(mr.Body, func(x ast.Node) bool {
		is, ok := x.(*ast.IfStmt)
		if !ok {
			return true
		}
		be, ok := is.Cond.(*ast.BinaryExpr)
		if !ok || be.Op != token.EQL || pmSel(be.X) != "status" || pmSel(be.Y) != "PROG_MISMATCH" {
			return true
		}
		for _, s := range is.Body.List {
			es, ok := s.(*ast.ExprStmt)
			if !ok {
				lohi = append(lohi, "?")
				continue
			}
			call, ok := es.X.(*ast.CallExpr)
			if !ok || pmSel(call.Fun) != "binary.Write" || len(call.Args) != 3 {
				lohi = append(lohi, "?")
				continue
			}
			v, ok := c.constVal(call.Args[2])
			if !ok {
				lohi = append(lohi, "?")
				continue
			}
			lohi = append(lohi, zlit(v))
		}
		return false
	})
	if len(lohi) != 2 || lohi[0] == "?" || lohi[1] == "?" {
		return fmt.Errorf("makeReply: `if status == PROG_MISMATCH { Write(uint32(lo)); Write(uint32(hi)) }` not found (got %v)", lohi)
	}
	fmt.Fprintf(b, "Definition f_pm_mismatch_low : Z := %s.\nDefinition f_pm_mismatch_high : Z := %s.\n", lohi[0], lohi[1])

	// --- loopback guards ---
	for _, n := range [][2]string{{"handleSet", "v2_set"}, {"handleUnset", "v2_unset"}} {
		g, err := c.pmFirstStmtGuard(n[0])
		if err != nil {
			return err
		}
		fmt.Fprintf(b, "Definition f_pm_%s_guarded : bool := %v.\n", n[1], g)
	}
	for _, n := range [][2]string{{"handleRpcbSet", "rpcb_set"}, {"handleRpcbUnset", "rpcb_unset"}} {
		calls, guarded := 0, 0
		ast.Inspect(hc.Body, func(x ast.Node) bool {
			if is, ok := x.(*ast.IfStmt); ok && pmIsGuardCall(is.Cond) && pmCalls(is.Body, "pm."+n[0]) {
				if eb, ok := is.Else.(*ast.BlockStmt); ok && len(eb.List) == 1 {
					if as, ok := eb.List[0].(*ast.AssignStmt); ok && len(as.Rhs) == 1 && pmIsEncodeFalse(as.Rhs[0]) {
						guarded++
					}
				}
			}
			if call, ok := x.(*ast.CallExpr); ok && pmSel(call.Fun) == "pm."+n[0] {
				calls++
			}
			return true
		})
		if calls == 0 {
			return fmt.Errorf("handleCall: no call of %s", n[0])
		}
		fmt.Fprintf(b, "Definition f_pm_%s_guarded : bool := %v.\n", n[1], calls == guarded)
	}
	return nil
}
