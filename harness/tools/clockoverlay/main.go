// clockoverlay: rewrites time.Now()/time.Since(x) in /repo's current non-test sources into calls of a
// virtual clock and emits a `go build -overlay` description.  Nothing under /repo is modified.
// With the virtual clock unset (0) the functions fall back to the real clock.
package main

import (
	"encoding/json"
	"flag"
	"fmt"
	"os"
	"path/filepath"
	"regexp"
	"strings"
)

const clockSrc = `//go:build verif

package absnfs

import (
	"sync/atomic"
	"time"
)

var verifClockNs atomic.Int64

// VerifSetClock sets the virtual clock (nanoseconds since the Unix epoch); 0 = real time.
func VerifSetClock(ns int64) { verifClockNs.Store(ns) }

// VerifAdvanceClock advances the virtual clock.
func VerifAdvanceClock(ns int64) { verifClockNs.Add(ns) }

// VerifClock reads the virtual clock.
func VerifClock() int64 { return verifClockNs.Load() }

func verifNow() time.Time {
	if ns := verifClockNs.Load(); ns != 0 {
		return time.Unix(0, ns)
	}
	return time.Now()
}

func verifSince(t time.Time) time.Duration { return verifNow().Sub(t) }
`

func main() {
	repo := flag.String("repo", "/repo", "repository root")
	out := flag.String("out", "", "output directory (overlay.json is written next to it)")
	flag.Parse()
	os.RemoveAll(*out)
	if err := os.MkdirAll(*out, 0o755); err != nil {
		panic(err)
	}
	entries, err := os.ReadDir(*repo)
	if err != nil {
		panic(err)
	}
	reNow := regexp.MustCompile(`\btime\.Now\(\)`)
	reSince := regexp.MustCompile(`\btime\.Since\(`)
	replace := map[string]string{}
	n := 0
	for _, e := range entries {
		name := e.Name()
		if e.IsDir() || !strings.HasSuffix(name, ".go") || strings.HasSuffix(name, "_test.go") {
			continue
		}
		b, err := os.ReadFile(filepath.Join(*repo, name))
		if err != nil {
			panic(err)
		}
		s := string(b)
		if !reNow.MatchString(s) && !reSince.MatchString(s) {
			continue
		}
		s2 := reNow.ReplaceAllString(s, "verifNow()")
		s2 = reSince.ReplaceAllString(s2, "verifSince(")
		s2 += "\nvar _ = time.Nanosecond // keeps the time import used after the clock rewrite\n"
		dst := filepath.Join(*out, name)
		if err := os.WriteFile(dst, []byte(s2), 0o644); err != nil {
			panic(err)
		}
		replace[filepath.Join(*repo, name)] = dst
		n++
	}
	clk := filepath.Join(*out, "zz_verif_clock.go")
	os.WriteFile(clk, []byte(clockSrc), 0o644)
	replace[filepath.Join(*repo, "zz_verif_clock.go")] = clk
	js, _ := json.MarshalIndent(map[string]interface{}{"Replace": replace}, "", " ")
	if err := os.WriteFile(filepath.Clean(*out)+".json", js, 0o644); err != nil {
		panic(err)
	}
	fmt.Printf("clockoverlay: %d files rewritten\n", n)
}
