// Package specfs is a small deterministic in-memory absfs.SymlinkFileSystem: the Go twin of
// coq/Model/Backend.v.  It records every call (for the C07/C08/C11 projections), keeps file data
// sparse (offsets near 2^63 stay cheap), separates volatile from durable file contents (Sync makes
// data durable, Crash drops what was not synced; namespace and metadata operations are durable at
// once), can inject faults and can gate operations for schedule-controlled tests.
package specfs

import (
	"fmt"
	"io"
	"io/fs"
	"os"
	"path"
	"sort"
	"strings"
	"sync"
	"syscall"
	"time"

	"github.com/absfs/absfs"
)

type Kind int

const (
	KFile Kind = iota
	KDir
	KLink
)

type inode struct {
	kind     Kind
	perm     os.FileMode // permission bits only
	uid, gid int
	mtime    time.Time
	// file
	size  int64
	data  map[int64]byte // non-zero bytes only
	dsize int64          // durable size
	ddata map[int64]byte // durable bytes
	ver   uint64         // bumped by every change of the volatile contents (SyncSnapshot mode)
	dver  uint64         // version of the contents that are durable (SyncSnapshot mode)
	// dir
	children map[string]*inode
	// symlink
	target string
}

// Call is one recorded backend call.
type Call struct {
	Op    string // Lstat Stat OpenFile Create Mkdir Remove Rename Symlink Readlink Chmod Chown Lchown Chtimes Truncate ReadAt WriteAt Sync Readdir FTruncate
	Path  string
	Path2 string // Rename: new path; Symlink: target
	Flag  int    // OpenFile flags
	A, B  int64  // Chown uid/gid, WriteAt off/len, Truncate size, Chmod mode
	Err   string // "" on success, errno name otherwise
}

// Mutating reports whether the call modifies the backing store (C08's list).
func (c Call) Mutating() bool {
	switch c.Op {
	case "Create", "Mkdir", "Remove", "Rename", "Symlink", "Chmod", "Chown", "Lchown", "Chtimes", "Truncate", "WriteAt", "FTruncate", "Write":
		return true
	case "OpenFile":
		return c.Flag&(os.O_WRONLY|os.O_RDWR|os.O_CREATE|os.O_TRUNC|os.O_APPEND) != 0
	}
	return false
}

type FS struct {
	mu    sync.Mutex
	root  *inode
	Clock func() time.Time
	Log   []Call
	Rec   bool
	// Fault, when non-nil, is consulted before every operation; a non-nil error is returned instead.
	Fault func(op, p string) error
	// Gate, when non-nil, is called (without the lock) before every operation: used to block/yield.
	Gate func(op, p string)
	// CrashHook, when non-nil, is called after every mutating operation with the call (crash points).
	AfterOp func(c Call)
	// SyncSnapshot (off by default: Sync then persists what the file holds when Sync completes, under one lock)
	// makes Sync behave like an fsync that takes time: it persists the contents the file had when Sync was
	// ENTERED - an fsync only promises what was written before it was called.  The snapshot is taken under the
	// lock, then Gate / Fault / MidSync run without the lock (the "disk" is busy, other calls proceed), then the
	// snapshot becomes the durable contents unless a newer one already is.
	SyncSnapshot bool
	// LinkSizeZero (off by default) makes Lstat report size 0 for symbolic links, as some backends (memfs) do,
	// instead of the length of the target; Dump reports the same number, so oracles can compare with "what the
	// backend's lstat says" whatever the convention.
	LinkSizeZero bool
	// MidSync, when non-nil, is called without the lock between the snapshot and its installation (SyncSnapshot mode).
	MidSync func(p string)
}

func New() *FS {
	f := &FS{Clock: time.Now, Rec: true}
	f.root = &inode{kind: KDir, perm: 0755, children: map[string]*inode{}, mtime: time.Unix(1000, 0)}
	return f
}

var _ absfs.SymlinkFileSystem = (*FS)(nil)

func errno(op, p string, e syscall.Errno) error { return &os.PathError{Op: op, Path: p, Err: e} }

func errName(err error) string {
	if err == nil {
		return ""
	}
	if pe, ok := err.(*os.PathError); ok {
		if en, ok := pe.Err.(syscall.Errno); ok {
			switch en {
			case syscall.ENOENT:
				return "ENOENT"
			case syscall.EEXIST:
				return "EEXIST"
			case syscall.ENOTDIR:
				return "ENOTDIR"
			case syscall.EISDIR:
				return "EISDIR"
			case syscall.ENOTEMPTY:
				return "ENOTEMPTY"
			case syscall.EINVAL:
				return "EINVAL"
			case syscall.ELOOP:
				return "ELOOP"
			case syscall.EIO:
				return "EIO"
			}
			return en.Error()
		}
	}
	return err.Error()
}

func (f *FS) rec(c Call, err error) {
	c.Err = errName(err)
	if f.Rec {
		f.Log = append(f.Log, c)
	}
	if f.AfterOp != nil {
		f.AfterOp(c)
	}
}

func (f *FS) pre(op, p string) error {
	if f.Gate != nil {
		f.Gate(op, p)
	}
	if f.Fault != nil {
		return f.Fault(op, p)
	}
	return nil
}

// TakeLog returns and clears the call log.
func (f *FS) TakeLog() []Call {
	f.mu.Lock()
	defer f.mu.Unlock()
	l := f.Log
	f.Log = nil
	return l
}

func split(p string) []string {
	var out []string
	for _, c := range strings.Split(p, "/") {
		if c != "" && c != "." {
			out = append(out, c)
		}
	}
	return out
}

// walk resolves p to (parent dir inode, final name, final inode or nil).  Intermediate symlinks are
// followed; the final component is followed iff follow.  ".." steps to the parent lexically within
// the resolved canonical path.
func (f *FS) walk(op, p string, follow bool) (canon []string, parent *inode, name string, node *inode, err error) {
	if !strings.HasPrefix(p, "/") {
		return nil, nil, "", nil, errno(op, p, syscall.EINVAL)
	}
	fuel := 40
	todo := split(p)
	var stack []*inode // stack[i] is the inode of canon[:i+1]
	cur := f.root
	for len(todo) > 0 {
		c := todo[0]
		todo = todo[1:]
		if cur.kind != KDir {
			return nil, nil, "", nil, errno(op, p, syscall.ENOTDIR)
		}
		if c == ".." {
			if len(canon) > 0 {
				canon = canon[:len(canon)-1]
				stack = stack[:len(stack)-1]
			}
			if len(stack) > 0 {
				cur = stack[len(stack)-1]
			} else {
				cur = f.root
			}
			continue
		}
		child := cur.children[c]
		last := len(todo) == 0
		if child == nil {
			if last {
				return append(canon, c), cur, c, nil, nil
			}
			return nil, nil, "", nil, errno(op, p, syscall.ENOENT)
		}
		if child.kind == KLink && (!last || follow) {
			fuel--
			if fuel < 0 {
				return nil, nil, "", nil, errno(op, p, syscall.ELOOP)
			}
			t := split(child.target)
			if strings.HasPrefix(child.target, "/") {
				canon, stack, cur = nil, nil, f.root
			}
			todo = append(append([]string{}, t...), todo...)
			if len(todo) == 0 { // symlink to "/" or ""
				return canon, nil, "", cur, nil
			}
			continue
		}
		if last {
			return append(canon, c), cur, c, child, nil
		}
		canon = append(canon, c)
		stack = append(stack, child)
		cur = child
	}
	return canon, nil, "", cur, nil // root itself
}

type info struct {
	name string
	n    *inode
	size int64
	mode os.FileMode
	mt   time.Time
}

func (i info) Name() string       { return i.name }
func (i info) Size() int64        { return i.size }
func (i info) Mode() os.FileMode  { return i.mode }
func (i info) ModTime() time.Time { return i.mt }
func (i info) IsDir() bool        { return i.mode.IsDir() }
func (i info) Sys() interface{}   { return nil }

// DirSize is the size every directory reports.
const DirSize = 4096

func (f *FS) mkinfo(name string, n *inode) info {
	i := mkinfo(name, n)
	if f.LinkSizeZero && n.kind == KLink {
		i.size = 0
	}
	return i
}

func mkinfo(name string, n *inode) info {
	i := info{name: name, n: n, mt: n.mtime}
	switch n.kind {
	case KFile:
		i.size, i.mode = n.size, n.perm
	case KDir:
		i.size, i.mode = DirSize, n.perm|os.ModeDir
	case KLink:
		i.size, i.mode = int64(len(n.target)), n.perm|os.ModeSymlink
	}
	return i
}

func (f *FS) stat(op, p string, follow bool) (os.FileInfo, error) {
	if err := f.pre(op, p); err != nil {
		f.mu.Lock()
		f.rec(Call{Op: op, Path: p}, err)
		f.mu.Unlock()
		return nil, err
	}
	f.mu.Lock()
	defer f.mu.Unlock()
	_, _, _, n, err := f.walk(op, p, follow)
	if err == nil && n == nil {
		err = errno(op, p, syscall.ENOENT)
	}
	f.rec(Call{Op: op, Path: p}, err)
	if err != nil {
		return nil, err
	}
	return f.mkinfo(path.Base(p), n), nil
}

func (f *FS) Stat(p string) (os.FileInfo, error)  { return f.stat("Stat", p, true) }
func (f *FS) Lstat(p string) (os.FileInfo, error) { return f.stat("Lstat", p, false) }

func (f *FS) Mkdir(p string, perm os.FileMode) error {
	if err := f.pre("Mkdir", p); err != nil {
		f.mu.Lock()
		f.rec(Call{Op: "Mkdir", Path: p, A: int64(perm)}, err)
		f.mu.Unlock()
		return err
	}
	f.mu.Lock()
	defer f.mu.Unlock()
	_, parent, name, n, err := f.walk("mkdir", p, false)
	switch {
	case err != nil:
	case n != nil:
		err = errno("mkdir", p, syscall.EEXIST)
	default:
		parent.children[name] = &inode{kind: KDir, perm: perm & 0777, children: map[string]*inode{}, mtime: f.Clock()}
		parent.mtime = f.Clock()
	}
	f.rec(Call{Op: "Mkdir", Path: p, A: int64(perm)}, err)
	return err
}

func (f *FS) Symlink(target, p string) error {
	if err := f.pre("Symlink", p); err != nil {
		f.mu.Lock()
		f.rec(Call{Op: "Symlink", Path: p, Path2: target}, err)
		f.mu.Unlock()
		return err
	}
	f.mu.Lock()
	defer f.mu.Unlock()
	_, parent, name, n, err := f.walk("symlink", p, false)
	switch {
	case err != nil:
	case n != nil:
		err = errno("symlink", p, syscall.EEXIST)
	default:
		parent.children[name] = &inode{kind: KLink, perm: 0777, target: target, mtime: f.Clock()}
		parent.mtime = f.Clock()
	}
	f.rec(Call{Op: "Symlink", Path: p, Path2: target}, err)
	return err
}

func (f *FS) Readlink(p string) (string, error) {
	if err := f.pre("Readlink", p); err != nil {
		f.mu.Lock()
		f.rec(Call{Op: "Readlink", Path: p}, err)
		f.mu.Unlock()
		return "", err
	}
	f.mu.Lock()
	defer f.mu.Unlock()
	_, _, _, n, err := f.walk("readlink", p, false)
	switch {
	case err != nil:
	case n == nil:
		err = errno("readlink", p, syscall.ENOENT)
	case n.kind != KLink:
		err = errno("readlink", p, syscall.EINVAL)
	}
	f.rec(Call{Op: "Readlink", Path: p}, err)
	if err != nil {
		return "", err
	}
	return n.target, nil
}

func (f *FS) Remove(p string) error {
	if err := f.pre("Remove", p); err != nil {
		f.mu.Lock()
		f.rec(Call{Op: "Remove", Path: p}, err)
		f.mu.Unlock()
		return err
	}
	f.mu.Lock()
	defer f.mu.Unlock()
	_, parent, name, n, err := f.walk("remove", p, false)
	switch {
	case err != nil:
	case n == nil:
		err = errno("remove", p, syscall.ENOENT)
	case parent == nil:
		err = errno("remove", p, syscall.EINVAL) // the root
	case n.kind == KDir && len(n.children) > 0:
		err = errno("remove", p, syscall.ENOTEMPTY)
	default:
		delete(parent.children, name)
		parent.mtime = f.Clock()
	}
	f.rec(Call{Op: "Remove", Path: p}, err)
	return err
}

func isPrefix(a, b []string) bool {
	if len(a) > len(b) {
		return false
	}
	for i := range a {
		if a[i] != b[i] {
			return false
		}
	}
	return true
}

func (f *FS) Rename(oldp, newp string) error {
	if err := f.pre("Rename", oldp); err != nil {
		f.mu.Lock()
		f.rec(Call{Op: "Rename", Path: oldp, Path2: newp}, err)
		f.mu.Unlock()
		return err
	}
	f.mu.Lock()
	defer f.mu.Unlock()
	err := func() error {
		oc, op, on, n, err := f.walk("rename", oldp, false)
		if err != nil {
			return err
		}
		if n == nil {
			return errno("rename", oldp, syscall.ENOENT)
		}
		if op == nil {
			return errno("rename", oldp, syscall.EINVAL)
		}
		nc, np, nn, m, err := f.walk("rename", newp, false)
		if err != nil {
			return err
		}
		if np == nil {
			return errno("rename", newp, syscall.EINVAL)
		}
		if m == n {
			return nil
		}
		if n.kind == KDir && isPrefix(oc, nc) {
			return errno("rename", newp, syscall.EINVAL)
		}
		if m != nil {
			switch {
			case n.kind == KDir && m.kind != KDir:
				return errno("rename", newp, syscall.ENOTDIR)
			case n.kind != KDir && m.kind == KDir:
				return errno("rename", newp, syscall.EISDIR)
			case m.kind == KDir && len(m.children) > 0:
				return errno("rename", newp, syscall.ENOTEMPTY)
			}
		}
		delete(op.children, on)
		np.children[nn] = n
		op.mtime, np.mtime = f.Clock(), f.Clock()
		return nil
	}()
	f.rec(Call{Op: "Rename", Path: oldp, Path2: newp}, err)
	return err
}

func (f *FS) meta(op, p string, follow bool, c Call, apply func(n *inode)) error {
	c.Op, c.Path = op, p
	if err := f.pre(op, p); err != nil {
		f.mu.Lock()
		f.rec(c, err)
		f.mu.Unlock()
		return err
	}
	f.mu.Lock()
	defer f.mu.Unlock()
	_, _, _, n, err := f.walk(strings.ToLower(op), p, follow)
	if err == nil && n == nil {
		err = errno(strings.ToLower(op), p, syscall.ENOENT)
	}
	if err == nil {
		apply(n)
	}
	f.rec(c, err)
	return err
}

func (f *FS) Chmod(p string, mode os.FileMode) error {
	return f.meta("Chmod", p, true, Call{A: int64(mode)}, func(n *inode) { n.perm = mode & 0777 })
}
func (f *FS) Chown(p string, uid, gid int) error {
	return f.meta("Chown", p, true, Call{A: int64(uid), B: int64(gid)}, func(n *inode) { n.uid, n.gid = uid, gid })
}
func (f *FS) Lchown(p string, uid, gid int) error {
	return f.meta("Lchown", p, false, Call{A: int64(uid), B: int64(gid)}, func(n *inode) { n.uid, n.gid = uid, gid })
}
func (f *FS) Chtimes(p string, atime, mtime time.Time) error {
	// a zero time leaves the corresponding file time unchanged (os.Chtimes semantics)
	return f.meta("Chtimes", p, true, Call{A: mtime.UnixNano()}, func(n *inode) {
		if !mtime.IsZero() {
			n.mtime = mtime
		}
	})
}

func truncateInode(n *inode, size int64) {
	n.ver++
	for off := range n.data {
		if off >= size {
			delete(n.data, off)
		}
	}
	n.size = size
}

func (f *FS) Truncate(p string, size int64) error {
	c := Call{Op: "Truncate", Path: p, A: size}
	if err := f.pre("Truncate", p); err != nil {
		f.mu.Lock()
		f.rec(c, err)
		f.mu.Unlock()
		return err
	}
	f.mu.Lock()
	defer f.mu.Unlock()
	_, _, _, n, err := f.walk("truncate", p, true)
	switch {
	case err != nil:
	case n == nil:
		err = errno("truncate", p, syscall.ENOENT)
	case n.kind == KDir:
		err = errno("truncate", p, syscall.EISDIR)
	case size < 0:
		err = errno("truncate", p, syscall.EINVAL)
	default:
		truncateInode(n, size)
		n.mtime = f.Clock()
	}
	f.rec(c, err)
	return err
}

func (f *FS) OpenFile(p string, flag int, perm os.FileMode) (absfs.File, error) {
	c := Call{Op: "OpenFile", Path: p, Flag: flag, A: int64(perm)}
	if flag&os.O_CREATE != 0 && flag&os.O_TRUNC != 0 {
		c.Op = "Create"
	}
	if err := f.pre(c.Op, p); err != nil {
		f.mu.Lock()
		f.rec(c, err)
		f.mu.Unlock()
		return nil, err
	}
	f.mu.Lock()
	defer f.mu.Unlock()
	_, parent, name, n, err := f.walk("open", p, true)
	wr := flag&(os.O_WRONLY|os.O_RDWR) != 0
	switch {
	case err != nil:
	case n == nil && flag&os.O_CREATE == 0:
		err = errno("open", p, syscall.ENOENT)
	case n == nil:
		n = &inode{kind: KFile, perm: perm & 0777, data: map[int64]byte{}, ddata: map[int64]byte{}, mtime: f.Clock()}
		parent.children[name] = n
		parent.mtime = f.Clock()
	case flag&os.O_CREATE != 0 && flag&os.O_EXCL != 0:
		err = errno("open", p, syscall.EEXIST)
	case n.kind == KDir && (wr || flag&os.O_TRUNC != 0):
		err = errno("open", p, syscall.EISDIR)
	case n.kind == KFile && flag&os.O_TRUNC != 0:
		truncateInode(n, 0)
		n.mtime = f.Clock()
	}
	f.rec(c, err)
	if err != nil {
		return nil, err
	}
	return &file{fs: f, n: n, name: p, wr: wr, rd: flag&os.O_WRONLY == 0}, nil
}

func (f *FS) Open(p string) (absfs.File, error) { return f.OpenFile(p, os.O_RDONLY, 0) }
func (f *FS) Create(p string) (absfs.File, error) {
	return f.OpenFile(p, os.O_RDWR|os.O_CREATE|os.O_TRUNC, 0666)
}

// ---- rarely used parts of the interface ----
func (f *FS) Chdir(string) error      { return nil }
func (f *FS) Getwd() (string, error)  { return "/", nil }
func (f *FS) TempDir() string         { return "/tmp" }
func (f *FS) MkdirAll(p string, perm os.FileMode) error {
	cur := ""
	for _, c := range split(p) {
		cur += "/" + c
		if err := f.Mkdir(cur, perm); err != nil && !os.IsExist(err) {
			return err
		}
	}
	return nil
}
func (f *FS) RemoveAll(p string) error {
	fi, err := f.Lstat(p)
	if err != nil {
		return nil
	}
	if fi.IsDir() {
		es, _ := f.ReadDir(p)
		for _, e := range es {
			f.RemoveAll(path.Join(p, e.Name()))
		}
	}
	return f.Remove(p)
}
func (f *FS) ReadDir(p string) ([]fs.DirEntry, error) {
	fh, err := f.OpenFile(p, os.O_RDONLY, 0)
	if err != nil {
		return nil, err
	}
	defer fh.Close()
	return fh.ReadDir(-1)
}
func (f *FS) ReadFile(p string) ([]byte, error) {
	fh, err := f.OpenFile(p, os.O_RDONLY, 0)
	if err != nil {
		return nil, err
	}
	defer fh.Close()
	st, _ := fh.Stat()
	b := make([]byte, st.Size())
	_, err = fh.ReadAt(b, 0)
	if err == io.EOF {
		err = nil
	}
	return b, err
}
func (f *FS) Sub(string) (fs.FS, error) { return nil, absfs.ErrNotImplemented }

// ---- file ----
type file struct {
	fs     *FS
	n      *inode
	name   string
	wr, rd bool
	pos    int64
}

func (h *file) Name() string { return h.name }
func (h *file) Close() error { return nil }
func (h *file) Stat() (os.FileInfo, error) {
	h.fs.mu.Lock()
	defer h.fs.mu.Unlock()
	return h.fs.mkinfo(path.Base(h.name), h.n), nil
}
func (h *file) ReadAt(b []byte, off int64) (int, error) {
	if err := h.fs.pre("ReadAt", h.name); err != nil {
		return 0, err
	}
	h.fs.mu.Lock()
	defer h.fs.mu.Unlock()
	var err error
	n := 0
	switch {
	case h.n.kind != KFile:
		err = errno("read", h.name, syscall.EISDIR)
	case off < 0:
		err = errno("read", h.name, syscall.EINVAL)
	default:
		for n < len(b) && off+int64(n) < h.n.size {
			b[n] = h.n.data[off+int64(n)]
			n++
		}
		if n < len(b) {
			err = io.EOF
		}
	}
	h.fs.rec(Call{Op: "ReadAt", Path: h.name, A: off, B: int64(len(b))}, nil)
	return n, err
}
func (h *file) WriteAt(b []byte, off int64) (int, error) {
	c := Call{Op: "WriteAt", Path: h.name, A: off, B: int64(len(b))}
	if err := h.fs.pre("WriteAt", h.name); err != nil {
		h.fs.mu.Lock()
		h.fs.rec(c, err)
		h.fs.mu.Unlock()
		return 0, err
	}
	h.fs.mu.Lock()
	defer h.fs.mu.Unlock()
	var err error
	switch {
	case h.n.kind != KFile:
		err = errno("write", h.name, syscall.EISDIR)
	case !h.wr:
		err = errno("write", h.name, syscall.EBADF)
	case off < 0 || off+int64(len(b)) < off:
		err = errno("write", h.name, syscall.EINVAL)
	default:
		for i, x := range b {
			if x == 0 {
				delete(h.n.data, off+int64(i))
			} else {
				h.n.data[off+int64(i)] = x
			}
		}
		if len(b) > 0 && off+int64(len(b)) > h.n.size {
			h.n.size = off + int64(len(b))
		}
		h.n.ver++
		h.n.mtime = h.fs.Clock()
	}
	h.fs.rec(c, err)
	if err != nil {
		return 0, err
	}
	return len(b), nil
}
// syncSnapshot is Sync in SyncSnapshot mode.
func (h *file) syncSnapshot() error {
	c := Call{Op: "Sync", Path: h.name}
	h.fs.mu.Lock()
	isFile := h.n.kind == KFile
	ver, size := h.n.ver, h.n.size
	var snap map[int64]byte
	if isFile {
		snap = make(map[int64]byte, len(h.n.data))
		for k, v := range h.n.data {
			snap[k] = v
		}
	}
	h.fs.mu.Unlock()
	err := h.fs.pre("Sync", h.name)
	if err == nil && h.fs.MidSync != nil {
		h.fs.MidSync(h.name)
	}
	h.fs.mu.Lock()
	defer h.fs.mu.Unlock()
	if err == nil && isFile && (ver > h.n.dver || h.n.dver == 0) {
		h.n.dsize, h.n.ddata, h.n.dver = size, snap, ver
	}
	h.fs.rec(c, err)
	return err
}

func (h *file) Sync() error {
	if h.fs.SyncSnapshot {
		return h.syncSnapshot()
	}
	c := Call{Op: "Sync", Path: h.name}
	if err := h.fs.pre("Sync", h.name); err != nil {
		h.fs.mu.Lock()
		h.fs.rec(c, err)
		h.fs.mu.Unlock()
		return err
	}
	h.fs.mu.Lock()
	defer h.fs.mu.Unlock()
	if h.n.kind == KFile {
		h.n.dsize = h.n.size
		h.n.ddata = map[int64]byte{}
		for k, v := range h.n.data {
			h.n.ddata[k] = v
		}
	}
	h.fs.rec(c, nil)
	return nil
}
func (h *file) Truncate(size int64) error {
	h.fs.mu.Lock()
	defer h.fs.mu.Unlock()
	var err error
	if h.n.kind != KFile || size < 0 {
		err = errno("truncate", h.name, syscall.EINVAL)
	} else {
		truncateInode(h.n, size)
	}
	h.fs.rec(Call{Op: "FTruncate", Path: h.name, A: size}, err)
	return err
}
func (h *file) Read(b []byte) (int, error) {
	n, err := h.ReadAt(b, h.pos)
	h.pos += int64(n)
	return n, err
}
func (h *file) Write(b []byte) (int, error) {
	n, err := h.WriteAt(b, h.pos)
	h.pos += int64(n)
	return n, err
}
func (h *file) WriteString(s string) (int, error) { return h.Write([]byte(s)) }
func (h *file) Seek(off int64, whence int) (int64, error) {
	switch whence {
	case io.SeekStart:
		h.pos = off
	case io.SeekCurrent:
		h.pos += off
	case io.SeekEnd:
		h.fs.mu.Lock()
		h.pos = h.n.size + off
		h.fs.mu.Unlock()
	}
	return h.pos, nil
}
func (h *file) Readdir(int) ([]os.FileInfo, error) {
	if err := h.fs.pre("Readdir", h.name); err != nil {
		return nil, err
	}
	h.fs.mu.Lock()
	defer h.fs.mu.Unlock()
	if h.n.kind != KDir {
		err := errno("readdir", h.name, syscall.ENOTDIR)
		h.fs.rec(Call{Op: "Readdir", Path: h.name}, err)
		return nil, err
	}
	names := make([]string, 0, len(h.n.children))
	for k := range h.n.children {
		names = append(names, k)
	}
	sort.Strings(names)
	out := make([]os.FileInfo, len(names))
	for i, k := range names {
		out[i] = h.fs.mkinfo(k, h.n.children[k])
	}
	h.fs.rec(Call{Op: "Readdir", Path: h.name}, nil)
	return out, nil
}
func (h *file) Readdirnames(n int) ([]string, error) {
	fis, err := h.Readdir(n)
	var out []string
	for _, fi := range fis {
		out = append(out, fi.Name())
	}
	return out, err
}
func (h *file) ReadDir(n int) ([]fs.DirEntry, error) {
	fis, err := h.Readdir(n)
	var out []fs.DirEntry
	for _, fi := range fis {
		out = append(out, fs.FileInfoToDirEntry(fi))
	}
	return out, err
}

// ---- inspection (not recorded) ----

// Entry is one object of a tree dump.
type Entry struct {
	Path     string
	Kind     Kind
	Perm     uint32
	Uid, Gid int
	Size     int64
	Data     [][2]int64 // sorted (offset, byte) of the non-zero bytes
	Target   string
	MtimeNs  int64
}

func dumpData(size int64, data map[int64]byte) [][2]int64 {
	out := make([][2]int64, 0, len(data))
	for k, v := range data {
		if k < size && v != 0 {
			out = append(out, [2]int64{k, int64(v)})
		}
	}
	sort.Slice(out, func(i, j int) bool { return out[i][0] < out[j][0] })
	return out
}

// Dump lists every object (root first, then depth-first in name order).  durable selects the
// durable file contents (what a crash would leave).
func (f *FS) Dump(durable bool) []Entry {
	f.mu.Lock()
	defer f.mu.Unlock()
	return f.DumpLocked(durable)
}

// DumpLocked is Dump for callers that already hold the lock (the AfterOp hook).
func (f *FS) DumpLocked(durable bool) []Entry {
	var out []Entry
	var rec func(p string, n *inode)
	rec = func(p string, n *inode) {
		e := Entry{Path: p, Kind: n.kind, Perm: uint32(n.perm), Uid: n.uid, Gid: n.gid, MtimeNs: n.mtime.UnixNano()}
		switch n.kind {
		case KFile:
			if durable {
				e.Size, e.Data = n.dsize, dumpData(n.dsize, n.ddata)
			} else {
				e.Size, e.Data = n.size, dumpData(n.size, n.data)
			}
		case KDir:
			e.Size = DirSize
		case KLink:
			e.Size, e.Target = int64(len(n.target)), n.target
			if f.LinkSizeZero {
				e.Size = 0
			}
		}
		out = append(out, e)
		if n.kind == KDir {
			names := make([]string, 0, len(n.children))
			for k := range n.children {
				names = append(names, k)
			}
			sort.Strings(names)
			for _, k := range names {
				cp := p + "/" + k
				if p == "/" {
					cp = "/" + k
				}
				rec(cp, n.children[k])
			}
		}
	}
	rec("/", f.root)
	return out
}

// Crash discards everything that was not synced.
func (f *FS) Crash() {
	f.mu.Lock()
	defer f.mu.Unlock()
	var rec func(n *inode)
	rec = func(n *inode) {
		if n.kind == KFile {
			n.size = n.dsize
			n.data = map[int64]byte{}
			for k, v := range n.ddata {
				n.data[k] = v
			}
		}
		for _, c := range n.children {
			rec(c)
		}
	}
	rec(f.root)
}

func (e Entry) String() string {
	k := []string{"f", "d", "l"}[e.Kind]
	return fmt.Sprintf("%s:%s:%o:%d:%d:%d", e.Path, k, e.Perm, e.Uid, e.Gid, e.Size)
}
