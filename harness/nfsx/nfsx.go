// Package nfsx drives the real absnfs procedure handlers without a socket: it builds a server over
// the specfs backend, encodes NFSv3/MOUNT arguments, calls NFSProcedureHandler.HandleCall and decodes
// the replies into a structured observation (Obs) that the Coq correspondence files compare with
// Model/Srv.v.  It also renders requests and observations as Coq terms.
package nfsx

import (
	"bytes"
	"encoding/binary"
	"fmt"
	"strings"
	"time"

	"github.com/absfs/absnfs"

	. "verifharness/lib"
	"verifharness/specfs"
)

const (
	ProgNFS   = 100003
	ProgMount = 100005
)

// Env is one server instance over a fresh specfs.
type Env struct {
	FS   *specfs.FS
	NFS  *absnfs.AbsfsNFS
	Srv  *absnfs.Server
	H    *absnfs.NFSProcedureHandler
	IP   string
	Port int
	xid  uint32
}

// Clock0 is the virtual time at which every environment starts.
const Clock0 = int64(1_000_000) * 1_000_000_000

func NewEnv(opts absnfs.ExportOptions, maxHandles int) (*Env, error) {
	absnfs.VerifSetClock(Clock0)
	return NewEnvKeepClock(opts, maxHandles)
}

// NewEnvKeepClock builds an environment without resetting the virtual clock.
func NewEnvKeepClock(opts absnfs.ExportOptions, maxHandles int) (*Env, error) {
	fs := specfs.New()
	fs.Clock = func() time.Time { return time.Unix(0, absnfs.VerifClock()) }
	if opts.Squash == "" {
		opts.Squash = "none"
	}
	n, err := absnfs.New(fs, opts)
	if err != nil {
		return nil, err
	}
	n.VerifSetMaxHandles(maxHandles)
	srv, h := absnfs.VerifNewHandler(n)
	fs.TakeLog()
	return &Env{FS: fs, NFS: n, Srv: srv, H: h, IP: "127.0.0.1", Port: 1000}, nil
}

func (e *Env) Close() { e.NFS.Close() }

type Cred struct {
	Uid, Gid uint32
	Aux      []uint32
}

func authSysBody(c Cred) []byte {
	var b bytes.Buffer
	binary.Write(&b, binary.BigEndian, uint32(0)) // stamp
	binary.Write(&b, binary.BigEndian, uint32(0)) // machine name length
	binary.Write(&b, binary.BigEndian, c.Uid)
	binary.Write(&b, binary.BigEndian, c.Gid)
	binary.Write(&b, binary.BigEndian, uint32(len(c.Aux)))
	for _, g := range c.Aux {
		binary.Write(&b, binary.BigEndian, g)
	}
	return b.Bytes()
}

// RawCall sends raw argument bytes to (prog, vers, proc) and returns the reply structure.
func (e *Env) RawCall(prog, vers, proc uint32, c Cred, body []byte) (*absnfs.RPCReply, error) {
	e.xid++
	call := &absnfs.RPCCall{
		Header:     absnfs.RPCMsgHeader{Xid: e.xid, MsgType: 0, RPCVersion: 2, Program: prog, Version: vers, Procedure: proc},
		Credential: absnfs.RPCCredential{Flavor: 1, Body: authSysBody(c)},
		Verifier:   absnfs.RPCVerifier{},
	}
	cred := call.Credential
	ctx := &absnfs.AuthContext{ClientIP: e.IP, ClientPort: e.Port, Credential: &cred}
	return e.H.HandleCall(call, bytes.NewReader(body), ctx)
}

// ---------------- requests ----------------

type Sattr struct {
	Mode, Uid, Gid   *uint32
	Size             *uint64
	Atime, Mtime     uint32 // 0 don't change, 1 server time, 2 client time
	AtimeNs, MtimeNs int64  // client times in ns
}

type Req struct {
	Proc   string // NULL GETATTR SETATTR LOOKUP ACCESS READLINK READ WRITE CREATE MKDIR SYMLINK MKNOD REMOVE RMDIR RENAME LINK READDIR READDIRPLUS FSSTAT FSINFO PATHCONF COMMIT MNT
	H, H2  uint64
	Name   []byte
	Name2  []byte
	Sa     Sattr
	Guard  *[2]uint32
	Off    uint64
	Cnt    uint32
	Stable uint32
	Data   []byte
	How    uint32
	Mask   uint32
	Cookie uint64
	Max    uint32
	Target []byte
}

var procNum = map[string]uint32{"NULL": 0, "GETATTR": 1, "SETATTR": 2, "LOOKUP": 3, "ACCESS": 4, "READLINK": 5, "READ": 6,
	"WRITE": 7, "CREATE": 8, "MKDIR": 9, "SYMLINK": 10, "MKNOD": 11, "REMOVE": 12, "RMDIR": 13, "RENAME": 14, "LINK": 15,
	"READDIR": 16, "READDIRPLUS": 17, "FSSTAT": 18, "FSINFO": 19, "PATHCONF": 20, "COMMIT": 21, "MNT": 1}

type enc struct{ bytes.Buffer }

func (b *enc) u32(v uint32)   { binary.Write(b, binary.BigEndian, v) }
func (b *enc) u64(v uint64)   { binary.Write(b, binary.BigEndian, v) }
func (b *enc) fh(h uint64)    { b.u32(8); b.u64(h) }
func (b *enc) opaque(d []byte) {
	b.u32(uint32(len(d)))
	b.Write(d)
	if p := (4 - len(d)%4) % 4; p > 0 {
		b.Write(make([]byte, p))
	}
}
func (b *enc) sattr(s Sattr) {
	opt32 := func(p *uint32) {
		if p == nil {
			b.u32(0)
		} else {
			b.u32(1)
			b.u32(*p)
		}
	}
	opt32(s.Mode)
	opt32(s.Uid)
	opt32(s.Gid)
	if s.Size == nil {
		b.u32(0)
	} else {
		b.u32(1)
		b.u64(*s.Size)
	}
	b.u32(s.Atime)
	if s.Atime == 2 {
		b.u32(uint32(s.AtimeNs / 1e9))
		b.u32(uint32(s.AtimeNs % 1e9))
	}
	b.u32(s.Mtime)
	if s.Mtime == 2 {
		b.u32(uint32(s.MtimeNs / 1e9))
		b.u32(uint32(s.MtimeNs % 1e9))
	}
}

// Encode renders the XDR argument bytes of the request.
func (r *Req) Encode() []byte {
	var b enc
	switch r.Proc {
	case "NULL":
	case "GETATTR", "READLINK", "FSSTAT", "FSINFO", "PATHCONF":
		b.fh(r.H)
	case "SETATTR":
		b.fh(r.H)
		b.sattr(r.Sa)
		if r.Guard == nil {
			b.u32(0)
		} else {
			b.u32(1)
			b.u32(r.Guard[0])
			b.u32(r.Guard[1])
		}
	case "LOOKUP", "REMOVE", "RMDIR":
		b.fh(r.H)
		b.opaque(r.Name)
	case "ACCESS":
		b.fh(r.H)
		b.u32(r.Mask)
	case "READ":
		b.fh(r.H)
		b.u64(r.Off)
		b.u32(r.Cnt)
	case "WRITE":
		b.fh(r.H)
		b.u64(r.Off)
		b.u32(r.Cnt)
		b.u32(r.Stable)
		b.opaque(r.Data)
	case "CREATE":
		b.fh(r.H)
		b.opaque(r.Name)
		b.u32(r.How)
		if r.How == 2 {
			b.Write([]byte{1, 2, 3, 4, 5, 6, 7, 8})
		} else {
			b.sattr(r.Sa)
		}
	case "MKDIR":
		b.fh(r.H)
		b.opaque(r.Name)
		b.sattr(r.Sa)
	case "SYMLINK":
		b.fh(r.H)
		b.opaque(r.Name)
		b.sattr(r.Sa)
		b.opaque(r.Target)
	case "MKNOD":
		b.fh(r.H)
		b.opaque(r.Name)
		b.u32(6) // NF3SOCK
		b.sattr(r.Sa)
	case "RENAME":
		b.fh(r.H)
		b.opaque(r.Name)
		b.fh(r.H2)
		b.opaque(r.Name2)
	case "LINK":
		b.fh(r.H)
		b.fh(r.H2)
		b.opaque(r.Name)
	case "READDIR":
		b.fh(r.H)
		b.u64(r.Cookie)
		b.Write(make([]byte, 8))
		b.u32(r.Cnt)
	case "READDIRPLUS":
		b.fh(r.H)
		b.u64(r.Cookie)
		b.Write(make([]byte, 8))
		b.u32(r.Cnt)
		b.u32(r.Max)
	case "COMMIT":
		b.fh(r.H)
		b.u64(r.Off)
		b.u32(r.Cnt)
	case "MNT":
		b.opaque(r.Name)
	default:
		panic("nfsx: unknown proc " + r.Proc)
	}
	return b.Bytes()
}

// ---------------- observations ----------------

type Fattr struct {
	Type, Perm, Nlink, Uid, Gid uint32
	Size, FileID                uint64
	MtimeNs                     uint64
}
type Entry struct {
	FileID uint64
	Name   []byte
	Cookie uint64
	Attr   *Fattr
	FH     *uint64
}
type Obs struct {
	RPC     uint32 // 0 = MSG_ACCEPTED/SUCCESS; 1000+accept_stat; 2000 = MSG_DENIED; 3000 = HandleCall error
	Status  uint32
	Attrs   []*Fattr
	Wcc     []*[2]uint64
	FH      *uint64
	Nums    []uint64
	Bytes   []byte
	Entries []Entry
	EOF     bool
	Raw     []byte // result bytes
	Wire    []byte // whole reply as encoded for the wire
	Verf    *uint64 // write verifier of WRITE / COMMIT replies
	Trail   int    // undecoded trailing bytes (-1 = short)
}

type dec struct {
	b   []byte
	bad bool
}

func (d *dec) u32() uint32 {
	if len(d.b) < 4 {
		d.bad = true
		d.b = nil
		return 0
	}
	v := binary.BigEndian.Uint32(d.b)
	d.b = d.b[4:]
	return v
}
func (d *dec) u64() uint64 { h := d.u32(); l := d.u32(); return uint64(h)<<32 | uint64(l) }
func (d *dec) opaque() []byte {
	n := int(d.u32())
	p := (n + 3) &^ 3
	if len(d.b) < p {
		d.bad = true
		d.b = nil
		return nil
	}
	v := d.b[:n]
	d.b = d.b[p:]
	return v
}
func (d *dec) fattr() *Fattr {
	f := &Fattr{}
	f.Type, f.Perm, f.Nlink, f.Uid, f.Gid = d.u32(), d.u32(), d.u32(), d.u32(), d.u32()
	f.Size = d.u64()
	d.u64() // used
	d.u32()
	d.u32() // rdev
	d.u64() // fsid
	f.FileID = d.u64()
	d.u32()
	d.u32() // atime
	ms, mn := d.u32(), d.u32()
	f.MtimeNs = uint64(ms)*1e9 + uint64(mn)
	d.u32()
	d.u32() // ctime
	return f
}
func (d *dec) postop(o *Obs) {
	if d.u32() != 0 {
		o.Attrs = append(o.Attrs, d.fattr())
	} else {
		o.Attrs = append(o.Attrs, nil)
	}
}
func (d *dec) wcc(o *Obs) {
	if d.u32() != 0 {
		sz := d.u64()
		ms, mn := d.u32(), d.u32()
		d.u32()
		d.u32()
		o.Wcc = append(o.Wcc, &[2]uint64{sz, uint64(ms)*1e9 + uint64(mn)})
	} else {
		o.Wcc = append(o.Wcc, nil)
	}
	d.postop(o)
}
func (d *dec) postfh(o *Obs) {
	if d.u32() != 0 {
		b := d.opaque()
		if len(b) == 8 {
			v := binary.BigEndian.Uint64(b)
			o.FH = &v
		} else {
			d.bad = true
		}
	}
}

// Decode parses reply.Data of a successful RPC according to the procedure's RFC 1813 result type.
func Decode(proc string, data []byte) *Obs {
	o := &Obs{Raw: data}
	d := &dec{b: data}
	if proc == "NULL" {
		o.Trail = len(d.b)
		return o
	}
	o.Status = d.u32()
	ok := o.Status == 0
	switch proc {
	case "GETATTR":
		if ok {
			o.Attrs = append(o.Attrs, d.fattr())
		}
	case "SETATTR":
		d.wcc(o)
	case "LOOKUP":
		if ok {
			b := d.opaque()
			if len(b) == 8 {
				v := binary.BigEndian.Uint64(b)
				o.FH = &v
			} else {
				d.bad = true
			}
			d.postop(o)
			d.postop(o)
		} else {
			d.postop(o)
		}
	case "ACCESS":
		d.postop(o)
		if ok {
			o.Nums = append(o.Nums, uint64(d.u32()))
		}
	case "READLINK":
		d.postop(o)
		if ok {
			o.Bytes = d.opaque()
		}
	case "READ":
		d.postop(o)
		if ok {
			cnt := d.u32()
			o.EOF = d.u32() != 0
			o.Bytes = d.opaque()
			o.Nums = append(o.Nums, uint64(cnt))
			if int(cnt) != len(o.Bytes) {
				d.bad = true
			}
		}
	case "WRITE":
		d.wcc(o)
		if ok {
			o.Nums = append(o.Nums, uint64(d.u32()), uint64(d.u32()))
			v := d.u64()
			o.Verf = &v
		}
	case "CREATE", "MKDIR", "SYMLINK", "MKNOD":
		if ok {
			d.postfh(o)
			d.postop(o)
		}
		d.wcc(o)
		if ok && len(o.Attrs) == 2 { // order in Obs: object attrs, then dir post attrs
		}
	case "REMOVE", "RMDIR":
		d.wcc(o)
	case "RENAME":
		d.wcc(o)
		d.wcc(o)
	case "LINK":
		d.postop(o)
		d.wcc(o)
	case "READDIR", "READDIRPLUS":
		d.postop(o)
		if ok {
			d.u64() // cookieverf
			for d.u32() != 0 && !d.bad {
				var e Entry
				e.FileID = d.u64()
				e.Name = append([]byte{}, d.opaque()...)
				e.Cookie = d.u64()
				if proc == "READDIRPLUS" {
					if d.u32() != 0 {
						e.Attr = d.fattr()
					}
					if d.u32() != 0 {
						b := d.opaque()
						if len(b) == 8 {
							v := binary.BigEndian.Uint64(b)
							e.FH = &v
						}
					}
				}
				o.Entries = append(o.Entries, e)
			}
			o.EOF = d.u32() != 0
		}
	case "FSSTAT":
		d.postop(o)
		if ok {
			for i := 0; i < 6; i++ {
				d.u64()
			}
			d.u32()
		}
	case "FSINFO":
		d.postop(o)
		if ok {
			for i := 0; i < 6; i++ {
				o.Nums = append(o.Nums, uint64(d.u32()))
			}
			d.u32() // dtpref
			d.u64() // maxfilesize
			d.u32()
			d.u32() // time_delta
			d.u32() // properties
		}
	case "PATHCONF":
		d.postop(o)
		if ok {
			for i := 0; i < 6; i++ {
				d.u32()
			}
		}
	case "COMMIT":
		d.wcc(o)
		if ok {
			v := d.u64()
			o.Verf = &v
		}
	case "MNT":
		if ok {
			b := d.opaque()
			if len(b) == 8 {
				v := binary.BigEndian.Uint64(b)
				o.FH = &v
			} else {
				d.bad = true
			}
			n := d.u32()
			for i := uint32(0); i < n && !d.bad; i++ {
				d.u32()
			}
		}
	}
	o.Trail = len(d.b)
	if d.bad {
		o.Trail = -1
	}
	return o
}

// WireCall sends raw argument bytes and returns the reply exactly as EncodeRPCReply puts it on the wire
// (without the record mark).  ok=false when HandleCall itself failed (timeout).
func (e *Env) WireCall(prog, vers, proc uint32, c Cred, body []byte) (wire []byte, xid uint32, ok bool) {
	rep, err := e.RawCall(prog, vers, proc, c, body)
	xid = e.xid
	if err != nil || rep == nil {
		return nil, xid, false
	}
	var b bytes.Buffer
	if err := absnfs.EncodeRPCReply(&b, rep); err != nil {
		return nil, xid, false
	}
	return b.Bytes(), xid, true
}

// ParseReply splits a wire reply into the RPC-level code (0 accepted+success, 1000+accept_stat,
// 2000 denied, 4000 malformed header / wrong xid) and the result bytes.
func ParseReply(wire []byte, xid uint32) (code uint32, results []byte) {
	d := &dec{b: wire}
	if d.u32() != xid || d.u32() != 1 {
		return 4000, nil
	}
	switch d.u32() {
	case 0:
		d.u32() // verifier flavor
		d.opaque()
		as := d.u32()
		if d.bad {
			return 4000, nil
		}
		if as != 0 {
			return 1000 + as, d.b
		}
		return 0, d.b
	case 1:
		return 2000, d.b
	}
	return 4000, nil
}

// Admin performs the administrative pseudo-requests (runtime reconfiguration through the public API).
func (e *Env) Admin(r *Req) *Obs {
	switch r.Proc {
	case "SETRO":
		o := e.NFS.GetExportOptions()
		o.ReadOnly = r.Cnt != 0
		o.Squash = ""
		if err := e.NFS.UpdateExportOptions(o); err != nil {
			return &Obs{RPC: 3001}
		}
	case "SETMAXFILE":
		o := e.NFS.GetExportOptions()
		o.MaxFileSize = int64(r.Off)
		o.Squash = ""
		if err := e.NFS.UpdateExportOptions(o); err != nil {
			return &Obs{RPC: 3001}
		}
	case "SETTSIZE":
		e.NFS.UpdateTuningOptions(func(t *absnfs.TuningOptions) { t.TransferSize = int(r.Cnt) })
	}
	return &Obs{}
}

// Do runs one request and returns the observation.
func (e *Env) Do(c Cred, r *Req) *Obs {
	if strings.HasPrefix(r.Proc, "SET") && r.Proc != "SETATTR" {
		return e.Admin(r)
	}
	prog, vers := uint32(ProgNFS), uint32(3)
	if r.Proc == "MNT" {
		prog = ProgMount
	}
	wire, xid, ok := e.WireCall(prog, vers, procNum[r.Proc], c, r.Encode())
	if !ok {
		return &Obs{RPC: 3000}
	}
	code, res := ParseReply(wire, xid)
	if code != 0 {
		return &Obs{RPC: code, Raw: wire}
	}
	o := Decode(r.Proc, res)
	o.Wire = wire
	return o
}

// ---------------- Coq rendering ----------------

func cOptN32(p *uint32) string {
	if p == nil {
		return "None"
	}
	return fmt.Sprintf("(Some %d)", *p)
}
func CoqSattr(s Sattr) string {
	sz := "None"
	if s.Size != nil {
		sz = fmt.Sprintf("(Some %d)", *s.Size)
	}
	return fmt.Sprintf("{| s_mode := %s; s_uid := %s; s_gid := %s; s_size := %s; s_atime := %d; s_atime_v := %d; s_mtime := %d; s_mtime_v := %d |}",
		cOptN32(s.Mode), cOptN32(s.Uid), cOptN32(s.Gid), sz, s.Atime, s.AtimeNs, s.Mtime, s.MtimeNs)
}
func CoqCred(c Cred) string {
	aux := make([]uint64, len(c.Aux))
	for i, g := range c.Aux {
		aux[i] = uint64(g)
	}
	return fmt.Sprintf("{| c_uid := %d; c_gid := %d; c_aux := %s |}", c.Uid, c.Gid, CNs(aux))
}
func (r *Req) Coq() string {
	switch r.Proc {
	case "NULL":
		return "RNull"
	case "GETATTR":
		return fmt.Sprintf("(RGetattr %d)", r.H)
	case "SETATTR":
		g := "None"
		if r.Guard != nil {
			g = fmt.Sprintf("(Some (%d, %d))", r.Guard[0], r.Guard[1])
		}
		return fmt.Sprintf("(RSetattr %d %s %s)", r.H, CoqSattr(r.Sa), g)
	case "LOOKUP":
		return fmt.Sprintf("(RLookup %d %s)", r.H, CBytes(r.Name))
	case "ACCESS":
		return fmt.Sprintf("(RAccess %d %d)", r.H, r.Mask)
	case "READLINK":
		return fmt.Sprintf("(RReadlink %d)", r.H)
	case "READ":
		return fmt.Sprintf("(RRead %d %d %d)", r.H, r.Off, r.Cnt)
	case "WRITE":
		return fmt.Sprintf("(RWrite %d %d %d %d %s)", r.H, r.Off, r.Cnt, r.Stable, CBytes(r.Data))
	case "CREATE":
		return fmt.Sprintf("(RCreate %d %s %d %s)", r.H, CBytes(r.Name), r.How, CoqSattr(r.Sa))
	case "MKDIR":
		return fmt.Sprintf("(RMkdir %d %s %s)", r.H, CBytes(r.Name), CoqSattr(r.Sa))
	case "SYMLINK":
		return fmt.Sprintf("(RSymlink %d %s %s %s)", r.H, CBytes(r.Name), CoqSattr(r.Sa), CBytes(r.Target))
	case "MKNOD":
		return fmt.Sprintf("(RMknod %d %s)", r.H, CBytes(r.Name))
	case "REMOVE":
		return fmt.Sprintf("(RRemove %d %s)", r.H, CBytes(r.Name))
	case "RMDIR":
		return fmt.Sprintf("(RRmdir %d %s)", r.H, CBytes(r.Name))
	case "RENAME":
		return fmt.Sprintf("(RRename %d %s %d %s)", r.H, CBytes(r.Name), r.H2, CBytes(r.Name2))
	case "LINK":
		return fmt.Sprintf("(RLink %d %d %s)", r.H, r.H2, CBytes(r.Name))
	case "READDIR":
		return fmt.Sprintf("(RReaddir %d %d %d)", r.H, r.Cookie, r.Cnt)
	case "READDIRPLUS":
		return fmt.Sprintf("(RReaddirplus %d %d %d %d)", r.H, r.Cookie, r.Cnt, r.Max)
	case "FSSTAT":
		return fmt.Sprintf("(RFsstat %d)", r.H)
	case "FSINFO":
		return fmt.Sprintf("(RFsinfo %d)", r.H)
	case "PATHCONF":
		return fmt.Sprintf("(RPathconf %d)", r.H)
	case "COMMIT":
		return fmt.Sprintf("(RCommit %d %d %d)", r.H, r.Off, r.Cnt)
	case "MNT":
		return fmt.Sprintf("(RMnt %s)", CBytes(r.Name))
	case "SETRO":
		return fmt.Sprintf("(RSetRO %s)", CBool(r.Cnt != 0))
	case "SETMAXFILE":
		return fmt.Sprintf("(RSetMaxFile %d)", r.Off)
	case "SETTSIZE":
		return fmt.Sprintf("(RSetTsize %d)", r.Cnt)
	}
	panic("nfsx: Coq: unknown proc " + r.Proc)
}

func coqFattr(f *Fattr) string {
	if f == nil {
		return "None"
	}
	return fmt.Sprintf("(Some {| fa_type := %d; fa_perm := %d; fa_nlink := %d; fa_uid := %d; fa_gid := %d; fa_size := %d; fa_fileid := %d; fa_mtime := %d |})",
		f.Type, f.Perm, f.Nlink, f.Uid, f.Gid, f.Size, f.FileID, f.MtimeNs)
}
func coqOptU64(p *uint64) string {
	if p == nil {
		return "None"
	}
	return fmt.Sprintf("(Some %d)", *p)
}

// Coq renders the observation as a term of type Srv.obs (wrapped with the RPC-level code).
func (o *Obs) Coq() string {
	attrs := make([]string, len(o.Attrs))
	for i, a := range o.Attrs {
		attrs[i] = coqFattr(a)
	}
	wcc := make([]string, len(o.Wcc))
	for i, w := range o.Wcc {
		if w == nil {
			wcc[i] = "None"
		} else {
			wcc[i] = fmt.Sprintf("(Some (%d, %d))", w[0], w[1])
		}
	}
	ents := make([]string, len(o.Entries))
	for i, e := range o.Entries {
		ents[i] = fmt.Sprintf("{| de_fileid := %d; de_name := %s; de_cookie := %d; de_attr := %s; de_fh := %s |}",
			e.FileID, CBytes(e.Name), e.Cookie, coqFattr(e.Attr), coqOptU64(e.FH))
	}
	return fmt.Sprintf("{| ob_rpc := %d; ob_status := %d; ob_attrs := %s; ob_wcc := %s; ob_fh := %s; ob_nums := %s; ob_bytes := %s; ob_entries := %s; ob_eof := %s |}",
		o.RPC, o.Status, CList(attrs), CList(wcc), coqOptU64(o.FH), CNs(o.Nums), CBytes(o.Bytes), CList(ents), CBool(o.EOF))
}

func (o *Obs) Text() string {
	var b strings.Builder
	if o.RPC != 0 {
		fmt.Fprintf(&b, "rpc=%d ", o.RPC)
	}
	fmt.Fprintf(&b, "st=%d", o.Status)
	if o.FH != nil {
		fmt.Fprintf(&b, " fh=%d", *o.FH)
	}
	for _, a := range o.Attrs {
		if a == nil {
			b.WriteString(" attr=-")
		} else {
			fmt.Fprintf(&b, " attr=(t%d,%o,sz%d,id%x,%d:%d)", a.Type, a.Perm, a.Size, a.FileID&0xffff, a.Uid, a.Gid)
		}
	}
	if len(o.Nums) > 0 {
		fmt.Fprintf(&b, " nums=%v", o.Nums)
	}
	if len(o.Bytes) > 0 {
		fmt.Fprintf(&b, " bytes=%q", trunc(o.Bytes, 24))
	}
	if len(o.Entries) > 0 || o.EOF {
		var ns []string
		for _, e := range o.Entries {
			ns = append(ns, string(trunc(e.Name, 12)))
		}
		fmt.Fprintf(&b, " entries=%v eof=%v", ns, o.EOF)
	}
	if o.Trail != 0 {
		fmt.Fprintf(&b, " TRAIL=%d", o.Trail)
	}
	return b.String()
}
func trunc(b []byte, n int) []byte {
	if len(b) > n {
		return b[:n]
	}
	return b
}

func (r *Req) Text() string {
	s := r.Proc
	switch r.Proc {
	case "NULL":
	case "MNT":
		s += fmt.Sprintf(" %q", r.Name)
	default:
		s += fmt.Sprintf(" h%d", r.H)
	}
	if r.Name != nil && r.Proc != "MNT" {
		s += fmt.Sprintf(" %q", trunc(r.Name, 20))
	}
	switch r.Proc {
	case "RENAME":
		s += fmt.Sprintf(" -> h%d %q", r.H2, trunc(r.Name2, 20))
	case "READ", "COMMIT":
		s += fmt.Sprintf(" off=%d cnt=%d", r.Off, r.Cnt)
	case "WRITE":
		s += fmt.Sprintf(" off=%d cnt=%d data=%q", r.Off, r.Cnt, trunc(r.Data, 16))
	case "CREATE":
		s += fmt.Sprintf(" how=%d", r.How)
	case "SYMLINK":
		s += fmt.Sprintf(" target=%q", trunc(r.Target, 24))
	case "ACCESS":
		s += fmt.Sprintf(" mask=%#x", r.Mask)
	case "READDIR", "READDIRPLUS":
		s += fmt.Sprintf(" cookie=%d cnt=%d max=%d", r.Cookie, r.Cnt, r.Max)
	}
	if r.Sa.Mode != nil {
		s += fmt.Sprintf(" mode=%o", *r.Sa.Mode)
	}
	if r.Sa.Uid != nil {
		s += fmt.Sprintf(" uid=%d", *r.Sa.Uid)
	}
	if r.Sa.Gid != nil {
		s += fmt.Sprintf(" gid=%d", *r.Sa.Gid)
	}
	if r.Sa.Size != nil {
		s += fmt.Sprintf(" size=%d", *r.Sa.Size)
	}
	return s
}

// ---------------- backend rendering ----------------

// CoqPath renders "/a/b" as a Coq path (list of byte lists).
func CoqPath(p string) string {
	var cs []string
	for _, c := range strings.Split(p, "/") {
		if c != "" {
			cs = append(cs, CBytes([]byte(c)))
		}
	}
	return CList(cs)
}

// CoqDump renders a tree dump as list (path * (kind, perm, uid, gid, size, data, target)).
func CoqDump(es []specfs.Entry) string {
	out := make([]string, len(es))
	for i, e := range es {
		k := []string{"KFile", "KDir", "KLink"}[e.Kind]
		data := make([]string, len(e.Data))
		for j, d := range e.Data {
			data[j] = fmt.Sprintf("(%d, %d)", d[0], d[1])
		}
		sz := e.Size
		if e.Kind != specfs.KFile {
			sz = 0
		}
		out[i] = fmt.Sprintf("(%s, (%s, %d, %d, %d, %d, %s, %s, %d))", CoqPath(e.Path), k, e.Perm, e.Uid, e.Gid, sz, CList(data), CBytes([]byte(e.Target)), e.MtimeNs)
	}
	return CList(out)
}

var bopName = map[string]string{"Lstat": "BLstat", "Stat": "BStat", "Create": "BCreate", "Mkdir": "BMkdir", "Remove": "BRemove",
	"Rename": "BRename", "Symlink": "BSymlink", "Readlink": "BReadlink", "Chmod": "BChmod", "Chown": "BChown", "Lchown": "BLchown",
	"Chtimes": "BChtimes", "Truncate": "BTruncate", "ReadAt": "BReadAt", "WriteAt": "BWriteAt", "Sync": "BSync", "Readdir": "BReaddir"}

// CoqCalls renders the recorded backend calls (oldest first) as list bcall.
func CoqCalls(cs []specfs.Call) string {
	out := make([]string, 0, len(cs))
	for _, c := range cs {
		op, ok := bopName[c.Op]
		if c.Op == "OpenFile" {
			if c.Mutating() {
				op = "BOpenW"
			} else {
				op = "BOpenR"
			}
			ok = true
		}
		if !ok {
			op = "BStat" // FTruncate etc. never issued by absnfs; keep total
		}
		p2 := "[]"
		if c.Op == "Rename" || c.Op == "Symlink" {
			p2 = CBytes([]byte(c.Path2))
		}
		a, b := c.A, c.B
		if a < 0 {
			a = 0
		}
		if b < 0 {
			b = 0
		}
		if c.Op == "OpenFile" || c.Op == "Create" {
			a, b = 0, 0
		}
		out = append(out, fmt.Sprintf("{| b_op := %s; b_path := %s; b_path2 := %s; b_a := %d; b_b := %d |}", op, CoqPath(c.Path), p2, a, b))
	}
	return CList(out)
}

// CallsText is a compact rendering of backend calls for replays.
func CallsText(cs []specfs.Call) string {
	var out []string
	for _, c := range cs {
		s := c.Op + ":" + c.Path
		if c.Path2 != "" {
			s += ">" + c.Path2
		}
		if c.Err != "" {
			s += "!" + c.Err
		}
		out = append(out, s)
	}
	return strings.Join(out, ",")
}
