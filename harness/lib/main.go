// drive runs generated cases on the real absnfs code (built from /repo's working tree with
// -tags verif) and writes them, with the implementation's observations, as Coq terms that the
// correspondence files under coq/Corr evaluate.
package lib

import (
	"encoding/json"
	"flag"
	"fmt"
	"os"
	"path/filepath"
	"sort"
	"strings"
)

// A Case is one generated input with the implementation's observation.
type Case struct {
	Index int               `json:"index"`
	Seed  uint64            `json:"seed"`
	Kind  string            `json:"kind"` // generator stream / shape label (for the distribution)
	Text  string            `json:"text"` // human-readable rendering (input and observation)
	Coq   string            `json:"-"`    // the Coq term of type <Corr.Cxx.case>
	Tags  map[string]int    `json:"tags"` // measured features (ops, evictions, error kinds ...)
	Key   string            `json:"-"`    // canonical key for distinctness
	Extra map[string]string `json:"extra,omitempty"`
}

type Prop struct {
	Imports string // Coq imports for the case file
	Gen     func(r *Rand, idx int, tier string) Case
	// Fixed cases that run first (corpus of minimised failures and boundary cases)
	Corpus func() []Case
	// NonTrivial decides whether a case counts as non-trivial for the evidence
	NonTrivial func(c *Case) bool
	ShardSize  int
}

// Props is the registry filled by the init functions of a driver command.
var Props = map[string]*Prop{}

// Main is the entry point shared by every driver command.
func Main() {
	prop := flag.String("prop", "", "property id")
	seed := flag.Uint64("seed", 1, "seed")
	n := flag.Int("n", 100, "number of generated cases")
	out := flag.String("out", "", "output directory")
	only := flag.Int("only", -1, "run only this case index")
	tier := flag.String("tier", "quick", "tier")
	flag.Parse()
	p, ok := Props[*prop]
	if !ok {
		fmt.Fprintf(os.Stderr, "drive: unknown property %q\n", *prop)
		os.Exit(2)
	}
	if err := os.MkdirAll(*out, 0o755); err != nil {
		panic(err)
	}
	var cases []Case
	ncorpus := 0
	if p.Corpus != nil {
		for _, c := range p.Corpus() {
			c.Kind = "corpus:" + c.Kind
			c.Index = ncorpus
			ncorpus++
			if *only < 0 || *only == c.Index {
				cases = append(cases, c)
			}
		}
	}
	for i := 0; i < *n; i++ {
		if *only >= 0 && i+ncorpus != *only {
			continue
		}
		r := NewRand(*seed, uint64(i))
		c := p.Gen(r, i, *tier)
		c.Seed = *seed
		c.Index = i + ncorpus
		cases = append(cases, c)
	}
	shard := p.ShardSize
	if shard == 0 {
		shard = 250
	}
	nshards := 0
	for s := 0; s*shard < len(cases); s++ {
		lo, hi := s*shard, (s+1)*shard
		if hi > len(cases) {
			hi = len(cases)
		}
		var b strings.Builder
		b.WriteString("From Coq Require Import List NArith ZArith String. Import ListNotations.\n")
		b.WriteString(p.Imports + "\nOpen Scope N_scope.\n")
		b.WriteString("Definition cases : list case := [\n")
		for i := lo; i < hi; i++ {
			if i > lo {
				b.WriteString(";\n")
			}
			b.WriteString(cases[i].Coq)
		}
		b.WriteString("\n].\nDefinition R := Eval vm_compute in run cases.\nPrint R.\n")
		if err := os.WriteFile(filepath.Join(*out, fmt.Sprintf("cases_%d.v", s)), []byte(b.String()), 0o644); err != nil {
			panic(err)
		}
		nshards++
	}
	// distribution + samples
	kinds := map[string]int{}
	tags := map[string]int{}
	distinct := map[string]bool{}
	nontrivial := 0
	for i := range cases {
		c := &cases[i]
		kinds[c.Kind]++
		for k, v := range c.Tags {
			tags[k] += v
		}
		key := c.Key
		if key == "" {
			key = c.Coq
		}
		if !distinct[key] {
			distinct[key] = true
			if p.NonTrivial == nil || p.NonTrivial(c) {
				nontrivial++
			}
		}
	}
	jf, _ := os.Create(filepath.Join(*out, "cases.jsonl"))
	enc := json.NewEncoder(jf)
	for i := range cases {
		enc.Encode(&cases[i])
	}
	jf.Close()
	var samples []string
	for i := 0; i < len(cases) && len(samples) < 3; i += 1 + len(cases)/3 {
		t := cases[i].Text
		if len(t) > 600 {
			t = t[:600] + "..."
		}
		samples = append(samples, t)
	}
	stats := map[string]interface{}{
		"cases": len(cases), "shards": nshards, "shard_size": shard, "corpus": ncorpus,
		"distinct": len(distinct), "distinct_nontrivial": nontrivial,
		"kinds": sortedMap(kinds), "tags": sortedMap(tags), "samples": samples,
	}
	sb, _ := json.MarshalIndent(stats, "", " ")
	os.WriteFile(filepath.Join(*out, "stats.json"), sb, 0o644)
}

func sortedMap(m map[string]int) map[string]int {
	keys := make([]string, 0, len(m))
	for k := range m {
		keys = append(keys, k)
	}
	sort.Strings(keys)
	out := map[string]int{}
	for _, k := range keys {
		out[k] = m[k]
	}
	return out
}
