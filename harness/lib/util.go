package lib

import (
	"fmt"
	"strings"
)

// Rand is splitmix64; every random choice of a case derives from (seed, case index).
type Rand struct{ s uint64 }

func NewRand(seed, idx uint64) *Rand {
	r := &Rand{s: seed*0x9E3779B97F4A7C15 ^ (idx+1)*0xBF58476D1CE4E5B9}
	r.U64()
	return r
}
func (r *Rand) U64() uint64 {
	r.s += 0x9E3779B97F4A7C15
	z := r.s
	z = (z ^ (z >> 30)) * 0xBF58476D1CE4E5B9
	z = (z ^ (z >> 27)) * 0x94D049BB133111EB
	return z ^ (z >> 31)
}
func (r *Rand) Intn(n int) int {
	if n <= 0 {
		return 0
	}
	return int(r.U64() % uint64(n))
}
func (r *Rand) Bool() bool                 { return r.U64()&1 == 1 }
func (r *Rand) Chance(pct int) bool        { return r.Intn(100) < pct }
func PickInt(r *Rand, xs ...int) int       { return xs[r.Intn(len(xs))] }
func PickU64(r *Rand, xs ...uint64) uint64 { return xs[r.Intn(len(xs))] }
func PickStr(r *Rand, xs ...string) string { return xs[r.Intn(len(xs))] }

// ---- Coq term printing ----

func CN(x uint64) string { return fmt.Sprintf("%d", x) }
func CZ(x int64) string {
	if x < 0 {
		return fmt.Sprintf("(%d)%%Z", x)
	}
	return fmt.Sprintf("%d%%Z", x)
}
func CBool(b bool) string {
	if b {
		return "true"
	}
	return "false"
}
func CList(xs []string) string { return "[" + strings.Join(xs, "; ") + "]" }
func CPair(a, b string) string { return "(" + a + ", " + b + ")" }
func CBytes(b []byte) string {
	xs := make([]string, len(b))
	for i, x := range b {
		xs[i] = fmt.Sprintf("%d", x)
	}
	return CList(xs)
}
func COpt(s string, ok bool) string {
	if ok {
		return "(Some " + s + ")"
	}
	return "None"
}
func CNs(xs []uint64) string {
	out := make([]string, len(xs))
	for i, x := range xs {
		out[i] = CN(x)
	}
	return CList(out)
}
