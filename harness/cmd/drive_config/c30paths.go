package main

import (
	"crypto/tls"
	"fmt"
	"os"
	"path/filepath"
	"strings"
	"time"

	. "verifharness/lib"

	"github.com/absfs/absnfs"
	"github.com/absfs/memfs"
)

// Stream "C30paths": ONE set of certificate / key / CA file paths per case, reused by successive servers and by two
// servers alive at the same time, while the files are overwritten with other contents (CA replaced, server
// certificate replaced with and without the documented ReloadCertificates step).  Every probe uses clients with no
// certificate, a self-signed one and one signed by each of the three CAs that may have been in the file, at TLS 1.2 and
// at TLS 1.3.  A listener must enforce what its configuration said when it was built / reloaded (Corr/C30paths.v).
func init() {
	Props["C30paths"] = &Prop{
		Imports: "From Verif Require Import Gen.Facts Model.Tls Corr.C30paths.",
		Gen:     genC30paths,
		Corpus:  corpusC30paths,
		NonTrivial: func(c *Case) bool {
			return c.Tags["starts_on_reused_paths"] > 0 && c.Tags["handshake_ok"] > 0 && c.Tags["handshake_refused"] > 0
		},
		ShardSize: 30,
	}
}

type pathStep struct {
	kind int // 0 write CA, 1 write cert, 2 start, 3 stop, 4 reload, 5 probe
	slot int
	arg  int // CA id / leaf id / ClientAuth
}

var pathClients = []struct {
	id   int
	kind string
}{{0, "NoCert"}, {1, "SelfSigned"}, {11, "CA1"}, {12, "CA2"}, {13, "CA3"}}

func runC30paths(steps []pathStep, kind string, idx int) Case {
	tags := map[string]int{}
	dir := scratchDir()
	defer os.RemoveAll(dir)
	crt, key, ca := filepath.Join(dir, "server.crt"), filepath.Join(dir, "server.key"), filepath.Join(dir, "ca.crt")
	pk := getPKI()
	var srv [2]*absnfs.AbsfsNFS
	defer func() {
		for _, s := range srv {
			if s != nil {
				s.Close()
			}
		}
	}()
	var coq, txt []string
	caWrites, certWrites, starts, lastLeaf := 0, 0, 0, 0
	for _, st := range steps {
		switch st.kind {
		case 0:
			os.WriteFile(ca, pk.pathCAPEM[st.arg], 0o600)
			caWrites++
			if caWrites > 1 {
				tags["ca_replaced"]++
			}
			coq = append(coq, fmt.Sprintf("PWriteCA %d", st.arg))
			txt = append(txt, fmt.Sprintf("ca.crt:=CA%d", st.arg))
		case 1:
			os.WriteFile(crt, pk.serverPEM[st.arg][0], 0o600)
			os.WriteFile(key, pk.serverPEM[st.arg][1], 0o600)
			certWrites++
			if certWrites > 1 {
				tags["server_cert_replaced"]++
				if leafKeyGroup(lastLeaf) == leafKeyGroup(st.arg) && lastLeaf != st.arg {
					tags["server_cert_same_key_renewal"]++
				} else if lastLeaf != st.arg {
					tags["server_cert_new_key_same_subject"]++
				}
			}
			lastLeaf = st.arg
			coq = append(coq, fmt.Sprintf("PWriteCert %d", st.arg))
			txt = append(txt, fmt.Sprintf("server.crt/key:=leaf%d", st.arg))
		case 2:
			tc := &absnfs.TLSConfig{Enabled: true, CertFile: crt, KeyFile: key, CAFile: ca, ClientAuth: tls.ClientAuthType(st.arg),
				MinVersion: tls.VersionTLS12, MaxVersion: tls.VersionTLS13}
			fs, _ := memfs.NewFS()
			s, err := absnfs.New(fs, absnfs.ExportOptions{TLS: tc})
			if err != nil {
				panic(err)
			}
			err = s.Export("/", 0)
			if err == nil {
				srv[st.slot] = s
				if starts > 0 {
					tags["starts_on_reused_paths"]++
				}
				starts++
				if srv[1-st.slot] != nil {
					tags["two_listeners_alive"]++
				}
			} else {
				s.Close()
				tags["start_refused"]++
			}
			tags[fmt.Sprintf("start_auth_%d", st.arg)]++
			coq = append(coq, fmt.Sprintf("PStart %d %s %s", st.slot, CZ(int64(st.arg)), CBool(err == nil)))
			txt = append(txt, fmt.Sprintf("start[%d] ClientAuth=%d -> %v", st.slot, st.arg, err))
		case 3:
			if srv[st.slot] != nil {
				srv[st.slot].Close()
				srv[st.slot] = nil
			}
			coq = append(coq, fmt.Sprintf("PStop %d", st.slot))
			txt = append(txt, fmt.Sprintf("stop[%d]", st.slot))
		case 4:
			ok := false
			if s := srv[st.slot]; s != nil {
				if t := s.GetExportOptions().TLS; t != nil {
					ok = t.ReloadCertificates() == nil
				}
			}
			tags["reloads"]++
			coq = append(coq, fmt.Sprintf("PReload %d %s", st.slot, CBool(ok)))
			txt = append(txt, fmt.Sprintf("reload[%d] -> %v", st.slot, ok))
		case 5:
			s := srv[st.slot]
			if s == nil {
				continue
			}
			addr := fmt.Sprintf("localhost:%d", s.VerifExportPort())
			var atts, at []string
			leaf := int64(0)
			for _, c := range pathClients {
				for _, v := range []uint16{tls.VersionTLS12, tls.VersionTLS13} {
					got, serial := tlsAttempt(addr, v, v, c.kind, 1500*time.Millisecond)
					if serial != 0 {
						if leaf != 0 && leaf != serial {
							leaf = 99999 // two handshakes against one listener saw different leaves
						} else if leaf == 0 {
							leaf = serial
						}
					}
					res := "None"
					if got != 0 {
						res = "(Some " + CZ(int64(got)) + ")"
						tags["handshake_ok"]++
					} else {
						tags["handshake_refused"]++
					}
					atts = append(atts, fmt.Sprintf("mkAtt %d %s %s", c.id, CZ(int64(v)), res))
					at = append(at, fmt.Sprintf("%s@%#x->%#x", c.kind, v, got))
				}
			}
			tags["probes"]++
			l := "None"
			if leaf != 0 {
				l = fmt.Sprintf("(Some %d)", leaf)
			}
			coq = append(coq, fmt.Sprintf("PProbe %d %s %s", st.slot, l, CList(atts)))
			txt = append(txt, fmt.Sprintf("probe[%d] leaf=%d %s", st.slot, leaf, strings.Join(at, " ")))
		}
	}
	tags["steps"] = len(coq)
	return Case{Index: idx, Kind: kind, Coq: "(mkCase " + CList(coq) + ")", Tags: tags, Text: strings.Join(txt, "\n")}
}

func genC30paths(r *Rand, idx int, tier string) Case {
	var steps []pathStep
	var live [2]bool
	curCA, curLeaf := 1+r.Intn(3), 1+r.Intn(8)
	steps = append(steps, pathStep{kind: 0, arg: curCA}, pathStep{kind: 1, arg: curLeaf})
	kind := "ca-rotation"
	wCA, wCert := 35, 15
	if r.Chance(35) {
		kind, wCA, wCert = "server-cert-rotation", 10, 40
	}
	auth := func() int { return PickInt(r, 4, 4, 4, 3, 3, 2, 1, 0) }
	probeLive := func() {
		for s := 0; s < 2; s++ {
			if live[s] {
				steps = append(steps, pathStep{kind: 5, slot: s})
			}
		}
	}
	steps = append(steps, pathStep{kind: 2, slot: 0, arg: auth()})
	live[0] = true
	probeLive()
	for n := 3 + r.Intn(5); n > 0; n-- {
		switch x := r.Intn(100); {
		case x < wCA:
			curCA = 1 + (curCA+r.Intn(2))%3
			steps = append(steps, pathStep{kind: 0, arg: curCA})
			if r.Chance(40) {
				probeLive() // running listeners keep the CA they were built with
			}
		case x < wCA+wCert:
			if r.Chance(50) { // a renewal for the same private key (new serial), else any other leaf
				curLeaf = map[int]int{1: 2, 2: 7, 7: 1, 3: 4, 4: 8, 8: 3, 5: 1, 6: 3}[curLeaf]
			} else {
				curLeaf = 1 + (curLeaf+r.Intn(6))%8
			}
			steps = append(steps, pathStep{kind: 1, arg: curLeaf})
			if r.Chance(50) {
				probeLive() // without the rotation step the old leaf stays
			}
		case x < wCA+wCert+25:
			s := r.Intn(2)
			if live[s] {
				steps = append(steps, pathStep{kind: 3, slot: s})
			}
			steps = append(steps, pathStep{kind: 2, slot: s, arg: auth()})
			live[s] = true
			probeLive()
		case x < wCA+wCert+35:
			s := r.Intn(2)
			if live[s] {
				steps = append(steps, pathStep{kind: 3, slot: s})
				live[s] = false
			}
		default:
			s := r.Intn(2)
			if live[s] {
				steps = append(steps, pathStep{kind: 4, slot: s})
				probeLive()
			}
		}
	}
	return runC30paths(steps, kind, idx)
}

func corpusC30paths() []Case {
	w := func(k int) pathStep { return pathStep{kind: 0, arg: k} }
	c := func(k int) pathStep { return pathStep{kind: 1, arg: k} }
	start := func(s, a int) pathStep { return pathStep{kind: 2, slot: s, arg: a} }
	stop := func(s int) pathStep { return pathStep{kind: 3, slot: s} }
	reload := func(s int) pathStep { return pathStep{kind: 4, slot: s} }
	probe := func(s int) pathStep { return pathStep{kind: 5, slot: s} }
	return []Case{
		// seeded C30-3: CA replaced between two servers that use the same CAFile path (RequireAndVerify / VerifyIfGiven)
		runC30paths([]pathStep{w(1), c(1), start(0, 4), probe(0), stop(0), w(2), start(0, 4), probe(0)}, "ca-replaced-between-servers-require", 0),
		runC30paths([]pathStep{w(2), c(1), start(0, 3), probe(0), stop(0), w(3), start(0, 3), probe(0)}, "ca-replaced-between-servers-verify-if-given", 1),
		// two configurations alive together, built from the same paths at different times
		runC30paths([]pathStep{w(1), c(1), start(0, 4), w(3), c(2), start(1, 4), probe(0), probe(1)}, "two-listeners-same-paths", 2),
		// server certificate replaced: without the rotation step the old leaf stays, with it the new one is presented;
		// the other listener is unaffected
		runC30paths([]pathStep{w(1), c(1), start(0, 4), start(1, 0), c(2), probe(0), probe(1), reload(0), probe(0), probe(1), stop(0), start(0, 4), probe(0)},
			"server-cert-replaced-with-and-without-reload", 3),
		// missing files on a reused path
		runC30paths([]pathStep{c(1), start(0, 4), start(1, 2), probe(1), w(2), start(0, 4), probe(0)}, "ca-file-appears-later", 4),
		// seeded C30-4: the certificate is renewed for the same private key (leaf 1 -> 2 -> 7), with the documented step
		runC30paths([]pathStep{w(1), c(1), start(0, 0), start(1, 4), c(2), probe(0), reload(0), probe(0), probe(1), c(7), reload(1), reload(0), probe(0), probe(1)},
			"same-key-renewal-with-and-without-reload", 5),
	}
}
