// drive_config: cases for the configuration group: runtime reconfiguration (C24), start paths and framing (C28),
// TLS floor / client certificates / rotation (C30).
package main

import (
	"os"

	"verifharness/lib"
)

func main() {
	// absnfs writes its operational log lines ("Worker pool started ...") through log.New(os.Stderr, ...), created
	// when a server object is built; point them at /dev/null so that driver diagnostics stay readable.
	realStderr = os.Stderr
	if f, err := os.OpenFile(os.DevNull, os.O_WRONLY, 0); err == nil {
		os.Stderr = f
	}
	lib.Main()
}

var realStderr *os.File
