package main

import (
	"crypto/ecdsa"
	"crypto/elliptic"
	"crypto/rand"
	"crypto/tls"
	"crypto/x509"
	"crypto/x509/pkix"
	"encoding/pem"
	"fmt"
	"math/big"
	"net"
	"os"
	"path/filepath"
	"strings"
	"sync"
	"time"

	. "verifharness/lib"

	"github.com/absfs/absnfs"
	"github.com/absfs/memfs"
)

// C30: real TLS listeners started through the public API (absnfs.New + Export) from TLSConfig values covering
// Min/MaxVersion x ClientAuth x CA file x certificate files x cipher suites, real clients offering TLS 1.0 .. 1.3 with
// no / self-signed / foreign-CA / CA-signed certificates (stream "C30"), and certificate rotation histories
// (stream "C30rot").  All keys and certificates are generated at run time (crypto/x509, offline).
func init() {
	Props["C30"] = &Prop{
		Imports: "From Verif Require Import Gen.Facts Model.Tls Corr.C30.",
		Gen:     genC30,
		Corpus:  corpusC30,
		NonTrivial: func(c *Case) bool {
			return c.Tags["listening_tls"] > 0 && c.Tags["handshake_ok"] > 0 && c.Tags["handshake_refused"] > 0
		},
		ShardSize: 50,
	}
	Props["C30rot"] = &Prop{
		Imports:    "From Verif Require Import Gen.Facts Model.Tls Corr.C30rot.",
		Gen:        genC30rot,
		Corpus:     corpusC30rot,
		NonTrivial: func(c *Case) bool { return c.Tags["steps"] > 0 && c.Tags["rotation_ok"] > 0 },
		ShardSize:  50,
	}
}

// ---- PKI ----
type pki struct {
	caPEM, otherCAPEM []byte
	ca, otherCA       *x509.Certificate
	caKey, otherKey   *ecdsa.PrivateKey
	serverPEM         map[int][2][]byte // leaf id (= serial number) -> cert PEM, key PEM
	clients           map[string]tls.Certificate
	pathCAPEM         map[int][]byte // CA k of the path-reuse stream
}

var thePKI *pki
var pkiOnce sync.Once

func keyPEM(k *ecdsa.PrivateKey) []byte {
	b, _ := x509.MarshalECPrivateKey(k)
	return pem.EncodeToMemory(&pem.Block{Type: "EC PRIVATE KEY", Bytes: b})
}
func certPEM(der []byte) []byte {
	return pem.EncodeToMemory(&pem.Block{Type: "CERTIFICATE", Bytes: der})
}

func mkCA(cn string, serial int64) (*x509.Certificate, *ecdsa.PrivateKey, []byte) {
	k, _ := ecdsa.GenerateKey(elliptic.P256(), rand.Reader)
	tpl := &x509.Certificate{SerialNumber: big.NewInt(serial), Subject: pkix.Name{CommonName: cn}, NotBefore: time.Now().Add(-time.Hour),
		NotAfter: time.Now().Add(24 * time.Hour), IsCA: true, BasicConstraintsValid: true, KeyUsage: x509.KeyUsageCertSign | x509.KeyUsageDigitalSignature}
	der, err := x509.CreateCertificate(rand.Reader, tpl, tpl, &k.PublicKey, k)
	if err != nil {
		panic(err)
	}
	c, _ := x509.ParseCertificate(der)
	return c, k, certPEM(der)
}
func mkLeaf(cn string, serial int64, parent *x509.Certificate, parentKey *ecdsa.PrivateKey, client bool) ([]byte, []byte) {
	return mkLeafKey(cn, serial, parent, parentKey, client, nil)
}

// leafKeyGroup: which private key a server leaf uses.  Leaves 1, 2, 7 are renewals of one another (same key, new
// serial and validity - what ACME clients and internal CAs commonly issue), so are 3, 4, 8; 5 and 6 have keys of their
// own.  All server leaves carry the same subject, so a switch between groups is "new key, same subject".
func leafKeyGroup(id int) int {
	switch id {
	case 1, 2, 7:
		return 0
	case 3, 4, 8:
		return 1
	default:
		return id
	}
}

// mkLeafKey issues a leaf for the given key (a fresh one when k is nil).
func mkLeafKey(cn string, serial int64, parent *x509.Certificate, parentKey *ecdsa.PrivateKey, client bool, k *ecdsa.PrivateKey) ([]byte, []byte) {
	if k == nil {
		k, _ = ecdsa.GenerateKey(elliptic.P256(), rand.Reader)
	}
	tpl := &x509.Certificate{SerialNumber: big.NewInt(serial), Subject: pkix.Name{CommonName: cn}, NotBefore: time.Now().Add(-time.Hour - time.Duration(serial%16)*time.Minute),
		NotAfter: time.Now().Add(24*time.Hour + time.Duration(serial%16)*time.Minute), KeyUsage: x509.KeyUsageDigitalSignature,
		DNSNames: []string{"localhost"}, IPAddresses: []net.IP{net.ParseIP("127.0.0.1")}}
	if client {
		tpl.ExtKeyUsage = []x509.ExtKeyUsage{x509.ExtKeyUsageClientAuth}
	} else {
		tpl.ExtKeyUsage = []x509.ExtKeyUsage{x509.ExtKeyUsageServerAuth}
	}
	if parent == nil {
		parent, parentKey = tpl, k
	}
	der, err := x509.CreateCertificate(rand.Reader, tpl, parent, &k.PublicKey, parentKey)
	if err != nil {
		panic(err)
	}
	return certPEM(der), keyPEM(k)
}
func getPKI() *pki {
	pkiOnce.Do(func() {
		p := &pki{serverPEM: map[int][2][]byte{}, clients: map[string]tls.Certificate{}, pathCAPEM: map[int][]byte{}}
		p.ca, p.caKey, p.caPEM = mkCA("verif CA", 1000)
		p.otherCA, p.otherKey, p.otherCAPEM = mkCA("other CA", 1001)
		groupKey := map[int]*ecdsa.PrivateKey{}
		for id := 1; id <= 8; id++ {
			g := leafKeyGroup(id)
			if groupKey[g] == nil {
				groupKey[g], _ = ecdsa.GenerateKey(elliptic.P256(), rand.Reader)
			}
			c, k := mkLeafKey("localhost", int64(id), p.ca, p.caKey, false, groupKey[g])
			p.serverPEM[id] = [2][]byte{c, k}
		}
		for name, par := range map[string]*x509.Certificate{"SelfSigned": nil, "CASigned": p.ca, "OtherCASigned": p.otherCA} {
			pk := p.caKey
			if par == p.otherCA {
				pk = p.otherKey
			}
			c, k := mkLeaf("client "+name, 2000, par, pk, true)
			pair, err := tls.X509KeyPair(c, k)
			if err != nil {
				panic(err)
			}
			p.clients[name] = pair
		}
		// CAs 1..3 of the path-reuse stream, each with one client certificate
		for k := 1; k <= 3; k++ {
			ca, key, pemBytes := mkCA(fmt.Sprintf("path CA %d", k), int64(1100+k))
			p.pathCAPEM[k] = pemBytes
			c, ck := mkLeaf(fmt.Sprintf("client of CA %d", k), int64(2100+k), ca, key, true)
			pair, err := tls.X509KeyPair(c, ck)
			if err != nil {
				panic(err)
			}
			p.clients[fmt.Sprintf("CA%d", k)] = pair
		}
		thePKI = p
	})
	return thePKI
}

func scratchDir() string {
	base := filepath.Join(os.Getenv("VERIF_ROOT"), "build", "tmp")
	if os.Getenv("VERIF_ROOT") == "" {
		base = filepath.Join(os.TempDir(), "config-c30")
	}
	os.MkdirAll(base, 0o755)
	d, err := os.MkdirTemp(base, "c30-")
	if err != nil {
		panic(err)
	}
	return d
}
func writeServerPair(dir string, path int, leaf int) {
	p := getPKI().serverPEM[leaf]
	os.WriteFile(filepath.Join(dir, fmt.Sprintf("p%d.crt", path)), p[0], 0o600)
	os.WriteFile(filepath.Join(dir, fmt.Sprintf("p%d.key", path)), p[1], 0o600)
}

// tlsAttempt dials, completes the handshake and a NULL RPC; returns the negotiated version (0 = not completed) and
// the serial number of the leaf the server presented (0 = none seen).
func tlsAttempt(addr string, min, max uint16, certKind string, deadline time.Duration) (uint16, int64) {
	cfg := &tls.Config{MinVersion: min, MaxVersion: max, InsecureSkipVerify: true}
	if certKind != "NoCert" {
		// present the certificate whatever CAs the server names in its CertificateRequest (crypto/tls would otherwise
		// silently send none when the certificate does not chain to an acceptable CA)
		pair := getPKI().clients[certKind]
		cfg.GetClientCertificate = func(*tls.CertificateRequestInfo) (*tls.Certificate, error) { return &pair, nil }
	}
	raw, err := net.DialTimeout("tcp", addr, deadline)
	if err != nil {
		return 0, 0
	}
	defer raw.Close()
	raw.SetDeadline(time.Now().Add(deadline))
	conn := tls.Client(raw, cfg)
	herr := conn.Handshake()
	st := conn.ConnectionState()
	var serial int64
	if len(st.PeerCertificates) > 0 {
		serial = st.PeerCertificates[0].SerialNumber.Int64()
	}
	if herr != nil {
		return 0, serial // the server's certificate may have been seen before the handshake was refused
	}
	cl := &rpcClient{conn: conn, xid: 0x7150000, timeout: deadline}
	xid, reply, err := cl.call(progNFS, 3, 0, nil)
	if err != nil {
		return 0, serial
	}
	if _, denied, perr := acceptedResult(reply, xid); perr != nil || denied {
		return 0, serial
	}
	return st.Version, serial
}

// ---- stream C30: floor and client certificates ----
type c30Settings struct {
	enabled                    bool
	certMode, keyMode, caMode  int // files: 0 empty path, 1 good, 2 path to a missing file, 3 garbage content
	auth                       int
	min, max                   uint16
	suites                     int // 0 nil, 1 DefaultTLSConfig list, 2 one ECDSA TLS1.2 suite, 3 RSA-only TLS1.2 suites
	preferServer, insecureSkip bool
}

var verrNames = []struct{ sub, name string }{
	{"certificate file is required", "ECertMissing"}, {"key file is required", "EKeyMissing"},
	{"certificate file not found", "ECertNotFound"}, {"key file not found", "EKeyNotFound"},
	{"CA file not found", "ECANotFound"}, {"cannot be greater than max", "EMinGtMax"}, {"below 1.2", "EBelowFloor"},
}

func runC30(s c30Settings, attempts [][3]int, kind string, idx int) Case {
	tags := map[string]int{}
	dir := scratchDir()
	defer os.RemoveAll(dir)
	file := func(mode int, name string, good []byte) string {
		p := filepath.Join(dir, name)
		switch mode {
		case 0:
			return ""
		case 1:
			os.WriteFile(p, good, 0o600)
		case 2: // path given, file absent
		case 3:
			os.WriteFile(p, []byte("not a PEM file\n"), 0o600)
		}
		return p
	}
	pk := getPKI()
	tc := &absnfs.TLSConfig{Enabled: s.enabled, ClientAuth: tls.ClientAuthType(s.auth), MinVersion: s.min, MaxVersion: s.max,
		PreferServerCipherSuites: s.preferServer, InsecureSkipVerify: s.insecureSkip}
	tc.CertFile = file(s.certMode, "server.crt", pk.serverPEM[1][0])
	tc.KeyFile = file(s.keyMode, "server.key", pk.serverPEM[1][1])
	tc.CAFile = file(s.caMode, "ca.crt", pk.caPEM)
	switch s.suites {
	case 1:
		tc.CipherSuites = absnfs.DefaultTLSConfig().CipherSuites
	case 2:
		tc.CipherSuites = []uint16{tls.TLS_ECDHE_ECDSA_WITH_AES_128_GCM_SHA256}
	case 3:
		tc.CipherSuites = []uint16{tls.TLS_ECDHE_RSA_WITH_AES_128_GCM_SHA256, tls.TLS_ECDHE_RSA_WITH_AES_256_GCM_SHA384}
	}
	verr := "None"
	verrTxt := "nil"
	if err := tc.Validate(); err != nil {
		verrTxt = err.Error()
		for _, v := range verrNames {
			if strings.Contains(err.Error(), v.sub) {
				verr = "(Some " + v.name + ")"
			}
		}
		if verr == "None" {
			fmt.Fprintf(realStderr, "C30: unrecognised Validate error %q\n", err)
			os.Exit(3)
		}
		tags["validate_rejects"]++
		tags["validate_"+strings.Trim(verr, "()Some ")]++
	} else {
		tags["validate_accepts"]++
	}
	fs, _ := memfs.NewFS()
	srv, err := absnfs.New(fs, absnfs.ExportOptions{TLS: tc})
	if err != nil {
		panic(err)
	}
	defer srv.Close()
	startErr := srv.Export("/", 0)
	listening := startErr == nil
	settings := fmt.Sprintf("(mkTls %s %s %s %s %s %s %s %s %s %s %s %s %s)", CBool(s.enabled),
		CBool(s.certMode != 0), CBool(s.keyMode != 0), CBool(s.certMode == 1 || s.certMode == 3), CBool(s.keyMode == 1 || s.keyMode == 3),
		CBool(s.certMode == 1 && s.keyMode == 1), CBool(s.caMode != 0), CBool(s.caMode == 1 || s.caMode == 3), CBool(s.caMode == 1),
		CZ(int64(s.auth)), CZ(int64(s.min)), CZ(int64(s.max)), CBool(s.suites != 3))
	var atts, txt []string
	if listening {
		if s.enabled {
			tags["listening_tls"]++
		} else {
			tags["listening_plain"]++
			attempts = attempts[:1]
		}
		addr := fmt.Sprintf("localhost:%d", srv.VerifExportPort())
		for _, a := range attempts {
			kinds := []string{"NoCert", "SelfSigned", "OtherCASigned", "CASigned"}
			dl := 1500 * time.Millisecond
			if !s.enabled {
				dl = 250 * time.Millisecond
			}
			v, _ := tlsAttempt(addr, uint16(a[0]), uint16(a[1]), kinds[a[2]], dl)
			res := "None"
			if v != 0 {
				res = "(Some " + CZ(int64(v)) + ")"
				tags["handshake_ok"]++
				tags[fmt.Sprintf("negotiated_%#x", v)]++
			} else {
				tags["handshake_refused"]++
			}
			tags["client_"+kinds[a[2]]]++
			if a[1] < 0x0303 {
				tags["client_max_below_1.2"]++
			}
			atts = append(atts, fmt.Sprintf("(mkClient %s %s %s, %s)", CZ(int64(a[0])), CZ(int64(a[1])), kinds[a[2]], res))
			txt = append(txt, fmt.Sprintf("client[%#x..%#x %s]->%#x", a[0], a[1], kinds[a[2]], v))
		}
	} else {
		tags["not_listening"]++
	}
	tags[fmt.Sprintf("auth_%d", s.auth)]++
	coq := fmt.Sprintf("(mkCase %s %s %s %s)", settings, verr, CBool(listening), CList(atts))
	text := fmt.Sprintf("TLSConfig{Enabled:%v cert:%d key:%d ca:%d ClientAuth:%d Min:%#x Max:%#x suites:%d} Validate=%s listening=%v (%v)\n %s",
		s.enabled, s.certMode, s.keyMode, s.caMode, s.auth, s.min, s.max, s.suites, verrTxt, listening, startErr, strings.Join(txt, " "))
	return Case{Index: idx, Kind: kind, Coq: coq, Tags: tags, Text: text}
}

var clientRanges = [][2]int{{0x0301, 0x0301}, {0x0302, 0x0302}, {0x0301, 0x0302}, {0x0303, 0x0303}, {0x0304, 0x0304},
	{0x0301, 0x0304}, {0x0303, 0x0304}, {0x0301, 0x0303}, {0x0302, 0x0304}}

func genAttempts(r *Rand, n int) [][3]int {
	var out [][3]int
	for i := 0; i < n; i++ {
		cr := clientRanges[r.Intn(len(clientRanges))]
		out = append(out, [3]int{cr[0], cr[1], r.Intn(4)})
	}
	return out
}

func genC30(r *Rand, idx int, tier string) Case {
	s := c30Settings{enabled: !r.Chance(5), certMode: 1, keyMode: 1, preferServer: r.Bool(), insecureSkip: r.Chance(20)}
	kind := "accepted-shape"
	if r.Chance(25) {
		kind = "file-problems"
		switch r.Intn(5) {
		case 0:
			s.certMode = PickInt(r, 0, 2, 3)
		case 1:
			s.keyMode = PickInt(r, 0, 2, 3)
		default:
			s.caMode = PickInt(r, 2, 3)
		}
	}
	if s.caMode == 0 {
		s.caMode = PickInt(r, 0, 1, 1)
	}
	s.auth = r.Intn(5)
	s.min = uint16(PickInt(r, 0, 0, 0x0303, 0x0303, 0x0304, 0x0301, 0x0302, 0x0300, 0x0305))
	s.max = uint16(PickInt(r, 0, 0x0304, 0x0304, 0x0303, 0x0302, 0x0301, 0x0305))
	if r.Chance(55) { // the common, valid shapes
		s.min, s.max = uint16(PickInt(r, 0, 0x0303, 0x0304)), uint16(PickInt(r, 0x0303, 0x0304, 0x0304))
		if s.min == 0 && r.Bool() {
			s.max = 0
		}
	}
	s.suites = PickInt(r, 0, 0, 1, 2, 3)
	return runC30(s, genAttempts(r, 6+r.Intn(5)), kind, idx)
}

func allAttempts() [][3]int {
	var out [][3]int
	for _, cr := range clientRanges {
		for k := 0; k < 4; k++ {
			out = append(out, [3]int{cr[0], cr[1], k})
		}
	}
	return out
}

func corpusC30() []Case {
	return []Case{
		// the documented default shape, every client
		runC30(c30Settings{enabled: true, certMode: 1, keyMode: 1, caMode: 0, auth: 0, min: 0x0303, max: 0x0304, suites: 1}, allAttempts(), "default-all-clients", 0),
		// versions unset: Go's default minimum applies
		runC30(c30Settings{enabled: true, certMode: 1, keyMode: 1, caMode: 0, auth: 0, min: 0, max: 0}, allAttempts(), "unset-versions-all-clients", 1),
		// mutual TLS
		runC30(c30Settings{enabled: true, certMode: 1, keyMode: 1, caMode: 1, auth: 4, min: 0x0303, max: 0x0304}, allAttempts(), "require-and-verify-all-clients", 2),
		runC30(c30Settings{enabled: true, certMode: 1, keyMode: 1, caMode: 1, auth: 3, min: 0x0303, max: 0x0303, suites: 2}, allAttempts(), "verify-if-given-all-clients", 3),
		// accepted by Validate although no handshake can ever complete: MinVersion unset, MaxVersion TLS 1.1
		runC30(c30Settings{enabled: true, certMode: 1, keyMode: 1, caMode: 0, auth: 0, min: 0, max: 0x0302}, allAttempts(), "max-below-floor", 4),
		// RequireAndVerify without a CA file: accepted by Validate, nobody can connect
		runC30(c30Settings{enabled: true, certMode: 1, keyMode: 1, caMode: 0, auth: 4, min: 0x0303, max: 0x0304}, allAttempts()[:12], "require-and-verify-no-ca", 5),
		// rejected: below the floor; min > max (MinVersion set, MaxVersion unset)
		runC30(c30Settings{enabled: true, certMode: 1, keyMode: 1, caMode: 0, auth: 0, min: 0x0301, max: 0x0304}, nil, "min-tls10-rejected", 6),
		runC30(c30Settings{enabled: true, certMode: 1, keyMode: 1, caMode: 0, auth: 0, min: 0x0303, max: 0}, nil, "min-set-max-unset-rejected", 7),
	}
}

// ---- stream C30rot: rotation ----
type rotOp struct {
	kind    int // 0 get, 1 clone, 2 reload, 3 write, 4 update, 5 update nil, 6 fresh
	i       int
	path    int
	leaf    int
	enabled bool
}

func (o rotOp) coq() string {
	switch o.kind {
	case 0:
		return "HGet"
	case 1:
		return fmt.Sprintf("HClone %d%%nat", o.i)
	case 2:
		return fmt.Sprintf("HReload %d%%nat", o.i)
	case 3:
		return fmt.Sprintf("HWrite %d %d", o.path, o.leaf)
	case 4:
		return fmt.Sprintf("HUpdate %d%%nat", o.i)
	case 5:
		return "HUpdateNil"
	default:
		return fmt.Sprintf("HFresh %s %d", CBool(o.enabled), o.path)
	}
}

// runC30rot executes a history; choose(nobjs, accessible) lets the generator pick operands that exist.
func runC30rot(c0 int, gen func(step int, accessible []int) (rotOp, bool), cNew int, kind string, idx int) Case {
	tags := map[string]int{}
	dir := scratchDir()
	defer os.RemoveAll(dir)
	writeServerPair(dir, 1, c0)
	mk := func(path int, enabled bool) *absnfs.TLSConfig {
		return &absnfs.TLSConfig{Enabled: enabled, CertFile: filepath.Join(dir, fmt.Sprintf("p%d.crt", path)),
			KeyFile: filepath.Join(dir, fmt.Sprintf("p%d.key", path)), MinVersion: tls.VersionTLS12, MaxVersion: tls.VersionTLS13}
	}
	user := mk(1, true)
	fs, _ := memfs.NewFS()
	srv, err := absnfs.New(fs, absnfs.ExportOptions{TLS: user})
	if err != nil {
		panic(err)
	}
	defer srv.Close()
	if err := srv.Export("/", 0); err != nil {
		fmt.Fprintf(realStderr, "C30rot: Export: %v\n", err)
		os.Exit(3)
	}
	addr := fmt.Sprintf("localhost:%d", srv.VerifExportPort())
	leaf := func() string {
		_, serial := tlsAttempt(addr, tls.VersionTLS12, tls.VersionTLS13, "NoCert", 1500*time.Millisecond)
		if serial == 0 {
			return "None"
		}
		return fmt.Sprintf("(Some %d)", serial)
	}
	// model object numbering: 0 = the caller's object, 1 = the clone New stored in the policy
	objs := map[int]*absnfs.TLSConfig{0: user}
	nobjs := 2
	first := leaf()
	onDisk := map[int]int{1: c0}
	var steps, txt []string
	derived := true
	for step := 0; ; step++ {
		var acc []int
		for i := 0; i < nobjs; i++ {
			if objs[i] != nil {
				acc = append(acc, i)
			}
		}
		o, ok := gen(step, acc)
		if !ok {
			break
		}
		switch o.kind {
		case 0:
			if t := srv.GetExportOptions().TLS; t != nil {
				objs[nobjs] = t
				nobjs++
			}
			tags["op_get"]++
		case 1:
			objs[nobjs] = objs[o.i].Clone()
			nobjs++
			tags["op_clone"]++
		case 2:
			if err := objs[o.i].ReloadCertificates(); err != nil {
				tags["reload_errors"]++
			}
			tags["op_reload"]++
		case 3:
			writeServerPair(dir, o.path, o.leaf)
			tags["op_write"]++
			if prev, ok := onDisk[o.path]; ok && prev != o.leaf {
				if leafKeyGroup(prev) == leafKeyGroup(o.leaf) {
					tags["write_same_key_renewal"]++
				} else {
					tags["write_new_key_same_subject"]++
				}
			}
			onDisk[o.path] = o.leaf
		case 4:
			if err := srv.UpdateExportOptions(absnfs.ExportOptions{TLS: objs[o.i]}); err != nil {
				panic(err)
			}
			nobjs += 2
			tags["op_update"]++
		case 5:
			if err := srv.UpdateExportOptions(absnfs.ExportOptions{}); err != nil {
				panic(err)
			}
			derived = false
			tags["op_update_nil"]++
		case 6:
			objs[nobjs] = mk(o.path, o.enabled)
			nobjs++
			derived = false
			tags["op_fresh"]++
		}
		l := leaf()
		steps = append(steps, CPair(o.coq(), l))
		txt = append(txt, o.coq()+"=>"+l)
		tags["steps"]++
	}
	// the documented rotation step
	if leafKeyGroup(onDisk[1]) == leafKeyGroup(cNew) {
		tags["final_rotation_same_key_renewal"]++
	} else {
		tags["final_rotation_new_key"]++
	}
	writeServerPair(dir, 1, cNew)
	rotOK := false
	if t := srv.GetExportOptions().TLS; t != nil {
		rotOK = t.ReloadCertificates() == nil
	}
	final := leaf()
	if derived {
		tags["derived_history"]++
	} else {
		tags["foreign_or_nil_history"]++
	}
	if rotOK && final == fmt.Sprintf("(Some %d)", cNew) {
		tags["rotation_ok"]++
	} else {
		tags["rotation_not_reaching_listener"]++
	}
	coq := fmt.Sprintf("(mkCase 1 %d %s %s %d %s %s)", c0, first, CList(steps), cNew, CBool(rotOK), final)
	text := fmt.Sprintf("start leaf=%d presented=%s; %s; rotate to leaf %d: ok=%v presented=%s", c0, first, strings.Join(txt, " "), cNew, rotOK, final)
	return Case{Index: idx, Kind: kind, Coq: coq, Tags: tags, Text: text}
}

func genC30rot(r *Rand, idx int, tier string) Case {
	derivedOnly := r.Chance(70)
	kind := "derived-only"
	if !derivedOnly {
		kind = "with-foreign-or-nil"
	}
	n := r.Intn(9)
	c0 := 1 + r.Intn(3)
	cur := c0
	gen := func(step int, acc []int) (rotOp, bool) {
		if step >= n {
			return rotOp{}, false
		}
		pick := func() int { return acc[r.Intn(len(acc))] }
		x := r.Intn(100)
		switch {
		case x < 25:
			return rotOp{kind: 0}, true
		case x < 40:
			return rotOp{kind: 1, i: pick()}, true
		case x < 60:
			return rotOp{kind: 2, i: pick()}, true
		case x < 80:
			if r.Chance(50) { // renewal for the same private key (1<->2, 3<->4), else another leaf (new key, same subject)
				cur = map[int]int{1: 2, 2: 1, 3: 4, 4: 3, 5: 1, 6: 3}[cur]
			} else {
				cur = 1 + (cur+r.Intn(4))%6
			}
			return rotOp{kind: 3, path: 1 + r.Intn(2)*boolInt(!derivedOnly || r.Chance(20)), leaf: cur}, true
		case x < 90 || derivedOnly:
			return rotOp{kind: 4, i: pick()}, true
		case x < 94:
			return rotOp{kind: 5}, true
		default:
			return rotOp{kind: 6, path: 1 + r.Intn(2), enabled: !r.Chance(20)}, true
		}
	}
	return runC30rot(c0, gen, 7+r.Intn(2), kind, idx) // 7 renews the key of leaves 1, 2; 8 that of leaves 3, 4
}
func boolInt(b bool) int {
	if b {
		return 1
	}
	return 0
}

func fixedOps(ops []rotOp) func(int, []int) (rotOp, bool) {
	return func(step int, _ []int) (rotOp, bool) {
		if step >= len(ops) {
			return rotOp{}, false
		}
		return ops[step], true
	}
}

func corpusC30rot() []Case {
	return []Case{
		// fixed eb9f265: the documented step, nothing else
		runC30rot(1, fixedOps(nil), 7, "documented-step-only", 0),
		// get-modify-update pattern, then rotate
		runC30rot(2, fixedOps([]rotOp{{kind: 0}, {kind: 4, i: 2}, {kind: 3, path: 1, leaf: 3}, {kind: 2, i: 2}}), 8, "get-update-reload", 1),
		// scope: a caller-made TLSConfig installed at runtime / TLS dropped at runtime
		runC30rot(1, fixedOps([]rotOp{{kind: 6, path: 1, enabled: true}, {kind: 4, i: 2}}), 7, "foreign-settings-installed", 2),
		runC30rot(1, fixedOps([]rotOp{{kind: 5}}), 7, "tls-dropped-at-runtime", 3),
		// seeded C30-4: renewals for the SAME private key (new serial) - reloaded through the caller's original object
		// (index 0), then through GetExportOptions().TLS (index 2), then the documented step to another same-key leaf
		runC30rot(1, fixedOps([]rotOp{{kind: 3, path: 1, leaf: 2}, {kind: 2, i: 0}, {kind: 0}, {kind: 3, path: 1, leaf: 1}, {kind: 2, i: 2}}), 7, "same-key-renewals", 4),
		// the converse: new key, same subject, then back to a renewal of the first key
		runC30rot(3, fixedOps([]rotOp{{kind: 3, path: 1, leaf: 5}, {kind: 2, i: 0}, {kind: 3, path: 1, leaf: 4}, {kind: 0}, {kind: 2, i: 2}}), 8, "new-key-same-subject-then-renewal", 5),
	}
}
