package main

import (
	"fmt"
	"net"
	"strings"
	"time"

	. "verifharness/lib"

	"github.com/absfs/absnfs"
	"github.com/absfs/memfs"
)

// C28: every public start path x {port 0, fixed free port} x {debug on/off} x {AUTH_NONE, AUTH_SYS} against a
// conformant record-marking client (rpcclient.go): NULL, MOUNT3 MNT of the export path, NFS3 GETATTR of the handle,
// the calls being delivered in varied TCP segmentations (whole records, byte at a time, cuts inside the record mark,
// at the mark/payload boundary, inside the RPC header, multi-fragment records, pipelined pairs whose boundary lies
// inside a segment; TCP_NODELAY and a few ms between pieces).  Segmentation must never change an outcome.
// Listen with UseRecordMarking=false is included as a negative control (the model predicts raw framing: the
// record-marked client must NOT get a well-formed reply), and the refused calls (empty mount path, negative port).
func init() {
	Props["C28"] = &Prop{
		Imports:    "From Verif Require Import Gen.Facts Model.Framing Corr.C28.",
		Gen:        genC28,
		Corpus:     corpusC28,
		NonTrivial: func(c *Case) bool { return c.Tags["documented"] > 0 && c.Tags["replies_ok"] == 3 },
		ShardSize:  40,
	}
}

type c28In struct {
	path    int // 0 Export, 1 Listen, 2 StartWithPortmapper
	port    int // -1 invalid, 0 any, 1 fixed free port
	debug   bool
	rm      bool
	mount   string // Export's mountPath and the path sent in MNT ("" = refused Export)
	host    string
	authSys bool
	seg     int   // how the client cuts its calls into TCP pieces / record fragments (segNames)
	r       *Rand // source of the cut positions (derived from seed and case index)
}

// Segmentation of the client's byte stream.  TCP is a byte stream: none of this may change any outcome.
const (
	segWhole = iota
	segBytewise
	segMark1
	segMark2
	segMark3
	segBoundary
	segHeader
	segMultiFrag
	segMultiFragCutMark
	segPipelined
	segRandom
)

var segNames = []string{"whole-records", "byte-at-a-time", "cut-in-mark-after-1", "cut-in-mark-after-2", "cut-in-mark-after-3",
	"cut-at-mark-payload-boundary", "cut-in-rpc-header", "multi-fragment-record", "multi-fragment-cut-in-2nd-mark",
	"pipelined-boundary-inside-segment", "random-cuts"}

const segGap = 3 * time.Millisecond

// plan turns one call message into the bytes to put on the wire and the offsets at which to cut them.
func (in c28In) plan(msg []byte) (stream []byte, cuts []int, gap time.Duration, nfrag int) {
	r := in.r
	gap = segGap
	var frags []int
	switch in.seg {
	case segMultiFrag:
		for k := 1 + r.Intn(3); k > 0; k-- {
			n := 1 + r.Intn(len(msg)/2)
			if r.Chance(10) {
				n = 0 // an empty non-last fragment is legal
			}
			frags = append(frags, n)
		}
	case segMultiFragCutMark:
		frags = []int{4 * (1 + r.Intn(len(msg)/4-1))}
	}
	stream, marks := record(msg, frags)
	nfrag = len(marks)
	switch in.seg {
	case segBytewise:
		gap = 400 * time.Microsecond
		for i := 1; i < len(stream); i++ {
			cuts = append(cuts, i)
		}
	case segMark1, segMark2, segMark3:
		cuts = []int{in.seg - segMark1 + 1}
	case segBoundary:
		cuts = []int{4}
	case segHeader:
		cuts = []int{5 + r.Intn(39)}
	case segMultiFrag:
		if r.Bool() { // also cut somewhere, possibly inside a later mark
			cuts = []int{marks[len(marks)-1] + r.Intn(5)}
		}
	case segMultiFragCutMark:
		cuts = []int{marks[1] + 1 + r.Intn(3)}
	case segRandom:
		seen := map[int]bool{}
		for k := 1 + r.Intn(4); k > 0; k-- {
			seen[1+r.Intn(len(stream)-1)] = true
		}
		for i := 1; i < len(stream); i++ {
			if seen[i] {
				cuts = append(cuts, i)
			}
		}
	}
	return
}

// exchange sends one call as planned and reads its reply.
func (in c28In) exchange(cl *rpcClient, prog, vers, proc uint32, args []byte, tags map[string]int, note *[]string) exchGo {
	xid := cl.nextXid()
	stream, cuts, gap, nfrag := in.plan(cl.callMsg(xid, prog, vers, proc, args))
	sizes, err := cl.sendCut(stream, cuts, gap)
	tags["tcp_pieces"] += len(sizes)
	tags["request_fragments"] += nfrag
	*note = append(*note, fmt.Sprintf("%d fragment(s) in pieces %v", nfrag, sizes))
	e := exchGo{xid: xid}
	if err == nil {
		e.raw, err = cl.readReply()
	}
	e.ioerr = err != nil
	return e
}

// pipelined sends two calls back to back, cut so that one TCP piece carries the end of the first record and the
// first b bytes of the second (b < 4: the second record mark itself is split), then reads the two replies in order.
func (in c28In) pipelined(cl *rpcClient, a, b [3]uint32, argsA, argsB []byte, tags map[string]int, note *[]string) (exchGo, exchGo) {
	xa, xb := cl.nextXid(), cl.nextXid()
	ra, _ := record(cl.callMsg(xa, a[0], a[1], a[2], argsA), nil)
	rb, _ := record(cl.callMsg(xb, b[0], b[1], b[2], argsB), nil)
	back := 1 + in.r.Intn(8)
	fwd := PickInt(in.r, 1, 2, 3, 1, 2, 3, 4, 9)
	sizes, err := cl.sendCut(append(append([]byte{}, ra...), rb...), []int{len(ra) - back, len(ra) + fwd}, segGap)
	tags["tcp_pieces"] += len(sizes)
	tags["request_fragments"] += 2
	tags["pipelined_pairs"]++
	*note = append(*note, fmt.Sprintf("two records (%d+%d bytes) in pieces %v", len(ra), len(rb), sizes))
	ea, eb := exchGo{xid: xa, ioerr: true}, exchGo{xid: xb, ioerr: true}
	if err != nil {
		return ea, eb
	}
	if ea.raw, err = cl.readReply(); err != nil {
		return ea, eb
	}
	ea.ioerr = false
	eb.raw, err = cl.readReply()
	eb.ioerr = err != nil
	return ea, eb
}

func freePort() int {
	l, err := net.Listen("tcp", "127.0.0.1:0")
	if err != nil {
		return 20490
	}
	p := l.Addr().(*net.TCPAddr).Port
	l.Close()
	return p
}

type exchGo struct {
	xid   uint32
	raw   []byte
	ioerr bool
}

func (e exchGo) coq() string {
	return fmt.Sprintf("(mkExch %d %s %s)", e.xid, CBytes(e.raw), CBool(e.ioerr))
}

func runC28(in c28In, kind string, idx int) Case {
	tags := map[string]int{}
	fs, _ := memfs.NewFS()
	fs.Mkdir("/export", 0o755)
	nfs, err := absnfs.New(fs, absnfs.ExportOptions{})
	if err != nil {
		panic(err)
	}
	defer nfs.Close()
	port := 0
	switch in.port {
	case -1:
		port = -1
	case 1:
		port = freePort()
		tags["port_fixed"]++
	default:
		tags["port_0"]++
	}
	var startErr error
	var srv *absnfs.Server
	actual := 0
	unavailable := false
	var coqPath, pathTxt string
	t0 := time.Now()
	switch in.path {
	case 0:
		tags["path_export"]++
		coqPath = fmt.Sprintf("(ViaExport %s %s)", cstr(in.mount), CZ(int64(port)))
		pathTxt = fmt.Sprintf("Export(%q, %d)", in.mount, port)
		startErr = nfs.Export(in.mount, port)
		actual = nfs.VerifExportPort()
	default:
		name := "ViaListen"
		if in.path == 2 {
			name = "ViaStartWithPortmapper"
			tags["path_start_with_portmapper"]++
		} else {
			tags["path_listen"]++
		}
		coqPath = fmt.Sprintf("(%s %s %s %s)", name, CZ(int64(port)), CBool(in.debug), CBool(in.rm))
		pathTxt = fmt.Sprintf("NewServer{Port:%d Hostname:%q Debug:%v UseRecordMarking:%v}+%s", port, in.host, in.debug, in.rm,
			map[int]string{1: "Listen()", 2: "StartWithPortmapper()"}[in.path])
		srv, startErr = absnfs.NewServer(absnfs.ServerOptions{Name: "vh", Port: port, Hostname: in.host, Debug: in.debug, UseRecordMarking: in.rm})
		if startErr == nil {
			srv.SetHandler(nfs)
			if in.path == 1 {
				startErr = srv.Listen()
			} else {
				startErr = srv.StartWithPortmapper()
				if startErr != nil && strings.Contains(startErr.Error(), "failed to start portmapper") {
					// port 111 is taken (or not permitted): this environment cannot run the path
					unavailable = true
					tags["unavailable_port_111"]++
				}
			}
			if startErr == nil {
				actual = srv.GetPort()
			}
			defer srv.Stop()
		}
	}
	if in.debug {
		tags["debug_on"]++
	}
	null, mnt, ga := exchGo{ioerr: true}, exchGo{ioerr: true}, exchGo{ioerr: true}
	var extra []exchGo // further NULL calls (the second call of a pipelined pair)
	var segNote []string
	if in.r == nil {
		in.r = NewRand(28, uint64(idx))
	}
	if startErr == nil {
		host := in.host
		if host == "" {
			host = "localhost"
		}
		cl, err := dialRPC(fmt.Sprintf("%s:%d", host, actual), 1500*time.Millisecond, in.authSys)
		if err == nil {
			defer cl.conn.Close()
			if in.authSys {
				tags["auth_sys"]++
			} else {
				tags["auth_none"]++
			}
			if tc, ok := cl.conn.(*net.TCPConn); ok {
				tc.SetNoDelay(true) // every Write leaves as its own segment
			}
			tags["seg_"+segNames[in.seg]]++
			handleOf := func(m exchGo) []byte {
				if m.ioerr {
					return nil
				}
				if res, denied, perr := acceptedResult(m.raw, m.xid); perr == nil && !denied && len(res) >= 8 {
					n := int(res[4])<<24 | int(res[5])<<16 | int(res[6])<<8 | int(res[7])
					if n <= 64 && len(res) >= 8+n {
						return res[8 : 8+n]
					}
				}
				return nil
			}
			if in.seg == segPipelined {
				null, mnt = in.pipelined(cl, [3]uint32{progNFS, 3, 0}, [3]uint32{progMount, 3, 1}, nil, xdrOpaque([]byte(in.mount)), tags, &segNote)
				if fh := handleOf(mnt); fh != nil {
					var x exchGo
					ga, x = in.pipelined(cl, [3]uint32{progNFS, 3, 1}, [3]uint32{progNFS, 3, 0}, fhArg(fh), nil, tags, &segNote)
					extra = append(extra, x)
				}
			} else {
				null = in.exchange(cl, progNFS, 3, 0, nil, tags, &segNote)
				if !null.ioerr {
					mnt = in.exchange(cl, progMount, 3, 1, xdrOpaque([]byte(in.mount)), tags, &segNote)
					if fh := handleOf(mnt); fh != nil {
						ga = in.exchange(cl, progNFS, 3, 1, fhArg(fh), tags, &segNote)
					}
				}
			}
		}
	} else if !unavailable {
		tags["refused"]++
	}
	for _, e := range []exchGo{null, mnt, ga} {
		if !e.ioerr && len(e.raw) >= 28 {
			if _, denied, err := acceptedResult(e.raw, e.xid); err == nil && !denied {
				tags["replies_ok"]++
			}
		}
		tags["reply_bytes"] += len(e.raw)
	}
	documented := (in.path == 0 && in.mount != "" && port >= 0) || (in.path == 1 && in.rm && port >= 0) || (in.path == 2 && port >= 0)
	if documented && !unavailable {
		tags["documented"]++
	}
	if in.path == 1 && !in.rm && port >= 0 {
		tags["negative_control_raw"]++
	}
	tags["ms"] = int(time.Since(t0) / time.Millisecond)
	for _, e := range extra {
		if !e.ioerr {
			if _, denied, err := acceptedResult(e.raw, e.xid); err == nil && !denied {
				tags["extra_replies_ok"]++
			}
		}
	}
	ex := make([]string, len(extra))
	for i, e := range extra {
		ex[i] = e.coq()
	}
	coq := fmt.Sprintf("(mkCase %s %s %s %s %s %s %s %s %s)", coqPath, cstr(in.mount), cstr(segNames[in.seg]), CBool(unavailable), CBool(startErr == nil),
		null.coq(), mnt.coq(), ga.coq(), CList(ex))
	txt := fmt.Sprintf("%s auth_sys=%v -> started=%v (err=%v) port=%d unavailable=%v\n client segmentation: %s: %s\n NULL xid=%#x ioerr=%v reply=%x\n MNT %q xid=%#x ioerr=%v reply=%x\n GETATTR xid=%#x ioerr=%v reply=%x",
		pathTxt, in.authSys, startErr == nil, startErr, actual, unavailable, segNames[in.seg], strings.Join(segNote, "; "), null.xid, null.ioerr, null.raw, in.mount, mnt.xid, mnt.ioerr, mnt.raw,
		ga.xid, ga.ioerr, ga.raw)
	for _, e := range extra {
		txt += fmt.Sprintf("\n NULL(pipelined) xid=%#x ioerr=%v reply=%x", e.xid, e.ioerr, e.raw)
	}
	return Case{Index: idx, Kind: kind, Coq: coq, Tags: tags, Text: txt}
}

func genC28(r *Rand, idx int, tier string) Case {
	in := c28In{debug: r.Bool(), rm: true, mount: PickStr(r, "/", "/", "/export"), host: PickStr(r, "", "localhost", "127.0.0.1"),
		authSys: r.Bool(), port: r.Intn(2), r: r}
	// client-side segmentation: 10% whole records, the rest spread over the ten ways of cutting the stream
	if !r.Chance(10) {
		in.seg = 1 + r.Intn(len(segNames)-1)
	}
	kind := ""
	switch x := r.Intn(100); {
	case x < 40:
		in.path, kind = 0, "export"
		in.debug, in.host = false, ""
	case x < 65:
		in.path, kind = 1, "listen-rm"
	case x < 77:
		in.path, kind = 2, "start-with-portmapper"
		in.rm = r.Bool()
	case x < 87:
		in.path, in.rm, in.seg, kind = 1, false, segWhole, "listen-raw-control"
	default:
		kind = "refused"
		in.seg = segWhole
		switch r.Intn(3) {
		case 0:
			in.path, in.mount, in.debug, in.host = 0, "", false, ""
		case 1:
			in.path, in.port, in.debug, in.host = 0, -1, false, ""
		default:
			in.path, in.port = 1+r.Intn(2), -1
		}
	}
	return runC28(in, kind, idx)
}

func corpusC28() []Case {
	return []Case{
		// fixed 6784056: the quick-start path, both port kinds
		runC28(c28In{path: 0, port: 0, mount: "/", rm: true}, "export-port0", 0),
		runC28(c28In{path: 0, port: 1, mount: "/", rm: true, authSys: true}, "export-fixed-port", 1),
		runC28(c28In{path: 1, port: 0, rm: true, debug: true, mount: "/", host: "localhost"}, "listen-rm-debug", 2),
		runC28(c28In{path: 2, port: 0, rm: false, mount: "/", host: "localhost", authSys: true}, "start-with-portmapper", 3),
		runC28(c28In{path: 1, port: 0, rm: false, mount: "/", host: "localhost"}, "listen-raw-control", 4),
		// seeded C28-2 (record mark read with one Read): the mark of every call arrives in two TCP segments
		runC28(c28In{path: 0, port: 0, mount: "/", rm: true, seg: segMark2}, "export-mark-split-2", 5),
		runC28(c28In{path: 1, port: 0, rm: true, mount: "/", host: "localhost", seg: segMark1, authSys: true}, "listen-mark-split-1", 6),
		runC28(c28In{path: 2, port: 0, rm: true, mount: "/", host: "localhost", seg: segMark3}, "start-with-portmapper-mark-split-3", 7),
		runC28(c28In{path: 0, port: 0, mount: "/export", rm: true, seg: segPipelined, authSys: true}, "export-pipelined", 8),
		runC28(c28In{path: 1, port: 0, rm: true, debug: true, mount: "/", host: "127.0.0.1", seg: segBytewise}, "listen-byte-at-a-time", 9),
		runC28(c28In{path: 0, port: 1, mount: "/", rm: true, seg: segMultiFragCutMark}, "export-multi-fragment-cut-in-mark", 10),
	}
}
