package main

import (
	"fmt"
	"net"
	"strings"
	"time"

	. "verifharness/lib"

	"github.com/absfs/absnfs"
	"github.com/absfs/memfs"
)

// C28: every public start path x {port 0, fixed free port} x {debug on/off} x {AUTH_NONE, AUTH_SYS} against a
// conformant record-marking client (rpcclient.go): NULL, MOUNT3 MNT of the export path, NFS3 GETATTR of the handle.
// Listen with UseRecordMarking=false is included as a negative control (the model predicts raw framing: the
// record-marked client must NOT get a well-formed reply), and the refused calls (empty mount path, negative port).
func init() {
	Props["C28"] = &Prop{
		Imports:    "From Verif Require Import Gen.Facts Model.Framing Corr.C28.",
		Gen:        genC28,
		Corpus:     corpusC28,
		NonTrivial: func(c *Case) bool { return c.Tags["documented"] > 0 && c.Tags["replies_ok"] == 3 },
		ShardSize:  40,
	}
}

type c28In struct {
	path    int // 0 Export, 1 Listen, 2 StartWithPortmapper
	port    int // -1 invalid, 0 any, 1 fixed free port
	debug   bool
	rm      bool
	mount   string // Export's mountPath and the path sent in MNT ("" = refused Export)
	host    string
	authSys bool
}

func freePort() int {
	l, err := net.Listen("tcp", "127.0.0.1:0")
	if err != nil {
		return 20490
	}
	p := l.Addr().(*net.TCPAddr).Port
	l.Close()
	return p
}

type exchGo struct {
	xid   uint32
	raw   []byte
	ioerr bool
}

func (e exchGo) coq() string {
	return fmt.Sprintf("(mkExch %d %s %s)", e.xid, CBytes(e.raw), CBool(e.ioerr))
}

func runC28(in c28In, kind string, idx int) Case {
	tags := map[string]int{}
	fs, _ := memfs.NewFS()
	fs.Mkdir("/export", 0o755)
	nfs, err := absnfs.New(fs, absnfs.ExportOptions{})
	if err != nil {
		panic(err)
	}
	defer nfs.Close()
	port := 0
	switch in.port {
	case -1:
		port = -1
	case 1:
		port = freePort()
		tags["port_fixed"]++
	default:
		tags["port_0"]++
	}
	var startErr error
	var srv *absnfs.Server
	actual := 0
	unavailable := false
	var coqPath, pathTxt string
	t0 := time.Now()
	switch in.path {
	case 0:
		tags["path_export"]++
		coqPath = fmt.Sprintf("(ViaExport %s %s)", cstr(in.mount), CZ(int64(port)))
		pathTxt = fmt.Sprintf("Export(%q, %d)", in.mount, port)
		startErr = nfs.Export(in.mount, port)
		actual = nfs.VerifExportPort()
	default:
		name := "ViaListen"
		if in.path == 2 {
			name = "ViaStartWithPortmapper"
			tags["path_start_with_portmapper"]++
		} else {
			tags["path_listen"]++
		}
		coqPath = fmt.Sprintf("(%s %s %s %s)", name, CZ(int64(port)), CBool(in.debug), CBool(in.rm))
		pathTxt = fmt.Sprintf("NewServer{Port:%d Hostname:%q Debug:%v UseRecordMarking:%v}+%s", port, in.host, in.debug, in.rm,
			map[int]string{1: "Listen()", 2: "StartWithPortmapper()"}[in.path])
		srv, startErr = absnfs.NewServer(absnfs.ServerOptions{Name: "vh", Port: port, Hostname: in.host, Debug: in.debug, UseRecordMarking: in.rm})
		if startErr == nil {
			srv.SetHandler(nfs)
			if in.path == 1 {
				startErr = srv.Listen()
			} else {
				startErr = srv.StartWithPortmapper()
				if startErr != nil && strings.Contains(startErr.Error(), "failed to start portmapper") {
					// port 111 is taken (or not permitted): this environment cannot run the path
					unavailable = true
					tags["unavailable_port_111"]++
				}
			}
			if startErr == nil {
				actual = srv.GetPort()
			}
			defer srv.Stop()
		}
	}
	if in.debug {
		tags["debug_on"]++
	}
	null, mnt, ga := exchGo{ioerr: true}, exchGo{ioerr: true}, exchGo{ioerr: true}
	if startErr == nil {
		host := in.host
		if host == "" {
			host = "localhost"
		}
		cl, err := dialRPC(fmt.Sprintf("%s:%d", host, actual), 1500*time.Millisecond, in.authSys)
		if err == nil {
			defer cl.conn.Close()
			if in.authSys {
				tags["auth_sys"]++
			} else {
				tags["auth_none"]++
			}
			var e error
			null.xid, null.raw, e = cl.call(progNFS, 3, 0, nil)
			null.ioerr = e != nil
			if e == nil {
				mnt.xid, mnt.raw, e = cl.call(progMount, 3, 1, xdrOpaque([]byte(in.mount)))
				mnt.ioerr = e != nil
				if e == nil {
					if res, denied, perr := acceptedResult(mnt.raw, mnt.xid); perr == nil && !denied && len(res) >= 8 {
						n := int(res[4])<<24 | int(res[5])<<16 | int(res[6])<<8 | int(res[7])
						if n <= 64 && len(res) >= 8+n {
							ga.xid, ga.raw, e = cl.call(progNFS, 3, 1, fhArg(res[8:8+n]))
							ga.ioerr = e != nil
						}
					}
				}
			}
		}
	} else if !unavailable {
		tags["refused"]++
	}
	for _, e := range []exchGo{null, mnt, ga} {
		if !e.ioerr && len(e.raw) >= 28 {
			if _, denied, err := acceptedResult(e.raw, e.xid); err == nil && !denied {
				tags["replies_ok"]++
			}
		}
		tags["reply_bytes"] += len(e.raw)
	}
	documented := (in.path == 0 && in.mount != "" && port >= 0) || (in.path == 1 && in.rm && port >= 0) || (in.path == 2 && port >= 0)
	if documented && !unavailable {
		tags["documented"]++
	}
	if in.path == 1 && !in.rm && port >= 0 {
		tags["negative_control_raw"]++
	}
	tags["ms"] = int(time.Since(t0) / time.Millisecond)
	coq := fmt.Sprintf("(mkCase %s %s %s %s %s %s %s)", coqPath, cstr(in.mount), CBool(unavailable), CBool(startErr == nil),
		null.coq(), mnt.coq(), ga.coq())
	txt := fmt.Sprintf("%s auth_sys=%v -> started=%v (err=%v) port=%d unavailable=%v\n NULL xid=%#x ioerr=%v reply=%x\n MNT %q xid=%#x ioerr=%v reply=%x\n GETATTR xid=%#x ioerr=%v reply=%x",
		pathTxt, in.authSys, startErr == nil, startErr, actual, unavailable, null.xid, null.ioerr, null.raw, in.mount, mnt.xid, mnt.ioerr, mnt.raw,
		ga.xid, ga.ioerr, ga.raw)
	return Case{Index: idx, Kind: kind, Coq: coq, Tags: tags, Text: txt}
}

func genC28(r *Rand, idx int, tier string) Case {
	in := c28In{debug: r.Bool(), rm: true, mount: PickStr(r, "/", "/", "/export"), host: PickStr(r, "", "localhost", "127.0.0.1"),
		authSys: r.Bool(), port: r.Intn(2)}
	kind := ""
	switch x := r.Intn(100); {
	case x < 40:
		in.path, kind = 0, "export"
		in.debug, in.host = false, ""
	case x < 65:
		in.path, kind = 1, "listen-rm"
	case x < 77:
		in.path, kind = 2, "start-with-portmapper"
		in.rm = r.Bool()
	case x < 87:
		in.path, in.rm, kind = 1, false, "listen-raw-control"
	default:
		kind = "refused"
		switch r.Intn(3) {
		case 0:
			in.path, in.mount, in.debug, in.host = 0, "", false, ""
		case 1:
			in.path, in.port, in.debug, in.host = 0, -1, false, ""
		default:
			in.path, in.port = 1+r.Intn(2), -1
		}
	}
	return runC28(in, kind, idx)
}

func corpusC28() []Case {
	return []Case{
		// fixed 6784056: the quick-start path, both port kinds
		runC28(c28In{path: 0, port: 0, mount: "/", rm: true}, "export-port0", 0),
		runC28(c28In{path: 0, port: 1, mount: "/", rm: true, authSys: true}, "export-fixed-port", 1),
		runC28(c28In{path: 1, port: 0, rm: true, debug: true, mount: "/", host: "localhost"}, "listen-rm-debug", 2),
		runC28(c28In{path: 2, port: 0, rm: false, mount: "/", host: "localhost", authSys: true}, "start-with-portmapper", 3),
		runC28(c28In{path: 1, port: 0, rm: false, mount: "/", host: "localhost"}, "listen-raw-control", 4),
	}
}
