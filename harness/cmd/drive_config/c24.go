package main

import (
	"fmt"
	"math"
	"os"
	"runtime"
	"strings"
	"time"

	. "verifharness/lib"

	"github.com/absfs/absnfs"
	"github.com/absfs/memfs"
)

// C24: random update histories (UpdateExportOptions / UpdateTuningOptions / UpdatePolicyOptions with zero, negative,
// partial and nil inputs, valid and invalid Squash changes) on a real server built by absnfs.New over memfs and
// started with Export("/", 0).  After New and after every update the driver records GetExportOptions(), the
// parameters the components run with (VerifConfigInForce) and the outcome of LOOKUP / READ / WRITE over TCP.
func init() {
	Props["C24"] = &Prop{
		Imports: "From Verif Require Import Gen.Facts Model.Config Corr.C24.",
		Gen:     genC24,
		Corpus:  corpusC24,
		NonTrivial: func(c *Case) bool {
			return c.Tags["updates"] > 0 && c.Tags["unset_inputs"] > 0 && (c.Tags["rejected"] > 0 || c.Tags["probes"] > 0)
		},
		ShardSize: 40,
	}
}

var nfieldNames = []string{"TransferSize", "AttrCacheTimeout", "AttrCacheSize", "NegativeCacheTimeout", "DirCacheTimeout",
	"DirCacheMaxEntries", "DirCacheMaxDirSize", "MaxWorkers", "MaxConnections", "IdleTimeout", "SendBufferSize", "ReceiveBufferSize"}
var bfieldNames = []string{"CacheNegativeLookups", "EnableDirCache", "TCPKeepAlive", "TCPNoDelay", "Async"}
var tfieldNames = []string{"ReadTimeout", "WriteTimeout", "LookupTimeout", "ReaddirTimeout", "CreateTimeout", "RemoveTimeout",
	"RenameTimeout", "HandleTimeout", "DefaultTimeout"}

type tvalGo struct {
	num  [12]int64
	flag [5]bool
	log  int // 0 = nil, k = logConfigs[k]
	to   *[9]int64
}
type polGo struct {
	ro, sec bool
	ips     []string
	squash  string
	mfs     int64
	en      bool
	rlc     int // -1 = nil, k = rlcConfig(k)
	tls     int // -1 = nil, k = TLSConfig{CertFile: "tls-k"}
}

var logConfigs = map[int]absnfs.LogConfig{
	1: {Level: "error", Format: "text", Output: "stderr"},
	2: {Level: "error", Format: "json", Output: "stderr"},
	3: {Level: "error", Format: "text", Output: "stderr", LogClientIPs: true},
}

func rlcConfig(k int) absnfs.RateLimiterConfig {
	c := absnfs.DefaultRateLimiterConfig()
	switch k {
	case 1:
		c.GlobalRequestsPerSecond = 20000
	case 2:
		c.PerIPBurstSize = 900
	}
	return c
}
func rlcID(c absnfs.RateLimiterConfig) int {
	for k := 0; k <= 2; k++ {
		if c == rlcConfig(k) {
			return k
		}
	}
	return 99
}
func logID(l *absnfs.LogConfig) int {
	if l == nil {
		return 0
	}
	for k, c := range logConfigs {
		if c == *l {
			return k
		}
	}
	return 99
}

func (t tvalGo) timeoutConfig() *absnfs.TimeoutConfig {
	if t.to == nil {
		return nil
	}
	d := func(i int) time.Duration { return time.Duration(t.to[i]) }
	return &absnfs.TimeoutConfig{ReadTimeout: d(0), WriteTimeout: d(1), LookupTimeout: d(2), ReaddirTimeout: d(3),
		CreateTimeout: d(4), RemoveTimeout: d(5), RenameTimeout: d(6), HandleTimeout: d(7), DefaultTimeout: d(8)}
}
func timeoutsOf(c *absnfs.TimeoutConfig) *[9]int64 {
	if c == nil {
		return nil
	}
	return &[9]int64{int64(c.ReadTimeout), int64(c.WriteTimeout), int64(c.LookupTimeout), int64(c.ReaddirTimeout),
		int64(c.CreateTimeout), int64(c.RemoveTimeout), int64(c.RenameTimeout), int64(c.HandleTimeout), int64(c.DefaultTimeout)}
}
func logPtr(k int) *absnfs.LogConfig {
	if k == 0 {
		return nil
	}
	c := logConfigs[k]
	return &c
}

func toExport(t tvalGo, p polGo) absnfs.ExportOptions {
	o := absnfs.ExportOptions{
		ReadOnly: p.ro, Secure: p.sec, AllowedIPs: p.ips, Squash: p.squash, MaxFileSize: p.mfs, EnableRateLimiting: p.en,
		TransferSize: int(t.num[0]), AttrCacheTimeout: time.Duration(t.num[1]), AttrCacheSize: int(t.num[2]),
		NegativeCacheTimeout: time.Duration(t.num[3]), DirCacheTimeout: time.Duration(t.num[4]),
		DirCacheMaxEntries: int(t.num[5]), DirCacheMaxDirSize: int(t.num[6]), MaxWorkers: int(t.num[7]),
		MaxConnections: int(t.num[8]), IdleTimeout: time.Duration(t.num[9]), SendBufferSize: int(t.num[10]),
		ReceiveBufferSize:    int(t.num[11]),
		CacheNegativeLookups: t.flag[0], EnableDirCache: t.flag[1], TCPKeepAlive: t.flag[2], TCPNoDelay: t.flag[3], Async: t.flag[4],
		Log: logPtr(t.log), Timeouts: t.timeoutConfig(),
	}
	if p.rlc >= 0 {
		c := rlcConfig(p.rlc)
		o.RateLimitConfig = &c
	}
	if p.tls >= 0 {
		o.TLS = &absnfs.TLSConfig{Enabled: false, CertFile: fmt.Sprintf("tls-%d", p.tls)}
	}
	return o
}
func toPolicy(p polGo) absnfs.PolicyOptions {
	o := toExport(tvalGo{}, p)
	return absnfs.PolicyOptions{ReadOnly: o.ReadOnly, Secure: o.Secure, AllowedIPs: o.AllowedIPs, Squash: o.Squash,
		MaxFileSize: o.MaxFileSize, EnableRateLimiting: o.EnableRateLimiting, RateLimitConfig: o.RateLimitConfig, TLS: o.TLS}
}
func fromExport(o absnfs.ExportOptions) (tvalGo, polGo) {
	t := tvalGo{
		num: [12]int64{int64(o.TransferSize), int64(o.AttrCacheTimeout), int64(o.AttrCacheSize), int64(o.NegativeCacheTimeout),
			int64(o.DirCacheTimeout), int64(o.DirCacheMaxEntries), int64(o.DirCacheMaxDirSize), int64(o.MaxWorkers),
			int64(o.MaxConnections), int64(o.IdleTimeout), int64(o.SendBufferSize), int64(o.ReceiveBufferSize)},
		flag: [5]bool{o.CacheNegativeLookups, o.EnableDirCache, o.TCPKeepAlive, o.TCPNoDelay, o.Async},
		log:  logID(o.Log), to: timeoutsOf(o.Timeouts),
	}
	p := polGo{ro: o.ReadOnly, sec: o.Secure, ips: o.AllowedIPs, squash: o.Squash, mfs: o.MaxFileSize, en: o.EnableRateLimiting, rlc: -1, tls: -1}
	if o.RateLimitConfig != nil {
		p.rlc = rlcID(*o.RateLimitConfig)
	}
	if o.TLS != nil {
		p.tls = 99
		fmt.Sscanf(o.TLS.CertFile, "tls-%d", &p.tls)
	}
	return t, p
}

// ---- Coq rendering ----
func zs(xs []int64) string {
	s := make([]string, len(xs))
	for i, x := range xs {
		s[i] = fmt.Sprintf("%d", x)
	}
	return "[" + strings.Join(s, "; ") + "]%Z"
}
func optN(k int, none int) string {
	if k == none {
		return "None"
	}
	return fmt.Sprintf("(Some %d)", k)
}
func (t tvalGo) coq() string {
	fl := make([]string, 5)
	for i, b := range t.flag {
		fl[i] = CBool(b)
	}
	to := "None"
	if t.to != nil {
		to = "(Some " + zs(t.to[:]) + ")"
	}
	return fmt.Sprintf("(mkTval %s %s %s %s)", zs(t.num[:]), CList(fl), optN(t.log, 0), to)
}
func cstr(s string) string { return fmt.Sprintf("%q%%string", s) }
func (p polGo) coq() string {
	ips := make([]string, len(p.ips))
	for i, s := range p.ips {
		ips[i] = cstr(s)
	}
	return fmt.Sprintf("(mkPolicy %s %s %s %s %s %s %s %s)", CBool(p.ro), CBool(p.sec), CList(ips), cstr(p.squash), CZ(p.mfs),
		CBool(p.en), optN(p.rlc, -1), optN(p.tls, -1))
}
func (t tvalGo) text() string {
	var b strings.Builder
	for i, n := range nfieldNames {
		fmt.Fprintf(&b, "%s=%d ", n, t.num[i])
	}
	for i, n := range bfieldNames {
		if t.flag[i] {
			b.WriteString(n + " ")
		}
	}
	fmt.Fprintf(&b, "Log=%d Timeouts=", t.log)
	if t.to == nil {
		b.WriteString("nil")
	} else {
		fmt.Fprintf(&b, "%v", *t.to)
	}
	return b.String()
}
func (p polGo) text() string {
	return fmt.Sprintf("ReadOnly=%v Secure=%v AllowedIPs=%v Squash=%q MaxFileSize=%d RateLimiting=%v rlc=%d tls=%d",
		p.ro, p.sec, p.ips, p.squash, p.mfs, p.en, p.rlc, p.tls)
}

// ---- updates ----
type tsetGo struct {
	kind int // 0 num, 1 flag, 2 log, 3 timeouts, 4 one timeout
	idx  int
	z    int64
	b    bool
	to   *[9]int64
}

func (a tsetGo) coq() string {
	switch a.kind {
	case 0:
		return fmt.Sprintf("SetNum %s %s", nfieldNames[a.idx], CZ(a.z))
	case 1:
		return fmt.Sprintf("SetFlag %s %s", bfieldNames[a.idx], CBool(a.b))
	case 2:
		return "SetLog " + optN(a.idx, 0)
	case 3:
		if a.to == nil {
			return "SetTimeouts None"
		}
		return "SetTimeouts (Some " + zs(a.to[:]) + ")"
	default:
		return fmt.Sprintf("SetTimeout %s %s", tfieldNames[a.idx], CZ(a.z))
	}
}
func applySets(t *absnfs.TuningOptions, sets []tsetGo) {
	for _, a := range sets {
		switch a.kind {
		case 0:
			switch a.idx {
			case 0:
				t.TransferSize = int(a.z)
			case 1:
				t.AttrCacheTimeout = time.Duration(a.z)
			case 2:
				t.AttrCacheSize = int(a.z)
			case 3:
				t.NegativeCacheTimeout = time.Duration(a.z)
			case 4:
				t.DirCacheTimeout = time.Duration(a.z)
			case 5:
				t.DirCacheMaxEntries = int(a.z)
			case 6:
				t.DirCacheMaxDirSize = int(a.z)
			case 7:
				t.MaxWorkers = int(a.z)
			case 8:
				t.MaxConnections = int(a.z)
			case 9:
				t.IdleTimeout = time.Duration(a.z)
			case 10:
				t.SendBufferSize = int(a.z)
			case 11:
				t.ReceiveBufferSize = int(a.z)
			}
		case 1:
			switch a.idx {
			case 0:
				t.CacheNegativeLookups = a.b
			case 1:
				t.EnableDirCache = a.b
			case 2:
				t.TCPKeepAlive = a.b
			case 3:
				t.TCPNoDelay = a.b
			case 4:
				t.Async = a.b
			}
		case 2:
			t.Log = logPtr(a.idx)
		case 3:
			t.Timeouts = tvalGo{to: a.to}.timeoutConfig()
		case 4:
			d := time.Duration(a.z)
			switch a.idx {
			case 0:
				t.Timeouts.ReadTimeout = d
			case 1:
				t.Timeouts.WriteTimeout = d
			case 2:
				t.Timeouts.LookupTimeout = d
			case 3:
				t.Timeouts.ReaddirTimeout = d
			case 4:
				t.Timeouts.CreateTimeout = d
			case 5:
				t.Timeouts.RemoveTimeout = d
			case 6:
				t.Timeouts.RenameTimeout = d
			case 7:
				t.Timeouts.HandleTimeout = d
			case 8:
				t.Timeouts.DefaultTimeout = d
			}
		}
	}
}

type updGo struct {
	kind int // 0 export, 1 tuning, 2 policy
	t    tvalGo
	p    polGo
	sets []tsetGo
}

func (u updGo) coq() string {
	switch u.kind {
	case 0:
		return fmt.Sprintf("CExport %s %s", u.t.coq(), u.p.coq())
	case 1:
		s := make([]string, len(u.sets))
		for i, a := range u.sets {
			s[i] = a.coq()
		}
		return "CTuning " + CList(s)
	default:
		return "CPolicy " + u.p.coq()
	}
}
func (u updGo) text() string {
	switch u.kind {
	case 0:
		return "UpdateExportOptions{" + u.t.text() + " | " + u.p.text() + "}"
	case 1:
		s := make([]string, len(u.sets))
		for i, a := range u.sets {
			s[i] = a.coq()
		}
		return "UpdateTuningOptions{" + strings.Join(s, "; ") + "}"
	default:
		return "UpdatePolicyOptions{" + u.p.text() + "}"
	}
}

// ---- observation ----
type c24Session struct {
	srv    *absnfs.AbsfsNFS
	cl     *rpcClient
	addr   string
	rootFH []byte
	fileFH []byte
}

func (s *c24Session) redial() {
	if s.cl != nil {
		s.cl.conn.Close()
	}
	s.cl, _ = dialRPC(s.addr, 2*time.Second, true)
}

// probe: LOOKUP f.txt in the root, READ 5 bytes, WRITE 1 byte (FILE_SYNC; fits every TransferSize >= 1)
func (s *c24Session) probe() []uint64 {
	if s.cl == nil {
		s.redial()
		if s.cl == nil {
			return []uint64{999, 999, 999}
		}
	}
	var out []uint64
	lk, _ := s.cl.nfsStatus(3, append(fhArg(s.rootFH), xdrOpaque([]byte("f.txt"))...))
	rd, _ := s.cl.nfsStatus(6, append(fhArg(s.fileFH), append(be64(0), be32(5)...)...))
	wargs := append(fhArg(s.fileFH), be64(0)...)
	wargs = append(wargs, be32(1)...)
	wargs = append(wargs, be32(2)...)
	wargs = append(wargs, xdrOpaque([]byte("H"))...)
	wr, _ := s.cl.nfsStatus(7, wargs)
	out = append(out, lk, rd, wr)
	for _, x := range out {
		if x == 999 {
			s.redial()
			break
		}
	}
	return out
}

func (s *c24Session) observe(ok bool, withProbe bool) (string, string, tvalGo, polGo, []uint64) {
	t, p := fromExport(s.srv.GetExportOptions())
	f := s.srv.VerifConfigInForce()
	dir := "None"
	if f.DirCachePresent {
		dir = fmt.Sprintf("(Some (%s, %s, %s))", CZ(int64(f.DirCacheTTL)), CZ(int64(f.DirCacheMaxEntries)), CZ(int64(f.DirCacheMaxDirSize)))
	}
	lim := "None"
	if f.LimiterPresent {
		lim = fmt.Sprintf("(Some %d)", rlcID(f.LimiterConfig))
	}
	comp := fmt.Sprintf("(mkComp %s %s %s %s %s %s %s)", CZ(int64(f.AttrCacheSize)), CZ(int64(f.AttrCacheTTL)), CBool(f.NegativeEnabled),
		CZ(int64(f.NegativeTTL)), dir, CZ(int64(f.PoolWorkers)), lim)
	var pr []uint64
	if withProbe {
		if t.to == nil || t.to[8] <= 0 || t.to[0] <= 0 || t.to[1] <= 0 || t.to[2] <= 0 || t.num[0] <= 0 || t.num[7] <= 0 {
			// the report itself already violates the property (nil / non-positive timeouts, transfer size or worker
			// count); a request would dereference the nil Timeouts inside a server goroutine and take the driver
			// down with it, so the probe is recorded as "no reply" instead of being sent
			pr = []uint64{999, 999, 999}
		} else {
			pr = s.probe()
		}
	}
	coq := fmt.Sprintf("(mkObs %s %s %s %s %s)", CBool(ok), t.coq(), p.coq(), comp, CNs(pr))
	txt := fmt.Sprintf("ok=%v report{%s | %s} inforce{attr=%d/%d neg=%v/%d dir=%v(%d,%d,%d) pool=%d limiter=%s} probe(LOOKUP,READ,WRITE)=%v",
		ok, t.text(), p.text(), f.AttrCacheSize, f.AttrCacheTTL, f.NegativeEnabled, f.NegativeTTL, f.DirCachePresent, f.DirCacheTTL,
		f.DirCacheMaxEntries, f.DirCacheMaxDirSize, f.PoolWorkers, lim, pr)
	return coq, txt, t, p, pr
}

func loopbackAllowed(ips []string) bool {
	if len(ips) == 0 {
		return true
	}
	for _, s := range ips {
		if s == "127.0.0.1" || s == "127.0.0.0/8" {
			return true
		}
	}
	return false
}

func runC24(newT tvalGo, newP polGo, ups []updGo, kind string, idx int) Case {
	tags := map[string]int{"updates": len(ups)}
	fail := func(msg string) Case {
		fmt.Fprintf(realStderr, "C24 case %d: %s\n", idx, msg)
		os.Exit(3)
		return Case{}
	}
	fs, err := memfs.NewFS()
	if err != nil {
		return fail(err.Error())
	}
	if f, err := fs.OpenFile("/f.txt", os.O_CREATE|os.O_RDWR, 0o666); err == nil {
		f.Write([]byte("hello world"))
		f.Close()
	}
	fs.Chmod("/f.txt", 0o666)
	srv, err := absnfs.New(fs, toExport(newT, newP))
	if err != nil {
		return fail("New: " + err.Error())
	}
	defer srv.Close()
	if err := srv.Export("/", 0); err != nil {
		return fail("Export: " + err.Error())
	}
	s := &c24Session{srv: srv, addr: fmt.Sprintf("localhost:%d", srv.VerifExportPort())}
	s.redial()
	if s.cl == nil {
		return fail("dial failed")
	}
	defer func() {
		if s.cl != nil {
			s.cl.conn.Close()
		}
	}()
	if s.rootFH, err = s.cl.mnt("/"); err != nil {
		return fail("MNT: " + err.Error())
	}
	st, res := s.cl.nfsStatus(3, append(fhArg(s.rootFH), xdrOpaque([]byte("f.txt"))...))
	if st != 0 || len(res) < 12 {
		return fail(fmt.Sprintf("initial LOOKUP status %d", st))
	}
	s.fileFH = res[4:12]
	countInputs := func(t tvalGo) {
		for _, x := range t.num {
			if x == 0 {
				tags["zero_fields"]++
				tags["unset_inputs"]++
			} else if x < 0 {
				tags["negative_fields"]++
				tags["unset_inputs"]++
			}
		}
		if t.to == nil {
			tags["nil_timeouts"]++
			tags["unset_inputs"]++
		} else {
			for _, x := range t.to {
				if x <= 0 {
					tags["partial_timeout_fields"]++
					tags["unset_inputs"]++
				}
			}
		}
		if t.log == 0 {
			tags["nil_log"]++
		}
	}
	countInputs(newT)
	var txt []string
	obs0, t0, prevT, prevP, pr := s.observe(true, true)
	txt = append(txt, "New{"+newT.text()+" | "+newP.text()+"} -> "+t0)
	notePr := func(pr []uint64) {
		if len(pr) == 3 {
			tags["probes"]++
			if pr[0] == 1001 {
				tags["probe_denied"]++
			}
			if pr[2] == 30 {
				tags["probe_rofs"]++
			}
		}
	}
	notePr(pr)
	var steps []string
	for i, u := range ups {
		var uerr error
		switch u.kind {
		case 0:
			tags["upd_export"]++
			countInputs(u.t)
			if u.p.rlc < 0 {
				tags["nil_rlc"]++
			}
			if u.p.squash != "" && u.p.squash != prevP.squash {
				tags["squash_change"]++
			}
			uerr = srv.UpdateExportOptions(toExport(u.t, u.p))
		case 1:
			tags["upd_tuning"]++
			for _, a := range u.sets {
				if (a.kind == 0 || a.kind == 4) && a.z <= 0 {
					tags["unset_inputs"]++
					if a.z == 0 {
						tags["zero_fields"]++
					} else {
						tags["negative_fields"]++
					}
				}
				if a.kind == 3 && a.to == nil {
					tags["nil_timeouts"]++
					tags["unset_inputs"]++
				}
			}
			sets := u.sets
			srv.UpdateTuningOptions(func(t *absnfs.TuningOptions) { applySets(t, sets) })
		case 2:
			tags["upd_policy"]++
			if u.p.rlc < 0 {
				tags["nil_rlc"]++
			}
			if u.p.squash != prevP.squash {
				tags["squash_change"]++
			}
			uerr = srv.UpdatePolicyOptions(toPolicy(u.p))
		}
		if uerr != nil {
			tags["rejected"]++
		}
		oc, ot, curT, curP, pr := s.observe(uerr == nil, true)
		notePr(pr)
		// known-finding signatures, measured on the observation only
		if u.kind == 0 && uerr == nil {
			if u.t.to == nil && curT.to != nil && prevT.to != nil && *curT.to == *prevT.to && !defaultTimeouts(*curT.to) {
				tags["known_k1_nil_timeouts_kept"]++
			}
			if u.t.log == 0 && curT.log != 0 {
				tags["known_k1_nil_log_kept"]++
			}
		}
		f := srv.VerifConfigInForce()
		if f.DirCachePresent != curT.flag[1] || (f.DirCachePresent && int64(f.DirCacheMaxDirSize) != curT.num[6]) {
			tags["known_k2_dircache"]++
		}
		prevT, prevP = curT, curP
		steps = append(steps, CPair(u.coq(), oc))
		txt = append(txt, fmt.Sprintf("step %d: %s -> %s", i+1, u.text(), ot))
	}
	coq := fmt.Sprintf("(mkCase %s %s %s %s %s)", CZ(int64(runtime.NumCPU())), newT.coq(), newP.coq(), obs0, CList(steps))
	return Case{Index: idx, Kind: kind, Coq: coq, Tags: tags, Text: strings.Join(txt, "\n")}
}

func defaultTimeouts(t [9]int64) bool {
	s := int64(time.Second)
	return t == [9]int64{30 * s, 60 * s, 10 * s, 30 * s, 15 * s, 15 * s, 20 * s, 5 * s, 30 * s}
}

// ---- generators ----
var sec = int64(time.Second)
var posValues = [12][]int64{
	{1, 512, 4096, 65536, 1 << 20},  // TransferSize
	{sec, 7 * sec, 3600 * sec},      // AttrCacheTimeout
	{1, 50, 10000, 1000000},         // AttrCacheSize
	{sec, 7 * sec, 3600 * sec},      // NegativeCacheTimeout
	{sec, 7 * sec, 3600 * sec},      // DirCacheTimeout
	{1, 10, 1000},                   // DirCacheMaxEntries
	{1, 100, 10000},                 // DirCacheMaxDirSize
	{1, 2, 8, 16},                   // MaxWorkers
	{2, 5, 100},                     // MaxConnections
	{2 * sec, 60 * sec, 3600 * sec}, // IdleTimeout
	{4096, 65536, 262144},           // SendBufferSize
	{4096, 65536, 262144},           // ReceiveBufferSize
}

func isDuration(i int) bool { return i == 1 || i == 3 || i == 4 || i == 9 }

func genValue(r *Rand, i int, pctZero, pctNeg int) int64 {
	x := r.Intn(100)
	switch {
	case x < pctZero:
		return 0
	case x < pctZero+pctNeg:
		if isDuration(i) {
			return []int64{-1, -5 * sec, math.MinInt64}[r.Intn(3)]
		}
		return []int64{-1, -65536, math.MinInt32}[r.Intn(3)]
	default:
		return posValues[i][r.Intn(len(posValues[i]))]
	}
}
func genTimeouts(r *Rand, pctNil int) *[9]int64 {
	if r.Chance(pctNil) {
		return nil
	}
	var t [9]int64
	for i := range t {
		switch x := r.Intn(100); {
		case x < 45:
			t[i] = 0
		case x < 55:
			t[i] = []int64{-1, -3 * sec, math.MinInt64}[r.Intn(3)]
		default:
			t[i] = []int64{sec, 5 * sec, 120 * sec}[r.Intn(3)]
		}
	}
	return &t
}
func genTval(r *Rand, pctZero int) tvalGo {
	var t tvalGo
	for i := range t.num {
		t.num[i] = genValue(r, i, pctZero, 10)
	}
	for i := range t.flag {
		t.flag[i] = r.Chance(40)
	}
	if r.Chance(30) {
		t.log = 1 + r.Intn(3)
	}
	t.to = genTimeouts(r, 40)
	return t
}
func genPol(r *Rand, squash string, atNew bool) polGo {
	p := polGo{ro: r.Chance(30), squash: squash, en: r.Chance(35), rlc: -1, tls: -1}
	p.mfs = []int64{0, 0, 1 << 30, -1}[r.Intn(4)]
	if r.Chance(50) {
		p.rlc = r.Intn(3)
	}
	if r.Chance(20) {
		p.tls = 1 + r.Intn(2)
	}
	switch x := r.Intn(10); {
	case x < 5:
	case x < 7:
		p.ips = []string{"127.0.0.1"}
	case x < 8:
		p.ips = []string{"10.1.2.3", "127.0.0.0/8"}
	default:
		if atNew {
			p.ips = []string{"127.0.0.1", "192.168.0.0/16"}
		} else {
			p.ips = []string{"10.0.0.0/8"} // the loopback client is refused from now on
		}
	}
	if !atNew {
		p.sec = r.Chance(8)
	}
	return p
}

func genC24(r *Rand, idx int, tier string) Case {
	kind := "mixed"
	pctZero := 45
	switch r.Intn(5) {
	case 0:
		kind = "mostly-zero"
		pctZero = 85
	case 1:
		kind = "mostly-set"
		pctZero = 10
	}
	squash := PickStr(r, "", "", "root", "all", "none", "ROOT")
	newT := genTval(r, pctZero)
	newP := genPol(r, squash, true)
	n := 2 + r.Intn(6)
	var ups []updGo
	cur := squash
	timeoutsNonNil := true
	for i := 0; i < n; i++ {
		switch x := r.Intn(100); {
		case x < 45:
			sq := cur
			switch y := r.Intn(100); {
			case y < 40:
				sq = ""
			case y < 75:
			case y < 90:
				sq = PickStr(r, "root", "all", "none")
			default:
				sq = PickStr(r, "bogus", "Root", " all")
			}
			ups = append(ups, updGo{kind: 0, t: genTval(r, pctZero), p: genPol(r, sq, false)})
		case x < 80:
			var sets []tsetGo
			m := 1 + r.Intn(5)
			nonNil := timeoutsNonNil
			for j := 0; j < m; j++ {
				switch y := r.Intn(100); {
				case y < 50:
					f := r.Intn(12)
					sets = append(sets, tsetGo{kind: 0, idx: f, z: genValue(r, f, 45, 15)})
				case y < 65:
					sets = append(sets, tsetGo{kind: 1, idx: r.Intn(5), b: r.Bool()})
				case y < 72:
					sets = append(sets, tsetGo{kind: 2, idx: r.Intn(4)})
				case y < 85:
					to := genTimeouts(r, 50)
					nonNil = to != nil
					sets = append(sets, tsetGo{kind: 3, to: to})
				default:
					if nonNil {
						sets = append(sets, tsetGo{kind: 4, idx: r.Intn(9), z: []int64{0, -1, 2 * sec, 90 * sec}[r.Intn(4)]})
					}
				}
			}
			if len(sets) == 0 {
				sets = append(sets, tsetGo{kind: 0, idx: 0, z: 0})
			}
			ups = append(ups, updGo{kind: 1, sets: sets})
		default:
			sq := cur
			switch y := r.Intn(100); {
			case y < 65:
			case y < 80:
				sq = ""
			default:
				sq = PickStr(r, "root", "all", "none", "bogus")
			}
			ups = append(ups, updGo{kind: 2, p: genPol(r, sq, false)})
		}
	}
	return runC24(newT, newP, ups, kind, idx)
}

func corpusC24() []Case {
	var zero tvalGo
	pol := func(sq string) polGo { return polGo{squash: sq, rlc: -1, tls: -1} }
	oneSecRead := tvalGo{to: &[9]int64{sec}}
	partial := &[9]int64{5 * sec}
	huge := zero
	huge.num[0] = 1 << 32
	huge.num[1] = math.MinInt64
	huge5 := zero
	huge5.num[0] = 1<<32 + 5
	withLog := zero
	withLog.log = 2
	return []Case{
		// known finding k=1: nil Timeouts handed to UpdateExportOptions keeps ReadTimeout 1s (New's default: 30s)
		runC24(oneSecRead, pol(""), []updGo{{kind: 0, t: zero, p: pol("")}}, "k1-nil-timeouts-kept", 0),
		// known finding k=1 (Log): nil Log keeps the logger configuration
		runC24(withLog, pol(""), []updGo{{kind: 0, t: zero, p: pol("")}}, "k1-nil-log-kept", 1),
		// known finding k=2: EnableDirCache / DirCacheMaxDirSize changed at runtime are reported but not applied
		runC24(zero, pol(""), []updGo{{kind: 1, sets: []tsetGo{{kind: 1, idx: 1, b: true}, {kind: 0, idx: 6, z: 7}}}}, "k2-dircache-not-applied", 2),
		// fixed 00550ef: a rejected Squash change must not have applied the tuning half
		runC24(zero, pol("root"), []updGo{{kind: 0, t: func() tvalGo { t := zero; t.num[0] = 4096; t.num[7] = 2; return t }(), p: pol("all")},
			{kind: 2, p: pol("")}}, "rejected-squash-change", 3),
		// fixed 449f5f9: zero TransferSize and a partial Timeouts at runtime
		runC24(zero, pol(""), []updGo{{kind: 1, sets: []tsetGo{{kind: 0, idx: 0, z: 0}, {kind: 3, to: partial}}},
			{kind: 0, t: tvalGo{to: partial}, p: pol("")}}, "zero-and-partial-timeouts", 4),
		// fixed 278491a: EnableRateLimiting with a nil RateLimitConfig at runtime
		runC24(zero, pol(""), []updGo{{kind: 2, p: polGo{en: true, rlc: -1, tls: -1}},
			{kind: 0, t: zero, p: polGo{en: true, rlc: -1, tls: -1}}}, "nil-ratelimit-config", 5),
		// boundaries: TransferSize 2^32 and 2^32+5 (uint32 truncation in WRITE / FSINFO), MinInt64 duration
		runC24(huge, pol(""), []updGo{{kind: 0, t: huge5, p: pol("")}, {kind: 1, sets: []tsetGo{{kind: 0, idx: 0, z: 1 << 32}}}}, "transfer-size-2^32", 6),
	}
}
