// drive_handles: cases for the file-handle table (C05, C06).
package main

import "verifharness/lib"

func main() { lib.Main() }
