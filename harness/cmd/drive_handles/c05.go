package main

import (
	"fmt"
	"strings"

	. "verifharness/lib"

	"github.com/absfs/absnfs"
)

// C05 / C06 (table level): allocation histories on the real FileHandleMap.
func init() {
	Props["C05"] = &Prop{
		Imports:    "From Verif Require Import Model.Handles Corr.C05.",
		Gen:        genC05,
		Corpus:     corpusC05,
		NonTrivial: func(c *Case) bool { return c.Tags["evictions"] > 0 || c.Tags["reuse"] > 0 },
	}
}

type hop struct {
	kind int // 0 alloc, 1 release, 2 release all
	arg  uint64
}

// C06t: the same histories with frequent ReleaseAll (Unexport / Close + re-export)
func init() {
	Props["C06t"] = &Prop{
		Imports: "From Verif Require Import Model.Handles Corr.C05 Corr.C06t.",
		Gen: func(r *Rand, idx int, tier string) Case {
			c := genC05x(r, idx, 12)
			c.Kind = "release-all-heavy"
			return c
		},
		NonTrivial: func(c *Case) bool { return c.Tags["release-all"] > 0 },
	}
}

func runC05(max int, ops []hop, kind string, idx int) Case {
	fm := absnfs.VerifNewHandleMap(max)
	var coqOps, coqObs, txt []string
	tags := map[string]int{"ops": len(ops)}
	prevCount := 0
	seen := map[uint64]bool{}
	for _, o := range ops {
		var ret uint64
		switch o.kind {
		case 0:
			ret = fm.Allocate(absnfs.VerifNewNode(fmt.Sprintf("/p%d", o.arg)))
			coqOps = append(coqOps, fmt.Sprintf("Alloc %d", o.arg))
			if seen[ret] {
				tags["reuse"]++
			}
			seen[ret] = true
		case 1:
			fm.Release(o.arg)
			coqOps = append(coqOps, fmt.Sprintf("Release %d", o.arg))
		case 2:
			fm.ReleaseAll()
			coqOps = append(coqOps, "ReleaseAll")
			tags["release-all"]++
		}
		tab := fm.VerifTable()
		if o.kind == 0 && len(tab) < prevCount+1 && len(tab) <= prevCount {
			// an allocation that did not grow the table although the path was new => eviction
		}
		rows := make([]string, len(tab))
		for i, e := range tab {
			var p uint64
			fmt.Sscanf(e.Path, "/p%d", &p)
			rows[i] = CPair(CN(e.Handle), CN(p))
		}
		if o.kind == 0 && len(tab) < prevCount {
			tags["evictions"]++
		}
		if o.kind == 0 && len(tab) == prevCount && prevCount >= effMax(max) {
			tags["evictions"]++
		}
		prevCount = len(tab)
		coqObs = append(coqObs, CPair(CN(ret), CList(rows)))
		txt = append(txt, fmt.Sprintf("%s->%d|n=%d", coqOps[len(coqOps)-1], ret, len(tab)))
	}
	coq := fmt.Sprintf("{| c_max := %s; c_ops := %s; c_obs := %s |}", CZ(int64(max)), CList(coqOps), CList(coqObs))
	return Case{Index: idx, Kind: kind, Coq: coq, Tags: tags,
		Text: fmt.Sprintf("max=%d %s", max, strings.Join(txt, " "))}
}

func effMax(max int) int {
	if max <= 0 {
		return 100000
	}
	return max
}

func genC05(r *Rand, idx int, tier string) Case { return genC05x(r, idx, 2) }

func genC05x(r *Rand, idx int, relAllPct int) Case {
	max := PickInt(r, 1, 1, 2, 2, 3, 5, 10, 11, 25, 0, -3)
	npaths := 1 + r.Intn(40)
	lenMul := 1 + r.Intn(6)
	n := 5 + r.Intn(10*lenMul)
	if max > 0 && max <= 25 {
		n = max*lenMul + r.Intn(4*max+6)
	}
	if n > 160 {
		n = 160
	}
	kind := "mixed"
	relPct := 15
	switch r.Intn(4) {
	case 0:
		kind = "alloc-only"
		relPct = 0
	case 1:
		kind = "release-heavy"
		relPct = 40
	}
	var ops []hop
	var issued []uint64
	// run a shadow table only to pick plausible release arguments (handles that were issued)
	fm := absnfs.VerifNewHandleMap(max)
	for i := 0; i < n; i++ {
		x := r.Intn(100)
		switch {
		case x < relPct && len(issued) > 0:
			h := issued[r.Intn(len(issued))]
			if r.Chance(10) {
				h = uint64(r.Intn(60))
			}
			ops = append(ops, hop{1, h})
			fm.Release(h)
		case x < relPct+relAllPct:
			ops = append(ops, hop{2, 0})
			fm.ReleaseAll()
		default:
			p := uint64(r.Intn(npaths))
			ops = append(ops, hop{0, p})
			issued = append(issued, fm.Allocate(absnfs.VerifNewNode(fmt.Sprintf("/p%d", p))))
		}
	}
	return runC05(max, ops, kind, idx)
}

func corpusC05() []Case {
	// minimal history on which the unrepaired table returned a dead handle (max=1: third allocation)
	return []Case{
		runC05(1, []hop{{0, 0}, {0, 1}, {0, 2}, {0, 3}}, "evict-fresh-max1", 0),
		runC05(2, []hop{{0, 0}, {0, 1}, {0, 2}, {1, 2}, {0, 3}, {0, 4}, {0, 1}}, "reuse-then-evict", 1),
		runC05(10, func() []hop {
			var o []hop
			for i := 0; i < 40; i++ {
				o = append(o, hop{0, uint64(i)})
			}
			return o
		}(), "ten-percent-eviction", 2),
	}
}
