package main

import (
	"fmt"
	"runtime"
	"sync"
	"sync/atomic"

	. "verifharness/lib"

	"github.com/absfs/absnfs"
)

// C05c: CONCURRENT allocation on the real FileHandleMap.  In every round several goroutines, released together
// by a spin barrier, ask for a handle for the same not-yet-known path (plus, in some rounds, a second fresh path
// and some already known ones).  "Every reissue for the same path returns the same handle value" must hold for
// handles issued at the same time too.  Sampled (the interleaving is the Go scheduler's), judged in Coq on the
// observations alone: all handles returned for one path in a round are equal, the table after each round is a
// bijection within the limit in which every path of the round that is still live maps to that handle.
func init() {
	Props["C05c"] = &Prop{
		Imports:    "From Verif Require Import Corr.C05c.",
		Gen:        genC05c,
		NonTrivial: func(c *Case) bool { return c.Tags["rounds"] > 0 },
		ShardSize:  25,
	}
}

func genC05c(r *Rand, idx int, tier string) Case {
	max := PickInt(r, 0, 0, 0, 200, 64, 16) // mostly no eviction: at the limit the oracle has no opinion
	workers := PickInt(r, 2, 4, 8, 16)
	rounds := 30 + r.Intn(40)
	fm := absnfs.VerifNewHandleMap(max)
	tags := map[string]int{"rounds": rounds, fmt.Sprintf("workers:%d", workers): 1}
	var coqRounds, txt []string
	next := uint64(1)
	var known []uint64
	for k := 0; k < rounds; k++ {
		// the paths asked for in this round: one fresh path by everybody; sometimes a second fresh path by half of
		// the goroutines and a known path by some
		fresh := next
		next++
		paths := make([]uint64, workers)
		for w := range paths {
			paths[w] = fresh
		}
		if r.Chance(30) {
			second := next
			next++
			for w := 0; w < workers/2; w++ {
				paths[w] = second
			}
		}
		if len(known) > 0 && r.Chance(30) {
			paths[workers-1] = known[r.Intn(len(known))]
		}
		known = append(known, fresh)
		got := make([]uint64, workers)
		var ready, goFlag int32
		var wg sync.WaitGroup
		for w := 0; w < workers; w++ {
			wg.Add(1)
			go func(w int) {
				defer wg.Done()
				node := absnfs.VerifNewNode(fmt.Sprintf("/p%d", paths[w]))
				atomic.AddInt32(&ready, 1)
				for atomic.LoadInt32(&goFlag) == 0 {
					runtime.Gosched()
				}
				got[w] = fm.Allocate(node)
			}(w)
		}
		for atomic.LoadInt32(&ready) < int32(workers) {
			runtime.Gosched()
		}
		atomic.StoreInt32(&goFlag, 1)
		wg.Wait()
		tab := fm.VerifTable()
		rows := make([]string, len(tab))
		for i, e := range tab {
			var p uint64
			fmt.Sscanf(e.Path, "/p%d", &p)
			rows[i] = CPair(CN(e.Handle), CN(p))
		}
		asks := make([]string, workers)
		for w := range asks {
			asks[w] = CPair(CN(paths[w]), CN(got[w]))
		}
		coqRounds = append(coqRounds, "("+CList(asks)+", "+CList(rows)+")")
		if k < 6 {
			txt = append(txt, fmt.Sprintf("round %d: asked %v got %v table %d entries", k, paths, got, len(tab)))
		}
		distinct := map[uint64]bool{}
		for w := range got {
			if paths[w] == fresh {
				distinct[got[w]] = true
			}
		}
		if len(distinct) > 1 {
			tags["rounds-with-two-handles-for-one-path"]++
			txt = append(txt, fmt.Sprintf("round %d: path %d got handles %v", k, fresh, got))
		}
	}
	coq := fmt.Sprintf("{| c_max := %s; c_rounds := %s |}", CZ(int64(max)), CList(coqRounds))
	return Case{Index: idx, Kind: "concurrent-alloc", Coq: coq, Tags: tags,
		Text: fmt.Sprintf("max=%d workers=%d rounds=%d\n%s", max, workers, rounds, joinLines(txt))}
}

func joinLines(l []string) string {
	s := ""
	for i, x := range l {
		if i > 0 {
			s += "\n"
		}
		s += x
	}
	return s
}
