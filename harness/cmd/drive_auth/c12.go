package main

import (
	"fmt"
	"os"
	"strings"

	. "verifharness/lib"

	"github.com/absfs/absnfs"
)

// C12: ACCESS decisions on the real handler (HandleCall -> ValidateAuthentication -> handleAccess),
// many points per case.
func init() {
	Props["C12"] = &Prop{
		Imports:    "From Coq Require Import Uint63.\nFrom Verif Require Import Model.Access Corr.C12.",
		Gen:        genC12,
		Corpus:     corpusC12,
		NonTrivial: func(c *Case) bool { return c.Tags["granted_partial"] > 0 && c.Tags["granted_all"] > 0 },
		ShardSize:  20,
	}
}

const c12PointsPerCase = 256

// number of class points: 5 branches x 512 modes x dir x ro x 64 masks
const c12ClassPoints = 5 * 512 * 2 * 2 * 64

type c12Point struct {
	mode       uint32
	fuid, fgid uint32
	euid, egid uint32
	aux        []uint32 // nil with authNone
	authNone   bool     // AUTH_NONE: no AuthSys, effective ids 65534/65534
	access     uint32
	ro         bool
}

var c12rigs [2]*rig

func c12rig(ro bool) *rig {
	i := 0
	if ro {
		i = 1
	}
	if c12rigs[i] == nil {
		c12rigs[i] = newRig(absnfs.ExportOptions{ReadOnly: ro, Squash: "none"})
	}
	return c12rigs[i]
}

func (p *c12Point) run() (uint32, error) {
	r := c12rig(p.ro)
	r.fs.mode = os.FileMode(p.mode)
	if !r.nfs.VerifAuthSetOwner(r.fh, p.fuid, p.fgid) {
		return 0, fmt.Errorf("handle lost")
	}
	cred := absnfs.RPCCredential{Flavor: absnfs.AUTH_SYS, Body: authSysBody(7, "host", p.euid, p.egid, p.aux)}
	if p.authNone {
		cred = absnfs.RPCCredential{Flavor: absnfs.AUTH_NONE}
	}
	res := r.call(absnfs.NFS_PROGRAM, absnfs.NFS_V3, absnfs.NFSPROC3_ACCESS, cred, accessArgs(r.fh, p.access), "127.0.0.1", 700)
	if res.nilRep || res.reply.Status != absnfs.MSG_ACCEPTED || res.reply.AcceptStatus != absnfs.SUCCESS {
		return 0, fmt.Errorf("call not accepted")
	}
	// the handler must have seen the ids we meant it to see (squash none / AUTH_NONE -> nobody)
	if res.ctx.EffectiveUID != p.euid || res.ctx.EffectiveGID != p.egid {
		return 0, fmt.Errorf("effective ids %d/%d, wanted %d/%d", res.ctx.EffectiveUID, res.ctx.EffectiveGID, p.euid, p.egid)
	}
	// and the backend must report the mode we planted
	if fi, err := r.fs.Lstat("/obj"); err != nil || fi.Mode() != os.FileMode(p.mode) {
		return 0, fmt.Errorf("backend mode not as planted")
	}
	return accessWord(res.data)
}

func u32s(xs []uint32) []uint64 {
	out := make([]uint64, len(xs))
	for i, x := range xs {
		out[i] = uint64(x)
	}
	return out
}

var c12ClassNames = []string{"root", "owner", "group", "auxgroup", "other"}

func classOfPoint(p *c12Point) int {
	switch {
	case p.euid == 0:
		return 0
	case p.euid == p.fuid:
		return 1
	case p.egid == p.fgid:
		return 2
	}
	for _, g := range p.aux {
		if g == p.fgid {
			return 3
		}
	}
	return 4
}

func runC12(points []c12Point, kind string, idx int) Case {
	tags := map[string]int{"points": len(points)}
	var coq, txt []string
	for i := range points {
		p := &points[i]
		obs, err := p.run()
		if err != nil {
			panic(fmt.Sprintf("C12 point %+v: %v", *p, err))
		}
		aux := "None"
		if !p.authNone {
			aux = "(Some " + CIs(u32s(p.aux)) + ")"
		}
		coq = append(coq, fmt.Sprintf("IP %d %d %d %d %d %s %d %s %d",
			p.mode, p.fuid, p.fgid, p.euid, p.egid, aux, p.access, CBool(p.ro), obs))
		txt = append(txt, fmt.Sprintf("[%d] mode=%#o own=%d:%d eff=%d:%d aux=%v authnone=%v mask=%#x ro=%v -> granted %#x",
			i, p.mode, p.fuid, p.fgid, p.euid, p.egid, p.aux, p.authNone, p.access, p.ro, obs))
		tags["class_"+c12ClassNames[classOfPoint(p)]]++
		if p.mode&uint32(os.ModeDir) != 0 {
			tags["dir"]++
		} else {
			tags["file"]++
		}
		if p.ro {
			tags["readonly"]++
		}
		if p.authNone {
			tags["auth_none"]++
		}
		if p.mode&^(uint32(os.ModeDir)|0o777) != 0 {
			tags["mode_extra_bits"]++
		}
		if p.access&^63 != 0 {
			tags["mask_high_bits"]++
		}
		if p.euid == p.fuid && (p.egid == p.fgid) {
			tags["owner_and_group_match"]++
		}
		tags[fmt.Sprintf("auxlen_%02d", len(p.aux))]++
		switch {
		case obs == 0:
			tags["granted_none"]++
		case obs == p.access&63:
			tags["granted_all"]++
		default:
			tags["granted_partial"]++
		}
	}
	text := fmt.Sprintf("%d ACCESS points (step = point index)\n%s", len(points), strings.Join(txt, "\n"))
	return Case{Index: idx, Kind: kind, Coq: CList(coq), Tags: tags, Text: text}
}

var boundaryIDs = []uint32{0, 1, 1000, 65533, 65534, 65535, 1 << 31, 1<<32 - 1}

// pickID: small ids, boundary ids and full-range ids.  (Coq's cost per point is dominated by the
// number of bits in the case term, so the bulk is kept small; the wide values stay frequent.)
func pickID(r *Rand) uint32 {
	x := r.Intn(100)
	switch {
	case x < 45:
		return uint32(r.Intn(8))
	case x < 80:
		return boundaryIDs[r.Intn(len(boundaryIDs))]
	case x < 90:
		return uint32(r.U64() & 0xffff)
	}
	return uint32(r.U64())
}

func pickIDNot(r *Rand, not ...uint32) uint32 {
	for {
		x := pickID(r)
		ok := true
		for _, n := range not {
			if x == n {
				ok = false
			}
		}
		if ok {
			return x
		}
	}
}

// concretise turns a class point (branch g, 9 mode bits, dir, ro, 6 mask bits) into a full input:
// ids realising the branch, extra mode bits and extra mask bits that must not matter.
func concretise(r *Rand, g int, m9 uint32, dir, ro bool, a6 uint32) c12Point {
	p := c12Point{ro: ro}
	p.mode = m9
	if dir {
		p.mode |= uint32(os.ModeDir)
	}
	switch r.Intn(4) {
	case 0: // setuid/setgid/sticky as Go reports them
		p.mode |= []uint32{uint32(os.ModeSetuid), uint32(os.ModeSetgid), uint32(os.ModeSticky)}[r.Intn(3)]
	case 1: // any other bits of the 32-bit FileMode except the directory bit
		p.mode |= uint32(r.U64()) &^ (uint32(os.ModeDir) | 0o777)
	}
	p.access = a6
	if r.Chance(30) {
		p.access |= uint32(r.U64()) &^ 63
	}
	p.fuid, p.fgid = pickID(r), pickID(r)
	naux := r.Intn(4)
	switch x := r.Intn(100); {
	case x < 20:
		naux = PickInt(r, 0, 1, 16)
	case x < 50:
		naux = r.Intn(17)
	}
	mkaux := func(avoid uint32) []uint32 {
		a := make([]uint32, naux)
		for i := range a {
			a[i] = pickIDNot(r, avoid)
		}
		return a
	}
	switch g {
	case 0: // root: whatever the owner/group relation
		p.euid = 0
		p.egid = pickID(r)
		if r.Chance(30) {
			p.fuid = 0
		}
		p.aux = mkaux(p.fgid)
		if naux > 0 && r.Chance(30) {
			p.aux[r.Intn(naux)] = p.fgid
		}
	case 1: // owner (not root): group relation arbitrary, so that precedence is exercised
		p.fuid = pickIDNot(r, 0)
		p.euid = p.fuid
		p.egid = pickID(r)
		if r.Chance(40) {
			p.egid = p.fgid
		}
		p.aux = mkaux(p.fgid)
		if naux > 0 && r.Chance(40) {
			p.aux[r.Intn(naux)] = p.fgid
		}
	case 2: // primary group
		p.euid = pickIDNot(r, 0, p.fuid)
		p.egid = p.fgid
		p.aux = mkaux(p.fgid)
		if naux > 0 && r.Chance(30) {
			p.aux[r.Intn(naux)] = p.fgid
		}
	case 3: // auxiliary group only
		p.euid = pickIDNot(r, 0, p.fuid)
		p.egid = pickIDNot(r, p.fgid)
		if naux == 0 {
			naux = 1 + r.Intn(16)
		}
		p.aux = mkaux(p.fgid)
		p.aux[PickInt(r, 0, naux-1, r.Intn(naux))] = p.fgid
	default: // other; sometimes without any AUTH_SYS credential (AUTH_NONE => nobody/nobody, AuthSys nil)
		if r.Chance(25) {
			p.authNone = true
			p.euid, p.egid = 65534, 65534
			p.fuid = pickIDNot(r, 65534)
			p.fgid = pickIDNot(r, 65534)
		} else {
			p.euid = pickIDNot(r, 0, p.fuid)
			p.egid = pickIDNot(r, p.fgid)
			p.aux = mkaux(p.fgid)
		}
	}
	return p
}

func classPoint(k int) (g int, m9 uint32, dir, ro bool, a6 uint32) {
	a6 = uint32(k % 64)
	k /= 64
	ro = k%2 == 1
	k /= 2
	dir = k%2 == 1
	k /= 2
	m9 = uint32(k % 512)
	k /= 512
	g = k % 5
	return
}

func genC12(r *Rand, idx int, tier string) Case {
	pts := make([]c12Point, 0, c12PointsPerCase)
	nsys := c12ClassPoints / c12PointsPerCase
	if tier == "thorough" && idx < nsys {
		// systematic: thorough covers every one of the 655 360 class points exactly once
		for j := 0; j < c12PointsPerCase; j++ {
			g, m9, dir, ro, a6 := classPoint(idx*c12PointsPerCase + j)
			pts = append(pts, concretise(r, g, m9, dir, ro, a6))
		}
		return runC12(pts, "systematic", idx)
	}
	for j := 0; j < c12PointsPerCase; j++ {
		if r.Chance(8) {
			// fully random 32-bit mode, ids and mask: whatever class results
			p := c12Point{mode: uint32(r.U64()), fuid: pickID(r), fgid: pickID(r), euid: pickID(r), egid: pickID(r),
				access: uint32(r.U64()), ro: r.Bool()}
			p.aux = make([]uint32, r.Intn(17))
			for i := range p.aux {
				p.aux[i] = pickID(r)
			}
			pts = append(pts, p)
			continue
		}
		g, m9, dir, ro, a6 := classPoint(r.Intn(c12ClassPoints))
		pts = append(pts, concretise(r, g, m9, dir, ro, a6))
	}
	return runC12(pts, "random", idx)
}

func corpusC12() []Case {
	d := uint32(os.ModeDir)
	pts := []c12Point{
		// class precedence: owner bits apply although group/other bits are wider
		{mode: 0o077, fuid: 1000, fgid: 100, euid: 1000, egid: 100, aux: []uint32{100}, access: 63},
		{mode: d | 0o077, fuid: 1000, fgid: 100, euid: 1000, egid: 100, aux: []uint32{100}, access: 63},
		// group bits apply although other bits are wider (primary and auxiliary)
		{mode: 0o707, fuid: 1, fgid: 100, euid: 1000, egid: 100, aux: nil, access: 63},
		{mode: 0o707, fuid: 1, fgid: 100, euid: 1000, egid: 5, aux: []uint32{4, 100}, access: 63},
		{mode: 0o707, fuid: 1, fgid: 100, euid: 1000, egid: 5, aux: []uint32{4, 6}, access: 63},
		// root: everything that exists for the kind; read-only still masks
		{mode: 0, fuid: 5, fgid: 5, euid: 0, egid: 0, access: 63},
		{mode: d, fuid: 5, fgid: 5, euid: 0, egid: 0, access: 63},
		{mode: d, fuid: 5, fgid: 5, euid: 0, egid: 0, access: 63, ro: true},
		{mode: d | 0o777, fuid: 5, fgid: 5, euid: 9, egid: 9, access: 0xffffffff, ro: true},
		// AUTH_NONE: nobody, no AuthSys
		{mode: 0o754, fuid: 65534, fgid: 1, euid: 65534, egid: 65534, authNone: true, access: 63},
		{mode: 0o754, fuid: 1, fgid: 65534, euid: 65534, egid: 65534, authNone: true, access: 63},
		{mode: 0o754, fuid: 1, fgid: 1, euid: 65534, egid: 65534, authNone: true, access: 63},
		// uid 0 owner vs uid 2^32-1 caller, full 32-bit mode
		{mode: 0xffffffff, fuid: 0, fgid: 0, euid: 1<<32 - 1, egid: 1<<32 - 1, aux: []uint32{1<<32 - 1}, access: 0xffffffff},
		{mode: 0x7fffffff, fuid: 1<<32 - 1, fgid: 0, euid: 1<<32 - 1, egid: 7, access: 63},
	}
	return []Case{runC12(pts, "precedence-root-readonly-authnone", 0)}
}
