package main

import (
	"fmt"
	"os"
	"strings"

	. "verifharness/lib"

	"github.com/absfs/absnfs"
)

// C12: ACCESS decisions on the real handler (HandleCall -> ValidateAuthentication -> handleAccess),
// many points per case.
func init() {
	Props["C12"] = &Prop{
		Imports:    "From Coq Require Import Uint63.\nFrom Verif Require Import Model.Access Model.Auth Corr.C12.",
		Gen:        genC12,
		Corpus:     corpusC12,
		NonTrivial: func(c *Case) bool { return c.Tags["granted_partial"] > 0 && c.Tags["granted_all"] > 0 },
		ShardSize:  20,
	}
}

const c12PointsPerCase = 256

// number of class points: 5 branches x 512 modes x dir x ro x 64 masks
const c12ClassPoints = 5 * 512 * 2 * 2 * 64

type c12Point struct {
	mode       uint32
	fuid, fgid uint32
	// the EFFECTIVE identity (what the property is about): after the export's squashing
	euid, egid uint32
	aux        []uint32 // nil with authNone
	authNone   bool     // AUTH_NONE: no AuthSys, effective ids 65534/65534
	access     uint32
	ro         bool
	// how the server gets there: the export's squash mode and the RAW AUTH_SYS credential sent.
	// squash 0 = none (raw = effective), 1 = root, 2 = all.  Filled by finish().
	squash         int
	ruid, rgid     uint32
	raux           []uint32
	rawSet         bool
	ctxUID, ctxGID uint32 // AuthContext.EffectiveUID/GID found after the call
	trap           string // label when the object's owner/group was chosen equal to a RAW id that squashing removed
}

var c12SquashNames = []string{"none", "root", "all"}
var c12SquashCoq = []string{"SNone", "SRoot", "SAll"}

var c12rigs [6]*rig

func c12rig(ro bool, squash int) *rig {
	i := squash * 2
	if ro {
		i++
	}
	if c12rigs[i] == nil {
		c12rigs[i] = newRig(absnfs.ExportOptions{ReadOnly: ro, Squash: c12SquashNames[squash]})
	}
	return c12rigs[i]
}

// goSquash: the driver's own statement of the squash table (used to plan cases and to assert what
// HandleCall stored; the Coq oracle recomputes the effective identity with Model/Auth.v squash_table).
func goSquash(squash int, uid, gid uint32, aux []uint32) (uint32, uint32, []uint32) {
	out := make([]uint32, len(aux))
	copy(out, aux)
	switch squash {
	case 1:
		for i, g := range out {
			if g == 0 {
				out[i] = 65534
			}
		}
		if uid == 0 {
			return 65534, 65534, out
		}
		if gid == 0 {
			gid = 65534
		}
		return uid, gid, out
	case 2:
		for i := range out {
			out[i] = 65534
		}
		return 65534, 65534, out
	}
	return uid, gid, out
}

// finish fills the raw credential for points given by their effective identity (squash none).
func (p *c12Point) finish() {
	if !p.rawSet {
		p.squash, p.ruid, p.rgid, p.raux, p.rawSet = 0, p.euid, p.egid, p.aux, true
	}
}

func (p *c12Point) run() (uint32, error) {
	p.finish()
	r := c12rig(p.ro, p.squash)
	r.fs.mode = os.FileMode(p.mode)
	if !r.nfs.VerifAuthSetOwner(r.fh, p.fuid, p.fgid) {
		return 0, fmt.Errorf("handle lost")
	}
	cred := absnfs.RPCCredential{Flavor: absnfs.AUTH_SYS, Body: authSysBody(7, "host", p.ruid, p.rgid, p.raux)}
	if p.authNone {
		cred = absnfs.RPCCredential{Flavor: absnfs.AUTH_NONE}
	}
	res := r.call(absnfs.NFS_PROGRAM, absnfs.NFS_V3, absnfs.NFSPROC3_ACCESS, cred, accessArgs(r.fh, p.access), "127.0.0.1", 700)
	if res.nilRep || res.reply.Status != absnfs.MSG_ACCEPTED || res.reply.AcceptStatus != absnfs.SUCCESS {
		return 0, fmt.Errorf("call not accepted")
	}
	// the effective identity HandleCall stored in the AuthContext must be the one planned
	// (squash table applied to the raw credential / AUTH_NONE -> nobody); Coq checks it again
	// (a difference is not an error of the driver: the ids found are handed to Coq, which reports it)
	p.ctxUID, p.ctxGID = res.ctx.EffectiveUID, res.ctx.EffectiveGID
	if !p.authNone && p.ctxUID == p.euid && p.ctxGID == p.egid {
		if res.ctx.AuthSys == nil || len(res.ctx.AuthSys.AuxGIDs) != len(p.aux) {
			return 0, fmt.Errorf("aux gids seen by the handler: %v, wanted %v", res.ctx.AuthSys, p.aux)
		}
		for i, g := range res.ctx.AuthSys.AuxGIDs {
			if g != p.aux[i] {
				return 0, fmt.Errorf("aux gids seen by the handler: %v, wanted %v", res.ctx.AuthSys.AuxGIDs, p.aux)
			}
		}
	}
	// and the backend must report the mode we planted
	if fi, err := r.fs.Lstat("/obj"); err != nil || fi.Mode() != os.FileMode(p.mode) {
		return 0, fmt.Errorf("backend mode not as planted")
	}
	return accessWord(res.data)
}

func u32s(xs []uint32) []uint64 {
	out := make([]uint64, len(xs))
	for i, x := range xs {
		out[i] = uint64(x)
	}
	return out
}

var c12ClassNames = []string{"root", "owner", "group", "auxgroup", "other"}

func classOfPoint(p *c12Point) int {
	switch {
	case p.euid == 0:
		return 0
	case p.euid == p.fuid:
		return 1
	case p.egid == p.fgid:
		return 2
	}
	for _, g := range p.aux {
		if g == p.fgid {
			return 3
		}
	}
	return 4
}

func runC12(points []c12Point, kind string, idx int) Case {
	tags := map[string]int{"points": len(points)}
	var coq, txt []string
	for i := range points {
		p := &points[i]
		obs, err := p.run()
		if err != nil {
			panic(fmt.Sprintf("C12 point %+v: %v", *p, err))
		}
		raux := "None"
		if !p.authNone {
			raux = "(Some " + CIs(u32s(p.raux)) + ")"
		}
		// raw credential + squash mode; the effective ids are those HandleCall stored (asserted above)
		coq = append(coq, fmt.Sprintf("IP %d %d %d %s %d %d %s %d %d %d %s %d",
			p.mode, p.fuid, p.fgid, c12SquashCoq[p.squash], p.ruid, p.rgid, raux, p.ctxUID, p.ctxGID, p.access, CBool(p.ro), obs))
		txt = append(txt, fmt.Sprintf("[%d] mode=%#o own=%d:%d squash=%s raw=%d:%d rawaux=%v eff=%d:%d effaux=%v authnone=%v %s mask=%#x ro=%v -> granted %#x",
			i, p.mode, p.fuid, p.fgid, c12SquashNames[p.squash], p.ruid, p.rgid, p.raux, p.euid, p.egid, p.aux, p.authNone, p.trap, p.access, p.ro, obs))
		tags["squash_"+c12SquashNames[p.squash]]++
		if !p.authNone {
			if p.ruid != p.euid {
				tags["raw_uid_ne_effective"]++
			}
			if p.rgid != p.egid {
				tags["raw_gid_ne_effective"]++
			}
			auxDiff := false
			for j := range p.aux {
				if p.aux[j] != p.raux[j] {
					auxDiff = true
				}
			}
			if auxDiff {
				tags["raw_aux_ne_effective"]++
			}
			if p.ruid != p.euid || p.rgid != p.egid || auxDiff {
				tags["raw_ne_effective"]++
				// would the decision differ if the RAW identity were used for the class selection?
				rawp := *p
				rawp.euid, rawp.egid, rawp.aux = p.ruid, p.rgid, p.raux
				if classOfPoint(&rawp) != classOfPoint(p) {
					tags["raw_identity_would_pick_other_class"]++
				}
			}
		}
		if p.trap != "" {
			tags["trap_"+p.trap]++
		}
		switch p.fgid {
		case 0:
			tags["object_gid_0"]++
		case 65534:
			tags["object_gid_65534"]++
		}
		tags["class_"+c12ClassNames[classOfPoint(p)]]++
		if p.mode&uint32(os.ModeDir) != 0 {
			tags["dir"]++
		} else {
			tags["file"]++
		}
		if p.ro {
			tags["readonly"]++
		}
		if p.authNone {
			tags["auth_none"]++
		}
		if p.mode&^(uint32(os.ModeDir)|0o777) != 0 {
			tags["mode_extra_bits"]++
		}
		if p.access&^63 != 0 {
			tags["mask_high_bits"]++
		}
		if p.euid == p.fuid && (p.egid == p.fgid) {
			tags["owner_and_group_match"]++
		}
		tags[fmt.Sprintf("auxlen_%02d", len(p.aux))]++
		switch {
		case obs == 0:
			tags["granted_none"]++
		case obs == p.access&63:
			tags["granted_all"]++
		default:
			tags["granted_partial"]++
		}
	}
	text := fmt.Sprintf("%d ACCESS points (step = point index)\n%s", len(points), strings.Join(txt, "\n"))
	return Case{Index: idx, Kind: kind, Coq: CList(coq), Tags: tags, Text: text}
}

var boundaryIDs = []uint32{0, 1, 1000, 65533, 65534, 65535, 1 << 31, 1<<32 - 1}

// pickID: small ids, boundary ids and full-range ids.  (Coq's cost per point is dominated by the
// number of bits in the case term, so the bulk is kept small; the wide values stay frequent.)
func pickID(r *Rand) uint32 {
	x := r.Intn(100)
	switch {
	case x < 45:
		return uint32(r.Intn(8))
	case x < 80:
		return boundaryIDs[r.Intn(len(boundaryIDs))]
	case x < 90:
		return uint32(r.U64() & 0xffff)
	}
	return uint32(r.U64())
}

func pickIDNot(r *Rand, not ...uint32) uint32 {
	for {
		x := pickID(r)
		ok := true
		for _, n := range not {
			if x == n {
				ok = false
			}
		}
		if ok {
			return x
		}
	}
}

// concretise turns a class point (branch g, 9 mode bits, dir, ro, 6 mask bits) into a full input:
// ids realising the branch, extra mode bits and extra mask bits that must not matter.
// decorate sets mode and mask from the class point and adds bits that must not matter.
func decorate(r *Rand, p *c12Point, m9 uint32, dir bool, a6 uint32) {
	p.mode = m9
	if dir {
		p.mode |= uint32(os.ModeDir)
	}
	switch r.Intn(4) {
	case 0: // setuid/setgid/sticky as Go reports them
		p.mode |= []uint32{uint32(os.ModeSetuid), uint32(os.ModeSetgid), uint32(os.ModeSticky)}[r.Intn(3)]
	case 1: // any other bits of the 32-bit FileMode except the directory bit
		p.mode |= uint32(r.U64()) &^ (uint32(os.ModeDir) | 0o777)
	}
	p.access = a6
	if r.Chance(30) {
		p.access |= uint32(r.U64()) &^ 63
	}
}

func pickNAux(r *Rand) int {
	naux := r.Intn(4)
	switch x := r.Intn(100); {
	case x < 20:
		naux = PickInt(r, 0, 1, 16)
	case x < 50:
		naux = r.Intn(17)
	}
	return naux
}

func pickNotIn(r *Rand, not map[uint32]bool) uint32 {
	for {
		if x := pickID(r); !not[x] {
			return x
		}
	}
}

// squashedPoint: a point on an export with root (1) or all (2) squashing, built the way the server
// builds it: the RAW AUTH_SYS credential is drawn first (uid 0, gid 0 and zeros among the auxiliary
// gids are frequent), the effective identity follows from the squash table, and the object's owner
// and group are chosen relative to the EFFECTIVE identity so that branch g of the class selection
// is taken.  Wherever the branch leaves a choice, the object gets an owner/group that only the RAW
// credential has (e.g. group 0 for a squashed gid 0): an implementation that looked at the raw
// identity would pick another class there ("trap").  ok=false: branch g cannot be taken under this
// mode (effective uid 0 does not exist under squashing; under "all" every auxiliary gid equals the
// primary one); with exact=false such points become traps in the "other" class instead.
func squashedPoint(r *Rand, squash, g int, m9 uint32, dir, ro bool, a6 uint32, exact bool) (c12Point, bool) {
	p := c12Point{ro: ro, squash: squash, rawSet: true}
	decorate(r, &p, m9, dir, a6)
	if r.Chance(6) {
		// no AUTH_SYS credential at all on a squashing export
		p.authNone = true
		p.euid, p.egid = 65534, 65534
		switch g {
		case 1:
			p.fuid, p.fgid = 65534, PickU32(r, 65534, 0, pickID(r))
		case 2:
			p.fuid, p.fgid = pickIDNot(r, 65534), 65534
		case 4:
			p.fuid, p.fgid = pickIDNot(r, 65534), pickIDNot(r, 65534)
		default:
			if exact {
				return p, false
			}
			p.fuid, p.fgid = 0, 0
		}
		return p, true
	}
	p.ruid = pickID(r)
	if r.Chance(40) {
		p.ruid = 0
	}
	p.rgid = pickID(r)
	switch x := r.Intn(100); {
	case x < 40:
		p.rgid = 0
	case x < 52:
		p.rgid = 65534
	}
	p.raux = make([]uint32, pickNAux(r))
	for i := range p.raux {
		p.raux[i] = pickID(r)
		if r.Chance(30) {
			p.raux[i] = 0
		}
	}
	p.euid, p.egid, p.aux = goSquash(squash, p.ruid, p.rgid, p.raux)
	eff := map[uint32]bool{p.egid: true}
	for _, x := range p.aux {
		eff[x] = true
	}
	// gids the raw credential has and the effective identity has not
	var rawOnly []uint32
	if !eff[p.rgid] {
		rawOnly = append(rawOnly, p.rgid)
	}
	for _, x := range p.raux {
		if !eff[x] {
			rawOnly = append(rawOnly, x)
		}
	}
	otherUID := func() uint32 {
		if p.ruid != p.euid && r.Chance(60) {
			return p.ruid // the raw uid (0) owns the object; the squashed caller is not the owner
		}
		return pickIDNot(r, p.euid)
	}
	nonMember := func() uint32 {
		if len(rawOnly) > 0 && r.Chance(70) {
			p.trap = "object_gid_is_raw_only_gid"
			return rawOnly[r.Intn(len(rawOnly))]
		}
		return pickNotIn(r, eff)
	}
	switch g {
	case 1: // owner by the effective uid; group relation free
		p.fuid = p.euid
		switch x := r.Intn(100); {
		case x < 35:
			p.fgid = p.egid
		case x < 70:
			p.fgid = nonMember()
		default:
			p.fgid = pickID(r)
		}
	case 2: // primary group by the effective gid
		p.fuid, p.fgid = otherUID(), p.egid
		if p.rgid != p.egid {
			p.trap = "object_gid_is_effective_only_gid"
		}
	case 3: // auxiliary group only
		var cand []uint32
		for _, x := range p.aux {
			if x != p.egid {
				cand = append(cand, x)
			}
		}
		if len(cand) == 0 {
			if exact {
				return p, false
			}
			p.fuid, p.fgid = otherUID(), nonMember()
		} else {
			p.fuid, p.fgid = otherUID(), cand[r.Intn(len(cand))]
		}
	case 4:
		p.fuid, p.fgid = otherUID(), nonMember()
	default: // effective uid 0 does not exist here
		if exact {
			return p, false
		}
		p.fuid, p.fgid = otherUID(), nonMember()
	}
	return p, true
}

func PickU32(r *Rand, xs ...uint32) uint32 { return xs[r.Intn(len(xs))] }

func concretise(r *Rand, g int, m9 uint32, dir, ro bool, a6 uint32) c12Point {
	p := c12Point{ro: ro}
	decorate(r, &p, m9, dir, a6)
	p.fuid, p.fgid = pickID(r), pickID(r)
	naux := pickNAux(r)
	mkaux := func(avoid uint32) []uint32 {
		a := make([]uint32, naux)
		for i := range a {
			a[i] = pickIDNot(r, avoid)
		}
		return a
	}
	switch g {
	case 0: // root: whatever the owner/group relation
		p.euid = 0
		p.egid = pickID(r)
		if r.Chance(30) {
			p.fuid = 0
		}
		p.aux = mkaux(p.fgid)
		if naux > 0 && r.Chance(30) {
			p.aux[r.Intn(naux)] = p.fgid
		}
	case 1: // owner (not root): group relation arbitrary, so that precedence is exercised
		p.fuid = pickIDNot(r, 0)
		p.euid = p.fuid
		p.egid = pickID(r)
		if r.Chance(40) {
			p.egid = p.fgid
		}
		p.aux = mkaux(p.fgid)
		if naux > 0 && r.Chance(40) {
			p.aux[r.Intn(naux)] = p.fgid
		}
	case 2: // primary group
		p.euid = pickIDNot(r, 0, p.fuid)
		p.egid = p.fgid
		p.aux = mkaux(p.fgid)
		if naux > 0 && r.Chance(30) {
			p.aux[r.Intn(naux)] = p.fgid
		}
	case 3: // auxiliary group only
		p.euid = pickIDNot(r, 0, p.fuid)
		p.egid = pickIDNot(r, p.fgid)
		if naux == 0 {
			naux = 1 + r.Intn(16)
		}
		p.aux = mkaux(p.fgid)
		p.aux[PickInt(r, 0, naux-1, r.Intn(naux))] = p.fgid
	default: // other; sometimes without any AUTH_SYS credential (AUTH_NONE => nobody/nobody, AuthSys nil)
		if r.Chance(25) {
			p.authNone = true
			p.euid, p.egid = 65534, 65534
			p.fuid = pickIDNot(r, 65534)
			p.fgid = pickIDNot(r, 65534)
		} else {
			p.euid = pickIDNot(r, 0, p.fuid)
			p.egid = pickIDNot(r, p.fgid)
			p.aux = mkaux(p.fgid)
		}
	}
	return p
}

func classPoint(k int) (g int, m9 uint32, dir, ro bool, a6 uint32) {
	a6 = uint32(k % 64)
	k /= 64
	ro = k%2 == 1
	k /= 2
	dir = k%2 == 1
	k /= 2
	m9 = uint32(k % 512)
	k /= 512
	g = k % 5
	return
}

func genC12(r *Rand, idx int, tier string) Case {
	pts := make([]c12Point, 0, c12PointsPerCase)
	nsys := c12ClassPoints / c12PointsPerCase
	if tier == "thorough" && idx < nsys {
		// systematic: thorough covers every one of the 655 360 class points exactly once
		for j := 0; j < c12PointsPerCase; j++ {
			g, m9, dir, ro, a6 := classPoint(idx*c12PointsPerCase + j)
			if x := r.Intn(100); x < 50 {
				// same class point on a squashing export, when the branch exists there
				if p, ok := squashedPoint(r, 1+x%2, g, m9, dir, ro, a6, true); ok {
					pts = append(pts, p)
					continue
				}
			}
			pts = append(pts, concretise(r, g, m9, dir, ro, a6))
		}
		return runC12(pts, "systematic", idx)
	}
	for j := 0; j < c12PointsPerCase; j++ {
		if r.Chance(8) {
			// fully random 32-bit mode, ids and mask: whatever class results
			p := c12Point{mode: uint32(r.U64()), fuid: pickID(r), fgid: pickID(r), euid: pickID(r), egid: pickID(r),
				access: uint32(r.U64()), ro: r.Bool()}
			p.aux = make([]uint32, r.Intn(17))
			for i := range p.aux {
				p.aux[i] = pickID(r)
			}
			pts = append(pts, p)
			continue
		}
		g, m9, dir, ro, a6 := classPoint(r.Intn(c12ClassPoints))
		switch x := r.Intn(100); {
		case x < 35:
			p, _ := squashedPoint(r, 1, g, m9, dir, ro, a6, false)
			pts = append(pts, p)
		case x < 55:
			p, _ := squashedPoint(r, 2, g, m9, dir, ro, a6, false)
			pts = append(pts, p)
		default:
			pts = append(pts, concretise(r, g, m9, dir, ro, a6))
		}
	}
	return runC12(pts, "random", idx)
}

func corpusC12() []Case {
	d := uint32(os.ModeDir)
	pts := []c12Point{
		// class precedence: owner bits apply although group/other bits are wider
		{mode: 0o077, fuid: 1000, fgid: 100, euid: 1000, egid: 100, aux: []uint32{100}, access: 63},
		{mode: d | 0o077, fuid: 1000, fgid: 100, euid: 1000, egid: 100, aux: []uint32{100}, access: 63},
		// group bits apply although other bits are wider (primary and auxiliary)
		{mode: 0o707, fuid: 1, fgid: 100, euid: 1000, egid: 100, aux: nil, access: 63},
		{mode: 0o707, fuid: 1, fgid: 100, euid: 1000, egid: 5, aux: []uint32{4, 100}, access: 63},
		{mode: 0o707, fuid: 1, fgid: 100, euid: 1000, egid: 5, aux: []uint32{4, 6}, access: 63},
		// root: everything that exists for the kind; read-only still masks
		{mode: 0, fuid: 5, fgid: 5, euid: 0, egid: 0, access: 63},
		{mode: d, fuid: 5, fgid: 5, euid: 0, egid: 0, access: 63},
		{mode: d, fuid: 5, fgid: 5, euid: 0, egid: 0, access: 63, ro: true},
		{mode: d | 0o777, fuid: 5, fgid: 5, euid: 9, egid: 9, access: 0xffffffff, ro: true},
		// AUTH_NONE: nobody, no AuthSys
		{mode: 0o754, fuid: 65534, fgid: 1, euid: 65534, egid: 65534, authNone: true, access: 63},
		{mode: 0o754, fuid: 1, fgid: 65534, euid: 65534, egid: 65534, authNone: true, access: 63},
		{mode: 0o754, fuid: 1, fgid: 1, euid: 65534, egid: 65534, authNone: true, access: 63},
		// uid 0 owner vs uid 2^32-1 caller, full 32-bit mode
		{mode: 0xffffffff, fuid: 0, fgid: 0, euid: 1<<32 - 1, egid: 1<<32 - 1, aux: []uint32{1<<32 - 1}, access: 0xffffffff},
		{mode: 0x7fffffff, fuid: 1<<32 - 1, fgid: 0, euid: 1<<32 - 1, egid: 7, access: 63},
	}
	// squashing exports: the class follows the EFFECTIVE identity, not the credential as sent
	sq := func(mode, fuid, fgid uint32, squash int, ruid, rgid uint32, raux []uint32, ro bool) c12Point {
		p := c12Point{mode: mode, fuid: fuid, fgid: fgid, access: 63, ro: ro, squash: squash, ruid: ruid, rgid: rgid, raux: raux, rawSet: true}
		p.euid, p.egid, p.aux = goSquash(squash, ruid, rgid, raux)
		return p
	}
	var sp []c12Point
	for _, m := range []uint32{0o070, d | 0o070, 0o707, d | 0o707, 0o700, 0o007, d | 0o777} {
		for _, fgid := range []uint32{0, 65534, 2000} {
			sp = append(sp,
				sq(m, 7, fgid, 1, 0, 0, nil, false),                     // squashed root: nobody/nobody
				sq(m, 0, fgid, 1, 0, 0, []uint32{0, 2000}, false),       // object owned by uid 0: the squashed root is not its owner
				sq(m, 7, fgid, 1, 1000, 0, nil, false),                  // non-root with primary gid 0
				sq(m, 7, fgid, 1, 1000, 1000, []uint32{0, 5}, false),    // gid 0 among the auxiliary gids
				sq(m, 65534, fgid, 1, 0, 5, nil, false),                 // squashed root owns what nobody owns
				sq(m, 7, fgid, 2, 1000, 2000, []uint32{2000, 0}, false), // all: everything becomes nobody
				sq(m, 1000, fgid, 2, 1000, 0, nil, m&1 == 0),            // all: the raw uid is not the owner any more
				sq(m, 7, fgid, 0, 0, 0, []uint32{0}, false),             // none: real root
			)
		}
	}
	return []Case{runC12(pts, "precedence-root-readonly-authnone", 0), runC12(sp, "squashed-identities", 1)}
}
