package main

import (
	"bytes"
	"encoding/binary"
	"fmt"
	"strings"
	"unicode"
	"unicode/utf8"

	. "verifharness/lib"

	"github.com/absfs/absnfs"
)

// C10: credentials against ValidateAuthentication (any squash string) and through HandleCall
// (valid squash strings, with ACCESS probes showing the auxiliary gids the handler sees).
func init() {
	Props["C10"] = &Prop{
		Imports:    "From Coq Require Import Uint63.\nFrom Verif Require Import Corr.C10.",
		Gen:        genC10,
		Corpus:     corpusC10,
		NonTrivial: func(c *Case) bool { return c.Tags["squash_changed"] > 0 || c.Tags["denied"] > 0 },
		ShardSize:  150,
	}
}

type c10Pre struct {
	uid, gid uint32
	aux      []uint32
}

type c10Case struct {
	via    bool
	squash string
	flavor uint32
	body   []byte
	pre    *c10Pre
	// labels for the distribution
	bodyKind string
}

type c10Obs struct {
	allowed  bool
	uid, gid uint32
	aux      []uint32
	hasAuth  bool
	aliasOK  bool
	owner    uint32
	probes   [][2]uint32
	note     string
}

var c10rigs = map[string]*rig{}

func c10rig(squash string) *rig {
	if r, ok := c10rigs[squash]; ok {
		return r
	}
	r := newRig(absnfs.ExportOptions{Squash: squash})
	r.fs.mode = 0o070
	c10rigs[squash] = r
	return r
}

// checkToLowerAssumption: the one fact about strings.ToLower beyond ASCII that Model/Auth.v
// assumes - no non-ASCII code point lower-cases to a letter of "root", "all", "none".
func checkToLowerAssumption() {
	for r := rune(0x80); r <= unicode.MaxRune; r++ {
		l := unicode.ToLower(r)
		if l < 0x80 && strings.ContainsRune("rotalne", l) {
			panic(fmt.Sprintf("C10 assumption broken: unicode.ToLower(%U) = %q", r, l))
		}
	}
	if utf8.RuneError < 0x80 {
		panic("RuneError is ASCII")
	}
}

func (c *c10Case) run() c10Obs {
	var o c10Obs
	o.aliasOK = true
	bodyCopy := append([]byte{}, c.body...)
	if !c.via {
		cred := &absnfs.RPCCredential{Flavor: c.flavor, Body: c.body}
		ctx := &absnfs.AuthContext{ClientIP: "10.0.0.1", ClientPort: 40000, Credential: cred}
		var backing, orig []uint32
		if c.pre != nil {
			// the caller shares the slice: spare capacity included, so that an in-place append would show too
			backing = make([]uint32, len(c.pre.aux), len(c.pre.aux)+4)
			copy(backing, c.pre.aux)
			full := backing[:cap(backing)]
			for i := len(c.pre.aux); i < len(full); i++ {
				full[i] = 0xdeadbeef
			}
			orig = append([]uint32{}, full...)
			ctx.AuthSys = &absnfs.AuthSysCredential{Stamp: 1, MachineName: "pre", UID: c.pre.uid, GID: c.pre.gid, AuxGIDs: backing}
		}
		res := absnfs.ValidateAuthentication(ctx, &absnfs.PolicyOptions{Squash: c.squash})
		o.allowed, o.uid, o.gid = res.Allowed, res.UID, res.GID
		if ctx.AuthSys != nil {
			o.hasAuth = true
			o.aux = append([]uint32{}, ctx.AuthSys.AuxGIDs...)
		}
		if c.pre != nil {
			full := backing[:cap(backing)]
			for i := range full {
				if full[i] != orig[i] {
					o.aliasOK = false
					o.note = "caller's backing array changed"
				}
			}
		}
	} else {
		r := c10rig(c.squash)
		cred := absnfs.RPCCredential{Flavor: c.flavor, Body: c.body}
		res := r.call(absnfs.NFS_PROGRAM, absnfs.NFS_V3, absnfs.NFSPROC3_NULL, cred, nil, "10.0.0.1", 40000)
		o.allowed = res.reply.Status == absnfs.MSG_ACCEPTED
		o.uid, o.gid = res.ctx.EffectiveUID, res.ctx.EffectiveGID
		if res.ctx.AuthSys != nil {
			o.hasAuth = true
			o.aux = append([]uint32{}, res.ctx.AuthSys.AuxGIDs...)
		}
		if o.allowed {
			// which groups does ACCESS consider the caller a member of?  Object 0070 owned by a uid
			// nobody in this case has; one probe per interesting gid.
			o.owner = 4040404
			for o.owner == o.uid || o.owner == 0 || o.owner == 65534 {
				o.owner++
			}
			seen := map[uint32]bool{}
			var gids []uint32
			add := func(g uint32) {
				if !seen[g] && len(gids) < 9 {
					seen[g] = true
					gids = append(gids, g)
				}
			}
			add(0)
			add(65534)
			add(o.gid)
			for _, g := range o.aux {
				add(g)
			}
			if cr, err := absnfs.ParseAuthSysCredential(c.body); err == nil && c.flavor == absnfs.AUTH_SYS {
				add(cr.GID)
				for _, g := range cr.AuxGIDs {
					add(g)
				}
			}
			add(777777)
			for _, g := range gids {
				if !r.nfs.VerifAuthSetOwner(r.fh, o.owner, g) {
					panic("handle lost")
				}
				pr := r.call(absnfs.NFS_PROGRAM, absnfs.NFS_V3, absnfs.NFSPROC3_ACCESS, cred, accessArgs(r.fh, 63), "10.0.0.1", 40000)
				w, err := accessWord(pr.data)
				if err != nil {
					panic(err)
				}
				o.probes = append(o.probes, [2]uint32{g, w})
			}
		}
	}
	if !bytes.Equal(bodyCopy, c.body) {
		o.aliasOK = false
		o.note = "credential body bytes changed"
	}
	return o
}

func bytesU64(b []byte) []uint64 {
	out := make([]uint64, len(b))
	for i, x := range b {
		out[i] = uint64(x)
	}
	return out
}

func squashKindName(s string) string {
	for i := 0; i < len(s); i++ {
		if s[i] >= 0x80 {
			return "nonascii"
		}
	}
	switch strings.ToLower(s) {
	case "root":
		return "root"
	case "all":
		return "all"
	case "none":
		return "none"
	case "":
		return "empty"
	}
	return "unknown"
}

func runC10(c c10Case, kind string, idx int) Case {
	o := c.run()
	tags := map[string]int{}
	pre := "None"
	if c.pre != nil {
		pre = fmt.Sprintf("(Some (%s, %s, %s))", CI(uint64(c.pre.uid)), CI(uint64(c.pre.gid)), CIs(u32s(c.pre.aux)))
		tags["preparsed_shared_slice"]++
	}
	aux := "None"
	if o.hasAuth {
		aux = "(Some " + CIs(u32s(o.aux)) + ")"
	}
	var probes []string
	for _, p := range o.probes {
		probes = append(probes, CPair(CI(uint64(p[0])), CI(uint64(p[1]))))
	}
	coq := fmt.Sprintf("IC %s %s %s %s %s %s %s %s %s %s %s %s", CBool(c.via), CIs(bytesU64([]byte(c.squash))), CI(uint64(c.flavor)),
		CIs(bytesU64(c.body)), pre, CBool(o.allowed), CI(uint64(o.uid)), CI(uint64(o.gid)), aux, CBool(o.aliasOK), CI(uint64(o.owner)), CList(probes))
	if c.via {
		tags["via_handlecall"]++
	} else {
		tags["via_validate"]++
	}
	tags["mode_"+squashKindName(c.squash)]++
	switch c.flavor {
	case absnfs.AUTH_NONE:
		tags["flavor_none"]++
	case absnfs.AUTH_SYS:
		tags["flavor_sys"]++
	default:
		tags["flavor_other"]++
	}
	tags["body_"+c.bodyKind]++
	if o.allowed {
		tags["allowed"]++
	} else {
		tags["denied"]++
	}
	tags["probes"] += len(o.probes)
	var inUID, inGID uint32
	var inAux []uint32
	have := false
	if c.pre != nil {
		inUID, inGID, inAux, have = c.pre.uid, c.pre.gid, c.pre.aux, true
	} else if cr, err := absnfs.ParseAuthSysCredential(c.body); err == nil {
		inUID, inGID, inAux, have = cr.UID, cr.GID, cr.AuxGIDs, true
	}
	if have && c.flavor == absnfs.AUTH_SYS {
		tags[fmt.Sprintf("auxlen_%02d", len(inAux))]++
		if inUID == 0 {
			tags["uid0"]++
		}
		if inGID == 0 {
			tags["gid0"]++
		}
		for _, g := range inAux {
			if g == 0 {
				tags["aux_has_0"]++
				break
			}
		}
		if o.allowed {
			ch := o.uid != inUID || o.gid != inGID || len(o.aux) != len(inAux)
			for i := range o.aux {
				if i < len(inAux) && o.aux[i] != inAux[i] {
					ch = true
				}
			}
			if ch {
				tags["squash_changed"]++
			}
		}
	}
	b := c.body
	btxt := fmt.Sprintf("%x", b)
	if len(btxt) > 240 {
		btxt = btxt[:240] + fmt.Sprintf("...(%d bytes)", len(b))
	}
	text := fmt.Sprintf("via_handlecall=%v squash=%q flavor=%d body[%s]=%s pre=%+v -> allowed=%v uid=%d gid=%d aux=%v(authsys=%v) alias_ok=%v %s probes(owner %d, gid->access)=%v",
		c.via, c.squash, c.flavor, c.bodyKind, btxt, c.pre, o.allowed, o.uid, o.gid, o.aux, o.hasAuth, o.aliasOK, o.note, o.owner, o.probes)
	return Case{Index: idx, Kind: kind, Coq: coq, Tags: tags, Text: text}
}

// ---- generators ----

var c10IDs = []uint32{0, 1, 65533, 65534, 65535, 1 << 31, 1<<32 - 1}

func c10ID(r *Rand) uint32 {
	if r.Chance(75) {
		return c10IDs[r.Intn(len(c10IDs))]
	}
	if r.Chance(50) {
		return uint32(r.Intn(2000))
	}
	return uint32(r.U64())
}

func c10Aux(r *Rand, n int) []uint32 {
	a := make([]uint32, n)
	for i := range a {
		a[i] = c10ID(r)
	}
	return a
}

func randCase(r *Rand, w string) string {
	b := []byte(w)
	for i := range b {
		if r.Bool() {
			b[i] = byte(unicode.ToUpper(rune(b[i])))
		}
	}
	return string(b)
}

var c10Junk = []string{"squash", "root ", " root", "roo", "roott", "al", "alll", "non", "nobody", "no_root_squash", "root_squash",
	"r00t", "ROOT\x00", "\x00", "none\n", "a", "all,root", "rööt", "RÖÖT", "noKe", "ALLK", "İ", "nıne", "ro\xffot", "\xff\xfe",
	"ＲＯＯＴ", "ａｌｌ", "noné", "NONÉ", "𝐫𝐨𝐨𝐭"}

func c10Mode(r *Rand) string {
	switch x := r.Intn(100); {
	case x < 25:
		return randCase(r, "root")
	case x < 45:
		return randCase(r, "all")
	case x < 62:
		return randCase(r, "none")
	case x < 70:
		return ""
	case x < 92:
		return c10Junk[r.Intn(len(c10Junk))]
	}
	n := 1 + r.Intn(8)
	b := make([]byte, n)
	for i := range b {
		b[i] = byte(r.Intn(256))
	}
	return string(b)
}

var c10ViaModes = []string{"root", "ROOT", "Root", "rOOt", "all", "ALL", "aLl", "none", "NONE", "nOnE", ""}

type bodySpec struct {
	stamp    uint32
	name     []byte
	pad      []byte // nil = correct zero padding
	uid, gid uint32
	count    uint32 // declared
	gids     []uint32
	trailing []byte
}

func (s bodySpec) bytes() []byte {
	var b bytes.Buffer
	binary.Write(&b, binary.BigEndian, s.stamp)
	binary.Write(&b, binary.BigEndian, uint32(len(s.name)))
	b.Write(s.name)
	if s.pad != nil {
		b.Write(s.pad)
	} else {
		for b.Len()%4 != 0 {
			b.WriteByte(0)
		}
	}
	binary.Write(&b, binary.BigEndian, s.uid)
	binary.Write(&b, binary.BigEndian, s.gid)
	binary.Write(&b, binary.BigEndian, s.count)
	for _, g := range s.gids {
		binary.Write(&b, binary.BigEndian, g)
	}
	b.Write(s.trailing)
	return b.Bytes()
}

func c10Name(r *Rand) []byte {
	n := PickInt(r, 0, 1, 2, 3, 4, 5, 7, 8, 9, 16, 19)
	b := make([]byte, n)
	for i := range b {
		b[i] = byte('a' + r.Intn(26))
		if r.Chance(5) {
			b[i] = byte(r.Intn(256))
		}
	}
	return b
}

// c10Body returns a body and a label of how it was made.
func c10Body(r *Rand) ([]byte, string) {
	naux := r.Intn(17)
	if r.Chance(25) {
		naux = PickInt(r, 0, 1, 15, 16)
	}
	s := bodySpec{stamp: uint32(r.U64()), name: c10Name(r), uid: c10ID(r), gid: c10ID(r), count: uint32(naux), gids: c10Aux(r, naux)}
	if naux > 0 && r.Chance(40) {
		s.gids[r.Intn(naux)] = 0
	}
	switch x := r.Intn(100); {
	case x < 55:
		return s.bytes(), "wellformed"
	case x < 62:
		s.trailing = make([]byte, 1+r.Intn(9))
		for i := range s.trailing {
			s.trailing[i] = byte(r.Intn(256))
		}
		return s.bytes(), "wellformed_trailing_bytes"
	case x < 67:
		if len(s.name)%4 != 0 {
			s.pad = make([]byte, 4-len(s.name)%4)
			for i := range s.pad {
				s.pad[i] = byte(1 + r.Intn(255))
			}
			return s.bytes(), "wellformed_nonzero_padding"
		}
		return s.bytes(), "wellformed"
	case x < 80:
		b := s.bytes()
		return b[:r.Intn(len(b))], "truncated"
	case x < 86:
		n := 17 + r.Intn(4)
		s.count, s.gids = uint32(n), c10Aux(r, n)
		return s.bytes(), "too_many_gids"
	case x < 90:
		s.count = uint32(PickU64(r, 17, 1<<31, 1<<32-1, 65536))
		return s.bytes(), "huge_gid_count"
	case x < 94:
		// count announces more gids than are present
		if naux > 0 {
			s.gids = s.gids[:r.Intn(naux)]
		} else {
			s.count = 1 + uint32(r.Intn(16))
		}
		return s.bytes(), "missing_gids"
	case x < 97:
		// declared machine-name length beyond the limit / beyond the data
		b := s.bytes()
		binary.BigEndian.PutUint32(b[4:8], uint32(PickU64(r, 8193, 8196, 1<<31, 1<<32-1, 400, 8192)))
		return b, "bad_name_length"
	case x < 98:
		return nil, "empty"
	}
	b := make([]byte, r.Intn(48))
	for i := range b {
		b[i] = byte(r.Intn(256))
	}
	return b, "random_bytes"
}

func genC10(r *Rand, idx int, tier string) Case {
	c := c10Case{}
	c.via = r.Chance(35)
	if c.via {
		c.squash = c10ViaModes[r.Intn(len(c10ViaModes))]
	} else {
		c.squash = c10Mode(r)
	}
	switch x := r.Intn(100); {
	case x < 78:
		c.flavor = absnfs.AUTH_SYS
	case x < 88:
		c.flavor = absnfs.AUTH_NONE
	default:
		c.flavor = uint32(PickU64(r, 2, 3, 4, 5, 6, 390003, 1<<31, 1<<32-1, r.U64()&0xffffffff|2))
	}
	c.body, c.bodyKind = c10Body(r)
	if !c.via && c.flavor == absnfs.AUTH_SYS && r.Chance(30) {
		n := r.Intn(17)
		c.pre = &c10Pre{uid: c10ID(r), gid: c10ID(r), aux: c10Aux(r, n)}
		if n > 0 && r.Chance(50) {
			c.pre.aux[r.Intn(n)] = 0
		}
		c.bodyKind = "ignored_preparsed"
	}
	return runC10(c, "random", idx)
}

func corpusC10() []Case {
	checkToLowerAssumption()
	var out []Case
	add := func(c c10Case, kind string) { out = append(out, runC10(c, kind, len(out))) }
	// boundary ids x modes, aux list with every boundary id, both paths
	full := bodySpec{stamp: 1, name: []byte("client7"), uid: 0, gid: 0, count: 7, gids: c10IDs}
	for _, m := range []string{"root", "RoOt", "all", "ALL", "none", "None", "", "bogus", "rööt"} {
		for _, ug := range [][2]uint32{{0, 0}, {0, 1000}, {1000, 0}, {1000, 1000}, {65534, 65534}, {1<<32 - 1, 1 << 31}} {
			s := full
			s.uid, s.gid = ug[0], ug[1]
			add(c10Case{squash: m, flavor: absnfs.AUTH_SYS, body: s.bytes(), bodyKind: "wellformed"}, "table")
			if squashKindName(m) != "unknown" && squashKindName(m) != "nonascii" {
				add(c10Case{via: true, squash: m, flavor: absnfs.AUTH_SYS, body: s.bytes(), bodyKind: "wellformed"}, "table-handlecall")
			}
			add(c10Case{squash: m, flavor: absnfs.AUTH_SYS, pre: &c10Pre{uid: ug[0], gid: ug[1], aux: append([]uint32{}, c10IDs...)}, bodyKind: "ignored_preparsed"}, "table-shared-slice")
		}
	}
	// every truncation of one body; 16 gids accepted, 17 refused
	b16 := bodySpec{stamp: 2, name: []byte("ab"), uid: 5, gid: 6, count: 16, gids: make([]uint32, 16)}.bytes()
	for n := 0; n <= len(b16); n++ {
		add(c10Case{squash: "root", flavor: absnfs.AUTH_SYS, body: b16[:n], bodyKind: "truncated"}, "every-truncation")
	}
	add(c10Case{squash: "root", flavor: absnfs.AUTH_SYS, body: bodySpec{stamp: 2, name: []byte("ab"), uid: 5, gid: 6, count: 17, gids: make([]uint32, 17)}.bytes(), bodyKind: "too_many_gids"}, "gid-limit")
	add(c10Case{via: true, squash: "none", flavor: absnfs.AUTH_SYS, body: bodySpec{stamp: 2, name: []byte("ab"), uid: 5, gid: 6, count: 17, gids: make([]uint32, 17)}.bytes(), bodyKind: "too_many_gids"}, "gid-limit")
	// machine name exactly at and just beyond the string limit
	add(c10Case{squash: "all", flavor: absnfs.AUTH_SYS, body: bodySpec{name: bytes.Repeat([]byte("n"), 8192), uid: 1, gid: 1}.bytes(), bodyKind: "name_8192"}, "name-limit")
	add(c10Case{squash: "all", flavor: absnfs.AUTH_SYS, body: bodySpec{name: bytes.Repeat([]byte("n"), 8193), uid: 1, gid: 1}.bytes(), bodyKind: "name_8193"}, "name-limit")
	// flavours
	for _, f := range []uint32{0, 2, 3, 6, 1<<32 - 1} {
		add(c10Case{squash: "none", flavor: f, body: full.bytes(), bodyKind: "wellformed"}, "flavours")
		add(c10Case{via: true, squash: "none", flavor: f, body: full.bytes(), bodyKind: "wellformed"}, "flavours")
	}
	return out
}
