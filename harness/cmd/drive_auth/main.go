// drive_auth: cases for host filtering (C09), identity squashing (C10) and ACCESS (C12).
package main

import "verifharness/lib"

func main() { lib.Main() }
