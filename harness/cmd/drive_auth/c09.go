package main

import (
	"bytes"
	"encoding/binary"
	"fmt"
	"net/netip"
	"strings"

	. "verifharness/lib"

	"github.com/absfs/absnfs"
)

// C09: allow-lists against both host filters and against HandleCall (reply kind, backend log).
// Address and CIDR strings are parsed here with net/netip (the independent oracle); the Coq side
// receives the parsed forms and evaluates the model and the arithmetic membership spec on them.
func init() {
	Props["C09"] = &Prop{
		Imports:    "From Coq Require Import Uint63.\nFrom Verif Require Import Corr.C09.",
		Gen:        genC09,
		Corpus:     corpusC09,
		NonTrivial: func(c *Case) bool { return c.Tags["denied"] > 0 && c.Tags["accepted"] > 0 },
		ShardSize:  40,
	}
}

type c09Probe struct {
	client string
	port   int
	flavor uint32
	prog   uint32
	vers   uint32
	proc   uint32
	what   string // label of the call made
	drain  bool   // make the call while a policy update holds policyRWMu
}

// ---- the netip oracle ----

func limbs(a netip.Addr) string {
	b := a.As16()
	xs := make([]uint64, 4)
	for i := 0; i < 4; i++ {
		xs[i] = uint64(binary.BigEndian.Uint32(b[12-4*i : 16-4*i]))
	}
	return CIs(xs)
}

// oracleAddr: the parsed form of what net.ParseIP accepts (no zone).
func oracleAddr(s string) (netip.Addr, bool) {
	a, err := netip.ParseAddr(s)
	if err != nil || a.Zone() != "" {
		return netip.Addr{}, false
	}
	return a, true
}

func coqClient(s string) string {
	if a, ok := oracleAddr(s); ok {
		return "(Some " + limbs(a) + ")"
	}
	return "None"
}

// coqEntry: an entry with '/' is "<address>/<decimal digits>" (net.ParseCIDR takes the text up to
// the first '/' as the address and requires the rest to be all digits); whether the length fits
// the family is left to the model.
func coqEntry(s string) (string, string) {
	i := strings.IndexByte(s, '/')
	if i < 0 {
		if a, ok := oracleAddr(s); ok {
			return "IS (Some " + limbs(a) + ")", "single"
		}
		return "IS None", "single_malformed"
	}
	a, ok := oracleAddr(s[:i])
	m := s[i+1:]
	if !ok || m == "" {
		return "ICd None", "cidr_malformed"
	}
	n := uint64(0)
	for _, ch := range []byte(m) {
		if ch < '0' || ch > '9' {
			return "ICd None", "cidr_malformed"
		}
		if n < 1_000_000 {
			n = n*10 + uint64(ch-'0')
		}
	}
	kind := "cidr6"
	if a.Is4() {
		kind = "cidr4"
	} else if a.Is4In6() {
		kind = "cidr4in6"
	}
	if (a.Is4() && n > 32) || n > 128 {
		kind += "_len_out_of_range"
	}
	return fmt.Sprintf("ICd (Some (%s, %s, %s))", limbs(a), CBool(a.Is4()), CI(n)), kind
}

// ---- running a case ----

func mkdirArgs(fh uint64, name string) []byte {
	var b bytes.Buffer
	binary.Write(&b, binary.BigEndian, uint32(8))
	binary.Write(&b, binary.BigEndian, fh)
	binary.Write(&b, binary.BigEndian, uint32(len(name)))
	b.WriteString(name)
	for b.Len()%4 != 0 {
		b.WriteByte(0)
	}
	binary.Write(&b, binary.BigEndian, uint32(1)) // set mode
	binary.Write(&b, binary.BigEndian, uint32(0o755))
	for i := 0; i < 5; i++ { // uid, gid, size, atime, mtime: don't set
		binary.Write(&b, binary.BigEndian, uint32(0))
	}
	return b.Bytes()
}

func xdrString(s string) []byte {
	var b bytes.Buffer
	binary.Write(&b, binary.BigEndian, uint32(len(s)))
	b.WriteString(s)
	for b.Len()%4 != 0 {
		b.WriteByte(0)
	}
	return b.Bytes()
}

var c09seq int

func runC09(entries []string, secure bool, probes []c09Probe, kind string, idx int) Case {
	r := newRig(absnfs.ExportOptions{AllowedIPs: entries, Secure: secure, MaxWorkers: 2})
	defer r.nfs.Close()
	rootFH, err := r.nfs.VerifAuthHandleFor("/")
	if err != nil {
		panic(err)
	}
	tags := map[string]int{"entries": len(entries), "probes": len(probes)}
	if secure {
		tags["secure_cases"]++
	}
	if len(entries) == 0 {
		tags["empty_list_cases"]++
	}
	var coqEntries []string
	for _, e := range entries {
		ce, k := coqEntry(e)
		coqEntries = append(coqEntries, ce)
		tags["entry_"+k]++
	}
	var coqProbes, txt []string
	for _, p := range probes {
		dAuth := absnfs.VerifAuthIsIPAllowed(p.client, entries)
		dSrv := r.srv.VerifAuthServerIsIPAllowed(p.client)
		cred := absnfs.RPCCredential{Flavor: p.flavor}
		if p.flavor == absnfs.AUTH_SYS {
			cred.Body = authSysBody(1, "h", 1000, 1000, nil)
		}
		var args []byte
		switch p.what {
		case "GETATTR", "ACCESS":
			args = accessArgs(r.fh, 63)
		case "MKDIR":
			c09seq++
			args = mkdirArgs(rootFH, fmt.Sprintf("d%d", c09seq))
		case "MNT":
			args = xdrString("/")
		case "LOOKUP":
			var b bytes.Buffer
			b.Write(accessArgs(rootFH, 0)[:12])
			b.Write(xdrString("obj"))
			args = b.Bytes()
		case "garbage":
			args = []byte{1, 2, 3}
		}
		r.fs.FS.TakeLog()
		tableBefore := len(r.nfs.VerifFileMap().VerifTable())
		if p.drain {
			r.nfs.VerifLockPolicy()
		}
		res := r.call(p.prog, p.vers, p.proc, cred, args, p.client, p.port)
		if p.drain {
			r.nfs.VerifUnlockPolicy()
		}
		calls := len(r.fs.FS.TakeLog())
		unchanged := len(r.nfs.VerifFileMap().VerifTable()) == tableBefore
		denied := res.reply.Status == absnfs.MSG_DENIED
		if !denied && res.reply.Status != absnfs.MSG_ACCEPTED {
			panic(fmt.Sprintf("reply status %d", res.reply.Status))
		}
		coqProbes = append(coqProbes, fmt.Sprintf("PR %s %s %d %d %s %s %s %d %s", CBool(p.drain), coqClient(p.client), p.port, p.flavor,
			CBool(dAuth), CBool(dSrv), CBool(denied), calls, CBool(unchanged)))
		dr := ""
		if p.drain {
			dr = "[during policy drain] "
			tags["during_policy_drain"]++
			if !dAuth && len(entries) > 0 && !denied {
				tags["drain_answers_unlisted_host"]++
			}
		}
		txt = append(txt, fmt.Sprintf(dr+"%q:%d flavor=%d %s(prog %d v%d proc %d) -> isIPAllowed=%v Server.isIPAllowed=%v denied=%v backend_calls=%d table_unchanged=%v",
			p.client, p.port, p.flavor, p.what, p.prog, p.vers, p.proc, dAuth, dSrv, denied, calls, unchanged))
		// distribution
		if a, ok := oracleAddr(p.client); ok {
			switch {
			case a.Is4():
				tags["client_v4"]++
			case a.Is4In6():
				tags["client_v4mapped"]++
			default:
				tags["client_v6"]++
			}
		} else if strings.Contains(p.client, "%") {
			tags["client_zoned"]++
		} else {
			tags["client_malformed"]++
		}
		tags[fmt.Sprintf("port_%d", p.port)]++
		tags["call_"+p.what]++
		if denied {
			tags["denied"]++
		} else {
			tags["accepted"]++
			if calls > 0 {
				tags["accepted_with_backend_calls"]++
			}
		}
		if dAuth {
			tags["filter_allows"]++
		} else {
			tags["filter_refuses"]++
		}
	}
	coq := fmt.Sprintf("IC9 %s %s %s", CList(coqEntries), CBool(secure), CList(coqProbes))
	text := fmt.Sprintf("AllowedIPs=%q Secure=%v\n%s", entries, secure, strings.Join(txt, "\n"))
	return Case{Index: idx, Kind: kind, Coq: coq, Tags: tags, Text: text}
}

// ---- generators ----

func randV4(r *Rand) netip.Addr {
	if r.Chance(25) {
		return netip.MustParseAddr(PickStr(r, "0.0.0.0", "255.255.255.255", "127.0.0.1", "10.0.0.1", "192.168.1.1", "192.168.1.255", "128.0.0.0", "1.2.3.4"))
	}
	var b [4]byte
	binary.BigEndian.PutUint32(b[:], uint32(r.U64()))
	return netip.AddrFrom4(b)
}

func randV6(r *Rand) netip.Addr {
	if r.Chance(30) {
		return netip.MustParseAddr(PickStr(r, "::", "::1", "fe80::1", "2001:db8::1", "ffff:ffff:ffff:ffff:ffff:ffff:ffff:ffff",
			"::fffe:1.2.3.4", "0:0:0:0:0:fffe::", "::1:0:0:0", "64:ff9b::1.2.3.4", "8000::", "::ffff:0:0:0"))
	}
	var b [16]byte
	binary.BigEndian.PutUint64(b[:8], r.U64())
	binary.BigEndian.PutUint64(b[8:], r.U64())
	if r.Chance(30) { // sparse
		for i := 2; i < 14; i++ {
			b[i] = 0
		}
	}
	a := netip.AddrFrom16(b)
	if a.Is4In6() {
		b[0] = 0x20
		a = netip.AddrFrom16(b)
	}
	return a
}

// spellings of an address: plain, and for IPv4 the two v4-mapped spellings
func spell(r *Rand, a netip.Addr) string {
	if a.Is4() {
		switch r.Intn(4) {
		case 0:
			return "::ffff:" + a.String()
		case 1:
			b := a.As4()
			return fmt.Sprintf("::ffff:%x:%x", uint16(b[0])<<8|uint16(b[1]), uint16(b[2])<<8|uint16(b[3]))
		}
		return a.String()
	}
	if a.Is4In6() {
		if r.Bool() {
			return a.Unmap().String()
		}
		return a.String()
	}
	s := a.String()
	if r.Chance(20) {
		s = strings.ToUpper(s)
	}
	if r.Chance(10) {
		s = a.StringExpanded()
	}
	return s
}

var malformedAddrs = []string{"", " ", "1.2.3", "1.2.3.4.5", "256.1.1.1", "01.2.3.4", "1.2.3.04", "1.2.3.4 ", " 1.2.3.4", "1.2.3.-4", "1..3.4",
	":::", "gggg::1", "1:2:3:4:5:6:7:8:9", "1:2:3:4:5:6:7", "::1::", "[::1]", "localhost", "::ffff:1.2.3.256", "::ffff:1.2.3", "1.2.3.4:80",
	"0x7f.0.0.1", "127.1", "fe80::1%", "1.2.3.4%eth0", "12345::1", "::1.2.3.4.5", "1.2.3.4/32", "١.٢.٣.٤"}

var zonedAddrs = []string{"fe80::1%eth0", "fe80::1%1", "::1%lo", "ff02::1%eth0", "fe80::abcd%wlan0"}

func setBit(b *[16]byte, i int, v bool) { // bit 0 = most significant
	if v {
		b[i/8] |= 0x80 >> (i % 8)
	} else {
		b[i/8] &^= 0x80 >> (i % 8)
	}
}
func getBit(b *[16]byte, i int) bool { return b[i/8]&(0x80>>(i%8)) != 0 }

// related: an address inside the /p network of base (p counted in base's own family), or just
// outside it (the last prefix bit flipped).
func related(r *Rand, base netip.Addr, p int, inside bool) netip.Addr {
	b := base.As16()
	off := 0
	bits := 128
	if base.Is4() {
		off, bits = 96, 32
	}
	for i := off + p; i < off+bits; i++ {
		setBit(&b, i, r.Bool())
	}
	if !inside && p > 0 {
		setBit(&b, off+p-1, !getBit(&b, off+p-1))
	}
	a := netip.AddrFrom16(b)
	if base.Is4() {
		return a.Unmap()
	}
	return a
}

type entryGen struct {
	text string
	base netip.Addr
	p    int  // prefix length in base's family, -1 for none
	ok   bool // base valid
}

func genEntry(r *Rand) entryGen {
	switch x := r.Intn(100); {
	case x < 18:
		a := randV4(r)
		return entryGen{text: spell(r, a), base: a, p: 32, ok: true}
	case x < 30:
		a := randV6(r)
		return entryGen{text: spell(r, a), base: a, p: 128, ok: true}
	case x < 52:
		a := randV4(r)
		p := r.Intn(33)
		txt := fmt.Sprintf("%s/%d", a, p)
		if r.Chance(50) { // canonical network address
			txt = netip.PrefixFrom(a, p).Masked().String()
		}
		return entryGen{text: txt, base: a, p: p, ok: true}
	case x < 70:
		a := randV6(r)
		p := r.Intn(129)
		if r.Chance(25) {
			p = PickInt(r, 0, 1, 8, 64, 95, 96, 97, 127, 128)
		}
		txt := fmt.Sprintf("%s/%d", a, p)
		if r.Chance(50) {
			txt = netip.PrefixFrom(a, p).Masked().String()
		}
		return entryGen{text: txt, base: a, p: p, ok: true}
	case x < 80:
		// v4-mapped literal with a 128-bit prefix length (every length, the boundary 96 in particular)
		a := randV4(r)
		p := r.Intn(129)
		if r.Chance(40) {
			p = PickInt(r, 0, 80, 95, 96, 97, 104, 120, 127, 128)
		}
		base := netip.AddrFrom16(a.As16())
		return entryGen{text: fmt.Sprintf("::ffff:%s/%d", a, p), base: base, p: p, ok: true}
	case x < 84:
		return entryGen{text: PickStr(r, "::/0", "0.0.0.0/0", "::ffff:0:0/96", "::/96", "::/80", "::ffff:0:0/95", "0.0.0.0/1", "128.0.0.0/1", "8000::/1"), p: -1}
	case x < 88:
		return entryGen{text: zonedAddrs[r.Intn(len(zonedAddrs))] + PickStr(r, "", "/64"), p: -1}
	case x < 94:
		a := randV4(r)
		return entryGen{text: a.String() + PickStr(r, "/", "/33", "/-1", "/ 24", "/24 ", "/24/1", "/024", "/+24", "/999999999999", "/0x18", "/2a", "/129", "//24"), p: -1}
	case x < 97:
		a := randV6(r)
		return entryGen{text: a.String() + PickStr(r, "/129", "/", "/-0", "/1000", "/0128", "/64/64"), p: -1}
	}
	return entryGen{text: PickStr(r, "/24", "/", "banana", "", "1.2.3/24", "300.1.1.1/8", "1.2.3.4.5/8", "gg::/8", "*", "0/0", "10.0.0.0-10.0.0.9"), p: -1}
}

var c09Calls = []struct {
	what             string
	prog, vers, proc uint32
}{
	{"NULL", 100003, 3, 0}, {"GETATTR", 100003, 3, 1}, {"GETATTR", 100003, 3, 1}, {"ACCESS", 100003, 3, 4}, {"LOOKUP", 100003, 3, 3},
	{"MKDIR", 100003, 3, 9}, {"MKDIR", 100003, 3, 9}, {"MNT", 100005, 3, 1}, {"MNT", 100005, 1, 1}, {"garbage", 100003, 3, 7},
	{"garbage", 100003, 3, 21}, {"garbage", 100003, 3, 99}, {"garbage", 100003, 2, 1}, {"garbage", 100005, 3, 5}, {"garbage", 100000, 2, 3},
	{"garbage", 4242, 1, 0},
}

var c09Ports = []int{0, 1, 1023, 1024, 65535}

func genC09(r *Rand, idx int, tier string) Case {
	n := 1 + r.Intn(6)
	if r.Chance(10) {
		n = 0
	}
	var gens []entryGen
	var entries []string
	for i := 0; i < n; i++ {
		g := genEntry(r)
		gens = append(gens, g)
		entries = append(entries, g.text)
	}
	secure := r.Chance(50)
	var probes []c09Probe
	np := 8 + r.Intn(8)
	for i := 0; i < np; i++ {
		var client string
		switch x := r.Intn(100); {
		case x < 55 && len(gens) > 0:
			// related to an entry: inside or just outside its network, possibly in the other spelling
			g := gens[r.Intn(len(gens))]
			if g.ok {
				client = spell(r, related(r, g.base, g.p, r.Chance(60)))
			} else {
				client = spell(r, randV4(r))
			}
		case x < 68:
			client = spell(r, randV4(r))
		case x < 80:
			client = spell(r, randV6(r))
		case x < 86:
			client = zonedAddrs[r.Intn(len(zonedAddrs))]
		default:
			client = malformedAddrs[r.Intn(len(malformedAddrs))]
		}
		c := c09Calls[r.Intn(len(c09Calls))]
		fl := uint32(absnfs.AUTH_NONE)
		switch x := r.Intn(10); {
		case x < 3:
			fl = absnfs.AUTH_SYS
		case x == 3:
			fl = 2
		}
		probes = append(probes, c09Probe{client: client, port: c09Ports[r.Intn(len(c09Ports))], flavor: fl,
			prog: c.prog, vers: c.vers, proc: c.proc, what: c.what, drain: r.Chance(6)})
	}
	return runC09(entries, secure, probes, "random", idx)
}

func corpusC09() []Case {
	var out []Case
	mk := func(client string, port int, what string) c09Probe {
		for _, c := range c09Calls {
			if c.what == what {
				return c09Probe{client: client, port: port, flavor: absnfs.AUTH_NONE, prog: c.prog, vers: c.vers, proc: c.proc, what: what}
			}
		}
		panic(what)
	}
	// every IPv4 prefix length: one client inside, one just outside, in both spellings
	for half := 0; half < 3; half++ {
		var entries []string
		var probes []c09Probe
		r := NewRand(99, uint64(half))
		for p := half * 11; p < (half+1)*11 && p <= 32; p++ {
			base := netip.MustParseAddr(fmt.Sprintf("%d.%d.%d.%d", 10+p, 200-p, 3*p, 129))
			entries = append(entries, netip.PrefixFrom(base, p).Masked().String())
			in, outA := related(r, base, p, true), related(r, base, p, false)
			probes = append(probes, mk(in.String(), 700, "GETATTR"), mk("::ffff:"+in.String(), 1024, "MKDIR"),
				mk(outA.String(), 700, "MKDIR"), mk("::ffff:"+outA.String(), 700, "GETATTR"))
		}
		out = append(out, runC09(entries, half == 1, probes, "every-v4-prefix", len(out)))
	}
	// IPv6 prefix lengths 0..128 in steps, v4-mapped literals around 96
	for part := 0; part < 4; part++ {
		var entries []string
		var probes []c09Probe
		r := NewRand(98, uint64(part))
		for p := part * 33; p < (part+1)*33 && p <= 128; p++ {
			base := netip.MustParseAddr(fmt.Sprintf("2001:db8:%x:%x::%x", p+1, 0xffff-p, p*7+1))
			entries = append(entries, netip.PrefixFrom(base, p).Masked().String())
			probes = append(probes, mk(related(r, base, p, true).String(), 1, "GETATTR"), mk(related(r, base, p, false).String(), 1, "MKDIR"))
		}
		out = append(out, runC09(entries, false, probes, "every-v6-prefix", len(out)))
	}
	for _, p := range []int{0, 1, 64, 80, 95, 96, 97, 104, 120, 128} {
		e := fmt.Sprintf("::ffff:192.168.7.0/%d", p)
		out = append(out, runC09([]string{e}, true, []c09Probe{
			mk("192.168.7.9", 1023, "GETATTR"), mk("::ffff:192.168.7.9", 1023, "MKDIR"), mk("192.168.8.9", 1023, "MKDIR"),
			mk("::ffff:c0a8:0709", 1024, "GETATTR"), mk("2001:db8::1", 1023, "GETATTR"), mk("::1", 0, "MNT"),
			mk("192.168.7.0", 65535, "NULL"), mk("10.1.2.3", 1, "LOOKUP"),
		}, "v4mapped-cidr", len(out)))
	}
	// the fail-closed family rule, empty list, malformed everything
	out = append(out, runC09([]string{"::/0"}, false, []c09Probe{mk("10.0.0.1", 700, "MKDIR"), mk("::ffff:10.0.0.1", 700, "GETATTR"),
		mk("2001:db8::1", 700, "GETATTR"), mk("::1", 700, "MKDIR"), mk("fe80::1%eth0", 700, "GETATTR")}, "v6-all-vs-v4", len(out)))
	out = append(out, runC09([]string{"0.0.0.0/0"}, true, []c09Probe{mk("10.0.0.1", 1023, "MKDIR"), mk("::ffff:10.0.0.1", 1024, "GETATTR"),
		mk("2001:db8::1", 1, "GETATTR"), mk("255.255.255.255", 0, "GETATTR")}, "v4-all", len(out)))
	dr := func(p c09Probe) c09Probe { p.drain = true; return p }
	out = append(out, runC09([]string{"10.0.0.0/8"}, true, []c09Probe{dr(mk("192.168.1.1", 40000, "NULL")), dr(mk("192.168.1.1", 40000, "MKDIR")),
		dr(mk("10.1.1.1", 700, "MKDIR")), mk("192.168.1.1", 40000, "NULL"), mk("10.1.1.1", 700, "MKDIR"), dr(mk("192.168.1.1", 1, "MNT"))}, "policy-drain", len(out)))
	out = append(out, runC09(nil, true, []c09Probe{mk("10.0.0.1", 1023, "MKDIR"), mk("not an address", 1023, "GETATTR"),
		mk("10.0.0.1", 1024, "MKDIR"), mk("", 65535, "GETATTR"), mk("fe80::1%eth0", 0, "MNT")}, "empty-list-secure", len(out)))
	var ps []c09Probe
	for i, m := range malformedAddrs {
		ps = append(ps, mk(m, c09Ports[i%5], []string{"GETATTR", "MKDIR", "MNT", "NULL"}[i%4]))
	}
	out = append(out, runC09([]string{"0.0.0.0/0", "::/0"}, false, ps, "malformed-clients", len(out)))
	out = append(out, runC09([]string{"1.2.3.4/33", "1.2.3.4/", "/24", "1.2.3.4/024", "::/129", "fe80::1%eth0", "fe80::%eth0/64", "1.2.3.4/24/1", "", "banana"},
		false, []c09Probe{mk("1.2.3.4", 5, "MKDIR"), mk("1.2.3.77", 5, "GETATTR"), mk("fe80::1", 5, "GETATTR"), mk("::", 5, "GETATTR")}, "malformed-entries", len(out)))
	return out
}
