package main

import (
	"bytes"
	"encoding/binary"
	"fmt"
	"io"
	"log"
	"os"
	"strings"
	"time"

	"verifharness/specfs"

	"github.com/absfs/absnfs"
)

// modeFS is the recording backend specfs with one twist: Lstat of objPath reports whatever
// os.FileMode the test point asks for (type bits, setuid/setgid/sticky and undefined bits
// included), so that handleAccess is driven over the full mode space.
type modeFS struct {
	*specfs.FS
	objPath string
	mode    os.FileMode
}

type fakeInfo struct {
	os.FileInfo
	mode os.FileMode
}

func (f fakeInfo) Mode() os.FileMode { return f.mode }
func (f fakeInfo) IsDir() bool       { return f.mode.IsDir() }

func (m *modeFS) Lstat(p string) (os.FileInfo, error) {
	fi, err := m.FS.Lstat(p)
	if err != nil || p != m.objPath {
		return fi, err
	}
	return fakeInfo{fi, m.mode}, nil
}

// rig is one export (read-write or read-only) over a backend, driven without a socket.
type rig struct {
	fs  *modeFS
	nfs *absnfs.AbsfsNFS
	srv *absnfs.Server
	h   *absnfs.NFSProcedureHandler
	fh  uint64 // handle of /obj
	xid uint32
}

func newRig(opts absnfs.ExportOptions) *rig {
	log.SetOutput(io.Discard)
	base := specfs.New()
	fs := &modeFS{FS: base, objPath: "/obj", mode: 0o644}
	f, err := base.Create("/obj")
	if err != nil {
		panic(err)
	}
	f.Close()
	if err := base.Mkdir("/dir", 0o755); err != nil {
		panic(err)
	}
	nfs, err := absnfs.New(fs, opts)
	if err != nil {
		panic(err)
	}
	srv, h := absnfs.VerifAuthNewHandler(nfs)
	fh, err := nfs.VerifAuthHandleFor("/obj")
	if err != nil {
		panic(err)
	}
	base.TakeLog()
	return &rig{fs: fs, nfs: nfs, srv: srv, h: h, fh: fh}
}

// authSysBody encodes an AUTH_SYS credential body (RFC 5531 authsys_parms).
func authSysBody(stamp uint32, machine string, uid, gid uint32, aux []uint32) []byte {
	var b bytes.Buffer
	binary.Write(&b, binary.BigEndian, stamp)
	binary.Write(&b, binary.BigEndian, uint32(len(machine)))
	b.WriteString(machine)
	for b.Len()%4 != 0 {
		b.WriteByte(0)
	}
	binary.Write(&b, binary.BigEndian, uid)
	binary.Write(&b, binary.BigEndian, gid)
	binary.Write(&b, binary.BigEndian, uint32(len(aux)))
	for _, g := range aux {
		binary.Write(&b, binary.BigEndian, g)
	}
	return b.Bytes()
}

type callResult struct {
	reply  *absnfs.RPCReply
	data   []byte
	ctx    *absnfs.AuthContext
	nilRep bool
}

// call hands one RPC call to HandleCall exactly as the connection loop does after decoding it.
func (r *rig) call(prog, vers, proc uint32, cred absnfs.RPCCredential, body []byte, ip string, port int) callResult {
	r.xid++
	c := &absnfs.RPCCall{
		Header: absnfs.RPCMsgHeader{Xid: r.xid, MsgType: absnfs.RPC_CALL, RPCVersion: 2,
			Program: prog, Version: vers, Procedure: proc},
		Credential: cred,
	}
	ctx := &absnfs.AuthContext{ClientIP: ip, ClientPort: port, Credential: &c.Credential}
	rep, err := r.h.HandleCall(c, bytes.NewReader(body), ctx)
	if err != nil {
		panic(fmt.Sprintf("HandleCall error: %v", err))
	}
	res := callResult{reply: rep, ctx: ctx}
	if rep == nil {
		res.nilRep = true
		return res
	}
	if d, ok := rep.Data.([]byte); ok {
		res.data = d
	}
	return res
}

func accessArgs(fh uint64, mask uint32) []byte {
	var b bytes.Buffer
	binary.Write(&b, binary.BigEndian, uint32(8))
	binary.Write(&b, binary.BigEndian, fh)
	binary.Write(&b, binary.BigEndian, mask)
	return b.Bytes()
}

// accessWord extracts the `access` field of an ACCESS3resok (status, post_op_attr present, fattr3, access).
func accessWord(d []byte) (uint32, error) {
	if len(d) < 8 {
		return 0, fmt.Errorf("short ACCESS reply (%d bytes)", len(d))
	}
	if st := binary.BigEndian.Uint32(d[0:4]); st != 0 {
		return 0, fmt.Errorf("ACCESS status %d", st)
	}
	if binary.BigEndian.Uint32(d[4:8]) != 1 || len(d) != 8+84+4 {
		return 0, fmt.Errorf("unexpected ACCESS3resok shape (%d bytes)", len(d))
	}
	return binary.BigEndian.Uint32(d[len(d)-4:]), nil
}

var _ = time.Now

// CI prints a value below 2^63 as a primitive-integer literal (see coq/Corr/AuthInts.v);
// where the expected type is `int` the delimiter is not needed, inside list notations it is.
func CI(x uint64) string { return fmt.Sprintf("%d%%uint63", x) }
func CIs(xs []uint64) string {
	out := make([]string, len(xs))
	for i, x := range xs {
		out[i] = CI(x)
	}
	return "[" + strings.Join(out, "; ") + "]"
}
