package main

import (
	"bytes"
	"encoding/binary"
	"errors"
	"fmt"
	"io"
	"net"
	"net/netip"
	"os"
	"strings"
	"time"

	. "verifharness/lib"
	"verifharness/specfs"

	"github.com/absfs/absnfs"
)

// C09conn: C09 on live TCP connections.  A real server (absnfs.New over specfs, NewServer + Listen
// on 127.0.0.1:0 with record marking) serves one or two long-lived client connections while the
// policy is changed under them (UpdatePolicyOptions / UpdateExportOptions: AllowedIPs with and
// without the client's address in every spelling, Secure on/off); calls go out on connections opened
// BEFORE and AFTER each update.  Per call: accepted / denied (reject_stat, auth_stat) / closed,
// backend calls, visible effect.  The Coq oracle (Corr/C09conn.v) judges every call by the policy in
// force when it is sent.
func init() {
	Props["C09conn"] = &Prop{
		Imports: "From Coq Require Import Uint63.\nFrom Verif Require Import Corr.C09 Corr.C09conn.",
		Gen:     genC09conn,
		Corpus:  corpusC09conn,
		NonTrivial: func(c *Case) bool {
			return c.Tags["established_call_after_update_now_refused"] > 0 || c.Tags["established_call_after_update_now_admitted"] > 0
		},
		ShardSize: 40,
	}
}

type connStep struct {
	// update
	update  bool
	entries []string
	secure  bool
	viaEO   bool // UpdateExportOptions instead of UpdatePolicyOptions
	// call
	slot   int    // 0,1 long-lived slots; -1 = a connection opened just for this call
	reopen bool   // close the slot's connection and open a new one first
	priv   bool   // bind the client side to a privileged local port (when opening)
	what   string // NULL GETATTR MKDIR LOOKUP ACCESS MNT
	flavor uint32
	// close
	closeSlot bool
}

type liveConn struct {
	c          net.Conn
	port       int
	addr       netip.Addr
	replies    int // replies received on it so far
	openedStep int // index of the last update before it was opened (-1 = initial policy)
}

const (
	outAccepted = 0
	outDenied   = 1
	outClosed   = 2
	outTimeout  = 3
)

var privPortNext = 600

// dialServer opens a client connection; with priv it binds the local side to a port below 1024
// (the driver runs as root in the sandbox; if binding fails an ordinary port is used).
func dialServer(port int, priv bool) (*liveConn, error) {
	target := fmt.Sprintf("127.0.0.1:%d", port)
	if priv && os.Geteuid() == 0 {
		for try := 0; try < 40; try++ {
			privPortNext++
			if privPortNext > 1020 {
				privPortNext = 600
			}
			d := net.Dialer{Timeout: 2 * time.Second, LocalAddr: &net.TCPAddr{IP: net.IPv4(127, 0, 0, 1), Port: privPortNext}}
			if c, err := d.Dial("tcp4", target); err == nil {
				return wrapConn(c), nil
			}
		}
	}
	c, err := net.DialTimeout("tcp4", target, 2*time.Second)
	if err != nil {
		return nil, err
	}
	return wrapConn(c), nil
}

func wrapConn(c net.Conn) *liveConn {
	la := c.LocalAddr().(*net.TCPAddr)
	a, _ := netip.AddrFromSlice(la.IP.To4())
	if tc, ok := c.(*net.TCPConn); ok {
		tc.SetLinger(0) // no TIME_WAIT pile-up on the privileged ports
	}
	return &liveConn{c: c, port: la.Port, addr: a}
}

// rpcExchange sends one record-marked call and classifies what comes back.
func rpcExchange(lc *liveConn, xid, prog, vers, proc, flavor uint32, args []byte) (outcome int, rejectStat, authStat uint32, detail string) {
	var m bytes.Buffer
	for _, v := range []uint32{xid, 0, 2, prog, vers, proc} {
		binary.Write(&m, binary.BigEndian, v)
	}
	var cred []byte
	if flavor == absnfs.AUTH_SYS {
		cred = authSysBody(1, "h", 1000, 1000, nil)
	}
	binary.Write(&m, binary.BigEndian, flavor)
	binary.Write(&m, binary.BigEndian, uint32(len(cred)))
	m.Write(cred)
	binary.Write(&m, binary.BigEndian, uint32(0))
	binary.Write(&m, binary.BigEndian, uint32(0))
	m.Write(args)
	var frame bytes.Buffer
	binary.Write(&frame, binary.BigEndian, uint32(0x80000000)|uint32(m.Len()))
	frame.Write(m.Bytes())
	lc.c.SetDeadline(time.Now().Add(10 * time.Second))
	if _, err := lc.c.Write(frame.Bytes()); err != nil {
		return outClosed, 0, 0, "write: " + err.Error()
	}
	var rec []byte
	for {
		var hdr [4]byte
		if _, err := io.ReadFull(lc.c, hdr[:]); err != nil {
			var ne net.Error
			if errors.As(err, &ne) && ne.Timeout() {
				return outTimeout, 0, 0, "no answer within 10 s"
			}
			return outClosed, 0, 0, "read: " + err.Error()
		}
		h := binary.BigEndian.Uint32(hdr[:])
		frag := make([]byte, h&0x7fffffff)
		if _, err := io.ReadFull(lc.c, frag); err != nil {
			return outClosed, 0, 0, "read: " + err.Error()
		}
		rec = append(rec, frag...)
		if h&0x80000000 != 0 {
			break
		}
	}
	lc.replies++
	if len(rec) < 12 || binary.BigEndian.Uint32(rec[0:4]) != xid || binary.BigEndian.Uint32(rec[4:8]) != 1 {
		return outTimeout, 0, 0, fmt.Sprintf("malformed reply % x", rec)
	}
	if binary.BigEndian.Uint32(rec[8:12]) == absnfs.MSG_DENIED {
		if len(rec) >= 20 {
			rejectStat, authStat = binary.BigEndian.Uint32(rec[12:16]), binary.BigEndian.Uint32(rec[16:20])
		}
		return outDenied, rejectStat, authStat, ""
	}
	return outAccepted, 0, 0, ""
}

var c09connSeq int

func runC09conn(initEntries []string, initSecure bool, steps []connStep, kind string, idx int) Case {
	base := specfs.New()
	nfs, err := absnfs.New(base, absnfs.ExportOptions{AllowedIPs: initEntries, Secure: initSecure, MaxWorkers: 2})
	if err != nil {
		panic(err)
	}
	defer nfs.Close()
	srv, err := absnfs.NewServer(absnfs.ServerOptions{Port: 0, Hostname: "127.0.0.1", UseRecordMarking: true})
	if err != nil {
		panic(err)
	}
	srv.SetHandler(nfs)
	if err := srv.Listen(); err != nil {
		panic(err)
	}
	defer srv.Stop()
	rootFH, err := nfs.VerifAuthHandleFor("/")
	if err != nil {
		panic(err)
	}
	port := srv.GetPort()

	tags := map[string]int{"steps": len(steps)}
	curEntries, curSecure := initEntries, initSecure
	lastUpdate := -1
	var slots [2]*liveConn
	var coqSteps, txt []string
	coqList := func(entries []string) string {
		var out []string
		for _, e := range entries {
			ce, _ := coqEntry(e)
			out = append(out, ce)
		}
		return CList(out)
	}
	xid := uint32(100)
	for si, st := range steps {
		switch {
		case st.update:
			var uerr error
			if st.viaEO {
				o := nfs.GetExportOptions()
				o.AllowedIPs, o.Secure = st.entries, st.secure
				uerr = nfs.UpdateExportOptions(o)
				tags["update_via_UpdateExportOptions"]++
			} else {
				cur := nfs.GetExportOptions()
				uerr = nfs.UpdatePolicyOptions(absnfs.PolicyOptions{ReadOnly: cur.ReadOnly, Secure: st.secure, AllowedIPs: st.entries,
					Squash: cur.Squash, MaxFileSize: cur.MaxFileSize})
				tags["update_via_UpdatePolicyOptions"]++
			}
			if uerr != nil {
				panic(fmt.Sprintf("policy update refused: %v", uerr))
			}
			if got := nfs.GetExportOptions(); strings.Join(got.AllowedIPs, ",") != strings.Join(st.entries, ",") || got.Secure != st.secure {
				panic("policy update not in force")
			}
			curEntries, curSecure = st.entries, st.secure
			lastUpdate = si
			coqSteps = append(coqSteps, fmt.Sprintf("SUpdate %s %s", coqList(st.entries), CBool(st.secure)))
			txt = append(txt, fmt.Sprintf("[%d] UPDATE AllowedIPs=%q Secure=%v", si, st.entries, st.secure))
		case st.closeSlot:
			if slots[st.slot] != nil {
				slots[st.slot].c.Close()
				slots[st.slot] = nil
			}
			// a no-op for the oracle: written as an update to the same policy keeps step numbering aligned
			coqSteps = append(coqSteps, fmt.Sprintf("SUpdate %s %s", coqList(curEntries), CBool(curSecure)))
			txt = append(txt, fmt.Sprintf("[%d] CLOSE connection %d", si, st.slot))
		default:
			var lc *liveConn
			fresh := false
			if st.slot >= 0 && slots[st.slot] != nil && !st.reopen {
				lc = slots[st.slot]
			} else {
				if st.slot >= 0 && slots[st.slot] != nil {
					slots[st.slot].c.Close()
					slots[st.slot] = nil
				}
				lc, err = dialServer(port, st.priv)
				if err != nil {
					panic(fmt.Sprintf("dial: %v", err))
				}
				lc.openedStep = lastUpdate
				fresh = true
				if st.slot >= 0 {
					slots[st.slot] = lc
				}
			}
			var args []byte
			target := ""
			switch st.what {
			case "GETATTR":
				args = accessArgs(rootFH, 0)[:12]
			case "ACCESS":
				args = accessArgs(rootFH, 63)
			case "MKDIR":
				c09connSeq++
				target = fmt.Sprintf("/c%d", c09connSeq)
				args = mkdirArgs(rootFH, target[1:])
			case "LOOKUP":
				var b bytes.Buffer
				b.Write(accessArgs(rootFH, 0)[:12])
				b.Write(xdrString("nothing"))
				args = b.Bytes()
			case "MNT":
				args = xdrString("/")
			}
			prog, vers, proc := uint32(absnfs.NFS_PROGRAM), uint32(absnfs.NFS_V3), uint32(0)
			switch st.what {
			case "GETATTR":
				proc = 1
			case "LOOKUP":
				proc = 3
			case "ACCESS":
				proc = 4
			case "MKDIR":
				proc = 9
			case "MNT":
				prog, vers, proc = absnfs.MOUNT_PROGRAM, 3, 1
			}
			base.TakeLog()
			xid++
			outcome, rs, as, detail := rpcExchange(lc, xid, prog, vers, proc, st.flavor, args)
			if outcome == outClosed || outcome == outTimeout {
				time.Sleep(4 * time.Millisecond) // anything the server might still be doing for this call
			}
			calls := len(base.TakeLog())
			effect := false
			if target != "" {
				if _, err := base.Lstat(target); err == nil {
					effect = true
				}
				base.TakeLog()
			}
			coqSteps = append(coqSteps, fmt.Sprintf("SCall %s %s %d %d %d %d %d %d %s", CBool(fresh), "(Some "+limbs(lc.addr)+")", lc.port, st.flavor,
				outcome, rs, as, calls, CBool(effect)))
			cname := "ephemeral"
			if st.slot >= 0 {
				cname = fmt.Sprintf("connection %d", st.slot)
			}
			age := "established"
			if fresh {
				age = "just opened"
			}
			txt = append(txt, fmt.Sprintf("[%d] CALL %s on %s (%s, opened after step %d, peer %s:%d, flavor %d) -> %s reject_stat=%d auth_stat=%d backend_calls=%d effect_visible=%v %s",
				si, st.what, cname, age, lc.openedStep, lc.addr, lc.port, st.flavor,
				[]string{"MSG_ACCEPTED", "MSG_DENIED", "CONNECTION CLOSED", "NO ANSWER"}[outcome], rs, as, calls, effect, detail))
			// distribution
			tags["calls"]++
			tags["call_"+st.what]++
			tags["outcome_"+[]string{"accepted", "denied", "closed", "timeout"}[outcome]]++
			if lc.port < 1024 {
				tags["client_port_privileged"]++
			} else {
				tags["client_port_unprivileged"]++
			}
			if fresh {
				tags["call_on_fresh_connection"]++
			} else {
				tags["call_on_established_connection"]++
				if lc.openedStep != lastUpdate {
					tags["established_call_after_update"]++
					if outcome == outAccepted {
						tags["established_call_after_update_now_admitted"]++
					} else {
						tags["established_call_after_update_now_refused"]++
					}
				}
			}
			if outcome == outAccepted && calls > 0 {
				tags["accepted_with_backend_calls"]++
			}
			if outcome == outClosed || outcome == outTimeout {
				lc.c.Close()
				if st.slot >= 0 {
					slots[st.slot] = nil
				}
			}
			if st.slot < 0 {
				lc.c.Close()
			}
		}
	}
	for _, lc := range slots {
		if lc != nil {
			lc.c.Close()
		}
	}
	coq := fmt.Sprintf("CC %s %s %s", coqList(initEntries), CBool(initSecure), CList(coqSteps))
	text := fmt.Sprintf("initial AllowedIPs=%q Secure=%v (step = line index)\n%s", initEntries, initSecure, strings.Join(txt, "\n"))
	return Case{Index: idx, Kind: kind, Coq: coq, Tags: tags, Text: text}
}

// ---- generator ----

// lists that contain / do not contain 127.0.0.1, in every spelling
var listsWithClient = [][]string{
	{"127.0.0.1"}, {"127.0.0.0/8"}, {"::ffff:127.0.0.1"}, {"::ffff:127.0.0.0/104"}, {"::ffff:7f00:1"}, {"0.0.0.0/0"}, {"126.0.0.0/7"},
	{"127.0.0.1/32"}, {"10.0.0.0/8", "127.0.0.1"}, {"::1", "127.0.0.0/30"}, {"banana", "127.0.0.1"}, {"::/0", "0.0.0.0/1"}, {"::ffff:0:0/96"},
	{"127.0.0.1/33", "127.0.0.1/31"}, {"64.0.0.0/2"},
}
var listsWithoutClient = [][]string{
	{"10.9.8.7"}, {"127.0.0.2"}, {"127.0.0.0/32"}, {"::/0"}, {"::1"}, {"128.0.0.0/1"}, {"127.0.0.1/33"}, {"10.0.0.0/8", "192.168.0.0/16"},
	{"::ffff:127.0.0.2"}, {"::ffff:127.0.0.0/128"}, {"banana"}, {"127.0.1.0/24"}, {"::ffff:0:0/95"}, {"126.0.0.0/8", "128.0.0.0/8"}, {"127.0.0.1/"},
	{"::7f00:1"},
}

func pickList(r *Rand) []string {
	switch x := r.Intn(100); {
	case x < 12:
		return nil
	case x < 52:
		return listsWithClient[r.Intn(len(listsWithClient))]
	case x < 92:
		return listsWithoutClient[r.Intn(len(listsWithoutClient))]
	}
	n := 1 + r.Intn(4)
	var out []string
	for i := 0; i < n; i++ {
		out = append(out, genEntry(r).text)
	}
	return out
}

var connCalls = []string{"NULL", "GETATTR", "MKDIR", "MKDIR", "LOOKUP", "ACCESS", "MNT"}

func genC09conn(r *Rand, idx int, tier string) Case {
	initEntries := pickList(r)
	initSecure := r.Chance(25)
	var steps []connStep
	call := func(slot int, reopen bool) connStep {
		fl := uint32(absnfs.AUTH_NONE)
		if r.Chance(30) {
			fl = absnfs.AUTH_SYS
		}
		return connStep{slot: slot, reopen: reopen, priv: r.Chance(35), what: connCalls[r.Intn(len(connCalls))], flavor: fl}
	}
	// open the long-lived connections under the initial policy
	steps = append(steps, call(0, false))
	if r.Chance(60) {
		steps = append(steps, call(1, false))
	}
	rounds := 2 + r.Intn(4)
	for k := 0; k < rounds; k++ {
		steps = append(steps, connStep{update: true, entries: pickList(r), secure: r.Chance(25), viaEO: r.Bool()})
		n := 2 + r.Intn(4)
		for j := 0; j < n; j++ {
			switch x := r.Intn(100); {
			case x < 45:
				steps = append(steps, call(0, false)) // the connection opened long ago
			case x < 65:
				steps = append(steps, call(1, r.Chance(25))) // second connection, sometimes reopened now
			case x < 70:
				steps = append(steps, connStep{closeSlot: true, slot: r.Intn(2)})
			default:
				steps = append(steps, call(-1, false)) // a connection opened after the update
			}
		}
	}
	return runC09conn(initEntries, initSecure, steps, "random", idx)
}

func corpusC09conn() []Case {
	c := func(slot int, what string) connStep {
		return connStep{slot: slot, what: what, flavor: absnfs.AUTH_NONE}
	}
	u := func(entries []string, secure bool, eo bool) connStep {
		return connStep{update: true, entries: entries, secure: secure, viaEO: eo}
	}
	var out []Case
	// listed when the connection was opened, removed later; listed again; both update paths
	out = append(out, runC09conn([]string{"127.0.0.1"}, false, []connStep{
		c(0, "MKDIR"), u([]string{"10.9.8.7"}, false, false), c(0, "NULL"), c(0, "MKDIR"), c(-1, "MKDIR"),
		u([]string{"127.0.0.0/8"}, false, true), c(0, "MKDIR"), c(-1, "GETATTR"),
		u([]string{"::/0"}, false, true), c(0, "GETATTR"), c(0, "MNT"),
	}, "listed-then-removed", len(out)))
	// no list when the connection was opened, a list without the client later
	out = append(out, runC09conn(nil, false, []connStep{
		c(0, "MKDIR"), c(1, "GETATTR"), u([]string{"10.9.8.7"}, false, true), c(0, "MKDIR"), c(1, "NULL"), c(-1, "NULL"),
		u(nil, false, false), c(0, "MKDIR"), c(1, "MKDIR"),
	}, "empty-then-list", len(out)))
	// Secure switched on under an unprivileged and a privileged connection
	p := c(1, "MKDIR")
	p.priv = true
	p2 := c(1, "GETATTR")
	out = append(out, runC09conn([]string{"127.0.0.0/8"}, false, []connStep{
		c(0, "MKDIR"), p, u([]string{"127.0.0.0/8"}, true, false), c(0, "MKDIR"), p2, c(1, "MKDIR"),
		u([]string{"127.0.0.2"}, true, true), c(0, "NULL"), c(1, "MKDIR"), u(nil, false, true), c(0, "MKDIR"), c(1, "MKDIR"),
	}, "secure-switched", len(out)))
	return out
}
