package main

// C08t: the read-only property (C08) under schedules - what the sequential C08 streams cannot reach.
// Mutating requests (WRITE, SETATTR, CREATE, MKDIR, REMOVE, RENAME, SYMLINK) are admitted while the export is
// read-write, held inside a backend call, time out or not, and overlap UpdatePolicyOptions / UpdateExportOptions
// switching ReadOnly on (and off again); more mutating requests are issued after the switch.  Same machinery and
// same trace format as C16 (c16.go); what is added to the observations:
//   Arrive r c [tag; mutating request; read-only in force when issued]
//   Op r       [tag; live ReadOnly; modifying backend operation; read-only in force]
//   HReturn r  [NFS status]
// "read-only in force" = the latest update that RETURNED set ReadOnly (or the export was built read-only and none
// returned) and no update back to read-write has been called since.  Corr/C08t.v recomputes it from the UCall/URet
// labels and judges the observations alone (code 2); the model side is the PolicyLTS monitor of C16 (code 1).

import (
	. "verifharness/lib"
)

func init() {
	Props["C08t"] = &Prop{
		Imports: "From Verif Require Import Model.PolicyLTS Corr.C16 Corr.C08t.",
		Gen:     genC08t,
		Corpus:  corpusC08t,
		NonTrivial: func(c *Case) bool {
			return c.Tags["enacted"] > 0 && c.Tags["switched_readonly"] > 0 && c.Tags["mutating_requests"] > 0
		},
		ShardSize: 60,
	}
}

var mutKinds = []int{1, 1, 1, 3, 4, 5, 6, 7, 8}

func genC08t(r *Rand, idx int, tier string) Case {
	s := sched{p0: polv{ro: r.Chance(20)}, nreq: 3 + r.Intn(5)}
	ro := s.p0.ro
	n := 7 + r.Intn(10)
	for i := 0; i < n; i++ {
		switch x := r.Intn(100); {
		case x < 40:
			q := reqSt{kind: mutKinds[r.Intn(len(mutKinds))]}
			if r.Chance(12) {
				q.kind = 0
			}
			if r.Chance(80) {
				q.pauses = []int{1 + r.Intn(3)}
				if r.Chance(35) {
					q.pauses = append(q.pauses, q.pauses[0]+1+r.Intn(2))
				}
			}
			q.short = len(q.pauses) > 0 && r.Chance(45)
			s.steps = append(s.steps, step16{act: "issue", req: q})
		case x < 58:
			s.steps = append(s.steps, step16{act: "release", which: r.Intn(8)})
		case x < 70:
			s.steps = append(s.steps, step16{act: "finishtimed"})
		case x < 95:
			// mostly flip ReadOnly
			if r.Chance(80) {
				ro = !ro
			}
			s.steps = append(s.steps, step16{act: "update", upd: polv{ro: ro}, viaEx: r.Bool()})
		default:
			s.steps = append(s.steps, step16{act: "probe"})
		}
	}
	// always end with the switch to read-only and mutating requests after it
	s.steps = append(s.steps, step16{act: "update", upd: polv{ro: true}, viaEx: r.Bool()})
	for i := 1 + r.Intn(2); i > 0; i-- {
		s.steps = append(s.steps, step16{act: "issue", req: reqSt{kind: mutKinds[r.Intn(len(mutKinds))]}})
	}
	return runC16(s, "timeouts+switch", idx)
}

func corpusC08t() []Case {
	// a slow WRITE outlasts DefaultTimeout, the export is switched read-only, the backend call resumes, a fresh
	// WRITE must get ROFS (the history of seeded/C08-2); the same with CREATE and through UpdatePolicyOptions
	mk := func(kind int, pause int, viaEx bool) sched {
		return sched{p0: polv{}, nreq: 3, steps: []step16{
			{act: "issue", req: reqSt{kind: kind, pauses: []int{pause}, short: true}},
			{act: "update", upd: polv{ro: true}, viaEx: viaEx},
			{act: "finishtimed"},
			{act: "issue", req: reqSt{kind: 1}},
			{act: "update", upd: polv{ro: false}, viaEx: viaEx},
			{act: "issue", req: reqSt{kind: 1}},
		}}
	}
	return []Case{runC16(mk(1, 2, true), "slow-write-then-readonly", 0), runC16(mk(4, 1, false), "slow-create-then-readonly", 1),
		runC16(mk(7, 1, true), "slow-rename-then-readonly", 2)}
}
