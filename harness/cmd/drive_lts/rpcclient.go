package main

// A minimal ONC RPC client over TCP with record marking: enough to issue NFSv3 NULL / GETATTR / WRITE
// calls and to tell an accepted reply (and its NFS status) from a denied one.

import (
	"bytes"
	"encoding/binary"
	"fmt"
	"io"
	"net"
	"time"
)

const (
	progNFS   = 100003
	versNFS   = 3
	procNull  = 0
	procGetat = 1
	procWrite = 7
)

func be32(b *bytes.Buffer, v uint32) { binary.Write(b, binary.BigEndian, v) }
func be64(b *bytes.Buffer, v uint64) { binary.Write(b, binary.BigEndian, v) }

func fhBytes(h uint64) []byte {
	var b bytes.Buffer
	be32(&b, 8)
	be64(&b, h)
	return b.Bytes()
}

func getattrBody(h uint64) []byte { return fhBytes(h) }

func writeBody(h uint64, off uint64, data []byte) []byte {
	var b bytes.Buffer
	b.Write(fhBytes(h))
	be64(&b, off)
	be32(&b, uint32(len(data)))
	be32(&b, 2) // FILE_SYNC
	be32(&b, uint32(len(data)))
	b.Write(data)
	if pad := (4 - len(data)%4) % 4; pad > 0 {
		b.Write(make([]byte, pad))
	}
	return b.Bytes()
}

// sendCall writes one record-marked call with an AUTH_NONE credential.
func sendCall(c net.Conn, xid, prog, vers, proc uint32, body []byte) error {
	var m bytes.Buffer
	be32(&m, xid)
	be32(&m, 0) // CALL
	be32(&m, 2) // RPC version
	be32(&m, prog)
	be32(&m, vers)
	be32(&m, proc)
	be32(&m, 0) // cred AUTH_NONE
	be32(&m, 0)
	be32(&m, 0) // verf AUTH_NONE
	be32(&m, 0)
	m.Write(body)
	var hdr [4]byte
	binary.BigEndian.PutUint32(hdr[:], uint32(m.Len())|0x80000000)
	c.SetWriteDeadline(time.Now().Add(5 * time.Second))
	if _, err := c.Write(append(hdr[:], m.Bytes()...)); err != nil {
		return err
	}
	return nil
}

type rpcReply struct {
	xid        uint32
	denied     bool   // reply_stat = MSG_DENIED
	acceptStat uint32 // when accepted
	data       []byte // procedure-specific results
}

// readReply reads one record (all fragments) and parses the reply header.
func readReply(c net.Conn, timeout time.Duration) (*rpcReply, error) {
	c.SetReadDeadline(time.Now().Add(timeout))
	var rec []byte
	for {
		var hdr [4]byte
		if _, err := io.ReadFull(c, hdr[:]); err != nil {
			return nil, err
		}
		h := binary.BigEndian.Uint32(hdr[:])
		n := int(h & 0x7fffffff)
		if n > 1<<22 {
			return nil, fmt.Errorf("fragment too large: %d", n)
		}
		frag := make([]byte, n)
		if _, err := io.ReadFull(c, frag); err != nil {
			return nil, err
		}
		rec = append(rec, frag...)
		if h&0x80000000 != 0 {
			break
		}
	}
	if len(rec) < 12 {
		return nil, fmt.Errorf("short reply: %d bytes", len(rec))
	}
	r := &rpcReply{xid: binary.BigEndian.Uint32(rec[0:4])}
	if binary.BigEndian.Uint32(rec[4:8]) != 1 {
		return nil, fmt.Errorf("not a reply")
	}
	stat := binary.BigEndian.Uint32(rec[8:12])
	if stat != 0 {
		r.denied = true
		return r, nil
	}
	if len(rec) < 24 {
		return nil, fmt.Errorf("short accepted reply")
	}
	vlen := int(binary.BigEndian.Uint32(rec[16:20]))
	p := 20 + (vlen+3)&^3
	if len(rec) < p+4 {
		return nil, fmt.Errorf("short accepted reply (verifier)")
	}
	r.acceptStat = binary.BigEndian.Uint32(rec[p : p+4])
	r.data = rec[p+4:]
	return r, nil
}

func nfsStatus(data []byte) uint32 {
	if len(data) < 4 {
		return 0xffffffff
	}
	return binary.BigEndian.Uint32(data[0:4])
}
