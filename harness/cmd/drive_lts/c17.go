package main

// C17: connection lifecycle schedules enacted over loopback TCP on a server created by AbsfsNFS.Export.
//
// The exact part of a case is a sequence of client actions performed one at a time (open from an allowed or a
// filtered address, use, close, advance the virtual clock and let the reaper's real ticker fire, Stop); after each
// the driver waits until the server is quiet and records connCount, len(activeConns), the server's goroutines and
// which connections are still served.  Each action is written as the LTS steps it stands for (Corr/C17.v).
// The racy part (concurrent opens/closes, Stop in the middle of a burst, then Close/Unexport/Stop repeated) is
// judged by the oracle only.  Timing-partial: the reaper's ticker and Stop's 5 s timer are real; IdleTimeout is
// tens of milliseconds on the virtual clock, the driver waits for the expected effect with a bound and for a
// "nothing happens" expectation it waits three ticker periods.

import (
	"fmt"
	"net"
	"os"
	"runtime"
	"sort"
	"strings"
	"sync"
	"sync/atomic"
	"time"

	. "verifharness/lib"
	"verifharness/nfsx"
	"verifharness/specfs"

	"github.com/absfs/absfs"
	"github.com/absfs/absnfs"
)

func init() {
	Props["C17"] = &Prop{
		Imports:    "From Verif Require Import Model.ConnLTS Corr.C17.",
		Gen:        genC17,
		Corpus:     corpusC17,
		NonTrivial: func(c *Case) bool { return c.Tags["enacted"] > 0 && (c.Tags["limit_rejections"] > 0 || c.Tags["reaped"] > 0 || c.Tags["churn_conns"] > 0) },
		ShardSize:  60,
	}
}

// ---------- backend wrapper: requests held inside a backend call ----------
// hfs counts the backend calls in flight on the paths /h<i>... and can hold the first call on such a path for a while
// (a slow filesystem).  late counts modifying backend operations executed after the driver marked the shutdown call
// (Stop / Close / Unexport) as returned.
type hfs struct {
	*specfs.FS
	inflight int64
	returned int32
	late     int64
	mu       sync.Mutex
	hold     map[string]time.Duration // path -> how long its next backend call is held
}

func heldPath(p string) bool { return strings.HasPrefix(p, "/h") }
func (h *hfs) setHold(p string, d time.Duration) {
	h.mu.Lock()
	h.hold[p] = d
	h.mu.Unlock()
}
func (h *hfs) enter(p string) func() {
	if !heldPath(p) {
		return func() {}
	}
	atomic.AddInt64(&h.inflight, 1)
	h.mu.Lock()
	d := h.hold[p]
	delete(h.hold, p)
	h.mu.Unlock()
	if d > 0 {
		time.Sleep(d)
	}
	return func() { atomic.AddInt64(&h.inflight, -1) }
}
func (h *hfs) Lstat(p string) (os.FileInfo, error) { defer h.enter(p)(); return h.FS.Lstat(p) }
func (h *hfs) Stat(p string) (os.FileInfo, error)  { defer h.enter(p)(); return h.FS.Stat(p) }
func (h *hfs) Mkdir(p string, m os.FileMode) error { defer h.enter(p)(); return h.FS.Mkdir(p, m) }
func (h *hfs) OpenFile(p string, f int, m os.FileMode) (absfs.File, error) {
	defer h.enter(p)()
	return h.FS.OpenFile(p, f, m)
}
func (h *hfs) afterOp(c specfs.Call) {
	if heldPath(c.Path) && c.Mutating() && atomic.LoadInt32(&h.returned) == 1 {
		atomic.AddInt64(&h.late, 1)
	}
}

// goroutines serving a request: the per-call goroutine of HandleCall and everything below the dispatchers
func requestGoroutines() int {
	buf := make([]byte, 1<<20)
	for {
		n := runtime.Stack(buf, true)
		if n < len(buf) {
			buf = buf[:n]
			break
		}
		buf = make([]byte, 2*len(buf))
	}
	cnt := 0
	for _, g := range strings.Split(string(buf), "\n\n") {
		if strings.Contains(g, "absnfs.(*NFSProcedureHandler).HandleCall") || strings.Contains(g, "absnfs.(*NFSProcedureHandler).handleNFSCall") {
			cnt++
		}
	}
	return cnt
}

// ---------- client connection ----------
type cconn struct {
	id      int
	c       net.Conn
	replies chan *rpcReply
	closed  chan struct{}
	served  bool
	xid     uint32
}

func dialFrom(src string, port int) (*cconn, error) {
	d := net.Dialer{Timeout: 2 * time.Second}
	if src != "" {
		d.LocalAddr = &net.TCPAddr{IP: net.ParseIP(src)}
	}
	c, err := d.Dial("tcp", fmt.Sprintf("127.0.0.1:%d", port))
	if err != nil {
		return nil, err
	}
	cc := &cconn{c: c, replies: make(chan *rpcReply, 16), closed: make(chan struct{})}
	go func() {
		for {
			r, err := readReply(c, time.Hour)
			if err != nil {
				close(cc.closed)
				return
			}
			cc.replies <- r
		}
	}()
	return cc, nil
}

// null sends a NULL call; true = answered, false = the server closed the connection
func (cc *cconn) null(limit time.Duration) (bool, error) {
	cc.xid++
	if err := sendCall(cc.c, cc.xid, progNFS, versNFS, procNull, nil); err != nil {
		return false, nil // write on a connection the server has closed
	}
	select {
	case <-cc.replies:
		return true, nil
	case <-cc.closed:
		return false, nil
	case <-time.After(limit):
		return false, fmt.Errorf("no reply and no close within %v", limit)
	}
}
func (cc *cconn) isClosed() bool {
	select {
	case <-cc.closed:
		return true
	default:
		return false
	}
}

// goroutines of the server (accept loop, reaper, connection loops), and how many connection loops are parked in
// ReadCall, i.e. have finished the previous request including its trailing updateConnectionActivity
func serverGoroutines2() (int, int) {
	buf := make([]byte, 1<<20)
	for {
		n := runtime.Stack(buf, true)
		if n < len(buf) {
			buf = buf[:n]
			break
		}
		buf = make([]byte, 2*len(buf))
	}
	cnt, reading := 0, 0
	for _, g := range strings.Split(string(buf), "\n\n") {
		if strings.Contains(g, "absnfs.(*Server).acceptLoop") || strings.Contains(g, "absnfs.(*Server).idleConnectionCleanupLoop") ||
			strings.Contains(g, "absnfs.(*Server).handleConnectionLoop") || strings.Contains(g, "absnfs.(*Server).Listen.func") {
			cnt++
			if strings.Contains(g, "absnfs.(*Server).handleConnectionLoop") && strings.Contains(g, ").ReadCall") &&
				strings.Contains(g, "[IO wait") {
				reading++
			}
		}
	}
	return cnt, reading
}
func serverGoroutines() int { n, _ := serverGoroutines2(); return n }

// ---------- schedule ----------
type act17 struct {
	kind string // open | openbad | use | close | tick | stop
	conn int    // for use/close: index among served connections
	adv  int64  // tick: clock advance in ns
}
type sched17 struct {
	max     int
	idleNs  int64
	filter  bool // AllowedIPs = [127.0.0.1]; "openbad" dials from 127.0.0.2
	acts    []act17
	churn   int  // workers of the concurrent part (0 = none)
	rounds  int  // connections per worker
	stopMid bool // Stop while a second burst is running
	mass    int  // connections opened concurrently and kept open right before Stop (closeAllConnections races their goroutines)
	closing []string
	files   int
	held    int    // requests held inside a backend call when the shutdown call is made (0 = none)
	heldEnd string // stop | close | unexport
	heldEnd2 string // "" or a second, overlapping shutdown call
	gapMs   int    // delay of the second call
	holdMs  int    // how long the backend call is held
}

type drv17 struct {
	nfs      *absnfs.AbsfsNFS
	srv      *absnfs.Server
	port     int
	tr       []string
	txt      []string
	ids      []uint64
	conns    map[int]*cconn
	reg      []int // registered ids, most recent first (the model's active list)
	last     map[int]int64
	now      int64
	max      int
	idleNs   int64
	baseGor  int
	enacted  bool
	why      string
	tags     map[string]int
	nextID   int
	reaperOn bool
	accLive  bool
	diverged bool
}

func (d *drv17) emit(label string, obs ...uint64) {
	d.tr = append(d.tr, CPair(label, CNs(obs)))
	if len(obs) > 0 {
		d.txt = append(d.txt, fmt.Sprintf("%s%v", label, obs))
	} else {
		d.txt = append(d.txt, label)
	}
}
func (d *drv17) fail(why string) {
	if d.enacted {
		d.enacted = false
		d.why = why
	}
}
func (d *drv17) servedIDs() []uint64 {
	var out []uint64
	for id, cc := range d.conns {
		if cc.served && !cc.isClosed() {
			out = append(out, uint64(id))
		}
	}
	sort.Slice(out, func(i, j int) bool { return out[i] < out[j] })
	return out
}

// wait (bounded) until the counters and goroutines are what the driver's bookkeeping expects, then report what is there
func (d *drv17) observe(expGor int) []uint64 {
	expCnt := len(d.reg)
	var cnt, act, gor int
	limit := 10 * time.Second // generous: a loaded machine (-race build, other checks running) must not look like a divergence
	if d.diverged {
		limit = 20 * time.Millisecond // the server has already left the expected path once: do not wait again
	}
	deadline := time.Now().Add(limit)
	for {
		cnt, act = d.srv.VerifLTSConnCounts()
		var reading int
		gor, reading = serverGoroutines2()
		gor -= d.baseGor
		// quiet = counters as expected and every connection loop back in ReadCall (so that a clock advance cannot
		// overtake the trailing updateConnectionActivity of the request just answered)
		if cnt == expCnt && act == expCnt && gor == expGor && reading >= expCnt {
			break
		}
		if time.Now().After(deadline) {
			d.diverged = true
			d.tags["diverged_observations"]++
			break
		}
		time.Sleep(500 * time.Microsecond)
	}
	if cnt < 0 {
		cnt = 1 << 30
	}
	if gor < 0 {
		gor = 0
	}
	out := []uint64{uint64(cnt), uint64(act), uint64(gor)}
	return append(out, d.servedIDs()...)
}
func (d *drv17) expGor() int {
	n := 0
	if d.accLive {
		n++
	}
	if d.reaperOn {
		n++
	}
	for _, id := range d.reg {
		_ = id
	}
	// one goroutine per connection that was spawned and whose goroutine has not finished: registered ones
	return n + len(d.reg)
}
func (d *drv17) unregister(id int) {
	for i, x := range d.reg {
		if x == id {
			d.reg = append(d.reg[:i:i], d.reg[i+1:]...)
			return
		}
	}
}
func (d *drv17) served() []int {
	var out []int
	for id, cc := range d.conns {
		if cc.served && !cc.isClosed() {
			out = append(out, id)
		}
	}
	sort.Ints(out)
	return out
}

func (d *drv17) open(bad bool) {
	d.nextID++
	id := d.nextID
	d.ids = append(d.ids, uint64(id))
	src := ""
	if bad {
		src = "127.0.0.2"
	}
	cc, err := dialFrom(src, d.port)
	if err != nil {
		d.fail("dial: " + err.Error())
		return
	}
	cc.id = id
	d.conns[id] = cc
	ok, err := cc.null(3 * time.Second)
	if err != nil {
		d.fail(err.Error())
		return
	}
	cc.served = ok
	d.tags["opens"]++
	d.emit(fmt.Sprintf("Accept %d %s", id, CBool(!bad)))
	switch {
	case bad:
		d.tags["filter_rejections"]++
		d.emit("Filter", d.observe(d.expGor())...)
	case d.max > 0 && len(d.reg) >= d.max:
		d.tags["limit_rejections"]++
		d.emit("Filter")
		d.emit("Register", d.observe(d.expGor())...)
	default:
		d.reg = append([]int{id}, d.reg...)
		d.last[id] = d.now
		d.emit("Filter")
		d.emit("Register")
		d.emit("Spawn")
		d.emit(fmt.Sprintf("Activity %d", id))
		d.emit(fmt.Sprintf("Activity %d", id), d.observe(d.expGor())...)
		if len(d.reg) > d.tags["peak_registered"] {
			d.tags["peak_registered"] = len(d.reg)
		}
	}
}

func (d *drv17) use(id int) {
	cc := d.conns[id]
	ok, err := cc.null(3 * time.Second)
	if err != nil {
		d.fail(err.Error())
		return
	}
	if !ok {
		cc.served = false
		d.fail("served connection closed by the server on use")
		return
	}
	d.last[id] = d.now
	d.tags["uses"]++
	d.emit(fmt.Sprintf("Activity %d", id))
	d.emit(fmt.Sprintf("Activity %d", id), d.observe(d.expGor())...)
}

func (d *drv17) closeClient(id int) {
	cc := d.conns[id]
	cc.c.Close()
	cc.served = false
	d.unregister(id)
	d.tags["client_closes"]++
	d.emit(fmt.Sprintf("Exit %d", id))
	d.emit(fmt.Sprintf("UnregConn %d", id))
	d.emit(fmt.Sprintf("UnregConn %d", id))
	d.emit(fmt.Sprintf("UnregConn %d", id))
	d.emit(fmt.Sprintf("ConnDone %d", id), d.observe(d.expGor())...)
}

func (d *drv17) tickPeriod() time.Duration {
	p := time.Duration(d.idleNs / 2)
	if p > time.Minute {
		p = time.Minute
	}
	return p
}

func (d *drv17) tick(adv int64) {
	d.now += adv
	absnfs.VerifAdvanceClock(adv)
	d.emit(fmt.Sprintf("Advance %d", adv))
	var idle []int
	for _, id := range d.reg { // the model scans activeConns in this order
		if d.now-d.last[id] > d.idleNs {
			idle = append(idle, id)
		}
	}
	d.tags["ticks"]++
	if d.tickPeriod() > time.Second {
		// the ticker will not fire within the case: nothing to wait for, and the model takes no Tick
		d.emit(fmt.Sprintf("Advance %d", 0), d.observe(d.expGor())...)
		return
	}
	if len(idle) == 0 {
		time.Sleep(3 * d.tickPeriod())
		d.emit("Tick")
		d.emit("RTickDone", d.observe(d.expGor())...)
		return
	}
	for _, id := range idle {
		select {
		case <-d.conns[id].closed:
		case <-time.After(3 * time.Second):
			// 150 ticker periods have passed and a connection idle for longer than IdleTimeout is still open:
			// that is an observation about the reaper, not a failure to enact the schedule
			d.tags["idle_not_reaped"]++
			d.diverged = true
			d.emit("Tick")
			d.emit("RTickDone", d.observe(d.expGor())...)
			return
		}
	}
	d.emit("Tick")
	for range idle {
		d.emit("RClose")
		d.emit("UnregReaper")
		d.emit("UnregReaper")
		d.emit("UnregReaper")
	}
	for _, id := range idle {
		d.unregister(id)
		d.conns[id].served = false
		d.conns[id].c.Close()
		d.tags["reaped"]++
	}
	d.emit("RTickDone")
	for i, id := range idle {
		d.emit(fmt.Sprintf("Exit %d", id))
		d.emit(fmt.Sprintf("UnregConn %d", id))
		if i == len(idle)-1 {
			d.emit(fmt.Sprintf("ConnDone %d", id), d.observe(d.expGor())...)
		} else {
			d.emit(fmt.Sprintf("ConnDone %d", id))
		}
	}
}

func (d *drv17) stopExact() bool {
	done := make(chan error, 1)
	go func() { done <- d.srv.Stop() }()
	select {
	case err := <-done:
		if err != nil {
			d.fail("Stop: " + err.Error())
			return false
		}
	case <-time.After(8 * time.Second):
		d.fail("Stop did not return")
		return false
	}
	d.tags["stops"]++
	d.emit("StopCall 1")
	d.emit("StopCancel 1")
	d.emit("StopCloseL 1")
	d.emit("StopCollect 1")
	regs := append([]int{}, d.reg...)
	for range regs {
		d.emit("StopClose 1")
		d.emit("UnregStop 1")
		d.emit("UnregStop 1")
		d.emit("UnregStop 1")
	}
	d.emit("StopCollected 1")
	d.emit("AcceptExit")
	d.emit("ReaperExit")
	for _, id := range regs {
		d.emit(fmt.Sprintf("Exit %d", id))
		d.emit(fmt.Sprintf("UnregConn %d", id))
		d.emit(fmt.Sprintf("ConnDone %d", id))
	}
	d.reg = nil
	d.accLive, d.reaperOn = false, false
	// every client must see its connection closed
	for _, cc := range d.conns {
		if cc.served {
			select {
			case <-cc.closed:
			case <-time.After(2 * time.Second):
				d.fail("client connection still open after Stop")
			}
		}
	}
	d.emit("StopWait 1", d.observeAfterStop()...)
	return true
}

// right after Stop returned: no waiting for counters; a short grace for goroutines that have already called
// wg.Done() and are unwinding their last frames
func (d *drv17) observeAfterStop() []uint64 {
	cnt, act := d.srv.VerifLTSConnCounts()
	gor := 0
	for i := 0; i < 100; i++ {
		gor = serverGoroutines() - d.baseGor
		if gor <= 0 {
			break
		}
		time.Sleep(500 * time.Microsecond)
	}
	if gor < 0 {
		gor = 0
	}
	return append([]uint64{uint64(cnt), uint64(act), uint64(gor)}, d.servedIDs()...)
}

func runC17(s sched17, kind string, idx int) Case {
	tags := map[string]int{}
	absnfs.VerifSetClock(time.Now().Add(time.Hour).UnixNano())
	defer absnfs.VerifSetClock(0)
	fs := specfs.New()
	fs.Rec = false
	for i := 0; i < s.files; i++ {
		f, _ := fs.Create(fmt.Sprintf("/g%d", i))
		f.Close()
	}
	opts := absnfs.ExportOptions{MaxConnections: s.max, IdleTimeout: time.Duration(s.idleNs), EnableDirCache: true}
	if s.filter {
		opts.AllowedIPs = []string{"127.0.0.1"}
	}
	enacted := true
	why := ""
	base := serverGoroutines()
	hf := &hfs{FS: fs, hold: map[string]time.Duration{}}
	fs.AfterOp = hf.afterOp
	nfs, err := absnfs.New(hf, opts)
	var d *drv17
	var after []string
	var aftertxt []string
	var nfsOps []string
	if err != nil {
		enacted, why = false, "New: "+err.Error()
	} else if err := nfs.Export("/", 0); err != nil {
		enacted, why = false, "Export: "+err.Error()
		nfs.Close()
	} else {
		srv := nfs.VerifLTSExportServer()
		d = &drv17{nfs: nfs, srv: srv, port: srv.GetPort(), conns: map[int]*cconn{}, last: map[int]int64{}, max: s.max,
			idleNs: s.idleNs, baseGor: base, enacted: true, tags: tags, reaperOn: true, accLive: true}
		nfsOps = append(nfsOps, "NExport")
		for i := 0; i < s.files; i++ {
			if _, err := nfs.VerifLTSHandleFor(fmt.Sprintf("/g%d", i)); err == nil {
				nfsOps = append(nfsOps, fmt.Sprintf("NHandle %d", i), fmt.Sprintf("NAttr %d", i))
			}
		}
		if root, err := nfs.Lookup("/"); err == nil {
			nfs.ReadDir(root)
			nfsOps = append(nfsOps, "NDir 0")
		}
		h0, a0, d0 := nfs.VerifLTSCounts()
		tags["handles_before_close"], tags["attr_entries_before_close"] = h0, a0
		if d0 > 0 {
			tags["dir_entries_before_close"] = d0
		}
		stopped := false
		for _, a := range s.acts {
			if !d.enacted {
				break
			}
			switch a.kind {
			case "open":
				d.open(false)
			case "openbad":
				d.open(true)
			case "use", "close":
				sv := d.served()
				if len(sv) == 0 {
					continue
				}
				id := sv[a.conn%len(sv)]
				if a.kind == "use" {
					d.use(id)
				} else {
					d.closeClient(id)
				}
			case "tick":
				d.tick(a.adv)
			case "stop":
				stopped = d.stopExact()
			}
			if stopped {
				break
			}
		}
		obs := func(kind int, xs ...uint64) {
			after = append(after, CPair(CN(uint64(kind)), CNs(xs)))
			aftertxt = append(aftertxt, fmt.Sprintf("after%d%v", kind, xs))
		}
		// ----- requests held in the backend when Stop / Close / Unexport is called (oracle only) -----
		if d.enacted && !stopped && s.held > 0 {
			rootH, _ := nfs.VerifLTSHandleFor("/")
			hold := time.Duration(s.holdMs) * time.Millisecond
			var hconns []*cconn
			for i := 1; i <= s.held; i++ {
				cc, err := dialFrom("", d.port)
				if err != nil {
					d.fail("dial (held): " + err.Error())
					break
				}
				if ok, _ := cc.null(3 * time.Second); !ok {
					cc.c.Close()
					continue // refused at the connection limit: this one cannot carry a request
				}
				hconns = append(hconns, cc)
				name := fmt.Sprintf("h%d", i)
				if i%3 != 2 {
					// created only now, so that neither the attribute cache nor the cached root listing knows it
					if f, err := fs.Create("/" + name); err == nil {
						f.Close()
					}
				}
				var proc uint32
				var body []byte
				switch i % 3 {
				case 1: // LOOKUP of a file nobody has looked up yet: allocates a handle when the backend answers
					proc, body = 3, (&nfsx.Req{Proc: "LOOKUP", H: rootH, Name: []byte(name)}).Encode()
					hf.setHold("/"+name, hold)
				case 2: // MKDIR: a backend mutation when the held call resumes
					mode := uint32(0755)
					proc, body = 9, (&nfsx.Req{Proc: "MKDIR", H: rootH, Name: []byte(name + "d"), Sa: nfsx.Sattr{Mode: &mode}}).Encode()
					hf.setHold("/"+name+"d", hold)
				default: // WRITE
					fh, _ := nfs.VerifLTSHandleFor("/" + name)
					proc, body = procWrite, writeBody(fh, 0, []byte("late"))
					hf.setHold("/"+name, hold)
				}
				cc.xid++
				if err := sendCall(cc.c, cc.xid, progNFS, versNFS, proc, body); err != nil {
					d.fail("send (held): " + err.Error())
				}
			}
			nheld := len(hconns)
			for dl := time.Now().Add(3 * time.Second); d.enacted && atomic.LoadInt64(&hf.inflight) < int64(nheld); {
				if time.Now().After(dl) {
					d.fail("held requests did not reach the backend")
				}
				time.Sleep(500 * time.Microsecond)
			}
			if d.enacted && nheld > 0 {
				tags["held_requests"] = nheld
				tags["held_"+s.heldEnd]++
				time.Sleep(time.Duration(5+s.holdMs%20) * time.Millisecond)
				// one shutdown call, or two overlapping ones (the second issued gapMs later from another goroutine).
				// Each calling goroutine takes its own snapshot right after its call returned.
				ends := []string{s.heldEnd}
				if s.heldEnd2 != "" {
					ends = append(ends, s.heldEnd2)
					tags["overlapping_shutdown_calls"]++
					tags["overlap_"+s.heldEnd+"+"+s.heldEnd2]++
				}
				type snap struct {
					ok                     bool
					inflight               int64
					rg, sg, cnt, act       int
					h, a, dd               int
					server                 bool
				}
				snaps := make([]snap, len(ends))
				var wgS sync.WaitGroup
				for i, e := range ends {
					wgS.Add(1)
					go func(i int, e string) {
						defer wgS.Done()
						if i > 0 {
							time.Sleep(time.Duration(s.gapMs) * time.Millisecond)
						}
						var err error
						switch e {
						case "close":
							err = nfs.Close()
						case "unexport":
							err = nfs.Unexport()
						default:
							err = d.srv.Stop()
						}
						atomic.StoreInt32(&hf.returned, 1)
						sn := snap{ok: err == nil, inflight: atomic.LoadInt64(&hf.inflight)}
						sn.h, sn.a, sn.dd = nfs.VerifLTSCounts()
						// grace for goroutines that have delivered their result and are unwinding
						for k := 0; k < 100; k++ {
							sn.rg, sn.sg = requestGoroutines(), serverGoroutines()-d.baseGor
							if (sn.rg <= 0 && sn.sg <= 0) || atomic.LoadInt64(&hf.inflight) > 0 {
								break
							}
							time.Sleep(500 * time.Microsecond)
						}
						if sn.sg < 0 {
							sn.sg = 0
						}
						sn.cnt, sn.act = d.srv.VerifLTSConnCounts()
						snaps[i] = sn
					}(i, e)
				}
				allDone := make(chan struct{})
				go func() { wgS.Wait(); close(allDone) }()
				select {
				case <-allDone:
				case <-time.After(15 * time.Second):
					d.fail("shutdown call did not return within 15 s")
				}
				if d.enacted {
					// quiescence: every held backend call has come back (generous bound), then a little longer
					for dl := time.Now().Add(hold + 4*time.Second); atomic.LoadInt64(&hf.inflight) > 0 && time.Now().Before(dl); {
						time.Sleep(time.Millisecond)
					}
					for dl := time.Now().Add(2 * time.Second); requestGoroutines() > 0 && time.Now().Before(dl); {
						time.Sleep(time.Millisecond)
					}
					time.Sleep(20 * time.Millisecond)
					h2, a2, d2 := nfs.VerifLTSCounts()
					nz := func(x int) uint64 {
						if x < 0 {
							return 0
						}
						return uint64(x)
					}
					late := atomic.LoadInt64(&hf.late)
					server := nfs.VerifLTSExportServer() != nil
					for i, e := range ends {
						sn := snaps[i]
						switch e {
						case "close", "unexport":
							k := 6
							if e == "unexport" {
								k = 7
								nfsOps = append(nfsOps, "NUnexport")
							} else {
								nfsOps = append(nfsOps, "NClose")
							}
							// [ok; in flight at return; request goroutines; server goroutines; handles, attr, dir at return;
							//  handles, attr, dir after quiescence; late mutations; export server still attached]
							obs(k, bn(sn.ok), uint64(sn.inflight), uint64(sn.rg), uint64(sn.sg), nz(sn.h), nz(sn.a), nz(sn.dd), nz(h2), nz(a2), nz(d2),
								uint64(late), bn(server))
						default:
							// [ok; in flight at return; request goroutines; server goroutines; connCount; len(activeConns); late mutations]
							obs(5, bn(sn.ok), uint64(sn.inflight), uint64(sn.rg), uint64(sn.sg), nz(sn.cnt), uint64(sn.act), uint64(late))
						}
						if sn.inflight > 0 {
							tags["returned_with_backend_call_in_flight"]++
						}
					}
				}
				stopped = true
			}
			for _, cc := range hconns {
				cc.c.Close()
			}
		}
		// ----- racy part -----
		if d.enacted && !stopped && s.churn > 0 {
			var cur, peak int64
			var wg sync.WaitGroup
			var mu sync.Mutex
			var kept []*cconn
			var churned int64
			for w := 0; w < s.churn; w++ {
				wg.Add(1)
				go func(w int) {
					defer wg.Done()
					for k := 0; k < s.rounds; k++ {
						cc, err := dialFrom("", d.port)
						if err != nil {
							continue
						}
						atomic.AddInt64(&churned, 1)
						ok, _ := cc.null(3 * time.Second)
						if !ok {
							cc.c.Close()
							continue
						}
						n := atomic.AddInt64(&cur, 1)
						for {
							p := atomic.LoadInt64(&peak)
							if n <= p || atomic.CompareAndSwapInt64(&peak, p, n) {
								break
							}
						}
						time.Sleep(time.Duration((w*7+k*3)%5) * time.Millisecond)
						if (w+k)%7 == 0 {
							mu.Lock()
							kept = append(kept, cc) // left open on purpose
							mu.Unlock()
							continue
						}
						atomic.AddInt64(&cur, -1)
						cc.c.Close()
					}
				}(w)
			}
			wg.Wait()
			tags["churn_conns"] = int(churned)
			// connections of the exact part that are still served count as well
			open := len(kept) + len(d.served())
			pk := int(atomic.LoadInt64(&peak)) + len(d.served())
			var cnt, act int
			for dl := time.Now().Add(2 * time.Second); ; {
				cnt, act = d.srv.VerifLTSConnCounts()
				if (cnt == open && act == open) || time.Now().After(dl) {
					break
				}
				time.Sleep(500 * time.Microsecond)
			}
			if cnt < 0 {
				cnt = 1 << 30
			}
			obs(1, uint64(pk), uint64(cnt), uint64(act), uint64(open))
			tags["churn_peak"] = pk
			if s.mass > 0 {
				var wg3 sync.WaitGroup
				for i := 0; i < s.mass; i++ {
					wg3.Add(1)
					go func() {
						defer wg3.Done()
						cc, err := dialFrom("", d.port)
						if err != nil {
							return
						}
						cc.null(3 * time.Second)
						mu.Lock()
						kept = append(kept, cc)
						mu.Unlock()
					}()
				}
				wg3.Wait()
				tags["mass_open"] = s.mass
			}
			if s.stopMid {
				var wg2 sync.WaitGroup
				for w := 0; w < s.churn; w++ {
					wg2.Add(1)
					go func() {
						defer wg2.Done()
						for k := 0; k < 3; k++ {
							cc, err := dialFrom("", d.port)
							if err != nil {
								return
							}
							cc.null(2 * time.Second)
							time.Sleep(time.Millisecond)
							cc.c.Close()
						}
					}()
				}
				time.Sleep(time.Duration(1+s.rounds%3) * time.Millisecond)
				tags["stop_during_burst"] = 1
				ok := d.stopRacy()
				wg2.Wait()
				d.reportStop(ok, obs)
			} else {
				ok := d.stopRacy()
				d.reportStop(ok, obs)
			}
			for _, cc := range kept {
				cc.c.Close()
			}
			stopped = true
		}
		if d.enacted && !stopped {
			ok := d.stopRacy()
			d.reportStop(ok, obs)
			stopped = true
		}
		// ----- Close / Unexport / Stop repeated -----
		if d.enacted {
			for _, c := range s.closing {
				switch c {
				case "close":
					err := nfs.Close()
					h, a, dd := nfs.VerifLTSCounts()
					if dd < 0 {
						dd = 0
					}
					obs(3, bn(err != nil), uint64(h), uint64(a), uint64(dd), bn(nfs.VerifLTSPoolRunning()), bn(nfs.VerifLTSExportServer() != nil))
					nfsOps = append(nfsOps, "NClose")
					tags["closes"]++
				case "unexport":
					err := nfs.Unexport()
					h, a, dd := nfs.VerifLTSCounts()
					if dd < 0 {
						dd = 0
					}
					obs(4, bn(err != nil), uint64(h), uint64(a), uint64(dd), bn(nfs.VerifLTSPoolRunning()), bn(nfs.VerifLTSExportServer() != nil))
					nfsOps = append(nfsOps, "NUnexport")
					tags["unexports"]++
				case "activity":
					// the handler is used again (in-process) after an Unexport: handles and cache entries come back,
					// and the next Close / Unexport has to release them again
					for i := 0; i < s.files; i++ {
						if _, err := nfs.VerifLTSHandleFor(fmt.Sprintf("/g%d", i)); err == nil {
							nfsOps = append(nfsOps, fmt.Sprintf("NHandle %d", i), fmt.Sprintf("NAttr %d", i))
						}
					}
					if root, err := nfs.Lookup("/"); err == nil {
						nfs.ReadDir(root)
						nfsOps = append(nfsOps, "NDir 0")
					}
					if h, _, _ := nfs.VerifLTSCounts(); h > 0 {
						tags["activity_after_unexport"]++
					}
				case "stop":
					err := d.srv.Stop()
					cnt, act := d.srv.VerifLTSConnCounts()
					gor := serverGoroutines() - d.baseGor
					if gor < 0 {
						gor = 0
					}
					obs(2, bn(err == nil), uint64(cnt), uint64(act), uint64(gor))
					tags["repeated_stops"]++
				}
			}
		}
		for _, cc := range d.conns {
			cc.c.Close()
		}
		nfs.Close()
		enacted, why = d.enacted, d.why
	}
	if enacted {
		tags["enacted"] = 1
	} else {
		tags["not_enacted"] = 1
	}
	var tr, txt []string
	var ids []uint64
	if d != nil {
		tr, txt, ids = d.tr, d.txt, d.ids
	}
	coq := fmt.Sprintf("{| c_max := %s; c_idle := %d; c_enacted := %s; c_ids := %s; c_trace := %s; c_after := %s; c_nfs_ops := %s |}",
		CZ(int64(effMax17(s.max))), s.idleNs, CBool(enacted), CNs(ids), CList(tr), CList(after), CList(nfsOps))
	text := fmt.Sprintf("max=%d idle=%dms filter=%v | %s | %s", s.max, s.idleNs/1000000, s.filter, strings.Join(txt, " ; "), strings.Join(aftertxt, " ; "))
	if !enacted {
		text = "NOT ENACTED (" + why + ") " + text
	}
	return Case{Index: idx, Kind: kind, Coq: coq, Tags: tags, Text: text, Key: kind + "|" + text}
}

func effMax17(m int) int {
	if m <= 0 {
		return 100 // New and applyTuningDefaults replace a non-positive MaxConnections by 100
	}
	return m
}

func (d *drv17) stopRacy() bool {
	done := make(chan error, 1)
	go func() { done <- d.srv.Stop() }()
	select {
	case err := <-done:
		return err == nil
	case <-time.After(8 * time.Second):
		d.fail("Stop did not return within 8 s")
		return false
	}
}
func (d *drv17) reportStop(ok bool, obs func(int, ...uint64)) {
	if !d.enacted {
		return
	}
	o := d.observeAfterStop()
	obs(2, bn(ok), o[0], o[1], o[2])
	d.tags["stops"]++
}

// ---------- generation ----------
func genC17(r *Rand, idx int, tier string) Case {
	s := sched17{max: PickInt(r, 1, 2, 2, 3, 3, 5), idleNs: int64(PickInt(r, 40, 40, 60, 3600000)) * 1000000,
		filter: r.Chance(35), files: r.Intn(4)}
	n := 5 + r.Intn(12)
	for i := 0; i < n; i++ {
		switch x := r.Intn(100); {
		case x < 40:
			s.acts = append(s.acts, act17{kind: "open"})
		case x < 48 && s.filter:
			s.acts = append(s.acts, act17{kind: "openbad"})
		case x < 62:
			s.acts = append(s.acts, act17{kind: "use", conn: r.Intn(8)})
		case x < 78:
			s.acts = append(s.acts, act17{kind: "close", conn: r.Intn(8)})
		default:
			// advances around the idle timeout, including exactly the timeout
			s.acts = append(s.acts, act17{kind: "tick", adv: s.idleNs * int64(PickInt(r, 25, 50, 100, 100, 150, 300)) / 100})
		}
	}
	kind := "exact+stop"
	switch x := r.Intn(100); {
	case x < 45:
		s.acts = append(s.acts, act17{kind: "stop"})
	case x < 80:
		kind = "exact+churn"
		s.churn, s.rounds = 3+r.Intn(6), 3+r.Intn(6)
	default:
		kind = "exact+churn+stop-mid-burst"
		s.churn, s.rounds, s.stopMid = 3+r.Intn(6), 2+r.Intn(5), true
	}
	if s.churn > 0 && r.Chance(50) {
		kind += "+mass"
		s.mass = 10 + r.Intn(30)
		if r.Chance(60) {
			s.max = 0 // the default limit of 100: all of them are registered when Stop closes them
		}
	}
	if s.churn == 0 && len(s.acts) > 0 && s.acts[len(s.acts)-1].kind == "stop" && r.Chance(45) {
		// instead of the quiet Stop: requests are inside a backend call when the server is shut down
		s.acts = s.acts[:len(s.acts)-1]
		s.held, s.heldEnd, s.holdMs = 1+r.Intn(3), PickStr(r, "stop", "stop", "close", "unexport"), 300+r.Intn(400)
		kind = "exact+held-" + s.heldEnd
		if r.Chance(50) {
			// two overlapping shutdown calls (Close || Unexport and Close || Close raced on AbsfsNFS.exportServer until the
			// repair recorded in known_findings.txt; the -race build of the thorough tier now guards it)
			pairs := [][2]string{{"stop", "stop"}, {"stop", "stop"}, {"unexport", "stop"}, {"close", "unexport"}, {"close", "close"}}
			pr := pairs[r.Intn(len(pairs))]
			s.heldEnd, s.heldEnd2, s.gapMs = pr[0], pr[1], 50+r.Intn(100)
			kind = "exact+held-" + pr[0] + "||" + pr[1]
		}
	}
	s.closing = [][]string{{"close", "close"}, {"close", "unexport", "stop"}, {"unexport", "close", "close"}, {"stop", "close", "unexport", "close"},
		{"unexport", "activity", "unexport", "close"}, {"unexport", "unexport", "activity", "close", "close"},
		{"stop", "unexport", "activity", "unexport", "activity", "close"}}[r.Intn(7)]
	return runC17(s, kind, idx)
}

func corpusC17() []Case {
	ms := int64(1000000)
	limit := sched17{max: 1, idleNs: 40 * ms, files: 2, acts: []act17{
		{kind: "open"}, {kind: "open"}, {kind: "use"}, {kind: "tick", adv: 40 * ms}, {kind: "tick", adv: 10 * ms},
		{kind: "open"}, {kind: "close"}, {kind: "stop"}}, closing: []string{"close", "close", "unexport", "stop"}}
	filt := sched17{max: 2, idleNs: 60 * ms, filter: true, files: 1, acts: []act17{
		{kind: "openbad"}, {kind: "open"}, {kind: "open"}, {kind: "open"}, {kind: "tick", adv: 30 * ms}, {kind: "use", conn: 1},
		{kind: "tick", adv: 45 * ms}, {kind: "stop"}}, closing: []string{"unexport", "activity", "unexport", "close"}}
	churn := sched17{max: 3, idleNs: 3600000 * ms, files: 3, acts: []act17{{kind: "open"}}, churn: 8, rounds: 6, stopMid: true,
		closing: []string{"close", "close"}}
	heldStop := sched17{max: 3, idleNs: 3600000 * ms, files: 1, acts: []act17{{kind: "open"}}, held: 2, heldEnd: "stop", holdMs: 400,
		closing: []string{"close", "close"}}
	heldClose := sched17{max: 3, idleNs: 3600000 * ms, files: 1, acts: []act17{{kind: "open"}}, held: 1, heldEnd: "close", holdMs: 500,
		closing: []string{"close", "unexport"}}
	heldUnexp := sched17{max: 5, idleNs: 3600000 * ms, files: 0, acts: nil, held: 3, heldEnd: "unexport", holdMs: 350,
		closing: []string{"unexport", "close"}}
	stopStop := sched17{max: 3, idleNs: 3600000 * ms, files: 1, acts: []act17{{kind: "open"}}, held: 2, heldEnd: "stop", heldEnd2: "stop",
		gapMs: 80, holdMs: 500, closing: []string{"close", "close"}}
	unexpStop := sched17{max: 3, idleNs: 3600000 * ms, files: 1, acts: []act17{{kind: "open"}}, held: 1, heldEnd: "unexport", heldEnd2: "stop",
		gapMs: 60, holdMs: 450, closing: []string{"close"}}
	return []Case{runC17(limit, "limit-reap-stop", 0), runC17(filt, "filter-reap-stop", 1), runC17(churn, "churn-stop-mid-burst", 2),
		runC17(heldStop, "held-stop", 3), runC17(heldClose, "held-close", 4), runC17(heldUnexp, "held-unexport", 5),
		runC17(stopStop, "held-stop||stop", 6), runC17(unexpStop, "held-unexport||stop", 7)}
}
