// drive_lts: schedule-driven cases for the transition-system properties (C16 policy drain-and-swap, C17 connection lifecycle).
package main

import "verifharness/lib"

func main() { lib.Main() }
