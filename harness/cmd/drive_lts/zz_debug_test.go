package main

import (
	"fmt"
	"runtime"
	"strings"
	"testing"

	"github.com/absfs/absnfs"
)

func TestReapRepro(t *testing.T) {
	ms := int64(1000000)
	bad := 0
	debug17 = func(d *drv17) {
		cnt, act := d.srv.VerifLTSConnCounts()
		fmt.Println("DEBUG counts", cnt, act, "clock", absnfs.VerifClock(), "twin now", d.now, "last", d.last)
		buf := make([]byte, 1<<20)
		n := runtime.Stack(buf, true)
		for _, g := range strings.Split(string(buf[:n]), "\n\n") {
			if strings.Contains(g, "absnfs.(*Server)") {
				fmt.Println(g)
				fmt.Println()
			}
		}
	}
	for i := 0; i < 300; i++ {
		s := sched17{max: 1, idleNs: 40 * ms, files: 0, acts: []act17{
			{kind: "tick", adv: 120 * ms}, {kind: "open"}, {kind: "open"}, {kind: "use"}, {kind: "tick", adv: 120 * ms}, {kind: "stop"}},
			closing: []string{"close"}}
		c := runC17(s, "x", i)
		if c.Tags["not_enacted"] > 0 {
			bad++
			fmt.Println(i, c.Text)
		}
	}
	fmt.Println("bad", bad)
}
