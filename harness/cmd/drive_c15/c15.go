package main

// c15.go: the child (real server + TCP clients), the parent side (process supervision, Coq rendering) and the
// registration of Props["C15"].

import (
	"bufio"
	"bytes"
	"crypto/sha256"
	"encoding/binary"
	"encoding/hex"
	"encoding/json"
	"errors"
	"fmt"
	"io"
	"net"
	"os"
	"os/exec"
	"runtime"
	"strconv"
	"strings"
	"sync"
	"syscall"
	"time"

	"github.com/absfs/absnfs"

	. "verifharness/lib"
	"verifharness/specfs"
)

// ---------------------------------------------------------------------------------------------------------
// observations
// ---------------------------------------------------------------------------------------------------------

type connObs struct {
	Out      []byte
	Early    bool // the server closed before the client half-closed
	Closed   bool // the server closed before the deadline
	Reset    bool // the close was seen as a connection reset
	WriteErr bool // a client write failed (server already gone)
}

type caseObs struct {
	Conns        []connObs
	ProbeNew     bool
	ProbeOld     bool
	Alloc        uint64
	HeapDelta    int64
	GorBefore    int
	GorAfter     int
	Panics       int // "recovered panic" lines logged by the server during the case
	Alive        bool
	Races        int
	StallRetries int // stall family: attempts repeated because the client-side schedule was not met (machine load)
	InputHash    string
	Stderr       string `json:",omitempty"`
}

type request struct {
	Corpus int    `json:"corpus"` // >= 0: corpus case
	Seed   uint64 `json:"seed"`
	Idx    int    `json:"idx"`
	Tier   string `json:"tier"`
	Quit   bool   `json:"quit"`
}

func inputHash(in caseIn) string {
	h := sha256.New()
	for _, c := range in.Conns {
		binary.Write(h, binary.BigEndian, uint32(len(c.Stream)))
		h.Write(c.Stream)
		for _, x := range c.Chunks {
			binary.Write(h, binary.BigEndian, uint32(x))
		}
		if c.Stall {
			binary.Write(h, binary.BigEndian, uint32(c.FirstLen))
			h.Write(c.Rest)
		}
	}
	return hex.EncodeToString(h.Sum(nil)[:8])
}

// ---------------------------------------------------------------------------------------------------------
// child: the real server and the clients
// ---------------------------------------------------------------------------------------------------------

type panicCounter struct {
	mu sync.Mutex
	n  int
}

func (p *panicCounter) Write(b []byte) (int, error) {
	p.mu.Lock()
	p.n += bytes.Count(b, []byte("recovered panic"))
	p.mu.Unlock()
	return len(b), nil
}
func (p *panicCounter) take() int {
	p.mu.Lock()
	defer p.mu.Unlock()
	n := p.n
	p.n = 0
	return n
}

type server struct {
	nfs       *absnfs.AbsfsNFS
	srv       *absnfs.Server
	addr      string
	h         handles
	bystander net.Conn
	xid       uint32
	panics    *panicCounter
}

func startServer() (*server, error) {
	absnfs.VerifSetClock(0) // real time: the connection loop arms socket deadlines from time.Now()
	fs := specfs.New()
	fs.Mkdir("/dir", 0o755)
	if f, err := fs.Create("/a.txt"); err == nil {
		f.Write([]byte("hello, world\n"))
		f.Close()
	}
	fs.Symlink("a.txt", "/lnk")
	nfs, err := absnfs.New(fs, absnfs.ExportOptions{})
	if err != nil {
		return nil, err
	}
	srv, err := absnfs.NewServer(absnfs.ServerOptions{Name: "c15", Hostname: "127.0.0.1", Port: 0, UseRecordMarking: true})
	if err != nil {
		return nil, err
	}
	pc := &panicCounter{}
	srv.VerifC15SetLogOutput(pc)
	srv.SetHandler(nfs)
	if err := srv.Listen(); err != nil {
		return nil, err
	}
	s := &server{nfs: nfs, srv: srv, addr: fmt.Sprintf("127.0.0.1:%d", srv.GetPort()), xid: 0x5eed0000, panics: pc}
	// the two handles, through the protocol: MNT "/" and LOOKUP a.txt
	c, err := net.DialTimeout("tcp", s.addr, 5*time.Second)
	if err != nil {
		return nil, err
	}
	defer c.Close()
	mnt := callT{xid: 1, rpcvers: 2, prog: progMount, vers: 3, proc: 1, args: opaque([]byte("/"))}
	rep, err := exchange(c, mnt.record(), 5*time.Second)
	if err != nil || len(rep) < 40 || binary.BigEndian.Uint32(rep[24:]) != 0 || binary.BigEndian.Uint32(rep[28:]) != 8 {
		return nil, fmt.Errorf("MNT failed: %v %x", err, rep)
	}
	s.h.Root = append([]byte{}, rep[32:40]...)
	lk := callT{xid: 2, rpcvers: 2, prog: progNFS, vers: 3, proc: 3, args: cat(fhArg(s.h.Root), opaque([]byte("a.txt")))}
	rep, err = exchange(c, lk.record(), 5*time.Second)
	if err != nil || len(rep) < 40 || binary.BigEndian.Uint32(rep[24:]) != 0 || binary.BigEndian.Uint32(rep[28:]) != 8 {
		return nil, fmt.Errorf("LOOKUP failed: %v %x", err, rep)
	}
	s.h.File = append([]byte{}, rep[32:40]...)
	// warm up: worker pool goroutines, caches, size classes
	for i := 0; i < 20; i++ {
		ga := callT{xid: uint32(100 + i), rpcvers: 2, prog: progNFS, vers: 3, proc: 1, args: fhArg(s.h.Root)}
		if _, err := exchange(c, ga.record(), 5*time.Second); err != nil {
			return nil, fmt.Errorf("warm-up failed: %v", err)
		}
	}
	for i := 0; i < 3; i++ {
		s.probeNew()
	}
	return s, nil
}

// exchange: one call, one reply, single-fragment framing both ways (a conformant client)
func exchange(c net.Conn, rec []byte, timeout time.Duration) ([]byte, error) {
	c.SetDeadline(time.Now().Add(timeout))
	if _, err := c.Write(frame(rec, nil, true)); err != nil {
		return nil, err
	}
	var out []byte
	for {
		var hd [4]byte
		if _, err := io.ReadFull(c, hd[:]); err != nil {
			return nil, err
		}
		h := binary.BigEndian.Uint32(hd[:])
		n := int(h & 0x7fffffff)
		if n > 1<<22 {
			return nil, fmt.Errorf("reply fragment of %d bytes", n)
		}
		buf := make([]byte, n)
		if _, err := io.ReadFull(c, buf); err != nil {
			return nil, err
		}
		out = append(out, buf...)
		if h&0x80000000 != 0 {
			return out, nil
		}
	}
}

func nullOK(c net.Conn, xid uint32) bool {
	null := callT{xid: xid, rpcvers: 2, prog: progNFS, vers: 3}
	rep, err := exchange(c, null.record(), 5*time.Second)
	// xid, REPLY, MSG_ACCEPTED, verf (0, 0), SUCCESS
	return err == nil && len(rep) == 24 && binary.BigEndian.Uint32(rep) == xid && binary.BigEndian.Uint32(rep[4:]) == 1 &&
		binary.BigEndian.Uint32(rep[8:]) == 0 && binary.BigEndian.Uint32(rep[20:]) == 0
}

func (s *server) probeNew() bool {
	c, err := net.DialTimeout("tcp", s.addr, 5*time.Second)
	if err != nil {
		return false
	}
	defer c.Close()
	s.xid++
	return nullOK(c, s.xid)
}

// the long-lived connection: (re)opened before a case if needed, must still work after it
func (s *server) ensureBystander() {
	if s.bystander != nil {
		s.xid++
		if nullOK(s.bystander, s.xid) {
			return
		}
		s.bystander.Close()
	}
	c, err := net.DialTimeout("tcp", s.addr, 5*time.Second)
	if err != nil {
		s.bystander = nil
		return
	}
	s.bystander = c
	s.xid++
	nullOK(c, s.xid)
}

// predictWaits runs the implementation's own codecs over the stream IN MEMORY, only to choose how long to be
// patient before half-closing (the verdict is Coq's): true = the reader ends up waiting for more bytes.
func predictWaits(stream []byte) bool {
	rd := absnfs.NewRecordMarkingReader(bytes.NewReader(stream))
	for {
		data, err := rd.ReadRecord()
		if err != nil {
			return errors.Is(err, io.EOF) || errors.Is(err, io.ErrUnexpectedEOF)
		}
		if _, err := absnfs.DecodeRPCCall(bytes.NewReader(data)); err != nil {
			return false
		}
	}
}

func patienceFor(in connIn) time.Duration {
	if predictWaits(in.Stream) {
		return 40 * time.Millisecond
	}
	return 5 * time.Second
}

func runConn(addr string, in connIn, patience time.Duration) connObs {
	var o connObs
	c, err := net.DialTimeout("tcp", addr, 5*time.Second)
	if err != nil {
		return o
	}
	defer c.Close()
	tcp := c.(*net.TCPConn)
	tcp.SetNoDelay(in.NoDelay)
	done := make(chan struct{})
	out := make([]byte, 0, 8192)
	var rerr error
	c.SetReadDeadline(time.Now().Add(20 * time.Second))
	go func() {
		defer close(done)
		buf := make([]byte, 16384)
		for {
			n, err := c.Read(buf)
			out = append(out, buf[:n]...)
			if err != nil {
				rerr = err
				return
			}
			if len(out) > 1<<22 {
				rerr = fmt.Errorf("output flood")
				return
			}
		}
	}()
	off := 0
	for i, n := range in.Chunks {
		if _, err := c.Write(in.Stream[off : off+n]); err != nil {
			o.WriteErr = true
			break
		}
		off += n
		if in.SleepUs[i%len(in.SleepUs)] > 0 {
			time.Sleep(time.Duration(in.SleepUs[i%len(in.SleepUs)]) * time.Microsecond)
		}
	}
	finished := false
	select {
	case <-done:
		o.Early, finished = true, true
	case <-time.After(patience):
	}
	if !finished {
		tcp.CloseWrite()
		select {
		case <-done:
		case <-time.After(12 * time.Second):
			c.Close()
			<-done
			rerr = os.ErrDeadlineExceeded
		}
	}
	o.Out = out
	o.Closed, o.Reset = closeKind(rerr)
	return o
}

// closeKind: how the reader saw the connection end: (closed by the server, seen as a reset)
func closeKind(rerr error) (closed, reset bool) {
	switch {
	case rerr == io.EOF:
		return true, false
	case errors.Is(rerr, syscall.ECONNRESET) || errors.Is(rerr, syscall.EPIPE):
		return true, true
	}
	return false, false // deadline: the server kept the connection open
}

func (s *server) runCase(in caseIn) caseObs {
	obs := caseObs{Alive: true, InputHash: inputHash(in)}
	s.ensureBystander()
	s.panics.take()
	base := s.srv.VerifC15ConnCount()
	var m0, m1 runtime.MemStats
	patience := make([]time.Duration, len(in.Conns)) // chosen before the measurement starts: it runs the codecs in memory
	for i := range in.Conns {
		patience[i] = patienceFor(in.Conns[i])
	}
	if in.Measured {
		runtime.GC()
	}
	obs.GorBefore = runtime.NumGoroutine()
	runtime.ReadMemStats(&m0)
	obs.Conns = make([]connObs, len(in.Conns))
	if len(in.Conns) > 0 && in.Conns[0].Stall {
		for attempt := 0; attempt < 3; attempt++ {
			var ok bool
			if obs.Conns, ok = runStallConns(s.addr, in.Conns); ok {
				break
			}
			obs.StallRetries++
		}
	} else if len(in.Conns) == 1 {
		obs.Conns[0] = runConn(s.addr, in.Conns[0], patience[0])
	} else {
		var wg sync.WaitGroup
		for i := range in.Conns {
			wg.Add(1)
			go func(i int) {
				defer wg.Done()
				obs.Conns[i] = runConn(s.addr, in.Conns[i], patience[i])
			}(i)
		}
		wg.Wait()
	}
	// the server side of the connections has gone when they are unregistered and their goroutines ended
	dl := time.Now().Add(3 * time.Second)
	for time.Now().Before(dl) && (s.srv.VerifC15ConnCount() > base || runtime.NumGoroutine() > obs.GorBefore) {
		time.Sleep(200 * time.Microsecond)
	}
	runtime.ReadMemStats(&m1)
	obs.GorAfter = runtime.NumGoroutine()
	obs.Alloc = m1.TotalAlloc - m0.TotalAlloc
	if in.Measured {
		runtime.GC()
		var m2 runtime.MemStats
		runtime.ReadMemStats(&m2)
		obs.HeapDelta = int64(m2.HeapAlloc) - int64(m0.HeapAlloc)
	}
	obs.ProbeNew = s.probeNew()
	s.xid++
	obs.ProbeOld = s.bystander != nil && nullOK(s.bystander, s.xid)
	obs.Panics = s.panics.take()
	return obs
}

func childMain() {
	s, err := startServer()
	if err != nil {
		fmt.Fprintln(os.Stderr, "drive_c15 child: cannot start the server:", err)
		os.Exit(3)
	}
	out := bufio.NewWriter(os.Stdout)
	fmt.Fprintf(out, "READY %s %s\n", hex.EncodeToString(s.h.Root), hex.EncodeToString(s.h.File))
	out.Flush()
	var corpus []caseIn
	sc := bufio.NewScanner(os.Stdin)
	sc.Buffer(make([]byte, 1<<16), 1<<20)
	for sc.Scan() {
		var rq request
		if err := json.Unmarshal(sc.Bytes(), &rq); err != nil {
			fmt.Fprintln(os.Stderr, "drive_c15 child: bad request:", err)
			os.Exit(3)
		}
		if rq.Quit {
			break
		}
		var in caseIn
		if rq.Corpus >= 0 {
			if corpus == nil {
				corpus = corpusInputs(s.h)
			}
			in = corpus[rq.Corpus]
		} else {
			in = genInput(NewRand(rq.Seed, uint64(rq.Idx)), rq.Idx, rq.Tier, s.h)
		}
		obs := s.runCase(in)
		b, _ := json.Marshal(obs)
		out.WriteString("OBS ")
		out.Write(b)
		out.WriteByte('\n')
		out.Flush()
	}
	s.srv.Stop()
	s.nfs.Close()
}

// ---------------------------------------------------------------------------------------------------------
// parent: supervision of the child
// ---------------------------------------------------------------------------------------------------------

type childProc struct {
	cmd    *exec.Cmd
	in     io.WriteCloser
	out    *bufio.Reader
	h      handles
	mu     sync.Mutex
	stderr bytes.Buffer
	races  int
}

var (
	child     *childProc
	seedFlag  uint64 = 1
	knownH    handles
	haveKnown bool
)

func parseParentArgs() {
	a := os.Args[1:]
	for i := 0; i < len(a); i++ {
		k := strings.TrimLeft(a[i], "-")
		v := ""
		if j := strings.Index(k, "="); j >= 0 {
			k, v = k[:j], k[j+1:]
		} else if i+1 < len(a) {
			v = a[i+1]
		}
		if k == "seed" {
			if x, err := strconv.ParseUint(v, 10, 64); err == nil {
				seedFlag = x
			}
		}
	}
}

type stderrSink struct{ c *childProc }

func (w stderrSink) Write(b []byte) (int, error) {
	w.c.mu.Lock()
	defer w.c.mu.Unlock()
	w.c.races += bytes.Count(b, []byte("WARNING: DATA RACE"))
	w.c.stderr.Write(b)
	if w.c.stderr.Len() > 1<<16 {
		x := w.c.stderr.Bytes()
		w.c.stderr = *bytes.NewBuffer(append([]byte{}, x[len(x)-(1<<15):]...))
	}
	return len(b), nil
}

func startChild() *childProc {
	exe, err := os.Executable()
	if err != nil {
		panic(err)
	}
	cmd := exec.Command(exe)
	cmd.Env = append(os.Environ(), "VERIF_C15_CHILD=1")
	c := &childProc{cmd: cmd}
	c.in, _ = cmd.StdinPipe()
	so, _ := cmd.StdoutPipe()
	cmd.Stderr = stderrSink{c}
	if err := cmd.Start(); err != nil {
		panic(err)
	}
	c.out = bufio.NewReaderSize(so, 1<<20)
	line, err := c.out.ReadString('\n')
	f := strings.Fields(line)
	if err != nil || len(f) != 3 || f[0] != "READY" {
		cmd.Wait()
		fmt.Fprintf(os.Stderr, "drive_c15: the child did not start: %q %v\n%s\n", line, err, c.stderr.String())
		os.Exit(1)
	}
	c.h.Root, _ = hex.DecodeString(f[1])
	c.h.File, _ = hex.DecodeString(f[2])
	if haveKnown && (!bytes.Equal(knownH.Root, c.h.Root) || !bytes.Equal(knownH.File, c.h.File)) {
		fmt.Fprintln(os.Stderr, "drive_c15: the handles issued at start-up differ between two server starts")
		os.Exit(1)
	}
	knownH, haveKnown = c.h, true
	return c
}

func stopChild() {
	if child == nil {
		return
	}
	b, _ := json.Marshal(request{Quit: true, Corpus: -1})
	child.in.Write(append(b, '\n'))
	child.in.Close()
	done := make(chan struct{})
	go func() { child.cmd.Wait(); close(done) }()
	select {
	case <-done:
	case <-time.After(10 * time.Second):
		child.cmd.Process.Kill()
	}
	child = nil
}

func theHandles() handles {
	if child == nil {
		child = startChild()
	}
	return child.h
}

// ask runs one case in the child; a dead child yields Alive=false and a fresh child for the next case.
func ask(rq request, nconns int) caseObs {
	if child == nil {
		child = startChild()
	}
	b, _ := json.Marshal(rq)
	_, werr := child.in.Write(append(b, '\n'))
	var line string
	var rerr error
	if werr == nil {
		// lines that are not observations (anything the library might print on stdout) are skipped; a child that
		// does not answer within the watchdog time is killed and counts as dead
		type res struct {
			line string
			err  error
		}
		ch := make(chan res, 1)
		go func(c *childProc) {
			for {
				l, err := c.out.ReadString('\n')
				if err != nil || strings.HasPrefix(l, "OBS ") {
					ch <- res{strings.TrimPrefix(l, "OBS "), err}
					return
				}
			}
		}(child)
		select {
		case r := <-ch:
			line, rerr = r.line, r.err
		case <-time.After(180 * time.Second):
			child.cmd.Process.Kill()
			rerr = fmt.Errorf("watchdog")
		}
	}
	var obs caseObs
	if werr != nil || rerr != nil || json.Unmarshal([]byte(line), &obs) != nil {
		child.cmd.Wait()
		child.mu.Lock()
		tail := child.stderr.String()
		child.mu.Unlock()
		if len(tail) > 3000 {
			tail = tail[:1500] + "\n...\n" + tail[len(tail)-1500:]
		}
		obs = caseObs{Alive: false, Conns: make([]connObs, nconns), Stderr: tail}
		child = nil
		return obs
	}
	child.mu.Lock()
	obs.Races, child.races = child.races, 0
	child.mu.Unlock()
	return obs
}

// ---------------------------------------------------------------------------------------------------------
// rendering
// ---------------------------------------------------------------------------------------------------------

func lit(b []byte) string {
	var ws []string
	for i := 0; i < len(b); i += 7 {
		var w uint64
		for j := i; j < i+7 && j < len(b); j++ {
			w = w<<8 | uint64(b[j])
		}
		ws = append(ws, fmt.Sprintf("%d", w))
	}
	return fmt.Sprintf("(B %d %s%%uint63)", len(b), CList(ws))
}

// cbytes prints a byte string as a concatenation of literal pieces and runs of zeros
func cbytes(b []byte) string {
	var segs []string
	start := 0
	flush := func(end int) {
		if end > start {
			segs = append(segs, lit(b[start:end]))
		}
	}
	for i := 0; i < len(b); {
		if b[i] != 0 {
			i++
			continue
		}
		j := i
		for j < len(b) && b[j] == 0 {
			j++
		}
		if j-i >= 96 {
			flush(i)
			segs = append(segs, fmt.Sprintf("(Zr %d)", j-i))
			start = j
		}
		i = j
	}
	flush(len(b))
	switch len(segs) {
	case 0:
		return "[]"
	case 1:
		return segs[0]
	}
	return "(cat " + CList(segs) + ")"
}

func shortHex(b []byte) string {
	if len(b) > 160 {
		return hex.EncodeToString(b[:120]) + fmt.Sprintf("..(%d bytes)..", len(b)) + hex.EncodeToString(b[len(b)-16:])
	}
	return hex.EncodeToString(b)
}

// the reply XIDs as a client would read them (for the text and the tags only)
func replyXids(out []byte) (xids []string, clean bool) {
	for len(out) > 0 {
		var rec []byte
		for {
			if len(out) < 4 {
				return xids, false
			}
			h := binary.BigEndian.Uint32(out)
			n := int(h & 0x7fffffff)
			if len(out) < 4+n {
				return xids, false
			}
			rec = append(rec, out[4:4+n]...)
			out = out[4+n:]
			if h&0x80000000 != 0 {
				break
			}
		}
		if len(rec) >= 4 {
			xids = append(xids, fmt.Sprintf("%08x", binary.BigEndian.Uint32(rec)))
		} else {
			xids = append(xids, "short")
		}
	}
	return xids, true
}

func render(in caseIn, obs caseObs) Case {
	if obs.Alive && obs.InputHash != inputHash(in) {
		fmt.Fprintln(os.Stderr, "drive_c15: parent and child generated different inputs")
		os.Exit(1)
	}
	tags := in.Tags
	if tags == nil {
		tags = map[string]int{}
	}
	var conns []string
	var txt strings.Builder
	fmt.Fprintf(&txt, "kind=%s connections=%d measured=%v\n", in.Kind, len(in.Conns), in.Measured)
	nontrivial := false
	for i, c := range in.Conns {
		o := obs.Conns[i]
		conns = append(conns, fmt.Sprintf("(mkConn %s %s %s %s %s %s)", cbytes(c.Stream), cbytes(o.Out), CBool(o.Early), CBool(o.Closed),
			CBool(c.Stall), cbytes(c.Rest)))
		xids, clean := replyXids(o.Out)
		fmt.Fprintf(&txt, " conn %d: %s\n  stream (%d bytes, %d writes): %s\n  server sent %d bytes, reply XIDs %v%s; closed=%v before-client-EOF=%v reset=%v\n",
			i, c.Desc, len(c.Stream), len(c.Chunks), shortHex(c.Stream), len(o.Out), xids,
			map[bool]string{true: "", false: " + INCOMPLETE RECORD"}[clean], o.Closed, o.Early, o.Reset)
		if c.Stall {
			fmt.Fprintf(&txt, "  STALLED longer than the (shortened) read deadline after those bytes; server closed before the rest was sent=%v; then sent %d bytes: %s\n",
				o.Early, len(c.Rest), shortHex(c.Rest))
			tags["stalled_connections"]++
			if o.Early {
				tags["stalled_closed_at_deadline"]++
			}
		}
		tags["connections"]++
		tags["replies"] += len(xids)
		tags["stream_bytes"] += len(c.Stream)
		if len(xids) > 0 {
			tags["conn_with_replies"]++
		}
		if o.Early {
			tags["closed_before_client_eof"]++
		} else if o.Closed {
			tags["closed_at_client_eof"]++
		}
		if o.Reset {
			tags["close_seen_as_reset"]++
		}
		if o.WriteErr {
			tags["client_write_failed"]++
		}
		if len(c.Stream) > 0 {
			nontrivial = true
		}
	}
	fmt.Fprintf(&txt, " probe on a new connection=%v, on the long-lived connection=%v; TotalAlloc delta=%d HeapAlloc delta=%d; goroutines %d -> %d; recovered panics=%d; races=%d; process alive=%v",
		obs.ProbeNew, obs.ProbeOld, obs.Alloc, obs.HeapDelta, obs.GorBefore, obs.GorAfter, obs.Panics, obs.Races, obs.Alive)
	if obs.StallRetries > 0 {
		tags["stall_schedule_retries"] += obs.StallRetries
	}
	if !obs.Alive {
		fmt.Fprintf(&txt, "\n THE SERVER PROCESS DIED while this case ran; its stderr:\n%s", obs.Stderr)
		tags["process_died"]++
	}
	if in.Measured {
		tags["measured"]++
		tags["alloc_kib_measured"] += int(obs.Alloc / 1024)
	}
	coq := fmt.Sprintf("(mkCase %s %s %s %s %d %d %d %d %s %d)", CList(conns), CBool(obs.ProbeNew), CBool(obs.ProbeOld),
		CBool(in.Measured), obs.Alloc, obs.GorBefore, obs.GorAfter, obs.Panics, CBool(obs.Alive), obs.Races)
	c := Case{Kind: in.Kind, Text: txt.String(), Coq: coq, Tags: tags}
	if nontrivial {
		c.Extra = map[string]string{"nontrivial": "1"}
	}
	// distinctness: the inputs (observations such as allocation volumes would make every case distinct)
	c.Key = in.Kind + inputHash(in)
	return c
}

func init() {
	Props["C15"] = &Prop{
		Imports:   "From Verif Require Import Corr.C15.\nFrom Coq Require Import PrimInt63.",
		ShardSize: 60,
		Gen: func(r *Rand, idx int, tier string) Case {
			in := genInput(r, idx, tier, theHandles())
			return render(in, ask(request{Corpus: -1, Seed: seedFlag, Idx: idx, Tier: tier}, len(in.Conns)))
		},
		Corpus: func() []Case {
			ins := corpusInputs(theHandles())
			var out []Case
			for k, in := range ins {
				out = append(out, render(in, ask(request{Corpus: k}, len(in.Conns))))
			}
			return out
		},
		NonTrivial: func(c *Case) bool { return c.Extra["nontrivial"] == "1" },
	}
}
