package main

// gen.go: deterministic generation of the byte streams (pure functions of the *Rand and of the two file handles the
// server issued at start-up; parent and child compute the same inputs).

import (
	"encoding/binary"
	"fmt"

	. "verifharness/lib"
)

type connIn struct {
	Desc    string
	Stream  []byte
	Chunks  []int // sizes of the successive writes (sum = len(Stream))
	SleepUs []int // pause after each write, microseconds
	NoDelay bool
	// STALL family (stall.go): Stream[:FirstLen] is a complete first call, Stream[FirstLen:] is sent after its reply,
	// then the client is silent for longer than the (shortened) read deadline, then sends Rest
	Stall    bool
	FirstLen int
	Rest     []byte
}

type caseIn struct {
	Kind     string
	Conns    []connIn
	Measured bool
	Tags     map[string]int
}

type handles struct{ Root, File []byte } // 8-byte handle values of "/" and "/a.txt"

func be32(v uint32) []byte { b := make([]byte, 4); binary.BigEndian.PutUint32(b, v); return b }
func be64(v uint64) []byte { b := make([]byte, 8); binary.BigEndian.PutUint64(b, v); return b }
func cat(parts ...[]byte) []byte {
	var out []byte
	for _, p := range parts {
		out = append(out, p...)
	}
	return out
}
func opaque(b []byte) []byte {
	out := cat(be32(uint32(len(b))), b)
	for len(out)%4 != 0 {
		out = append(out, 0)
	}
	return out
}
func fhArg(h []byte) []byte { return opaque(h) }

const (
	progNFS   = 100003
	progMount = 100005
)

type callT struct {
	xid, rpcvers, prog, vers, proc uint32
	cf                             uint32
	cred                           []byte
	vf                             uint32
	verf                           []byte
	args                           []byte
	desc                           string
}

func (c callT) record() []byte {
	return cat(be32(c.xid), be32(0), be32(c.rpcvers), be32(c.prog), be32(c.vers), be32(c.proc),
		be32(c.cf), opaque(c.cred), be32(c.vf), opaque(c.verf), c.args)
}

func authSys(uid, gid uint32, name string, gids []uint32) []byte {
	b := cat(be32(0), opaque([]byte(name)), be32(uid), be32(gid), be32(uint32(len(gids))))
	for _, g := range gids {
		b = append(b, be32(g)...)
	}
	return b
}

func randBytes(r *Rand, n int) []byte {
	b := make([]byte, n)
	for i := range b {
		b[i] = byte(r.U64())
	}
	return b
}

// frame writes one record as fragments cut at the given offsets (equal offsets give empty fragments);
// lastBit=false leaves the last-fragment bit off (the record never completes).
func frame(rec []byte, cuts []int, lastBit bool) []byte {
	var out []byte
	prev := 0
	pts := append(append([]int{}, cuts...), len(rec))
	for i, p := range pts {
		h := uint32(p - prev)
		if i == len(pts)-1 && lastBit {
			h |= 0x80000000
		}
		out = append(out, be32(h)...)
		out = append(out, rec[prev:p]...)
		prev = p
	}
	return out
}

func sortedCuts(r *Rand, k, n int) []int {
	cuts := make([]int, k)
	for i := range cuts {
		cuts[i] = r.Intn(n + 1)
	}
	for i := 1; i < len(cuts); i++ {
		for j := i; j > 0 && cuts[j] < cuts[j-1]; j-- {
			cuts[j], cuts[j-1] = cuts[j-1], cuts[j]
		}
	}
	return cuts
}

func randFrame(r *Rand, rec []byte, tags map[string]int) []byte {
	switch x := r.Intn(100); {
	case x < 55:
		tags["frag_single"]++
		return frame(rec, nil, true)
	case x < 80:
		tags["frag_multi"]++
		return frame(rec, sortedCuts(r, 1+r.Intn(4), len(rec)), true)
	case x < 90:
		tags["frag_empty_edges"]++
		cuts := []int{0}
		if r.Bool() {
			cuts = append(cuts, 0)
		}
		cuts = append(cuts, sortedCuts(r, r.Intn(3), len(rec))...)
		if r.Bool() {
			cuts = append(cuts, len(rec))
		}
		return frame(rec, cuts, true)
	default:
		if len(rec) <= 96 {
			tags["frag_bytewise"]++
			cuts := make([]int, 0, len(rec))
			for i := 1; i < len(rec); i++ {
				cuts = append(cuts, i)
			}
			return frame(rec, cuts, true)
		}
		tags["frag_multi"]++
		return frame(rec, sortedCuts(r, 6, len(rec)), true)
	}
}

// randCall: a mostly well-formed call of some program / version / procedure.
func randCall(r *Rand, h handles, tags map[string]int) callT {
	c := callT{xid: uint32(r.U64()), rpcvers: 2, prog: progNFS, vers: 3}
	switch x := r.Intn(100); {
	case x < 55:
	case x < 80:
		c.cf, c.cred = 1, authSys(uint32(r.Intn(3))*500, uint32(r.Intn(2))*100, PickStr(r, "", "host", "a-rather-long-machine-name"), make([]uint32, r.Intn(4)))
		tags["cred_authsys"]++
	case x < 86:
		c.cf, c.cred = 1, randBytes(r, r.Intn(24)) // AUTH_SYS with a body that does not parse
		tags["cred_authsys_garbage"]++
	case x < 92:
		c.cf, c.cred = uint32(PickInt(r, 2, 3, 6, 7, 390003)), randBytes(r, 4*r.Intn(5))
		tags["cred_other_flavor"]++
	default:
		c.cf, c.cred = 1, append(authSys(0, 0, "x", nil), make([]byte, PickInt(r, 376, 379, 380))...) // body of 396..400 bytes
		c.cred = c.cred[:PickInt(r, 397, 399, 400)]
		tags["cred_near_limit"]++
	}
	if r.Chance(8) {
		c.vf, c.verf = uint32(r.Intn(3)), randBytes(r, PickInt(r, 0, 4, 7, 400))
		tags["verf_nonempty"]++
	}
	name := func() []byte {
		return []byte(PickStr(r, "a.txt", "dir", "nope", "lnk", "..", ".", "x/y", "", "a\x00b", string(make([]byte, 255)), "名前"))
	}
	fh := func() []byte {
		switch r.Intn(10) {
		case 0:
			return be64(r.U64()) // unknown handle
		case 1, 2, 3:
			return h.File
		default:
			return h.Root
		}
	}
	// client-chosen numbers: mostly small, 30% boundary values of the 32/64-bit fields
	n64 := func(small int) uint64 {
		if r.Chance(30) {
			tags["edge_number"]++
			return PickU64(r, 0, 1, 1<<31-1, 1<<31, 1<<32-1, 1<<32, 1<<62, 1<<63-1, 1<<63, 1<<63+1, 1<<64-2, 1<<64-1)
		}
		return uint64(r.Intn(small))
	}
	n32 := func(vals ...int) uint32 {
		if r.Chance(30) {
			tags["edge_number"]++
			return uint32(PickU64(r, 0, 1, 3, 1<<16, 1<<20, 1<<31-1, 1<<31, 1<<32-1))
		}
		return uint32(PickInt(r, vals...))
	}
	switch x := r.Intn(100); {
	case x < 10:
		c.proc, c.desc = 0, "NFS.NULL"
	case x < 11:
		c.proc, c.args, c.desc = 21, cat(fhArg(fh()), be64(n64(40)), be32(n32(0, 16, 4096))), "NFS.COMMIT"
	case x < 12:
		// SETATTR of the size only (sattr3: mode, uid, gid absent; size present; times DONT_CHANGE; no guard)
		c.proc, c.args, c.desc = 2, cat(fhArg(h.File), be32(0), be32(0), be32(0), be32(1), be64(n64(64)), be32(0), be32(0), be32(0)), "NFS.SETATTR"
	case x < 26:
		c.proc, c.args, c.desc = 1, fhArg(fh()), "NFS.GETATTR"
	case x < 40:
		c.proc, c.args, c.desc = 3, cat(fhArg(fh()), opaque(name())), "NFS.LOOKUP"
	case x < 46:
		c.proc, c.args, c.desc = 4, cat(fhArg(fh()), be32(uint32(r.Intn(64)))), "NFS.ACCESS"
	case x < 50:
		c.proc, c.args, c.desc = 6, cat(fhArg(fh()), be64(n64(40)), be32(n32(0, 1, 16, 4096))), "NFS.READ"
	case x < 54:
		c.proc, c.args, c.desc = 16, cat(fhArg(fh()), be64(n64(3)), make([]byte, 8), be32(n32(0, 64, 512, 4096))), "NFS.READDIR"
	case x < 57:
		c.proc, c.args, c.desc = 17, cat(fhArg(fh()), be64(n64(3)), make([]byte, 8), be32(n32(512)), be32(n32(64, 2048))), "NFS.READDIRPLUS"
	case x < 63:
		c.proc, c.args, c.desc = uint32(PickInt(r, 18, 19, 20)), fhArg(fh()), "NFS.FSSTAT/FSINFO/PATHCONF"
	case x < 66:
		c.proc, c.args, c.desc = 5, fhArg(fh()), "NFS.READLINK"
	case x < 70:
		// mutating procedures with small arguments (CREATE UNCHECKED / MKDIR / REMOVE / RMDIR)
		switch r.Intn(4) {
		case 0:
			c.proc, c.args, c.desc = 8, cat(fhArg(h.Root), opaque([]byte(fmt.Sprintf("n%d", r.Intn(6)))), be32(0), make([]byte, 24)), "NFS.CREATE"
		case 1:
			c.proc, c.args, c.desc = 9, cat(fhArg(h.Root), opaque([]byte(fmt.Sprintf("d%d", r.Intn(6)))), make([]byte, 24)), "NFS.MKDIR"
		case 2:
			c.proc, c.args, c.desc = 12, cat(fhArg(h.Root), opaque([]byte(fmt.Sprintf("n%d", r.Intn(6))))), "NFS.REMOVE"
		default:
			c.proc, c.args, c.desc = 13, cat(fhArg(h.Root), opaque([]byte(fmt.Sprintf("d%d", r.Intn(6))))), "NFS.RMDIR"
		}
	case x < 73:
		c.proc, c.args, c.desc = 7, cat(fhArg(h.File), be64(n64(8)), be32(n32(4)), be32(uint32(r.Intn(3))), opaque([]byte("data"))), "NFS.WRITE"
	case x < 80:
		c.prog, c.vers, c.proc, c.args, c.desc = progMount, 3, 1, opaque([]byte(PickStr(r, "/", "/dir", "/nope", "relative", ""))), "MOUNT.MNT"
	case x < 85:
		c.prog, c.vers, c.proc, c.desc = progMount, uint32(PickInt(r, 1, 3)), uint32(PickInt(r, 0, 2, 4, 5)), "MOUNT.NULL/DUMP/UMNTALL/EXPORT"
	case x < 87:
		c.prog, c.vers, c.proc, c.args, c.desc = progMount, 3, 3, opaque([]byte("/")), "MOUNT.UMNT"
	case x < 91:
		c.prog, c.desc = uint32(PickInt(r, 100000, 100021, 0, 400000)), "unknown program"
		c.proc, c.args = uint32(r.Intn(5)), randBytes(r, 4*r.Intn(4))
	case x < 94:
		c.vers, c.proc, c.args, c.desc = uint32(PickInt(r, 2, 4, 0)), uint32(r.Intn(22)), fhArg(h.Root), "NFS wrong version"
	case x < 96:
		c.proc, c.args, c.desc = uint32(PickInt(r, 22, 99, 1<<31)), randBytes(r, 4*r.Intn(4)), "NFS unknown procedure"
	case x < 98:
		c.rpcvers, c.proc, c.desc = uint32(PickInt(r, 0, 1, 3)), 0, "rpcvers != 2"
	default:
		// well-formed header, arguments are garbage or declare huge lengths
		c.proc = uint32(PickInt(r, 1, 3, 4, 6, 7, 8, 9, 10, 14, 16))
		switch r.Intn(4) {
		case 0:
			c.args = randBytes(r, r.Intn(40))
		case 1:
			c.args = cat(be32(uint32(PickInt(r, 65, 1<<20, 1<<31-1, -1))), randBytes(r, 8)) // handle length
		case 2:
			c.args = cat(fhArg(h.Root), be32(uint32(PickInt(r, 8193, 1<<24, -1))), randBytes(r, 8)) // name length
		default:
			c.args = fhArg(h.Root)[:r.Intn(12)]
		}
		c.desc = "NFS garbage args"
	}
	tags["call_"+c.desc]++
	return c
}

// a stream of n well-formed calls; returns the framed records separately (for mutations that work on records)
func validRecords(r *Rand, h handles, n int, tags map[string]int) (recs [][]byte, desc string) {
	for i := 0; i < n; i++ {
		c := randCall(r, h, tags)
		recs = append(recs, randFrame(r, c.record(), tags))
		if i > 0 {
			desc += ", "
		}
		desc += fmt.Sprintf("%s xid=%08x", c.desc, c.xid)
	}
	return
}

func garbageRecord(r *Rand, tags map[string]int) ([]byte, string) {
	switch r.Intn(10) {
	case 0:
		tags["bad_empty_record"]++
		return be32(0x80000000), "empty record"
	case 1:
		// a complete, otherwise well-formed call whose msg_type word says REPLY
		tags["bad_reply_msg"]++
		rec := callT{xid: uint32(r.U64()), rpcvers: 2, prog: progNFS, vers: 3}.record()
		copy(rec[4:], be32(1))
		return frame(rec, nil, true), "a well-formed message with msg_type REPLY"
	case 2:
		tags["bad_msgtype"]++
		rec := callT{xid: uint32(r.U64()), rpcvers: 2, prog: progNFS, vers: 3, proc: 1, args: randBytes(r, 12)}.record()
		copy(rec[4:], be32(uint32(PickInt(r, 2, 255, 1<<31, -1))))
		return frame(rec, nil, true), "a well-formed message with an unknown msg_type"
	case 3:
		tags["bad_short_header"]++
		return frame(randBytes(r, r.Intn(4)), nil, true), "record of < 4 bytes"
	case 4:
		tags["bad_cut_header"]++
		c := callT{xid: 9, rpcvers: 2, prog: progNFS, vers: 3}
		rec := c.record()
		return frame(rec[:4+r.Intn(len(rec)-4)], nil, true), "record cut inside the call header"
	case 5:
		tags["bad_cred_over"]++
		n := uint32(PickInt(r, 401, 404, 1<<20, 1<<31, -1))
		return frame(cat(be32(1), be32(0), be32(2), be32(progNFS), be32(3), be32(0), be32(1), be32(n), randBytes(r, 16)), nil, true),
			fmt.Sprintf("credential length %d", n)
	case 6:
		tags["bad_verf_over"]++
		n := uint32(PickInt(r, 401, 1<<20, -1))
		return frame(cat(be32(1), be32(0), be32(2), be32(progNFS), be32(3), be32(0), be32(0), be32(0), be32(0), be32(n), randBytes(r, 8)), nil, true),
			fmt.Sprintf("verifier length %d", n)
	case 7:
		tags["bad_frag_over"]++
		n := uint32(PickInt(r, 1<<20+1, 1<<20+4, 1<<24, 1<<31-1))
		return cat(be32(n|uint32(r.Intn(2))<<31), randBytes(r, r.Intn(12))), fmt.Sprintf("fragment header declaring %d bytes", n)
	case 8:
		tags["bad_running_total"]++
		// small first fragment, second header pushes the running total over 1 MiB
		k := 1 + r.Intn(8)
		return cat(be32(uint32(k)), randBytes(r, k), be32(0x80000000|uint32(1<<20-k+1))), "running total crosses 1 MiB"
	default:
		tags["bad_random_record"]++
		return frame(randBytes(r, 4+r.Intn(60)), nil, true), "random record"
	}
}

func chunking(r *Rand, n int, tags map[string]int) (chunks, sleeps []int, nodelay bool) {
	nodelay = r.Bool()
	if n == 0 {
		return nil, nil, nodelay
	}
	switch x := r.Intn(100); {
	case x < 35:
		chunks = []int{n}
		tags["write_once"]++
	case x < 50 && n <= 128:
		for i := 0; i < n; i++ {
			chunks = append(chunks, 1)
		}
		tags["write_bytewise"]++
	default:
		k := 2 + r.Intn(6)
		cuts := sortedCuts(r, k-1, n)
		prev := 0
		for _, c := range append(cuts, n) {
			if c > prev {
				chunks = append(chunks, c-prev)
				prev = c
			}
		}
		tags["write_chunks"]++
	}
	sleeps = make([]int, len(chunks))
	if r.Chance(30) {
		budget := 4000
		for i := range sleeps {
			if r.Chance(30) && budget > 0 {
				sleeps[i] = 50 + r.Intn(700)
				budget -= sleeps[i]
			}
		}
		tags["write_with_pauses"]++
	}
	return
}

func mkConn(r *Rand, desc string, stream []byte, tags map[string]int) connIn {
	ch, sl, nd := chunking(r, len(stream), tags)
	return connIn{Desc: desc, Stream: stream, Chunks: ch, SleepUs: sl, NoDelay: nd}
}

// one generated connection input
func genConn(r *Rand, h handles, idx int, tags map[string]int) (connIn, string, bool) {
	measured := false
	var stream []byte
	var desc, kind string
	switch x := r.Intn(100); {
	case x < 22:
		kind = "valid"
		recs, d := validRecords(r, h, 1+r.Intn(6), tags)
		stream, desc = cat(recs...), "calls: "+d
	case x < 40:
		kind = "valid+garbage"
		recs, d := validRecords(r, h, r.Intn(4), tags)
		g, gd := garbageRecord(r, tags)
		more, d2 := validRecords(r, h, r.Intn(3), tags)
		stream = cat(cat(recs...), g, cat(more...))
		desc = fmt.Sprintf("calls: %s; then %s; then calls that must not be answered: %s", d, gd, d2)
	case x < 62:
		kind = "mutated"
		recs, d := validRecords(r, h, 1+r.Intn(4), tags)
		stream = cat(recs...)
		var m string
		switch r.Intn(8) {
		case 0, 1:
			k := 1 + r.Intn(3)
			for i := 0; i < k; i++ {
				p := r.Intn(len(stream))
				stream[p] ^= 1 << uint(r.Intn(8))
			}
			m = fmt.Sprintf("%d bit flips", k)
			tags["mut_bitflip"]++
		case 2, 3:
			p := r.Intn(len(stream))
			if idx >= 0 && r.Bool() {
				p = idx % len(stream)
			}
			stream = stream[:p]
			m = fmt.Sprintf("truncated at %d", p)
			tags["mut_truncate"]++
		case 4:
			i := r.Intn(len(recs))
			recs = append(recs[:i+1], append([][]byte{recs[i]}, recs[i+1:]...)...)
			stream = cat(recs...)
			m = fmt.Sprintf("record %d duplicated", i)
			tags["mut_duplicate"]++
		case 5:
			p := r.Intn(len(stream))
			stream = append(stream[:p], stream[p+1:]...)
			m = fmt.Sprintf("byte %d deleted", p)
			tags["mut_delete_byte"]++
		case 6:
			p := r.Intn(len(stream) + 1)
			stream = cat(stream[:p], []byte{byte(r.U64())}, stream[p:])
			m = fmt.Sprintf("byte inserted at %d", p)
			tags["mut_insert_byte"]++
		default:
			// overwrite a 4-byte aligned word with an extreme value (lengths, flags, constants)
			p := 4 * r.Intn(len(stream)/4)
			copy(stream[p:], be32(uint32(PickInt(r, 0, 1, 0x7fffffff, -1, 1<<31, 1<<20, 1<<20+1, 401, 8193, 65))))
			m = fmt.Sprintf("word at %d overwritten", p)
			tags["mut_word"]++
		}
		desc = fmt.Sprintf("calls: %s; mutation: %s", d, m)
	case x < 74:
		kind = "huge-lengths"
		measured = true
		recs, d := validRecords(r, h, r.Intn(2), tags)
		var g []byte
		var gd string
		switch r.Intn(6) {
		case 0:
			n := uint32(PickInt(r, 1<<20+1, 1<<21, 1<<30, 1<<31-1))
			g, gd = cat(be32(n|0x80000000), randBytes(r, r.Intn(20))), fmt.Sprintf("fragment header declaring %d bytes (over the limit)", n)
			tags["huge_fragment_over"]++
		case 1:
			n := uint32(PickInt(r, 1<<20, 1<<20-1, 1<<19, 70000))
			g, gd = cat(be32(n|uint32(r.Intn(2))<<31), randBytes(r, r.Intn(40))), fmt.Sprintf("fragment header declaring %d bytes (within the limit), %s", n, "data missing")
			tags["huge_fragment_within"]++
		case 2:
			n := uint32(PickInt(r, 401, 1<<20, 1<<31-1, -1))
			g = frame(cat(be32(3), be32(0), be32(2), be32(progNFS), be32(3), be32(1), be32(1), be32(n), randBytes(r, 24)), nil, true)
			gd = fmt.Sprintf("credential length %d", n)
			tags["huge_cred"]++
		case 3:
			n := uint32(PickInt(r, 401, 1<<20, -1))
			g = frame(cat(be32(3), be32(0), be32(2), be32(progNFS), be32(3), be32(1), be32(0), be32(0), be32(0), be32(n), randBytes(r, 24)), nil, true)
			gd = fmt.Sprintf("verifier length %d", n)
			tags["huge_verf"]++
		case 4:
			n := uint32(PickInt(r, 8193, 1<<20, 1<<31-1, -1))
			c := callT{xid: uint32(r.U64()), rpcvers: 2, prog: progNFS, vers: 3, proc: 3, args: cat(fhArg(h.Root), be32(n), randBytes(r, 12))}
			if r.Bool() {
				c.prog, c.proc, c.args = progMount, 1, cat(be32(n), randBytes(r, 12))
			}
			g, gd = frame(c.record(), nil, true), fmt.Sprintf("decodable call whose string argument declares %d bytes (xid=%08x)", n, c.xid)
			tags["huge_string_arg"]++
		default:
			n := uint32(PickInt(r, 65, 1<<20, 1<<31-1, -1))
			c := callT{xid: uint32(r.U64()), rpcvers: 2, prog: progNFS, vers: 3, proc: uint32(PickInt(r, 1, 3, 4, 6)), args: cat(be32(n), randBytes(r, 12))}
			g, gd = frame(c.record(), nil, true), fmt.Sprintf("decodable call whose handle declares %d bytes (xid=%08x)", n, c.xid)
			tags["huge_handle_arg"]++
		}
		stream = cat(cat(recs...), g)
		desc = fmt.Sprintf("calls: %s; then %s", d, gd)
	case x < 86:
		kind = "fragment-games"
		c := randCall(r, h, tags)
		rec := c.record()
		var d string
		switch r.Intn(6) {
		case 0:
			k := 1 + r.Intn(120)
			stream = cat(make([]byte, 4*k), frame(rec, nil, true))
			d = fmt.Sprintf("%d empty non-final fragments, then the record", k)
			tags["game_many_empty"]++
		case 1:
			stream = frame(rec, sortedCuts(r, 1+r.Intn(3), len(rec)), false)
			d = "last-fragment bit never set"
			tags["game_no_last_bit"]++
		case 2:
			stream = cat(frame(rec, sortedCuts(r, r.Intn(3), len(rec)), false), be32(0x80000000))
			d = "last-fragment bit on a trailing empty fragment"
			tags["game_empty_last"]++
		case 3:
			// the last bit set one fragment too early: the tail of the call becomes the next record
			p := 4 + r.Intn(len(rec)-4)
			stream = cat(frame(rec[:p], nil, true), frame(rec[p:], nil, true))
			d = fmt.Sprintf("record split into two records at %d", p)
			tags["game_early_last_bit"]++
		case 4:
			// two calls glued into one record: the second is the argument bytes of the first
			c2 := randCall(r, h, tags)
			stream = frame(cat(rec, c2.record()), sortedCuts(r, r.Intn(3), len(rec)), true)
			d = fmt.Sprintf("two calls in one record (second: %s xid=%08x, must not be answered)", c2.desc, c2.xid)
			tags["game_two_in_one"]++
		default:
			k := 1 + r.Intn(3)
			stream = cat(frame(rec, nil, true), be32(0x80000000)[:k])
			d = fmt.Sprintf("%d bytes of a fragment header after the record", k)
			tags["game_partial_header"]++
		}
		desc = fmt.Sprintf("%s xid=%08x; %s", c.desc, c.xid, d)
	default:
		kind = "random"
		n := PickInt(r, 0, 1, 3, 4, 5, 8, 16, 40, 100, 300)
		stream = randBytes(r, n)
		if n >= 4 && r.Chance(60) {
			// make the first header a plausible last fragment so that a record completes
			binary.BigEndian.PutUint32(stream, 0x80000000|uint32(r.Intn(n)))
		}
		desc = fmt.Sprintf("%d random bytes", n)
	}
	tags["stream_"+kind]++
	return mkConn(r, desc, stream, tags), kind, measured
}

func genInput(r *Rand, idx int, tier string, h handles) caseIn {
	if idx%40 == 17 {
		// the STALL family (decided by the index alone, so that the other indices generate what they always did):
		// six connections in parallel, one per stall point plus a repeat of a random one
		kinds := []int{0, 1, 2, 3, 4, 5}
		kinds[r.Intn(6)] = 1 + r.Intn(4)
		return stallCase(r, h, kinds)
	}
	in := caseIn{Tags: map[string]int{}}
	c, kind, measured := genConn(r, h, idx, in.Tags)
	in.Kind, in.Conns, in.Measured = kind, []connIn{c}, measured
	if !measured && r.Chance(25) {
		k := 1 + r.Intn(2)
		for i := 0; i < k; i++ {
			c2, k2, _ := genConn(r, h, -1, in.Tags)
			in.Conns = append(in.Conns, c2)
			in.Kind += "|" + k2
		}
		in.Kind = "concurrent:" + in.Kind
		in.Tags["concurrent_connections"] += len(in.Conns)
	}
	return in
}

// ---- fixed corpus: boundary cases, every cut point of a two-call stream ----
func corpusInputs(h handles) []caseIn {
	var out []caseIn
	one := func(kind, desc string, stream []byte, measured bool) {
		out = append(out, caseIn{Kind: kind, Measured: measured, Tags: map[string]int{"stream_" + kind: 1},
			Conns: []connIn{{Desc: desc, Stream: stream, Chunks: nonzero(len(stream)), SleepUs: make([]int, 1), NoDelay: true}}})
	}
	null := callT{xid: 0x11111111, rpcvers: 2, prog: progNFS, vers: 3, desc: "NFS.NULL"}
	ga := callT{xid: 0x22222222, rpcvers: 2, prog: progNFS, vers: 3, proc: 1, args: fhArg(h.Root), cf: 1, cred: authSys(0, 0, "vh", nil)}
	mnt := callT{xid: 0x33333333, rpcvers: 2, prog: progMount, vers: 3, proc: 1, args: opaque([]byte("/"))}
	two := cat(frame(null.record(), nil, true), frame(ga.record(), []int{7, 7, 30}, true))
	one("boundary", "nothing at all", nil, true)
	one("boundary", "NULL, GETATTR (4 fragments), MNT pipelined", cat(two, frame(mnt.record(), nil, true)), true)
	one("boundary", "empty record", be32(0x80000000), true)
	one("boundary", "fragment header 2^31-1, last bit set", be32(0xffffffff), true)
	one("boundary", "fragment header 2^31-1, last bit clear", be32(0x7fffffff), true)
	one("boundary", "fragment header 1 MiB + 1", be32(0x80000000|(1<<20+1)), true)
	one("boundary", "fragment header exactly 1 MiB, no data", be32(0x80000000|1<<20), true)
	one("boundary", "credential length 400 declared, body missing",
		frame(cat(be32(1), be32(0), be32(2), be32(progNFS), be32(3), be32(0), be32(1), be32(400)), nil, true), true)
	one("boundary", "credential length 401",
		frame(cat(be32(1), be32(0), be32(2), be32(progNFS), be32(3), be32(0), be32(1), be32(401), make([]byte, 404)), nil, true), true)
	one("boundary", "NULL with a 400-byte verifier, then NULL with a 401-byte verifier, then NULL",
		cat(frame(callT{xid: 1, rpcvers: 2, prog: progNFS, vers: 3, verf: make([]byte, 400)}.record(), nil, true),
			frame(callT{xid: 2, rpcvers: 2, prog: progNFS, vers: 3, verf: make([]byte, 401)}.record(), nil, true),
			frame(null.record(), nil, true)), true)
	one("boundary", "300 empty non-final fragments, then NULL", cat(make([]byte, 1200), frame(null.record(), nil, true)), true)
	one("boundary", "the same NULL record three times (same XID)", cat(frame(null.record(), nil, true), frame(null.record(), nil, true), frame(null.record(), nil, true)), true)
	rep := null.record()
	copy(rep[4:], be32(1))
	one("boundary", "a well-formed message with msg_type REPLY, then NULL (must not be answered)", cat(frame(rep, nil, true), frame(null.record(), nil, true)), true)
	one("boundary", "NULL and MNT glued into ONE record (one reply), then GETATTR",
		cat(frame(cat(null.record(), mnt.record()), []int{10}, true), frame(ga.record(), nil, true)), true)
	one("boundary", "NULL with XID ffffffff and rpcvers 0; NULL for program 0",
		cat(frame(callT{xid: 0xffffffff, prog: progNFS, vers: 3}.record(), nil, true), frame(callT{xid: 5, rpcvers: 2}.record(), nil, true)), true)
	one("boundary", "last-fragment bit never set: three fragments and the client's EOF", frame(ga.record(), []int{4, 20}, false), true)
	// every cut point of the two-call stream (three connections per case, run concurrently)
	for k := 0; k < len(two); k += 3 {
		in := caseIn{Kind: "every-cut", Tags: map[string]int{"stream_every-cut": 1}}
		for j := k; j < k+3 && j < len(two); j++ {
			in.Conns = append(in.Conns, connIn{Desc: fmt.Sprintf("NULL + GETATTR(4 fragments) cut at %d of %d", j, len(two)),
				Stream: two[:j], Chunks: nonzero(j), SleepUs: make([]int, 1), NoDelay: true})
		}
		out = append(out, in)
	}
	// records at the 1 MiB limit (content zero: decodes as a call to program 0)
	big := func(desc string, lens []int, last bool) {
		var s []byte
		for i, l := range lens {
			hd := uint32(l)
			if last && i == len(lens)-1 {
				hd |= 0x80000000
			}
			s = append(s, be32(hd)...)
			s = append(s, make([]byte, l)...)
		}
		s = append(s, frame(null.record(), nil, true)...)
		in := caseIn{Kind: "big-record", Measured: true, Tags: map[string]int{"stream_big-record": 1},
			Conns: []connIn{{Desc: desc + ", then NULL", Stream: s, Chunks: []int{len(s)/3 + 1, len(s) - len(s)/3 - 1}, SleepUs: make([]int, 2)}}}
		out = append(out, in)
	}
	// the STALL family: every stall point, three times with different sizes / XIDs
	for k := 0; k < 3; k++ {
		out = append(out, stallCase(NewRand(0xC15, uint64(1000+k)), h, []int{0, 1, 1, 1, 2, 3, 3, 4, 5}))
	}
	big("a record of exactly 1 MiB of zeros in three fragments", []int{400000, 0, 1<<20 - 400000}, true)
	big("fragments of 1 MiB - 8 and 16 bytes: the second header crosses the limit", []int{1<<20 - 8, 16}, true)
	return out
}

func nonzero(n int) []int {
	if n == 0 {
		return nil
	}
	return []int{n}
}
