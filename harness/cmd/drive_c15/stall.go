package main

// stall.go: the STALL family - a client that goes silent for longer than the server's read deadline at a chosen
// point of its stream and then continues.
//
// The read deadline of a record-marking connection is a constant (30 s) of handleConnectionWithRecordMarking, armed
// once per loop iteration as conn.SetReadDeadline(time.Now().Add(30s)).  The drivers are built with the clock
// overlay: inside package absnfs time.Now() reads the virtual clock when one is set, while the net poller compares
// the deadline with the REAL clock.  The child therefore shortens the NEXT deadline of the chosen connections to
// stallWindow without touching /repo:
//     1. the connections are opened under the real clock (the accept loop arms its own 1 s accept deadline from
//        the same time.Now(); a skewed clock would make every Accept time out at once);
//     2. the virtual clock is frozen at  now - (30 s - stallWindow);
//     3. every connection sends a complete first call and reads its reply: the loop then arms the deadline of the
//        next ReadCall = frozen clock + 30 s = (moment of step 2) + stallWindow, an absolute real time T.
//        (The reply's write deadline is the same T: the reply is written milliseconds after step 2.);
//     4. every connection sends the bytes that precede its stall point; once the complete calls among them have been
//        answered (their loop iterations arm the same T) the clock is set back to real time (the skew lasted a few
//        tens of milliseconds; idle reaping reads the same clock consistently and works in minutes);
//     5. at T + stallMargin the client notes whether the server has closed, sends the rest, half-closes and reads
//        until the server closes.
// On the current code every ReadCall error - a timeout included - ends the loop: the connection is closed at T and
// nothing sent after the stall is answered.

import (
	"bytes"
	"encoding/binary"
	"fmt"
	"net"
	"sync"
	"time"

	"github.com/absfs/absnfs"

	. "verifharness/lib"
)

const (
	readDeadline = 30 * time.Second // the constant of handleConnectionWithRecordMarking
	stallWindow  = 500 * time.Millisecond
	stallMargin  = 400 * time.Millisecond
	smuggleXid   = 0xDEADBEEF // never used as the XID of a call that is sent as a call
)

func nullRec(xid uint32) []byte {
	return callT{xid: xid, rpcvers: 2, prog: progNFS, vers: 3}.record()
}

func stallXid(r *Rand) uint32 {
	for {
		x := uint32(r.U64())
		if x != smuggleXid && x != 0 && x != 0x80000028 {
			return x
		}
	}
}

// stallConn builds one stalled connection: first call A (complete), the bytes before the stall point, the rest.
// In the kinds that can smuggle, the rest read FROM ITS FIRST BYTE is a complete record holding a NULL call with
// XID deadbeef, followed by a well-formed call C; under the client's own record boundaries that call does not
// exist (it is argument bytes, or part of a record that is never completed).
func stallConn(r *Rand, kind int, h handles, tags map[string]int) connIn {
	a := frame(nullRec(stallXid(r)), nil, true)
	cx := stallXid(r)
	c := frame(nullRec(cx), nil, true)
	smug := frame(nullRec(smuggleXid), nil, true) // 80000028 + 40 bytes
	var pre, rest []byte
	var desc string
	switch kind {
	case 0:
		// between two records: nothing lost, but the connection has timed out
		b := frame(callT{xid: stallXid(r), rpcvers: 2, prog: progNFS, vers: 3, proc: 1, args: fhArg(h.Root)}.record(), nil, true)
		pre, rest = nil, cat(b, c)
		desc = "stall between two records; then GETATTR and NULL"
		tags["stall_between_records"]++
	case 1:
		// inside the 4-byte mark: k bytes of a mark, then bytes that start with a mark of their own
		k := 1 + r.Intn(3)
		pre = []byte{0x80, 0x00, 0x00}[:k]
		rest = cat(smug, c)
		desc = fmt.Sprintf("stall after %d byte(s) of a record mark; the rest reads as record(NULL xid deadbeef) + NULL xid %08x", k, cx)
		tags["stall_inside_mark"]++
	case 2:
		// right after the mark of a record that is never completed
		pre = be32(0x80000000 | uint32(len(smug)+len(c)+8+r.Intn(200)))
		rest = cat(smug, c)
		desc = fmt.Sprintf("stall right after a record mark; the rest reads as record(NULL xid deadbeef) + NULL xid %08x", cx)
		tags["stall_after_mark"]++
	case 3:
		// in the middle of the body of a well-formed call B whose argument bytes contain a record (the seed's demo)
		fill := make([]byte, 4*r.Intn(6))
		b := callT{xid: stallXid(r), rpcvers: 2, prog: progNFS, vers: 3, proc: uint32(PickInt(r, 0, 7)), args: cat(fill, smug)}
		if b.proc == 7 { // WRITE: handle, offset, count, stable, data
			b.args = cat(fhArg(h.File), be64(0), be32(uint32(len(smug))), be32(0), be32(uint32(len(smug))), smug)
		}
		fb := frame(b.record(), nil, true)
		cut := len(fb) - len(smug)
		pre, rest = fb[:cut], cat(fb[cut:], c)
		desc = fmt.Sprintf("stall inside the body of call xid %08x (proc %d), just before argument bytes that read as record(NULL xid deadbeef); then NULL xid %08x",
			b.xid, b.proc, cx)
		tags["stall_inside_body"]++
	case 4:
		// between two fragments of call B; the second fragment on its own is a complete NULL call
		b := callT{xid: stallXid(r), rpcvers: 2, prog: progNFS, vers: 3, args: cat(make([]byte, 8), nullRec(smuggleXid))}
		rec := b.record()
		fb := frame(rec, []int{len(rec) - 40}, true)
		cut := 4 + len(rec) - 40
		pre, rest = fb[:cut], cat(fb[cut:], c)
		desc = fmt.Sprintf("stall between the two fragments of call xid %08x; the second fragment alone is a NULL call xid deadbeef; then NULL xid %08x", b.xid, cx)
		tags["stall_between_fragments"]++
	default:
		// an arbitrary cut of arbitrary well-formed calls
		recs, d := validRecords(r, h, 1+r.Intn(3), tags)
		s := cat(cat(recs...), c)
		cut := r.Intn(len(s))
		pre, rest = s[:cut], s[cut:]
		desc = fmt.Sprintf("calls: %s, NULL xid %08x; stall at byte %d of %d", d, cx, cut, len(s))
		tags["stall_random_cut"]++
	}
	return connIn{Desc: "NULL answered first; " + desc, Stream: cat(a, pre), Chunks: []int{len(a), len(pre)}, SleepUs: []int{0},
		NoDelay: true, Stall: true, FirstLen: len(a), Rest: rest}
}

func stallCase(r *Rand, h handles, kinds []int) caseIn {
	in := caseIn{Kind: "stall", Tags: map[string]int{"stream_stall": 1}}
	for _, k := range kinds {
		in.Conns = append(in.Conns, stallConn(r, k, h, in.Tags))
	}
	return in
}

// decodableCalls: the number of complete decodable calls at the start of the stream, by the implementation's codecs
func decodableCalls(stream []byte) int {
	rd := absnfs.NewRecordMarkingReader(bytes.NewReader(stream))
	n := 0
	for {
		data, err := rd.ReadRecord()
		if err != nil {
			return n
		}
		if _, err := absnfs.DecodeRPCCall(bytes.NewReader(data)); err != nil {
			return n
		}
		n++
	}
}

// completeRecords counts the complete records at the start of out.
func completeRecords(out []byte) int {
	n := 0
	for {
		for {
			if len(out) < 4 {
				return n
			}
			h := binary.BigEndian.Uint32(out)
			l := int(h & 0x7fffffff)
			if len(out) < 4+l {
				return n
			}
			out = out[4+l:]
			if h&0x80000000 != 0 {
				break
			}
		}
		n++
	}
}

type stallClient struct {
	c    net.Conn
	mu   sync.Mutex
	out  []byte
	rerr error
	done chan struct{}
	tick chan struct{}
}

func (sc *stallClient) snapshot() []byte {
	sc.mu.Lock()
	defer sc.mu.Unlock()
	return append([]byte{}, sc.out...)
}

// runStallConns returns the observations and whether the client-side timing was met: every reply due before the
// stall was RECEIVED at least 50 ms before T (otherwise a deadline may have been armed, or a reply written, too
// late for the schedule to mean what it is meant to; the caller then repeats the case on fresh connections)
func runStallConns(addr string, ins []connIn) ([]connObs, bool) {
	timingOK := true
	var tmu sync.Mutex
	late := func() { tmu.Lock(); timingOK = false; tmu.Unlock() }
	obs := make([]connObs, len(ins))
	cl := make([]*stallClient, len(ins))
	// 1. connect under the real clock
	for i := range ins {
		c, err := net.DialTimeout("tcp", addr, 5*time.Second)
		if err != nil {
			continue
		}
		c.(*net.TCPConn).SetNoDelay(true)
		c.SetReadDeadline(time.Now().Add(20 * time.Second))
		sc := &stallClient{c: c, done: make(chan struct{}), tick: make(chan struct{}, 1)}
		cl[i] = sc
		go func() {
			defer close(sc.done)
			buf := make([]byte, 16384)
			for {
				n, err := sc.c.Read(buf)
				sc.mu.Lock()
				sc.out = append(sc.out, buf[:n]...)
				tooMuch := len(sc.out) > 1<<22
				if err != nil {
					sc.rerr = err
				}
				sc.mu.Unlock()
				select {
				case sc.tick <- struct{}{}:
				default:
				}
				if err != nil || tooMuch {
					return
				}
			}
		}()
	}
	time.Sleep(10 * time.Millisecond) // every connection accepted and blocked in its first ReadCall
	// 2. freeze the package clock so that a deadline armed from now on expires at T
	t1 := time.Now()
	T := t1.Add(stallWindow)
	absnfs.VerifSetClock(t1.Add(stallWindow - readDeadline).UnixNano())
	restored := false
	restore := func() {
		if !restored {
			absnfs.VerifSetClock(0)
			restored = true
		}
	}
	defer restore()
	// 3. first call, wait for its reply
	var wg sync.WaitGroup
	for i := range ins {
		if cl[i] == nil {
			continue
		}
		wg.Add(1)
		go func(i int) {
			defer wg.Done()
			sc := cl[i]
			if _, err := sc.c.Write(ins[i].Stream[:ins[i].FirstLen]); err != nil {
				obs[i].WriteErr = true
				return
			}
			limit := time.After(time.Until(T.Add(-50 * time.Millisecond)))
			for completeRecords(sc.snapshot()) < 1 {
				select {
				case <-sc.tick:
				case <-sc.done:
					late()
					return
				case <-limit:
					late()
					return
				}
			}
		}(i)
	}
	wg.Wait()
	time.Sleep(25 * time.Millisecond) // the loop has armed the next read deadline
	// 4. the bytes before the stall point; back to the real clock
	for i := range ins {
		if cl[i] == nil {
			continue
		}
		if pre := ins[i].Stream[ins[i].FirstLen:]; len(pre) > 0 {
			if _, err := cl[i].c.Write(pre); err != nil {
				obs[i].WriteErr = true
			}
		}
	}
	// a prefix may hold complete calls: they must be answered, and the loop must have armed the deadline of the ReadCall
	// that will stall, while the clock is still frozen (how many: the implementation's codecs run in memory - a
	// matter of timing only, like the patience of the ordinary cases)
	for i := range ins {
		if cl[i] == nil {
			continue
		}
		want := decodableCalls(ins[i].Stream)
		limit := time.After(time.Until(T.Add(-50 * time.Millisecond)))
	wait:
		for completeRecords(cl[i].snapshot()) < want {
			select {
			case <-cl[i].tick:
			case <-cl[i].done:
				late()
				break wait
			case <-limit:
				late()
				break wait
			}
		}
	}
	time.Sleep(25 * time.Millisecond)
	if time.Now().After(T.Add(-20 * time.Millisecond)) {
		late()
	}
	restore()
	// 5. stall past the deadline, then the rest
	time.Sleep(time.Until(T.Add(stallMargin)))
	for i := range ins {
		if cl[i] == nil {
			continue
		}
		wg.Add(1)
		go func(i int) {
			defer wg.Done()
			sc := cl[i]
			select {
			case <-sc.done:
				obs[i].Early = true
			default:
			}
			if _, err := sc.c.Write(ins[i].Rest); err != nil {
				obs[i].WriteErr = true
			}
			sc.c.(*net.TCPConn).CloseWrite()
			select {
			case <-sc.done:
			case <-time.After(8 * time.Second):
				sc.c.Close()
				<-sc.done
				sc.mu.Lock()
				sc.rerr = fmt.Errorf("the server kept the connection open")
				sc.mu.Unlock()
			}
			sc.c.Close()
			obs[i].Out = sc.snapshot()
			obs[i].Closed, obs[i].Reset = closeKind(sc.rerr)
		}(i)
	}
	wg.Wait()
	return obs, timingOK
}
