// drive_c15: cases for the record-marking connection loop (C15) over real loopback TCP.
//
// The binary runs in two roles.  The parent is the ordinary driver (lib.Main): it asks a CHILD process (the same
// binary, started with VERIF_C15_CHILD=1) to run one case at a time.  The child owns the real server and the
// TCP clients.  If the child dies while running a case (an unrecovered panic of the server kills the process),
// the parent records that case with c_alive = false - a violation with a replayable input - and starts a new
// child for the following cases.
package main

import (
	"os"

	"verifharness/lib"
)

func main() {
	if os.Getenv("VERIF_C15_CHILD") == "1" {
		childMain()
		return
	}
	parseParentArgs()
	defer stopChild()
	lib.Main()
	stopChild()
}
