package main

// c20.go: C20 - worker pool.  A case = one schedule sampled from the transition system (lts.go),
// enacted on the real WorkerPool (built by absnfs.VerifNewPoolServer, i.e. NewWorkerPool + Start as
// New does) with gate-controlled tasks, and the log of what was observed, as a Coq term for
// coq/Corr/C20.v.
//
// Enactment.  The driver goroutine is the only writer of the log.  It performs the controllable
// labels of the sampled trace in order: SubmitCall (a goroutine calls Submit / SubmitWait /
// ExecuteWithWorker), Finish (open the task's gate, wait until its body has returned), StopCall,
// RzCall.  Internal labels cannot be forced; where the sampled trace expects an observable internal
// step (a worker takes task t, a Submit times out, a call returns) the driver waits for the matching
// signal for a bounded time and otherwise counts the step as "not enacted" and goes on.  Whatever the
// pool really did is what gets logged - never the expectation.  Tasks signal their start (with the
// number of bodies executing at that moment), block on their gate, and signal that they are about to
// return; submitters report the answer they got.  At the end every started task is released one at a
// time until every submitter has an answer and every call has returned, or nothing has moved for the
// settle time (then the submitters without an answer are reported as blocked).

import (
	"flag"
	"fmt"
	"runtime"
	"sort"
	"strconv"
	"strings"
	"sync"
	"sync/atomic"
	"time"

	. "verifharness/lib"

	"github.com/absfs/absnfs"
)

func init() {
	Props["C20"] = &Prop{
		Imports:    "From Verif Require Import Model.PoolLTS Corr.C20.",
		Gen:        func(r *Rand, idx int, tier string) Case { return prefetched("C20", idx, tier, false) },
		Corpus:     func() []Case { return corpus(false) },
		NonTrivial: nonTrivial,
		ShardSize:  40,
	}
	Props["C20ov"] = &Prop{
		Imports:    "From Verif Require Import Model.PoolLTS Corr.C20.",
		Gen:        func(r *Rand, idx int, tier string) Case { return prefetched("C20ov", idx, tier, true) },
		Corpus:     func() []Case { return corpus(true) },
		NonTrivial: nonTrivial,
		ShardSize:  40,
	}
}

func nonTrivial(c *Case) bool {
	return c.Tags["stop_with_work"] > 0 || c.Tags["resize_with_work"] > 0 || c.Tags["overlap_calls"] > 0
}

// the structural facts of the current code are irrelevant for sampling except the lock: the mirror
// is run with the lock (the walk then contains no step the locked code cannot take; on code without
// the lock the overlapping calls simply proceed and the Coq monitor, which uses the facts, decides).
var sampleCfg = mcfg{stopDrains: true, overflowCloses: true, stopLocks: true}

// ---------------------------------------------------------------- cases in parallel

// lib.Main asks for the cases one by one; enacting a schedule is mostly waiting (50 ms Submit
// timers, settle times), so all cases of the run are computed ahead by a few goroutines.  Every
// case derives its random choices from (seed, index) exactly as lib.Main does, so -only K replays
// case K whatever the degree of parallelism.
var (
	prefetchOnce sync.Once
	prefetchRes  map[int]chan Case
)

func flagInt(name string, def int) int {
	if f := flag.Lookup(name); f != nil {
		if v, err := strconv.ParseInt(f.Value.String(), 10, 64); err == nil {
			return int(v)
		}
	}
	return def
}
func flagU64(name string, def uint64) uint64 {
	if f := flag.Lookup(name); f != nil {
		if v, err := strconv.ParseUint(f.Value.String(), 10, 64); err == nil {
			return v
		}
	}
	return def
}

func prefetched(stream string, idx int, tier string, overlap bool) Case {
	prefetchOnce.Do(func() {
		n, only, seed := flagInt("n", 0), flagInt("only", -1), flagU64("seed", 1)
		ncorpus := len(corpusSpecs(overlap))
		prefetchRes = map[int]chan Case{}
		var todo []int
		for i := 0; i < n; i++ {
			if only >= 0 && i+ncorpus != only {
				continue
			}
			prefetchRes[i] = make(chan Case, 1)
			todo = append(todo, i)
		}
		par := 6
		if runtime.NumCPU() < 4 {
			par = 2
		}
		next := int32(-1)
		for w := 0; w < par; w++ {
			go func() {
				for {
					k := int(atomic.AddInt32(&next, 1))
					if k >= len(todo) {
						return
					}
					i := todo[k]
					prefetchRes[i] <- genCase(NewRand(seed, uint64(i)), i, tier, overlap)
				}
			}()
		}
	})
	ch, ok := prefetchRes[idx]
	if !ok {
		return genCase(NewRand(flagU64("seed", 1), uint64(idx)), idx, tier, overlap)
	}
	return <-ch
}

// ---------------------------------------------------------------- sampling a schedule

type profile struct {
	workers, tasks, stops, resizes int
	finishW                        int  // weight of Finish among the internal labels: low => workers stay busy, queues fill
	overlap                        bool // Stop and Resize calls may overlap
	kind                           string
}

type schedule struct {
	n       int
	overlap bool
	labels []mlabel
	modes  map[int]int // task -> 0 Submit+receive, 1 SubmitWait, 2 ExecuteWithWorker
	vkinds map[int]int // task -> what its body returns (see taskValue); absent = its own id
	kind   string
}

func sample(r *Rand, p profile) schedule {
	s := minit(p.workers)
	sc := schedule{n: p.workers, overlap: p.overlap, modes: map[int]int{}, vkinds: map[int]int{}, kind: p.kind}
	nextTask, stops, resizes := 0, p.stops, p.resizes
	for step := 0; step < 160; step++ {
		type cand struct {
			l mlabel
			w int
		}
		var cs []cand
		for _, l := range internalEnabled(sampleCfg, s) {
			w := 6
			switch l.kind {
			case lFinish:
				w = p.finishW
			case lSubmitTimeout:
				w = 2 // costs 50 ms of real time
			case lExitCtx, lExitClosed:
				w = 4
			}
			cs = append(cs, cand{l, w})
		}
		if nextTask < p.tasks {
			cs = append(cs, cand{mlabel{lSubmitCall, nextTask, -1}, 9})
		}
		callsOK := func(otherFree bool) bool { return p.overlap || otherFree }
		if stops > 0 && s.stop == spIdle && callsOK(s.rz == rpIdle) && nextTask > 0 {
			cs = append(cs, cand{mlabel{lStopCall, 0, -1}, 2})
		}
		if resizes > 0 && s.rz == rpIdle && callsOK(s.stop == spIdle) && nextTask > 0 {
			cs = append(cs, cand{mlabel{lRzCall, PickInt(r, 1, 1, 2, 2, 3, 4, 0), -1}, 3})
		}
		if len(cs) == 0 {
			break
		}
		tot := 0
		for _, c := range cs {
			tot += c.w
		}
		if tot == 0 {
			break
		}
		x := r.Intn(tot)
		var l mlabel
		for _, c := range cs {
			if x < c.w {
				l = c.l
				break
			}
			x -= c.w
		}
		ns := mstep(sampleCfg, s, l)
		if ns == nil {
			panic("sampler: chosen label not enabled: " + l.String())
		}
		switch l.kind {
		case lSubmitCall:
			sc.modes[l.arg] = PickInt(r, 0, 0, 0, 1, 2)
			// half of the tasks return their own id (so that a result can be attributed to its task), the others
			// nil in its three guises and zero values - all legitimate results of an executed task
			sc.vkinds[l.arg] = PickInt(r, vOwn, vOwn, vOwn, vOwn, vOwn, vOwn, vNil, vNil, vNilError, vNilError, vNilPtr, vZero, vEmpty, vUnit)
			nextTask++
		case lStopCall:
			stops--
		case lRzCall:
			resizes--
		}
		s = ns
		sc.labels = append(sc.labels, l)
	}
	return sc
}

func genCase(r *Rand, idx int, tier string, overlap bool) Case {
	p := profile{
		workers: PickInt(r, 1, 1, 2, 2, 3, 4),
		tasks:   1 + r.Intn(8),
		stops:   PickInt(r, 0, 1, 1, 1),
		resizes: PickInt(r, 0, 1, 1, 2, 2),
		finishW: PickInt(r, 0, 1, 1, 3, 6),
		overlap: overlap,
	}
	p.kind = fmt.Sprintf("walk:finishW=%d", p.finishW)
	if overlap {
		if p.stops == 0 {
			p.stops = 1
		}
		if p.resizes == 0 {
			p.resizes = 1
		}
		p.kind = "overlap-" + p.kind
	}
	sc := sample(r, p)
	return enact(sc, idx, tier)
}

// ---------------------------------------------------------------- fixed schedules (run first)

type corpusSpec struct {
	name   string
	n      int
	labels []mlabel
	modes  map[int]int
	vkinds map[int]int
}

func L(kind int, arg ...int) mlabel {
	l := mlabel{kind: kind, task: -1}
	if len(arg) > 0 {
		l.arg = arg[0]
	}
	if len(arg) > 1 {
		l.task = arg[1]
	}
	return l
}
func sub3(t int) []mlabel { return []mlabel{L(lSubmitCall, t), L(lSubmitBegin, t), L(lSubmitEnq, t)} }
func cat(ls ...[]mlabel) []mlabel {
	var out []mlabel
	for _, l := range ls {
		out = append(out, l...)
	}
	return out
}

func corpusSpecs(overlap bool) []corpusSpec {
	if !overlap {
		return []corpusSpec{
			// the schedule on which the code before commit 9607c86 left a submitter blocked for ever:
			// one worker busy, one task queued behind it, Stop
			{name: "stop-with-queued-task", n: 1, labels: cat(sub3(0), []mlabel{L(lTake, 0, 0)}, sub3(1),
				[]mlabel{L(lStopCall), L(lStopCAS), L(lStopClose), L(lFinish, 0, 0), L(lExitCtx, 0), L(lStopWait), L(lStopDrain), L(lStopDrain)})},
			// shrink 2 -> 1 with both workers busy and the queue full: two of the four queued tasks do not fit
			{name: "shrink-overflow", n: 2, labels: cat(sub3(0), []mlabel{L(lTake, 0, 0)}, sub3(1), []mlabel{L(lTake, 1, 1)}, sub3(2), sub3(3), sub3(4), sub3(5),
				[]mlabel{L(lRzCall, 1), L(lRzBegin), L(lRzStop), L(lRzClose), L(lFinish, 0, 0), L(lFinish, 1, 1), L(lExitCtx, 0), L(lExitCtx, 1), L(lRzWait),
					L(lRzDrain), L(lRzDrain), L(lRzDrain), L(lRzDrain), L(lRzDrain), L(lRzSwap), L(lRzReenq), L(lRzReenq), L(lRzReenq), L(lRzReenq), L(lRzReenq)})},
			// every entry point with tasks whose result is nil or a zero value, on an idle pool: each is accepted,
			// executed once by a worker, and its (nil) result is the answer - it must not be run again by the caller
			{name: "nil-results-idle-pool", n: 2, labels: cat(sub3(0), []mlabel{L(lTake, 0, 0), L(lFinish, 0, 0)}, sub3(1), []mlabel{L(lTake, 0, 1), L(lFinish, 0, 1)},
				sub3(2), []mlabel{L(lTake, 0, 2), L(lFinish, 0, 2)}, sub3(3), []mlabel{L(lTake, 0, 3), L(lFinish, 0, 3)}, sub3(4), []mlabel{L(lTake, 0, 4), L(lFinish, 0, 4)},
				sub3(5), []mlabel{L(lTake, 0, 5), L(lFinish, 0, 5)}, sub3(6), []mlabel{L(lTake, 0, 6), L(lFinish, 0, 6)}),
				modes:  map[int]int{0: 2, 1: 2, 2: 2, 3: 1, 4: 0, 5: 2, 6: 2},
				vkinds: map[int]int{0: vNil, 1: vNilError, 2: vNilPtr, 3: vNil, 4: vNilError, 5: vZero, 6: vOwn}},
			// ExecuteWithWorker refused by a full queue and by a stopped pool: exactly one direct execution, nil results included
			{name: "executewithworker-refused", n: 1, labels: cat(sub3(0), []mlabel{L(lTake, 0, 0)}, sub3(1), sub3(2),
				[]mlabel{L(lSubmitCall, 3), L(lSubmitBegin, 3), L(lSubmitTimeout, 3), L(lStopCall), L(lStopCAS), L(lStopClose), L(lSubmitCall, 4), L(lSubmitBegin, 4), L(lFinish, 0, 0)}),
				modes:  map[int]int{1: 2, 2: 2, 3: 2, 4: 2},
				vkinds: map[int]int{1: vNil, 2: vOwn, 3: vNil, 4: vNilError}},
			// queue full: the next Submit waits its 50 ms and is rejected
			{name: "full-queue-timeout", n: 1, labels: cat(sub3(0), []mlabel{L(lTake, 0, 0)}, sub3(1), sub3(2),
				[]mlabel{L(lSubmitCall, 3), L(lSubmitBegin, 3), L(lSubmitTimeout, 3), L(lFinish, 0, 0)})},
			// grow 1 -> 3 with a queued task, then Stop of the restarted pool
			{name: "grow-then-stop", n: 1, labels: cat(sub3(0), []mlabel{L(lTake, 0, 0)}, sub3(1), sub3(2),
				[]mlabel{L(lRzCall, 3), L(lRzBegin), L(lRzStop), L(lRzClose), L(lFinish, 0, 0), L(lExitCtx, 0), L(lRzWait), L(lRzDrain), L(lRzDrain), L(lRzDrain),
					L(lRzSwap), L(lRzReenq), L(lRzReenq), L(lRzReenq), L(lTake, 1, 1), L(lTake, 2, 2), L(lStopCall), L(lStopCAS), L(lStopClose), L(lFinish, 1, 1), L(lFinish, 2, 2)})},
		}
	}
	return []corpusSpec{
		// Stop and Resize overlapping while a Submit is pending on a full queue.  Without resizeMu in Stop
		// (code before the fix) Resize saw running == 0 and closed the old queue without closeMu:
		// the pending Submit panicked with "send on closed channel".
		{name: "pending-submit-stop-resize", n: 1, labels: cat(sub3(0), []mlabel{L(lTake, 0, 0)}, sub3(1), sub3(2),
			[]mlabel{L(lSubmitCall, 3), L(lSubmitBegin, 3), L(lStopCall), L(lStopCAS), L(lRzCall, 2), L(lSubmitTimeout, 3), L(lStopClose), L(lFinish, 0, 0)})},
		// Stop waiting for a busy worker, Resize in between.  Without the lock Resize replaced queue and
		// context under the worker, which then never exited: Stop (AbsfsNFS.Close) hung for ever.
		{name: "stop-waiting-resize", n: 1, labels: cat(sub3(0), []mlabel{L(lTake, 0, 0)}, sub3(1),
			[]mlabel{L(lStopCall), L(lStopCAS), L(lStopClose), L(lRzCall, 2), L(lFinish, 0, 0)})},
		// Resize in progress (waiting for a busy worker), Stop called meanwhile
		{name: "resize-waiting-stop", n: 2, labels: cat(sub3(0), []mlabel{L(lTake, 0, 0)}, sub3(1), []mlabel{L(lTake, 1, 1)}, sub3(2), sub3(3),
			[]mlabel{L(lRzCall, 1), L(lRzBegin), L(lRzStop), L(lStopCall), L(lRzClose), L(lFinish, 0, 0), L(lFinish, 1, 1)})},
	}
}

func corpus(overlap bool) []Case {
	var out []Case
	for i, cs := range corpusSpecs(overlap) {
		sc := schedule{n: cs.n, overlap: overlap, labels: cs.labels, modes: cs.modes, vkinds: cs.vkinds, kind: cs.name}
		if sc.modes == nil {
			sc.modes = map[int]int{}
		}
		if sc.vkinds == nil {
			sc.vkinds = map[int]int{}
		}
		c := enact(sc, i, "quick")
		c.Kind = cs.name
		out = append(out, c)
	}
	return out
}

// ---------------------------------------------------------------- enacting a schedule on the real pool

const (
	evStart = iota
	evLeaving
	evRet
	evRes
	evStopRet
	evRzRet
)
const (
	resGot = iota // a value arrived (Submit+receive, SubmitWait)
	resNotExec
	resRejected
	resFalse
	resEww // ExecuteWithWorker returned: the value and the number of times the body ran in the caller
	resPanic
)

// what a task body returns
const (
	vOwn      = iota // int 1000+id: attributable to its task
	vNil             // untyped nil
	vNilError        // a nil error (the same nil interface value once it travels as interface{})
	vNilPtr          // (*int)(nil): a non-nil interface holding a nil pointer
	vZero            // int 0
	vEmpty           // ""
	vUnit            // struct{}{}
)

var vkindNames = []string{"own", "nil", "nilerror", "nilptr", "zero", "empty", "unit"}

func taskValue(t, vk int) interface{} {
	switch vk {
	case vNil:
		return nil
	case vNilError:
		var e error
		return e
	case vNilPtr:
		return (*int)(nil)
	case vZero:
		return 0
	case vEmpty:
		return ""
	case vUnit:
		return struct{}{}
	}
	return 1000 + t
}

// expectedVal / classify render a task's own value resp. a value that came back as a Coq term of type Corr.C20.val
func expectedVal(t, vk int) string {
	return classify(taskValue(t, vk))
}
func classify(v interface{}) string {
	switch x := v.(type) {
	case nil:
		return "VNil"
	case *int:
		if x == nil {
			return "VNilPtr"
		}
	case int:
		if x == 0 {
			return "VZero"
		}
		if x >= 1000 {
			return fmt.Sprintf("(VOwn %d)", x-1000)
		}
	case string:
		if x == "" {
			return "VEmpty"
		}
	case struct{}:
		return "VUnit"
	}
	return "VOther"
}

type rawEv struct {
	kind int
	t    int
	res  int    // evRes: answer kind
	val  int    // evStart: bodies executing at the start; evRes/resEww: executions of the body in the caller
	cv   string // evRes: the value that came back, as a Coq term
	acc  bool   // evRet
}

type run struct {
	srv     *absnfs.AbsfsNFS
	pool    *absnfs.WorkerPool
	evc     chan rawEv
	gates   map[int]chan struct{}
	cur     int32
	subGoid sync.Map // task -> goroutine id of its submitter (ExecuteWithWorker mode)
	vkinds  map[int]int
	poolN   []int32 // per task: executions of its body on a pool goroutine
	directN []int32 // per task: executions of its body on the goroutine that called ExecuteWithWorker

	// the driver's view = what has been logged so far
	log      []string // Coq terms of type Corr.C20.ev
	txt      []string
	started  map[int]bool
	finished map[int]bool
	resolved map[int]bool
	retSeen  map[int]bool
	modeOf   map[int]int
	called   []int
	stopOut  int // calls not yet returned
	rzOut    int
	tags     map[string]int
	settle   time.Duration
}

func goid() int64 {
	var buf [64]byte
	n := runtime.Stack(buf[:], false)
	f := strings.Fields(string(buf[:n]))
	if len(f) >= 2 {
		if v, err := strconv.ParseInt(f[1], 10, 64); err == nil {
			return v
		}
	}
	return -1
}

func (r *run) body(t int) func() interface{} {
	gate := r.gates[t]
	return func() interface{} {
		if g, ok := r.subGoid.Load(t); ok && g.(int64) == goid() {
			// ExecuteWithWorker fell back to running the task in the caller: not a pool execution
			atomic.AddInt32(&r.directN[t], 1)
			return taskValue(t, r.vkinds[t])
		}
		atomic.AddInt32(&r.poolN[t], 1)
		k := atomic.AddInt32(&r.cur, 1)
		r.evc <- rawEv{kind: evStart, t: t, val: int(k)}
		<-gate
		atomic.AddInt32(&r.cur, -1)
		r.evc <- rawEv{kind: evLeaving, t: t}
		return taskValue(t, r.vkinds[t])
	}
}

// answer: what `v, ok := <-ch` / SubmitWait gave; nil is a value like any other
func answer(t int, v interface{}, ok bool, notOK int) rawEv {
	if !ok {
		return rawEv{kind: evRes, t: t, res: notOK}
	}
	return rawEv{kind: evRes, t: t, res: resGot, cv: classify(v)}
}

func (r *run) submit(t, mode int) {
	body := r.body(t)
	go func() {
		defer func() {
			if p := recover(); p != nil {
				r.evc <- rawEv{kind: evRes, t: t, res: resPanic}
			}
		}()
		switch mode {
		case 0: // Submit, then receive as SubmitWait does
			ch := r.pool.Submit(body)
			r.evc <- rawEv{kind: evRet, t: t, acc: ch != nil}
			if ch == nil {
				r.evc <- rawEv{kind: evRes, t: t, res: resRejected}
				return
			}
			v, ok := <-ch
			r.evc <- answer(t, v, ok, resNotExec)
		case 1:
			v, ok := r.pool.SubmitWait(body)
			r.evc <- answer(t, v, ok, resFalse)
		default:
			r.subGoid.Store(t, goid())
			v := r.srv.ExecuteWithWorker(body)
			r.evc <- rawEv{kind: evRes, t: t, res: resEww, cv: classify(v), val: int(atomic.LoadInt32(&r.directN[t]))}
		}
	}()
}

var resNames = []string{"RGot", "RNotExec", "RRejected", "RFalse", "REww", "RPanic"}

func (r *run) add(coq, txt string) {
	r.log = append(r.log, coq)
	r.txt = append(r.txt, txt)
}

// note logs one thing that happened inside the pool
func (r *run) note(e rawEv) {
	switch e.kind {
	case evStart:
		r.started[e.t] = true
		r.add(fmt.Sprintf("EStart %d %d", e.t, e.val), fmt.Sprintf("start(%d|%d running)", e.t, e.val))
		if e.val > r.tags["peak_sum"] { // per case: the largest number of bodies executing at once (summed over cases in the stats)
			r.tags["peak_sum"] = e.val
		}
		r.tags["executions"]++
	case evLeaving:
		r.finished[e.t] = true
		r.add(fmt.Sprintf("EFinish %d", e.t), fmt.Sprintf("finish(%d)", e.t))
	case evRet:
		r.retSeen[e.t] = true
		r.add(fmt.Sprintf("ERet %d %s", e.t, CBool(e.acc)), fmt.Sprintf("submit(%d)=%v", e.t, map[bool]string{true: "accepted", false: "nil"}[e.acc]))
	case evRes:
		r.resolved[e.t] = true
		show := strings.Trim(e.cv, "()")
		switch e.res {
		case resGot:
			r.add(fmt.Sprintf("ERes %d (RGot %s)", e.t, e.cv), fmt.Sprintf("result(%d)=%s", e.t, show))
			r.tags["res_got"]++
		case resEww:
			r.add(fmt.Sprintf("ERes %d (REww %s %d)", e.t, e.cv, e.val), fmt.Sprintf("executewithworker(%d)=%s|%d direct", e.t, show, e.val))
			if e.val == 0 {
				r.tags["res_got"]++
			} else {
				r.tags["res_direct"]++
			}
		default:
			r.add(fmt.Sprintf("ERes %d %s", e.t, resNames[e.res]), fmt.Sprintf("result(%d)=%s", e.t, resNames[e.res][1:]))
			r.tags["res_"+strings.ToLower(resNames[e.res][1:])]++
		}
		if (e.res == resGot || e.res == resEww) && e.cv == "VNil" {
			r.tags["res_value_nil"]++
		}
	case evStopRet:
		r.stopOut--
		r.add("EStopRet", "Stop-returned")
	case evRzRet:
		r.rzOut--
		r.add("ERzRet", "Resize-returned")
	}
}

// wait logs incoming events until done() holds (checked after each event) or d has passed without it.
func (r *run) wait(d time.Duration, done func() bool) bool {
	if done != nil && done() {
		return true
	}
	deadline := time.NewTimer(d)
	defer deadline.Stop()
	for {
		select {
		case e := <-r.evc:
			r.note(e)
			if done != nil && done() {
				return true
			}
		case <-deadline.C:
			return done == nil
		}
	}
}

// quiet logs incoming events until none has arrived for d
func (r *run) quiet(d time.Duration) {
	for {
		select {
		case e := <-r.evc:
			r.note(e)
		case <-time.After(d):
			return
		}
	}
}

// load = (tasks executing, tasks queued) as far as the driver can tell.  Stats() takes resizeMu, which a
// Stop or Resize in progress holds, so with a call outstanding the driver's own bookkeeping is used
// (queued = called, neither started nor answered).
func (r *run) load() (active, queued int) {
	if r.stopOut == 0 && r.rzOut == 0 {
		_, a, q := r.pool.Stats()
		return a, q
	}
	for _, t := range r.called {
		switch {
		case r.started[t] && !r.finished[t]:
			active++
		case !r.started[t] && !r.resolved[t]:
			queued++
		}
	}
	return
}

// dark = SubmitWait / ExecuteWithWorker calls of which nothing has been seen yet (acceptance is not observable)
func (r *run) dark() int {
	n := 0
	for _, t := range r.called {
		if r.modeOf[t] != 0 && !r.resolved[t] && !r.started[t] {
			n++
		}
	}
	return n
}

// calm: a Stop or Resize interleaves with every Submit call still in flight, and each of those multiplies the
// states the monitor must track.  One in-flight call (e.g. a Submit pending on a full queue and holding
// closeMu.RLock - the interesting case) is kept; for more the driver waits: Submit's 50 ms timer settles them.
func (r *run) calm() {
	if !r.wait(70*time.Millisecond, func() bool { return r.unsettled() <= 1 }) {
		r.tags["calm_timeout"]++
	}
}

// unsettled = calls of which nothing has been seen yet (no return value, no start, no answer)
func (r *run) unsettled() int {
	n := 0
	for _, t := range r.called {
		if !r.resolved[t] && !r.started[t] && !r.retSeen[t] {
			n++
		}
	}
	return n
}

func (r *run) finish(t int) bool {
	if !r.started[t] || r.finished[t] {
		return false
	}
	close(r.gates[t])
	return r.wait(5*time.Second, func() bool { return r.finished[t] })
}

func enact(sc schedule, idx int, tier string) Case {
	r := &run{evc: make(chan rawEv, 4096), gates: map[int]chan struct{}{}, started: map[int]bool{}, finished: map[int]bool{},
		resolved: map[int]bool{}, retSeen: map[int]bool{}, modeOf: map[int]int{}, tags: map[string]int{}, settle: 1500 * time.Millisecond}
	if tier == "thorough" {
		r.settle = 2500 * time.Millisecond
	}
	r.srv = absnfs.VerifNewPoolServer(sc.n)
	r.pool = r.srv.VerifWorkerPool()
	maxTask := -1
	for _, l := range sc.labels {
		if l.kind == lSubmitCall {
			r.gates[l.arg] = make(chan struct{})
			if l.arg > maxTask {
				maxTask = l.arg
			}
		}
	}
	r.vkinds = sc.vkinds
	r.poolN = make([]int32, maxTask+1)
	r.directN = make([]int32, maxTask+1)
	step := 300 * time.Microsecond   // let goroutines move after an action
	expect := 60 * time.Millisecond  // for an internal step the sampled trace expects
	timeout := 150 * time.Millisecond // a 50 ms Submit timer, with slack
	size := sc.n
	notEnacted := func(what string) { r.tags["not_enacted"]++; r.tags["not_enacted_"+what]++ }
	for _, l := range sc.labels {
		switch l.kind {
		case lSubmitCall:
			// keep the number of Submit calls whose fate is not yet visible small: every such call multiplies
			// the set of model states the Coq monitor has to track
			r.wait(70*time.Millisecond, func() bool { return r.unsettled() < 2 })
			// SubmitWait and ExecuteWithWorker do not show whether the task was accepted: until such a call is
			// answered or its task starts it is "dark", and the monitor must carry every possibility (called /
			// pending / queued, in every queue order).  At most one dark call at a time; further concurrent
			// calls are made with Submit, which reports acceptance.
			mode := sc.modes[l.arg]
			if mode != 0 && r.dark() >= 1 {
				mode = 0
				r.tags["mode_downgraded_to_submit"]++
			}
			r.modeOf[l.arg] = mode
			r.called = append(r.called, l.arg)
			r.add(fmt.Sprintf("ECall %d", l.arg), fmt.Sprintf("call(%d,%s,returns %s)", l.arg, []string{"Submit", "SubmitWait", "ExecuteWithWorker"}[mode], vkindNames[sc.vkinds[l.arg]]))
			r.tags["value_"+vkindNames[sc.vkinds[l.arg]]]++
			r.tags["submits"]++
			r.tags[[]string{"mode_submit", "mode_submitwait", "mode_executewithworker"}[mode]]++
			r.submit(l.arg, mode)
			r.quiet(step)
		case lSubmitTimeout:
			t := l.arg
			if !r.wait(timeout, func() bool { return r.resolved[t] }) {
				notEnacted("timeout")
			}
		case lTake:
			t := l.task
			if t >= 0 && !r.wait(expect, func() bool { return r.started[t] }) {
				notEnacted("take")
			}
		case lFinish:
			t := l.task
			r.wait(expect, func() bool { return r.started[t] })
			if !r.finish(t) {
				notEnacted("finish")
			}
			r.quiet(step)
		case lStopCall:
			if !r.wait(expect, func() bool { return r.stopOut == 0 && (sc.overlap || r.rzOut == 0) }) {
				notEnacted("call") // the model has one Stop call at a time (and this stream does not overlap calls)
				continue
			}
			r.calm()
			active, queued := r.load()
			if active+queued > 0 {
				r.tags["stop_with_work"]++
			}
			if queued > 0 {
				r.tags["stop_with_queued"]++
			}
			if queued == 2*size {
				r.tags["stop_with_full_queue"]++
			}
			if r.rzOut > 0 {
				r.tags["overlap_calls"]++
			}
			r.tags["stops"]++
			r.stopOut++
			r.add("EStopCall", "Stop()")
			go func() { r.pool.Stop(); r.evc <- rawEv{kind: evStopRet} }()
			r.quiet(step)
		case lRzCall:
			if !r.wait(expect, func() bool { return r.rzOut == 0 && (sc.overlap || r.stopOut == 0) }) {
				notEnacted("call")
				continue
			}
			r.calm()
			active, queued := r.load()
			if active+queued > 0 {
				r.tags["resize_with_work"]++
			}
			if queued > 0 {
				r.tags["resize_with_queued"]++
			}
			if queued == 2*size {
				r.tags["resize_with_full_queue"]++
			}
			if r.stopOut > 0 {
				r.tags["overlap_calls"]++
			}
			n := l.arg
			eff := n
			if eff < 1 {
				eff = 1
			}
			switch {
			case eff > size:
				r.tags["resize_grow"]++
			case eff < size:
				r.tags["resize_shrink"]++
			default:
				r.tags["resize_same"]++
			}
			size = eff
			r.rzOut++
			r.add(fmt.Sprintf("ERzCall %d", n), fmt.Sprintf("Resize(%d)", n))
			go func() { r.pool.Resize(n); r.evc <- rawEv{kind: evRzRet} }()
			r.quiet(step)
		case lStopWait, lStopDrain:
			// the sampled trace lets Stop get on: give the real one the chance to return
			if r.stopOut > 0 {
				r.wait(2*time.Millisecond, func() bool { return r.stopOut == 0 })
			}
		case lRzReenq, lRzSwap:
			if r.rzOut > 0 {
				r.wait(2*time.Millisecond, func() bool { return r.rzOut == 0 })
			}
		}
	}
	// end phase: release every started task, one at a time, until everything is resolved or nothing moves
	allDone := func() bool {
		if r.stopOut > 0 || r.rzOut > 0 {
			return false
		}
		for _, t := range r.called {
			if !r.resolved[t] {
				return false
			}
		}
		for t := range r.started {
			if !r.finished[t] {
				return false
			}
		}
		return true
	}
	for {
		progressed := false
		var open []int
		for t := range r.started {
			if !r.finished[t] {
				open = append(open, t)
			}
		}
		sort.Ints(open)
		for _, t := range open {
			if r.finish(t) {
				progressed = true
			}
		}
		if allDone() {
			r.quiet(2 * time.Millisecond)
			if allDone() {
				break
			}
			continue
		}
		if progressed {
			continue
		}
		// wait for the next thing to happen; if nothing does for the settle time, that is quiescence
		n0 := len(r.log)
		r.wait(r.settle, func() bool { return len(r.log) > n0 })
		if len(r.log) == n0 {
			break
		}
	}
	var blocked []string
	for _, t := range r.called {
		if !r.resolved[t] {
			blocked = append(blocked, strconv.Itoa(t))
		}
	}
	r.add("EQuiesce "+CList(blocked), "quiescent(blocked="+strings.Join(blocked, ",")+")")
	// executions of every task body counted on the real code, read at quiescence (before the clean-up below)
	var vals, counts, ctxt []string
	for _, t := range r.called {
		pn, dn := atomic.LoadInt32(&r.poolN[t]), atomic.LoadInt32(&r.directN[t])
		vals = append(vals, CPair(strconv.Itoa(t), expectedVal(t, sc.vkinds[t])))
		counts = append(counts, CPair(strconv.Itoa(t), CPair(strconv.Itoa(int(pn)), strconv.Itoa(int(dn)))))
		ctxt = append(ctxt, fmt.Sprintf("%d:%d+%d", t, pn, dn))
		if pn+dn > 1 {
			r.tags["executed_more_than_once"]++
		}
		r.tags["direct_executions"] += int(dn)
	}
	r.txt = append(r.txt, "executions(task:pool+direct)="+strings.Join(ctxt, ","))
	r.tags["blocked"] += len(blocked)
	if r.stopOut > 0 {
		r.tags["stop_not_returned"]++
	}
	if r.rzOut > 0 {
		r.tags["resize_not_returned"]++
	}
	r.tags["events"] = len(r.log)
	r.tags["sampled_labels"] = len(sc.labels)
	for _, l := range sc.labels {
		switch l.kind {
		case lExitCtx:
			r.tags["sampled_exit_ctx"]++
		case lExitClosed:
			r.tags["sampled_exit_closed"]++
		case lSubmitTimeout:
			r.tags["sampled_submit_timeout"]++
		case lStopDrain:
			r.tags["sampled_stop_drain"]++
		}
	}
	// leave no goroutines behind: open every gate, stop the pool
	for t, g := range r.gates {
		if !r.started[t] || !r.finished[t] {
			func() {
				defer func() { recover() }()
				close(g)
			}()
		}
	}
	go r.pool.Stop()
	go func() { // swallow late signals for a while, then let the case be collected (evc is buffered)
		idle := time.NewTimer(3 * time.Second)
		defer idle.Stop()
		for {
			select {
			case <-r.evc:
			case <-idle.C:
				return
			}
		}
	}()
	var sl []string
	for _, l := range sc.labels {
		sl = append(sl, l.String())
	}
	coq := fmt.Sprintf("({| c_n := %d; c_vals := %s; c_evs := %s; c_counts := %s |})%%nat", sc.n, CList(vals), CList(r.log), CList(counts))
	return Case{Index: idx, Kind: sc.kind, Coq: coq, Tags: r.tags,
		Text: fmt.Sprintf("workers=%d observed: %s || sampled: %s", sc.n, strings.Join(r.txt, " "), strings.Join(sl, ","))}
}
