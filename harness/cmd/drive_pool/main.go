// drive_pool: cases for the worker pool (C20): schedules sampled from a Go mirror of the
// transition system coq/Model/PoolLTS.v, enacted on the real WorkerPool with gate-controlled tasks.
package main

import "verifharness/lib"

func main() { lib.Main() }
