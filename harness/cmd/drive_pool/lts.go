package main

// lts.go: Go mirror of coq/Model/PoolLTS.v, used ONLY to sample schedules (random walks over the
// enabled labels).  Nothing is decided here: whether the real pool's behaviour is accepted by the
// transition system, and whether it satisfies C20, is evaluated in Coq (coq/Corr/C20.v) on the
// observed event log.  A divergence between this mirror and the Coq model can only skew the
// distribution of the schedules, which is measured in the tags.

import "fmt"

type mcfg struct{ stopDrains, overflowCloses, stopLocks bool }

type mgen struct {
	items           []int
	closed, cancel  bool
	cap             int
}

const (
	wIdle = iota
	wExec
	wExit
)

type mw struct{ kind, x int } // x = generation (idle) or task (exec)

const (
	sCalled = iota
	sPending
	sWait
	sGot
	sNotExec
	sRejected
	sPanic
)

type msub struct{ t, kind, x int } // x = generation (pending) or value (got; -1 = nil)

const (
	spIdle = iota
	spCalled
	spClose
	spWait
	spDrain
)
const (
	rpIdle = iota
	rpCalled
	rpStop
	rpClose
	rpWait
	rpDrain
	rpSwap
	rpReenq
	rpDrop
)

type mstate struct {
	running          bool
	maxw, cur        int
	gens             []mgen
	workers          []mw
	subs             []msub
	stop, stopG      int
	rz, rzNew, rzOld int
	rzWas            bool
	rzPend           []int
	resizing         bool
	executed         []int
	panicked         bool
}

const (
	lSubmitCall = iota
	lSubmitBegin
	lSubmitEnq
	lSubmitTimeout
	lTake
	lExitCtx
	lExitClosed
	lFinish
	lStopCall
	lStopCAS
	lStopClose
	lStopWait
	lStopDrain
	lRzCall
	lRzBegin
	lRzStop
	lRzClose
	lRzWait
	lRzDrain
	lRzSwap
	lRzReenq
)

var labelNames = []string{"SubmitCall", "SubmitBegin", "SubmitEnq", "SubmitTimeout", "Take", "ExitCtx", "ExitClosed", "Finish",
	"StopCall", "StopCAS", "StopClose", "StopWait", "StopDrain", "RzCall", "RzBegin", "RzStop", "RzClose", "RzWait", "RzDrain", "RzSwap", "RzReenq"}

type mlabel struct {
	kind, arg int
	task      int // for Take/Finish: the task concerned (filled by the sampler), else -1
}

func (l mlabel) String() string {
	switch l.kind {
	case lSubmitCall, lSubmitBegin, lSubmitEnq, lSubmitTimeout, lTake, lExitCtx, lExitClosed, lFinish, lRzCall:
		return fmt.Sprintf("%s %d", labelNames[l.kind], l.arg)
	}
	return labelNames[l.kind]
}

func minit(n int) *mstate {
	s := &mstate{running: true, maxw: n, gens: []mgen{{cap: 2 * n}}}
	for i := 0; i < n; i++ {
		s.workers = append(s.workers, mw{wIdle, 0})
	}
	return s
}

func (s *mstate) clone() *mstate {
	c := *s
	c.gens = make([]mgen, len(s.gens))
	for i, g := range s.gens {
		c.gens[i] = g
		c.gens[i].items = append([]int(nil), g.items...)
	}
	c.workers = append([]mw(nil), s.workers...)
	c.subs = append([]msub(nil), s.subs...)
	c.rzPend = append([]int(nil), s.rzPend...)
	c.executed = append([]int(nil), s.executed...)
	return &c
}

func (s *mstate) sub(t int) *msub {
	for i := range s.subs {
		if s.subs[i].t == t {
			return &s.subs[i]
		}
	}
	return nil
}
func (s *mstate) tell(t, kind, x int) {
	if e := s.sub(t); e != nil && e.kind == sWait {
		e.kind, e.x = kind, x
	}
}
func (s *mstate) noPending() bool {
	for _, e := range s.subs {
		if e.kind == sPending {
			return false
		}
	}
	return true
}
func (s *mstate) allExited() bool {
	for _, w := range s.workers {
		if w.kind != wExit {
			return false
		}
	}
	return true
}
func (s *mstate) stopFree() bool { return s.stop == spIdle || s.stop == spCalled }
func (s *mstate) rzFree() bool   { return s.rz == rpIdle || s.rz == rpCalled }
func (s *mstate) dropped(c mcfg, t int) {
	if c.overflowCloses {
		s.tell(t, sNotExec, 0)
	} else {
		s.tell(t, sGot, -1)
	}
}

// mstep mirrors PoolLTS.step; it returns nil when the label is not enabled.
func mstep(c mcfg, s0 *mstate, l mlabel) *mstate {
	if s0.panicked {
		return nil
	}
	s := s0.clone()
	gen := func(g int) *mgen {
		if g < 0 || g >= len(s.gens) {
			return nil
		}
		return &s.gens[g]
	}
	worker := func(kind int) *mw {
		if l.arg < 0 || l.arg >= len(s.workers) || s.workers[l.arg].kind != kind {
			return nil
		}
		return &s.workers[l.arg]
	}
	switch l.kind {
	case lSubmitCall:
		if s.sub(l.arg) != nil {
			return nil
		}
		s.subs = append([]msub{{l.arg, sCalled, 0}}, s.subs...)
	case lSubmitBegin:
		e := s.sub(l.arg)
		if e == nil || e.kind != sCalled {
			return nil
		}
		if s.running {
			e.kind, e.x = sPending, s.cur
		} else {
			e.kind = sRejected
		}
	case lSubmitEnq:
		e := s.sub(l.arg)
		if e == nil || e.kind != sPending {
			return nil
		}
		G := gen(e.x)
		if G == nil {
			return nil
		}
		if G.closed {
			e.kind = sPanic
			s.panicked = true
		} else if len(G.items) < G.cap {
			G.items = append(G.items, l.arg)
			e.kind = sWait
		} else {
			return nil
		}
	case lSubmitTimeout:
		e := s.sub(l.arg)
		if e == nil || e.kind != sPending {
			return nil
		}
		G := gen(e.x)
		if G == nil || !(G.closed || G.cap <= len(G.items)) {
			return nil
		}
		e.kind = sRejected
	case lTake:
		w := worker(wIdle)
		if w == nil {
			return nil
		}
		G := gen(w.x)
		if G == nil || len(G.items) == 0 {
			return nil
		}
		t := G.items[0]
		G.items = G.items[1:]
		*w = mw{wExec, t}
	case lExitCtx:
		w := worker(wIdle)
		if w == nil {
			return nil
		}
		if G := gen(w.x); G == nil || !G.cancel {
			return nil
		}
		*w = mw{wExit, 0}
	case lExitClosed:
		w := worker(wIdle)
		if w == nil {
			return nil
		}
		if G := gen(w.x); G == nil || len(G.items) != 0 || !G.closed {
			return nil
		}
		*w = mw{wExit, 0}
	case lFinish:
		w := worker(wExec)
		if w == nil {
			return nil
		}
		t := w.x
		s.tell(t, sGot, t)
		s.executed = append([]int{t}, s.executed...)
		*w = mw{wIdle, s.cur}
	case lStopCall:
		if s.stop != spIdle {
			return nil
		}
		s.stop = spCalled
	case lStopCAS:
		if s.stop != spCalled || (c.stopLocks && !s.rzFree()) {
			return nil
		}
		if s.running {
			gen(s.cur).cancel = true
			s.running = false
			s.stop = spClose
		} else {
			s.stop = spIdle
		}
	case lStopClose:
		if s.stop != spClose || !s.noPending() {
			return nil
		}
		gen(s.cur).closed = true
		s.stop = spWait
	case lStopWait:
		if s.stop != spWait || !s.allExited() {
			return nil
		}
		if s.resizing || !c.stopDrains {
			s.stop = spIdle
		} else {
			s.stop, s.stopG = spDrain, s.cur
		}
	case lStopDrain:
		if s.stop != spDrain {
			return nil
		}
		G := gen(s.stopG)
		if len(G.items) > 0 {
			t := G.items[0]
			G.items = G.items[1:]
			s.tell(t, sNotExec, 0)
		} else if G.closed {
			s.stop = spIdle
		} else {
			return nil
		}
	case lRzCall:
		if s.rz != rpIdle {
			return nil
		}
		s.rz, s.rzNew = rpCalled, l.arg
	case lRzBegin:
		if s.rz != rpCalled || (c.stopLocks && !s.stopFree()) {
			return nil
		}
		n := s.rzNew
		if n < 1 {
			n = 1
		}
		if s.maxw == n {
			s.rz = rpIdle
		} else {
			s.rz, s.rzNew, s.rzWas, s.rzOld, s.rzPend = rpStop, n, s.running, s.cur, nil
		}
	case lRzStop:
		if s.rz != rpStop {
			return nil
		}
		if s.rzWas {
			if s.running {
				gen(s.cur).cancel = true
				s.running = false
				s.resizing = true
				s.rz = rpClose
			} else {
				s.rz = rpDrain
			}
		} else {
			gen(s.rzOld).closed = true
			s.rz = rpDrain
		}
	case lRzClose:
		if s.rz != rpClose || !s.noPending() {
			return nil
		}
		gen(s.cur).closed = true
		s.rz = rpWait
	case lRzWait:
		if s.rz != rpWait || !s.allExited() {
			return nil
		}
		s.resizing = false
		s.rzWas = true
		s.rz = rpDrain
	case lRzDrain:
		if s.rz != rpDrain {
			return nil
		}
		G := gen(s.rzOld)
		if len(G.items) > 0 {
			s.rzPend = append(s.rzPend, G.items[0])
			G.items = G.items[1:]
		} else if G.closed {
			s.rz = rpSwap
		} else {
			return nil
		}
	case lRzSwap:
		if s.rz != rpSwap {
			return nil
		}
		g := len(s.gens)
		s.gens = append(s.gens, mgen{cap: 2 * s.rzNew})
		s.maxw, s.cur = s.rzNew, g
		if s.rzWas {
			if !s.running {
				s.running = true
				for i := 0; i < s.rzNew; i++ {
					s.workers = append(s.workers, mw{wIdle, g})
				}
			}
			s.rz = rpReenq
		} else {
			s.rz = rpDrop
		}
	case lRzReenq:
		switch s.rz {
		case rpReenq:
			if len(s.rzPend) == 0 {
				s.rz = rpIdle
				break
			}
			t := s.rzPend[0]
			G := gen(s.cur)
			if G.closed {
				s.panicked = true
				break
			}
			s.rzPend = s.rzPend[1:]
			if len(G.items) < G.cap {
				G.items = append(G.items, t)
			} else {
				s.dropped(c, t)
			}
		case rpDrop:
			if len(s.rzPend) == 0 {
				s.rz = rpIdle
				break
			}
			t := s.rzPend[0]
			s.rzPend = s.rzPend[1:]
			s.dropped(c, t)
		default:
			return nil
		}
	default:
		return nil
	}
	return s
}

// internalEnabled lists the enabled internal labels (PoolLTS.enabled); Take/Finish carry their task.
func internalEnabled(c mcfg, s *mstate) []mlabel {
	var out []mlabel
	try := func(l mlabel) {
		if mstep(c, s, l) != nil {
			out = append(out, l)
		}
	}
	for _, e := range s.subs {
		for _, k := range []int{lSubmitBegin, lSubmitEnq, lSubmitTimeout} {
			try(mlabel{k, e.t, -1})
		}
	}
	for w, ws := range s.workers {
		task := -1
		if ws.kind == wIdle && ws.x < len(s.gens) && len(s.gens[ws.x].items) > 0 {
			task = s.gens[ws.x].items[0]
		}
		try(mlabel{lTake, w, task})
		try(mlabel{lExitCtx, w, -1})
		try(mlabel{lExitClosed, w, -1})
		if ws.kind == wExec {
			try(mlabel{lFinish, w, ws.x})
		}
	}
	for _, k := range []int{lStopCAS, lStopClose, lStopWait, lStopDrain, lRzBegin, lRzStop, lRzClose, lRzWait, lRzDrain, lRzSwap, lRzReenq} {
		try(mlabel{k, 0, -1})
	}
	return out
}

func (s *mstate) queued() int {
	n := 0
	for _, g := range s.gens {
		n += len(g.items)
	}
	return n
}
func (s *mstate) executing() int {
	n := 0
	for _, w := range s.workers {
		if w.kind == wExec {
			n++
		}
	}
	return n
}
