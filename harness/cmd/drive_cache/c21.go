package main

import (
	"fmt"
	"os"
	"strings"
	"time"

	. "verifharness/lib"

	"github.com/absfs/absnfs"
)

// C21: histories of every AttrCache / DirCache operation on the real caches under the virtual clock,
// and isChildOf on arbitrary byte strings.  Streams: C21 (AttrCache), C21dir (DirCache), C21child.
func init() {
	imp := "From Verif Require Import Model.Cache Corr.C21.\n" + pathPreamble()
	Props["C21"] = &Prop{Imports: imp, Gen: genAttr, Corpus: corpusAttr, ShardSize: 100,
		NonTrivial: func(c *Case) bool {
			return c.Tags["hit"] > 0 && (c.Tags["eviction"] > 0 || c.Tags["expired_removed"] > 0 || c.Tags["neg_hit"] > 0)
		}}
	Props["C21dir"] = &Prop{Imports: imp, Gen: genDir, Corpus: corpusDir, ShardSize: 100,
		NonTrivial: func(c *Case) bool {
			return c.Tags["hit"] > 0 && (c.Tags["eviction"] > 0 || c.Tags["expired_removed"] > 0)
		}}
	Props["C21child"] = &Prop{Imports: imp, Gen: genChild, Corpus: corpusChild, ShardSize: 700,
		NonTrivial: func(c *Case) bool { return true }}
}

const baseClock = int64(1_000_000_000_000) // virtual clock at the start of every case (ns)

const (
	ms = int64(1_000_000)
	s  = int64(1_000_000_000)
)

// ---------------------------------------------------------------- AttrCache

const (
	aPut = iota
	aPutNeg
	aGet
	aInv
	aInvNegDir
	aInvTree
	aResize
	aUpdateTTL
	aClear
	aConfig
)

type aop struct {
	adv  int64 // clock advance before the call
	kind int
	key  string
	at   uint64    // number of the attribute block: genAttrs(at) = Corr.C21.mk_attrs at
	n    int64     // Resize size / TTL ns
	on   bool
}

func mkAttrs(a [7]uint64) *absnfs.NFSAttrs {
	x := &absnfs.NFSAttrs{Mode: os.FileMode(uint32(a[0])), Size: int64(a[1]), FileId: a[2], Uid: uint32(a[3]), Gid: uint32(a[4])}
	x.SetMtime(time.Unix(0, int64(a[5])))
	x.SetAtime(time.Unix(0, int64(a[6])))
	return x
}
func rdAttrs(x *absnfs.NFSAttrs) [7]uint64 {
	return [7]uint64{uint64(uint32(x.Mode)), uint64(x.Size), x.FileId, uint64(x.Uid), uint64(x.Gid),
		uint64(x.Mtime().UnixNano()), uint64(x.Atime().UnixNano())}
}
func scramble(x *absnfs.NFSAttrs) {
	x.Mode ^= 0o7777
	x.Size += 1000
	x.FileId += 77
	x.Uid += 5
	x.Gid += 6
	x.SetMtime(x.Mtime().Add(time.Hour))
	x.SetAtime(x.Atime().Add(time.Hour))
}
func cAttrs(a [7]uint64) string { return CNs(a[:]) }

// genAttrs mirrors Corr.C21.mk_attrs: Mode, Size, FileId, Uid, Gid, mtime ns, atime ns of block number i.
func genAttrs(i uint64) [7]uint64 {
	modes := []uint64{0o644, 0o755, 0o40755, 0o120777}
	return [7]uint64{modes[i%4], i, 3*i + 1, i % 5, i % 7, 1000*i + 5, i + 9}
}

// every path of the alphabets gets a Coq name (a literal byte list costs Coq ~0.5 ms per byte)
var pathNames = map[string]string{}

func pathPreamble() string {
	var b strings.Builder
	all := append(append(append([]string{}, keyAlphabet...), dirAlphabet...), "/a/x")
	for _, p := range all {
		if _, ok := pathNames[p]; ok {
			continue
		}
		name := fmt.Sprintf("k%d", len(pathNames))
		pathNames[p] = name
		fmt.Fprintf(&b, "Definition %s : path := %s. (* %q *)\n", name, CBytes([]byte(p)), p)
	}
	return b.String()
}
func cPath(p string) string {
	if n, ok := pathNames[p]; ok {
		return n
	}
	return CBytes([]byte(p))
}
func contains(xs []string, x string) bool {
	for _, y := range xs {
		if y == x {
			return true
		}
	}
	return false
}

func runAttr(ttl int64, max int, ops []aop, kind string) Case {
	absnfs.VerifSetClock(baseClock)
	defer absnfs.VerifSetClock(0)
	c := absnfs.NewAttrCache(time.Duration(ttl), max)
	tags := map[string]int{"ops": len(ops)}
	var steps, txt []string
	iso := true
	lastPut := map[string]int64{} // clock of the last Put/PutNegative per key, and the TTL then in force (for tags only)
	lastTTL := map[string]int64{}
	curTTL, negTTL, negOn := ttl, 5*s, false
	for _, o := range ops {
		absnfs.VerifAdvanceClock(o.adv)
		now := absnfs.VerifClock()
		off := now - baseClock
		before := c.VerifKeys()
		sizeBefore := c.Size()
		var op, show string
		switch o.kind {
		case aPut:
			in := mkAttrs(genAttrs(o.at))
			c.Put(o.key, in)
			scramble(in) // the cache must have stored a copy
			op = fmt.Sprintf("P %d %s %d", off, cPath(o.key), o.at)
			tags["put"]++
			if !contains(before, o.key) && sizeBefore >= c.MaxSize() {
				tags["eviction"]++
			}
			if contains(before, o.key) {
				tags["put_overwrite"]++
			}
			lastPut[o.key], lastTTL[o.key] = now, curTTL
		case aPutNeg:
			c.PutNegative(o.key)
			op = fmt.Sprintf("PN %d %s", off, cPath(o.key))
			tags["put_negative"]++
			if negOn {
				if !contains(before, o.key) && sizeBefore >= c.MaxSize() {
					tags["eviction"]++
				}
				lastPut[o.key], lastTTL[o.key] = now, negTTL
			} else {
				tags["put_negative_disabled"]++
			}
		case aGet:
			a, found := c.Get(o.key)
			tags["get"]++
			switch {
			case found && a != nil:
				got := rdAttrs(a)
				if got == genAttrs(got[1]) {
					op = fmt.Sprintf("GH %d %s %d", off, cPath(o.key), got[1])
					show = fmt.Sprintf("hit#%d", got[1])
				} else {
					op = fmt.Sprintf("GX %d %s %s", off, cPath(o.key), cAttrs(got))
					show = fmt.Sprintf("hit%v", got)
				}
				tags["hit"]++
				scramble(a) // the caller owns the returned value
				if (now+int64(len(o.key)))%3 == 0 {
					if b, f2 := c.Get(o.key); !f2 || b == nil || rdAttrs(b) != got {
						iso = false
					}
					tags["copy_isolation_recheck"]++
				}
			case found:
				op = fmt.Sprintf("GN %d %s", off, cPath(o.key))
				show = "neghit"
				tags["neg_hit"]++
			default:
				op = fmt.Sprintf("GM %d %s", off, cPath(o.key))
				show = "miss"
				tags["miss"]++
				if contains(before, o.key) {
					tags["miss_expired"]++
					if c.Size() < sizeBefore {
						tags["expired_removed"]++
					}
					if now == lastPut[o.key]+lastTTL[o.key] {
						tags["get_at_expiry_instant"]++
					}
				}
			}
			if found && contains(before, o.key) && now == lastPut[o.key]+lastTTL[o.key]-1 {
				tags["get_one_ns_before_expiry"]++
			}
		case aInv:
			c.Invalidate(o.key)
			op = fmt.Sprintf("IV %d %s", off, cPath(o.key))
			tags["invalidate"]++
		case aInvNegDir:
			c.InvalidateNegativeInDir(o.key)
			op = fmt.Sprintf("ID %d %s", off, cPath(o.key))
			tags["invalidate_negative_in_dir"]++
			tags["neg_children_removed"] += sizeBefore - c.Size()
		case aInvTree:
			c.InvalidateTree(o.key)
			op = fmt.Sprintf("IT %d %s", off, cPath(o.key))
			tags["invalidate_tree"]++
			tags["tree_removed"] += sizeBefore - c.Size()
		case aResize:
			c.Resize(int(o.n))
			op = fmt.Sprintf("RS %d %s", off, CZ(o.n))
			tags["resize"]++
			tags["resize_evicted"] += sizeBefore - c.Size()
		case aUpdateTTL:
			c.UpdateTTL(time.Duration(o.n))
			op = fmt.Sprintf("UT %d %s", off, CZ(o.n))
			tags["update_ttl"]++
			curTTL = o.n
			if o.n <= 0 {
				curTTL = 5 * s
			}
		case aClear:
			c.Clear()
			op = fmt.Sprintf("CL %d", off)
			tags["clear"]++
		case aConfig:
			c.ConfigureNegativeCaching(o.on, time.Duration(o.n))
			op = fmt.Sprintf("CF %d %s %s", off, CBool(o.on), CZ(o.n))
			tags["configure_negative"]++
			negOn = o.on
			if o.n > 0 {
				negTTL = o.n
			}
			if !o.on {
				tags["negatives_purged"] += sizeBefore - c.Size()
			}
		}
		ml, ll := c.VerifMapLen()
		if ml != ll {
			iso = false // map and access list out of step: reported through the same flag
			tags["map_list_disagree"]++
		}
		steps = append(steps, fmt.Sprintf("%s %d %d %d", op, c.Size(), c.MaxSize(), c.NegativeStats()))
		t := fmt.Sprintf("+%d %s", o.adv, textOp(o.kind, o.key, o.n, o.on))
		if show != "" {
			t += "->" + show
		}
		txt = append(txt, fmt.Sprintf("%s|n=%d", t, c.Size()))
	}
	coq := fmt.Sprintf("AttrCase %s %s %s %s", CZ(ttl), CZ(int64(max)), CList(steps), CBool(iso))
	return Case{Kind: kind, Coq: coq, Tags: tags,
		Text: fmt.Sprintf("attr ttl=%dns max=%d: %s", ttl, max, strings.Join(txt, " "))}
}

func textOp(kind int, key string, n int64, on bool) string {
	switch kind {
	case aPut, dPut:
		return "Put " + key
	case aPutNeg:
		return "PutNeg " + key
	case aGet, dGet:
		return "Get " + key
	case aInv, dInv:
		return "Inv " + key
	case aInvNegDir:
		return "InvNegInDir " + key
	case aInvTree, dInvTree:
		return "InvTree " + key
	case aResize, dResize:
		return fmt.Sprintf("Resize %d", n)
	case aUpdateTTL, dUpdateTTL:
		return fmt.Sprintf("UpdateTTL %d", n)
	case aClear, dClear:
		return "Clear"
	case aConfig:
		return fmt.Sprintf("ConfigNeg %v %d", on, n)
	}
	return "?"
}

// a small tree alphabet with names that are prefixes of each other
var keyAlphabet = []string{"/", "/a", "/a/b", "/ab", "/a/b/c", "/a/c", "/b", "/abc", "/a/bc", "/a/b/cd", "/b/a"}
var dirAlphabet = []string{"/", "/a", "/a/b", "/ab", "/b", "/a/", "", "/a/b/", "/a/b/c", "//"}
var ttlChoices = []int64{1, 50 * ms, 5 * s}

func pickAdvance(r *Rand, now int64, exps []int64) int64 {
	x := r.Intn(100)
	switch {
	case x < 55:
		return 0
	case x < 63:
		return 1
	case x < 83 && len(exps) > 0:
		// land on / next to the expiry instant of a cached key
		e := exps[r.Intn(len(exps))] + int64(r.Intn(3)) - 1
		if e > now {
			return e - now
		}
		return 0
	case x < 89:
		return PickI64(r, 1, 2, 50*ms-1, 50*ms, 50*ms+1, 5*s-1, 5*s, 5*s+1, 10*s, 10*s+1)
	default:
		return int64(r.Intn(int(30 * ms)))
	}
}
func PickI64(r *Rand, xs ...int64) int64 { return xs[r.Intn(len(xs))] }

func genAttr(r *Rand, idx int, tier string) Case {
	ttl := ttlChoices[r.Intn(3)]
	if r.Chance(4) {
		ttl = PickI64(r, 0, -1)
	}
	max := PickInt(r, 1, 2, 3, 10)
	if r.Chance(3) {
		max = PickInt(r, 0, -2)
	}
	nkeys := 2 + r.Intn(len(keyAlphabet)-1)
	keys := keyAlphabet[:nkeys]
	n := 10 + r.Intn(50)
	kind := "mixed"
	negPct := 10
	if r.Chance(30) {
		kind = "negative-heavy"
		negPct = 30
	}
	var ops []aop
	if kind == "negative-heavy" || r.Chance(50) {
		ops = append(ops, aop{kind: aConfig, on: true, n: PickI64(r, 0, 1, 50*ms, 5*s)})
	}
	now := baseClock
	exp := map[string]int64{}
	var stored []string
	curTTL, negTTL := ttl, 5*s
	for len(ops) < n {
		var exps []int64
		for _, e := range exp {
			exps = append(exps, e)
		}
		o := aop{adv: pickAdvance(r, now, exps)}
		now += o.adv
		x := r.Intn(100)
		o.key = keys[r.Intn(len(keys))]
		switch {
		case x < 28:
			o.kind = aPut
			o.at = uint64(r.Intn(1000))
			exp[o.key] = now + curTTL
			stored = append(stored, o.key)
		case x < 28+negPct:
			o.kind = aPutNeg
			exp[o.key] = now + negTTL
			stored = append(stored, o.key)
		case x < 72:
			o.kind = aGet
			if len(stored) > 0 && r.Chance(65) {
				o.key = stored[r.Intn(len(stored))]
			}
		case x < 77:
			o.kind = aInv
		case x < 83:
			o.kind = aInvNegDir
			o.key = dirAlphabet[r.Intn(len(dirAlphabet))]
		case x < 86:
			o.kind = aInvTree
			o.key = dirAlphabet[r.Intn(len(dirAlphabet))]
		case x < 90:
			o.kind = aResize
			o.n = int64(PickInt(r, 1, 1, 2, 3, 5, 10, 0, -1))
		case x < 93:
			o.kind = aUpdateTTL
			o.n = PickI64(r, 1, 50*ms, 5*s, 0, -5)
			curTTL = o.n
			if o.n <= 0 {
				curTTL = 5 * s
			}
		case x < 94:
			o.kind = aClear
		default:
			o.kind = aConfig
			o.on = r.Chance(60)
			o.n = PickI64(r, 0, 1, 50*ms, 5*s, -1)
			if o.n > 0 {
				negTTL = o.n
			}
		}
		ops = append(ops, o)
	}
	return runAttr(ttl, max, ops, kind)
}

func corpusAttr() []Case {
	put := func(adv int64, k string, i uint64) aop { return aop{adv: adv, kind: aPut, key: k, at: i} }
	get := func(adv int64, k string) aop { return aop{adv: adv, kind: aGet, key: k} }
	neg := func(k string) aop { return aop{kind: aPutNeg, key: k} }
	cfg := func(on bool, n int64) aop { return aop{kind: aConfig, on: on, n: n} }
	return []Case{
		// the defect repaired by bb12b4e: a negative entry must not be served after negative caching is switched off
		runAttr(5*s, 10, []aop{cfg(true, 0), neg("/a/x"), get(0, "/a/x"), cfg(false, 0), get(0, "/a/x"),
			neg("/a/x"), get(0, "/a/x"), cfg(true, 0), get(0, "/a/x")}, "negative-off"),
		// expiry boundary: hit one ns before expireAt, miss (entry kept) at expireAt, removed after it
		runAttr(50*ms, 3, []aop{put(0, "/a", 1), get(50*ms-1, "/a"), get(1, "/a"), get(0, "/a"), get(1, "/a"), get(0, "/a")}, "expiry-boundary"),
		// recency: a Get protects its key from the next eviction; Resize keeps the most recently used
		runAttr(5*s, 3, []aop{put(0, "/a", 1), put(0, "/b", 2), put(0, "/a/b", 3), get(0, "/a"), put(0, "/ab", 4),
			get(0, "/b"), get(0, "/a"), get(0, "/a/b"), get(0, "/ab"), {kind: aResize, n: 1}, get(0, "/ab"), get(0, "/a/b"),
			get(0, "/a")}, "lru-order"),
		// overwriting a present key in a full cache evicts nothing
		runAttr(5*s, 2, []aop{put(0, "/a", 1), put(0, "/b", 2), put(0, "/a", 3), get(0, "/b"), get(0, "/a")}, "overwrite-full"),
		// InvalidateNegativeInDir removes exactly the negative direct children
		runAttr(5*s, 10, []aop{cfg(true, 0), neg("/a/b"), neg("/a/b/c"), neg("/ab"), neg("/a"), put(0, "/a/c", 1),
			{kind: aInvNegDir, key: "/a/"}, {kind: aInvNegDir, key: "/a"}, get(0, "/a/b"), get(0, "/a/b/c"), get(0, "/ab"),
			get(0, "/a"), get(0, "/a/c"), {kind: aInvNegDir, key: "/"}, get(0, "/a"), get(0, "/ab"), get(0, "/a/b/c")}, "neg-children"),
		// InvalidateTree removes the directory and everything below it, not its name-prefix siblings
		runAttr(5*s, 10, []aop{put(0, "/a", 1), put(0, "/a/b", 2), put(0, "/a/b/c", 3), put(0, "/ab", 4), put(0, "/b", 5),
			{kind: aInvTree, key: "/a"}, get(0, "/a"), get(0, "/a/b"), get(0, "/a/b/c"), get(0, "/ab"), get(0, "/b"),
			{kind: aInvTree, key: "/"}, get(0, "/ab"), get(0, "/b")}, "tree"),
		// an expired entry still occupies a slot until a Get meets it
		runAttr(1, 2, []aop{put(0, "/a", 1), put(5, "/b", 2), put(5, "/ab", 3), get(0, "/a"), get(0, "/b"), get(0, "/ab")}, "expired-occupies"),
	}
}

// ---------------------------------------------------------------- DirCache

const (
	dPut = 100 + iota
	dGet
	dInv
	dInvTree
	dResize
	dUpdateTTL
	dClear
)

type fi struct{ id uint64 }

func (f fi) Name() string       { return fmt.Sprintf("e%d", f.id) }
func (f fi) Size() int64        { return int64(f.id) }
func (f fi) Mode() os.FileMode  { return 0o644 }
func (f fi) ModTime() time.Time { return time.Unix(0, 0) }
func (f fi) IsDir() bool        { return false }
func (f fi) Sys() interface{}   { return nil }

type dop struct {
	adv  int64
	kind int
	key  string
	ents []uint64
	n    int64
}

func runDir(timeout int64, maxEntries, maxDir int, ops []dop, kind string) Case {
	absnfs.VerifSetClock(baseClock)
	defer absnfs.VerifSetClock(0)
	c := absnfs.NewDirCache(time.Duration(timeout), maxEntries, maxDir)
	tags := map[string]int{"ops": len(ops)}
	var steps, txt []string
	iso := true
	effMaxDir := maxDir
	if effMaxDir <= 0 {
		effMaxDir = 10000
	}
	lastPut := map[string]int64{}
	lastTTL := map[string]int64{}
	cur := timeout
	if cur <= 0 {
		cur = 10 * s
	}
	for _, o := range ops {
		absnfs.VerifAdvanceClock(o.adv)
		now := absnfs.VerifClock()
		off := now - baseClock
		before := c.VerifKeys()
		sizeBefore := c.Size()
		var op, show string
		switch o.kind {
		case dPut:
			in := make([]os.FileInfo, len(o.ents))
			for i, e := range o.ents {
				in[i] = fi{e}
			}
			c.Put(o.key, in)
			for i := range in {
				in[i] = fi{9999} // the cache must have stored a copy of the slice
			}
			op = fmt.Sprintf("DP %d %s %s", off, cPath(o.key), CNs(o.ents))
			tags["put"]++
			if len(o.ents) > effMaxDir {
				tags["put_refused_too_large"]++
			} else {
				if !contains(before, o.key) && sizeBefore >= c.VerifMaxEntries() {
					tags["eviction"]++
				}
				lastPut[o.key], lastTTL[o.key] = now, cur
			}
		case dGet:
			es, found := c.Get(o.key)
			tags["get"]++
			if found {
				ids := make([]uint64, len(es))
				for i, e := range es {
					ids[i] = e.(fi).id
				}
				op = fmt.Sprintf("DG1 %d %s %s", off, cPath(o.key), CNs(ids))
				show = fmt.Sprintf("hit%v", ids)
				tags["hit"]++
				for i := range es {
					es[i] = fi{8888} // the caller owns the returned slice
				}
				if len(es) > 0 && (now+int64(len(o.key)))%2 == 0 {
					es2, f2 := c.Get(o.key)
					if !f2 || len(es2) != len(ids) {
						iso = false
					} else {
						for i := range es2 {
							if es2[i].(fi).id != ids[i] {
								iso = false
							}
						}
					}
					tags["copy_isolation_recheck"]++
				}
				if now == lastPut[o.key]+lastTTL[o.key] {
					tags["hit_at_expiry_instant"]++
				}
			} else {
				op = fmt.Sprintf("DG0 %d %s", off, cPath(o.key))
				show = "miss"
				tags["miss"]++
				if contains(before, o.key) {
					tags["miss_expired"]++
					if c.Size() < sizeBefore {
						tags["expired_removed"]++
					}
					if now == lastPut[o.key]+lastTTL[o.key]+1 {
						tags["miss_one_ns_after_expiry"]++
					}
				}
			}
		case dInv:
			c.Invalidate(o.key)
			op = fmt.Sprintf("DI %d %s", off, cPath(o.key))
			tags["invalidate"]++
		case dInvTree:
			c.InvalidateTree(o.key)
			op = fmt.Sprintf("DT %d %s", off, cPath(o.key))
			tags["invalidate_tree"]++
			tags["tree_removed"] += sizeBefore - c.Size()
		case dResize:
			c.Resize(int(o.n))
			op = fmt.Sprintf("DR %d %s", off, CZ(o.n))
			tags["resize"]++
			tags["resize_evicted"] += sizeBefore - c.Size()
		case dUpdateTTL:
			c.UpdateTTL(time.Duration(o.n))
			op = fmt.Sprintf("DU %d %s", off, CZ(o.n))
			tags["update_ttl"]++
			cur = o.n
			if cur <= 0 {
				cur = 10 * s
			}
		case dClear:
			c.Clear()
			op = fmt.Sprintf("DC %d", off)
			tags["clear"]++
		}
		ml, ll := c.VerifMapLen()
		if ml != ll {
			iso = false
			tags["map_list_disagree"]++
		}
		steps = append(steps, fmt.Sprintf("%s %d %d", op, c.Size(), c.VerifMaxEntries()))
		t := fmt.Sprintf("+%d %s", o.adv, textOp(o.kind, o.key, o.n, false))
		if o.kind == dPut {
			t += fmt.Sprint(o.ents)
		}
		if show != "" {
			t += "->" + show
		}
		txt = append(txt, fmt.Sprintf("%s|n=%d", t, c.Size()))
	}
	coq := fmt.Sprintf("DirCase %s %s %s %s %s", CZ(timeout), CZ(int64(maxEntries)), CZ(int64(maxDir)),
		CList(steps), CBool(iso))
	return Case{Kind: kind, Coq: coq, Tags: tags,
		Text: fmt.Sprintf("dir timeout=%dns maxEntries=%d maxDirSize=%d: %s", timeout, maxEntries, maxDir, strings.Join(txt, " "))}
}

func genDir(r *Rand, idx int, tier string) Case {
	timeout := ttlChoices[r.Intn(3)]
	if r.Chance(6) {
		timeout = PickI64(r, 0, -1) // default 10 s
	}
	maxE := PickInt(r, 1, 2, 3, 10)
	if r.Chance(3) {
		maxE = PickInt(r, 0, -2)
	}
	maxD := PickInt(r, 1, 2, 3, 3, 0, -1)
	nkeys := 2 + r.Intn(len(keyAlphabet)-1)
	keys := keyAlphabet[:nkeys]
	n := 10 + r.Intn(50)
	var ops []dop
	now := baseClock
	exp := map[string]int64{}
	var stored []string
	cur := timeout
	if cur <= 0 {
		cur = 10 * s
	}
	for len(ops) < n {
		var exps []int64
		for _, e := range exp {
			exps = append(exps, e+1) // DirCache entries are valid up to and including validUntil
		}
		o := dop{adv: pickAdvance(r, now, exps)}
		now += o.adv
		o.key = keys[r.Intn(len(keys))]
		x := r.Intn(100)
		switch {
		case x < 35:
			o.kind = dPut
			ne := r.Intn(5)
			for i := 0; i < ne; i++ {
				o.ents = append(o.ents, uint64(r.Intn(50)))
			}
			exp[o.key] = now + cur
			stored = append(stored, o.key)
		case x < 78:
			o.kind = dGet
			if len(stored) > 0 && r.Chance(65) {
				o.key = stored[r.Intn(len(stored))]
			}
		case x < 84:
			o.kind = dInv
		case x < 89:
			o.kind = dInvTree
			o.key = dirAlphabet[r.Intn(len(dirAlphabet))]
		case x < 94:
			o.kind = dResize
			o.n = int64(PickInt(r, 1, 1, 2, 3, 5, 10, 0, -1))
		case x < 98:
			o.kind = dUpdateTTL
			o.n = PickI64(r, 1, 50*ms, 5*s, 0, -5)
			cur = o.n
			if cur <= 0 {
				cur = 10 * s
			}
		default:
			o.kind = dClear
		}
		ops = append(ops, o)
	}
	return runDir(timeout, maxE, maxD, ops, "mixed")
}

func corpusDir() []Case {
	put := func(adv int64, k string, es ...uint64) dop { return dop{adv: adv, kind: dPut, key: k, ents: es} }
	get := func(adv int64, k string) dop { return dop{adv: adv, kind: dGet, key: k} }
	return []Case{
		// valid up to and including validUntil, removed one ns later
		runDir(50*ms, 3, 10, []dop{put(0, "/a", 1, 2), get(50*ms-1, "/a"), get(1, "/a"), get(1, "/a"), get(0, "/a")}, "expiry-boundary"),
		// a listing longer than maxDirSize is not stored; the previous listing stays
		runDir(5*s, 3, 2, []dop{put(0, "/a", 1, 2), put(0, "/a", 1, 2, 3), get(0, "/a"), put(0, "/b", 4, 5, 6), get(0, "/b")}, "max-dir-size"),
		// recency and Resize
		runDir(5*s, 3, 10, []dop{put(0, "/a", 1), put(0, "/b", 2), put(0, "/a/b", 3), get(0, "/a"), put(0, "/ab", 4),
			get(0, "/b"), get(0, "/a"), get(0, "/a/b"), get(0, "/ab"), {kind: dResize, n: 1}, get(0, "/ab"), get(0, "/a")}, "lru-order"),
		runDir(5*s, 10, 10, []dop{put(0, "/a", 1), put(0, "/a/b", 2), put(0, "/ab", 3), {kind: dInvTree, key: "/a"},
			get(0, "/a"), get(0, "/a/b"), get(0, "/ab")}, "tree"),
		// default timeout (10 s) for a non-positive argument
		runDir(0, 0, 0, []dop{put(0, "/a", 1), get(10*s, "/a"), get(1, "/a")}, "defaults"),
	}
}

// ---------------------------------------------------------------- isChildOf

func runChild(p, d, kind string) Case {
	got := absnfs.VerifIsChildOf(p, d)
	tags := map[string]int{}
	if got {
		tags["child"]++
	} else {
		tags["not_child"]++
	}
	if d == "/" {
		tags["dir_root"]++
	}
	if strings.HasSuffix(d, "/") && d != "/" {
		tags["dir_trailing_slash"]++
	}
	if !strings.HasPrefix(p, "/") {
		tags["path_not_absolute"]++
	}
	return Case{Kind: kind, Tags: tags, Coq: fmt.Sprintf("ChildCase %s %s %s", cPath(p), cPath(d), CBool(got)),
		Text: fmt.Sprintf("isChildOf(%q, %q) = %v", p, d, got)}
}

func randBytes(r *Rand, maxLen int) string {
	alpha := []byte{'/', '/', 'a', 'b', 0, 0xff, '.'}
	n := r.Intn(maxLen + 1)
	b := make([]byte, n)
	for i := range b {
		b[i] = alpha[r.Intn(len(alpha))]
	}
	return string(b)
}

func genChild(r *Rand, idx int, tier string) Case {
	switch r.Intn(3) {
	case 0: // arbitrary byte strings
		return runChild(randBytes(r, 6), randBytes(r, 4), "random-bytes")
	case 1: // a path built from the directory
		d := dirAlphabet[r.Intn(len(dirAlphabet))]
		if r.Chance(30) {
			d = randBytes(r, 4)
		}
		sep := PickStr(r, "/", "/", "/", "", "//")
		return runChild(d+sep+randBytes(r, 3), d, "derived")
	default:
		return runChild(keyAlphabet[r.Intn(len(keyAlphabet))], dirAlphabet[r.Intn(len(dirAlphabet))], "tree")
	}
}

func corpusChild() []Case {
	pairs := [][2]string{{"/a", "/"}, {"/", "/"}, {"", "/"}, {"a", "/"}, {"xab", "/"}, {"//", "/"}, {"/a/", "/"}, {"/a/b", "/"},
		{"/a/b", "/a"}, {"/a/b", "/a/"}, {"/a//b", "/a/"}, {"/ab", "/a"}, {"/a", "/a"}, {"/a/", "/a"}, {"/a/b/c", "/a"},
		{"/a", ""}, {"a", ""}, {"/a/b", ""}, {"a/b", "a"}, {"/a/b", "/a/b"}, {"/a/b/", "/a"}}
	var out []Case
	for _, p := range pairs {
		out = append(out, runChild(p[0], p[1], "boundary"))
	}
	return out
}

// ---------------------------------------------------------------- concurrent stress (runtime half of C21)

func init() {
	Props["C21race"] = &Prop{Imports: "From Verif Require Import Model.Cache Corr.C21.", Gen: genRace, ShardSize: 50,
		NonTrivial: func(c *Case) bool { return c.Tags["rounds"] > 0 }}
}

// raceNegSwitch: PutNegative racing with ConfigureNegativeCaching(false).  Once both have returned no
// negative entry may exist (before the repair of PutNegative about 1 round in 2000 ended with one).
func raceNegSwitch(r *Rand, rounds int) (bad int, tags map[string]int) {
	tags = map[string]int{}
	for i := 0; i < rounds; i++ {
		c := absnfs.NewAttrCache(5*time.Second, 1+r.Intn(8))
		c.ConfigureNegativeCaching(true, 5*time.Second)
		c.Put("/d/y", mkAttrs([7]uint64{0o644, 1, 2, 3, 4, 5, 6}))
		done := make(chan struct{})
		gate := make(chan struct{})
		n := 2 + r.Intn(4)
		for g := 0; g < n; g++ {
			go func(g int) {
				<-gate
				c.PutNegative(fmt.Sprintf("/d/x%d", g))
				done <- struct{}{}
			}(g)
		}
		go func() {
			<-gate
			c.ConfigureNegativeCaching(false, 0)
			done <- struct{}{}
		}()
		close(gate)
		for g := 0; g <= n; g++ {
			<-done
		}
		ml, ll := c.VerifMapLen()
		if c.NegativeStats() > 0 || ml != ll || c.Size() > c.MaxSize() {
			bad++
			tags["negative_entry_while_disabled"]++
		}
	}
	tags["rounds"] = rounds
	return
}

// raceMixed: goroutines issue random operations on one AttrCache and one DirCache while another advances the
// virtual clock.  During the run every hit must carry a value that was stored under that very key; at
// quiescence the representation invariants and "no negatives while disabled" must hold.
func raceMixed(r *Rand, rounds int) (bad int, tags map[string]int) {
	tags = map[string]int{}
	for i := 0; i < rounds; i++ {
		absnfs.VerifSetClock(baseClock)
		ac := absnfs.NewAttrCache(time.Duration(PickI64(r, 1, 50*ms, 5*s)), PickInt(r, 1, 2, 3, 10))
		dc := absnfs.NewDirCache(time.Duration(PickI64(r, 1, 50*ms, 5*s)), PickInt(r, 1, 2, 3, 10), 3)
		ac.ConfigureNegativeCaching(true, time.Duration(50*ms))
		workers := 4
		var badCount int64
		res := make(chan int, workers)
		gate := make(chan struct{})
		for w := 0; w < workers; w++ {
			wr := NewRand(r.U64(), uint64(w))
			go func(wr *Rand) {
				<-gate
				b := 0
				for j := 0; j < 60; j++ {
					ki := wr.Intn(len(keyAlphabet))
					k := keyAlphabet[ki]
					switch x := wr.Intn(100); {
					case x < 25:
						ac.Put(k, mkAttrs([7]uint64{0o644, uint64(j), uint64(ki), 1, 2, 3, 4}))
					case x < 35:
						ac.PutNegative(k)
					case x < 60:
						if a, ok := ac.Get(k); ok && a != nil {
							if a.FileId != uint64(ki) || a.Uid != 1 || a.Gid != 2 {
								b++ // a value stored under another key, or a torn one
							}
							scramble(a)
						}
					case x < 65:
						ac.Invalidate(k)
					case x < 68:
						ac.InvalidateNegativeInDir(dirAlphabet[wr.Intn(len(dirAlphabet))])
					case x < 70:
						ac.InvalidateTree(dirAlphabet[wr.Intn(len(dirAlphabet))])
					case x < 73:
						ac.Resize(PickInt(wr, 1, 2, 3, 10))
					case x < 75:
						ac.ConfigureNegativeCaching(wr.Bool(), time.Duration(50*ms))
					case x < 85:
						dc.Put(k, []os.FileInfo{fi{uint64(ki)}, fi{uint64(ki)}})
					case x < 96:
						if es, ok := dc.Get(k); ok {
							for _, e := range es {
								if e.(fi).id != uint64(ki) {
									b++
								}
							}
							for n := range es {
								es[n] = fi{7777}
							}
						}
					case x < 98:
						dc.Resize(PickInt(wr, 1, 2, 3, 10))
					default:
						absnfs.VerifAdvanceClock(PickI64(wr, 1, 50*ms, 5*s))
					}
				}
				res <- b
			}(wr)
		}
		close(gate)
		for w := 0; w < workers; w++ {
			badCount += int64(<-res)
		}
		ac.ConfigureNegativeCaching(false, 0)
		ml, ll := ac.VerifMapLen()
		dl, dll := dc.VerifMapLen()
		seen := map[string]bool{}
		dup := false
		for _, k := range ac.VerifKeys() {
			if seen[k] {
				dup = true
			}
			seen[k] = true
		}
		if badCount > 0 || ml != ll || dl != dll || dup || ac.Size() > ac.MaxSize() || dc.Size() > dc.VerifMaxEntries() || ac.NegativeStats() != 0 {
			bad++
			tags["quiescent_or_value_violation"]++
		}
	}
	absnfs.VerifSetClock(0)
	tags["rounds"] = rounds
	return
}

func genRace(r *Rand, idx int, tier string) Case {
	rounds := 20000
	if tier == "thorough" {
		rounds = 100000
	}
	var bad int
	var tags map[string]int
	kind := "neg-switch"
	if idx%2 == 1 {
		kind = "mixed-stress"
		rounds /= 40
		bad, tags = raceMixed(r, rounds)
	} else {
		bad, tags = raceNegSwitch(r, rounds)
	}
	return Case{Kind: kind, Tags: tags, Key: fmt.Sprintf("%s-%d", kind, idx),
		Coq:  fmt.Sprintf("RaceCase %d %d", rounds, bad),
		Text: fmt.Sprintf("concurrent %s: %d rounds, %d ended with a broken statement", kind, rounds, bad)}
}
