// drive_cache: cases for the attribute and directory caches (C21).
package main

import "verifharness/lib"

func main() { lib.Main() }
