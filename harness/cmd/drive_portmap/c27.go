package main

import (
	"encoding/binary"
	"fmt"
	"net"
	"strings"

	. "verifharness/lib"

	"github.com/absfs/absnfs"
)

// C27: histories of RPC call records (portmap v2, rpcbind v3/v4, plus malformed / unknown
// programs, versions and procedures) from loopback, remote and odd addresses, and Go-API
// registrations, on the real Portmapper. Observed after every event: reply bytes (or the error
// return), the registry, and whether a caller at that address may modify a registry at all (probe).
func init() {
	Props["C27"] = &Prop{
		Imports: "From Verif Require Import Model.Portmap Corr.C27Bytes Corr.C27.",
		Gen:     genC27,
		Corpus:  corpusC27,
		NonTrivial: func(c *Case) bool {
			return c.Tags["registry.changed"] > 0 && (c.Tags["nonlocal.modify.attempt"] > 0 || c.Tags["query.hit"] > 0)
		},
		ShardSize: 25,
	}
}

// ---------- addresses ----------

type fakeAddr struct{ s string }

func (a fakeAddr) Network() string { return "fake" }
func (a fakeAddr) String() string  { return a.s }

type caller struct {
	addr  net.Addr
	coq   string
	text  string
	kind  string // tag
	local bool   // ground truth: in-process, or an IP address that is loopback
}

func ipCoq(ip net.IP) string {
	if len(ip) == 4 {
		return fmt.Sprintf("(IP4 %d %d %d %d)", ip[0], ip[1], ip[2], ip[3])
	}
	if len(ip) == 16 {
		return fmt.Sprintf("(IP6 %d %d)", binary.BigEndian.Uint64(ip[:8]), binary.BigEndian.Uint64(ip[8:]))
	}
	panic("ip length")
}

// ground truth for an IP address, written independently of net.IP.IsLoopback
func ipIsLoopback(ip net.IP) bool {
	if len(ip) == 4 {
		return ip[0] == 127
	}
	mapped := true
	for i := 0; i < 10; i++ {
		if ip[i] != 0 {
			mapped = false
		}
	}
	if mapped && ip[10] == 0xff && ip[11] == 0xff {
		return ip[12] == 127
	}
	for i := 0; i < 15; i++ {
		if ip[i] != 0 {
			return false
		}
	}
	return ip[15] == 1
}

func tcpCaller(ip net.IP, zone string, port int, udp bool, kind string) caller {
	var a net.Addr = &net.TCPAddr{IP: ip, Zone: zone, Port: port}
	if udp {
		a = &net.UDPAddr{IP: ip, Zone: zone, Port: port}
		kind += ".udp"
	}
	return caller{addr: a, coq: fmt.Sprintf("(TcpAddr %s %s %d)", ipCoq(ip), CBytes([]byte(zone)), port),
		text: a.String(), kind: kind, local: ipIsLoopback(ip)}
}

// any other net.Addr: the model receives the IP found in the host part of String() by the
// standard library (SplitHostPort, zone suffix dropped, ParseIP), or None
func otherCaller(s string) caller {
	c := caller{addr: fakeAddr{s}, text: "fake:" + s, coq: "(OtherAddr None)", kind: "other.noip"}
	host, _, err := net.SplitHostPort(s)
	if err != nil {
		return c
	}
	if i := strings.IndexByte(host, '%'); i >= 0 {
		host = host[:i]
	}
	ip := net.ParseIP(host)
	if ip == nil {
		return c
	}
	c.coq = "(OtherAddr (Some " + ipCoq(ip) + "))"
	c.local = ipIsLoopback(ip)
	if c.local {
		c.kind = "other.loopback"
	} else {
		c.kind = "other.remote"
	}
	return c
}

var noAddr = caller{addr: nil, coq: "NoAddr", text: "<nil>", kind: "nil", local: true}

var oddStrings = []string{
	"192.168.1.100:5000", "127.0.0.1:5000", "[::1]:99", "[fe80::1%eth0]:40000", "pipe", "", "localhost:111",
	"127.0.0.1", "/run/rpcbind.sock", "[::ffff:127.0.0.1]:5", "[::1%lo]:5", "8.8.8.8:53", "127.1:80",
	"0x7f.0.0.1:1", "@abstract", "[fe80::1%eth0]", "10.1.2.3:x", "::1:99", "[2001:db8::7]:1023", "127.0.0.1:1:2",
	"[::ffff:10.0.0.1%z]:9", "%eth0:4",
}

// listenConfigs is the configuration dimension of the portmapper under test (SetListenAddr; Server feeds it
// from Options.Hostname): unset, the unspecified addresses, specific IPv4 / IPv6 addresses (also spelt as an
// IPv4-mapped address), loopback addresses, host names.
var listenConfigs = []string{
	"", "", "0.0.0.0", "::",
	"192.168.1.5", "192.168.1.100", "10.0.0.7", "172.16.0.1", "8.8.8.8", "::ffff:192.168.1.100",
	"fd00::5", "2001:db8::5", "fe80::1",
	"127.0.0.1", "::1",
	"localhost", "nfs.example.org",
}

// listenPeer derives a peer address from the configured listen address: the same IP in every form a
// net.Addr can carry it (4-byte, 16-byte / IPv4-mapped, UDP, zoned, as the String() of another net.Addr),
// or a neighbour of it. None of them is local unless the IP itself is a loopback address.
func listenPeer(r *Rand, listen string) (caller, bool) {
	ip := net.ParseIP(listen)
	if ip == nil {
		return caller{}, false
	}
	port := 1 + r.Intn(65535)
	v4 := ip.To4()
	x := r.Intn(100)
	switch {
	case x < 30: // equal, natural form
		if v4 != nil {
			return tcpCaller(net.IP{v4[0], v4[1], v4[2], v4[3]}, "", port, false, "listen.equal"), true
		}
		return tcpCaller(ip, "", port, false, "listen.equal"), true
	case x < 45: // equal, 16-byte form (IPv4-mapped for an IPv4 listen address)
		return tcpCaller(ip.To16(), "", port, r.Chance(20), "listen.equal.16"), true
	case x < 55: // equal, zoned
		return tcpCaller(ip.To16(), PickStr(r, "eth0", "lo"), port, false, "listen.equal.zoned"), true
	case x < 70: // equal, as the String() of some other net.Addr
		var c caller
		switch {
		case v4 != nil && r.Chance(40):
			c = otherCaller(fmt.Sprintf("[::ffff:%s]:%d", v4.String(), port))
		case r.Chance(25):
			c = otherCaller(net.JoinHostPort(ip.String()+"%eth0", fmt.Sprint(port)))
		default:
			c = otherCaller(net.JoinHostPort(ip.String(), fmt.Sprint(port)))
		}
		c.kind = "listen.equal.string"
		return c, true
	default: // neighbours: one byte of the address changed
		n := append(net.IP{}, ip.To16()...)
		if v4 != nil {
			n = net.IP{v4[0], v4[1], v4[2], v4[3]}
		}
		i := len(n) - 1
		if r.Chance(30) {
			i = r.Intn(len(n))
		}
		n[i] += byte(PickInt(r, 1, 255, 2, 128))
		return tcpCaller(n, "", port, r.Chance(10), "listen.neighbour"), true
	}
}

func genCaller(r *Rand, listen string) caller {
	if r.Chance(28) {
		if c, ok := listenPeer(r, listen); ok {
			return c
		}
	}
	port := 1 + r.Intn(65535)
	x := r.Intn(100)
	switch {
	case x < 22:
		return tcpCaller(net.IP{127, byte(r.Intn(256)), byte(r.Intn(256)), byte(1 + r.Intn(254))}, "", port, false, "loopback4")
	case x < 30:
		return tcpCaller(net.ParseIP("127.0.0.1"), "", port, r.Chance(10), "loopback4.mapped")
	case x < 42:
		return tcpCaller(net.ParseIP("::1"), "", port, r.Chance(10), "loopback6")
	case x < 46:
		return tcpCaller(net.ParseIP("::1"), "lo", port, false, "loopback6.zoned")
	case x < 50:
		return noAddr
	case x < 62:
		return tcpCaller(net.IP{byte(PickInt(r, 10, 192, 8, 126, 128, 172, 1, 255)), byte(r.Intn(256)), byte(r.Intn(256)), byte(r.Intn(256))}, "", port, r.Chance(10), "remote4")
	case x < 67:
		return tcpCaller(net.ParseIP(fmt.Sprintf("%d.%d.0.1", PickInt(r, 10, 192, 126, 128), r.Intn(256))), "", port, false, "remote4.mapped")
	case x < 76:
		return tcpCaller(net.ParseIP(PickStr(r, "2001:db8::1", "fd00::2", "::2", "::", "fe80::1", "::ffff:0:1", "1::1", "::1:0:1")), "", port, r.Chance(10), "remote6")
	case x < 86:
		return tcpCaller(net.ParseIP(PickStr(r, "fe80::1", "fe80::fc:ff:fe00:1", "ff02::1", "fe80::7f00:1")), PickStr(r, "eth0", "lo", "1", "wlan0"), port, r.Chance(10), "remote6.zoned")
	case x < 88:
		return tcpCaller(net.IP{10, 0, 0, byte(r.Intn(256))}, "eth0", port, false, "remote4.zoned")
	default:
		return otherCaller(oddStrings[r.Intn(len(oddStrings))])
	}
}

// ---------- call records ----------

func u32(vs ...uint32) []byte {
	var b []byte
	for _, v := range vs {
		b = binary.BigEndian.AppendUint32(b, v)
	}
	return b
}
func xstr(s []byte) []byte {
	b := u32(uint32(len(s)))
	b = append(b, s...)
	for len(b)%4 != 0 {
		b = append(b, 0)
	}
	return b
}

type event struct {
	kind          int // 0 call, 1 api register, 2 api unregister
	c             caller
	data          []byte
	p, v, t, port uint32
	label         string
	tags          []string
}

var progPool = []uint32{100000, 100003, 100003, 100005, 100021, 7}
var versPool = []uint32{1, 2, 3, 3, 4}
var protPool = []uint32{6, 6, 17, 17, 0, 99}
var portPool = []uint32{0, 111, 2049, 2049, 1023, 65535, 65536, 70000, 4294967295}

func pick32(r *Rand, pool []uint32) uint32 {
	if r.Chance(4) {
		return uint32(r.U64())
	}
	return pool[r.Intn(len(pool))]
}

func genAuth(r *Rand, tags *[]string) []byte {
	x := r.Intn(100)
	switch {
	case x < 66:
		return u32(0, 0)
	case x < 96:
		n := 1 + r.Intn(64)
		if r.Chance(10) {
			n = PickInt(r, 399, 400)
		}
		body := make([]byte, n)
		for i := range body {
			body[i] = byte(r.U64())
		}
		*tags = append(*tags, "auth.body")
		return append(u32(uint32(PickInt(r, 1, 1, 6, 0)), uint32(n))[:8], append(body, make([]byte, (4-n%4)%4)...)...)
	case x < 97:
		*tags = append(*tags, "auth.toolong")
		n := PickInt(r, 401, 404, 1<<20, 0xffffffff)
		return append(u32(1, uint32(n)), make([]byte, r.Intn(8))...)
	case x < 99:
		*tags = append(*tags, "auth.truncated")
		n := 8 + r.Intn(40)
		return append(u32(1, uint32(n)), make([]byte, r.Intn(n))...)
	default:
		*tags = append(*tags, "auth.short")
		return u32(0, 0)[:r.Intn(8)]
	}
}

var netids = []string{"tcp", "tcp", "udp", "udp", "tcp6", "udp6", "", "local", "TCP", "tcpx", "udp4"}
var uaddrs = []string{
	"0.0.0.0.8.1", "127.0.0.1.8.1", "192.168.1.5.0.111", "10.0.0.7.3.255", "1.2.3.4.255.255", "1.2.3.4.256.0",
	"1.2.3.4.0.0", "1.2.3.4.16777216.0", "1.2.3.4.16777216.7", "1.2.3.4.-1.300", "1.2.3.4.+8.+1", "1.2.3.4.8.-1",
	" 1.2.3.4.8.1", "1. 2.3.4.\t8. 1", "1.2.3.4.8.1xyz", "1.2.3.4.8.1.9", "1.2.3.4.8", "1.2.3.4.8.", "::1.8.1", "",
	"1.2.3.4.99999999999999999999.1", "1.2.3.4.9223372036854775807.1", "1.2.3.4.-9223372036854775808.0",
	"1.2.3.4.9223372036854775808.1", "1.2.3.4.36028797018963968.5", "1.2.3.4.8_0.1", "1.2.3.4._8.1", "1.2.3.4.\n8.1",
	"1.2.3.4.\r\n8.1", "1.2.3.4.\r8.1", "1.2.3.4.\u00a08.1", "\u20031.2.3.4.8.\u30001", "\u16801.2.3.4.8.\u20281",
	"1.2.3.4.\u200b8.1", "1.2.3.4.\xc28.1", "1.2.3.4.\xe2\x808.1", "\xff1.2.3.4.8.1", "1.2.3.4.0x8.1", "1.2.3.4.08.01",
	"1..2.3.4.8.1", "a.b.c.d.e.f", "1.2.3.4.8.1\n", "-0.-0.-0.-0.-0.-0", "+.1.2.3.4.5", "1.2.3.4.8.+", "1.2.3.4.\u0085\u202f\u205f8.1",
	"localhost.8.1", "00000000000000000000000000001.2.3.4.000000000000000000000008.1", "\v\f1.2.3.4.8.1", "1,2.3.4.8.1",
}

func genUaddr(r *Rand) []byte {
	x := r.Intn(100)
	switch {
	case x < 35:
		p := pick32(r, portPool[1:])
		return []byte(fmt.Sprintf("%d.%d.%d.%d.%d.%d", r.Intn(256), r.Intn(256), r.Intn(256), r.Intn(256), p/256, p%256))
	case x < 85:
		return []byte(uaddrs[r.Intn(len(uaddrs))])
	default:
		alpha := "0123456789..  +-_\t\n\r\xc2\xa0\xe2\x80\x83x:"
		n := r.Intn(24)
		b := make([]byte, n)
		for i := range b {
			b[i] = alpha[r.Intn(len(alpha))]
		}
		return b
	}
}

// an XDR string argument, sometimes malformed
func genXstr(r *Rand, s []byte, tags *[]string) []byte {
	x := r.Intn(100)
	switch {
	case x < 88:
		return xstr(s)
	case x < 91:
		*tags = append(*tags, "str.nul")
		return xstr(append(append([]byte{}, s...), 0, 'a'))
	case x < 94:
		*tags = append(*tags, "str.toolong")
		return append(u32(uint32(PickInt(r, 8193, 1<<24, 0xffffffff))), s...)
	case x < 97:
		*tags = append(*tags, "str.truncated")
		return append(u32(uint32(len(s)+1+r.Intn(9))), s...)
	default:
		*tags = append(*tags, "str.nopad")
		return append(u32(uint32(len(s))), s...)
	}
}

type key3 struct{ p, v, t uint32 }

func genCall(r *Rand, pool []key3, listen string) event {
	e := event{kind: 0, c: genCaller(r, listen)}
	xid := uint32(r.U64())
	msg := uint32(0)
	if r.Chance(2) {
		msg = uint32(PickInt(r, 1, 2, 0x100))
		e.tags = append(e.tags, "hdr.notcall")
	}
	rpcv := uint32(2)
	if r.Chance(6) {
		rpcv = uint32(PickInt(r, 0, 1, 3, 0x7fffffff))
		e.tags = append(e.tags, "hdr.rpcvers.not2")
	}
	prog := uint32(100000)
	if r.Chance(5) {
		prog = uint32(PickInt(r, 100003, 100005, 0, 99999, 100001, 0xffffffff))
	}
	vers := uint32(PickInt(r, 2, 2, 2, 3, 3, 4, 4))
	if r.Chance(6) {
		vers = uint32(PickInt(r, 0, 1, 5, 6, 0xffffffff))
	}
	proc := uint32(PickInt(r, 0, 1, 1, 1, 1, 2, 2, 3, 3, 3, 4, 4))
	if r.Chance(5) {
		proc = uint32(PickInt(r, 5, 6, 7, 12, 0xffffffff))
	}
	data := u32(xid, msg, rpcv, prog, vers, proc)
	data = append(data, genAuth(r, &e.tags)...)
	data = append(data, genAuth(r, &e.tags)...)
	var args []byte
	vl := fmt.Sprintf("v%d", vers)
	if prog != 100000 {
		vl = "otherprog"
	} else if vers < 2 || vers > 4 {
		vl = "badvers"
	}
	switch {
	case proc == 0:
		e.label = vl + ".NULL"
	case vers == 2 && proc >= 1 && proc <= 3:
		p, v, t, port := pick32(r, progPool), pick32(r, versPool), pick32(r, protPool), pick32(r, portPool)
		if r.Chance(75) {
			k := pool[r.Intn(len(pool))]
			p, v, t = k.p, k.v, k.t
		}
		args = u32(p, v, t, port)
		e.label = fmt.Sprintf("%s.%s(%d,%d,%d,%d)", vl, []string{"", "SET", "UNSET", "GETPORT"}[proc], p, v, t, port)
	case proc >= 1 && proc <= 3:
		p, v := pick32(r, progPool), pick32(r, versPool)
		netid := []byte(netids[r.Intn(len(netids))])
		if r.Chance(75) {
			k := pool[r.Intn(len(pool))]
			p, v = k.p, k.v
			if k.t == 17 {
				netid = []byte(PickStr(r, "udp", "udp", "udp6"))
			} else {
				netid = []byte(PickStr(r, "tcp", "tcp", "tcp6"))
			}
		}
		ua := genUaddr(r)
		owner := []byte(PickStr(r, "", "superuser", "root", "x"))
		args = u32(p, v)
		args = append(args, genXstr(r, netid, &e.tags)...)
		args = append(args, genXstr(r, ua, &e.tags)...)
		args = append(args, genXstr(r, owner, &e.tags)...)
		e.label = fmt.Sprintf("%s.%s(%d,%d,%q,%q,%q)", vl, []string{"", "SET", "UNSET", "GETADDR"}[proc], p, v, netid, ua, owner)
	case proc == 4:
		e.label = vl + ".DUMP"
	default:
		e.label = fmt.Sprintf("%s.proc%d", vl, proc)
	}
	if r.Chance(8) && len(args) > 0 {
		args = args[:r.Intn(len(args))]
		e.tags = append(e.tags, "args.truncated")
	} else if r.Chance(6) {
		args = append(args, make([]byte, 1+r.Intn(9))...)
		e.tags = append(e.tags, "args.trailing")
	}
	data = append(data, args...)
	if r.Chance(3) {
		data = data[:r.Intn(len(data)+1)]
		e.tags = append(e.tags, "record.truncated")
	}
	e.data = data
	return e
}

// ---------- running a history on the real code ----------

// CB renders a byte string as the Coq term (B (X0a (Xff E))) of Corr/C27.v / Corr/C27Bytes.v.
func CB(b []byte) string {
	if len(b) > 256 { // keep the nesting depth of a term bounded
		return "(" + CB(b[:256]) + " ++ " + CB(b[256:]) + ")"
	}
	var sb strings.Builder
	sb.WriteString("(B ")
	for _, x := range b {
		fmt.Fprintf(&sb, "(X%02x ", x)
	}
	sb.WriteString("E")
	sb.WriteString(strings.Repeat(")", len(b)+1))
	return sb.String()
}

func regRows(ms []absnfs.PortMapping) string {
	rows := make([]string, len(ms))
	for i, m := range ms {
		rows[i] = fmt.Sprintf("(%d, %d, %d, %d)", m.Program, m.Version, m.Protocol, m.Port)
	}
	return CList(rows)
}

func sameReg(a, b []absnfs.PortMapping) bool {
	if len(a) != len(b) {
		return false
	}
	for i := range a {
		if a[i] != b[i] {
			return false
		}
	}
	return true
}

var acceptNames = map[uint32]string{0: "SUCCESS", 1: "PROG_UNAVAIL", 2: "PROG_MISMATCH", 3: "PROC_UNAVAIL", 4: "GARBAGE_ARGS", 5: "SYSTEM_ERR"}

// probeAllowed asks the implementation, on a scratch Portmapper, whether a caller at addr may modify
// the registry (a well-formed v2 SET registers its mapping): the observable form of isLoopbackAddr.
// The scratch Portmapper carries the same listen-address configuration as the one under test.
func probeAllowed(listen string, addr net.Addr) bool {
	pm := absnfs.NewPortmapper()
	if listen != "" {
		pm.SetListenAddr(listen)
	}
	pm.VerifHandleCall(mkCall(1, 2, 1, u32(1, 1, 6, 1)), addr)
	return len(pm.GetMappings()) == 1
}

func listenClass(listen string) string {
	ip := net.ParseIP(listen)
	switch {
	case listen == "":
		return "unset"
	case ip == nil:
		return "hostname"
	case ip.IsUnspecified():
		return "unspecified"
	case ip.IsLoopback():
		return "loopback"
	case ip.To4() != nil:
		return "ipv4"
	default:
		return "ipv6"
	}
}

func runC27(listen string, evs []event, kind string, idx int) Case {
	pm := absnfs.NewPortmapper()
	if listen != "" {
		pm.SetListenAddr(listen)
	}
	tags := map[string]int{"events": len(evs)}
	tags["listen."+listenClass(listen)]++
	var coqEvs, coqObs, txt []string
	for _, e := range evs {
		before := pm.GetMappings()
		var reply []byte
		var err error
		allow := true
		switch e.kind {
		case 0:
			reply, err = pm.VerifHandleCall(e.data, e.c.addr)
			allow = probeAllowed(listen, e.c.addr)
			coqEvs = append(coqEvs, fmt.Sprintf("Call %s %s", e.c.coq, CB(e.data)))
			tags["caller."+e.c.kind]++
			lab := e.label
			if i := strings.IndexByte(lab, '('); i >= 0 {
				lab = lab[:i]
			}
			tags["call."+lab]++
			for _, t := range e.tags {
				tags[t]++
			}
		case 1:
			pm.RegisterService(e.p, e.v, e.t, e.port)
			coqEvs = append(coqEvs, fmt.Sprintf("ApiRegister %d %d %d %d", e.p, e.v, e.t, e.port))
			tags["api.register"]++
		case 2:
			pm.UnregisterService(e.p, e.v, e.t)
			coqEvs = append(coqEvs, fmt.Sprintf("ApiUnregister %d %d %d", e.p, e.v, e.t))
			tags["api.unregister"]++
		}
		after := pm.GetMappings()
		changed := !sameReg(before, after)
		if changed {
			tags["registry.changed"]++
		}
		rs := "None"
		if e.kind == 0 {
			isMod := strings.Contains(e.label, ".SET") || strings.Contains(e.label, ".UNSET")
			if isMod && !e.c.local {
				tags["nonlocal.modify.attempt"]++
				if strings.HasPrefix(e.c.kind, "listen.equal") {
					tags["listenaddr.peer.modify.attempt"]++
				}
			}
			if isMod && e.c.local {
				tags["local.modify.attempt"]++
			}
			if changed && !e.c.local {
				tags["CHANGED.BY.NONLOCAL"]++
			}
			if err != nil {
				tags["reply.none"]++
			} else {
				rs = "(Some " + CB(reply) + ")"
				if len(reply) >= 24 {
					tags["accept."+acceptNames[binary.BigEndian.Uint32(reply[20:24])]]++
				}
				if len(reply) >= 28 && binary.BigEndian.Uint32(reply[20:24]) == 0 &&
					(strings.Contains(e.label, "GETPORT") || strings.Contains(e.label, "GETADDR")) {
					if binary.BigEndian.Uint32(reply[24:28]) != 0 {
						tags["query.hit"]++
					} else {
						tags["query.miss"]++
					}
				}
				if strings.HasSuffix(e.label, ".DUMP") && len(after) > 0 {
					tags["dump.nonempty"]++
				}
			}
			txt = append(txt, fmt.Sprintf("[%s %s data=%x -> reply=%x err=%v reg=%v]", e.c.text, e.label, e.data, reply, err != nil, after))
		} else {
			txt = append(txt, fmt.Sprintf("[api %d (%d,%d,%d,%d) reg=%v]", e.kind, e.p, e.v, e.t, e.port, after))
		}
		coqObs = append(coqObs, fmt.Sprintf("{| o_reply := %s; o_reg := %s; o_allow := %s |}", rs, regRows(after), CBool(allow)))
	}
	coq := fmt.Sprintf("{| c_listen := %s; c_evs := %s; c_obs := %s |}", CB([]byte(listen)), CList(coqEvs), CList(coqObs))
	return Case{Index: idx, Kind: kind, Coq: coq, Tags: tags,
		Text: fmt.Sprintf("listen=%q %s", listen, strings.Join(txt, " "))}
}

func genC27(r *Rand, idx int, tier string) Case {
	listen := listenConfigs[r.Intn(len(listenConfigs))]
	if r.Chance(4) {
		listen = strings.Repeat("h", 1+r.Intn(300))
	}
	n := 1 + r.Intn(24)
	kind := "mixed"
	pool := make([]key3, 1+r.Intn(4))
	for i := range pool {
		pool[i] = key3{progPool[r.Intn(len(progPool))], versPool[r.Intn(len(versPool))], uint32(PickInt(r, 6, 6, 17))}
	}
	var evs []event
	if r.Chance(20) {
		kind = "preregistered"
		// what StartOnPort does before serving
		for _, v := range []uint32{2, 3, 4} {
			evs = append(evs, event{kind: 1, p: 100000, v: v, t: 6, port: 111}, event{kind: 1, p: 100000, v: v, t: 17, port: 111})
		}
	}
	if r.Chance(50) {
		for _, k := range pool {
			evs = append(evs, event{kind: 1, p: k.p, v: k.v, t: k.t, port: uint32(PickInt(r, 111, 2049, 1023, 65535, 70000, 635))})
		}
	}
	for i := 0; i < n; i++ {
		x := r.Intn(100)
		switch {
		case x < 5:
			evs = append(evs, event{kind: 1, p: pick32(r, progPool), v: pick32(r, versPool), t: pick32(r, protPool), port: pick32(r, portPool)})
		case x < 8:
			evs = append(evs, event{kind: 2, p: pick32(r, progPool), v: pick32(r, versPool), t: pick32(r, protPool)})
		default:
			evs = append(evs, genCall(r, pool, listen))
		}
	}
	return runC27(listen, evs, kind, idx)
}

// ---------- corpus ----------

func mkCall(xid, vers, proc uint32, args []byte) []byte {
	return append(u32(xid, 0, 2, 100000, vers, proc, 0, 0, 0, 0), args...)
}
func rpcbArgs(p, v uint32, netid, uaddr, owner string) []byte {
	b := u32(p, v)
	b = append(b, xstr([]byte(netid))...)
	b = append(b, xstr([]byte(uaddr))...)
	return append(b, xstr([]byte(owner))...)
}
func call(c caller, label string, data []byte) event { return event{kind: 0, c: c, data: data, label: label} }

func corpusC27() []Case {
	lo := tcpCaller(net.IP{127, 0, 0, 1}, "", 700, false, "loopback4")
	// the history on which the unrepaired guard let a non-loopback caller rewrite the registry:
	// a zoned link-local peer (net.ParseIP rejects "fe80::1%eth0", the guard admitted unparseable hosts)
	attack := func(c caller) []event {
		return []event{
			call(lo, "v2.SET(100003,3,6,2049)", mkCall(1, 2, 1, u32(100003, 3, 6, 2049))),
			call(c, "v2.SET(100005,3,6,1023)", mkCall(2, 2, 1, u32(100005, 3, 6, 1023))),
			call(c, "v2.SET(100003,3,6,9)", mkCall(3, 2, 1, u32(100003, 3, 6, 9))),
			call(c, "v4.SET(100005,3,\"tcp\",\"0.0.0.0.3.255\",\"x\")", mkCall(4, 4, 1, rpcbArgs(100005, 3, "tcp", "0.0.0.0.3.255", "x"))),
			call(c, "v3.SET(100003,3,\"tcp\",\"0.0.0.0.0.9\",\"x\")", mkCall(5, 3, 1, rpcbArgs(100003, 3, "tcp", "0.0.0.0.0.9", "x"))),
			call(c, "v2.UNSET(100003,3,6,0)", mkCall(6, 2, 2, u32(100003, 3, 6, 0))),
			call(c, "v3.UNSET(100003,3,\"tcp\",\"\",\"\")", mkCall(7, 3, 2, rpcbArgs(100003, 3, "tcp", "", ""))),
			call(c, "v4.UNSET(100003,3,\"tcp\",\"\",\"\")", mkCall(8, 4, 2, rpcbArgs(100003, 3, "tcp", "", ""))),
			call(c, "v2.GETPORT(100003,3,6,0)", mkCall(9, 2, 3, u32(100003, 3, 6, 0))),
			call(c, "v2.DUMP", mkCall(10, 2, 4, nil)),
			call(c, "v4.DUMP", mkCall(11, 4, 4, nil)),
		}
	}
	var statuses []event
	for _, v := range []uint32{0, 1, 5, 0xffffffff} {
		statuses = append(statuses, call(lo, fmt.Sprintf("v%d.NULL", v), mkCall(20+v, v, 0, nil)))
	}
	statuses = append(statuses,
		call(lo, "prog100003.v3.NULL", u32(30, 0, 2, 100003, 3, 0, 0, 0, 0, 0)),
		call(lo, "v2.proc5", mkCall(31, 2, 5, nil)), call(lo, "v3.proc5", mkCall(32, 3, 5, nil)), call(lo, "v4.proc12", mkCall(33, 4, 12, nil)),
		call(lo, "v2.NULL", u32(34, 1, 2, 100000, 2, 0, 0, 0, 0, 0)), // a reply record: error, no answer
		call(lo, "v2.NULL", u32(35, 0, 3, 100000, 2, 0, 0, 0, 0, 0)), // rpcvers 3 is not checked
		call(lo, "v2.NULL", append(u32(36, 0, 2, 100000, 2, 0, 1, 400), make([]byte, 408)...)),
		call(lo, "v2.NULL", append(u32(37, 0, 2, 100000, 2, 0, 1, 401), make([]byte, 420)...)),
		call(lo, "v2.NULL", append(u32(38, 0, 2, 100000, 2, 0, 1, 5), 1, 2, 3, 4, 5, 0, 0, 0, 0, 0, 0, 0, 0, 0, 0, 0)),
		call(lo, "v2.NULL", append(u32(39, 0, 2, 100000, 2, 0, 1, 5), 1, 2, 3, 4, 5, 0, 0)),
	)
	var scans []event
	for i, ua := range uaddrs {
		scans = append(scans, call(lo, fmt.Sprintf("v4.SET(%d,1,\"tcp\",%q,\"\")", 200000+i, ua), mkCall(uint32(100+i), 4, 1, rpcbArgs(uint32(200000+i), 1, "tcp", ua, ""))))
	}
	scans = append(scans, call(lo, "v3.DUMP", mkCall(99, 3, 4, nil)), call(lo, "v2.DUMP", mkCall(98, 2, 4, nil)))
	big := strings.Repeat("7", 8192)
	limits := []event{
		call(lo, "v4.SET(1,1,big,\"1.2.3.4.0.5\",\"\")", mkCall(50, 4, 1, rpcbArgs(1, 1, big, "1.2.3.4.0.5", ""))),
		call(lo, "v4.SET(2,1,big+1,\"1.2.3.4.0.5\",\"\")", mkCall(51, 4, 1, rpcbArgs(2, 1, big+"7", "1.2.3.4.0.5", ""))),
		call(lo, "v4.SET(3,1,\"udp6\",big,\"\")", mkCall(52, 4, 1, rpcbArgs(3, 1, "udp6", big, ""))),
		call(lo, "v4.GETADDR(1,1,\"tcp6\",\"\",\"\")", mkCall(53, 4, 3, rpcbArgs(1, 1, "tcp6", "", ""))),
		call(lo, "v4.GETADDR(3,1,\"udp6\",\"\",\"\")", mkCall(54, 4, 3, rpcbArgs(3, 1, "udp6", "", ""))),
		call(lo, "v3.GETADDR(1,1,\"foo\",\"\",\"\")", mkCall(55, 3, 3, rpcbArgs(1, 1, "foo", "", ""))),
		call(lo, "v2.SET(9,9,99,70000)", mkCall(56, 2, 1, u32(9, 9, 99, 70000))),
		call(lo, "v4.DUMP", mkCall(57, 4, 4, nil)),
		call(lo, "v2.DUMP", mkCall(58, 2, 4, nil)),
	}
	return []Case{
		runC27("", attack(tcpCaller(net.ParseIP("fe80::1"), "eth0", 40000, false, "remote6.zoned")), "zoned-linklocal-tcpaddr", 0),
		runC27("", attack(otherCaller("[fe80::1%eth0]:40000")), "zoned-linklocal-string", 0),
		runC27("", attack(otherCaller("pipe")), "unparseable-address", 0),
		runC27("", attack(tcpCaller(net.IP{8, 8, 8, 8}, "", 53, false, "remote4")), "remote-v4", 0),
		runC27("192.168.1.5", attack(noAddr), "in-process", 0),
		// peers whose address equals the configured listen address (or a neighbour / IPv4-mapped form of it)
		// are not loopback callers, whatever the listen address
		runC27("192.168.1.100", attack(tcpCaller(net.IP{192, 168, 1, 100}, "", 901, false, "listen.equal")), "peer-equals-listen-v4", 0),
		runC27("192.168.1.100", attack(tcpCaller(net.ParseIP("192.168.1.100"), "", 902, false, "listen.equal.16")), "peer-equals-listen-v4-mapped", 0),
		runC27("::ffff:192.168.1.100", attack(otherCaller("192.168.1.100:903")), "peer-equals-listen-mapped-config", 0),
		runC27("fd00::5", attack(tcpCaller(net.ParseIP("fd00::5"), "", 904, true, "listen.equal")), "peer-equals-listen-v6-udp", 0),
		runC27("192.168.1.100", attack(tcpCaller(net.IP{192, 168, 1, 101}, "", 905, false, "listen.neighbour")), "peer-neighbour-of-listen", 0),
		runC27("127.0.0.1", attack(tcpCaller(net.IP{127, 0, 0, 1}, "", 906, false, "listen.equal")), "listen-is-loopback", 0),
		runC27("", statuses, "accept-statuses-and-header-limits", 0),
		runC27("10.0.0.7", scans, "uaddr-scan-boundaries", 0),
		runC27("", limits, "string-limits-odd-netids", 0),
	}
}
