// drive_portmap: cases for the portmapper / rpcbind service (C27).
package main

import "verifharness/lib"

func main() { lib.Main() }
