package main

import (
	"bytes"
	"runtime"

	. "verifharness/lib"
	"verifharness/nfsx"
)

// Corpus of stream C29 (distinct names, linearizability with data bytes compared): DIRECTED schedules for the window
// between a READ's backend read and the encoding of its reply.  handleRead reads the data, then fetches the post-op
// attributes (a backend Lstat of the file) and only then copies the data into the reply: client A is held just before
// that Lstat while other clients' requests on OTHER files run to completion, then A goes on.  Whatever those requests
// do, A must answer with its own file's bytes.  The cases run with GOMAXPROCS(1) (a one-processor machine: everything
// that runs while A is parked runs on A's processor, so anything the runtime keeps per processor - sync.Pool - is
// shared with A).
func corpusDistinct() []Case {
	old := runtime.GOMAXPROCS(1)
	defer runtime.GOMAXPROCS(old)
	type scen struct {
		name   string
		files  map[string][]byte // created and written through the server during the set-up
		a      act               // the held READ (client 0)
		held   string            // path whose post-read Lstat holds A
		others []act             // clients 1.. run these one after the other while A is held
	}
	fill := func(b byte, n int) []byte { return bytes.Repeat([]byte{b}, n) }
	rd := func(name string, off uint64, cnt uint32) act {
		return act{kind: "READ", name: name, off: off, cnt: cnt}
	}
	scens := []scen{
		{"read held before its post-op attributes, three reads of other files in between",
			map[string][]byte{"fa": fill('A', 64), "fb": fill('B', 64), "fc": fill('C', 64)},
			rd("fa", 0, 64), "/fa", []act{rd("fb", 0, 64), rd("fc", 0, 64), rd("fb", 0, 64)}},
		{"read of a part of a larger file held, reads of other files in between",
			map[string][]byte{"fa": append(fill('a', 100), fill('A', 156)...), "fb": fill('B', 256), "fc": fill('C', 300)},
			rd("fa", 90, 32), "/fa", []act{rd("fb", 0, 256), rd("fc", 10, 200), rd("fb", 5, 40), rd("fc", 0, 300)}},
		{"short read at the end of a file held, reads of other files in between",
			map[string][]byte{"fa": []byte("the quick brown fox"), "fb": fill('B', 64)},
			rd("fa", 4, 64), "/fa", []act{rd("fb", 0, 64), rd("fb", 1, 16), rd("fb", 0, 64)}},
		{"read held, write and read of another file in between",
			map[string][]byte{"fa": fill('A', 64), "fb": fill('B', 64)},
			rd("fa", 0, 64), "/fa", []act{{kind: "WRITE", name: "fb", off: 8, data: fill('w', 16)}, rd("fb", 0, 64)}},
		{"read held, readdirplus, lookup and read of another file in between",
			map[string][]byte{"fa": fill('A', 64), "fb": fill('B', 64)},
			rd("fa", 0, 64), "/fa", []act{{kind: "READDIRPLUS"}, {kind: "LOOKUP", name: "fb"}, rd("fb", 0, 64)}},
	}
	c := cfg29{AttrTTL: 1, NegTTL: 1, DirTTL: 1}
	var out []Case
	for i, sc := range scens {
		sc := sc
		script := newScript(&rule{op: "pre:Lstat", path: sc.held, nth: 1, signal: "A-has-read", wait: "others-done"})
		programs := [][]act{{sc.a}}
		prev := "A-has-read"
		for j, a := range sc.others {
			a.waitBefore = prev
			prev = "other-" + string(rune('a'+j))
			if j == len(sc.others)-1 {
				prev = "others-done"
			}
			a.signalAfter = prev
			programs = append(programs, []act{a})
		}
		setup := func(rc *runCtx) []*client {
			root := nfsx.Cred{}
			var rootH uint64
			if o := rc.do(99, root, &nfsx.Req{Proc: "MNT", Name: []byte("/")}, nil, false); o.FH != nil {
				rootH = *o.FH
			}
			hs := map[string]uint64{}
			var names []string
			for nm := range sc.files {
				names = append(names, nm)
			}
			sortStrings(names)
			for _, nm := range names {
				if o := rc.do(99, root, &nfsx.Req{Proc: "CREATE", H: rootH, Name: []byte(nm)}, nil, false); o.FH != nil {
					hs["/"+nm] = *o.FH
					d := sc.files[nm]
					rc.do(99, root, &nfsx.Req{Proc: "WRITE", H: *o.FH, Off: 0, Cnt: uint32(len(d)), Stable: 2, Data: d}, nil, false)
				}
			}
			var cls []*client
			for id := range programs {
				cl := &client{id: id, rc: rc, cred: root, objH: map[string]uint64{}, sc: script}
				cl.dirH[0], cl.dirP[0], cl.dirK[0] = rootH, "/", true
				for p, h := range hs {
					cl.objH[p] = h
				}
				cls = append(cls, cl)
			}
			return cls
		}
		res := execute(c, 1, nil, setup, programs, false, script)
		cs := res.toCase(0, c, "directed:"+sc.name, i, map[string]int{"clients": len(programs), "directed-schedule": 1})
		cs.Text = "directed schedule: " + sc.name + "\n" + cs.Text
		out = append(out, cs)
	}
	return out
}
