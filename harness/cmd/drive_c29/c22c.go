package main

import (
	"fmt"
	"os"
	"runtime"
	"sort"
	"strings"
	"sync"
	"time"

	. "verifharness/lib"
	"verifharness/nfsx"
	"verifharness/specfs"
)

// Stream C22c (property C22, "data acknowledged as stable survives a crash") - the CONCURRENT part that the
// sequential stream C22 of drive_nfs cannot see: 2-3 clients WRITE (stable_how UNSTABLE / DATA_SYNC / FILE_SYNC,
// overlapping and disjoint ranges) and COMMIT to the same file(s) at the same time, under directed schedules and
// under random schedule noise.  The backend runs in specfs' SyncSnapshot mode: a Sync persists what the file held
// when Sync was ENTERED (an fsync promises nothing about data written after it was called) and takes time - the
// schedule noise and the directed rules act between the snapshot and its installation.  The DURABLE tree (what
// specfs.Crash would leave) is dumped whenever no request is in flight: after every round of the lock-step cases,
// and after quiescence.  Corr/C22c.v judges the implementation's observations only.
func init() {
	Props["C22c"] = &Prop{Imports: "From Verif Require Import Model.Backend Model.Srv Corr.SrvCase Corr.C22c.",
		Gen: genC22c, Corpus: corpusC22c, ShardSize: 12,
		NonTrivial: func(c *Case) bool { return c.Tags["overlapping-write-pairs"] > 0 && c.Tags["op:WRITE"] > 1 }}
}

type wact struct {
	proc                    string // WRITE COMMIT READ
	file                    int
	off                     uint64
	cnt                     uint32 // COMMIT / READ count
	stable                  uint32
	data                    []byte
	waitBefore, signalAfter string
}

type ddump struct {
	t    int64
	dump []specfs.Entry
}

type c22res struct {
	rc       *runCtx
	dumps    []ddump
	deadlock bool
	n        *noise
	syncs    int
}

// runC22c: files f0.. are created (sequentially) in the root; then the clients' programs run.  lockstep: round k
// runs the k-th request of every client concurrently and is followed by a durable dump; otherwise the programs run
// freely and only the final durable dump is taken.
func runC22c(schedSeed uint64, nfiles int, programs [][]wact, lockstep bool, sc *script) *c22res {
	n := &noise{r: NewRand(schedSeed, 2222)}
	c := cfg29{AttrTTL: 5 * time.Second, NegTTL: 5 * time.Second, DirTTL: 5 * time.Second}
	e := newEnv(c, n, sc, nil)
	res := &c22res{n: n}
	defer func() {
		if !res.deadlock {
			e.NFS.Close()
		}
	}()
	var syncs sync.Mutex
	e.FS.SyncSnapshot = true
	e.FS.MidSync = func(p string) {
		syncs.Lock()
		res.syncs++
		syncs.Unlock()
		sc.after("SyncMid", p)
	}
	rc := &runCtx{e: e, h2p: map[uint64]string{}, issued: map[[2]string]bool{}, names: map[string]bool{}}
	res.rc = rc
	root := nfsx.Cred{}
	var rootH uint64
	if o := rc.do(99, root, &nfsx.Req{Proc: "MNT", Name: []byte("/")}, nil, false); o.FH != nil {
		rootH = *o.FH
	}
	fh := make([]uint64, nfiles)
	for i := range fh {
		if o := rc.do(99, root, &nfsx.Req{Proc: "CREATE", H: rootH, Name: []byte(fmt.Sprintf("f%d", i))}, nil, false); o.FH != nil {
			fh[i] = *o.FH
		}
	}
	snap := func() { res.dumps = append(res.dumps, ddump{rc.clock.Add(1), e.FS.Dump(true)}) }
	snap()
	n.on.Store(sc == nil)
	if sc != nil {
		sc.armed.Store(true)
	}
	one := func(cli int, a wact) {
		sc.wait(a.waitBefore)
		defer sc.signal(a.signalAfter)
		cred := nfsx.Cred{Uid: uint32(cli), Gid: 100}
		switch a.proc {
		case "WRITE":
			rc.do(cli, cred, &nfsx.Req{Proc: "WRITE", H: fh[a.file], Off: a.off, Cnt: uint32(len(a.data)), Stable: a.stable, Data: a.data}, nil, false)
		case "COMMIT":
			rc.do(cli, cred, &nfsx.Req{Proc: "COMMIT", H: fh[a.file], Off: a.off, Cnt: a.cnt}, nil, false)
		default:
			rc.do(cli, cred, &nfsx.Req{Proc: "READ", H: fh[a.file], Off: a.off, Cnt: a.cnt}, nil, false)
		}
	}
	guard := func(f func()) {
		defer func() {
			if x := recover(); x != nil {
				rc.panics.Add(1)
			}
		}()
		f()
	}
	wait := func(wg *sync.WaitGroup) bool {
		done := make(chan struct{})
		go func() { wg.Wait(); close(done) }()
		select {
		case <-done:
			return true
		case <-time.After(watchdogFor(sc)):
			rc.dead.Store(true)
			deadlocksSeen.Add(1)
			return false
		}
	}
	if lockstep {
		rounds := 0
		for _, p := range programs {
			if len(p) > rounds {
				rounds = len(p)
			}
		}
		for k := 0; k < rounds && !res.deadlock; k++ {
			var wg sync.WaitGroup
			for cli, p := range programs {
				if k < len(p) {
					wg.Add(1)
					go func(cli int, a wact) { defer wg.Done(); guard(func() { one(cli, a) }) }(cli, p[k])
				}
			}
			if !wait(&wg) {
				res.deadlock = true
				break
			}
			snap() // no request in flight
		}
	} else {
		var wg sync.WaitGroup
		for cli, p := range programs {
			wg.Add(1)
			go func(cli int, p []wact) {
				defer wg.Done()
				guard(func() {
					for _, a := range p {
						one(cli, a)
					}
				})
			}(cli, p)
		}
		if !wait(&wg) {
			res.deadlock = true
		} else {
			snap()
		}
	}
	n.on.Store(false)
	if res.deadlock {
		buf := make([]byte, 1<<16)
		fmt.Fprintf(os.Stderr, "drive_c29: C22c watchdog: requests still running\n%s\n", buf[:runtime.Stack(buf, true)])
	}
	return res
}

func (res *c22res) toCase(kind string, idx int, tags map[string]int) Case {
	rc := res.rc
	rc.mu.Lock()
	opsCopy := make([]*opRec, len(rc.ops))
	for i, op := range rc.ops {
		cp := *op
		opsCopy[i] = &cp
	}
	h2p := map[uint64]string{}
	for k, v := range rc.h2p {
		h2p[k] = v
	}
	rc.mu.Unlock()
	rc = &runCtx{ops: opsCopy, h2p: h2p}
	rc.panics.Store(res.rc.panics.Load())
	sort.SliceStable(rc.ops, func(i, j int) bool { return rc.ops[i].inv < rc.ops[j].inv })
	var ops, txt []string
	for i, op := range rc.ops {
		k, data, committed := 2, []byte{}, uint64(0)
		ok := op.obs.RPC == 0 && op.obs.Status == 0
		switch op.req.Proc {
		case "WRITE":
			k = 0
			if ok && len(op.obs.Nums) >= 2 {
				nn := int(op.obs.Nums[0])
				if nn > len(op.req.Data) {
					nn = len(op.req.Data)
				}
				data, committed = op.req.Data[:nn], op.obs.Nums[1]
			}
		case "COMMIT":
			k = 1
		}
		verf := "None"
		if op.obs.Verf != nil {
			verf = fmt.Sprintf("(Some %d)", *op.obs.Verf)
		}
		p, known := rc.h2p[op.req.H]
		if !known {
			p = "/"
		}
		ops = append(ops, fmt.Sprintf("{| w_id := %d; w_cli := %d; w_inv := %d; w_resp := %d; w_kind := %d; w_path := %s; w_off := %d; w_cnt := %d; w_stable := %d; w_data := %s; w_ok := %s; w_committed := %d; w_verf := %s |}",
			i, op.cli, op.inv, op.resp, k, nfsx.CoqPath(p), op.req.Off, op.req.Cnt, op.req.Stable, CBytes(data), CBool(ok), committed, verf))
		txt = append(txt, fmt.Sprintf("%2d c%d [%d,%d] %s stable=%d => %s", i, op.cli, op.inv, op.resp, op.req.Text(), op.req.Stable, op.obs.Text()))
		tags["op:"+op.req.Proc]++
		if op.req.Proc == "WRITE" {
			tags[fmt.Sprintf("stable_how:%d", op.req.Stable)]++
		}
		tags[fmt.Sprintf("status:%d", op.obs.Status)]++
	}
	for i, a := range rc.ops {
		for _, b := range rc.ops[i+1:] {
			if a.cli != b.cli && a.cli != 99 && b.cli != 99 && a.inv < b.resp && b.inv < a.resp {
				tags["overlapping-pairs"]++
				if a.req.Proc == "WRITE" && b.req.Proc == "WRITE" && a.req.H == b.req.H {
					tags["overlapping-write-pairs"]++
					if a.req.Off < b.req.Off+uint64(len(b.req.Data)) && b.req.Off < a.req.Off+uint64(len(a.req.Data)) {
						tags["overlapping-write-pairs-same-bytes"]++
					}
				}
			}
		}
	}
	var dumps []string
	for _, d := range res.dumps {
		dumps = append(dumps, fmt.Sprintf("(%d, %s)", d.t, nfsx.CoqDump(d.dump)))
		var fs []string
		for _, en := range d.dump {
			if en.Kind == specfs.KFile {
				b := make([]byte, en.Size)
				for i := range b {
					b[i] = '.'
				}
				for _, x := range en.Data {
					if x[0] < en.Size {
						b[x[0]] = byte(x[1])
					}
				}
				fs = append(fs, fmt.Sprintf("%s=%q", en.Path, b))
			}
		}
		txt = append(txt, fmt.Sprintf("durable at %d: %s", d.t, strings.Join(fs, " ")))
	}
	tags["ops"] = len(rc.ops)
	tags["durable-dumps"] = len(res.dumps)
	tags["backend-syncs"] = res.syncs
	tags["injected-yields"] = int(res.n.yields.Load())
	tags["injected-sleeps"] = int(res.n.sleeps.Load())
	if res.deadlock {
		tags["deadlock"] = 1
	}
	raceB, raceTxt := raceMark()
	if raceB == "true" {
		tags["race-report"] = 1
	}
	coq := fmt.Sprintf("{| q_ops := %s; q_dumps := %s; q_deadlock := %s; q_panic := %s; q_race := %s |}",
		CList(ops), CList(dumps), CBool(res.deadlock), CBool(rc.panics.Load() > 0), raceB)
	var key strings.Builder
	for i, op := range rc.ops {
		fmt.Fprintf(&key, "%d:%s/%d=>%s;", op.cli, op.req.Text(), op.req.Stable, op.obs.Text())
		for j := range rc.ops[:i] {
			if rc.ops[j].resp < op.inv {
				fmt.Fprintf(&key, "<%d", j)
			}
		}
	}
	for _, d := range res.dumps {
		for _, en := range d.dump {
			fmt.Fprintf(&key, "|%s:%d:%v", en.Path, en.Size, en.Data)
		}
	}
	return Case{Index: idx, Kind: kind, Coq: coq, Tags: tags, Key: key.String(), Text: kind + "\n" + strings.Join(txt, "\n") + raceTxt}
}

// genC22c: 2-3 clients x 2-5 requests on 1-2 files; every written byte identifies its writer and request
// (client k, request j writes the letter 'A' + 5k + j, or its lower case), so the durable contents can be read.
func genC22c(r0 *Rand, idx int, tier string) Case {
	if why := skipCase(tier); why != "" {
		return Case{Index: idx, Kind: why, Tags: map[string]int{"skipped": 1}, Key: fmt.Sprintf("%s %d", why, idx), Text: why,
			Coq: "{| q_ops := []; q_dumps := []; q_deadlock := false; q_panic := false; q_race := false |}"}
	}
	hist := uint64(idx / schedulesPerHistory)
	r := NewRand(globalSeed()^0xC22C, hist)
	k := 2 + r.Intn(2)
	nfiles := 1 + r.Intn(2)
	lockstep := r.Chance(50)
	programs := make([][]wact, k)
	for cli := range programs {
		n := 2 + r.Intn(4)
		for j := 0; j < n; j++ {
			a := wact{file: r.Intn(nfiles)}
			if r.Chance(75) {
				a.file = 0 // most of the traffic meets on one file
			}
			switch x := r.Intn(100); {
			case x < 74:
				a.proc, a.off, a.stable = "WRITE", PickU64(r, 0, 0, 2, 4, 4, 8, 12), uint32(r.Intn(3))
				a.data = make([]byte, PickInt(r, 1, 2, 4, 4, 8))
				for i := range a.data {
					a.data[i] = byte('A' + 5*cli + j)
					if r.Chance(15) {
						a.data[i] = byte('a' + 5*cli + j)
					}
				}
			case x < 94:
				a.proc = "COMMIT"
				if r.Chance(30) {
					a.off, a.cnt = PickU64(r, 0, 4), uint32(PickInt(r, 4, 8, 16))
				}
			default:
				a.proc, a.cnt = "READ", 32
			}
			programs[cli] = append(programs[cli], a)
		}
	}
	res := runC22c(r0.U64(), nfiles, programs, lockstep, nil)
	kind := "free-running"
	if lockstep {
		kind = "lock-step rounds"
	}
	return res.toCase(kind, idx, map[string]int{"clients": k, "files": nfiles})
}

// corpusC22c: directed schedules around the window between a Sync's entry and its completion.
func corpusC22c() []Case {
	w := func(file int, off uint64, s string, stable uint32) wact {
		return wact{proc: "WRITE", file: file, off: off, data: []byte(s), stable: stable}
	}
	type scen struct {
		name     string
		programs [][]wact
		rules    []*rule
	}
	hold := func(a wact, ev string) wact { a.waitBefore = ev; return a }
	sig := func(a wact, ev string) wact { a.signalAfter = ev; return a }
	scens := []scen{
		// A has written and its Sync has taken its snapshot; while that Sync is held B writes, syncs and is answered
		{"A's Sync held while B writes and syncs (disjoint ranges)",
			[][]wact{{w(0, 0, "AAAA", 2)}, {sig(hold(w(0, 4, "BBBB", 2), "A-in-sync"), "B-done")}},
			[]*rule{{op: "SyncMid", path: "/f0", nth: 1, signal: "A-in-sync", wait: "B-done"}}},
		{"A's Sync held while B writes and syncs (overlapping ranges, B UNSTABLE)",
			[][]wact{{w(0, 0, "AAAAAAAA", 1)}, {sig(hold(w(0, 4, "bbbbbbbb", 0), "A-in-sync"), "B-done")}},
			[]*rule{{op: "SyncMid", path: "/f0", nth: 1, signal: "A-in-sync", wait: "B-done"}}},
		// both have written; B's Sync (the second to be entered) is held until A has been answered
		{"B's Sync held while A completes",
			[][]wact{{sig(w(0, 0, "AAAA", 2), "A-done")}, {hold(w(0, 2, "BBBB", 2), "A-written")}},
			[]*rule{{op: "WriteAt", path: "/f0", nth: 1, signal: "A-written"}, {op: "SyncMid", path: "/f0", nth: 2, wait: "A-done"}}},
		// a COMMIT runs while a WRITE's Sync is held; a third client writes another range in between
		{"COMMIT and a third WRITE overlapping a held WRITE",
			[][]wact{{w(0, 0, "AAAA", 0)}, {hold(wact{proc: "COMMIT", file: 0}, "A-in-sync")},
				{sig(hold(w(0, 8, "CCCC", 0), "A-in-sync"), "C-done")}},
			[]*rule{{op: "SyncMid", path: "/f0", nth: 1, signal: "A-in-sync", wait: "C-done"}}},
		// three writers of one file, the first Sync held until the other two have been answered
		{"A's Sync held while B and C write the same bytes and sync",
			[][]wact{{w(0, 0, "AAAAAAAA", 2)}, {sig(hold(w(0, 0, "BBBB", 2), "A-in-sync"), "B-done")},
				{sig(hold(w(0, 2, "CCCC", 1), "B-done"), "C-done")}},
			[]*rule{{op: "SyncMid", path: "/f0", nth: 1, signal: "A-in-sync", wait: "C-done"}}},
	}
	var out []Case
	for i, sc := range scens {
		script := newScript(sc.rules...)
		script.patience = 400 * time.Millisecond
		res := runC22c(1, 1, sc.programs, false, script)
		c := res.toCase("directed: "+sc.name, i, map[string]int{"clients": len(sc.programs), "files": 1, "directed-schedule": 1})
		out = append(out, c)
	}
	return out
}
