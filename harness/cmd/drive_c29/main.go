// drive_c29: small CONCURRENT request histories against one real absnfs server over the mutex-protected
// specfs backend, with seeded yields/sleeps injected before and after every backend operation.  Every request
// is recorded with its invocation/response stamps (a global logical clock) and its decoded reply; Corr/C29.v
// searches for a linearization against Model/Srv.v (stream C29: distinct names, minimal caches) or checks that
// every reply shows a state the object was in (stream C29b: caches on), and compares a sequential probe round
// after quiescence with a fresh twin server over a copy of the final backend state.
package main

import "verifharness/lib"

func main() {
	raceSetup()
	lib.Main()
	raceFinish()
}
