package main

import (
	"fmt"
	"os"
	"path/filepath"
	"strings"
	"syscall"
)

// In a -race build a report of the race detector must end up as a REPLAYABLE case, not only as exit status 66 of
// the whole driver: the binary re-executes itself once with GORACE="exitcode=0 log_path=<file>", looks at that file
// after every history and marks the history during which a report appeared (k_race / q_race := true, the report
// goes into the case text).  Corr/C29.v and Corr/C22c.v turn the mark into code 2.
var raceLog string
var raceSeen int64

func raceSetup() {
	if !raceBuild {
		return
	}
	if p := os.Getenv("DRIVE_C29_RACELOG"); p != "" {
		raceLog = fmt.Sprintf("%s.%d", p, os.Getpid())
		return
	}
	base := os.TempDir()
	if root := os.Getenv("VERIF_ROOT"); root != "" {
		base = filepath.Join(root, "build", "tmp")
	}
	if os.MkdirAll(base, 0o755) != nil {
		return
	}
	self, err := os.Executable()
	if err != nil {
		return
	}
	p := filepath.Join(base, fmt.Sprintf("drive_c29_race_%d", os.Getpid()))
	gorace := strings.TrimSpace(os.Getenv("GORACE") + " exitcode=0 log_path=" + p)
	var env []string
	for _, kv := range os.Environ() {
		if !strings.HasPrefix(kv, "GORACE=") {
			env = append(env, kv)
		}
	}
	env = append(env, "GORACE="+gorace, "DRIVE_C29_RACELOG="+p)
	syscall.Exec(self, os.Args, env) // returns only on failure: then run as usual (exit 66 on a report)
}

// raceReports returns what the race detector has reported since the last call.
func raceReports() string {
	if raceLog == "" {
		return ""
	}
	b, err := os.ReadFile(raceLog)
	if err != nil || int64(len(b)) <= raceSeen {
		return ""
	}
	out := string(b[raceSeen:])
	raceSeen = int64(len(b))
	return out
}

func raceFinish() {
	if raceLog == "" {
		return
	}
	if b, err := os.ReadFile(raceLog); err == nil && len(b) > 0 {
		os.Stderr.Write(b)
	}
	os.Remove(raceLog)
}

// raceMark is called by the case renderers: (Coq bool, text to append to the case)
func raceMark() (string, string) {
	r := raceReports()
	if r == "" {
		return "false", ""
	}
	if len(r) > 2500 {
		r = r[:2500] + "\n..."
	}
	return "true", "\nRACE DETECTOR during this history:\n" + r
}
