package main

import (
	"time"

	. "verifharness/lib"
	"verifharness/nfsx"
	"verifharness/specfs"
)

// Corpus of stream C29b: DIRECTED schedules (no random noise) for the check-then-cache window of
// Lookup / GetAttr / ReadDir: a reader has read the backend, a writer's whole request (backend change +
// invalidation) runs, then the reader stores what it read.  Each is an ordinary interleaving of two requests
// (the reader's goroutine is merely delayed between two statements); on a server whose invalidations cannot be
// lost the probe round after quiescence agrees with the twin server.
func corpusCached() []Case {
	long := 10 * time.Minute
	type scen struct {
		name   string
		cfg    cfg29
		files  map[string]string
		warm   []act // sequential, by the reader, before the concurrent phase
		wwarm  []act // sequential, by the writer
		reader act
		writer act
		rule   *rule
		// writerHeld: the mirror image - the WRITER is stopped at the rule's backend call (op "pre:X": just before the
		// backend sees it; op "X": just after it returned, before the invalidation), the reader's whole request runs
		// in between, then the writer finishes
		writerHeld bool
		dirs       []string
	}
	scens := []scen{
		{name: "lookup-vs-remove (attribute cache, positive entry)", cfg: cfg29{AttrTTL: long, NegTTL: long, DirTTL: long},
			files: map[string]string{"/f0": "hello"}, reader: act{kind: "LOOKUP", name: "f0"}, writer: act{kind: "REMOVE", name: "f0"},
			rule: &rule{op: "Lstat", path: "/f0", nth: 1}},
		{name: "lookup-vs-create (attribute cache, negative entry)", cfg: cfg29{AttrTTL: long, NegTTL: long, DirTTL: long, NegOn: true},
			files: map[string]string{"/f0": "hello"}, reader: act{kind: "LOOKUP", name: "f1"}, writer: act{kind: "CREATE", name: "f1", how: 1},
			rule: &rule{op: "Lstat", path: "/f1", nth: 1}},
		{name: "readdir-vs-create (directory cache)", cfg: cfg29{AttrTTL: long, NegTTL: long, DirTTL: long, DirOn: true},
			files: map[string]string{"/f0": "hello"}, reader: act{kind: "READDIR"}, writer: act{kind: "CREATE", name: "f2", how: 1},
			rule: &rule{op: "Readdir", path: "/", nth: 1}},
		{name: "getattr-vs-write (attribute cache, size)", cfg: cfg29{AttrTTL: long, NegTTL: long, DirTTL: long},
			files: map[string]string{"/f0": "hello"}, warm: []act{{kind: "LOOKUP", name: "f0"}}, wwarm: []act{{kind: "LOOKUP", name: "f0"}},
			reader: act{kind: "GETATTR", name: "f0"}, writer: act{kind: "WRITE", name: "f0", off: 3, data: []byte("LOWORLD")},
			rule: &rule{op: "Lstat", path: "/f0", nth: 1}},
		// the path is NOT cached when the writer invalidates it (CREATE UNCHECKED with a size over an existing file
		// truncates by path, without reading attributes through the cache first): the reader's fill must still be refused
		{name: "lookup-vs-create-truncate (attribute cache, nothing cached for the path at invalidation time)",
			cfg:    cfg29{AttrTTL: long, NegTTL: long, DirTTL: long},
			files:  map[string]string{"/f0": "hello"},
			reader: act{kind: "LOOKUP", name: "f0"}, writer: act{kind: "CREATE", name: "f0", how: 0, size: u64p(0)},
			rule: &rule{op: "Lstat", path: "/f0", nth: 1}},
		// ---- the writer held at its backend call while a reader's whole request runs ----
		{name: "remove held before the backend call, lookup in between", cfg: cfg29{AttrTTL: long, NegTTL: long, DirTTL: long},
			files: map[string]string{"/f0": "hello"}, reader: act{kind: "LOOKUP", name: "f0"}, writer: act{kind: "REMOVE", name: "f0"},
			rule: &rule{op: "pre:Remove", path: "/f0", nth: 1}, writerHeld: true},
		{name: "remove held after the backend call, lookup in between (negative caching on)",
			cfg:   cfg29{AttrTTL: long, NegTTL: long, DirTTL: long, NegOn: true},
			files: map[string]string{"/f0": "hello"}, warm: []act{{kind: "LOOKUP", name: "f0"}},
			reader: act{kind: "LOOKUP", name: "f0"}, writer: act{kind: "REMOVE", name: "f0"},
			rule: &rule{op: "Remove", path: "/f0", nth: 1}, writerHeld: true},
		{name: "rmdir held before the backend call, lookup in between", cfg: cfg29{AttrTTL: long, NegTTL: long, DirTTL: long, DirOn: true},
			files: map[string]string{"/f0": "hello"}, dirs: []string{"/d0"},
			reader: act{kind: "LOOKUP", name: "d0"}, writer: act{kind: "RMDIR", name: "d0"},
			rule: &rule{op: "pre:Remove", path: "/d0", nth: 1}, writerHeld: true},
		{name: "rename held before the backend call, lookup of the source name in between",
			cfg:   cfg29{AttrTTL: long, NegTTL: long, DirTTL: long, NegOn: true},
			files: map[string]string{"/f0": "hello"}, reader: act{kind: "LOOKUP", name: "f0"},
			writer: act{kind: "RENAME", name: "f0", name2: "f1"},
			rule:   &rule{op: "pre:Rename", path: "/f0", nth: 1}, writerHeld: true},
		{name: "rename held before the backend call, lookup of the target name in between (negative caching on)",
			cfg:   cfg29{AttrTTL: long, NegTTL: long, DirTTL: long, NegOn: true},
			files: map[string]string{"/f0": "hello"}, reader: act{kind: "LOOKUP", name: "f1"},
			writer: act{kind: "RENAME", name: "f0", name2: "f1"},
			rule:   &rule{op: "pre:Rename", path: "/f0", nth: 1}, writerHeld: true},
		{name: "create held before the backend call, lookup in between (negative caching on)",
			cfg:   cfg29{AttrTTL: long, NegTTL: long, DirTTL: long, NegOn: true},
			files: map[string]string{"/f0": "hello"}, reader: act{kind: "LOOKUP", name: "f2"},
			writer: act{kind: "CREATE", name: "f2", how: 1},
			rule:   &rule{op: "pre:Create", path: "/f2", nth: 1}, writerHeld: true},
		{name: "create held after the backend call, lookup in between", cfg: cfg29{AttrTTL: long, NegTTL: long, DirTTL: long},
			files: map[string]string{"/f0": "hello"}, reader: act{kind: "LOOKUP", name: "f2"},
			writer: act{kind: "CREATE", name: "f2", how: 1, mode: u32p(0600)},
			rule:   &rule{op: "OpenFile", path: "/f2", nth: 1}, writerHeld: true},
		{name: "remove held before the backend call, readdir in between (directory cache)",
			cfg:   cfg29{AttrTTL: long, NegTTL: long, DirTTL: long, DirOn: true},
			files: map[string]string{"/f0": "hello", "/f1": "x"}, reader: act{kind: "READDIR"}, writer: act{kind: "REMOVE", name: "f0"},
			rule: &rule{op: "pre:Remove", path: "/f0", nth: 1}, writerHeld: true},
		{name: "create held before the backend call, readdirplus in between (directory cache)",
			cfg:   cfg29{AttrTTL: long, NegTTL: long, DirTTL: long, DirOn: true, NegOn: true},
			files: map[string]string{"/f0": "hello"}, reader: act{kind: "READDIRPLUS"}, writer: act{kind: "CREATE", name: "f2", how: 1},
			rule: &rule{op: "pre:Create", path: "/f2", nth: 1}, writerHeld: true},
		{name: "rename held before the backend call, readdir in between (directory cache)",
			cfg:   cfg29{AttrTTL: long, NegTTL: long, DirTTL: long, DirOn: true},
			files: map[string]string{"/f0": "hello"}, reader: act{kind: "READDIR"}, writer: act{kind: "RENAME", name: "f0", name2: "f1"},
			rule: &rule{op: "pre:Rename", path: "/f0", nth: 1}, writerHeld: true},
		{name: "rename held after the backend call, readdirplus in between (directory cache)",
			cfg:   cfg29{AttrTTL: long, NegTTL: long, DirTTL: long, DirOn: true},
			files: map[string]string{"/f0": "hello"}, reader: act{kind: "READDIRPLUS"}, writer: act{kind: "RENAME", name: "f0", name2: "f1"},
			rule: &rule{op: "Rename", path: "/f0", nth: 1}, writerHeld: true},
		{name: "readdirplus-vs-rename (attribute cache, entry of a listing)", cfg: cfg29{AttrTTL: long, NegTTL: long, DirTTL: long},
			files: map[string]string{"/f0": "hello"}, reader: act{kind: "READDIRPLUS"}, writer: act{kind: "RENAME", name: "f0", name2: "f1"},
			rule: &rule{op: "Lstat", path: "/f0", nth: 1}},
	}
	var out []Case
	for i, sc := range scens {
		sc := sc
		if sc.writerHeld {
			sc.rule.signal, sc.rule.wait = "writer-at-op", "reader-done"
			sc.reader.waitBefore, sc.reader.signalAfter = "writer-at-op", "reader-done"
		} else {
			sc.rule.signal, sc.rule.wait = "reader-has-read", "writer-done"
			sc.writer.waitBefore, sc.writer.signalAfter = "reader-has-read", "writer-done"
		}
		script := newScript(sc.rule)
		populate := func(fs *specfs.FS) {
			fs.Mkdir("/sh", 0755)
			for _, d := range sc.dirs {
				fs.Mkdir(d, 0755)
			}
			for p, data := range sc.files {
				h, err := fs.Create(p)
				if err != nil {
					continue
				}
				h.WriteAt([]byte(data), 0)
				h.Sync()
				h.Close()
				fs.Chmod(p, 0644)
			}
		}
		setup := func(rc *runCtx) []*client {
			root := nfsx.Cred{}
			var rootH uint64
			if o := rc.do(99, root, &nfsx.Req{Proc: "MNT", Name: []byte("/")}, nil, false); o.FH != nil {
				rootH = *o.FH
			}
			var cls []*client
			for id := 0; id < 2; id++ {
				cl := &client{id: id, rc: rc, cred: root, objH: map[string]uint64{}, sc: script}
				cl.dirH[0], cl.dirP[0], cl.dirK[0] = rootH, "/", true
				cls = append(cls, cl)
			}
			for _, a := range sc.wwarm {
				cls[0].exec(a)
			}
			for _, a := range sc.warm {
				cls[1].exec(a)
			}
			return cls
		}
		res := execute(sc.cfg, 1, populate, setup, [][]act{{sc.writer}, {sc.reader}}, true, script)
		tags := map[string]int{"clients": 2, "directed-schedule": 1}
		c := res.toCase(1, sc.cfg, "directed:"+sc.name, i, tags)
		c.Text = "directed schedule: " + sc.name + "\n" + c.Text
		out = append(out, c)
	}
	return out
}
