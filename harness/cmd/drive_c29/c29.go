package main

import (
	"bytes"
	"encoding/binary"
	"flag"
	"fmt"
	"os"
	"runtime"
	"sort"
	"strconv"
	"strings"
	"sync"
	"sync/atomic"
	"time"

	"github.com/absfs/absfs"
	"github.com/absfs/absnfs"

	. "verifharness/lib"
	"verifharness/nfsx"
	"verifharness/specfs"
)

const c29Imports = "From Verif Require Import Model.Handles Model.Backend Model.Srv Corr.SrvCase Corr.C29."

func init() {
	Props["C29"] = &Prop{Imports: c29Imports, Gen: genDistinct, Corpus: corpusDistinct, ShardSize: 8,
		NonTrivial: func(c *Case) bool { return c.Tags["overlapping-pairs"] > 0 && c.Tags["backend-mutations"] > 0 }}
	Props["C29b"] = &Prop{Imports: c29Imports, Gen: genCached, Corpus: corpusCached, ShardSize: 8,
		NonTrivial: func(c *Case) bool { return c.Tags["overlapping-pairs"] > 0 && c.Tags["backend-mutations"] > 0 }}
}

// ---------------------------------------------------------------------------------------------------------
// schedule noise: seeded yields and sleeps before (specfs.Gate) and after (delayFS) every backend operation
// ---------------------------------------------------------------------------------------------------------

type noise struct {
	readWindow bool // light noise everywhere, long stalls only right after a backend ReadAt has returned
	mu         sync.Mutex
	r          *Rand
	on         atomic.Bool
	yields     atomic.Int64
	sleeps     atomic.Int64
}

func (n *noise) pause() {
	if n == nil || !n.on.Load() {
		return
	}
	n.mu.Lock()
	x, d := n.r.Intn(100), n.r.Intn(40)
	n.mu.Unlock()
	if n.readWindow {
		if x < 30 {
			n.yields.Add(1)
			runtime.Gosched()
		}
		return
	}
	switch {
	case x < 45:
	case x < 75:
		n.yields.Add(1)
		runtime.Gosched()
	case x < 91:
		n.sleeps.Add(1)
		time.Sleep(time.Duration(1+d) * time.Microsecond)
	case x < 97:
		n.sleeps.Add(1)
		time.Sleep(time.Duration(60+12*d) * time.Microsecond)
	default: // a long stall: the goroutine loses the processor for a while (heavy tail)
		n.sleeps.Add(1)
		time.Sleep(time.Duration(300+70*d) * time.Microsecond)
	}
}

// script enacts a DIRECTED schedule (corpus cases): when the nth backend call (op, path) has returned, the calling
// goroutine signals one event and/or waits for another before it goes on - a delay the scheduler may impose anyway.
type rule struct {
	op, path     string
	nth          int // fires on the nth matching call (1 = first)
	signal, wait string
	seen         int
}
type script struct {
	armed    atomic.Bool // rules only count calls of the concurrent phase
	mu       sync.Mutex
	rules    []*rule
	events   map[string]chan struct{}
	once     map[string]*sync.Once
	patience time.Duration // how long a held goroutine waits for its event (default 5 s)
}

func newScript(rules ...*rule) *script {
	sc := &script{rules: rules, events: map[string]chan struct{}{}, once: map[string]*sync.Once{}}
	return sc
}
func (sc *script) event(name string) chan struct{} {
	sc.mu.Lock()
	defer sc.mu.Unlock()
	if _, ok := sc.events[name]; !ok {
		sc.events[name] = make(chan struct{})
		sc.once[name] = &sync.Once{}
	}
	return sc.events[name]
}
func (sc *script) signal(name string) {
	if sc == nil || name == "" {
		return
	}
	ch := sc.event(name)
	sc.mu.Lock()
	o := sc.once[name]
	sc.mu.Unlock()
	o.Do(func() { close(ch) })
}
func (sc *script) wait(name string) {
	if sc == nil || name == "" {
		return
	}
	d := sc.patience
	if d == 0 {
		d = 5 * time.Second
	}
	select {
	case <-sc.event(name):
	case <-time.After(d): // a scenario that cannot be enacted must not hang the run
	}
}
func (sc *script) after(op, p string) {
	if sc == nil || !sc.armed.Load() {
		return
	}
	var fire *rule
	sc.mu.Lock()
	for _, r := range sc.rules {
		if r.op == op && r.path == p {
			r.seen++
			if r.seen == r.nth {
				fire = r
			}
		}
	}
	sc.mu.Unlock()
	if fire != nil {
		sc.signal(fire.signal)
		sc.wait(fire.wait)
	}
}

// afterRead: the window between a READ's backend read and the encoding of its reply (readWindow mode)
func (n *noise) afterRead() {
	if n == nil || !n.on.Load() || !n.readWindow {
		return
	}
	n.mu.Lock()
	x, d := n.r.Intn(100), n.r.Intn(40)
	n.mu.Unlock()
	if x < 65 {
		n.sleeps.Add(1)
		time.Sleep(time.Duration(300+70*d) * time.Microsecond)
	}
}

// delayFS is a thread-safe backend (specfs) whose calls are followed by a scheduling delay: the caller's
// goroutine may be descheduled right after a backend call returns, exactly as the Go scheduler may do.
type delayFS struct {
	*specfs.FS
	n  *noise
	sc *script
}

func (d *delayFS) post(op, p string) {
	d.n.pause()
	d.sc.after(op, p)
}

var _ absfs.SymlinkFileSystem = (*delayFS)(nil)

func (d *delayFS) Lstat(p string) (os.FileInfo, error) {
	r, e := d.FS.Lstat(p)
	d.post("Lstat", p)
	return r, e
}
func (d *delayFS) Stat(p string) (os.FileInfo, error) {
	r, e := d.FS.Stat(p)
	d.post("Stat", p)
	return r, e
}
func (d *delayFS) OpenFile(p string, flag int, perm os.FileMode) (absfs.File, error) {
	f, e := d.FS.OpenFile(p, flag, perm)
	d.post("OpenFile", p)
	if e != nil {
		return nil, e
	}
	return &delayFile{File: f, n: d.n, sc: d.sc, path: p}, nil
}
func (d *delayFS) Open(p string) (absfs.File, error) { return d.OpenFile(p, os.O_RDONLY, 0) }
func (d *delayFS) Create(p string) (absfs.File, error) {
	return d.OpenFile(p, os.O_RDWR|os.O_CREATE|os.O_TRUNC, 0666)
}
func (d *delayFS) Mkdir(p string, perm os.FileMode) error {
	e := d.FS.Mkdir(p, perm)
	d.post("Mkdir", p)
	return e
}
func (d *delayFS) Remove(p string) error { e := d.FS.Remove(p); d.post("Remove", p); return e }
func (d *delayFS) Rename(a, b string) error {
	e := d.FS.Rename(a, b)
	d.post("Rename", a)
	return e
}
func (d *delayFS) Symlink(t, p string) error { e := d.FS.Symlink(t, p); d.post("Symlink", p); return e }
func (d *delayFS) Readlink(p string) (string, error) {
	r, e := d.FS.Readlink(p)
	d.post("Readlink", p)
	return r, e
}
func (d *delayFS) Chmod(p string, m os.FileMode) error {
	e := d.FS.Chmod(p, m)
	d.post("Chmod", p)
	return e
}
func (d *delayFS) Chown(p string, u, g int) error {
	e := d.FS.Chown(p, u, g)
	d.post("Chown", p)
	return e
}
func (d *delayFS) Lchown(p string, u, g int) error {
	e := d.FS.Lchown(p, u, g)
	d.post("Lchown", p)
	return e
}
func (d *delayFS) Chtimes(p string, a, m time.Time) error {
	e := d.FS.Chtimes(p, a, m)
	d.post("Chtimes", p)
	return e
}
func (d *delayFS) Truncate(p string, sz int64) error {
	e := d.FS.Truncate(p, sz)
	d.post("Truncate", p)
	return e
}

type delayFile struct {
	absfs.File
	n    *noise
	sc   *script
	path string
}

func (f *delayFile) post(op string) {
	f.n.pause()
	if op == "ReadAt" {
		f.n.afterRead()
	}
	f.sc.after(op, f.path)
}

func (f *delayFile) ReadAt(b []byte, off int64) (int, error) {
	n, e := f.File.ReadAt(b, off)
	f.post("ReadAt")
	return n, e
}
func (f *delayFile) WriteAt(b []byte, off int64) (int, error) {
	n, e := f.File.WriteAt(b, off)
	f.post("WriteAt")
	return n, e
}
func (f *delayFile) Sync() error { e := f.File.Sync(); f.post("Sync"); return e }
func (f *delayFile) Stat() (os.FileInfo, error) {
	r, e := f.File.Stat()
	f.post("Stat")
	return r, e
}
func (f *delayFile) Readdir(n int) ([]os.FileInfo, error) {
	r, e := f.File.Readdir(n)
	f.post("Readdir")
	return r, e
}

// ---------------------------------------------------------------------------------------------------------
// environment: one server over specfs on the REAL clock (goroutine-safe copy of nfsx.Env's call path)
// ---------------------------------------------------------------------------------------------------------

type cfg29 struct {
	ReadWindow              bool // schedule noise concentrated after backend reads (not part of the server configuration)
	AttrTTL, NegTTL, DirTTL time.Duration
	NegOn, DirOn            bool
	AttrCap                 int // 0 = 10000
}

func (c cfg29) attrCap() int {
	if c.AttrCap > 0 {
		return c.AttrCap
	}
	return 10000
}

func (c cfg29) opts() absnfs.ExportOptions {
	return absnfs.ExportOptions{TransferSize: 65536, AttrCacheTimeout: c.AttrTTL, AttrCacheSize: c.attrCap(),
		CacheNegativeLookups: c.NegOn, NegativeCacheTimeout: c.NegTTL, EnableDirCache: c.DirOn, DirCacheTimeout: c.DirTTL,
		DirCacheMaxEntries: 1000, DirCacheMaxDirSize: 10000, Squash: "none"}
}
func (c cfg29) coq() string {
	return fmt.Sprintf("{| tsize := 65536; ro := false; maxfile := 0; attr_ttl := %d; attr_cap := %d; neg_on := %s; neg_ttl := %d; dir_on := %s; dir_ttl := %d; dir_cap := 1000; dir_maxsize := 10000 |}",
		c.AttrTTL.Nanoseconds(), c.attrCap(), CBool(c.NegOn), c.NegTTL.Nanoseconds(), CBool(c.DirOn), c.DirTTL.Nanoseconds())
}
func (c cfg29) text() string {
	return fmt.Sprintf("attr=%v neg=%v/%v dir=%v/%v", c.AttrTTL, c.NegOn, c.NegTTL, c.DirOn, c.DirTTL)
}

type env struct {
	FS  *specfs.FS
	NFS *absnfs.AbsfsNFS
	H   *absnfs.NFSProcedureHandler
	xid atomic.Uint32
}

func newEnv(c cfg29, n *noise, sc *script, populate func(fs *specfs.FS)) *env {
	absnfs.VerifSetClock(0) // real time: a 1 ns TTL is over before anybody can look again
	fs := specfs.New()
	fs.Clock = time.Now
	fs.Rec = false
	if populate != nil {
		populate(fs)
	}
	var bfs absfs.SymlinkFileSystem = fs
	if n != nil {
		// before the operation: noise, then the directed rules written as op "pre:<Op>"
		fs.Gate = func(op, p string) { n.pause(); sc.after("pre:"+op, p) }
		bfs = &delayFS{FS: fs, n: n, sc: sc}
	}
	nf, err := absnfs.New(bfs, c.opts())
	if err != nil {
		panic(err)
	}
	_, h := absnfs.VerifNewHandler(nf)
	return &env{FS: fs, NFS: nf, H: h}
}

var procNum = map[string]uint32{"NULL": 0, "GETATTR": 1, "SETATTR": 2, "LOOKUP": 3, "ACCESS": 4, "READLINK": 5, "READ": 6,
	"WRITE": 7, "CREATE": 8, "MKDIR": 9, "SYMLINK": 10, "MKNOD": 11, "REMOVE": 12, "RMDIR": 13, "RENAME": 14, "LINK": 15,
	"READDIR": 16, "READDIRPLUS": 17, "FSSTAT": 18, "FSINFO": 19, "PATHCONF": 20, "COMMIT": 21, "MNT": 1}

func authSysBody(c nfsx.Cred) []byte {
	var b bytes.Buffer
	binary.Write(&b, binary.BigEndian, uint32(0))
	binary.Write(&b, binary.BigEndian, uint32(0))
	binary.Write(&b, binary.BigEndian, c.Uid)
	binary.Write(&b, binary.BigEndian, c.Gid)
	binary.Write(&b, binary.BigEndian, uint32(len(c.Aux)))
	for _, g := range c.Aux {
		binary.Write(&b, binary.BigEndian, g)
	}
	return b.Bytes()
}

// call runs one request through NFSProcedureHandler.HandleCall; safe for concurrent use.
func (e *env) call(c nfsx.Cred, r *nfsx.Req) *nfsx.Obs {
	prog := uint32(nfsx.ProgNFS)
	if r.Proc == "MNT" {
		prog = nfsx.ProgMount
	}
	xid := e.xid.Add(1)
	call := &absnfs.RPCCall{
		Header:     absnfs.RPCMsgHeader{Xid: xid, MsgType: 0, RPCVersion: 2, Program: prog, Version: 3, Procedure: procNum[r.Proc]},
		Credential: absnfs.RPCCredential{Flavor: 1, Body: authSysBody(c)},
	}
	cred := call.Credential
	ctx := &absnfs.AuthContext{ClientIP: "127.0.0.1", ClientPort: 1000, Credential: &cred}
	rep, err := e.H.HandleCall(call, bytes.NewReader(r.Encode()), ctx)
	if err != nil || rep == nil {
		return &nfsx.Obs{RPC: 3000}
	}
	var b bytes.Buffer
	if err := absnfs.EncodeRPCReply(&b, rep); err != nil {
		return &nfsx.Obs{RPC: 3000}
	}
	code, res := nfsx.ParseReply(b.Bytes(), xid)
	if code != 0 {
		return &nfsx.Obs{RPC: code}
	}
	return nfsx.Decode(r.Proc, res)
}

// ---------------------------------------------------------------------------------------------------------
// recording
// ---------------------------------------------------------------------------------------------------------

type opRec struct {
	done      bool // the response has arrived (false: still running when the case was rendered)
	cli       int
	inv, resp int64
	cred      nfsx.Cred
	req       *nfsx.Req
	obs       *nfsx.Obs
	keep      []string // READDIR(PLUS) on a shared directory: only these names are compared
	hasKeep   bool
}

type view struct {
	path string
	kind specfs.Kind
	perm uint32
	size int64
}
type histState struct {
	t     int64
	views []view
}

type runCtx struct {
	e      *env
	clock  atomic.Int64 // the global logical clock of invocation / response stamps
	mu     sync.Mutex
	ops    []*opRec
	h2p    map[uint64]string  // ghost: the path every handle value was issued for
	issued map[[2]string]bool // (handle, path) pairs as issued
	names  map[string]bool    // every name used
	hist   []histState        // stream C29b: backend states after every successful mutating backend call
	panics atomic.Int64
	dead   atomic.Bool // the watchdog fired: the server is not to be touched any more
}

func join(d, n string) string {
	if d == "/" {
		return "/" + n
	}
	return d + "/" + n
}

func (rc *runCtx) learn(h uint64, p string) {
	rc.h2p[h] = p // a later issue for another path is caught by the (handle, path) list against the final table
	rc.issued[[2]string{fmt.Sprint(h), p}] = true
}

// do stamps, executes and records one request.
func (rc *runCtx) do(cli int, c nfsx.Cred, r *nfsx.Req, keep []string, hasKeep bool) *nfsx.Obs {
	if rc.dead.Load() {
		return &nfsx.Obs{RPC: 9998}
	}
	// recorded at invocation, completed at the response: a request that never answers stays in the history
	rec := &opRec{cli: cli, cred: c, req: r, obs: &nfsx.Obs{RPC: 9998}, keep: keep, hasKeep: hasKeep}
	rc.mu.Lock()
	rec.inv = rc.clock.Add(1)
	rec.resp = noAnswer
	rc.ops = append(rc.ops, rec)
	rc.mu.Unlock()
	o := rc.e.call(c, r)
	resp := rc.clock.Add(1)
	rc.mu.Lock()
	defer rc.mu.Unlock()
	if rc.dead.Load() {
		return o // answered after the case was closed: the history keeps it as unanswered
	}
	rec.resp, rec.obs, rec.done = resp, o, true
	if d, ok := rc.h2p[r.H]; ok && r.Name != nil && r.Proc != "MNT" {
		rc.names[d+"\x00"+string(r.Name)] = true
	}
	if d, ok := rc.h2p[r.H2]; ok && r.Name2 != nil {
		rc.names[d+"\x00"+string(r.Name2)] = true
	}
	if o.RPC == 0 && o.Status == 0 {
		switch r.Proc {
		case "MNT":
			if o.FH != nil {
				rc.learn(*o.FH, "/")
			}
		case "LOOKUP", "CREATE", "MKDIR", "SYMLINK":
			if d, ok := rc.h2p[r.H]; ok && o.FH != nil {
				rc.learn(*o.FH, join(d, string(r.Name)))
			}
		case "READDIRPLUS":
			if d, ok := rc.h2p[r.H]; ok {
				for _, en := range o.Entries {
					if en.FH != nil {
						rc.learn(*en.FH, join(d, string(en.Name)))
					}
				}
			}
		}
	}
	return o
}

func viewsOf(es []specfs.Entry) []view {
	out := make([]view, len(es))
	for i, e := range es {
		out[i] = view{e.Path, e.Kind, e.Perm, e.Size}
	}
	return out
}
func sameViews(a, b []view) bool {
	if len(a) != len(b) {
		return false
	}
	for i := range a {
		if a[i] != b[i] {
			return false
		}
	}
	return true
}

// ---------------------------------------------------------------------------------------------------------
// client programs
// ---------------------------------------------------------------------------------------------------------

type act struct {
	kind        string
	dir, dir2   int // 0 root, 1 shared subdirectory, 2 the client's own subdirectory
	name, name2 string
	off         uint64
	cnt         uint32
	data        []byte
	mode        *uint32
	size        *uint64
	how         uint32
	target      string
	waitBefore  string // directed schedules: wait for this event before invoking
	signalAfter string // ... and signal this one after the response
}

type client struct {
	id   int
	rc   *runCtx
	cred nfsx.Cred
	dirH [3]uint64
	dirP [3]string
	dirK [3]bool
	objH map[string]uint64
	sc   *script
	own  []string // names whose READDIR entries are compared on shared directories (nil: all)
	sub  string   // name of the own subdirectory
}

func u32p(v uint32) *uint32 { return &v }
func u64p(v uint64) *uint64 { return &v }

func (c *client) dir(i int) int {
	if c.dirK[i] {
		return i
	}
	return 0
}

// exec turns an abstract action into a concrete request using the handles the client has learnt so far.
func (c *client) exec(a act) {
	if c.rc.dead.Load() {
		return
	}
	c.sc.wait(a.waitBefore)
	defer c.sc.signal(a.signalAfter)
	d := c.dir(a.dir)
	dh, dp := c.dirH[d], c.dirP[d]
	p := join(dp, a.name)
	keep, hasKeep := c.own, c.own != nil && d != 2
	do := func(r *nfsx.Req) *nfsx.Obs { return c.rc.do(c.id, c.cred, r, nil, false) }
	learn := func(o *nfsx.Obs, path string) {
		if o.RPC == 0 && o.Status == 0 && o.FH != nil {
			c.objH[path] = *o.FH
		}
	}
	switch a.kind {
	case "CREATE":
		o := do(&nfsx.Req{Proc: "CREATE", H: dh, Name: []byte(a.name), How: a.how, Sa: nfsx.Sattr{Mode: a.mode, Size: a.size}})
		learn(o, p)
	case "MKDIR":
		o := do(&nfsx.Req{Proc: "MKDIR", H: dh, Name: []byte(a.name), Sa: nfsx.Sattr{Mode: a.mode}})
		learn(o, p)
		if o.RPC == 0 && o.Status == 0 && o.FH != nil && a.name == c.sub && !c.dirK[2] {
			c.dirH[2], c.dirP[2], c.dirK[2] = *o.FH, p, true
		}
	case "SYMLINK":
		o := do(&nfsx.Req{Proc: "SYMLINK", H: dh, Name: []byte(a.name), Target: []byte(a.target)})
		learn(o, p)
	case "LOOKUP":
		o := do(&nfsx.Req{Proc: "LOOKUP", H: dh, Name: []byte(a.name)})
		learn(o, p)
	case "REMOVE", "RMDIR":
		do(&nfsx.Req{Proc: a.kind, H: dh, Name: []byte(a.name)})
	case "RENAME":
		d2 := c.dir(a.dir2)
		do(&nfsx.Req{Proc: "RENAME", H: dh, Name: []byte(a.name), H2: c.dirH[d2], Name2: []byte(a.name2)})
	case "READDIR":
		c.rc.do(c.id, c.cred, &nfsx.Req{Proc: "READDIR", H: dh, Cnt: 32768}, keep, hasKeep)
	case "READDIRPLUS":
		c.rc.do(c.id, c.cred, &nfsx.Req{Proc: "READDIRPLUS", H: dh, Cnt: 32768, Max: 65536}, keep, hasKeep)
	case "GETATTRDIR":
		do(&nfsx.Req{Proc: "GETATTR", H: dh})
	case "BOGUS":
		do(&nfsx.Req{Proc: "GETATTR", H: 900000 + uint64(c.id)})
	default: // operations on an object handle: look the object up first when its handle is not known yet
		h, ok := c.objH[p]
		if !ok {
			o := do(&nfsx.Req{Proc: "LOOKUP", H: dh, Name: []byte(a.name)})
			learn(o, p)
			return
		}
		switch a.kind {
		case "GETATTR", "READLINK":
			do(&nfsx.Req{Proc: a.kind, H: h})
		case "ACCESS":
			do(&nfsx.Req{Proc: "ACCESS", H: h, Mask: 0x3f})
		case "READ":
			do(&nfsx.Req{Proc: "READ", H: h, Off: a.off, Cnt: a.cnt})
		case "WRITE":
			do(&nfsx.Req{Proc: "WRITE", H: h, Off: a.off, Cnt: uint32(len(a.data)), Stable: 2, Data: a.data})
		case "SETATTR":
			do(&nfsx.Req{Proc: "SETATTR", H: h, Sa: nfsx.Sattr{Mode: a.mode, Size: a.size}})
		case "COMMIT":
			do(&nfsx.Req{Proc: "COMMIT", H: h})
		default:
			panic("drive_c29: unknown action " + a.kind)
		}
	}
}

func pickWeighted(r *Rand, w []string, n []int) string {
	tot := 0
	for _, x := range n {
		tot += x
	}
	x := r.Intn(tot)
	for i := range w {
		x -= n[i]
		if x < 0 {
			return w[i]
		}
	}
	return w[0]
}

func randData(r *Rand) []byte {
	n := PickInt(r, 1, 3, 5, 8, 16)
	b := make([]byte, n)
	for i := range b {
		b[i] = byte(PickInt(r, 0, 65+r.Intn(26), 97+r.Intn(26)))
	}
	return b
}

func genAct(r *Rand, kinds []string, weights []int, names []string, dirs []int, sub string) act {
	a := act{kind: pickWeighted(r, kinds, weights), dir: dirs[r.Intn(len(dirs))], dir2: dirs[r.Intn(len(dirs))],
		name: names[r.Intn(len(names))], name2: names[r.Intn(len(names))]}
	switch a.kind {
	case "CREATE":
		a.how = uint32(r.Intn(2))
		if r.Chance(50) {
			a.mode = u32p(uint32(PickInt(r, 0644, 0600, 0755)))
		}
		if r.Chance(15) {
			a.size = u64p(PickU64(r, 0, 3))
		}
	case "MKDIR":
		if sub != "" && r.Chance(70) {
			a.name = sub
			if a.dir == 2 {
				a.dir = 0
			}
		}
	case "SYMLINK":
		a.target = names[r.Intn(len(names))]
	case "READ":
		a.off, a.cnt = PickU64(r, 0, 0, 2, 7), uint32(PickInt(r, 4, 16, 64))
	case "WRITE":
		a.off, a.data = PickU64(r, 0, 0, 1, 4, 10), randData(r)
	case "SETATTR":
		if r.Bool() {
			a.mode = u32p(uint32(PickInt(r, 0600, 0644, 0444, 0755)))
		} else {
			a.size = u64p(PickU64(r, 0, 2, 6, 20))
		}
	}
	return a
}

// ---------------------------------------------------------------------------------------------------------
// the run: set-up (sequential), concurrent phase with watchdog, quiescent observations, probe round
// ---------------------------------------------------------------------------------------------------------

type runResult struct {
	rc                         *runCtx
	init, final                []specfs.Entry
	table                      []absnfs.VerifHandleEntry
	acSize, dcSize, gor0, gor1 int
	deadlock                   bool
	probeA, probeB             []*nfsx.Obs
	probeTxt                   []string
	overlaps                   int
	mutations                  int
	n                          *noise
}

const watchdog = 20 * time.Second

// noAnswer is the response stamp of a request that had not answered when its case was closed.
const noAnswer = int64(1) << 40

// A deadlocked server is never touched again (no probe round, no Close: its goroutines are leaked) and the next case
// gets a fresh server.  Once a deadlock has been seen the random cases get a short watchdog, after three the
// generators only emit empty place-holder cases, and so they do when the driver has run for too long: a deadlocking
// tree is reported within a minute or two, and the driver always ends well before ./check would kill it.
var (
	deadlocksSeen atomic.Int32
	driverStart   = time.Now()
)

// directed schedules park goroutines on purpose (bounded waits of their own): they always get the full watchdog
func watchdogFor(sc *script) time.Duration {
	if sc == nil && deadlocksSeen.Load() > 0 {
		return 3 * time.Second
	}
	return watchdog
}

// skipCase: the reason why no further history is run ("" = go on)
func skipCase(tier string) string {
	limit := 6 * time.Minute
	if tier == "thorough" {
		limit = 40 * time.Minute
	}
	switch {
	case deadlocksSeen.Load() >= 3:
		return "skipped: three deadlocked histories already recorded"
	case time.Since(driverStart) > limit:
		return "skipped: the driver's overall deadline has passed"
	}
	return ""
}

// stubCase is the empty history (trivially accepted by Corr/C29.v)
func stubCase(mode int, c cfg29, why string, idx int) Case {
	coq := fmt.Sprintf("{| k_mode := %d; k_cfg := %s; k_init := []; k_paths := []; k_ops := []; k_final := []; k_hist := []; k_probe := []; k_table := []; k_issued := []; k_acsize := 0; k_dcsize := 0; k_gor0 := 0; k_gor1 := 0; k_deadlock := false; k_panic := false; k_race := false |}", mode, c.coq())
	return Case{Index: idx, Kind: why, Coq: coq, Tags: map[string]int{"skipped": 1}, Key: fmt.Sprintf("%s %d", why, idx), Text: why}
}

func execute(c cfg29, schedSeed uint64, populate func(fs *specfs.FS), setup func(rc *runCtx) []*client, programs [][]act, trackHist bool, sc *script) *runResult {
	n := &noise{r: NewRand(schedSeed, 77), readWindow: c.ReadWindow}
	e := newEnv(c, n, sc, populate)
	rc := &runCtx{e: e, h2p: map[uint64]string{}, issued: map[[2]string]bool{}, names: map[string]bool{}}
	res := &runResult{rc: rc, init: e.FS.Dump(false), n: n}
	defer func() {
		if !res.deadlock {
			e.NFS.Close()
		}
	}()
	var muts atomic.Int64
	if trackHist {
		rc.hist = append(rc.hist, histState{0, viewsOf(res.init)})
	}
	// called under the backend lock after every backend call
	e.FS.AfterOp = func(cl specfs.Call) {
		if !cl.Mutating() || cl.Err != "" {
			return
		}
		muts.Add(1)
		if trackHist {
			v := viewsOf(e.FS.DumpLocked(false))
			if !sameViews(v, rc.hist[len(rc.hist)-1].views) {
				rc.hist = append(rc.hist, histState{rc.clock.Load(), v})
			}
		}
	}
	clients := setup(rc)
	res.gor0 = runtime.NumGoroutine()
	n.on.Store(sc == nil) // a directed schedule runs without random noise
	if sc != nil {
		sc.armed.Store(true)
	}
	var wg sync.WaitGroup
	for i, cl := range clients {
		wg.Add(1)
		go func(cl *client, prog []act) {
			defer wg.Done()
			defer func() {
				if x := recover(); x != nil {
					rc.panics.Add(1)
					fmt.Fprintf(os.Stderr, "drive_c29: client panic: %v\n", x)
				}
			}()
			for _, a := range prog {
				cl.exec(a)
			}
		}(cl, programs[i])
	}
	done := make(chan struct{})
	go func() { wg.Wait(); close(done) }()
	select {
	case <-done:
	case <-time.After(watchdogFor(sc)):
		res.deadlock = true
		rc.dead.Store(true)
		deadlocksSeen.Add(1)
	}
	n.on.Store(false)
	res.mutations = int(muts.Load())
	if res.deadlock {
		buf := make([]byte, 1<<16)
		fmt.Fprintf(os.Stderr, "drive_c29: watchdog: requests still running after %v\n%s\n", watchdogFor(sc), buf[:runtime.Stack(buf, true)])
		res.final = res.init
		return res
	}
	// quiescence: the goroutines HandleCall started have delivered their replies; give them a moment to exit
	for i := 0; i < 100 && runtime.NumGoroutine() > res.gor0; i++ {
		time.Sleep(2 * time.Millisecond)
	}
	res.gor1 = runtime.NumGoroutine()
	e.FS.AfterOp = nil
	res.final = e.FS.Dump(false)
	res.table = e.NFS.VerifFileMap().VerifTable()
	res.acSize = e.NFS.VerifAttrCacheSize()
	if d := e.NFS.VerifDirCacheSize(); d > 0 {
		res.dcSize = d
	}
	// pairs of requests of different clients whose intervals overlap (how concurrent the run really was)
	for i, a := range rc.ops {
		for _, b := range rc.ops[i+1:] {
			if a.cli != b.cli && a.inv < b.resp && b.inv < a.resp {
				res.overlaps++
			}
		}
	}
	// probe round: the same sequential requests on this server and on a fresh twin over a copy of the backend state
	twin := newEnv(c, nil, nil, func(fs *specfs.FS) { restore(fs, res.final) })
	defer twin.NFS.Close()
	// per directory: every name a request used there, plus the names the directory holds now
	names := map[string][]string{}
	for k := range rc.names {
		i := strings.Index(k, "\x00")
		names[k[:i]] = append(names[k[:i]], k[i+1:])
	}
	for _, en := range res.final {
		if en.Path != "/" {
			i := strings.LastIndex(en.Path, "/")
			d := en.Path[:i]
			if d == "" {
				d = "/"
			}
			names[d] = append(names[d], en.Path[i+1:])
		}
	}
	for d := range names {
		sort.Strings(names[d])
		names[d] = uniq(names[d])
	}
	res.probeA, res.probeTxt = probe(e, res.final, names)
	res.probeB, _ = probe(twin, res.final, names)
	return res
}

func sortStrings(xs []string) { sort.Strings(xs) }

func uniq(xs []string) []string {
	var out []string
	for i, x := range xs {
		if i == 0 || x != xs[i-1] {
			out = append(out, x)
		}
	}
	return out
}

// restore rebuilds a tree dump in a fresh backend (contents, permissions, owners, modification times).
func restore(fs *specfs.FS, dump []specfs.Entry) {
	for _, en := range dump {
		switch en.Kind {
		case specfs.KDir:
			if en.Path != "/" {
				fs.Mkdir(en.Path, os.FileMode(en.Perm))
			}
			fs.Chmod(en.Path, os.FileMode(en.Perm))
			fs.Chown(en.Path, en.Uid, en.Gid)
		case specfs.KFile:
			f, err := fs.Create(en.Path)
			if err != nil {
				panic(err)
			}
			for _, d := range en.Data {
				f.WriteAt([]byte{byte(d[1])}, d[0])
			}
			f.Sync()
			f.Close()
			fs.Truncate(en.Path, en.Size)
			fs.Chmod(en.Path, os.FileMode(en.Perm))
			fs.Chown(en.Path, en.Uid, en.Gid)
		case specfs.KLink:
			fs.Symlink(en.Target, en.Path)
			fs.Lchown(en.Path, en.Uid, en.Gid)
		}
	}
	for _, en := range dump {
		if en.Kind != specfs.KLink {
			t := time.Unix(0, en.MtimeNs)
			fs.Chtimes(en.Path, t, t)
		}
	}
}

// probe walks every directory of the final tree from MNT "/" and asks LOOKUP (+ GETATTR on success) for every
// name of the universe, READDIR and READDIRPLUS for every directory.  Handles are dropped from the observations.
func probe(e *env, final []specfs.Entry, names map[string][]string) ([]*nfsx.Obs, []string) {
	var out []*nfsx.Obs
	var txt []string
	root := nfsx.Cred{}
	add := func(r *nfsx.Req, label string) *nfsx.Obs {
		o := e.call(root, r)
		txt = append(txt, label)
		out = append(out, o)
		return o
	}
	hs := map[string]uint64{}
	if o := add(&nfsx.Req{Proc: "MNT", Name: []byte("/")}, "MNT /"); o.FH != nil {
		hs["/"] = *o.FH
	}
	var dirs []string
	for _, en := range final {
		if en.Kind == specfs.KDir {
			dirs = append(dirs, en.Path)
		}
	}
	sort.Strings(dirs) // parents before children
	for _, d := range dirs {
		dh, ok := hs[d]
		if !ok {
			dh = 999999 // no handle obtained for an existing directory: the requests below answer STALE
		}
		for _, nm := range names[d] {
			o := add(&nfsx.Req{Proc: "LOOKUP", H: dh, Name: []byte(nm)}, "LOOKUP "+join(d, nm))
			if o.RPC == 0 && o.Status == 0 && o.FH != nil {
				hs[join(d, nm)] = *o.FH
				add(&nfsx.Req{Proc: "GETATTR", H: *o.FH}, "GETATTR "+join(d, nm))
			} else {
				// keep the two walks aligned whatever the replies are
				txt = append(txt, "(no handle) "+join(d, nm))
				out = append(out, &nfsx.Obs{RPC: 9999})
			}
		}
		add(&nfsx.Req{Proc: "READDIR", H: dh, Cnt: 32768}, "READDIR "+d)
		add(&nfsx.Req{Proc: "READDIRPLUS", H: dh, Cnt: 32768, Max: 65536}, "READDIRPLUS "+d)
	}
	return out, txt
}

// ---------------------------------------------------------------------------------------------------------
// rendering
// ---------------------------------------------------------------------------------------------------------

func stripHandles(o *nfsx.Obs) *nfsx.Obs {
	c := *o
	c.FH = nil
	c.Entries = append([]nfsx.Entry{}, o.Entries...)
	for i := range c.Entries {
		c.Entries[i].FH = nil
	}
	return &c
}

const bogusBase = 1000000

func (res *runResult) toCase(mode int, c cfg29, kind string, idx int, tags map[string]int) Case {
	rc := res.rc
	rc.mu.Lock()
	opsCopy := make([]*opRec, len(rc.ops))
	for i, op := range rc.ops {
		cp := *op
		opsCopy[i] = &cp
	}
	h2p := map[uint64]string{}
	for k, v := range rc.h2p {
		h2p[k] = v
	}
	rc.mu.Unlock()
	rc = &runCtx{ops: opsCopy, h2p: h2p, issued: rc.issued, names: rc.names, hist: rc.hist}
	rc.panics.Store(res.rc.panics.Load())
	sort.SliceStable(rc.ops, func(i, j int) bool { return rc.ops[i].inv < rc.ops[j].inv })
	// path table
	pidx := map[string]int{}
	var paths []string
	pathIndex := func(p string) int {
		if i, ok := pidx[p]; ok {
			return i
		}
		pidx[p] = len(paths)
		paths = append(paths, p)
		return len(paths) - 1
	}
	sym := func(h uint64) uint64 {
		if p, ok := rc.h2p[h]; ok {
			return uint64(pathIndex(p))
		}
		return bogusBase + h
	}
	var ops, txt []string
	for i, op := range rc.ops {
		r := *op.req
		r.H, r.H2 = sym(r.H), sym(r.H2)
		o := stripHandles(op.obs)
		if op.obs.FH != nil {
			v := sym(*op.obs.FH)
			o.FH = &v
		}
		keep := "None"
		if op.hasKeep {
			ks := make([]string, len(op.keep))
			for j, k := range op.keep {
				ks[j] = CBytes([]byte(k))
			}
			keep = "(Some " + CList(ks) + ")"
		}
		ops = append(ops, fmt.Sprintf("{| p_id := %d; p_cli := %d; p_inv := %d; p_resp := %d; p_cred := %s; p_req := %s; p_obs := %s; p_keep := %s |}",
			i, op.cli, op.inv, op.resp, nfsx.CoqCred(op.cred), r.Coq(), o.Coq(), keep))
		if op.done {
			txt = append(txt, fmt.Sprintf("%2d c%d [%d,%d] %s => %s", i, op.cli, op.inv, op.resp, op.req.Text(), op.obs.Text()))
		} else {
			txt = append(txt, fmt.Sprintf("%2d c%d [%d,-] %s => NO ANSWER", i, op.cli, op.inv, op.req.Text()))
			tags["unanswered"]++
		}
		tags["op:"+op.req.Proc]++
		tags[fmt.Sprintf("status:%d", op.obs.Status)]++
		if op.obs.RPC != 0 {
			tags[fmt.Sprintf("rpc:%d", op.obs.RPC)]++
		}
	}
	ptab := make([]string, len(paths))
	for i, p := range paths {
		ptab[i] = fmt.Sprintf("(%d, %s)", i, nfsx.CoqPath(p))
	}
	var hist []string
	for _, h := range rc.hist {
		vs := make([]string, len(h.views))
		for i, v := range h.views {
			sz := v.size
			vs[i] = fmt.Sprintf("(%s, (%s, %d, %d))", nfsx.CoqPath(v.path), []string{"KFile", "KDir", "KLink"}[v.kind], v.perm, sz)
		}
		hist = append(hist, fmt.Sprintf("(%d, %s)", h.t, CList(vs)))
	}
	var probes []string
	if len(res.probeA) != len(res.probeB) {
		// replies diverged so much that the walks differ: render the common prefix plus one forced difference
		probes = append(probes, fmt.Sprintf("(%s, Some %s)", (&nfsx.Obs{Status: 1}).Coq(), (&nfsx.Obs{Status: 2}).Coq()))
	}
	for i := 0; i < len(res.probeA) && i < len(res.probeB); i++ {
		// the twin's reply is written out only when its rendering differs from the server's (None = identical term)
		a, b := stripHandles(res.probeA[i]).Coq(), stripHandles(res.probeB[i]).Coq()
		if a == b {
			probes = append(probes, fmt.Sprintf("(%s, None)", a))
		} else {
			probes = append(probes, fmt.Sprintf("(%s, Some %s)", a, b))
		}
		if stripHandles(res.probeA[i]).Text() != stripHandles(res.probeB[i]).Text() {
			txt = append(txt, fmt.Sprintf("probe %s: server %s | twin %s", res.probeTxt[i], res.probeA[i].Text(), res.probeB[i].Text()))
		}
	}
	var table, issued []string
	for _, t := range res.table {
		table = append(table, fmt.Sprintf("(%d, %s)", t.Handle, nfsx.CoqPath(t.Path)))
	}
	var ikeys [][2]string
	for k := range rc.issued {
		ikeys = append(ikeys, k)
	}
	sort.Slice(ikeys, func(i, j int) bool { return ikeys[i][0]+" "+ikeys[i][1] < ikeys[j][0]+" "+ikeys[j][1] })
	for _, k := range ikeys {
		issued = append(issued, fmt.Sprintf("(%s, %s)", k[0], nfsx.CoqPath(k[1])))
	}
	raceB, raceTxt := raceMark()
	if raceB == "true" {
		tags["race-report"] = 1
	}
	coq := fmt.Sprintf("{| k_mode := %d; k_cfg := %s; k_init := %s; k_paths := %s; k_ops := %s; k_final := %s; k_hist := %s; k_probe := %s; k_table := %s; k_issued := %s; k_acsize := %d; k_dcsize := %d; k_gor0 := %d; k_gor1 := %d; k_deadlock := %s; k_panic := %s; k_race := %s |}",
		mode, c.coq(), nfsx.CoqDump(res.init), CList(ptab), CList(ops), nfsx.CoqDump(res.final), CList(hist), CList(probes),
		CList(table), CList(issued), res.acSize, res.dcSize, res.gor0, res.gor1, CBool(res.deadlock), CBool(rc.panics.Load() > 0), raceB)
	tags["ops"] = len(rc.ops)
	tags["overlapping-pairs"] = res.overlaps
	tags["backend-mutations"] = res.mutations
	tags["injected-yields"] = int(res.n.yields.Load())
	tags["injected-sleeps"] = int(res.n.sleeps.Load())
	tags["probe-requests"] = len(res.probeA)
	tags["backend-states"] = len(rc.hist)
	if res.deadlock {
		tags["deadlock"] = 1
	}
	var fin []string
	for _, en := range res.final {
		fin = append(fin, en.String())
	}
	head := fmt.Sprintf("cfg: %s; clients=%d ops=%d overlapping-pairs=%d mutations=%d goroutines %d->%d acsize=%d dcsize=%d deadlock=%v",
		c.text(), tags["clients"], len(rc.ops), res.overlaps, res.mutations, res.gor0, res.gor1, res.acSize, res.dcSize, res.deadlock)
	// distinctness: the observed history (requests, replies, precedence), not the stamps themselves
	var key strings.Builder
	for i, op := range rc.ops {
		fmt.Fprintf(&key, "%d:%s=>%s;", op.cli, op.req.Text(), op.obs.Text())
		for j := range rc.ops[:i] {
			if rc.ops[j].resp < op.inv {
				fmt.Fprintf(&key, "<%d", j)
			}
		}
	}
	return Case{Index: idx, Kind: kind, Coq: coq, Tags: tags, Key: key.String(),
		Text: head + "\n" + strings.Join(txt, "\n") + "\nfinal: " + strings.Join(fin, " ") + raceTxt}
}

// ---------------------------------------------------------------------------------------------------------
// stream C29: distinct names per client, shared root handle (and sometimes a shared subdirectory), caches at
// minimal TTL (1 ns on the real clock, negative caching off, directory cache off)
// ---------------------------------------------------------------------------------------------------------

// schedulesPerHistory consecutive case indices share one generated history and differ in the schedule seed.
const schedulesPerHistory = 4

// globalSeed is the -seed flag of lib.Main (the history must be a function of the seed and of idx/schedulesPerHistory).
func globalSeed() uint64 {
	if f := flag.Lookup("seed"); f != nil {
		if v, err := strconv.ParseUint(f.Value.String(), 10, 64); err == nil {
			return v
		}
	}
	return 1
}

func genDistinct(r0 *Rand, idx int, tier string) Case {
	if why := skipCase(tier); why != "" {
		return stubCase(0, cfg29{AttrTTL: 1, NegTTL: 1, DirTTL: 1}, why, idx)
	}
	hist := uint64(idx / schedulesPerHistory)
	r := NewRand(globalSeed()^0xC29A, hist) // the history
	c := cfg29{AttrTTL: 1, NegTTL: 1, DirTTL: 1}
	k := 2 + r.Intn(3)
	shared := r.Chance(65)
	// one history in five aims at the window between a READ's backend read and its reply: every client owns a
	// file with data, READs of it make up almost half of the requests, the long stalls come right after ReadAt
	readWin := r.Chance(20)
	if readWin {
		c.ReadWindow = true
		k = 3 + r.Intn(2)
	}
	tags := map[string]int{"clients": k}
	kinds := []string{"CREATE", "MKDIR", "SYMLINK", "LOOKUP", "REMOVE", "RMDIR", "RENAME", "READDIR", "READDIRPLUS", "GETATTRDIR",
		"GETATTR", "ACCESS", "READ", "WRITE", "SETATTR", "READLINK", "COMMIT", "BOGUS"}
	weights := []int{16, 6, 3, 10, 9, 5, 8, 5, 3, 3, 7, 2, 9, 12, 5, 1, 1, 1}
	// the plan: per client its names, an optional file created during the sequential set-up, and its program
	type plan struct {
		own    []string
		sub    string
		uid    uint32
		preDir int // -1: none
	}
	plans := make([]plan, k)
	programs := make([][]act, k)
	for i := 0; i < k; i++ {
		pl := plan{sub: fmt.Sprintf("c%dd", i), uid: uint32(PickInt(r, 0, 0, 1000)), preDir: -1}
		for _, s := range []string{"a", "b", "c", "d"} {
			pl.own = append(pl.own, fmt.Sprintf("c%d%s", i, s))
		}
		sim := newSim()
		base := []dslot{{0, "/"}}
		if shared {
			base = append(base, dslot{1, "/sh"})
		}
		if r.Chance(45) || readWin {
			d := base[r.Intn(len(base))]
			pl.preDir = d.slot
			sim.kind[join(d.path, pl.own[0])], sim.known[join(d.path, pl.own[0])] = 'f', true
		}
		subParent := base[r.Intn(len(base))]
		n := 3 + r.Intn(6)
		for j := 0; j < n; j++ {
			dirs := base
			if sp := join(subParent.path, pl.sub); sim.kind[sp] == 'd' {
				dirs = append(append([]dslot{}, base...), dslot{2, sp}, dslot{2, sp})
			}
			a := genSensible(r, sim, dirs, pl.own[:3], pl.sub, subParent.slot, kinds, weights)
			if readWin && r.Chance(45) {
				a = act{kind: "READ", dir: pl.preDir, name: pl.own[0], off: PickU64(r, 0, 0, 1, 2), cnt: uint32(PickInt(r, 4, 16, 64))}
			}
			programs[i] = append(programs[i], a)
		}
		plans[i] = pl
	}
	setup := func(rc *runCtx) []*client {
		root := nfsx.Cred{}
		var rootH, shH uint64
		if o := rc.do(99, root, &nfsx.Req{Proc: "MNT", Name: []byte("/")}, nil, false); o.FH != nil {
			rootH = *o.FH
		}
		if shared {
			if o := rc.do(99, root, &nfsx.Req{Proc: "MKDIR", H: rootH, Name: []byte("sh")}, nil, false); o.FH != nil {
				shH = *o.FH
			}
		}
		var cls []*client
		for i, pl := range plans {
			cl := &client{id: i, rc: rc, cred: nfsx.Cred{Uid: pl.uid, Gid: 100}, objH: map[string]uint64{}, sub: pl.sub, own: pl.own}
			cl.dirH[0], cl.dirP[0], cl.dirK[0] = rootH, "/", true
			if shared && shH != 0 {
				cl.dirH[1], cl.dirP[1], cl.dirK[1] = shH, "/sh", true
			}
			if pl.preDir >= 0 {
				d := cl.dir(pl.preDir)
				nm := cl.own[0]
				if o := rc.do(99, cl.cred, &nfsx.Req{Proc: "CREATE", H: cl.dirH[d], Name: []byte(nm)}, nil, false); o.FH != nil {
					cl.objH[join(cl.dirP[d], nm)] = *o.FH
					// contents that identify the owner (a reply carrying another client's bytes must be visible)
					data := []byte(fmt.Sprintf("c%d:%s", i, strings.Repeat(string(rune('a'+i)), 13)))
					rc.do(99, cl.cred, &nfsx.Req{Proc: "WRITE", H: *o.FH, Off: 0, Cnt: uint32(len(data)), Stable: 2, Data: data}, nil, false)
				}
			}
			cls = append(cls, cl)
		}
		return cls
	}
	res := execute(c, r0.U64(), nil, setup, programs, false, nil)
	tags["shared-subdir"] = map[bool]int{false: 0, true: 1}[shared]
	if readWin {
		tags["read-window-noise"] = 1
		return res.toCase(0, c, "distinct-names, read-window noise", idx, tags)
	}
	return res.toCase(0, c, "distinct-names", idx, tags)
}

// ---------------------------------------------------------------------------------------------------------
// stream C29b: caches on (10 min on the real clock: nothing expires during a run), one writer mutating shared
// names while 1-3 readers LOOKUP / GETATTR / ACCESS / READDIR(PLUS) the same names
// ---------------------------------------------------------------------------------------------------------

func genCached(r0 *Rand, idx int, tier string) Case {
	if why := skipCase(tier); why != "" {
		return stubCase(1, cfg29{AttrTTL: 1, NegTTL: 1, DirTTL: 1}, why, idx)
	}
	hist := uint64(idx / schedulesPerHistory)
	r := NewRand(globalSeed()^0xC29B, hist)
	long := 10 * time.Minute
	c := cfg29{AttrTTL: long, NegTTL: long, DirTTL: long, NegOn: r.Chance(60), DirOn: r.Chance(60)}
	if r.Chance(30) {
		c.AttrCap = 2 + r.Intn(3) // entries are evicted all the time: invalidations often find nothing cached for the path
	}
	readers := 1 + r.Intn(3)
	tags := map[string]int{"clients": readers + 1}
	names := []string{"f0", "f1", "f2", "d0"}
	// the initial tree (built directly in the backend) and the writer's picture of it
	sim := newSim()
	sim.kind["/sh"] = 'd'
	type ifile struct{ path, data string }
	var files []ifile
	for _, f := range []ifile{{"/f0", "hello"}, {"/sh/f1", "0123456789"}, {"/sh/f0", "x"}, {"/f2", "abc"}} {
		if r.Bool() {
			files = append(files, f)
			sim.kind[f.path] = 'f'
		}
	}
	d0 := r.Bool()
	if d0 {
		sim.kind["/d0"] = 'd'
	}
	populate := func(fs *specfs.FS) {
		fs.Mkdir("/sh", 0755)
		for _, f := range files {
			h, err := fs.Create(f.path)
			if err != nil {
				continue
			}
			h.WriteAt([]byte(f.data), 0)
			h.Sync()
			h.Close()
			fs.Chmod(f.path, 0644)
		}
		if d0 {
			fs.Mkdir("/d0", 0700)
		}
	}
	wkinds := []string{"CREATE", "MKDIR", "REMOVE", "RMDIR", "RENAME", "WRITE", "SETATTR", "LOOKUP", "GETATTR"}
	wweights := []int{18, 6, 14, 5, 12, 14, 10, 6, 3}
	rkinds := []string{"LOOKUP", "GETATTR", "ACCESS", "READDIR", "READDIRPLUS", "GETATTRDIR"}
	rweights := []int{34, 22, 4, 14, 10, 4}
	base := []dslot{{0, "/"}, {1, "/sh"}}
	programs := make([][]act, readers+1)
	nwarm := 1 + r.Intn(4)
	var warm []act
	for j := 0; j < nwarm; j++ {
		warm = append(warm, genAct(r, rkinds, rweights, names, []int{0, 1}, ""))
	}
	for i := 0; i <= readers; i++ {
		n := 3 + r.Intn(6)
		for j := 0; j < n; j++ {
			if i == 0 {
				programs[i] = append(programs[i], genSensible(r, sim, base, names[:3], "d0", r.Intn(2), wkinds, wweights))
			} else {
				programs[i] = append(programs[i], genAct(r, rkinds, rweights, names, []int{0, 1}, ""))
			}
		}
	}
	setup := func(rc *runCtx) []*client {
		root := nfsx.Cred{}
		var rootH, shH uint64
		if o := rc.do(99, root, &nfsx.Req{Proc: "MNT", Name: []byte("/")}, nil, false); o.FH != nil {
			rootH = *o.FH
		}
		if o := rc.do(99, root, &nfsx.Req{Proc: "LOOKUP", H: rootH, Name: []byte("sh")}, nil, false); o.FH != nil {
			shH = *o.FH
		}
		var cls []*client
		for i := 0; i <= readers; i++ {
			cl := &client{id: i, rc: rc, cred: root, objH: map[string]uint64{}, sub: "d0"}
			cl.dirH[0], cl.dirP[0], cl.dirK[0] = rootH, "/", true
			cl.dirH[1], cl.dirP[1], cl.dirK[1] = shH, "/sh", shH != 0
			cls = append(cls, cl)
		}
		// warm the caches: a reader looks at some names before the concurrent phase
		for _, a := range warm {
			cls[1].exec(a)
		}
		return cls
	}
	res := execute(c, r0.U64(), populate, setup, programs, true, nil)
	tags["neg-cache-on"] = map[bool]int{false: 0, true: 1}[c.NegOn]
	tags["dir-cache-on"] = map[bool]int{false: 0, true: 1}[c.DirOn]
	return res.toCase(1, c, "caches-on", idx, tags)
}
