package main

import (
	. "verifharness/lib"
)

// simfs is the generator's static picture of the names one client works on (what exists, which handles the
// client will have learnt).  For the distinct-names stream it is exact as long as requests succeed as
// expected, because nobody else touches these names; it only steers the choice of requests.
type simfs struct {
	kind  map[string]byte // 'f' file, 'd' directory, 'l' symlink
	known map[string]bool // the client holds a handle issued for this path
}

func newSim() *simfs { return &simfs{kind: map[string]byte{}, known: map[string]bool{}} }

type dslot struct {
	slot int
	path string
}

func (s *simfs) hasChildren(p string) bool {
	for q := range s.kind {
		if len(q) > len(p)+1 && q[:len(p)+1] == p+"/" {
			return true
		}
	}
	return false
}

// genSensible picks a request that makes sense in the simulated state (80%) or a random one (20%: error paths),
// and updates the simulation assuming the sensible request succeeds.
func genSensible(r *Rand, s *simfs, dirs []dslot, names []string, sub string, subParent int, kinds []string, weights []int) act {
	slots := make([]int, len(dirs))
	for i, d := range dirs {
		slots[i] = d.slot
	}
	if r.Chance(20) {
		return genAct(r, kinds, weights, names, slots, sub)
	}
	d := dirs[r.Intn(len(dirs))]
	if r.Chance(9) {
		return act{kind: PickStr(r, "READDIR", "READDIRPLUS", "READDIR"), dir: d.slot}
	}
	nm := names[r.Intn(len(names))]
	p := join(d.path, nm)
	a := act{dir: d.slot, name: nm}
	switch s.kind[p] {
	case 0:
		switch x := r.Intn(100); {
		case x < 62:
			a.kind, a.how = "CREATE", uint32(r.Intn(2))
			if r.Chance(50) {
				a.mode = u32p(uint32(PickInt(r, 0644, 0600, 0755)))
			}
			s.kind[p], s.known[p] = 'f', true
		case x < 74 && sub != "" && d.slot == subParent:
			a.kind, a.name = "MKDIR", sub
			if s.kind[join(d.path, sub)] == 0 {
				s.kind[join(d.path, sub)], s.known[join(d.path, sub)] = 'd', true
			}
		case x < 80:
			a.kind, a.target = "SYMLINK", names[r.Intn(len(names))]
			s.kind[p], s.known[p] = 'l', true
		case x < 90:
			a.kind = "LOOKUP"
		default:
			// rename an existing object of this client onto the free name
			for _, d1 := range dirs {
				for _, n1 := range names {
					q := join(d1.path, n1)
					if k := s.kind[q]; k == 'f' || k == 'l' {
						a.kind, a.dir, a.name, a.dir2, a.name2 = "RENAME", d1.slot, n1, d.slot, nm
						s.kind[p], s.kind[q] = k, 0
						delete(s.known, p)
						return a
					}
				}
			}
			a.kind = "LOOKUP"
		}
	case 'f':
		if !s.known[p] {
			a.kind = "LOOKUP"
			s.known[p] = true
			return a
		}
		switch x := r.Intn(100); {
		case x < 30:
			a.kind, a.off, a.data = "WRITE", PickU64(r, 0, 0, 1, 4, 10), randData(r)
		case x < 50:
			a.kind, a.off, a.cnt = "READ", PickU64(r, 0, 0, 2, 7), uint32(PickInt(r, 4, 16, 64))
		case x < 60:
			a.kind = "GETATTR"
		case x < 70:
			a.kind = "SETATTR"
			if r.Bool() {
				a.mode = u32p(uint32(PickInt(r, 0600, 0644, 0444, 0755)))
			} else {
				a.size = u64p(PickU64(r, 0, 2, 6, 20))
			}
		case x < 84:
			a.kind = "REMOVE"
			s.kind[p] = 0
		case x < 94:
			d2 := dirs[r.Intn(len(dirs))]
			n2 := names[r.Intn(len(names))]
			q := join(d2.path, n2)
			a.kind, a.dir2, a.name2 = "RENAME", d2.slot, n2
			if k := s.kind[q]; k == 0 || k == 'f' || k == 'l' {
				if q != p {
					s.kind[q], s.kind[p] = 'f', 0
					delete(s.known, q)
				}
			}
		case x < 97:
			a.kind = "ACCESS"
		default:
			a.kind = "COMMIT"
		}
	case 'l':
		if !s.known[p] {
			a.kind = "LOOKUP"
			s.known[p] = true
			return a
		}
		switch x := r.Intn(100); {
		case x < 35:
			a.kind = "READLINK"
		case x < 55:
			a.kind = "GETATTR"
		case x < 80:
			a.kind = "REMOVE"
			s.kind[p] = 0
		default:
			a.kind = PickStr(r, "READ", "WRITE", "SETATTR")
			a.data, a.cnt, a.mode = randData(r), 8, u32p(0600)
		}
	case 'd':
		switch x := r.Intn(100); {
		case x < 40:
			a.kind = "LOOKUP"
		case x < 60 && !s.hasChildren(p):
			a.kind = "RMDIR"
			s.kind[p] = 0
		case x < 75:
			a.kind = "REMOVE" // REMOVE of a directory: the backend's Remove takes both
			if !s.hasChildren(p) {
				s.kind[p] = 0
			}
		default:
			a.kind = "GETATTR"
		}
	}
	return a
}
