package main

import (
	"fmt"

	"github.com/absfs/absnfs"
	. "verifharness/lib"
	"verifharness/nfsx"
)

func init() {
	Props["PROBE"] = &Prop{Gen: func(r *Rand, idx int, tier string) Case {
		for _, ts := range []int{1, 65536, 1 << 20, 1<<20 + 1, 1 << 31, 1 << 32, 1<<32 + 5, 1<<32 + 1<<20} {
			e, err := nfsx.NewEnv(absnfs.ExportOptions{TransferSize: ts}, 0)
			if err != nil {
				panic(err)
			}
			f, _ := e.FS.Create("/f")
			f.WriteAt(make([]byte, 100), 0)
			f.Close()
			e.FS.Mkdir("/d", 0755)
			e.FS.Mkdir("/d/a..b", 0755)
			e.FS.Mkdir("/d/ok", 0755)
			c := nfsx.Cred{}
			e.Do(c, &nfsx.Req{Proc: "MNT", Name: []byte("/")})
			o := e.Do(c, &nfsx.Req{Proc: "FSINFO", H: 1})
			fh := *e.Do(c, &nfsx.Req{Proc: "LOOKUP", H: 1, Name: []byte("f")}).FH
			_ = fh
			fmt.Fprintf(realStderr, "ts=%d fsinfo=%v\n", ts, o.Nums)
			for _, n := range []int{1, 5, 6, 1 << 20, 1<<20 + 1} {
				w := e.Do(c, &nfsx.Req{Proc: "WRITE", H: fh, Cnt: uint32(n), Data: make([]byte, n), Stable: 2})
				fmt.Fprintf(realStderr, "   write %d -> rpc=%d st=%d nums=%v\n", n, w.RPC, w.Status, w.Nums)
			}
			d := *e.Do(c, &nfsx.Req{Proc: "LOOKUP", H: 1, Name: []byte("d")}).FH
			rd := e.Do(c, &nfsx.Req{Proc: "READDIR", H: d, Cnt: 4096})
			fmt.Fprintf(realStderr, "   readdir /d: %s\n", rd.Text())
			lk := e.Do(c, &nfsx.Req{Proc: "LOOKUP", H: d, Name: []byte("a..b")})
			fmt.Fprintf(realStderr, "   lookup a..b: %s\n", lk.Text())
			mk := e.Do(c, &nfsx.Req{Proc: "MKDIR", H: d, Name: []byte("x..y")})
			fmt.Fprintf(realStderr, "   mkdir x..y: %s\n", mk.Text())
			rd = e.Do(c, &nfsx.Req{Proc: "READDIRPLUS", H: d, Cnt: 4096, Max: 4096})
			fmt.Fprintf(realStderr, "   readdirplus /d: %s\n", rd.Text())
			e.Close()
		}
		return Case{Coq: "0"}
	}}
}
