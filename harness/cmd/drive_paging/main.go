// drive_paging: FSINFO limits versus READ/WRITE behaviour (C23) through the procedure handlers and over real
// loopback TCP connections with record marking; dot-dot names in directory listings (C26x).
package main

import (
	"os"

	"verifharness/lib"
)

func main() {
	// absnfs logs operational lines through log.New(os.Stderr, ...) created when a server object is built
	realStderr = os.Stderr
	if f, err := os.OpenFile(os.DevNull, os.O_WRONLY, 0); err == nil {
		os.Stderr = f
	}
	lib.Main()
}

var realStderr *os.File
