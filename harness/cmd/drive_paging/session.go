package main

// A trimmed copy of drive_nfs's Session (request histories through nfsx.Env rendered as Corr.SrvCase cases), so that
// this driver can feed Corr/C26x.v without touching drive_nfs.

import (
	"fmt"
	"strings"
	"time"

	"github.com/absfs/absnfs"

	. "verifharness/lib"
	"verifharness/nfsx"
	"verifharness/specfs"
)

const srvImports = "From Verif Require Import Model.Handles Model.Backend Model.Srv Corr.SrvCase "

// Cfg mirrors Srv.cfg.
type Cfg struct {
	Tsize                       int
	RO                          bool
	MaxFile                     int64
	AttrTTL                     time.Duration
	AttrCap                     int
	NegOn                       bool
	NegTTL                      time.Duration
	DirOn                       bool
	DirTTL                      time.Duration
	DirCap, DirMaxSize, MaxHand int
}

func (c Cfg) Opts() absnfs.ExportOptions {
	return absnfs.ExportOptions{ReadOnly: c.RO, MaxFileSize: c.MaxFile, TransferSize: c.Tsize,
		AttrCacheTimeout: c.AttrTTL, AttrCacheSize: c.AttrCap, CacheNegativeLookups: c.NegOn, NegativeCacheTimeout: c.NegTTL,
		EnableDirCache: c.DirOn, DirCacheTimeout: c.DirTTL, DirCacheMaxEntries: c.DirCap, DirCacheMaxDirSize: c.DirMaxSize,
		Squash: "none"}
}
func (c Cfg) Coq() string {
	return fmt.Sprintf("{| tsize := %d; ro := %s; maxfile := %d; attr_ttl := %d; attr_cap := %d; neg_on := %s; neg_ttl := %d; dir_on := %s; dir_ttl := %d; dir_cap := %d; dir_maxsize := %d |}",
		c.Tsize, CBool(c.RO), c.MaxFile, c.AttrTTL.Nanoseconds(), c.AttrCap, CBool(c.NegOn), c.NegTTL.Nanoseconds(),
		CBool(c.DirOn), c.DirTTL.Nanoseconds(), c.DirCap, c.DirMaxSize)
}
func (c Cfg) Text() string {
	return fmt.Sprintf("tsize=%d attr=%v/%d neg=%v/%v dir=%v/%v/%d/%d", c.Tsize, c.AttrTTL, c.AttrCap,
		c.NegOn, c.NegTTL, c.DirOn, c.DirTTL, c.DirCap, c.DirMaxSize)
}

func genCfg(r *Rand) Cfg {
	return Cfg{
		Tsize:   PickInt(r, 16, 64, 65536, 65536),
		AttrTTL: []time.Duration{1, 50 * time.Millisecond, 5 * time.Second, 5 * time.Second}[r.Intn(4)],
		AttrCap: PickInt(r, 1, 3, 10000, 10000),
		NegOn:   r.Bool(), NegTTL: []time.Duration{1, 50 * time.Millisecond, 5 * time.Second}[r.Intn(3)],
		DirOn: r.Bool(), DirTTL: []time.Duration{1, 50 * time.Millisecond, 10 * time.Second}[r.Intn(3)],
		DirCap: PickInt(r, 1, 2, 1000), DirMaxSize: PickInt(r, 2, 10000, 10000),
	}
}

type Step struct {
	AdvNs int64
	Cred  nfsx.Cred
	Req   *nfsx.Req
	Obs   *nfsx.Obs
	Calls []specfs.Call
	NH    int
	Dump  []specfs.Entry
}

func (s *Step) Coq() string {
	var raw []string
	for _, c := range s.Calls {
		raw = append(raw, CBytes([]byte(c.Path)))
		if c.Op == "Rename" {
			raw = append(raw, CBytes([]byte(c.Path2)))
		}
	}
	return fmt.Sprintf("{| i_step := {| hs_adv := %d; hs_cred := %s; hs_req := %s |}; i_rpc := %d; i_obs := %s; i_calls := %s; i_raw := %s; i_nh := %d; i_reslen := %d; i_dump := %s; i_obs2 := None; i_crash := []; i_verf := None |}",
		s.AdvNs, nfsx.CoqCred(s.Cred), s.Req.Coq(), s.Obs.RPC, s.Obs.Coq(), nfsx.CoqCalls(s.Calls), CList(raw), s.NH, len(s.Obs.Raw), nfsx.CoqDump(s.Dump))
}
func (s *Step) Text() string {
	adv := ""
	if s.AdvNs != 0 {
		adv = fmt.Sprintf("+%v ", time.Duration(s.AdvNs))
	}
	return fmt.Sprintf("%s%s => %s (result %d bytes)", adv, s.Req.Text(), s.Obs.Text(), len(s.Obs.Raw))
}

type Session struct {
	Cfg   Cfg
	Env   *nfsx.Env
	Init  []specfs.Entry
	Steps []*Step
	Tags  map[string]int
}

func NewSession(c Cfg, populate func(fs *specfs.FS)) *Session {
	env, err := nfsx.NewEnv(c.Opts(), c.MaxHand)
	if err != nil {
		panic(err)
	}
	if populate != nil {
		populate(env.FS)
		env.FS.TakeLog()
	}
	return &Session{Cfg: c, Env: env, Init: env.FS.Dump(false), Tags: map[string]int{}}
}

func (s *Session) Do(advNs int64, c nfsx.Cred, r *nfsx.Req) *Step {
	if advNs != 0 {
		absnfs.VerifAdvanceClock(advNs)
	}
	s.Env.FS.TakeLog()
	o := s.Env.Do(c, r)
	st := &Step{AdvNs: advNs, Cred: c, Req: r, Obs: o, Calls: s.Env.FS.TakeLog(), NH: s.Env.NFS.VerifFileMap().Count(), Dump: s.Env.FS.Dump(false)}
	s.Steps = append(s.Steps, st)
	s.Tags["op:"+r.Proc]++
	s.Tags[fmt.Sprintf("status:%d", o.Status)]++
	if o.RPC != 0 {
		s.Tags[fmt.Sprintf("rpc:%d", o.RPC)]++
	}
	return st
}

func (s *Session) Case(kind string, idx int) Case {
	steps := make([]string, len(s.Steps))
	txt := make([]string, len(s.Steps))
	for i, st := range s.Steps {
		steps[i] = st.Coq()
		txt[i] = fmt.Sprintf("%d: %s", i, st.Text())
	}
	s.Tags["steps"] = len(s.Steps)
	coq := fmt.Sprintf("{| c_cfg := %s; c_maxh := %s; c_init := %s; c_steps := %s |}", s.Cfg.Coq(), CZ(int64(s.Cfg.MaxHand)), nfsx.CoqDump(s.Init), CList(steps))
	s.Env.Close()
	return Case{Index: idx, Kind: kind, Coq: coq, Tags: s.Tags, Text: "cfg: " + s.Cfg.Text() + "\n" + strings.Join(txt, "\n")}
}

func pickAdv(r *Rand) int64 {
	switch r.Intn(12) {
	case 0:
		return 1
	case 1:
		return int64(time.Millisecond)
	case 2:
		return int64(60 * time.Millisecond)
	case 3:
		return int64(6 * time.Second)
	case 4:
		return int64(11 * time.Second)
	}
	return 0
}
