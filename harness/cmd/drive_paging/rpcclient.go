package main

import (
	"bytes"
	"encoding/binary"
	"fmt"
	"io"
	"net"
	"time"
)

// (copied from drive_config/rpcclient.go)
// A conformant ONC RPC client over TCP (RFC 1831 section 10 record marking), written against the RFCs only:
// it shares no code with /repo.

type rpcClient struct {
	conn    net.Conn
	xid     uint32
	timeout time.Duration
	authSys bool // AUTH_SYS (uid 0, gid 0) instead of AUTH_NONE
	lastLen int  // length of the last call record sent (payload: without the record marks)
	frag    int  // > 0: split the next calls into fragments of this many bytes (RFC 5531 section 11)
	empties int  // with frag > 0: this many empty non-final fragments are interleaved
	lastN   int  // number of fragments of the last call record sent
}

const (
	progMount = 100005
	progNFS   = 100003
)

func be32(x uint32) []byte { b := make([]byte, 4); binary.BigEndian.PutUint32(b, x); return b }
func be64(x uint64) []byte { b := make([]byte, 8); binary.BigEndian.PutUint64(b, x); return b }
func xdrOpaque(p []byte) []byte {
	out := append(be32(uint32(len(p))), p...)
	for len(out)%4 != 0 {
		out = append(out, 0)
	}
	return out
}

func (c *rpcClient) callMsg(xid, prog, vers, proc uint32, args []byte) []byte {
	var b bytes.Buffer
	b.Write(be32(xid))
	b.Write(be32(0)) // CALL
	b.Write(be32(2)) // RPC version
	b.Write(be32(prog))
	b.Write(be32(vers))
	b.Write(be32(proc))
	if c.authSys {
		var cred bytes.Buffer
		cred.Write(be32(0))                 // stamp
		cred.Write(xdrOpaque([]byte("vh"))) // machine name
		cred.Write(be32(0))                 // uid
		cred.Write(be32(0))                 // gid
		cred.Write(be32(0))                 // no auxiliary gids
		b.Write(be32(1))                    // AUTH_SYS
		b.Write(xdrOpaque(cred.Bytes()))
	} else {
		b.Write(be32(0)) // AUTH_NONE
		b.Write(be32(0))
	}
	b.Write(be32(0)) // verifier AUTH_NONE
	b.Write(be32(0))
	b.Write(args)
	return b.Bytes()
}

// call sends one record-marked call (single last fragment) and returns the raw bytes of the reply as they came off
// the socket: every fragment header and fragment body up to and including the last fragment.
func (c *rpcClient) call(prog, vers, proc uint32, args []byte) (xid uint32, raw []byte, err error) {
	c.xid++
	xid = c.xid
	msg := c.callMsg(xid, prog, vers, proc, args)
	c.lastLen = len(msg)
	c.conn.SetDeadline(time.Now().Add(c.timeout))
	var frame []byte
	c.lastN = 1
	if c.frag <= 0 || len(msg) == 0 {
		frame = append(be32(0x80000000|uint32(len(msg))), msg...)
	} else {
		n := (len(msg) + c.frag - 1) / c.frag
		frame = make([]byte, 0, len(msg)+4*(n+c.empties))
		c.lastN = n + c.empties
		for i := 0; i < n; i++ {
			// empty non-final fragments: in front, and after the first and the middle data fragment
			if c.empties > 0 && i == 0 {
				frame = append(frame, be32(0)...)
			}
			lo, hi := i*c.frag, (i+1)*c.frag
			if hi > len(msg) {
				hi = len(msg)
			}
			h := uint32(hi - lo)
			if i == n-1 {
				h |= 0x80000000
			}
			frame = append(frame, be32(h)...)
			frame = append(frame, msg[lo:hi]...)
			if i < n-1 {
				for k := 1; k < c.empties; k++ {
					if i == (k-1)*(n-1)/c.empties {
						frame = append(frame, be32(0)...)
					}
				}
			}
		}
		// make the count exact whatever the placement above did
		c.lastN = 0
		for off := 0; off < len(frame); {
			l := int(binary.BigEndian.Uint32(frame[off:]) & 0x7fffffff)
			off += 4 + l
			c.lastN++
		}
	}
	if _, err = c.conn.Write(frame); err != nil {
		return xid, nil, err
	}
	for {
		hdr := make([]byte, 4)
		if _, err = io.ReadFull(c.conn, hdr); err != nil {
			return xid, raw, err
		}
		raw = append(raw, hdr...)
		h := binary.BigEndian.Uint32(hdr)
		n := h & 0x7fffffff
		if n > 1<<22 {
			return xid, raw, fmt.Errorf("fragment of %d bytes", n)
		}
		body := make([]byte, n)
		if _, err = io.ReadFull(c.conn, body); err != nil {
			return xid, append(raw, body...), err
		}
		raw = append(raw, body...)
		if h&0x80000000 != 0 {
			return xid, raw, nil
		}
	}
}

// payload strips the record marks of a reply received by call.
func payload(raw []byte) []byte {
	var out []byte
	for len(raw) >= 4 {
		h := binary.BigEndian.Uint32(raw)
		n := int(h & 0x7fffffff)
		raw = raw[4:]
		if n > len(raw) {
			n = len(raw)
		}
		out = append(out, raw[:n]...)
		raw = raw[n:]
	}
	return out
}

// acceptedResult returns the procedure results of an accepted, successful reply with the expected xid;
// denied = the reply is MSG_DENIED.
func acceptedResult(raw []byte, xid uint32) (res []byte, denied bool, err error) {
	p := payload(raw)
	if len(p) < 12 {
		return nil, false, fmt.Errorf("short reply (%d bytes)", len(p))
	}
	if binary.BigEndian.Uint32(p) != xid || binary.BigEndian.Uint32(p[4:]) != 1 {
		return nil, false, fmt.Errorf("xid/msg type mismatch")
	}
	if binary.BigEndian.Uint32(p[8:]) == 1 {
		return nil, true, nil
	}
	if binary.BigEndian.Uint32(p[8:]) != 0 || len(p) < 24 {
		return nil, false, fmt.Errorf("bad reply_stat")
	}
	vl := int(binary.BigEndian.Uint32(p[16:]))
	off := 20 + (vl+3)/4*4
	if len(p) < off+4 {
		return nil, false, fmt.Errorf("short reply")
	}
	if st := binary.BigEndian.Uint32(p[off:]); st != 0 {
		return nil, false, fmt.Errorf("accept_stat %d", st)
	}
	return p[off+4:], false, nil
}

func dialRPC(addr string, timeout time.Duration, authSys bool) (*rpcClient, error) {
	conn, err := net.DialTimeout("tcp", addr, timeout)
	if err != nil {
		return nil, err
	}
	return &rpcClient{conn: conn, xid: 0x5EED0000, timeout: timeout, authSys: authSys}, nil
}

func fhArg(fh []byte) []byte { return xdrOpaque(fh) }

// mnt performs MOUNT3 MNT and returns the file handle.
func (c *rpcClient) mnt(path string) ([]byte, error) {
	xid, raw, err := c.call(progMount, 3, 1, xdrOpaque([]byte(path)))
	if err != nil {
		return nil, err
	}
	res, denied, err := acceptedResult(raw, xid)
	if err != nil || denied {
		return nil, fmt.Errorf("MNT: denied=%v err=%v", denied, err)
	}
	if len(res) < 8 || binary.BigEndian.Uint32(res) != 0 {
		return nil, fmt.Errorf("MNT status")
	}
	n := int(binary.BigEndian.Uint32(res[4:]))
	if n > 64 || len(res) < 8+n {
		return nil, fmt.Errorf("MNT handle length %d", n)
	}
	return res[8 : 8+n], nil
}

// nfsStatus runs one NFS procedure and classifies the outcome: the nfsstat3 of an accepted reply,
// 1001 for MSG_DENIED, 999 for no / unusable reply.  The result body after the status is returned too.
func (c *rpcClient) nfsStatus(proc uint32, args []byte) (uint64, []byte) {
	xid, raw, err := c.call(progNFS, 3, proc, args)
	if err != nil {
		return 999, nil
	}
	res, denied, err := acceptedResult(raw, xid)
	if denied {
		return 1001, nil
	}
	if err != nil || len(res) < 4 {
		return 999, nil
	}
	return uint64(binary.BigEndian.Uint32(res)), res[4:]
}
