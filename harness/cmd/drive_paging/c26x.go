package main

import (
	"fmt"
	"sort"
	"strings"

	. "verifharness/lib"
	"verifharness/nfsx"
	"verifharness/specfs"
)

// C26x: the second C26 stream. Same case format and oracle as drive_nfs's C26 (Corr/C26.v) plus the exact encoded
// length (Corr/C26x.v); directories with the names that stream never generates.
func init() {
	Props["C26x"] = &Prop{Imports: srvImports + "Corr.C26x.", Gen: genC26x, Corpus: corpusC26x, ShardSize: 6,
		NonTrivial: func(c *Case) bool { return c.Tags["multi-page-traversals"] > 0 && c.Tags["odd-names"] > 0 }}
}

// names a POSIX backend may hold and the server accepts (no '/', no '\\', no NUL, not "." / "..")
var oddDirNames = []string{"a..b", "..a", "a..", "...", "....", ".hidden", "x.", " ", "a b", "\xc3\xa9t\xc3\xa9", "\xff\xfe", "~", "-", "..,", "a...b..c",
	"nul\x01", "tab\there", "quote\"q", "semi;colon", "star*", "q?", "#", "%2e%2e", "CON", "a:b"}

func runC26x(r *Rand, idx int, kind string, parent string, names []string, limits []int, mutate bool) Case {
	cfg := genCfg(r)
	pop := func(fs *specfs.FS) {
		fs.Mkdir("/"+parent, 0755)
		for i, n := range names {
			switch i % 3 {
			case 0:
				f, _ := fs.Create("/" + parent + "/" + n)
				f.Close()
			case 1:
				fs.Mkdir("/"+parent+"/"+n, 0755)
			case 2:
				fs.Symlink("x", "/"+parent+"/"+n)
			}
		}
	}
	s := NewSession(cfg, pop)
	root := nfsx.Cred{}
	s.Do(0, root, &nfsx.Req{Proc: "MNT", Name: []byte("/")})
	st := s.Do(0, root, &nfsx.Req{Proc: "LOOKUP", H: 1, Name: []byte(parent)})
	if st.Obs.FH == nil {
		return s.Case("setup-failed", idx)
	}
	d := *st.Obs.FH
	for _, n := range names {
		if strings.Contains(n, "..") || strings.HasPrefix(n, ".") || strings.HasSuffix(n, ".") {
			s.Tags["odd-names"]++
		} else if len(n) > 0 && (n[0] >= 0x80 || n[0] < 0x30) {
			s.Tags["odd-names"]++
		}
		s.Tags[fmt.Sprintf("len%%4=%d", len(n)%4)]++
	}
	if strings.Contains(parent, "..") {
		s.Tags["parent-has-dotdot"]++
	}
	for t, lim := range limits {
		plus := (t+idx)%2 == 0
		limit := uint32(lim)
		cookie := uint64(0)
		pages := 0
		for guard := 0; guard < 300; guard++ {
			q := &nfsx.Req{Proc: "READDIR", H: d, Cookie: cookie, Cnt: limit}
			if plus {
				q = &nfsx.Req{Proc: "READDIRPLUS", H: d, Cookie: cookie, Cnt: 4096, Max: limit}
			}
			o := s.Do(pickAdv(r), root, q).Obs
			pages++
			if o.RPC != 0 || o.Status != 0 || o.EOF || len(o.Entries) == 0 {
				break
			}
			cookie = o.Entries[len(o.Entries)-1].Cookie
		}
		if pages > 1 {
			s.Tags["multi-page-traversals"]++
		}
		s.Tags["traversals"]++
		if mutate && t == 0 {
			// an entry created through the server with an odd name, between traversals
			s.Do(0, root, &nfsx.Req{Proc: PickStr(r, "MKDIR", "CREATE"), H: d, Name: []byte(PickStr(r, "new..name", "z..", "..z", "....."))})
		}
	}
	return s.Case(kind, idx)
}

func oddName(r *Rand, i int) string {
	if r.Chance(55) {
		return fmt.Sprintf("%s%d", oddDirNames[r.Intn(len(oddDirNames))], i)
	}
	l := PickInt(r, 1, 2, 3, 4, 5, 6, 7, 8, 9, 10, 11, 12)
	if r.Chance(12) {
		l = PickInt(r, 61, 62, 63, 64, 65, 252, 253, 254, 255)
	}
	base := fmt.Sprintf("%d", i)
	if l < len(base) {
		l = len(base)
	}
	fill := PickStr(r, ".", "a", "-", " ", "\xc3")
	return base + strings.Repeat(fill, l-len(base))
}

func genC26x(r *Rand, idx int, tier string) Case {
	nent := PickInt(r, 1, 2, 3, 3, 5, 5, 8, 13)
	var names []string
	for i := 0; i < nent; i++ {
		names = append(names, oddName(r, i))
	}
	parent := PickStr(r, "d", "d", "d..d", "..d", "d..", ".d")
	var limits []int
	tight := 0
	for t := 0; t < 2+r.Intn(2); t++ {
		lim := PickInt(r, 160, 236, 240, 244, 300, 400, 512, 1000, 4096, 32768, 100+r.Intn(1200))
		if nent <= 5 { // one entry per page: only for small directories (every step carries the tree)
			lim = PickInt(r, 0, 50, 107, 108, 109, 131, 132, 135, 136, 140, lim, lim)
		}
		if r.Chance(50) && nent >= 2 {
			// a limit at (or 1..4 bytes off) the exact encoded size of the first k entries, in the flavour this traversal uses
			plus := (t+idx)%2 == 0
			k := 2 + r.Intn(nent-1)
			exact := 100 + 8
			sorted := append([]string{}, names...)
			sort.Strings(sorted)
			for _, n := range sorted[:k] {
				exact += 24 + (len(n)+3)&^3
				if plus {
					exact += 104
				}
			}
			lim = exact + PickInt(r, 0, 0, -1, -3, -4, 1, 3, 4)
			tight++
		}
		limits = append(limits, lim)
	}
	defer func() { _ = tight }()
	return runC26x(r, idx, fmt.Sprintf("odd-names-%d", nent), parent, names, limits, r.Chance(40))
}

func corpusC26x() []Case {
	// the dot-dot defect fixed by e46ca73: children named with ".." were never listed, and nothing was listed inside a
	// directory whose own name contains ".."
	return []Case{
		runC26x(NewRand(7, 1), 0, "dotdot-children", "d", []string{"ok", "a..b", "x..y", "..."}, []int{4096, 136, 300}, true),
		runC26x(NewRand(7, 2), 1, "dotdot-parent", "p..q", []string{"one", "two", "three"}, []int{4096, 140}, false),
	}
}
