package main

import (
	"encoding/binary"
	"fmt"
	"sort"
	"strings"
	"time"

	"github.com/absfs/absnfs"

	. "verifharness/lib"
	"verifharness/nfsx"
	"verifharness/specfs"
)

// C23: FSINFO numbers and READ / WRITE probes for one TransferSize per case, through the procedure handlers and
// over loopback TCP with record marking (server started with NewServer+Listen or Export).
func init() {
	Props["C23"] = &Prop{
		Imports:   "From Verif Require Import Gen.Facts Model.Fsinfo32 Corr.C23.",
		Gen:       genC23,
		Corpus:    corpusC23,
		ShardSize: 40,
		NonTrivial: func(c *Case) bool {
			return c.Tags["write-at-wtmax-ok"] > 0 && (c.Tags["write-refused-inval"] > 0 || c.Tags["read-clamped"] > 0 || c.Tags["tcp-dropped"] > 0)
		},
	}
}

const c23FileSize = 3_000_000
const c23MaxProbe = 2<<20 + 8 // no probe payload above 2 MiB + 8

type probeGo struct {
	kind           string // READ / WRITE
	tcp            bool
	cnt            uint32
	off            uint64
	size, size2    uint64
	reclen         int
	rpc, status    uint32
	count          uint64
	alive          bool
	old            bool // on a connection accepted before the last runtime change of TransferSize
	frag, nfrag    int  // fragment size used for the call record (0 = one fragment), number of fragments sent
}

func (p probeGo) coq() string {
	k := "PRead"
	if p.kind == "WRITE" {
		k = "PWrite"
	}
	return fmt.Sprintf("(mkProbe %s %s %d %d %d %d %d %d %d %d %s %s %d %d)", k, CBool(p.tcp), p.cnt, p.off, p.size, p.reclen, p.rpc, p.status, p.count, p.size2, CBool(p.alive), CBool(p.old), p.frag, p.nfrag)
}
func (p probeGo) text() string {
	via := "handler"
	if p.tcp {
		fr := ""
		if p.frag > 0 {
			fr = fmt.Sprintf(" in %d fragments of <= %d bytes", p.nfrag, p.frag)
		}
		via = fmt.Sprintf("tcp(record %d%s)", p.reclen, fr)
		if p.old {
			via = fmt.Sprintf("tcp-old-conn(record %d%s)", p.reclen, fr)
		}
	}
	return fmt.Sprintf("%s %s cnt=%d off=%d size=%d => rpc=%d status=%d count=%d size'=%d alive=%v", via, p.kind, p.cnt, p.off, p.size, p.rpc, p.status, p.count, p.size2, p.alive)
}

// parseFsinfo reads the numeric fields of an FSINFO3resok: the six transfer sizes, dtpref, maxfilesize, time_delta.
func parseFsinfo(raw []byte) (nums, all []uint64, ok bool) {
	if len(raw) < 8 || binary.BigEndian.Uint32(raw) != 0 {
		return nil, nil, false
	}
	b := raw[4:]
	follows := binary.BigEndian.Uint32(b)
	b = b[4:]
	if follows != 0 {
		if len(b) < 84 {
			return nil, nil, false
		}
		b = b[84:]
	}
	if len(b) != 7*4+8+2*4+4 {
		return nil, nil, false
	}
	for i := 0; i < 7; i++ {
		all = append(all, uint64(binary.BigEndian.Uint32(b[4*i:])))
	}
	all = append(all, binary.BigEndian.Uint64(b[28:]))
	all = append(all, uint64(binary.BigEndian.Uint32(b[36:])), uint64(binary.BigEndian.Uint32(b[40:])))
	return all[:6], all, true
}

func payload23(n uint32) []byte {
	d := make([]byte, n) // zeros are free in specfs's sparse store; mark both ends
	if n > 0 {
		d[0] = 0xA5
		d[n-1] = 0x5A
	}
	return d
}

func fileSize(fs *specfs.FS) uint64 {
	fi, err := fs.Stat("/f")
	if err != nil {
		return 0
	}
	fs.TakeLog()
	return uint64(fi.Size())
}

func dedupe(xs []uint64) []uint32 {
	seen := map[uint64]bool{}
	var out []uint32
	for _, x := range xs {
		if x > c23MaxProbe || seen[x] {
			continue
		}
		seen[x] = true
		out = append(out, uint32(x))
	}
	return out
}

type c23In struct {
	ts      int  // TransferSize in force
	ts0     int  // value at construction when runtime
	runtime bool
	tcp     bool
	export  bool // TCP server through AbsfsNFS.Export instead of NewServer+Listen
	seed    uint64
	seq     []int // further TransferSize values set at runtime while a TCP connection stays open
}

func runC23(in c23In, kind string, idx int) Case {
	r := NewRand(in.seed, 23)
	tags := map[string]int{}
	ts := uint64(in.ts)
	opts := absnfs.ExportOptions{TransferSize: in.ts, Squash: "none"}
	if in.runtime {
		opts.TransferSize = in.ts0
		tags["set-at-runtime"]++
	} else {
		tags["set-at-construction"]++
	}
	switch {
	case ts >= 1<<32:
		tags["ts>=2^32"]++
	case ts > 1044480:
		tags["ts>cap"]++
	case ts >= 65536:
		tags["ts 64Ki..cap"]++
	default:
		tags["ts<64Ki"]++
	}
	var txt []string
	txt = append(txt, fmt.Sprintf("TransferSize=%d runtime=%v (constructed with %d) tcp=%v export=%v", in.ts, in.runtime, opts.TransferSize, in.tcp, in.export))

	// ---------- through the procedure handlers ----------
	env, err := nfsx.NewEnv(opts, 0)
	if err != nil {
		panic(err)
	}
	f, _ := env.FS.Create("/f")
	f.Close()
	env.FS.Truncate("/f", c23FileSize)
	env.FS.TakeLog()
	if in.runtime {
		env.NFS.UpdateTuningOptions(func(t *absnfs.TuningOptions) { t.TransferSize = in.ts })
	}
	cred := nfsx.Cred{}
	env.Do(cred, &nfsx.Req{Proc: "MNT", Name: []byte("/")})
	lk := env.Do(cred, &nfsx.Req{Proc: "LOOKUP", H: 1, Name: []byte("f")})
	if lk.FH == nil {
		panic("C23: LOOKUP f failed")
	}
	fh := *lk.FH
	fi := env.Do(cred, &nfsx.Req{Proc: "FSINFO", H: 1})
	nums, all, ok := parseFsinfo(fi.Raw)
	if !ok {
		nums, all = []uint64{}, []uint64{}
		tags["fsinfo-unparsable"]++
	}
	txt = append(txt, fmt.Sprintf("FSINFO (handler): %v", all))
	var rtmax, wtmax, wtpref uint64
	if len(nums) == 6 {
		rtmax, wtmax, wtpref = nums[0], nums[3], nums[4]
	}
	if wtmax == 0 {
		tags["advertises-0"]++
	}
	wcounts := dedupe([]uint64{0, 1, wtpref, wtmax - 1, wtmax, wtmax + 1, ts, ts + 1, ts - 1, 65536, 65537, 1048576, 1048577,
		1 + uint64(r.Intn(int(wtmax)+1)), wtmax + 2 + uint64(r.Intn(5000)), ts + 2 + uint64(r.Intn(100))})
	rcounts := dedupe([]uint64{0, 1, nums0(nums, 1), rtmax - 1, rtmax, rtmax + 1, ts, ts + 1, 1 + uint64(r.Intn(int(rtmax)+1)),
		rtmax + 2 + uint64(r.Intn(5000)), 2 << 20})
	sort.Slice(wcounts, func(i, j int) bool { return wcounts[i] < wcounts[j] })
	sort.Slice(rcounts, func(i, j int) bool { return rcounts[i] < rcounts[j] })
	var probes []probeGo
	classify := func(p probeGo) {
		switch {
		case p.rpc == 999:
			tags["tcp-dropped"]++
		case p.kind == "WRITE" && p.status == 0:
			tags["write-ok"]++
			if uint64(p.cnt) == wtmax && wtmax > 0 {
				tags["write-at-wtmax-ok"]++
			}
			if uint64(p.cnt) > wtmax {
				tags["write-above-wtmax-accepted"]++
			}
		case p.kind == "WRITE" && p.status == 22:
			tags["write-refused-inval"]++
		case p.kind == "READ" && p.status == 0:
			tags["read-ok"]++
			if p.count < uint64(p.cnt) && p.off+uint64(p.cnt) <= p.size {
				tags["read-clamped"]++
			}
			if uint64(p.cnt) == rtmax && rtmax > 0 && p.count == rtmax {
				tags["read-at-rtmax-full"]++
			}
		default:
			tags[fmt.Sprintf("other:%s:rpc%d:st%d", p.kind, p.rpc, p.status)]++
		}
		if p.tcp {
			tags["tcp-probes"]++
		} else {
			tags["handler-probes"]++
		}
	}
	for _, c := range wcounts {
		off := PickU64(r, 0, 0, 7, 4096)
		p := probeGo{kind: "WRITE", cnt: c, off: off, size: fileSize(env.FS), alive: true}
		o := env.Do(cred, &nfsx.Req{Proc: "WRITE", H: fh, Off: off, Cnt: c, Stable: 2, Data: payload23(c)})
		p.rpc, p.status = o.RPC, o.Status
		if o.RPC == 0 && o.Trail != 0 {
			p.rpc = 4001
		}
		if len(o.Nums) > 0 {
			p.count = o.Nums[0]
		}
		p.size2 = fileSize(env.FS)
		probes = append(probes, p)
		classify(p)
	}
	for _, c := range rcounts {
		sz := fileSize(env.FS)
		off := PickU64(r, 0, 5, sz-1, sz-uint64(c)/2, sz)
		p := probeGo{kind: "READ", cnt: c, off: off, size: sz, alive: true}
		o := env.Do(cred, &nfsx.Req{Proc: "READ", H: fh, Off: off, Cnt: c})
		p.rpc, p.status = o.RPC, o.Status
		if o.RPC == 0 && (o.Trail != 0 || (len(o.Nums) > 0 && uint64(len(o.Bytes)) != o.Nums[0])) {
			p.rpc = 4001
		}
		if len(o.Nums) > 0 {
			p.count = o.Nums[0]
		}
		p.size2 = fileSize(env.FS)
		probes = append(probes, p)
		classify(p)
	}
	env.Close()

	// ---------- over loopback TCP with record marking ----------
	var tcpNums []uint64
	var phases []phaseGo
	if in.tcp {
		ps, tn, phs, ttxt := tcpC23(in, opts, r, tags)
		tcpNums, phases = tn, phs
		txt = append(txt, ttxt...)
		for _, p := range ps {
			probes = append(probes, p)
			classify(p)
		}
	}
	pc := make([]string, len(probes))
	for i, p := range probes {
		pc[i] = p.coq()
		txt = append(txt, fmt.Sprintf("%d: %s", i+1, p.text()))
	}
	phc := make([]string, len(phases))
	for k, ph := range phases {
		txt = append(txt, fmt.Sprintf("phase %d: TransferSize := %d at runtime (%s); FSINFO old connection %v, fresh connection %v", k, ph.ts, ph.how, ph.numsOld, ph.numsNew))
		qc := make([]string, len(ph.probes))
		for i, p := range ph.probes {
			qc[i] = p.coq()
			txt = append(txt, fmt.Sprintf("%d: %s", 1000*(k+1)+i+1, p.text()))
			if p.old && p.kind == "WRITE" {
				if p.rpc == 999 {
					tags["old-conn-write-dropped"]++
				} else if p.status == 0 && len(ph.numsNew) == 6 && uint64(p.cnt) == ph.numsNew[3] {
					tags["old-conn-write-at-wtmax-ok"]++
				}
			}
			tags["phase-probes"]++
		}
		phc[k] = fmt.Sprintf("(mkPhase %d %s %s %s)", ph.ts, CNs(ph.numsOld), CNs(ph.numsNew), CList(qc))
	}
	coq := fmt.Sprintf("(mkCase %d %s %s %s %s %s %s)", ts, CBool(in.runtime), CNs(nums), CNs(all), CNs(tcpNums), CList(pc), CList(phc))
	return Case{Index: idx, Kind: kind, Coq: coq, Tags: tags, Text: strings.Join(txt, "\n")}
}

func nums0(n []uint64, i int) uint64 {
	if i < len(n) {
		return n[i]
	}
	return 0
}

type phaseGo struct {
	ts               uint64
	how              string
	numsOld, numsNew []uint64
	probes           []probeGo
}

// nfsConn is one record-marking client connection.
type nfsConn struct {
	cl   *rpcClient
	addr string
}

func dialNFS(addr string) *nfsConn {
	cl, err := dialRPC(addr, 5*time.Second, true)
	if err != nil {
		return nil
	}
	return &nfsConn{cl: cl, addr: addr}
}
func (c *nfsConn) close() { c.cl.conn.Close() }

// call runs one NFS procedure; rpc: 0 accepted+success, 999 no reply, 2000 denied, 998 other
func (c *nfsConn) call(proc string, q *nfsx.Req) (*nfsx.Obs, uint32) {
	num := map[string]uint32{"NULL": 0, "LOOKUP": 3, "READ": 6, "WRITE": 7, "FSINFO": 19}[proc]
	var args []byte
	if q != nil {
		args = q.Encode()
	}
	xid, raw, err := c.cl.call(progNFS, 3, num, args)
	if err != nil {
		return nil, 999
	}
	res, denied, err := acceptedResult(raw, xid)
	if denied {
		return nil, 2000
	}
	if err != nil {
		return nil, 998
	}
	return nfsx.Decode(proc, res), 0
}
func (c *nfsConn) alive() bool { _, rc := c.call("NULL", nil); return rc == 0 }
func (c *nfsConn) fsinfo(rootH uint64) []uint64 {
	fi, rc := c.call("FSINFO", &nfsx.Req{Proc: "FSINFO", H: rootH})
	if rc != 0 || fi == nil {
		return nil
	}
	nums, _, _ := parseFsinfo(fi.Raw)
	return nums
}
// fragmented sets the fragmentation of the next probe call (the NULL call after it goes out unfragmented).
func (c *nfsConn) fragmented(frag, empties int) *nfsConn { c.cl.frag, c.cl.empties = frag, empties; return c }

func (c *nfsConn) write(fs *specfs.FS, fh uint64, cnt uint32, off uint64) probeGo {
	p := probeGo{kind: "WRITE", tcp: true, cnt: cnt, off: off, size: fileSize(fs), frag: c.cl.frag}
	o, rc := c.call("WRITE", &nfsx.Req{Proc: "WRITE", H: fh, Off: off, Cnt: cnt, Stable: 2, Data: payload23(cnt)})
	p.reclen, p.rpc, p.nfrag = c.cl.lastLen, rc, c.cl.lastN
	c.cl.frag, c.cl.empties = 0, 0
	if o != nil {
		p.status = o.Status
		if o.Trail != 0 {
			p.rpc = 4001
		}
		if len(o.Nums) > 0 {
			p.count = o.Nums[0]
		}
	}
	p.alive = c.alive()
	p.size2 = fileSize(fs)
	return p
}
func (c *nfsConn) read(fs *specfs.FS, fh uint64, cnt uint32, off uint64) probeGo {
	p := probeGo{kind: "READ", tcp: true, cnt: cnt, off: off, size: fileSize(fs), frag: c.cl.frag}
	o, rc := c.call("READ", &nfsx.Req{Proc: "READ", H: fh, Off: off, Cnt: cnt})
	p.reclen, p.rpc, p.nfrag = c.cl.lastLen, rc, c.cl.lastN
	c.cl.frag, c.cl.empties = 0, 0
	if o != nil {
		p.status = o.Status
		if o.Trail != 0 || (len(o.Nums) > 0 && uint64(len(o.Bytes)) != o.Nums[0]) {
			p.rpc = 4001
		}
		if len(o.Nums) > 0 {
			p.count = o.Nums[0]
		}
	}
	p.alive = c.alive()
	p.size2 = fileSize(fs)
	return p
}

// tcpC23 starts a real server and probes it with the record-marking client; then (in.seq) it changes TransferSize
// at runtime while one connection stays open and probes the new maxima on that connection and on a fresh one.
func tcpC23(in c23In, opts absnfs.ExportOptions, r *Rand, tags map[string]int) (probes []probeGo, nums []uint64, phases []phaseGo, txt []string) {
	absnfs.VerifSetClock(0) // socket deadlines need the real clock
	defer absnfs.VerifSetClock(nfsx.Clock0)
	fs := specfs.New()
	f, _ := fs.Create("/f")
	f.Close()
	fs.Truncate("/f", c23FileSize)
	nfs, err := absnfs.New(fs, opts)
	if err != nil {
		panic(err)
	}
	defer nfs.Close()
	if in.runtime {
		nfs.UpdateTuningOptions(func(t *absnfs.TuningOptions) { t.TransferSize = in.ts })
	}
	port := 0
	if in.export {
		tags["tcp-via-Export"]++
		if err := nfs.Export("/", 0); err != nil {
			tags["tcp-start-failed"]++
			return nil, nil, nil, []string{"Export failed: " + err.Error()}
		}
		port = nfs.VerifExportPort()
	} else {
		tags["tcp-via-NewServer+Listen"]++
		srv, err := absnfs.NewServer(absnfs.ServerOptions{Name: "vh", Port: 0, Hostname: "127.0.0.1", UseRecordMarking: true})
		if err != nil {
			tags["tcp-start-failed"]++
			return nil, nil, nil, []string{"NewServer failed: " + err.Error()}
		}
		srv.SetHandler(nfs)
		if err := srv.Listen(); err != nil {
			tags["tcp-start-failed"]++
			return nil, nil, nil, []string{"Listen failed: " + err.Error()}
		}
		defer srv.Stop()
		port = srv.GetPort()
	}
	addr := fmt.Sprintf("127.0.0.1:%d", port)
	c := dialNFS(addr)
	if c == nil {
		tags["tcp-dial-failed"]++
		return nil, nil, nil, []string{"dial failed"}
	}
	defer func() {
		if c != nil {
			c.close()
		}
	}()
	redial := func() {
		c.close()
		if c = dialNFS(addr); c == nil {
			tags["tcp-redial-failed"]++
		}
	}
	root, err := c.cl.mnt("/")
	if err != nil || len(root) != 8 {
		tags["tcp-mnt-failed"]++
		return nil, nil, nil, []string{fmt.Sprintf("MNT failed: %v", err)}
	}
	rootH := binary.BigEndian.Uint64(root)
	lk, rc := c.call("LOOKUP", &nfsx.Req{Proc: "LOOKUP", H: rootH, Name: []byte("f")})
	if rc != 0 || lk.FH == nil {
		tags["tcp-lookup-failed"]++
		return nil, nil, nil, []string{"LOOKUP over TCP failed"}
	}
	fh := *lk.FH
	nums = c.fsinfo(rootH)
	txt = append(txt, fmt.Sprintf("FSINFO (tcp %s): %v", addr, nums))
	var rtmax, wtmax uint64
	if len(nums) == 6 {
		rtmax, wtmax = nums[0], nums[3]
	}
	ts := uint64(in.ts)
	// the record of a WRITE of 0 bytes with this client's credential: everything but the payload
	base := uint64(len(c.cl.callMsg(1, progNFS, 3, 7, (&nfsx.Req{Proc: "WRITE", H: fh}).Encode())))
	fit := uint64(1<<20) - base // largest count whose call fits a 1 MiB record (base is a multiple of 4)
	wcounts := dedupe([]uint64{1, wtmax - 1, wtmax, wtmax + 1, ts, ts + 1, fit, fit + 1, fit + 4, 1 + uint64(r.Intn(int(wtmax)+1))})
	rcounts := dedupe([]uint64{1, rtmax, rtmax + 1, ts + 1, 2 << 20})
	for _, cnt := range wcounts {
		if c == nil {
			break
		}
		p := c.write(fs, fh, cnt, PickU64(r, 0, 7, 4096))
		if !p.alive {
			redial()
		}
		probes = append(probes, p)
	}
	for _, cnt := range rcounts {
		if c == nil {
			break
		}
		p := c.read(fs, fh, cnt, PickU64(r, 0, 5, fileSize(fs)-1))
		if !p.alive {
			redial()
		}
		probes = append(probes, p)
	}
	// the same maxima with the call record split into fragments (RFC 5531: any fragmentation is legal; the markers
	// are framing, not record bytes): 64 KiB, 8 KiB, 1 KiB, 512 and 100 bytes, with a few empty non-final fragments
	if len(nums) == 6 {
		frags := []int{65536, 8192, 1024, 512, 100}
		if wtmax < 65536 { // small records: two sizes are enough, one of them tiny
			frags = []int{PickInt(r, 1024, 512, 100), PickInt(r, 64, 16, 4, 1)}
		}
		type fp struct {
			cnt  uint64
			frag int
		}
		var plan []fp
		for _, fsz := range frags {
			plan = append(plan, fp{wtmax, fsz})
		}
		plan = append(plan, fp{nums[4], frags[r.Intn(len(frags))]}, fp{fit, PickInt(r, 1024, 512, 100)}, fp{fit + 4, 1024})
		for _, x := range plan {
			if c == nil || x.cnt > c23MaxProbe {
				continue
			}
			p := c.fragmented(x.frag, PickInt(r, 0, 0, 1, 3)).write(fs, fh, uint32(x.cnt), PickU64(r, 0, 7, 4096))
			if !p.alive {
				redial()
			}
			probes = append(probes, p)
			tags["fragmented-probes"]++
			if x.frag <= 1024 && x.cnt == wtmax && wtmax >= 1<<20-4096 {
				tags["wtmax=cap-in-small-fragments"]++
			}
		}
		if c != nil && rtmax <= c23MaxProbe {
			p := c.fragmented(PickInt(r, 40, 16, 4), PickInt(r, 0, 2)).read(fs, fh, uint32(rtmax), PickU64(r, 0, 5))
			if !p.alive {
				redial()
			}
			probes = append(probes, p)
			tags["fragmented-probes"]++
		}
	}
	// ---------- runtime changes while a connection stays open ----------
	if c == nil || len(in.seq) == 0 {
		return
	}
	cur := in.ts
	for _, v := range in.seq {
		ph := phaseGo{ts: uint64(v), how: "UpdateTuningOptions"}
		if r.Chance(25) {
			o := nfs.GetExportOptions()
			o.TransferSize = v
			o.Squash = ""
			if err := nfs.UpdateExportOptions(o); err == nil {
				ph.how = "UpdateExportOptions"
			} else {
				nfs.UpdateTuningOptions(func(t *absnfs.TuningOptions) { t.TransferSize = v })
			}
		} else {
			nfs.UpdateTuningOptions(func(t *absnfs.TuningOptions) { t.TransferSize = v })
		}
		if v > cur {
			tags["phase-raise"]++
		} else if v < cur {
			tags["phase-lower"]++
		}
		cur = v
		tags["phases"]++
		// the connection accepted before the change
		old := true
		ph.numsOld = c.fsinfo(rootH)
		if len(ph.numsOld) == 6 {
			om, op, or := ph.numsOld[3], ph.numsOld[4], ph.numsOld[0]
			for _, cnt := range dedupe([]uint64{om, op}) {
				p := c.fragmented(PickInt(r, 0, 65536, 8192, 1024, 512, 100), PickInt(r, 0, 0, 2)).write(fs, fh, cnt, PickU64(r, 0, 7, 4096))
				p.old = old
				ph.probes = append(ph.probes, p)
				if !p.alive {
					redial()
					old = false
					if c == nil {
						break
					}
				}
			}
			if c != nil && or <= c23MaxProbe {
				p := c.read(fs, fh, uint32(or), PickU64(r, 0, 5))
				p.old = old
				ph.probes = append(ph.probes, p)
				if !p.alive {
					redial()
				}
			}
		}
		// a connection accepted after the change
		if n := dialNFS(addr); n != nil {
			ph.numsNew = n.fsinfo(rootH)
			if len(ph.numsNew) == 6 {
				if ph.numsNew[3] <= c23MaxProbe {
					ph.probes = append(ph.probes, n.fragmented(PickInt(r, 0, 0, 1024, 512), 0).write(fs, fh, uint32(ph.numsNew[3]), PickU64(r, 0, 7, 4096)))
				}
				if ph.numsNew[0] <= c23MaxProbe {
					n2 := n
					if len(ph.probes) > 0 && !ph.probes[len(ph.probes)-1].alive {
						n.close()
						n2 = dialNFS(addr)
					}
					if n2 != nil {
						ph.probes = append(ph.probes, n2.read(fs, fh, uint32(ph.numsNew[0]), PickU64(r, 0, 5)))
						n = n2
					}
				}
			}
			n.close()
		} else {
			tags["tcp-redial-failed"]++
		}
		phases = append(phases, ph)
		if c == nil {
			break
		}
	}
	return
}

var c23Seq = []int{2048, 8192, 65536, 300000, 1 << 20, 4 << 20, 512, 1044480, 100000, 1 << 32}

var c23Fixed = []int{1, 512, 4096, 65536, 1 << 20, 1<<20 + 1, 1 << 31, 1044480, 1044479, 1044481, 1 << 32, 1<<32 + 5, 1<<32 + 1<<20, 3 << 32, 1<<62 + 7}

func genC23(r *Rand, idx int, tier string) Case {
	in := c23In{seed: r.U64(), runtime: r.Chance(50), tcp: r.Chance(70), export: r.Chance(40)}
	kind := ""
	switch x := r.Intn(100); {
	case x < 25:
		in.ts, kind = c23Fixed[r.Intn(len(c23Fixed))], "listed-value"
	case x < 45:
		in.ts, kind = 1+r.Intn(9000), "small"
	case x < 60:
		in.ts, kind = 65536-3+r.Intn(7), "around-64Ki"
	case x < 75:
		in.ts, kind = 1044480-4+r.Intn(9), "around-cap"
	case x < 85:
		in.ts, kind = 1<<20-3+r.Intn(7), "around-1Mi"
	case x < 92:
		in.ts, kind = 10000+r.Intn(2000000), "medium"
	default:
		in.ts, kind = (1+r.Intn(3))<<32+PickInt(r, 0, 1, 5, 4096, 1044479, 1044480, 1<<20, 1<<20+1, r.Intn(1<<22)), "above-2^32"
	}
	in.ts0 = PickInt(r, 1, 17, 65536, 1<<20, 1<<21)
	if in.tcp {
		for k := 0; k < 2+r.Intn(2); k++ {
			v := c23Seq[r.Intn(len(c23Seq))]
			if r.Chance(25) {
				v = 1 + r.Intn(2000000)
			}
			in.seq = append(in.seq, v)
		}
		kind += "/seq"
	}
	if in.runtime {
		kind += "/runtime"
	}
	if in.tcp {
		kind += "/tcp"
	}
	return runC23(in, kind, idx)
}

func corpusC23() []Case {
	var out []Case
	for i, ts := range c23Fixed {
		in := c23In{ts: ts, ts0: []int{65536, 7, 1 << 21}[i%3], runtime: i%2 == 1, tcp: true, export: i%4 == 2, seed: uint64(1000 + i)}
		in.seq = [][]int{{65536, 2048}, {1 << 20, 8192}, {4 << 20, 65536}}[i%3]
		out = append(out, runC23(in, fmt.Sprintf("ts=%d", ts), i))
	}
	// one connection across raises and falls (seeded change C23-3: the record limit frozen at accept time)
	out = append(out, runC23(c23In{ts: 8192, ts0: 8192, tcp: true, seed: 2001, seq: []int{65536, 2048, 300000, 1 << 20, 4 << 20, 8192, 1044480}}, "one-connection-across-updates", len(c23Fixed)))
	out = append(out, runC23(c23In{ts: 2048, ts0: 65536, runtime: true, tcp: true, export: true, seed: 2002, seq: []int{8192, 65536, 300000, 512, 1 << 20}}, "one-connection-across-updates", len(c23Fixed)+1))
	return out
}
