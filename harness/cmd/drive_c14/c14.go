package main

// C14: every reply is a well-formed RFC 1813 / RFC 1831 reply.
//
// A case is one server (over a populated specfs tree) and a list of calls made to the real HandleCall; each step
// carries the server state the call was made in, (program, version, procedure), the xid, the driver's verdict on the
// argument bytes (args.go) and the reply exactly as EncodeRPCReply renders it.  Corr/C14.v parses the bytes with the
// RFC grammar of Model/Rfc1813.v.  Where nfsx.Decode applies (accepted SUCCESS replies of NFSv3 procedures and MNT)
// its extraction is attached and compared with the Coq parser's.

import (
	"context"
	"fmt"
	"os"
	"strings"
	"syscall"
	"time"

	"github.com/absfs/absnfs"

	. "verifharness/lib"
	"verifharness/nfsx"
	"verifharness/specfs"
)

func init() {
	Props["C14"] = &Prop{
		Imports:    "From Coq Require Import PrimInt63.\nFrom Verif Require Import Model.Bytes Model.Rfc1813 Corr.C14.",
		Gen:        genC14,
		Corpus:     corpusC14,
		NonTrivial: func(c *Case) bool { return c.Tags["replies"] > 0 },
		ShardSize:  8,
	}
}

// ---------------------------------------------------------------- Coq rendering

func cn(x uint64) string {
	if x < 1<<62 {
		return fmt.Sprintf("(n %d)", x)
	}
	return fmt.Sprintf("(W %d %d)", x>>32, x&0xffffffff)
}
func cB(b []byte) string {
	ws := make([]string, 0, len(b)/7+1)
	for i := 0; i < len(b); i += 7 {
		var w uint64
		j := i
		for ; j < len(b) && j < i+7; j++ {
			w = w<<8 | uint64(b[j])
		}
		ws = append(ws, fmt.Sprintf("%d", w))
	}
	return fmt.Sprintf("(B %d %s%%uint63)", len(b), CList(ws))
}

var stateNames = []string{"StNormal", "StReadOnly", "StDrain", "StRateLimited", "StTimeout", "StDenied", "StConnLimited", "StCallTimeout"}

const (
	stNormal = iota
	stReadOnly
	stDrain
	stRateLimited
	stTimeout
	stDenied
	stConnLimited
	stCallTimeout
)

type step struct {
	state            int
	prog, vers, proc uint32
	xid              uint32
	argsOK           bool
	kind             string // argument kind (for the distribution)
	body             []byte
	reply            []byte // nil = no reply
	got              bool
	obs              *nfsx.Obs // nfsx.Decode's extraction (nil when it does not apply)
}

func goSum(o *nfsx.Obs) string {
	attrs := make([]string, len(o.Attrs))
	for i, a := range o.Attrs {
		if a == nil {
			attrs[i] = "None"
		} else {
			attrs[i] = fmt.Sprintf("(Some (%s, %s, %s))", cn(uint64(a.Type)), cn(a.Size), cn(a.FileID))
		}
	}
	wcc := make([]string, len(o.Wcc))
	for i, w := range o.Wcc {
		if w == nil {
			wcc[i] = "None"
		} else {
			wcc[i] = "(Some " + cn(w[0]) + ")"
		}
	}
	fh := "None"
	if o.FH != nil {
		fh = "(Some " + cn(*o.FH) + ")"
	}
	nums := make([]string, len(o.Nums))
	for i, x := range o.Nums {
		nums[i] = cn(x)
	}
	ents := make([]string, len(o.Entries))
	for i, e := range o.Entries {
		ents[i] = fmt.Sprintf("(%s, %s)", cn(e.FileID), cB(e.Name))
	}
	return fmt.Sprintf("(mkG %s %s %s %s %s %s %s %s %s)", CBool(o.Trail == 0), cn(uint64(o.Status)), CList(attrs), CList(wcc), fh,
		CList(nums), CList(ents), cn(uint64(len(o.Bytes))), CBool(o.EOF))
}

func (s *step) coq() string {
	rep, g := "None", "None"
	if s.got {
		rep = "(Some " + cB(s.reply) + ")"
	}
	if s.obs != nil {
		g = "(Some " + goSum(s.obs) + ")"
	}
	return fmt.Sprintf("(S_ %s %d %d %d %d %s %s %s)", stateNames[s.state], s.prog, s.vers, s.proc, s.xid, CBool(s.argsOK), rep, g)
}

func hexTrunc(b []byte, n int) string {
	if len(b) <= n {
		return fmt.Sprintf("%x", b)
	}
	return fmt.Sprintf("%x...(%d bytes)", b[:n], len(b))
}

func (s *step) text() string {
	rep := "NO-REPLY"
	if s.got {
		rep = hexTrunc(s.reply, 320)
	}
	return fmt.Sprintf("%s prog=%d vers=%d proc=%d(%s) xid=%d kind=%s argsok=%v args=%s => %s", stateNames[s.state][2:], s.prog, s.vers,
		s.proc, procLabel(s.prog, s.vers, s.proc), s.xid, s.kind, s.argsOK, hexTrunc(s.body, 96), rep)
}

var nfsProcNames = []string{"NULL", "GETATTR", "SETATTR", "LOOKUP", "ACCESS", "READLINK", "READ", "WRITE", "CREATE", "MKDIR", "SYMLINK",
	"MKNOD", "REMOVE", "RMDIR", "RENAME", "LINK", "READDIR", "READDIRPLUS", "FSSTAT", "FSINFO", "PATHCONF", "COMMIT"}
var mntProcNames = []string{"MNULL", "MNT", "DUMP", "UMNT", "UMNTALL", "EXPORT"}

func procLabel(prog, vers, proc uint32) string {
	switch {
	case prog == nfsx.ProgNFS && vers == 3 && int(proc) < len(nfsProcNames):
		return nfsProcNames[proc]
	case prog == nfsx.ProgMount && (vers == 1 || vers == 3) && int(proc) < len(mntProcNames):
		if vers == 1 {
			return mntProcNames[proc] + "v1"
		}
		return mntProcNames[proc]
	case prog == nfsx.ProgNFS && vers == 3, prog == nfsx.ProgMount && (vers == 1 || vers == 3):
		return "badproc"
	case prog == nfsx.ProgNFS || prog == nfsx.ProgMount:
		return "badvers"
	}
	return "badprog"
}

// decodeName: the procedure name nfsx.Decode knows the result type of ("" = none).
func decodeName(prog, vers, proc uint32) string {
	if prog == nfsx.ProgNFS && vers == 3 && int(proc) < len(nfsProcNames) {
		return nfsProcNames[proc]
	}
	if prog == nfsx.ProgMount && (vers == 1 || vers == 3) && proc == 1 {
		return "MNT"
	}
	return ""
}

// ---------------------------------------------------------------- the world

type config struct {
	ro, secure, ratelimit bool
	timeouts              int // 0 none, 1 per-operation timeouts of 1 ns, 2 DefaultTimeout of 1 ns
	tsize                 int
	maxHandles            int
	bigDir                int  // entries in /big
	fault                 bool // backend fault injection
}

func (c config) text() string {
	return fmt.Sprintf("ro=%v secure=%v ratelimit=%v timeouts=%d tsize=%d maxh=%d bigdir=%d fault=%v", c.ro, c.secure, c.ratelimit, c.timeouts,
		c.tsize, c.maxHandles, c.bigDir, c.fault)
}

type world struct {
	cfg     config
	env     *nfsx.Env
	ro      bool
	steps   []*step
	tags    map[string]int
	dirs    []uint64
	files   []uint64
	links   []uint64
	faultOn bool
	faultR  *Rand
}

func rateLimitConfig() *absnfs.RateLimiterConfig {
	// generous request-level limits (HandleCall does not consult them), per-operation rates of zero: once the fixed
	// bursts (10 large reads, 5 large writes, 5 READDIR/READDIRPLUS, 2 MNT) are used up AllowOperation refuses
	return &absnfs.RateLimiterConfig{GlobalRequestsPerSecond: 1000000, PerIPRequestsPerSecond: 1000000, PerIPBurstSize: 1000000,
		PerConnectionRequestsPerSecond: 0, ReadLargeOpsPerSecond: 0, WriteLargeOpsPerSecond: 0, ReaddirOpsPerSecond: 0,
		MountOpsPerMinute: 0, FileHandlesPerIP: 100000, FileHandlesGlobal: 1000000, CleanupInterval: time.Hour}
}

func osPerm(p uint32) os.FileMode { return os.FileMode(p) }

// populate builds the tree: files with data (11 bytes, 20 bytes, 4 KiB, a sparse 100 000-byte file), nested
// directories, a directory with many entries (long names included), symbolic links (to a file, to a directory, dangling)
func populate(fs *specfs.FS, bigDir int) {
	wr := func(p string, data []byte, size int64, perm uint32) {
		f, err := fs.Create(p)
		if err != nil {
			return
		}
		if len(data) > 0 {
			f.WriteAt(data, 0)
		}
		if size > int64(len(data)) {
			f.Truncate(size)
		}
		f.Sync()
		f.Close()
		fs.Chmod(p, osPerm(perm))
	}
	fs.Mkdir("/a", 0755)
	fs.Mkdir("/a/b", 0700)
	fs.Mkdir("/empty", 0755)
	wr("/c", []byte("hello world"), 0, 0644)
	wr("/a/d", []byte("0123456789abcdefghij"), 0, 0600)
	wr("/a/b/ee", []byte("x"), 0, 0444)
	wr("/zero", nil, 0, 0644)
	blk := make([]byte, 4096)
	for i := range blk {
		blk[i] = byte(i*7 + 1)
	}
	wr("/blk", blk, 0, 0644)
	wr("/sparse", []byte("head"), 100000, 0644)
	fs.Symlink("c", "/d")
	fs.Symlink("a", "/ee")
	fs.Symlink("nothere", "/a/c")
	fs.Symlink(strings.Repeat("t/", 100)+"x", "/longlink")
	fs.Chown("/c", 1000, 100)
	if bigDir > 0 {
		fs.Mkdir("/big", 0755)
		for i := 0; i < bigDir; i++ {
			name := fmt.Sprintf("f%03d", i)
			switch i % 7 {
			case 3:
				name = fmt.Sprintf("long-%03d-%s", i, strings.Repeat("n", 40+i%200))
			case 5:
				fs.Mkdir("/big/"+fmt.Sprintf("dir%03d", i), 0755)
				continue
			case 6:
				fs.Symlink("../c", "/big/"+fmt.Sprintf("ln%03d", i))
				continue
			}
			wr("/big/"+name, []byte(name[:1+i%3]), 0, 0644)
		}
	}
}

var faultErrs = []error{syscall.EACCES, syscall.EPERM, syscall.ENOSPC, syscall.EIO, syscall.ENAMETOOLONG, syscall.EFBIG, syscall.EISDIR,
	syscall.ENOTDIR, syscall.EEXIST, syscall.ENOENT, os.ErrInvalid, syscall.EDQUOT, syscall.EROFS, syscall.ESTALE, syscall.ENOTEMPTY,
	fmt.Errorf("some backend failure"),
	// errno values the server has no special case for (whatever the backend says, the status word must be an nfsstat3 member)
	syscall.ELOOP, syscall.EBUSY, syscall.ENOMEM, syscall.EMFILE, syscall.EBADF, syscall.EINTR, syscall.EAGAIN, syscall.ENODEV,
	syscall.ETXTBSY, syscall.EMLINK, syscall.ENXIO, syscall.EXDEV, syscall.EINVAL, syscall.E2BIG, syscall.ERANGE, syscall.EDEADLK,
	syscall.ENOSYS, syscall.ENOTSUP, syscall.ETIMEDOUT, syscall.ECONNRESET, syscall.Errno(3), syscall.Errno(71), syscall.Errno(200)}

func newWorld(r *Rand, cfg config) *world {
	opts := absnfs.ExportOptions{ReadOnly: cfg.ro, Secure: cfg.secure, TransferSize: cfg.tsize, Squash: "none",
		AttrCacheTimeout: 5 * time.Second, AttrCacheSize: 10000, EnableDirCache: r.Bool(), CacheNegativeLookups: r.Bool()}
	if cfg.ratelimit {
		opts.EnableRateLimiting = true
		opts.RateLimitConfig = rateLimitConfig()
	}
	env, err := nfsx.NewEnv(opts, cfg.maxHandles)
	if err != nil {
		panic(err)
	}
	populate(env.FS, cfg.bigDir)
	env.FS.TakeLog()
	env.FS.Rec = false
	w := &world{cfg: cfg, env: env, ro: cfg.ro, tags: map[string]int{}, faultR: NewRand(r.U64(), 1)}
	env.FS.Fault = func(op, p string) error {
		if w.faultOn && w.faultR.Chance(35) {
			return &os.PathError{Op: op, Path: p, Err: faultErrs[w.faultR.Intn(len(faultErrs))]}
		}
		return nil
	}
	return w
}

// learn walks the tree through the server (MNT, LOOKUP, READDIRPLUS) so that the generators know live handles by kind.
// It runs before the timeouts are shortened.  These calls are recorded as steps too.
func (w *world) learn() {
	root := nfsx.Cred{}
	o := w.call(w.baseState(), nfsx.ProgMount, 3, 1, root, (&nfsx.Req{Proc: "MNT", Name: []byte("/")}).Encode(), "valid")
	if o == nil || o.FH == nil {
		return
	}
	rootH := *o.FH
	w.dirs = append(w.dirs, rootH)
	var visit func(h uint64, depth int)
	visit = func(h uint64, depth int) {
		o := w.call(w.baseState(), nfsx.ProgNFS, 3, 17, root, (&nfsx.Req{Proc: "READDIRPLUS", H: h, Cnt: 4096, Max: 8192}).Encode(), "valid")
		if o == nil {
			return
		}
		for _, e := range o.Entries {
			if e.FH == nil || e.Attr == nil {
				continue
			}
			switch e.Attr.Type {
			case 2:
				w.dirs = append(w.dirs, *e.FH)
				if depth < 2 && len(o.Entries) < 20 {
					visit(*e.FH, depth+1)
				}
			case 5:
				w.links = append(w.links, *e.FH)
			default:
				w.files = append(w.files, *e.FH)
			}
		}
	}
	visit(rootH, 0)
	for _, n := range []string{"big", "sparse", "blk", "longlink"} {
		o := w.call(w.baseState(), nfsx.ProgNFS, 3, 3, root, (&nfsx.Req{Proc: "LOOKUP", H: rootH, Name: []byte(n)}).Encode(), "valid")
		if o != nil && o.FH != nil && len(o.Attrs) > 0 && o.Attrs[0] != nil {
			switch o.Attrs[0].Type {
			case 2:
				w.dirs = append(w.dirs, *o.FH)
			case 5:
				w.links = append(w.links, *o.FH)
			default:
				w.files = append(w.files, *o.FH)
			}
		}
	}
}

// baseState: the state label of a call made without drain / denial.
func (w *world) baseState() int {
	switch {
	case w.cfg.timeouts == 2:
		return stCallTimeout
	case w.cfg.timeouts == 1:
		return stTimeout
	case w.cfg.ratelimit:
		return stRateLimited
	case w.ro:
		return stReadOnly
	}
	return stNormal
}

func (w *world) shortenTimeouts() {
	switch w.cfg.timeouts {
	case 1:
		w.env.NFS.UpdateTuningOptions(func(t *absnfs.TuningOptions) {
			t.Timeouts = &absnfs.TimeoutConfig{ReadTimeout: 1, WriteTimeout: 1, LookupTimeout: 1, ReaddirTimeout: 1, CreateTimeout: 1,
				RemoveTimeout: 1, RenameTimeout: 1, HandleTimeout: 1, DefaultTimeout: 30 * time.Second}
		})
	case 2:
		w.env.NFS.UpdateTuningOptions(func(t *absnfs.TuningOptions) {
			t.Timeouts = &absnfs.TimeoutConfig{ReadTimeout: time.Minute, WriteTimeout: time.Minute, LookupTimeout: time.Minute,
				ReaddirTimeout: time.Minute, CreateTimeout: time.Minute, RemoveTimeout: time.Minute, RenameTimeout: time.Minute,
				HandleTimeout: time.Minute, DefaultTimeout: 1}
		})
	}
}

// call makes one call in the given state (stDrain: with the policy lock held; stDenied: from an unprivileged port of
// a Secure export; otherwise as is) and records the step.  It returns nfsx.Decode's view when that applies.
func (w *world) call(state int, prog, vers, proc uint32, c nfsx.Cred, body []byte, kind string) *nfsx.Obs {
	st := &step{state: state, prog: prog, vers: vers, proc: proc, kind: kind, body: append([]byte{}, body...)}
	st.argsOK = argsDecode(prog, vers, proc, body)
	switch state {
	case stDrain:
		w.env.NFS.VerifLockPolicy()
	case stDenied:
		w.env.Port = 40000
	}
	wire, xid, ok := w.env.WireCall(prog, vers, proc, c, body)
	switch state {
	case stDrain:
		w.env.NFS.VerifUnlockPolicy()
	case stDenied:
		w.env.Port = 1000
	}
	st.xid = xid
	var obs *nfsx.Obs
	statusTag := "noreply"
	if ok {
		st.got, st.reply = true, wire
		code, res := nfsx.ParseReply(wire, xid)
		statusTag = fmt.Sprintf("rpc%d", code)
		if code == 0 {
			statusTag = "void"
			if name := decodeName(prog, vers, proc); name != "" {
				obs = nfsx.Decode(name, res)
				st.obs = obs
				if name != "NULL" {
					statusTag = fmt.Sprintf("st%d", obs.Status)
				}
			}
		}
		w.tags["replies"]++
	} else {
		w.tags["no-reply"]++
	}
	w.steps = append(w.steps, st)
	pl := procLabel(prog, vers, proc)
	w.tags["proc:"+pl]++
	w.tags["state:"+stateNames[state][2:]]++
	w.tags["kind:"+kind]++
	w.tags["status:"+statusTag]++
	w.tags["d:"+pl+"/"+stateNames[state][2:]+"/"+kind+"/"+statusTag]++
	if !st.argsOK {
		w.tags["args-undecodable"]++
	}
	if obs != nil && obs.Status == 0 && obs.Trail == 0 && pl != "NULL" {
		w.tags["ok:"+pl]++
		if len(obs.Entries) >= 20 {
			w.tags["big-listing"]++
		}
		if len(obs.Bytes) >= 1024 {
			w.tags["big-data"]++
		}
	}
	if obs != nil && obs.Status == 0 {
		// remember new handles
		if obs.FH != nil && len(obs.Attrs) > 0 && obs.Attrs[0] != nil {
			w.remember(*obs.FH, obs.Attrs[0].Type)
		}
	}
	return obs
}

func (w *world) remember(h uint64, typ uint32) {
	lst := &w.files
	switch typ {
	case 2:
		lst = &w.dirs
	case 5:
		lst = &w.links
	}
	for _, x := range *lst {
		if x == h {
			return
		}
	}
	if len(*lst) < 64 {
		*lst = append(*lst, h)
	}
}

func (w *world) finish(kind string, idx int) Case {
	steps := make([]string, len(w.steps))
	txt := make([]string, len(w.steps))
	for i, s := range w.steps {
		steps[i] = s.coq()
		txt[i] = fmt.Sprintf("%d: %s", i, s.text())
	}
	w.tags["steps"] = len(w.steps)
	w.env.FS.Fault = nil
	w.env.Close()
	return Case{Index: idx, Kind: kind, Coq: "(mkCase " + CList(steps) + ")", Tags: w.tags,
		Text: "cfg: " + w.cfg.text() + "\n" + strings.Join(txt, "\n")}
}

// ---------------------------------------------------------------- request generation

func u32p(v uint32) *uint32 { return &v }
func u64p(v uint64) *uint64 { return &v }

var goodNames = []string{"a", "b", "c", "d", "ee", "blk", "sparse", "zero", "empty", "big", "new1", "new2", "f000", "longlink"}
var oddNames = []string{"", ".", "..", "a/b", "a\\b", "x..y", "\x00", "a\x00b", strings.Repeat("n", 255), strings.Repeat("n", 256),
	strings.Repeat("s", 8192), strings.Repeat("s", 8193)}

func pickName(r *Rand, oddPct int) []byte {
	if r.Chance(oddPct) {
		return []byte(oddNames[r.Intn(len(oddNames))])
	}
	return []byte(goodNames[r.Intn(len(goodNames))])
}
func pickCred(r *Rand) nfsx.Cred {
	switch r.Intn(4) {
	case 0, 1:
		return nfsx.Cred{Uid: 0, Gid: 0}
	case 2:
		return nfsx.Cred{Uid: 1000, Gid: 100, Aux: []uint32{5, 0}}
	}
	return nfsx.Cred{Uid: 1001, Gid: 1000}
}
func pickFrom(r *Rand, l []uint64) (uint64, bool) {
	if len(l) == 0 {
		return 0, false
	}
	if r.Chance(35) {
		return l[0], true
	}
	return l[r.Intn(len(l))], true
}

// pickHandle: want = 'd' directory, 'f' file, 'l' symlink, 0 anything; 6% unknown handle values, 10% a handle of another kind
func (w *world) pickHandle(r *Rand, want byte) uint64 {
	if r.Chance(6) {
		return PickU64(r, 0, 999999, 77777, 1<<63)
	}
	if r.Chance(10) {
		want = 0
	}
	var h uint64
	var ok bool
	switch want {
	case 'd':
		h, ok = pickFrom(r, w.dirs)
	case 'f':
		h, ok = pickFrom(r, w.files)
	case 'l':
		h, ok = pickFrom(r, w.links)
	}
	if !ok {
		all := append(append(append([]uint64{}, w.dirs...), w.files...), w.links...)
		h, ok = pickFrom(r, all)
	}
	if !ok {
		return 1
	}
	return h
}
func pickSattr(r *Rand, sizePct int) nfsx.Sattr {
	var sa nfsx.Sattr
	if r.Chance(40) {
		sa.Mode = u32p(uint32(PickInt(r, 0, 0644, 0600, 0777, 0755, 04755, 0x4000, 0x8000|0644, 1<<27)))
	}
	if r.Chance(25) {
		sa.Uid = u32p(uint32(PickInt(r, 0, 1000, 4242)))
	}
	if r.Chance(25) {
		sa.Gid = u32p(uint32(PickInt(r, 0, 100, 4343)))
	}
	if r.Chance(sizePct) {
		sa.Size = u64p(PickU64(r, 0, 0, 1, 5, 100, 5000, 1<<63-1, 1<<63))
	}
	if r.Chance(20) {
		sa.Mtime = uint32(r.Intn(3))
		sa.MtimeNs = int64(r.Intn(2000)) * 1e9
		sa.Atime = uint32(r.Intn(3))
		sa.AtimeNs = int64(r.Intn(2000))*1e9 + 5
	}
	return sa
}

// genReq: a structurally valid request for the NFS procedure (or "MNT"), mostly aimed at handles of the right kind
func (w *world) genReq(r *Rand, proc string, oddPct int) *nfsx.Req {
	q := &nfsx.Req{Proc: proc}
	switch proc {
	case "NULL":
	case "GETATTR", "ACCESS", "FSSTAT", "FSINFO", "PATHCONF", "COMMIT", "SETATTR":
		q.H = w.pickHandle(r, 0)
		if proc == "SETATTR" && r.Chance(60) {
			q.H = w.pickHandle(r, 'f')
		}
	case "READLINK":
		q.H = w.pickHandle(r, 'l')
	case "READ", "WRITE":
		q.H = w.pickHandle(r, 'f')
	default:
		q.H = w.pickHandle(r, 'd')
	}
	// the namespace-changing procedures mostly aim at the root directory with names that make them succeed
	rootish := len(w.dirs) > 0 && r.Chance(65)
	if rootish {
		switch proc {
		case "REMOVE", "RMDIR", "RENAME", "CREATE", "MKDIR", "SYMLINK":
			q.H = w.dirs[0]
		}
	}
	fresh := func() []byte { return []byte(PickStr(r, "new1", "new2", "n3", "n4", "n5")) }
	switch proc {
	case "LOOKUP", "MKNOD":
		q.Name = pickName(r, oddPct)
	case "REMOVE":
		q.Name = pickName(r, oddPct)
		if rootish && r.Chance(70) {
			q.Name = []byte(PickStr(r, "c", "zero", "blk", "d", "longlink", "new1", "new2", "n3"))
		}
	case "RMDIR":
		q.Name = pickName(r, oddPct)
		if rootish && r.Chance(70) {
			q.Name = []byte(PickStr(r, "empty", "new1", "new2", "n3", "a"))
		}
	case "CREATE":
		q.Name = pickName(r, oddPct)
		if rootish && r.Chance(70) {
			q.Name = fresh()
		}
		q.How = uint32(PickInt(r, 0, 0, 1, 1, 2, 3))
		q.Sa = pickSattr(r, 20)
	case "MKDIR":
		q.Name = pickName(r, oddPct)
		if rootish && r.Chance(70) {
			q.Name = fresh()
		}
		q.Sa = pickSattr(r, 0)
	case "SYMLINK":
		q.Name = pickName(r, oddPct)
		if rootish && r.Chance(70) {
			q.Name = fresh()
		}
		q.Sa = pickSattr(r, 0)
		q.Target = []byte(PickStr(r, "a", "c", "c/d", "nothere", "../x", "/etc/passwd", "", "a/../b", "a\x00b", strings.Repeat("p/", 300)+"q"))
	case "RENAME":
		q.Name = pickName(r, oddPct)
		q.H2 = w.pickHandle(r, 'd')
		q.Name2 = pickName(r, oddPct)
		if rootish && r.Chance(70) {
			q.Name = []byte(PickStr(r, "c", "zero", "blk", "empty", "sparse", "new1", "n3"))
			q.H2 = q.H
			q.Name2 = fresh()
		}
	case "LINK":
		q.H = w.pickHandle(r, 'f')
		q.H2 = w.pickHandle(r, 'd')
		q.Name = pickName(r, oddPct)
	case "SETATTR":
		q.Sa = pickSattr(r, 30)
		if r.Chance(15) {
			q.Guard = &[2]uint32{uint32(PickInt(r, 1000000, 1000, 0)), 0}
		}
	case "ACCESS":
		q.Mask = uint32(r.Intn(64))
		if r.Chance(10) {
			q.Mask = uint32(r.U64())
		}
	case "READ":
		q.Off = PickU64(r, 0, 0, 0, 1, 3, 5, 100, 4000, 99990, 1<<31, 1<<63-1, 1<<63, 1<<64-1)
		q.Cnt = uint32(PickInt(r, 0, 1, 4, 16, 17, 100, 1000, 4096, 5000, 70000, 70000))
	case "WRITE":
		q.Off = PickU64(r, 0, 0, 0, 1, 3, 20, 100, 1<<31, 1<<63-2, 1<<63, 1<<64-1)
		n := PickInt(r, 0, 1, 3, 4, 8, 17, 40, 600)
		q.Data = make([]byte, n)
		for i := range q.Data {
			q.Data[i] = byte(PickInt(r, 0, 65+r.Intn(26), 255))
		}
		q.Cnt = uint32(n)
		q.Stable = uint32(r.Intn(3))
	case "READDIR":
		q.Cookie = uint64(PickInt(r, 0, 0, 0, 1, 2, 5, 30, 1000))
		q.Cnt = uint32(PickInt(r, 0, 50, 100, 160, 200, 512, 4096, 32768))
	case "READDIRPLUS":
		q.Cookie = uint64(PickInt(r, 0, 0, 0, 1, 2, 5, 30, 1000))
		q.Cnt = 4096
		q.Max = uint32(PickInt(r, 0, 100, 250, 400, 700, 4096, 8192, 32768))
	case "COMMIT":
		q.Off, q.Cnt = uint64(r.Intn(100)), uint32(r.Intn(100))
	case "MNT":
		q.Name = []byte(PickStr(r, "/", "/", "/a", "/a/b", "//a/", "/a/../big", "/..", "a", "", "/./a/.", "/nothere", "/a\x00", "/c", "/ee/b",
			"/"+strings.Repeat("x", 1100)))
	}
	return q
}

// mutate turns well-formed argument bytes into one of the malformed kinds
func mutate(r *Rand, body []byte, kind string) []byte {
	b := append([]byte{}, body...)
	switch kind {
	case "trunc4":
		if len(b) >= 4 {
			b = b[:4*r.Intn(len(b)/4)]
		} else {
			b = nil
		}
	case "truncodd":
		if len(b) > 0 {
			b = b[:r.Intn(len(b))]
		}
	case "flip":
		for k := 0; k < 1+r.Intn(3) && len(b) > 0; k++ {
			b[r.Intn(len(b))] ^= byte(1 << uint(r.Intn(8)))
		}
	case "junk":
		for k := 0; k < 1+r.Intn(9); k++ {
			b = append(b, byte(r.Intn(256)))
		}
	case "random":
		b = make([]byte, r.Intn(72))
		for k := range b {
			b[k] = byte(r.Intn(256))
		}
	}
	return b
}

var argKinds = []string{"valid", "valid", "trunc4", "truncodd", "flip", "junk", "random"}

// pickTarget: (program, version, procedure, generator name or "")
func pickTarget(r *Rand) (uint32, uint32, uint32, string) {
	switch x := r.Intn(100); {
	case x < 70:
		p := uint32(r.Intn(22))
		return nfsx.ProgNFS, 3, p, nfsProcNames[p]
	case x < 82:
		p := uint32(r.Intn(6))
		vers := uint32(PickInt(r, 3, 3, 1))
		name := ""
		if p == 1 || p == 3 {
			name = "MNT" // UMNT takes the same dirpath argument
		}
		return nfsx.ProgMount, vers, p, name
	case x < 87: // unknown procedure
		if r.Bool() {
			return nfsx.ProgNFS, 3, uint32(PickInt(r, 22, 23, 100, 1<<31-1)), ""
		}
		return nfsx.ProgMount, uint32(PickInt(r, 1, 3)), uint32(PickInt(r, 6, 7, 99)), ""
	case x < 93: // unknown version
		p := uint32(r.Intn(22))
		if r.Bool() {
			return nfsx.ProgNFS, uint32(PickInt(r, 0, 2, 4, 1<<31)), p, nfsProcNames[p]
		}
		return nfsx.ProgMount, uint32(PickInt(r, 0, 2, 4)), uint32(r.Intn(6)), "MNT"
	}
	// unknown program
	return uint32(PickInt(r, 0, 100000, 100004, 100021, 100227, 1<<31)), uint32(r.Intn(5)), uint32(r.Intn(24)), ""
}

func (w *world) randomStep(r *Rand, drainPct, deniedPct int, kinds []string) {
	prog, vers, proc, gen := pickTarget(r)
	kind := kinds[r.Intn(len(kinds))]
	var body []byte
	if gen != "" && kind != "random" {
		body = mutate(r, w.genReq(r, gen, 12).Encode(), kind)
	} else {
		if gen == "" && kind != "random" {
			kind = "noargs"
			if r.Bool() {
				kind = "random"
			}
		}
		if kind == "random" {
			body = mutate(r, nil, "random")
		}
	}
	state := w.baseState()
	if r.Chance(drainPct) {
		state = stDrain
	} else if w.cfg.secure && r.Chance(deniedPct) {
		state = stDenied
	}
	w.call(state, prog, vers, proc, pickCred(r), body, kind)
}

func (w *world) toggleRO(r *Rand) {
	w.ro = !w.ro
	w.env.Admin(&nfsx.Req{Proc: "SETRO", Cnt: b2u(w.ro)})
}
func b2u(b bool) uint32 {
	if b {
		return 1
	}
	return 0
}

func genConfig(r *Rand) config {
	return config{tsize: PickInt(r, 512, 4096, 4096, 65536), maxHandles: PickInt(r, 0, 0, 0, 8), bigDir: PickInt(r, 0, 0, 9, 30)}
}

// ---------------------------------------------------------------- case kinds

func genC14(r *Rand, idx int, tier string) Case {
	switch k := idx % 12; {
	case k < 3:
		return genHist(r, idx)
	case k < 6:
		return genRaw(r, idx)
	case k == 6:
		return genSweep(r, idx)
	case k == 7 || k == 8:
		return genRateLimited(r, idx)
	case k == 9:
		return genTimeouts(r, idx)
	case k == 10:
		return genFaults(r, idx)
	}
	return genTCP(r, idx)
}

// hist: structurally valid requests of every procedure over the populated tree (success shapes), writable or read-only
func genHist(r *Rand, idx int) Case {
	cfg := genConfig(r)
	cfg.ro = r.Chance(25)
	cfg.secure = r.Chance(30)
	if r.Chance(15) {
		cfg.bigDir = 150
	}
	w := newWorld(r, cfg)
	w.learn()
	n := 40 + r.Intn(30)
	for i := 0; i < n; i++ {
		if r.Chance(3) {
			w.toggleRO(r)
		}
		var prog, vers, proc uint32 = nfsx.ProgNFS, 3, uint32(r.Intn(22))
		name := nfsProcNames[proc]
		if r.Chance(8) {
			prog, vers, proc, name = nfsx.ProgMount, uint32(PickInt(r, 3, 3, 1)), 1, "MNT"
		}
		state := w.baseState()
		if r.Chance(6) {
			state = stDrain
		} else if cfg.secure && r.Chance(8) {
			state = stDenied
		}
		q := w.genReq(r, name, 6)
		if name == "READ" && q.Cnt > 65536 && cfg.tsize == 65536 && r.Chance(70) {
			q.Cnt = 5000 // keep 64 KiB replies rare
		}
		w.call(state, prog, vers, proc, pickCred(r), q.Encode(), "valid")
	}
	return w.finish("hist", idx)
}

// raw: every (program, version, procedure) with every argument kind, in normal / read-only / drain / denied states
func genRaw(r *Rand, idx int) Case {
	cfg := genConfig(r)
	cfg.ro = r.Chance(40)
	cfg.secure = r.Chance(40)
	w := newWorld(r, cfg)
	w.learn()
	n := 50 + r.Intn(30)
	for i := 0; i < n; i++ {
		if r.Chance(4) {
			w.toggleRO(r)
		}
		w.randomStep(r, 15, 10, argKinds)
	}
	return w.finish("raw", idx)
}

// sweep: one well-formed request of a procedure, cut at every 4-byte boundary and at odd positions, plus the junk-
// appended and the intact form, in one state
func genSweep(r *Rand, idx int) Case {
	cfg := genConfig(r)
	cfg.ro = r.Chance(30)
	cfg.ratelimit = r.Chance(20)
	w := newWorld(r, cfg)
	w.learn()
	prog, vers, proc, gen := uint32(nfsx.ProgNFS), uint32(3), uint32(1+r.Intn(21)), ""
	gen = nfsProcNames[proc]
	if r.Chance(12) {
		prog, vers, proc, gen = nfsx.ProgMount, uint32(PickInt(r, 3, 1)), uint32(PickInt(r, 1, 3)), "MNT"
	}
	state := w.baseState()
	if r.Chance(20) {
		state = stDrain
	}
	q := w.genReq(r, gen, 0)
	if gen == "WRITE" && len(q.Data) > 40 {
		q.Data = q.Data[:17]
		q.Cnt = 17
	}
	body := q.Encode()
	c := pickCred(r)
	for cut := 0; cut < len(body); cut++ {
		if cut%4 == 0 || cut%4 == 1+r.Intn(3) {
			kind := "trunc4"
			if cut%4 != 0 {
				kind = "truncodd"
			}
			w.call(state, prog, vers, proc, c, body[:cut], kind)
		}
	}
	w.call(state, prog, vers, proc, c, append(append([]byte{}, body...), 0xde, 0xad, 0xbe), "junk")
	w.call(state, prog, vers, proc, c, body, "valid")
	return w.finish("sweep", idx)
}

// ratelimited: per-operation limiter with zero refill: large READ / WRITE, READDIR(PLUS) and MNT are refused after the
// fixed bursts; everything else (and malformed arguments to the limited procedures) is mixed in
func genRateLimited(r *Rand, idx int) Case {
	cfg := genConfig(r)
	cfg.ratelimit = true
	cfg.ro = r.Chance(20)
	w := newWorld(r, cfg)
	w.learn()
	n := 45 + r.Intn(25)
	for i := 0; i < n; i++ {
		if r.Chance(55) {
			state := w.baseState()
			if r.Chance(8) {
				state = stDrain
			}
			kind := PickStr(r, "valid", "valid", "valid", "trunc4", "flip", "junk")
			var q *nfsx.Req
			var prog, vers, proc uint32 = nfsx.ProgNFS, 3, 0
			switch r.Intn(5) {
			case 0:
				proc, q = 6, w.genReq(r, "READ", 0)
				q.Cnt = uint32(PickInt(r, 65537, 70000, 1<<20, 1<<32-1))
				if cfg.tsize == 65536 {
					q.Off = PickU64(r, 99000, 99990, 100000) // near the end of /sparse: short data
				}
			case 1:
				proc, q = 7, w.genReq(r, "WRITE", 0)
				q.Cnt = uint32(PickInt(r, 65537, 70000, 1<<20)) // count above the data actually sent
			case 2:
				proc, q = 16, w.genReq(r, "READDIR", 0)
			case 3:
				proc, q = 17, w.genReq(r, "READDIRPLUS", 0)
			case 4:
				prog, vers, proc, q = nfsx.ProgMount, uint32(PickInt(r, 3, 3, 1)), 1, w.genReq(r, "MNT", 0)
			}
			w.call(state, prog, vers, proc, pickCred(r), mutate(r, q.Encode(), kind), kind)
		} else {
			w.randomStep(r, 8, 0, argKinds)
		}
	}
	return w.finish("ratelimited", idx)
}

// timeouts: operation timeouts of 1 ns (the ...WithContext operations report ErrTimeout, which mapError turns into
// 10013), or a DefaultTimeout of 1 ns (HandleCall itself may give up: no reply)
func genTimeouts(r *Rand, idx int) Case {
	cfg := genConfig(r)
	cfg.timeouts = PickInt(r, 1, 1, 1, 2)
	cfg.ro = r.Chance(20)
	w := newWorld(r, cfg)
	saved := cfg.timeouts
	w.cfg.timeouts = 0
	w.learn()
	w.cfg.timeouts = saved
	w.shortenTimeouts()
	n := 40 + r.Intn(20)
	for i := 0; i < n; i++ {
		if r.Chance(75) {
			proc := uint32(r.Intn(22))
			state := w.baseState()
			if r.Chance(6) {
				state = stDrain
			}
			w.call(state, nfsx.ProgNFS, 3, proc, pickCred(r), w.genReq(r, nfsProcNames[proc], 5).Encode(), "valid")
		} else {
			w.randomStep(r, 6, 0, argKinds)
		}
	}
	return w.finish(fmt.Sprintf("timeouts%d", saved), idx)
}

// faults: the backend fails 35% of its operations with assorted errno values (mapError's whole range)
func genFaults(r *Rand, idx int) Case {
	cfg := genConfig(r)
	cfg.fault = true
	w := newWorld(r, cfg)
	w.learn()
	w.faultOn = true
	n := 50 + r.Intn(20)
	for i := 0; i < n; i++ {
		proc := uint32(r.Intn(22))
		name := nfsProcNames[proc]
		var prog, vers uint32 = nfsx.ProgNFS, 3
		if r.Chance(6) {
			prog, vers, proc, name = nfsx.ProgMount, 3, 1, "MNT"
		}
		w.call(w.baseState(), prog, vers, proc, pickCred(r), w.genReq(r, name, 5).Encode(), "valid")
	}
	w.faultOn = false
	return w.finish("faults", idx)
}

// ---------------------------------------------------------------- corpus: one fixed case per state with every procedure

func corpusC14() []Case {
	var out []Case
	for ci, cfg := range []config{
		{tsize: 4096, bigDir: 30},
		{tsize: 4096, ro: true, bigDir: 9},
		{tsize: 4096, ratelimit: true, bigDir: 9},
		{tsize: 512, secure: true},
	} {
		r := NewRand(14, uint64(ci))
		w := newWorld(r, cfg)
		w.learn()
		root := nfsx.Cred{}
		for _, state := range []int{w.baseState(), stDrain, stDenied} {
			if state == stDenied && !cfg.secure {
				continue
			}
			for rep := 0; rep < 2; rep++ {
				for proc := uint32(0); proc < 22; proc++ {
					q := w.genReq(r, nfsProcNames[proc], 0)
					w.call(state, nfsx.ProgNFS, 3, proc, root, q.Encode(), "valid")
					if rep == 0 {
						w.call(state, nfsx.ProgNFS, 3, proc, root, nil, "trunc4")
					}
				}
			}
			for _, vers := range []uint32{3, 1} {
				for proc := uint32(0); proc < 7; proc++ {
					w.call(state, nfsx.ProgMount, vers, proc, root, (&nfsx.Req{Proc: "MNT", Name: []byte("/a")}).Encode(), "valid")
					w.call(state, nfsx.ProgMount, vers, proc, root, nil, "trunc4")
				}
			}
			w.call(state, nfsx.ProgNFS, 2, 1, root, nil, "noargs")
			w.call(state, nfsx.ProgNFS, 4, 1, root, nil, "noargs")
			w.call(state, nfsx.ProgMount, 2, 1, root, nil, "noargs")
			w.call(state, nfsx.ProgNFS, 3, 22, root, nil, "noargs")
			w.call(state, 100021, 4, 0, root, nil, "noargs")
			w.call(state, 0, 0, 0, root, nil, "noargs")
		}
		out = append(out, w.finish("all-procs", 0))
	}
	return out
}

var _ = context.Background
