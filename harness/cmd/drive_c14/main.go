// drive_c14: every kind of call (all NFSv3 and MOUNT procedures, well-formed / truncated / bit-flipped / junk-appended /
// random arguments, unknown programs, versions and procedures) in every server state, with the reply bytes exactly as
// EncodeRPCReply puts them on the wire, for the RFC 1813 / RFC 1831 grammar oracle of Corr/C14.v.
package main

import "verifharness/lib"

func main() { lib.Main() }
