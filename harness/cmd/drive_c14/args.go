package main

// An argument decoder of the driver's own (it shares no code with /repo and none with nfsx): does the byte string decode
// as the RFC 1813 argument type of (program, version, procedure) under the limits the server documents (file handles
// are the 8-byte handles this server issues, strings hold at most 8192 bytes and no NUL byte, WRITE's opaque length
// equals its count)?  Discriminants are read leniently (any non-zero "set_it" means set; unknown time_how / createhow
// values select the void arm), and bytes after the arguments are ignored, as ONC RPC servers customarily do: the verdict
// "does not decode" is therefore given only to argument strings that are short, over a limit, or inconsistent.
// It is the "arguments do not decode" predicate of the known-finding signature k=1 in Corr/C14.v.

type argRd struct {
	b   []byte
	bad bool
}

func (d *argRd) take(n int) []byte {
	if d.bad || n < 0 || len(d.b) < n {
		d.bad = true
		d.b = nil
		return nil
	}
	v := d.b[:n]
	d.b = d.b[n:]
	return v
}
func (d *argRd) u32() uint32 {
	v := d.take(4)
	if v == nil {
		return 0
	}
	return uint32(v[0])<<24 | uint32(v[1])<<16 | uint32(v[2])<<8 | uint32(v[3])
}
func (d *argRd) u64() uint64 { h := d.u32(); l := d.u32(); return uint64(h)<<32 | uint64(l) }
func (d *argRd) fh() {
	n := d.u32()
	if d.bad {
		return
	}
	if n != 8 {
		d.bad = true
		return
	}
	d.take(8)
}
func (d *argRd) str() {
	n := d.u32()
	if d.bad {
		return
	}
	if n > 8192 {
		d.bad = true
		return
	}
	v := d.take(int(n))
	for _, c := range v {
		if c == 0 {
			d.bad = true
		}
	}
	d.take(int((4 - n%4) % 4))
}
func (d *argRd) sattr() {
	for i := 0; i < 3; i++ { // mode, uid, gid
		if d.u32() != 0 {
			d.u32()
		}
	}
	if d.u32() != 0 { // size
		d.u64()
	}
	for i := 0; i < 2; i++ { // atime, mtime
		if d.u32() == 2 {
			d.u32()
			d.u32()
		}
	}
}

// argsDecode: prog/vers/proc outside NFSv3 0..21 and MOUNT v1/v3 0..5 have no argument type: true.
func argsDecode(prog, vers, proc uint32, body []byte) bool {
	d := &argRd{b: body}
	switch {
	case prog == 100003 && vers == 3:
		switch proc {
		case 1, 5, 18, 19, 20:
			d.fh()
		case 2:
			d.fh()
			d.sattr()
			if d.u32() != 0 {
				d.u32()
				d.u32()
			}
		case 3, 12, 13:
			d.fh()
			d.str()
		case 4:
			d.fh()
			d.u32()
		case 6, 21:
			d.fh()
			d.u64()
			d.u32()
		case 7:
			d.fh()
			d.u64()
			cnt := d.u32()
			d.u32()
			n := d.u32()
			if !d.bad && n != cnt {
				d.bad = true
			}
			d.take(int(n)) // padding is optional for this server
		case 8:
			d.fh()
			d.str()
			switch d.u32() {
			case 0, 1:
				d.sattr()
			case 2:
				d.take(8)
			}
		case 9:
			d.fh()
			d.str()
			d.sattr()
		case 10:
			d.fh()
			d.str()
			d.sattr()
			d.str()
		case 14:
			d.fh()
			d.str()
			d.fh()
			d.str()
		case 16:
			d.fh()
			d.u64()
			d.take(8)
			d.u32()
		case 17:
			d.fh()
			d.u64()
			d.take(8)
			d.u32()
			d.u32()
		}
		// 0 NULL: void.  11 MKNOD and 15 LINK: the server never refuses their arguments (it answers NOTSUPP whatever
		// follows), so "does not decode" is never claimed for them.
	case prog == 100005 && (vers == 1 || vers == 3):
		switch proc {
		case 1, 3:
			d.str()
		}
	}
	return !d.bad
}
