package main

// The connection-level limiter reply (server.go, handleConnectionLoop: AllowRequest refuses => MSG_DENIED reply) can
// only be seen on a socket: this case starts a real listener on a loopback port with record marking, sends a burst of
// well-formed and malformed calls over one TCP connection and records the replies read off the wire.

import (
	"encoding/binary"
	"fmt"
	"io"
	"net"
	"time"

	"github.com/absfs/absnfs"

	. "verifharness/lib"
	"verifharness/nfsx"
	"verifharness/specfs"
)

func sendRecord(c net.Conn, xid, prog, vers, proc uint32, body []byte) error {
	m := make([]byte, 0, 64+len(body))
	put := func(v uint32) { m = binary.BigEndian.AppendUint32(m, v) }
	put(xid)
	put(0) // CALL
	put(2) // RPC version
	put(prog)
	put(vers)
	put(proc)
	put(0) // AUTH_NONE credential
	put(0)
	put(0) // AUTH_NONE verifier
	put(0)
	m = append(m, body...)
	hdr := binary.BigEndian.AppendUint32(nil, uint32(len(m))|0x80000000)
	c.SetWriteDeadline(time.Now().Add(3 * time.Second))
	_, err := c.Write(append(hdr, m...))
	return err
}

func readRecord(c net.Conn) ([]byte, error) {
	c.SetReadDeadline(time.Now().Add(3 * time.Second))
	var rec []byte
	for {
		var hdr [4]byte
		if _, err := io.ReadFull(c, hdr[:]); err != nil {
			return nil, err
		}
		h := binary.BigEndian.Uint32(hdr[:])
		n := int(h & 0x7fffffff)
		if n > 1<<22 {
			return nil, fmt.Errorf("fragment too large")
		}
		frag := make([]byte, n)
		if _, err := io.ReadFull(c, frag); err != nil {
			return nil, err
		}
		rec = append(rec, frag...)
		if h&0x80000000 != 0 {
			return rec, nil
		}
	}
}

func genTCP(r *Rand, idx int) Case {
	absnfs.VerifSetClock(0) // socket deadlines need the real clock
	defer absnfs.VerifSetClock(nfsx.Clock0)
	burst := 3 + r.Intn(6)
	fs := specfs.New()
	populate(fs, 9)
	fs.Rec = false
	rl := rateLimitConfig()
	rl.PerIPRequestsPerSecond, rl.PerIPBurstSize = 0, burst // no refill: the (burst+1)-th request on is refused
	nfs, err := absnfs.New(fs, absnfs.ExportOptions{Squash: "none", EnableRateLimiting: true, RateLimitConfig: rl, TransferSize: 4096})
	if err != nil {
		panic(err)
	}
	tags := map[string]int{}
	var steps []*step
	fail := func(why string) Case {
		tags["tcp-unavailable"]++
		nfs.Close()
		return Case{Index: idx, Kind: "tcp", Coq: "(mkCase [])", Tags: tags, Text: "tcp case not run: " + why}
	}
	srv, err := absnfs.NewServer(absnfs.ServerOptions{Port: 0, Hostname: "127.0.0.1", UseRecordMarking: true})
	if err != nil {
		return fail(err.Error())
	}
	srv.SetHandler(nfs)
	if err := srv.Listen(); err != nil {
		return fail(err.Error())
	}
	conn, err := net.DialTimeout("tcp", fmt.Sprintf("127.0.0.1:%d", srv.GetPort()), 3*time.Second)
	if err != nil {
		srv.Stop()
		return fail(err.Error())
	}
	root := uint64(0)
	n := burst + 4 + r.Intn(8)
	for i := 0; i < n; i++ {
		xid := uint32(1000 + i*7)
		var prog, vers, proc uint32 = nfsx.ProgNFS, 3, 0
		var body []byte
		kind := "valid"
		switch {
		case i == 0:
			prog, proc = nfsx.ProgMount, 1
			body = (&nfsx.Req{Proc: "MNT", Name: []byte("/")}).Encode()
		case r.Chance(20):
			prog, vers, proc = uint32(PickInt(r, nfsx.ProgNFS, nfsx.ProgMount, 100021)), uint32(PickInt(r, 3, 3, 2)), uint32(r.Intn(24))
			kind = "noargs"
		default:
			proc = uint32(PickInt(r, 0, 1, 1, 3, 4, 6, 16, 17, 18, 19, 20))
			q := &nfsx.Req{Proc: nfsProcNames[proc], H: root, Name: []byte(PickStr(r, "a", "c", "nothere")), Cnt: 512, Max: 2048, Mask: 63}
			body = q.Encode()
			if r.Chance(25) {
				kind = PickStr(r, "trunc4", "flip", "junk")
				body = mutate(r, body, kind)
			}
		}
		st := &step{state: stNormal, prog: prog, vers: vers, proc: proc, xid: xid, kind: kind, body: body}
		st.argsOK = argsDecode(prog, vers, proc, body)
		if i >= burst {
			st.state = stConnLimited
		}
		if err := sendRecord(conn, xid, prog, vers, proc, body); err != nil {
			break
		}
		rec, err := readRecord(conn)
		statusTag := "noreply"
		if err == nil {
			st.got, st.reply = true, rec
			code, res := nfsx.ParseReply(rec, xid)
			statusTag = fmt.Sprintf("rpc%d", code)
			if code == 0 {
				statusTag = "void"
				if name := decodeName(prog, vers, proc); name != "" {
					st.obs = nfsx.Decode(name, res)
					if name != "NULL" {
						statusTag = fmt.Sprintf("st%d", st.obs.Status)
					}
					if i == 0 && st.obs.FH != nil {
						root = *st.obs.FH
					}
				}
			}
			tags["replies"]++
			if code == 2000 && st.state == stConnLimited {
				tags["conn-limiter-denials"]++
			}
		} else {
			tags["no-reply"]++
		}
		steps = append(steps, st)
		pl := procLabel(prog, vers, proc)
		tags["proc:"+pl]++
		tags["state:"+stateNames[st.state][2:]+"(tcp)"]++
		tags["kind:"+kind]++
		tags["status:"+statusTag]++
		tags["d:"+pl+"/"+stateNames[st.state][2:]+"(tcp)/"+kind+"/"+statusTag]++
		if err != nil {
			break
		}
	}
	conn.Close()
	srv.Stop()
	nfs.Close()
	cs := make([]string, len(steps))
	txt := make([]string, len(steps))
	for i, s := range steps {
		cs[i] = s.coq()
		txt[i] = fmt.Sprintf("%d: %s", i, s.text())
	}
	tags["steps"] = len(steps)
	text := fmt.Sprintf("cfg: loopback TCP, record marking, per-IP burst %d without refill\n", burst)
	for _, t := range txt {
		text += t + "\n"
	}
	return Case{Index: idx, Kind: "tcp", Coq: "(mkCase " + CList(cs) + ")", Tags: tags, Text: text}
}
