package main

import (
	"fmt"
	"strings"
	"time"

	"github.com/absfs/absnfs"

	. "verifharness/lib"
	"verifharness/nfsx"
	"verifharness/specfs"
)

// Cfg mirrors Srv.cfg.
type Cfg struct {
	Tsize                       int
	RO                          bool
	MaxFile                     int64
	AttrTTL                     time.Duration
	AttrCap                     int
	NegOn                       bool
	NegTTL                      time.Duration
	DirOn                       bool
	DirTTL                      time.Duration
	DirCap, DirMaxSize, MaxHand int
	Noise                       uint64 // bits choosing values for options that must not affect any reply (see Opts)
	Async                       bool   // ExportOptions.Async (documented "allow async writes"); not part of Srv.cfg
	Squash                      string // "" = none; not part of Srv.cfg: the Coq side is given the EFFECTIVE credentials
}

func (c Cfg) Opts() absnfs.ExportOptions {
	o := c.baseOpts()
	// options that configure transport, pooling, timeouts and logging: whatever their values, no reply to a request
	// made through the handlers may depend on them (the code-level model has no such parameters)
	n := c.Noise
	bit := func() bool { b := n&1 != 0; n >>= 1; return b }
	if bit() {
		o.Async = true
	}
	if bit() {
		o.MaxWorkers = []int{1, 4, 64}[n%3]
		n >>= 2
	}
	if bit() {
		o.MaxConnections = []int{1, 7, 1000}[n%3]
		n >>= 2
	}
	if bit() {
		o.IdleTimeout = []time.Duration{time.Second, 5 * time.Minute, time.Hour}[n%3]
		n >>= 2
	}
	o.TCPKeepAlive, o.TCPNoDelay = bit(), bit()
	if bit() {
		o.SendBufferSize, o.ReceiveBufferSize = 4096, 8192
	}
	if bit() {
		o.Timeouts = &absnfs.TimeoutConfig{ReadTimeout: 40 * time.Second, WriteTimeout: 50 * time.Second, LookupTimeout: 45 * time.Second,
			ReaddirTimeout: 35 * time.Second}
	}
	return o
}

func (c Cfg) baseOpts() absnfs.ExportOptions {
	return absnfs.ExportOptions{ReadOnly: c.RO, Async: c.Async, MaxFileSize: c.MaxFile, TransferSize: c.Tsize,
		AttrCacheTimeout: c.AttrTTL, AttrCacheSize: c.AttrCap, CacheNegativeLookups: c.NegOn, NegativeCacheTimeout: c.NegTTL,
		EnableDirCache: c.DirOn, DirCacheTimeout: c.DirTTL, DirCacheMaxEntries: c.DirCap, DirCacheMaxDirSize: c.DirMaxSize,
		Squash: map[bool]string{true: "none", false: c.Squash}[c.Squash == ""]}
}

// Effective returns the identity the server must act under for raw credential c (squashing as configured).
func (c Cfg) Effective(raw nfsx.Cred) nfsx.Cred {
	e := nfsx.Cred{Uid: raw.Uid, Gid: raw.Gid, Aux: append([]uint32(nil), raw.Aux...)}
	switch c.Squash {
	case "root":
		if raw.Uid == 0 {
			e.Uid, e.Gid = 65534, 65534
		} else if raw.Gid == 0 {
			e.Gid = 65534
		}
		for i, g := range e.Aux {
			if g == 0 {
				e.Aux[i] = 65534
			}
		}
	case "all":
		e.Uid, e.Gid = 65534, 65534
		for i := range e.Aux {
			e.Aux[i] = 65534
		}
	}
	return e
}
func (c Cfg) Coq() string {
	return fmt.Sprintf("{| tsize := %d; ro := %s; maxfile := %d; attr_ttl := %d; attr_cap := %d; neg_on := %s; neg_ttl := %d; dir_on := %s; dir_ttl := %d; dir_cap := %d; dir_maxsize := %d |}",
		c.Tsize, CBool(c.RO), c.MaxFile, c.AttrTTL.Nanoseconds(), c.AttrCap, CBool(c.NegOn), c.NegTTL.Nanoseconds(),
		CBool(c.DirOn), c.DirTTL.Nanoseconds(), c.DirCap, c.DirMaxSize)
}
func (c Cfg) Text() string {
	return fmt.Sprintf("tsize=%d ro=%v maxfile=%d attr=%v/%d neg=%v/%v dir=%v/%v/%d/%d maxh=%d", c.Tsize, c.RO, c.MaxFile, c.AttrTTL, c.AttrCap,
		c.NegOn, c.NegTTL, c.DirOn, c.DirTTL, c.DirCap, c.DirMaxSize, c.MaxHand) + map[bool]string{true: "", false: " squash=" + c.Squash}[c.Squash == ""]
}

func genCfg(r *Rand) Cfg {
	return Cfg{
		Tsize:   PickInt(r, 16, 64, 64, 65536, 65536),
		AttrTTL: []time.Duration{1, 50 * time.Millisecond, 5 * time.Second, 5 * time.Second}[r.Intn(4)],
		AttrCap: PickInt(r, 1, 3, 10000, 10000),
		NegOn:   r.Bool(), NegTTL: []time.Duration{1, 50 * time.Millisecond, 5 * time.Second}[r.Intn(3)],
		DirOn: r.Bool(), DirTTL: []time.Duration{1, 50 * time.Millisecond, 10 * time.Second}[r.Intn(3)],
		DirCap: PickInt(r, 1, 2, 1000), DirMaxSize: PickInt(r, 2, 10000, 10000),
		MaxHand: PickInt(r, 0, 0, 0, 3, 6),
		Noise:   r.U64(),
	}
}

// Step is one executed request with everything observed.
type Step struct {
	AdvNs int64
	Cred  nfsx.Cred
	Req   *nfsx.Req
	Obs   *nfsx.Obs
	Calls []specfs.Call
	NH    int
	Dump  []specfs.Entry
	Obs2  *nfsx.Obs
	Crash [][]specfs.Entry // durable dumps after each backend call (only when Session.TrackCrash)
}

func (s *Step) Coq() string {
	obs2 := "None"
	if s.Obs2 != nil {
		obs2 = "(Some " + s.Obs2.Coq() + ")"
	}
	cr := make([]string, len(s.Crash))
	for i, d := range s.Crash {
		cr[i] = nfsx.CoqDump(d)
	}
	crash := CList(cr)
	verf := "None"
	if s.Obs.Verf != nil {
		verf = fmt.Sprintf("(Some %d)", *s.Obs.Verf)
	}
	var raw []string
	for _, c := range s.Calls {
		raw = append(raw, CBytes([]byte(c.Path)))
		if c.Op == "Rename" {
			raw = append(raw, CBytes([]byte(c.Path2)))
		}
	}
	return fmt.Sprintf("{| i_step := {| hs_adv := %d; hs_cred := %s; hs_req := %s |}; i_rpc := %d; i_obs := %s; i_calls := %s; i_raw := %s; i_nh := %d; i_reslen := %d; i_dump := %s; i_obs2 := %s; i_crash := %s; i_verf := %s |}",
		s.AdvNs, nfsx.CoqCred(s.Cred), s.Req.Coq(), s.Obs.RPC, s.Obs.Coq(), nfsx.CoqCalls(s.Calls), CList(raw), s.NH, len(s.Obs.Raw), nfsx.CoqDump(s.Dump), obs2, crash, verf)
}
func (s *Step) Text() string {
	adv := ""
	if s.AdvNs != 0 {
		adv = fmt.Sprintf("+%v ", time.Duration(s.AdvNs))
	}
	return fmt.Sprintf("%s[%d:%d] %s => %s {%s}", adv, s.Cred.Uid, s.Cred.Gid, s.Req.Text(), s.Obs.Text(), nfsx.CallsText(s.Calls))
}

// Session runs a history.
type Session struct {
	Cfg   Cfg
	Env   *nfsx.Env
	Init  []specfs.Entry
	Twin  *nfsx.Env // optional second server with minimal caches, fed the same requests
	twinLag int64
	TrackCrash bool // record the durable tree after every backend call
	Steps []*Step
	// what the generator knows
	Handles []uint64
	Links   []uint64 // handles whose LOOKUP reply described a symbolic link
	Origin  map[uint64][2]interface{} // handle -> (parent handle, name) it was obtained with
	Tags    map[string]int
}

// NewSession builds a server over a fresh specfs; populate (optional) fills the backend directly
// (not through the server) before the first request.
// LinkSizeZeroNext makes the next NewSession use a backend whose lstat reports size 0 for symbolic links.
var LinkSizeZeroNext bool

func NewSession(c Cfg, populate func(fs *specfs.FS)) *Session {
	env, err := nfsx.NewEnv(c.Opts(), c.MaxHand)
	if err != nil {
		panic(err)
	}
	env.FS.LinkSizeZero, LinkSizeZeroNext = LinkSizeZeroNext, false
	if populate != nil {
		populate(env.FS)
		env.FS.TakeLog()
	}
	return &Session{Cfg: c, Env: env, Init: env.FS.Dump(false), Tags: map[string]int{}}
}

func (s *Session) Do(advNs int64, c nfsx.Cred, r *nfsx.Req) *Step {
	// the twin executes 2 ns after the primary (so that its 1 ns caches never answer); that shift is part
	// of the next step's declared clock advance
	if advNs != 0 {
		absnfs.VerifAdvanceClock(advNs)
	}
	advNs += s.twinLag // already applied to the clock when the twin ran
	s.twinLag = 0
	s.Env.FS.TakeLog()
	var crash [][]specfs.Entry
	if s.TrackCrash {
		s.Env.FS.AfterOp = func(specfs.Call) { crash = append(crash, s.Env.FS.DumpLocked(true)) }
	}
	o := s.Env.Do(c, r)
	s.Env.FS.AfterOp = nil
	// the model and the oracles are given the identity the server must act under (after squashing)
	st := &Step{Crash: crash, AdvNs: advNs, Cred: s.Cfg.Effective(c), Req: r, Obs: o, Calls: s.Env.FS.TakeLog(), NH: s.Env.NFS.VerifFileMap().Count(), Dump: s.Env.FS.Dump(false)}
	if s.Twin != nil {
		absnfs.VerifAdvanceClock(2)
		s.twinLag = 2
		st.Obs2 = s.Twin.Do(c, r)
	}
	s.Steps = append(s.Steps, st)
	add := func(h uint64) {
		for _, x := range s.Handles {
			if x == h {
				return
			}
		}
		s.Handles = append(s.Handles, h)
	}
	if o.FH != nil {
		add(*o.FH)
		if r.Proc == "LOOKUP" && len(o.Attrs) > 0 && o.Attrs[0] != nil && o.Attrs[0].Type == 5 {
			s.Links = append(s.Links, *o.FH)
		}
		if r.Name != nil && r.Proc != "MNT" {
			if s.Origin == nil {
				s.Origin = map[uint64][2]interface{}{}
			}
			s.Origin[*o.FH] = [2]interface{}{r.H, append([]byte{}, r.Name...)}
		}
	}
	for _, e := range o.Entries {
		if e.FH != nil {
			add(*e.FH)
			if s.Origin == nil {
				s.Origin = map[uint64][2]interface{}{}
			}
			s.Origin[*e.FH] = [2]interface{}{r.H, append([]byte{}, e.Name...)}
			if e.Attr != nil && e.Attr.Type == 5 {
				s.Links = append(s.Links, *e.FH)
			}
		}
	}
	s.Tags["op:"+r.Proc]++
	s.Tags[fmt.Sprintf("status:%d", o.Status)]++
	if o.RPC != 0 {
		s.Tags[fmt.Sprintf("rpc:%d", o.RPC)]++
	}
	for _, c := range st.Calls {
		if c.Mutating() && c.Err == "" {
			s.Tags["backend-mutations"]++
		}
	}
	return st
}

func (s *Session) Case(kind string, idx int) Case {
	steps := make([]string, len(s.Steps))
	txt := make([]string, len(s.Steps))
	for i, st := range s.Steps {
		steps[i] = st.Coq()
		txt[i] = fmt.Sprintf("%d: %s", i, st.Text())
	}
	s.Tags["steps"] = len(s.Steps)
	coq := fmt.Sprintf("{| c_cfg := %s; c_maxh := %s; c_init := %s; c_steps := %s |}", s.Cfg.Coq(), CZ(int64(s.Cfg.MaxHand)), nfsx.CoqDump(s.Init), CList(steps))
	s.Env.Close()
	if s.Twin != nil {
		s.Twin.Close()
	}
	return Case{Index: idx, Kind: kind, Coq: coq, Tags: s.Tags, Text: "cfg: " + s.Cfg.Text() + "\n" + strings.Join(txt, "\n")}
}

func u32p(v uint32) *uint32 { return &v }
func u64p(v uint64) *uint64 { return &v }

var goodNames = []string{"a", "b", "c", "d", "ee", "é", "名"} // two of them non-ASCII (multi-byte paths)
var oddNames = []string{"", ".", "..", "a/b", "a\\b", "x..y", "..x", "\x00", "a\x00b", strings.Repeat("n", 255), strings.Repeat("n", 256),
	// multi-byte names around the 255-BYTE limit: 256 and 258 bytes in 128 / 86 runes (refused), exactly 255 bytes (accepted)
	strings.Repeat("é", 128), strings.Repeat("日", 86), strings.Repeat("x", 253) + "é", strings.Repeat("é", 127) + "x", "名前"}

func (s *Session) pickHandle(r *Rand) uint64 {
	if len(s.Handles) == 0 || r.Chance(4) {
		return PickU64(r, 0, 999, 77)
	}
	if r.Chance(30) {
		return s.Handles[0] // usually the root
	}
	if r.Chance(40) { // recency bias: one of the three most recently learnt handles
		k := len(s.Handles) - 1 - r.Intn(3)
		if k < 0 {
			k = 0
		}
		return s.Handles[k]
	}
	return s.Handles[r.Intn(len(s.Handles))]
}
func pickName(r *Rand, oddPct int) []byte {
	if r.Chance(oddPct) {
		return []byte(oddNames[r.Intn(len(oddNames))])
	}
	return []byte(goodNames[r.Intn(len(goodNames))])
}
func pickCred(r *Rand) nfsx.Cred {
	switch r.Intn(4) {
	case 0:
		return nfsx.Cred{Uid: 0, Gid: 0}
	case 1:
		return nfsx.Cred{Uid: 1000, Gid: 100, Aux: []uint32{5, 0}}
	case 2:
		return nfsx.Cred{Uid: 1001, Gid: 0}
	}
	return nfsx.Cred{Uid: 1000, Gid: 1000}
}
func pickAdv(r *Rand) int64 {
	switch r.Intn(12) {
	case 0:
		return 1
	case 1:
		return int64(time.Millisecond)
	case 2:
		return int64(60 * time.Millisecond)
	case 3:
		return int64(6 * time.Second)
	case 4:
		return int64(11 * time.Second)
	}
	return 0
}
func pickSattr(r *Rand, sizePct int) nfsx.Sattr {
	var sa nfsx.Sattr
	if r.Chance(40) {
		sa.Mode = u32p(uint32(PickInt(r, 0, 0644, 0600, 0777, 0755, 04755, 0x4000, 0x8000|0644, 1<<27, 0170000|0644)))
	}
	if r.Chance(25) {
		sa.Uid = u32p(uint32(PickInt(r, 0, 1000, 4242)))
	}
	if r.Chance(25) {
		sa.Gid = u32p(uint32(PickInt(r, 0, 100, 4343)))
	}
	if r.Chance(sizePct) {
		sa.Size = u64p(PickU64(r, 0, 0, 1, 5, 10, 100, 1<<63-1, 1<<63))
	}
	return sa
}
