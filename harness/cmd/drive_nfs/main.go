// drive_nfs: request histories against the real NFS/MOUNT procedure handlers over specfs
// (C01 C02 C03 C04 C06 C07 C08 C11 C25 and the wire side of C05).
package main

import "verifharness/lib"

func main() { lib.Main() }
