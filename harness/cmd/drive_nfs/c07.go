package main

import (
	"strings"

	. "verifharness/lib"
	"verifharness/nfsx"
	"verifharness/specfs"
)

// C07: adversarial names and symlink targets in every name-taking procedure.
var advAlphabet = []byte{'a', '.', '/', '\\', 0, 0x80}

func init() {
	Props["C07"] = &Prop{
		Imports: srvImports + "Corr.C07.",
		Gen:     genC07,
		Corpus:  corpusC07,
		NonTrivial: func(c *Case) bool {
			return c.Tags["odd-names"] > 0
		},
		ShardSize: 20,
	}
}

func advString(r *Rand, maxLen int) []byte {
	n := r.Intn(maxLen + 1)
	b := make([]byte, n)
	for i := range b {
		b[i] = advAlphabet[r.Intn(len(advAlphabet))]
	}
	return b
}
func advName(r *Rand) []byte {
	switch r.Intn(10) {
	case 0:
		return []byte(strings.Repeat("a", PickInt(r, 254, 255, 256, 257)))
	case 1:
		n := 300 + r.Intn(8800)
		b := make([]byte, n)
		for i := range b {
			b[i] = byte('a' + r.Intn(26))
		}
		return b
	case 2, 3:
		return []byte(goodNames[r.Intn(len(goodNames))])
	}
	return advString(r, 4)
}
func advTarget(r *Rand) []byte {
	switch r.Intn(8) {
	case 0:
		return []byte(PickStr(r, "a/b/../c", "../../etc", "a/..", "..", "./..", "/abs", "a//b", "a/./b", "x/..y", "..x/y", "a/b/c"))
	case 1:
		return []byte(goodNames[r.Intn(len(goodNames))])
	}
	return advString(r, 5)
}

func c07Step(r *Rand, s *Session) {
	procs := []string{"LOOKUP", "CREATE", "MKDIR", "SYMLINK", "REMOVE", "RMDIR", "RENAME", "MKNOD", "LINK", "MNT", "READLINK", "READDIRPLUS", "READDIR"}
	proc := procs[r.Intn(len(procs))]
	q := genReq(r, s, proc, 0)
	odd := false
	switch proc {
	case "LOOKUP", "CREATE", "MKDIR", "REMOVE", "RMDIR", "MKNOD", "LINK":
		q.Name = advName(r)
		odd = true
	case "SYMLINK":
		if r.Bool() {
			q.Name = advName(r)
		}
		q.Target = advTarget(r)
		odd = true
	case "RENAME":
		if r.Bool() {
			q.Name = advName(r)
		} else {
			q.Name2 = advName(r)
		}
		odd = true
	case "MNT":
		q.Name = append([]byte("/"), advString(r, 6)...)
		if r.Chance(20) {
			q.Name = advString(r, 5)
		}
		odd = true
	}
	if odd {
		s.Tags["odd-names"]++
	}
	s.Do(0, pickCred(r), q)
}

func genC07(r *Rand, idx int, tier string) Case {
	cfg := genCfg(r)
	var pop func(fs *specfs.FS)
	if r.Bool() {
		pop = func(fs *specfs.FS) {
			// backend-held symlinks the server did not create: READLINK must filter them
			fs.Mkdir("/a", 0755)
			fs.Symlink("../outside", "/up")
			fs.Symlink("a/../../x", "/mid")
			fs.Symlink("/etc/passwd", "/abs")
			fs.Symlink("a", "/ok")
			fs.Symlink("..x/y", "/dots")
		}
	}
	s := NewSession(cfg, pop)
	root := nfsx.Cred{}
	s.Do(0, root, &nfsx.Req{Proc: "MNT", Name: []byte("/")})
	s.Do(0, root, &nfsx.Req{Proc: "READDIRPLUS", H: 1, Cnt: 4096, Max: 32768})
	n := 15 + r.Intn(25)
	for i := 0; i < n; i++ {
		if r.Chance(25) {
			proc := pickProc(r, defaultWeights)
			s.Do(pickAdv(r), pickCred(r), genReq(r, s, proc, 10))
		} else {
			c07Step(r, s)
		}
	}
	return s.Case("adversarial-names", idx)
}

// corpusC07: bounded-exhaustive names over the adversarial alphabet up to length 3 in LOOKUP/CREATE/MKDIR
// (length 4 is covered by the random stream), split over a few cases.
func corpusC07() []Case {
	var names [][]byte
	var rec func(cur []byte, n int)
	rec = func(cur []byte, n int) {
		names = append(names, append([]byte{}, cur...))
		if n == 0 {
			return
		}
		for _, c := range advAlphabet {
			rec(append(cur, c), n-1)
		}
	}
	rec(nil, 3)
	var out []Case
	procs := []string{"LOOKUP", "CREATE", "MKDIR", "REMOVE", "RMDIR", "SYMLINK", "RENAME"}
	for pi, proc := range procs {
		cfg := Cfg{Tsize: 65536, AttrTTL: 5e9, AttrCap: 10000, NegOn: true, NegTTL: 5e9, DirOn: true, DirTTL: 1e10, DirCap: 1000, DirMaxSize: 10000}
		s := NewSession(cfg, nil)
		s.Do(0, nfsx.Cred{}, &nfsx.Req{Proc: "MNT", Name: []byte("/")})
		for _, n := range names {
			q := &nfsx.Req{Proc: proc, H: 1, Name: n, H2: 1, Name2: []byte("zz"), Target: []byte("t")}
			if proc == "SYMLINK" {
				q.Name, q.Target = []byte("ln"), n
			}
			s.Tags["odd-names"]++
			s.Do(0, nfsx.Cred{}, q)
		}
		out = append(out, s.Case("exhaustive-len3-"+proc, pi))
	}
	return out
}
