package main

import (
	"fmt"
	"strings"

	. "verifharness/lib"
	"verifharness/nfsx"
	"verifharness/specfs"
)

// C26: directories of 0..40 entries with names of every length class; complete traversals following
// the returned cookies for count/maxcount values from 0 upward; dir cache on and off.
func init() {
	Props["C26"] = &Prop{Imports: srvImports + "Corr.C26.", Gen: genC26, ShardSize: 6,
		NonTrivial: func(c *Case) bool { return c.Tags["multi-page-traversals"] > 0 }}
}

func genC26(r *Rand, idx int, tier string) Case {
	cfg := genCfg(r)
	cfg.MaxHand = 0
	nent := PickInt(r, 0, 1, 2, 3, 5, 8, 13, 20, 40)
	if tier == "quick" {
		// every step carries the backend dump: keep the quick tier's terms small (the 40-entry directories with
		// one-entry pages stay in the thorough tier and in stream C26x)
		nent = PickInt(r, 0, 1, 2, 3, 5, 8, 13, 20)
	}
	// one case in ten: a big directory read with big limits (few pages, so the terms stay small): a server-side cap on
	// the entries per reply must still end with eof only at the end of the directory
	big := r.Chance(10)
	if big {
		nent = PickInt(r, 129, 150, 300)
		if tier == "quick" {
			nent = PickInt(r, 129, 150)
		}
	}
	lens := []int{1, 2, 3, 4, 5, 7, 8, 63, 64, 254, 255}
	var names []string
	for i := 0; i < nent; i++ {
		l := lens[r.Intn(len(lens))]
		if r.Chance(70) {
			l = 1 + r.Intn(8)
		}
		base := fmt.Sprintf("%d", i)
		if l < len(base) {
			l = len(base)
		}
		names = append(names, base+strings.Repeat(string(rune('a'+r.Intn(26))), l-len(base)))
	}
	pop := func(fs *specfs.FS) {
		fs.Mkdir("/d", 0755)
		for i, n := range names {
			switch i % 3 {
			case 0:
				f, _ := fs.Create("/d/" + n)
				f.Close()
			case 1:
				fs.Mkdir("/d/"+n, 0755)
			case 2:
				fs.Symlink("x", "/d/"+n)
			}
		}
	}
	s := NewSession(cfg, pop)
	root := nfsx.Cred{}
	s.Do(0, root, &nfsx.Req{Proc: "MNT", Name: []byte("/")})
	st := s.Do(0, root, &nfsx.Req{Proc: "LOOKUP", H: 1, Name: []byte("d")})
	if st.Obs.FH == nil {
		return s.Case("setup-failed", idx)
	}
	d := *st.Obs.FH
	ntrav := 3 + r.Intn(4)
	if tier == "quick" {
		ntrav = 2 + r.Intn(3)
	}
	if big {
		ntrav = 2
	}
	for t := 0; t < ntrav; t++ {
		plus := r.Bool()
		// limits hitting every size residue: header is 100 bytes, entries 24+pad(len) (+104 for plus), trailer 8
		limit := uint32(PickInt(r, 0, 50, 100, 108, 131, 132, 133, 140, 160, 200, 236, 240, 300, 400, 512, 700, 1000, 4096, 9000, 100+r.Intn(900)))
		// dircount (READDIRPLUS): a hint; whatever the client says the traversal must still be complete
		dircount := uint32(PickInt(r, 4096, 4096, 0, 1, 8, 23, 24, 100, 512, 1<<20))
		if big {
			limit = uint32(PickInt(r, 32768, 65536, 1<<20))
			s.Tags["big-directory-traversals"]++
		}
		cookie := uint64(0)
		pages := 0
		for guard := 0; guard < 60; guard++ {
			q := &nfsx.Req{Proc: "READDIR", H: d, Cookie: cookie, Cnt: limit}
			if plus {
				q = &nfsx.Req{Proc: "READDIRPLUS", H: d, Cookie: cookie, Cnt: dircount, Max: limit}
			}
			o := s.Do(pickAdv(r), root, q).Obs
			pages++
			if o.RPC != 0 || o.Status != 0 || o.EOF || len(o.Entries) == 0 {
				break
			}
			cookie = o.Entries[len(o.Entries)-1].Cookie
		}
		if pages > 1 {
			s.Tags["multi-page-traversals"]++
		}
		s.Tags["traversals"]++
		// between traversals, sometimes change the directory (not during one)
		if r.Chance(30) {
			s.Do(0, root, &nfsx.Req{Proc: PickStr(r, "CREATE", "MKDIR", "REMOVE"), H: d, Name: []byte(PickStr(r, "zz", "0", "1a", "new"))})
		}
	}
	return s.Case(fmt.Sprintf("dir-%d-entries", nent), idx)
}
