package main

import (
	"fmt"
	"time"

	. "verifharness/lib"
	"verifharness/nfsx"
)

func init() {
	Props["C01"] = &Prop{Imports: srvImports + "Corr.C01.", Gen: genC01, Corpus: corpusC01, ShardSize: 20,
		NonTrivial: func(c *Case) bool { return c.Tags["op:WRITE"] > 0 && c.Tags["op:READ"] > 0 }}
	Props["C03"] = &Prop{Imports: srvImports + "Corr.C03.", Gen: genC03, ShardSize: 30,
		NonTrivial: func(c *Case) bool { return c.Tags["existing-target"] > 0 }}
	Props["C11"] = &Prop{Imports: srvImports + "Corr.C11.", Gen: genC11, ShardSize: 25,
		NonTrivial: func(c *Case) bool { return c.Tags["nonroot-owner-requests"] > 0 }}
	Props["C25"] = &Prop{Imports: srvImports + "Corr.C25.", Gen: genC25, ShardSize: 25,
		NonTrivial: func(c *Case) bool { return c.Tags["status:27"] > 0 }}
}

var offsC01 = []uint64{0, 0, 0, 1, 2, 3, 5, 8, 15, 16, 17, 31, 32, 63, 64, 65, 100, 1 << 31, 1<<31 + 1, 1<<32 - 1, 1 << 32, 1<<63 - 40, 1<<63 - 2, 1<<63 - 1, 1 << 63, 1<<63 + 1, 1<<64 - 1}

func randData(r *Rand, n int) []byte {
	b := make([]byte, n)
	for i := range b {
		b[i] = byte(PickInt(r, 0, 'A'+r.Intn(26), 'a'+r.Intn(26), 255, 1))
	}
	return b
}

// C01: WRITE/READ/SETATTR(size)/CREATE on 1-3 files, every attribute-cache setting
func genC01(r *Rand, idx int, tier string) Case {
	cfg := genCfg(r)
	cfg.Tsize = PickInt(r, 1, 7, 16, 64, 65536)
	cfg.MaxHand = 0
	s := NewSession(cfg, nil)
	root := nfsx.Cred{}
	s.Do(0, root, &nfsx.Req{Proc: "MNT", Name: []byte("/")})
	nfiles := 1 + r.Intn(3)
	var fh []uint64
	for i := 0; i < nfiles; i++ {
		st := s.Do(0, root, &nfsx.Req{Proc: "CREATE", H: 1, Name: []byte(goodNames[i]), How: 0})
		if st.Obs.FH != nil {
			fh = append(fh, *st.Obs.FH)
		}
	}
	n := 15 + r.Intn(25)
	near := r.Chance(25) // this history plays near 2^63
	for i := 0; i < n && len(fh) > 0; i++ {
		h := fh[r.Intn(len(fh))]
		off := offsC01[r.Intn(17)]
		if near {
			off = offsC01[17+r.Intn(len(offsC01)-17)]
		}
		switch x := r.Intn(100); {
		case x < 40:
			cnt := PickInt(r, 0, 1, 2, 3, cfg.Tsize-1, cfg.Tsize, cfg.Tsize+1, cfg.Tsize+2, 5, 9)
			if cnt < 0 {
				cnt = 0
			}
			if cnt > 80 {
				cnt = PickInt(r, 0, 1, 5, 17, 40)
			}
			s.Do(pickAdv(r), root, &nfsx.Req{Proc: "WRITE", H: h, Off: off, Cnt: uint32(cnt), Stable: uint32(r.Intn(3)), Data: randData(r, cnt)})
		case x < 75:
			cnt := PickInt(r, 0, 1, 2, cfg.Tsize-1, cfg.Tsize, cfg.Tsize+1, cfg.Tsize+2, 100, 70000)
			if cnt < 0 {
				cnt = 0
			}
			if cnt > 200 && cnt != 70000 {
				cnt = 200
			}
			s.Do(pickAdv(r), root, &nfsx.Req{Proc: "READ", H: h, Off: off, Cnt: uint32(cnt)})
		case x < 88:
			sz := PickU64(r, 0, 1, 3, 10, 33, 100, off)
			s.Do(pickAdv(r), root, &nfsx.Req{Proc: "SETATTR", H: h, Sa: nfsx.Sattr{Size: &sz}})
		case x < 94:
			how := uint32(PickInt(r, 0, 0, 1, 2))
			q := &nfsx.Req{Proc: "CREATE", H: 1, Name: []byte(goodNames[r.Intn(nfiles)]), How: how}
			if r.Chance(30) {
				q.Sa.Size = u64p(PickU64(r, 0, 4))
			}
			s.Do(pickAdv(r), root, q)
		case x < 97:
			s.Do(pickAdv(r), root, &nfsx.Req{Proc: "GETATTR", H: h})
		default:
			s.Do(pickAdv(r), root, &nfsx.Req{Proc: "COMMIT", H: h})
		}
	}
	k := "small-offsets"
	if near {
		k = "near-2^63"
	}
	return s.Case(k, idx)
}

func corpusC01() []Case {
	cfg := Cfg{Tsize: 16, AttrTTL: 5 * time.Second, AttrCap: 10000, NegTTL: 5 * time.Second, DirTTL: 10 * time.Second, DirCap: 1000, DirMaxSize: 10000}
	s := NewSession(cfg, nil)
	root := nfsx.Cred{}
	s.Do(0, root, &nfsx.Req{Proc: "MNT", Name: []byte("/")})
	h := *s.Do(0, root, &nfsx.Req{Proc: "CREATE", H: 1, Name: []byte("f")}).Obs.FH
	w := func(off uint64, d string) {
		s.Do(0, root, &nfsx.Req{Proc: "WRITE", H: h, Off: off, Cnt: uint32(len(d)), Data: []byte(d)})
	}
	rd := func(off uint64, c uint32) { s.Do(0, root, &nfsx.Req{Proc: "READ", H: h, Off: off, Cnt: c}) }
	w(0, "hello")
	rd(0, 5)
	rd(0, 100)
	rd(5, 1)
	rd(4, 1)
	w(10, "XY") // hole 5..9
	rd(3, 16)
	rd(0, 17)
	w(1<<63-3, "ab") // last writable bytes
	rd(1<<63-3, 4)
	w(1<<63-1, "z") // would end at 2^63: refused by the backend contract
	rd(1<<63, 1)
	rd(1<<64-1, 1)
	rd(1<<64-1, 0)
	s.Do(0, root, &nfsx.Req{Proc: "SETATTR", H: h, Sa: nfsx.Sattr{Size: u64p(3)}})
	rd(0, 16)
	s.Do(0, root, &nfsx.Req{Proc: "SETATTR", H: h, Sa: nfsx.Sattr{Size: u64p(8)}})
	rd(0, 16)
	w(2, "")
	rd(0, 16)
	return []Case{s.Case("boundaries", 0)}
}

// C03: mode x existing kind x sattr mask x (data present) - one CREATE per freshly prepared target
func genC03(r *Rand, idx int, tier string) Case {
	cfg := genCfg(r)
	cfg.MaxHand = 0
	s := NewSession(cfg, nil)
	root := nfsx.Cred{}
	s.Do(0, root, &nfsx.Req{Proc: "MNT", Name: []byte("/")})
	for i := 0; i < 10; i++ {
		name := []byte(fmt.Sprintf("t%d", i))
		kind := (idx + i) % 4 // none, file with data, dir, symlink
		switch kind {
		case 1:
			st := s.Do(0, root, &nfsx.Req{Proc: "CREATE", H: 1, Name: name, How: 0})
			if st.Obs.FH != nil {
				s.Do(0, root, &nfsx.Req{Proc: "WRITE", H: *st.Obs.FH, Off: 0, Cnt: 5, Data: []byte("hello")})
			}
		case 2:
			s.Do(0, root, &nfsx.Req{Proc: "MKDIR", H: 1, Name: name})
		case 3:
			s.Do(0, root, &nfsx.Req{Proc: "SYMLINK", H: 1, Name: name, Target: []byte(PickStr(r, "t0", "t1", "nothere"))})
		}
		if kind != 0 {
			s.Tags["existing-target"]++
		}
		if r.Chance(30) {
			s.Do(pickAdv(r), pickCred(r), &nfsx.Req{Proc: "LOOKUP", H: 1, Name: name}) // warm / negative cache
		}
		how := uint32((idx/4 + i) % 3)
		mask := r.Intn(64)
		var sa nfsx.Sattr
		if mask&1 != 0 {
			sa.Mode = u32p(uint32(PickInt(r, 0600, 0644, 0)))
		}
		if mask&2 != 0 {
			sa.Uid = u32p(1000)
		}
		if mask&4 != 0 {
			sa.Gid = u32p(100)
		}
		if mask&8 != 0 {
			sa.Size = u64p(PickU64(r, 0, 0, 2, 5, 9))
		}
		s.Do(pickAdv(r), pickCred(r), &nfsx.Req{Proc: "CREATE", H: 1, Name: name, How: how, Sa: sa})
		if r.Chance(50) { // a retransmission-like second create
			s.Do(0, pickCred(r), &nfsx.Req{Proc: "CREATE", H: 1, Name: name, How: uint32(r.Intn(3)), Sa: sa})
			s.Tags["existing-target"]++
		}
	}
	return s.Case("create-product", idx)
}

// C11: every squash-relevant identity x sattr uid/gid in SETATTR, CREATE, MKDIR, SYMLINK
func genC11(r *Rand, idx int, tier string) Case {
	cfg := genCfg(r)
	cfg.MaxHand = 0
	// half of the cases on squashing exports: the raw credential on the wire and the identity in force differ
	cfg.Squash = PickStr(r, "", "", "root", "all")
	s := NewSession(cfg, popTree(NewRand(r.U64(), 3)))
	root := nfsx.Cred{}
	s.Do(0, root, &nfsx.Req{Proc: "MNT", Name: []byte("/")})
	s.Do(0, root, &nfsx.Req{Proc: "READDIRPLUS", H: 1, Cnt: 4096, Max: 32768})
	ids := []uint32{0, 1, 1000, 65534, 65535, 1 << 31, 1<<32 - 1}
	n := 20 + r.Intn(20)
	for i := 0; i < n; i++ {
		c := nfsx.Cred{Uid: ids[r.Intn(len(ids))], Gid: ids[r.Intn(len(ids))]}
		if r.Chance(40) {
			c.Uid = 0
		}
		var sa nfsx.Sattr
		if r.Chance(60) {
			sa.Uid = u32p(ids[r.Intn(len(ids))])
		}
		if r.Chance(60) {
			sa.Gid = u32p(ids[r.Intn(len(ids))])
		}
		if r.Chance(20) {
			sa.Mode = u32p(uint32(PickInt(r, 0600, 0755)))
		}
		if c.Uid != 0 && (sa.Uid != nil || sa.Gid != nil) {
			s.Tags["nonroot-owner-requests"]++
		}
		if e := cfg.Effective(c); e.Uid != c.Uid || e.Gid != c.Gid {
			s.Tags["raw-differs-from-effective"]++
			if c.Uid == 0 && (sa.Uid != nil || sa.Gid != nil) {
				s.Tags["squashed-root-owner-requests"]++
			}
		}
		proc := PickStr(r, "SETATTR", "SETATTR", "CREATE", "MKDIR", "SYMLINK")
		q := &nfsx.Req{Proc: proc, H: s.pickHandle(r), Name: pickName(r, 0), Sa: sa, Target: []byte("a"), How: uint32(r.Intn(2))}
		s.Do(pickAdv(r), c, q)
		if r.Chance(15) {
			s.Do(0, pickCred(r), genReq(r, s, PickStr(r, "REMOVE", "RMDIR", "RENAME", "LOOKUP"), 0))
		}
	}
	return s.Case("ownership", idx)
}

// C25: offsets/counts/sizes around the limit, limit set at construction or at runtime
func genC25(r *Rand, idx int, tier string) Case {
	cfg := genCfg(r)
	cfg.MaxHand = 0
	cfg.Tsize = PickInt(r, 16, 64, 65536)
	limit := int64(PickInt(r, 1, 5, 10, 16, 17, 100))
	atConstruction := r.Bool()
	if atConstruction {
		cfg.MaxFile = limit
	}
	s := NewSession(cfg, nil)
	root := nfsx.Cred{}
	s.Do(0, root, &nfsx.Req{Proc: "MNT", Name: []byte("/")})
	var fh []uint64
	for i := 0; i < 2; i++ {
		st := s.Do(0, root, &nfsx.Req{Proc: "CREATE", H: 1, Name: []byte(goodNames[i])})
		if st.Obs.FH != nil {
			fh = append(fh, *st.Obs.FH)
		}
	}
	if !atConstruction {
		// grow a file beyond the future limit first, then set the limit at runtime
		s.Do(0, root, &nfsx.Req{Proc: "WRITE", H: fh[0], Off: uint64(limit), Cnt: 4, Data: []byte("wxyz")})
		s.Do(0, root, &nfsx.Req{Proc: "SETMAXFILE", Off: uint64(limit)})
	}
	n := 15 + r.Intn(20)
	for i := 0; i < n; i++ {
		h := fh[r.Intn(len(fh))]
		L := uint64(limit)
		switch x := r.Intn(100); {
		case x < 50:
			cnt := PickInt(r, 0, 1, 2, 3, 16)
			off := PickU64(r, 0, L-1, L, L+1, L/2, sat(L, uint64(cnt)), sat(L, uint64(cnt))+1, 1<<63-1, 1<<64-1)
			s.Do(0, root, &nfsx.Req{Proc: "WRITE", H: h, Off: off, Cnt: uint32(cnt), Data: randData(r, cnt)})
		case x < 80:
			s.Do(0, root, &nfsx.Req{Proc: "SETATTR", H: h, Sa: nfsx.Sattr{Size: u64p(PickU64(r, 0, L-1, L, L+1, 2*L, 1<<63-1, 1<<63))}})
		case x < 90:
			s.Do(0, root, &nfsx.Req{Proc: "READ", H: h, Off: 0, Cnt: 64})
		case x < 95:
			s.Do(0, root, &nfsx.Req{Proc: "SETMAXFILE", Off: PickU64(r, 0, L, L+3, 2)})
		default:
			s.Do(0, root, &nfsx.Req{Proc: "CREATE", H: 1, Name: []byte(goodNames[r.Intn(2)]), Sa: nfsx.Sattr{Size: u64p(PickU64(r, 0, L+1))}})
		}
	}
	k := "limit-at-runtime"
	if atConstruction {
		k = "limit-at-construction"
	}
	return s.Case(k, idx)
}

func sat(a, b uint64) uint64 {
	if b > a {
		return 0
	}
	return a - b
}

// C03x: the backend changes UNDERNEATH the server (another export of the same tree, a local writer) while the
// server holds cache entries about the names involved - negative entries in particular - and a CREATE of such a
// name follows.  The external change is made directly on the backend just before a NULL request, whose recorded
// tree therefore shows it.  Judged by the C03 oracle alone (the code-level model knows nothing of external writers).
func init() {
	Props["C03x"] = &Prop{Imports: srvImports + "Corr.C03x.", Gen: genC03x, ShardSize: 25,
		NonTrivial: func(c *Case) bool { return c.Tags["external-creates"] > 0 }}
}

func genC03x(r *Rand, idx int, tier string) Case {
	cfg := genCfg(r)
	cfg.MaxHand = 0
	cfg.NegOn, cfg.NegTTL = r.Chance(75), 5*1e9
	cfg.AttrTTL = 5 * 1e9
	s := NewSession(cfg, popTree(NewRand(r.U64(), 3)))
	root := nfsx.Cred{}
	s.Do(0, root, &nfsx.Req{Proc: "MNT", Name: []byte("/")})
	n := 3 + r.Intn(4)
	for i := 0; i < n; i++ {
		nm := []byte(PickStr(r, "b", "x1", "x2", "new", "é"))
		// the server learns that the name does not exist (negative entry when enabled), or nothing at all
		if r.Chance(80) {
			s.Do(pickAdv(r), root, &nfsx.Req{Proc: "LOOKUP", H: 1, Name: nm})
		}
		// somebody else creates it, with data
		if f, err := s.Env.FS.Create("/" + string(nm)); err == nil {
			f.WriteAt([]byte("precious data"), 0)
			f.Sync()
			f.Close()
			s.Tags["external-creates"]++
		}
		s.Do(0, root, &nfsx.Req{Proc: "NULL"})
		q := &nfsx.Req{Proc: "CREATE", H: 1, Name: nm, How: uint32(r.Intn(3))}
		if r.Chance(30) {
			q.Sa.Size = u64p(PickU64(r, 0, 4, 40))
		}
		if r.Chance(30) {
			q.Sa.Mode = u32p(0600)
		}
		s.Do(pickAdv(r), pickCred(r), q)
		s.Do(0, root, &nfsx.Req{Proc: "LOOKUP", H: 1, Name: nm})
		if r.Chance(50) {
			// and somebody else removes it again
			s.Env.FS.Remove("/" + string(nm))
			s.Do(0, root, &nfsx.Req{Proc: "NULL"})
			s.Do(0, root, &nfsx.Req{Proc: "CREATE", H: 1, Name: nm, How: uint32(r.Intn(2))})
		}
	}
	return s.Case("external-writer", idx)
}
