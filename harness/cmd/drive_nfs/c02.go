package main

import (
	"time"

	. "verifharness/lib"
	"verifharness/nfsx"
)

// C02: sequential namespace histories; every cache configuration; a twin server with minimal caches is
// fed the same requests.  The main stream is alias-free by construction: handles are only obtained from
// MNT "/" and from replies, names have no ".." substring, and no path passes through a symlink (the
// procedures that take a parent handle now refuse non-directories).
func init() {
	Props["C02"] = &Prop{Imports: srvImports + "Corr.C02.", Gen: genC02, Corpus: corpusC02, ShardSize: 15,
		NonTrivial: func(c *Case) bool { return c.Tags["backend-mutations"] > 2 }}
}

func minimalCaches(c Cfg) Cfg {
	c.AttrTTL, c.AttrCap, c.NegOn, c.DirOn = 1, 10000, false, false
	return c
}

func newTwinSession(cfg Cfg) *Session {
	s := NewSession(cfg, nil)
	tw, err := nfsx.NewEnv(minimalCaches(cfg).Opts(), cfg.MaxHand)
	if err != nil {
		panic(err)
	}
	s.Twin = tw
	return s
}

var c02Weights = map[string]int{"LOOKUP": 20, "CREATE": 10, "MKDIR": 10, "SYMLINK": 5, "REMOVE": 9, "RMDIR": 6, "RENAME": 9,
	"READDIR": 6, "READDIRPLUS": 7, "GETATTR": 8, "READLINK": 4}

func genC02(r *Rand, idx int, tier string) Case {
	cfg := genCfg(r)
	cfg.MaxHand = 0
	// all 2^3 cache on/off combinations x TTLs
	cfg.NegOn, cfg.DirOn = idx&1 != 0, idx&2 != 0
	if idx&4 != 0 {
		cfg.AttrTTL = 1
	} else {
		cfg.AttrTTL = []time.Duration{50 * time.Millisecond, 5 * time.Second}[r.Intn(2)]
	}
	s := newTwinSession(cfg)
	root := nfsx.Cred{}
	s.Do(0, root, &nfsx.Req{Proc: "MNT", Name: []byte("/")})
	var nestD uint64
	var nestDir, nestChild []byte
	if r.Chance(60) {
		// nested set-up: a directory with children whose attributes / listing / negative entries are cached
		dn := pickName(r, 0)
		if st := s.Do(0, root, &nfsx.Req{Proc: "MKDIR", H: 1, Name: dn}); st.Obs.FH != nil {
			d := *st.Obs.FH
			nestD, nestDir = d, dn
			for k := 0; k < 1+r.Intn(3); k++ {
				cn := pickName(r, 0)
				nestChild = cn
				s.Do(0, root, &nfsx.Req{Proc: PickStr(r, "CREATE", "MKDIR", "LOOKUP"), H: d, Name: cn})
				s.Do(pickAdv(r), root, &nfsx.Req{Proc: "LOOKUP", H: d, Name: cn})
			}
			s.Do(0, root, &nfsx.Req{Proc: PickStr(r, "READDIR", "READDIRPLUS"), H: d, Cnt: 4096, Max: 32768})
		}
	}
	n := 20 + r.Intn(40)
	var lastName []byte
	probeAt := -1
	if nestD != 0 && r.Chance(50) {
		probeAt = r.Intn(n)
	}
	for i := 0; i < n; i++ {
		if i == probeAt {
			// move (or remove and re-create) the directory, then use its old handle and its children again
			switch r.Intn(3) {
			case 0, 1:
				s.Do(pickAdv(r), root, &nfsx.Req{Proc: "RENAME", H: 1, Name: nestDir, H2: 1, Name2: pickName(r, 0)})
			case 2:
				s.Do(pickAdv(r), root, &nfsx.Req{Proc: "REMOVE", H: nestD, Name: nestChild})
				s.Do(0, root, &nfsx.Req{Proc: "RMDIR", H: 1, Name: nestDir})
			}
			s.Do(0, root, &nfsx.Req{Proc: "LOOKUP", H: nestD, Name: nestChild})
			s.Do(0, root, &nfsx.Req{Proc: PickStr(r, "READDIR", "READDIRPLUS", "GETATTR"), H: nestD, Cnt: 4096, Max: 32768})
			s.Do(0, root, &nfsx.Req{Proc: "LOOKUP", H: 1, Name: nestDir})
		}
		if r.Chance(8) {
			// a file that certainly exists and is cached, resized through CREATE UNCHECKED (the one namespace request
			// that changes an existing object's attributes), then looked at again
			h, nm := s.pickHandle(r), pickName(r, 0)
			s.Do(pickAdv(r), root, &nfsx.Req{Proc: "CREATE", H: h, Name: nm, How: 0})
			s.Do(0, root, &nfsx.Req{Proc: "LOOKUP", H: h, Name: nm})
			s.Do(pickAdv(r), root, &nfsx.Req{Proc: "CREATE", H: h, Name: nm, How: 0, Sa: nfsx.Sattr{Size: u64p(PickU64(r, 0, 3, 7, 12))}})
			s.Do(0, root, &nfsx.Req{Proc: "LOOKUP", H: h, Name: nm})
			s.Tags["create-resize-probes"]++
		}
		proc := pickProc(r, c02Weights)
		q := genReq(r, s, proc, 0)
		// name recency bias: operate again on the name just used (lookup-then-create, create-then-lookup,
		// rename-then-lookup ... are the sequences caches get wrong)
		if lastName != nil && q.Name != nil && r.Chance(45) {
			q.Name = lastName
		}
		if q.Name != nil {
			lastName = q.Name
		}
		if proc == "RENAME" && r.Chance(60) {
			q.H2 = q.H
		}
		q.Sa = nfsx.Sattr{}
		if proc == "SYMLINK" {
			q.Target = []byte(PickStr(r, "a", "b", "c/d", "nothere"))
		}
		if proc == "CREATE" {
			q.How = uint32(r.Intn(2))
			if r.Chance(30) {
				q.Sa.Size = u64p(PickU64(r, 0, 3, 7))
			}
		}
		s.Do(pickAdv(r), root, q)
	}
	return s.Case("namespace", idx)
}

func corpusC02() []Case {
	var out []Case
	mk := func(neg, dir bool) *Session {
		cfg := Cfg{Tsize: 65536, AttrTTL: 5 * time.Second, AttrCap: 10000, NegOn: neg, NegTTL: 5 * time.Second,
			DirOn: dir, DirTTL: 10 * time.Second, DirCap: 1000, DirMaxSize: 10000}
		s := newTwinSession(cfg)
		s.Do(0, nfsx.Cred{}, &nfsx.Req{Proc: "MNT", Name: []byte("/")})
		return s
	}
	root := nfsx.Cred{}
	// negative entry, then MKDIR of the same name (the unrepaired server replied NOENT and hid the directory)
	s := mk(true, true)
	s.Do(0, root, &nfsx.Req{Proc: "READDIR", H: 1, Cnt: 4096})
	s.Do(0, root, &nfsx.Req{Proc: "LOOKUP", H: 1, Name: []byte("d")})
	s.Do(0, root, &nfsx.Req{Proc: "MKDIR", H: 1, Name: []byte("d")})
	s.Do(0, root, &nfsx.Req{Proc: "LOOKUP", H: 1, Name: []byte("d")})
	s.Do(0, root, &nfsx.Req{Proc: "READDIR", H: 1, Cnt: 4096})
	out = append(out, s.Case("negative-then-mkdir", 0))
	// directory rename with cached children
	s = mk(true, true)
	d := *s.Do(0, root, &nfsx.Req{Proc: "MKDIR", H: 1, Name: []byte("d")}).Obs.FH
	s.Do(0, root, &nfsx.Req{Proc: "CREATE", H: d, Name: []byte("x")})
	s.Do(0, root, &nfsx.Req{Proc: "LOOKUP", H: d, Name: []byte("x")})
	s.Do(0, root, &nfsx.Req{Proc: "READDIRPLUS", H: d, Cnt: 4096, Max: 32768})
	s.Do(0, root, &nfsx.Req{Proc: "RENAME", H: 1, Name: []byte("d"), H2: 1, Name2: []byte("e")})
	s.Do(0, root, &nfsx.Req{Proc: "LOOKUP", H: d, Name: []byte("x")})
	s.Do(0, root, &nfsx.Req{Proc: "READDIR", H: d, Cnt: 4096})
	s.Do(0, root, &nfsx.Req{Proc: "LOOKUP", H: 1, Name: []byte("e")})
	out = append(out, s.Case("rename-directory-with-cached-children", 1))
	// negative entry below a directory that is removed and whose ancestor becomes a regular file
	s = mk(true, true)
	a := *s.Do(0, root, &nfsx.Req{Proc: "MKDIR", H: 1, Name: []byte("a")}).Obs.FH
	b := *s.Do(0, root, &nfsx.Req{Proc: "MKDIR", H: a, Name: []byte("b")}).Obs.FH
	s.Do(0, root, &nfsx.Req{Proc: "LOOKUP", H: b, Name: []byte("c")})
	s.Do(0, root, &nfsx.Req{Proc: "RMDIR", H: a, Name: []byte("b")})
	s.Do(0, root, &nfsx.Req{Proc: "RMDIR", H: 1, Name: []byte("a")})
	s.Do(0, root, &nfsx.Req{Proc: "CREATE", H: 1, Name: []byte("a")})
	s.Do(0, root, &nfsx.Req{Proc: "LOOKUP", H: b, Name: []byte("c")})
	out = append(out, s.Case("negative-entry-below-removed-directory", 2))
	// ... and the variant where the negative entry is cached after the removals, before a regular file takes the name
	s = mk(true, true)
	a = *s.Do(0, root, &nfsx.Req{Proc: "MKDIR", H: 1, Name: []byte("a")}).Obs.FH
	b = *s.Do(0, root, &nfsx.Req{Proc: "MKDIR", H: a, Name: []byte("b")}).Obs.FH
	s.Do(0, root, &nfsx.Req{Proc: "RMDIR", H: a, Name: []byte("b")})
	s.Do(0, root, &nfsx.Req{Proc: "RMDIR", H: 1, Name: []byte("a")})
	s.Do(0, root, &nfsx.Req{Proc: "LOOKUP", H: b, Name: []byte("c")})
	s.Do(0, root, &nfsx.Req{Proc: "CREATE", H: 1, Name: []byte("a")})
	s.Do(0, root, &nfsx.Req{Proc: "LOOKUP", H: b, Name: []byte("c")})
	out = append(out, s.Case("negative-entry-below-new-file", 3))
	return out
}
