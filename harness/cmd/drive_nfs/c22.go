package main

import (
	"fmt"

	"github.com/absfs/absnfs"

	. "verifharness/lib"
	"verifharness/nfsx"
)

// C22: WRITE (all three stable_how values) / COMMIT / SETATTR(size) / CREATE / REMOVE / RENAME histories on a few
// files; the durable tree (what a crash would leave) is recorded after every backend call of every request;
// a second server instance created later supplies the second write verifier.
func init() {
	Props["C22"] = &Prop{Imports: srvImports + "Corr.C22.", Gen: genC22, ShardSize: 10,
		NonTrivial: func(c *Case) bool { return c.Tags["op:WRITE"] > 1 && c.Tags["crash-points"] > 10 }}
}

func genC22(r *Rand, idx int, tier string) Case {
	cfg := genCfg(r)
	cfg.MaxHand = 0
	cfg.Tsize = PickInt(r, 16, 64, 65536)
	// the documented Async export option must not weaken what WRITE / COMMIT replies promise
	cfg.Async = r.Bool()
	s := NewSession(cfg, nil)
	s.TrackCrash = true
	if cfg.Async {
		s.Tags["async-export"]++
	}
	root := nfsx.Cred{}
	s.Do(0, root, &nfsx.Req{Proc: "MNT", Name: []byte("/")})
	var fh []uint64
	for i := 0; i < 2; i++ {
		if st := s.Do(0, root, &nfsx.Req{Proc: "CREATE", H: 1, Name: []byte(goodNames[i])}); st.Obs.FH != nil {
			fh = append(fh, *st.Obs.FH)
		}
	}
	n := 12 + r.Intn(18)
	for i := 0; i < n && len(fh) > 0; i++ {
		h := fh[r.Intn(len(fh))]
		switch x := r.Intn(100); {
		case x < 50:
			cnt := PickInt(r, 0, 1, 3, 8, 16)
			s.Do(pickAdv(r), root, &nfsx.Req{Proc: "WRITE", H: h, Off: PickU64(r, 0, 0, 2, 5, 10, 20), Cnt: uint32(cnt), Stable: uint32(r.Intn(3)), Data: randData(r, cnt)})
		case x < 62:
			// count 0 = "to the end of the file" (what clients send); sometimes an explicit range
			s.Do(0, root, &nfsx.Req{Proc: "COMMIT", H: h, Off: PickU64(r, 0, 0, 0, 2), Cnt: uint32(PickInt(r, 0, 0, 0, 8, 64))})
		case x < 74:
			s.Do(0, root, &nfsx.Req{Proc: "SETATTR", H: h, Sa: nfsx.Sattr{Size: u64p(PickU64(r, 0, 3, 12, 30))}})
		case x < 82:
			s.Do(0, root, &nfsx.Req{Proc: "READ", H: h, Off: 0, Cnt: 64})
		case x < 88:
			s.Do(0, root, &nfsx.Req{Proc: "CREATE", H: 1, Name: []byte(goodNames[r.Intn(3)]), How: uint32(r.Intn(2)), Sa: nfsx.Sattr{Size: u64p(PickU64(r, 0, 4))}})
		case x < 94:
			s.Do(0, root, &nfsx.Req{Proc: "RENAME", H: 1, Name: []byte(goodNames[r.Intn(3)]), H2: 1, Name2: []byte(goodNames[r.Intn(3)])})
		default:
			s.Do(0, root, &nfsx.Req{Proc: "REMOVE", H: 1, Name: []byte(goodNames[r.Intn(3)])})
		}
	}
	for _, st := range s.Steps {
		s.Tags["crash-points"] += len(st.Crash)
	}
	// a second instance, created later: its verifier must differ
	absnfs.VerifAdvanceClock(int64(1 + r.Intn(1000)))
	v2 := "None"
	if env2, err := nfsx.NewEnvKeepClock(cfg.Opts(), 0); err == nil {
		env2.Do(root, &nfsx.Req{Proc: "MNT", Name: []byte("/")})
		if o := env2.Do(root, &nfsx.Req{Proc: "CREATE", H: 1, Name: []byte("v")}); o.FH != nil {
			if w := env2.Do(root, &nfsx.Req{Proc: "WRITE", H: *o.FH, Off: 0, Cnt: 1, Data: []byte("x")}); w.Verf != nil {
				v2 = fmt.Sprintf("(Some %d)", *w.Verf)
			}
		}
		env2.Close()
	}
	c := s.Case("crash-points", idx)
	c.Coq = fmt.Sprintf("{| base := %s; verf_second_instance := %s |}", c.Coq, v2)
	return c
}
