package main

import (
	"fmt"
	"strings"

	"github.com/absfs/absnfs"

	. "verifharness/lib"
	"verifharness/nfsx"
	"verifharness/specfs"
)

const srvImports = "From Verif Require Import Model.Handles Model.Backend Model.Srv Corr.SrvCase "

func init() {
	// request-level histories over a populated tree; read-only from construction or switched at runtime
	Props["C08"] = &Prop{
		Imports: srvImports + "Corr.C08.",
		Gen: func(r *Rand, idx int, tier string) Case {
			w := map[string]int{}
			for k, v := range defaultWeights {
				w[k] = v
			}
			for _, p := range []string{"SETATTR", "WRITE", "CREATE", "MKDIR", "SYMLINK", "REMOVE", "RMDIR", "RENAME", "COMMIT", "ACCESS"} {
				w[p] += 6
			}
			seed := r.U64()
			o := histOpts{weights: w, ro: r.Chance(60), populate: fullTree(seed), oddNamePct: 8}
			if r.Chance(50) {
				o.adminPct = 6
			}
			c := genHistory(r, idx, o)
			if o.ro {
				c.Kind = "ro-at-construction"
			} else {
				c.Kind = "rw-then-switched"
			}
			return c
		},
		NonTrivial: func(c *Case) bool { return c.Tags["status:30"] > 0 },
		ShardSize:  25,
	}
	Props["C08g"] = &Prop{
		Imports:    "From Verif Require Import Corr.C08g.",
		Gen:        genC08g,
		NonTrivial: func(c *Case) bool { return c.Tags["ro-steps"] > 0 },
		ShardSize:  100,
	}
}

// fullTree always populates (same shape as popTree's non-nil branch).
func fullTree(seed uint64) func(fs *specfs.FS) {
	return func(fs *specfs.FS) {
		r := NewRand(seed, 7)
		for {
			if f := popTree(r); f != nil {
				f(fs)
				return
			}
		}
	}
}

// genC08g: raw argument bytes (valid, truncated at every 4-byte boundary, bit-flipped, random) to every
// NFS procedure number 0..23 and MOUNT 0..6, with ReadOnly on (mostly) or off.
func genC08g(r *Rand, idx int, tier string) Case {
	cfg := genCfg(r)
	cfg.RO = r.Chance(80)
	s := NewSession(cfg, fullTree(r.U64()))
	root := nfsx.Cred{}
	s.Do(0, root, &nfsx.Req{Proc: "MNT", Name: []byte("/")})
	// learn a few handles while writable is irrelevant: LOOKUPs work on a read-only export too
	for _, n := range []string{"a", "c", "d"} {
		s.Do(0, root, &nfsx.Req{Proc: "LOOKUP", H: 1, Name: []byte(n)})
	}
	var steps, txt []string
	tags := map[string]int{}
	ro := cfg.RO
	n := 25 + r.Intn(25)
	for i := 0; i < n; i++ {
		if r.Chance(4) {
			ro = !ro
			s.Env.Admin(&nfsx.Req{Proc: "SETRO", Cnt: b2u(ro)})
			continue
		}
		prog, proc := uint32(nfsx.ProgNFS), uint32(r.Intn(24))
		if r.Chance(8) {
			prog, proc = nfsx.ProgMount, uint32(r.Intn(7))
		}
		var body []byte
		kind := r.Intn(5)
		procName := procNameOf(prog, proc)
		if procName != "" && kind != 4 {
			q := genReq(r, s, procName, 10)
			body = q.Encode()
			switch kind {
			case 1: // truncate at a 4-byte boundary (or anywhere)
				if len(body) > 0 {
					cut := r.Intn(len(body) + 1)
					if r.Bool() {
						cut &^= 3
					}
					body = body[:cut]
				}
			case 2: // flip bytes
				for k := 0; k < 1+r.Intn(3) && len(body) > 0; k++ {
					body[r.Intn(len(body))] ^= byte(1 << uint(r.Intn(8)))
				}
			case 3: // append junk
				for k := 0; k < r.Intn(9); k++ {
					body = append(body, byte(r.Intn(256)))
				}
			}
		} else {
			body = make([]byte, r.Intn(64))
			for k := range body {
				body[k] = byte(r.Intn(256))
			}
		}
		before := s.Env.FS.Dump(false)
		s.Env.FS.TakeLog()
		wire, xid, ok := s.Env.WireCall(prog, 3, proc, pickCred(r), body)
		calls := s.Env.FS.TakeLog()
		after := s.Env.FS.Dump(false)
		rpc, status, access := uint32(3000), "None", "None"
		if ok {
			var res []byte
			rpc, res = nfsx.ParseReply(wire, xid)
			if rpc == 0 && len(res) >= 4 && !(prog == nfsx.ProgNFS && proc == 0) {
				st := uint32(res[0])<<24 | uint32(res[1])<<16 | uint32(res[2])<<8 | uint32(res[3])
				status = fmt.Sprintf("(Some %d)", st)
				if prog == nfsx.ProgNFS && proc == 4 && st == 0 {
					o := nfsx.Decode("ACCESS", res)
					if o.Trail == 0 && len(o.Nums) == 1 {
						access = fmt.Sprintf("(Some %d)", o.Nums[0])
					}
				}
			}
		}
		mut := 0
		for _, c := range calls {
			if c.Mutating() {
				mut++
			}
		}
		changed := fmt.Sprint(before) != fmt.Sprint(after)
		steps = append(steps, fmt.Sprintf("{| g_ro := %s; g_prog := %d; g_proc := %d; g_rpc := %d; g_status := %s; g_access := %s; g_mutcalls := %d; g_tree_changed := %s |}",
			CBool(ro), prog, proc, rpc, status, access, mut, CBool(changed)))
		txt = append(txt, fmt.Sprintf("ro=%v prog=%d proc=%d kind=%d body=%x => rpc=%d status=%s mut=%d changed=%v {%s}", ro, prog, proc, kind, body, rpc, status, mut, changed, nfsx.CallsText(calls)))
		tags[fmt.Sprintf("kind:%d", kind)]++
		if ro {
			tags["ro-steps"]++
		}
		tags["steps"]++
	}
	s.Env.Close()
	return Case{Index: idx, Kind: "raw-args", Coq: "{| c_steps := " + CList(steps) + " |}", Tags: tags, Text: strings.Join(txt, "\n")}
}

func b2u(b bool) uint32 {
	if b {
		return 1
	}
	return 0
}

var nfsProcNames = []string{"NULL", "GETATTR", "SETATTR", "LOOKUP", "ACCESS", "READLINK", "READ", "WRITE", "CREATE", "MKDIR", "SYMLINK",
	"MKNOD", "REMOVE", "RMDIR", "RENAME", "LINK", "READDIR", "READDIRPLUS", "FSSTAT", "FSINFO", "PATHCONF", "COMMIT"}

func procNameOf(prog, proc uint32) string {
	if prog == nfsx.ProgNFS && int(proc) < len(nfsProcNames) {
		return nfsProcNames[proc]
	}
	if prog == nfsx.ProgMount && proc == 1 {
		return "MNT"
	}
	return ""
}

var _ = absnfs.Version
