package main

import (
	"os"
	. "verifharness/lib"
	"verifharness/nfsx"
	"verifharness/specfs"
)

// SRV: general request histories; the full-fidelity stream used to validate Model/Srv.v as a whole.
func init() {
	Props["SRV"] = &Prop{
		Imports: "From Verif Require Import Model.Handles Model.Backend Model.Srv Corr.SrvCase Corr.SRV.",
		Gen: func(r *Rand, idx int, tier string) Case {
			return genHistory(r, idx, histOpts{adminPct: 3, populate: popTree(r)})
		},
		NonTrivial: func(c *Case) bool { return c.Tags["backend-mutations"] > 0 },
		ShardSize:  25,
	}
}

type histOpts struct {
	oddNamePct int
	weights    map[string]int
	ro         bool
	maxFile    int64
	steps      int
	populate   func(fs *specfs.FS)
	adminPct   int
	recency    int // percent: reuse the name of the previous name-taking request
	sandwich   int // percent: wrap a mutating request in LOOKUPs of the name it affects (cache staleness probe)
}

var defaultWeights = map[string]int{"LOOKUP": 14, "CREATE": 10, "MKDIR": 8, "SYMLINK": 5, "REMOVE": 6, "RMDIR": 4, "RENAME": 6,
	"READDIR": 4, "READDIRPLUS": 5, "GETATTR": 6, "SETATTR": 6, "READ": 6, "WRITE": 8, "ACCESS": 3, "READLINK": 3, "COMMIT": 1,
	"FSINFO": 1, "FSSTAT": 1, "PATHCONF": 1, "MKNOD": 1, "LINK": 1, "NULL": 1, "MNT": 2}

func pickProc(r *Rand, w map[string]int) string {
	procs := []string{"LOOKUP", "CREATE", "MKDIR", "SYMLINK", "REMOVE", "RMDIR", "RENAME", "READDIR", "READDIRPLUS", "GETATTR",
		"SETATTR", "READ", "WRITE", "ACCESS", "READLINK", "COMMIT", "FSINFO", "FSSTAT", "PATHCONF", "MKNOD", "LINK", "NULL", "MNT"}
	tot := 0
	for _, p := range procs {
		tot += w[p]
	}
	x := r.Intn(tot)
	for _, p := range procs {
		x -= w[p]
		if x < 0 {
			return p
		}
	}
	return "NULL"
}

func genReq(r *Rand, s *Session, proc string, oddPct int) *nfsx.Req {
	q := &nfsx.Req{Proc: proc, H: s.pickHandle(r)}
	switch proc {
	case "LOOKUP", "REMOVE", "RMDIR", "MKNOD":
		q.Name = pickName(r, oddPct)
	case "CREATE":
		q.Name = pickName(r, oddPct)
		q.How = uint32(PickInt(r, 0, 0, 1, 1, 2, 3))
		q.Sa = pickSattr(r, 20)
	case "MKDIR":
		q.Name = pickName(r, oddPct)
		q.Sa = pickSattr(r, 0)
	case "SYMLINK":
		q.Name = pickName(r, oddPct)
		q.Sa = pickSattr(r, 0)
		q.Target = []byte(PickStr(r, "a", "b", "c/d", "a/b", "nothere", "../x", "/etc/passwd", "", "a/../b", "x/..", "..", "./a", "a//b", "a\x00b"))
	case "RENAME":
		q.Name = pickName(r, oddPct)
		q.H2 = s.pickHandle(r)
		q.Name2 = pickName(r, oddPct)
	case "LINK":
		q.H2 = s.pickHandle(r)
		q.Name = pickName(r, oddPct)
	case "SETATTR":
		q.Sa = pickSattr(r, 30)
		if r.Chance(10) {
			q.Guard = &[2]uint32{uint32(PickInt(r, 1000000, 1000, 0)), 0}
		}
	case "ACCESS":
		q.Mask = uint32(r.Intn(64))
		if r.Chance(10) {
			q.Mask = uint32(r.U64())
		}
	case "READ":
		q.Off = PickU64(r, 0, 0, 1, 3, 5, 10, 100, 1<<31, 1<<63-1, 1<<63, 1<<64-1)
		q.Cnt = uint32(PickInt(r, 0, 1, 4, 16, 17, 64, 100, 70000))
	case "WRITE":
		q.Off = PickU64(r, 0, 0, 0, 1, 3, 5, 10, 20, 100, 1<<31, 1<<63-2, 1<<63-1, 1<<63, 1<<64-1)
		n := PickInt(r, 0, 1, 3, 4, 8, 16, 17, 40)
		q.Data = make([]byte, n)
		for i := range q.Data {
			q.Data[i] = byte(PickInt(r, 0, 65+r.Intn(26), 255))
		}
		q.Cnt = uint32(n)
		q.Stable = uint32(r.Intn(3))
	case "READDIR":
		q.Cookie = uint64(PickInt(r, 0, 0, 0, 1, 2, 5))
		q.Cnt = uint32(PickInt(r, 0, 50, 100, 130, 160, 200, 512, 4096))
	case "READDIRPLUS":
		q.Cookie = uint64(PickInt(r, 0, 0, 0, 1, 2, 5))
		q.Cnt = 4096
		q.Max = uint32(PickInt(r, 0, 100, 250, 400, 512, 700, 4096, 32768))
	case "COMMIT":
		q.Off, q.Cnt = 0, 0
	case "MNT":
		q.Name = []byte(PickStr(r, "/", "/", "/a", "/a/b", "//a/", "/a/../b", "/..", "a", "", "/./a/.", "/nothere", "/a\x00"))
	}
	return q
}

func genHistory(r *Rand, idx int, o histOpts) Case {
	cfg := genCfg(r)
	cfg.RO, cfg.MaxFile = o.ro, o.maxFile
	s := NewSession(cfg, o.populate)
	root := nfsx.Cred{}
	s.Do(0, root, &nfsx.Req{Proc: "MNT", Name: []byte("/")})
	w := o.weights
	if w == nil {
		w = defaultWeights
	}
	n := o.steps
	if n == 0 {
		n = 12 + r.Intn(28)
	}
	odd := o.oddNamePct
	if odd == 0 {
		odd = 6
	}
	var lastName []byte
	var lastH uint64
	for i := 0; i < n; i++ {
		if o.adminPct > 0 && r.Chance(o.adminPct) {
			switch r.Intn(3) {
			case 0:
				s.Do(0, root, &nfsx.Req{Proc: "SETRO", Cnt: uint32(r.Intn(2))})
			case 1:
				s.Do(0, root, &nfsx.Req{Proc: "SETMAXFILE", Off: PickU64(r, 0, 5, 10, 100)})
			case 2:
				s.Do(0, root, &nfsx.Req{Proc: "SETTSIZE", Cnt: uint32(PickInt(r, 1, 7, 16, 64, 65536))})
			}
			continue
		}
		proc := pickProc(r, w)
		q := genReq(r, s, proc, odd)
		if o.recency > 0 && lastName != nil && q.Name != nil && proc != "MNT" && r.Chance(o.recency) {
			q.Name = lastName
			if r.Chance(50) {
				q.H = lastH
			}
		}
		if q.Name != nil && proc != "MNT" {
			lastName, lastH = q.Name, q.H
		}
		viaLink := false
		if o.sandwich > 0 && len(s.Links) > 0 && (proc == "WRITE" || proc == "SETATTR" || proc == "READ") && r.Chance(20) {
			// data and attribute requests through the handle of a symbolic link (they must be refused, not follow it)
			q.H = s.Links[r.Intn(len(s.Links))]
			s.Tags["via-link-handle"]++
			viaLink = true
		}
		var ph uint64
		var pn []byte
		if o.sandwich > 0 && (viaLink || r.Chance(o.sandwich)) {
			switch proc {
			case "CREATE", "MKDIR", "SYMLINK", "REMOVE", "RMDIR", "RENAME":
				ph, pn = q.H, q.Name
			case "WRITE", "SETATTR":
				if og, ok := s.Origin[q.H]; ok {
					ph, pn = og[0].(uint64), og[1].([]byte)
				}
			}
		}
		// requests through a handle can reach another name (a link's target): sweep the directory more often there
		sweep := pn != nil && (viaLink || r.Chance(map[bool]int{true: 70, false: 30}[proc == "WRITE" || proc == "SETATTR"]))
		probe := func(adv int64) {
			if sweep {
				// every ordinary name of that directory: effects on OTHER names (a link's target, the other end of a
				// rename) show up as stale cache entries too
				for _, n := range goodNames {
					s.Do(adv, root, &nfsx.Req{Proc: "LOOKUP", H: ph, Name: []byte(n)})
					adv = 0
				}
				return
			}
			s.Do(adv, root, &nfsx.Req{Proc: "LOOKUP", H: ph, Name: pn})
		}
		if pn != nil {
			if proc == "CREATE" && r.Chance(60) {
				// the branch that changes an existing object: UNCHECKED with a size
				q.How = 0
				q.Sa.Size = u64p(PickU64(r, 0, 1, 5, 10, 100))
			}
			probe(pickAdv(r))
			s.Tags["sandwiches"]++
			if sweep {
				s.Tags["sweep-sandwiches"]++
			}
		}
		s.Do(pickAdv(r), pickCred(r), q)
		if pn != nil {
			probe(0)
			if proc == "RENAME" {
				s.Do(0, root, &nfsx.Req{Proc: "LOOKUP", H: q.H2, Name: q.Name2})
			}
		}
	}
	return s.Case("history", idx)
}

// popTree returns a populate function building a small tree with files (with data), directories,
// symlinks to files/directories and dangling symlinks; nil half of the time (empty export).
func popTree(r *Rand) func(fs *specfs.FS) {
	if r.Bool() {
		return nil
	}
	seed := r.U64()
	return func(fs *specfs.FS) {
		rr := NewRand(seed, 0)
		fs.Mkdir("/a", 0755)
		fs.Mkdir("/a/b", 0700)
		wr := func(p string, data string, perm uint32) {
			f, err := fs.Create(p)
			if err != nil {
				return
			}
			f.WriteAt([]byte(data), 0)
			f.Sync()
			f.Close()
			fs.Chmod(p, 0)
			fs.Chmod(p, osMode(perm))
		}
		wr("/c", "hello world", 0644)
		wr("/a/d", "0123456789abcdefghij", 0600)
		if rr.Bool() {
			wr("/a/b/ee", "x", 0444)
		}
		fs.Symlink("c", "/d")
		if rr.Bool() {
			fs.Symlink("a", "/ee")
		}
		if rr.Bool() {
			fs.Symlink("nothere", "/a/c")
		}
		if rr.Bool() {
			fs.Chown("/c", 1000, 100)
		}
	}
}

func osMode(p uint32) os.FileMode { return os.FileMode(p) }
