package main

import (
	. "verifharness/lib"
	"verifharness/nfsx"
)

func init() {
	Props["C04"] = &Prop{Imports: srvImports + "Corr.C04.", Gen: genC04, ShardSize: 20,
		NonTrivial: func(c *Case) bool { return c.Tags["op:SETATTR"] > 0 && c.Tags["op:READDIRPLUS"] > 0 }}
	// C04z: the same histories over a backend whose lstat reports size 0 for symbolic links (the convention of memfs);
	// judged by the oracle alone (what every block says must be what that backend's lstat says)
	Props["C04z"] = &Prop{Imports: srvImports + "Corr.C04z.", ShardSize: 20,
		Gen: func(r *Rand, idx int, tier string) Case {
			LinkSizeZeroNext = true
			c := genC04(r, idx, tier)
			c.Kind = "history-linksize0"
			return c
		},
		NonTrivial: func(c *Case) bool { return c.Tags["op:SETATTR"] > 0 && c.Tags["op:READDIRPLUS"] > 0 }}
	Props["C06"] = &Prop{Imports: srvImports + "Corr.C06.", Gen: genC06, Corpus: corpusC06, ShardSize: 20,
		NonTrivial: func(c *Case) bool { return c.Tags["handle-reuse"] > 0 }}
	Props["C05w"] = &Prop{Imports: srvImports + "Corr.C05w.", Gen: genC05w, ShardSize: 20,
		NonTrivial: func(c *Case) bool { return c.Tags["followups"] > 3 }}
}

// C04: trees with files, directories, symlinks (to files, to directories, dangling); SETATTR with any mode
// bits; every attribute-carrying procedure; all cache settings
func genC04(r *Rand, idx int, tier string) Case {
	w := map[string]int{"LOOKUP": 12, "GETATTR": 10, "SETATTR": 12, "READDIRPLUS": 10, "READDIR": 4, "ACCESS": 5, "READ": 5,
		"READLINK": 5, "WRITE": 5, "CREATE": 5, "MKDIR": 4, "SYMLINK": 5, "REMOVE": 3, "RMDIR": 2, "RENAME": 3, "COMMIT": 2,
		"FSSTAT": 1, "FSINFO": 1, "PATHCONF": 1}
	return genHistory(r, idx, histOpts{weights: w, populate: fullTree(r.U64()), oddNamePct: 2, recency: 40, sandwich: 35})
}

// C06: small handle limits so that values pass through eviction and the free list and are reissued;
// old values are reused in later requests
func genC06(r *Rand, idx int, tier string) Case {
	cfg := genCfg(r)
	// (a quarter of the cases without a limit: there no value may ever be reissued for another path)
	cfg.MaxHand = PickInt(r, 1, 2, 3, 4, 6, 10, 0, 0)
	s := NewSession(cfg, fullTree(r.U64()))
	root := nfsx.Cred{}
	s.Do(0, root, &nfsx.Req{Proc: "MNT", Name: []byte("/")})
	seen := map[uint64]int{}
	n := 20 + r.Intn(30)
	for i := 0; i < n; i++ {
		var q *nfsx.Req
		switch x := r.Intn(100); {
		case x < 30:
			q = &nfsx.Req{Proc: "LOOKUP", H: s.pickHandle(r), Name: []byte(PickStr(r, "a", "c", "d", "ee", "b"))}
		case x < 40:
			q = &nfsx.Req{Proc: "READDIRPLUS", H: s.pickHandle(r), Cnt: 4096, Max: 32768}
		case x < 48:
			q = &nfsx.Req{Proc: "MNT", Name: []byte(PickStr(r, "/", "/a", "/a/b", "/c"))}
		case x < 56:
			q = &nfsx.Req{Proc: PickStr(r, "CREATE", "MKDIR"), H: s.pickHandle(r), Name: pickName(r, 0)}
		case x < 64:
			// objects go away and names come back: the values issued for them must not start naming something else
			q = genReq(r, s, PickStr(r, "REMOVE", "RMDIR", "RENAME"), 0)
		default:
			// use any handle value seen so far, old ones included
			q = genReq(r, s, PickStr(r, "GETATTR", "GETATTR", "READ", "ACCESS", "READLINK", "READDIR", "SETATTR", "FSSTAT", "WRITE"), 0)
		}
		st := s.Do(pickAdv(r), root, q)
		if st.Obs.FH != nil {
			seen[*st.Obs.FH]++
			if seen[*st.Obs.FH] > 1 {
				s.Tags["handle-reuse"]++
			}
		}
	}
	return s.Case("small-handle-limit", idx)
}

func corpusC06() []Case {
	// max 1: "/" -> 1, LOOKUP c -> 2 evicts 1, MNT "/a" -> 1 (reissued for another path), GETATTR 1
	cfg := Cfg{Tsize: 65536, AttrTTL: 5e9, AttrCap: 10000, NegTTL: 5e9, DirTTL: 1e10, DirCap: 1000, DirMaxSize: 10000, MaxHand: 1}
	s := NewSession(cfg, fullTree(1))
	root := nfsx.Cred{}
	s.Do(0, root, &nfsx.Req{Proc: "MNT", Name: []byte("/")})
	s.Do(0, root, &nfsx.Req{Proc: "LOOKUP", H: 1, Name: []byte("c")})
	s.Do(0, root, &nfsx.Req{Proc: "GETATTR", H: 1})
	s.Do(0, root, &nfsx.Req{Proc: "MNT", Name: []byte("/a")})
	s.Do(0, root, &nfsx.Req{Proc: "GETATTR", H: 1})
	s.Do(0, root, &nfsx.Req{Proc: "GETATTR", H: 2})
	s.Tags["handle-reuse"]++
	return []Case{s.Case("reissue-after-eviction", 0)}
}

// C05w: every handle-returning reply is followed immediately by GETATTR on the returned handle
func genC05w(r *Rand, idx int, tier string) Case {
	cfg := genCfg(r)
	cfg.MaxHand = PickInt(r, 0, 1, 2, 3, 5, 10, 11)
	s := NewSession(cfg, fullTree(r.U64()))
	root := nfsx.Cred{}
	follow := func(st *Step) {
		if st.Obs.FH != nil && st.Obs.RPC == 0 && st.Obs.Status == 0 {
			s.Do(0, root, &nfsx.Req{Proc: "GETATTR", H: *st.Obs.FH})
			s.Tags["followups"]++
		}
	}
	follow(s.Do(0, root, &nfsx.Req{Proc: "MNT", Name: []byte("/")}))
	n := 15 + r.Intn(25)
	for i := 0; i < n; i++ {
		var q *nfsx.Req
		switch x := r.Intn(100); {
		case x < 35:
			q = &nfsx.Req{Proc: "LOOKUP", H: s.pickHandle(r), Name: []byte(PickStr(r, "a", "c", "d", "ee", "b"))}
		case x < 50:
			q = &nfsx.Req{Proc: PickStr(r, "CREATE", "MKDIR", "SYMLINK"), H: s.pickHandle(r), Name: pickName(r, 0), Target: []byte("c")}
		case x < 60:
			q = &nfsx.Req{Proc: "MNT", Name: []byte(PickStr(r, "/", "/a", "/a/b", "/c"))}
		case x < 72:
			q = &nfsx.Req{Proc: "READDIRPLUS", H: s.pickHandle(r), Cnt: 4096, Max: 32768}
		default:
			q = genReq(r, s, pickProc(r, defaultWeights), 0)
		}
		st := s.Do(pickAdv(r), pickCred(r), q)
		follow(st)
		if q.Proc == "READDIRPLUS" && st.Obs.RPC == 0 && st.Obs.Status == 0 {
			// every handle issued by the READDIRPLUS is probed (the last one first: it is the one
			// that no later allocation of the same reply can have evicted)
			for k := len(st.Obs.Entries) - 1; k >= 0; k-- {
				if e := st.Obs.Entries[k]; e.FH != nil {
					s.Do(0, root, &nfsx.Req{Proc: "GETATTR", H: *e.FH})
					s.Tags["followups"]++
				}
			}
		}
	}
	return s.Case("follow-every-handle", idx)
}
