package main

import (
	"time"

	. "verifharness/lib"

	"github.com/absfs/absnfs"
)

// C18: every limiter of rate_limiter.go against the exact token-bucket model on the virtual clock.
//
//	C18    strict stream: timings on the 2^-9 s grid, dyadic rates -> bit-for-bit
//	C18ns  arbitrary nanosecond timings, non-dyadic rates (mount n/60, 0.1, 1/3 ...) -> tolerance at the threshold
func init() {
	imports := "From Coq Require Import QArith.\nFrom Verif Require Import Gen.Facts Model.TokenBucket Model.RateLimit Corr.RateLimitCorr Corr.C18."
	nt := func(c *Case) bool { return c.Tags["admitted"] > 0 && c.Tags["denied"] > 0 }
	Props["C18"] = &Prop{Imports: imports, Gen: func(r *Rand, idx int, tier string) Case { return genC18(r, idx, true, tier) },
		Corpus: corpusC18, NonTrivial: nt, ShardSize: 40}
	Props["C18ns"] = &Prop{Imports: imports, Gen: func(r *Rand, idx int, tier string) Case { return genC18(r, idx, false, tier) },
		Corpus: corpusC18ns, NonTrivial: nt, ShardSize: 40}
}

func pickRate(r *Rand) int  { return PickInt(r, 0, 1, 1, 3, 3, 1000, 10, 2) }
func pickBurst(r *Rand) int { return PickInt(r, 0, 1, 1, 5, 5, 2, 100) }

func genCfg(r *Rand, strict bool) absnfs.RateLimiterConfig {
	c := absnfs.RateLimiterConfig{
		GlobalRequestsPerSecond:        PickInt(r, 0, 1, 3, 3, 5, 10, 1000, 1000),
		PerIPRequestsPerSecond:         pickRate(r),
		PerIPBurstSize:                 pickBurst(r),
		PerConnectionRequestsPerSecond: PickInt(r, 0, 0, 1, 3, 1000, 2),
		PerConnectionBurstSize:         pickBurst(r),
		ReadLargeOpsPerSecond:          pickRate(r),
		WriteLargeOpsPerSecond:         pickRate(r),
		ReaddirOpsPerSecond:            pickRate(r),
		CleanupInterval:                pickCleanup(r),
	}
	if strict {
		c.MountOpsPerMinute = PickInt(r, 0, 15, 30, 60, 60, 120, 600, 60000) // n/60 dyadic: exact in float64
	} else {
		c.MountOpsPerMinute = PickInt(r, 0, 1, 7, 10, 10, 59, 60, 100, 1000)
	}
	if r.Chance(4) {
		c = absnfs.DefaultRateLimiterConfig()
		if strict {
			c.MountOpsPerMinute = 60
		}
	}
	return c
}

func fracRate(r *Rand, strict bool) float64 {
	if strict {
		switch r.Intn(3) {
		case 0:
			return PickFloat(r, 0, 0.25, 0.5, 1, 1.5, 3, 1000, 2.75)
		case 1:
			return float64(r.Intn(4096)) / 512 // any multiple of 2^-9 below 8
		default:
			return float64(PickInt(r, 0, 1, 3, 1000, 10))
		}
	}
	return PickFloat(r, 0, 0.1, 1.0/3, 0.5, 1, 2.7, 3, 1000, 1.0/6, 59.0/60, 123.456)
}

func PickFloat(r *Rand, xs ...float64) float64 { return xs[r.Intn(len(xs))] }

func genC18(r *Rand, idx int, strict bool, tier string) Case {
	dt := gridDt
	if !strict {
		dt = nsDt
	}
	x := r.Intn(100)
	if x >= 88 {
		return genConnFlood(r, idx, strict, dt)
	}
	switch {
	case x < 12: // a bare TokenBucket
		t := rlTarget{kind: tBucket, rate: fracRate(r, strict), burst: pickBurst(r)}
		n := 8 + r.Intn(50)
		var evs []rlEvent
		for i := 0; i < n; i++ {
			evs = append(evs, rlEvent{dt: dt(r, []float64{t.rate}), kind: evReq})
		}
		return runRL(t, strict, evs, "bucket", idx)
	case x < 30: // a bare PerIPLimiter
		t := rlTarget{kind: tPerIP, rate: fracRate(r, strict), burst: pickBurst(r), iv: pickCleanup(r)}
		nips := 1 + r.Intn(6)
		n := 10 + r.Intn(60)
		kind := "perip"
		overCapPct := 1 // big cases: rare in the quick tier (one is in the corpus)
		if tier == "thorough" {
			overCapPct = 6
		}
		if r.Chance(overCapPct) { // more addresses than one cleanup pass deletes (cap 100): which buckets go is up to the map order
			nips, n, kind = 130, 300, "perip-over-cap"
		}
		var evs []rlEvent
		for i := 0; i < n; i++ {
			ip := uint64(r.Intn(nips))
			if kind == "perip-over-cap" && i < 130 {
				ip = uint64(i)
			}
			evs = append(evs, rlEvent{dt: dt(r, []float64{t.rate}), kind: evReq, ip: ip})
		}
		return runRL(t, strict, evs, kind, idx)
	default:
		c := genCfg(r, strict)
		t := rlTarget{kind: tFull, cfg: c}
		nips := 1 + r.Intn(4)
		nconns := 1 + r.Intn(3)
		opPct := PickInt(r, 0, 20, 20, 50, 90)
		closePct := PickInt(r, 0, 3, 8)
		kind := "full-mixed"
		if opPct >= 90 {
			kind = "full-ops"
		} else if opPct == 0 {
			kind = "full-requests"
		}
		rates := []float64{float64(c.GlobalRequestsPerSecond), float64(c.PerIPRequestsPerSecond),
			float64(c.PerConnectionRequestsPerSecond), float64(c.ReadLargeOpsPerSecond),
			float64(c.WriteLargeOpsPerSecond), float64(c.ReaddirOpsPerSecond), float64(c.MountOpsPerMinute) / 60}
		connIP := make([]uint64, nconns)
		for i := range connIP {
			connIP[i] = uint64(r.Intn(nips))
		}
		n := 12 + r.Intn(60)
		var evs []rlEvent
		for i := 0; i < n; i++ {
			e := rlEvent{dt: dt(r, rates)}
			y := r.Intn(100)
			switch {
			case y < closePct:
				e.kind, e.conn = evClose, uint64(r.Intn(nconns))
			case y < closePct+opPct:
				e.kind, e.ip, e.op = evOp, uint64(r.Intn(nips)), r.Intn(4)
			default:
				e.kind, e.conn = evReq, uint64(r.Intn(nconns))
				e.ip = connIP[e.conn]
				if r.Chance(5) {
					e.ip = uint64(r.Intn(nips)) // the API does not tie a connection id to one address
				}
			}
			evs = append(evs, e)
		}
		return runRL(t, strict, evs, kind, idx)
	}
}

// connFloodCfg: per-connection limit well below the per-IP limit (as in the defaults), small global budget.
func connFloodCfg(r *Rand) absnfs.RateLimiterConfig {
	return absnfs.RateLimiterConfig{
		GlobalRequestsPerSecond:        PickInt(r, 3, 5, 5, 10),
		PerIPRequestsPerSecond:         PickInt(r, 10, 1000, 1000),
		PerIPBurstSize:                 PickInt(r, 100, 500, 1000),
		PerConnectionRequestsPerSecond: PickInt(r, 1, 1, 3),
		PerConnectionBurstSize:         PickInt(r, 1, 2, 2, 5),
		ReadLargeOpsPerSecond:          1, WriteLargeOpsPerSecond: 1, ReaddirOpsPerSecond: 1, MountOpsPerMinute: 60,
		CleanupInterval: pickCleanup(r),
	}
}

// genConnFlood: one connection sends far more than its per-connection burst back to back (its address stays within
// the per-IP limit), then fresh clients send one request each while the ADMITTED total is still below the global burst.
func genConnFlood(r *Rand, idx int, strict bool, dt func(*Rand, []float64) int64) Case {
	c := connFloodCfg(r)
	var evs []rlEvent
	next := uint64(1)
	for phase := 0; phase < 1+r.Intn(3); phase++ {
		first := dt(r, []float64{float64(c.GlobalRequestsPerSecond)})
		n := 15 + r.Intn(60)
		for i := 0; i < n; i++ {
			d := int64(0)
			if i == 0 {
				d = first
			} else if r.Chance(10) {
				d = int64(1+r.Intn(3)) * tick
				if !strict {
					d = int64(1 + r.Intn(5_000_000))
				}
			}
			evs = append(evs, rlEvent{dt: d, kind: evReq, ip: 0, conn: 0})
		}
		for k := 0; k < 2+r.Intn(3); k++ {
			evs = append(evs, rlEvent{dt: 0, kind: evReq, ip: next, conn: next})
			next++
		}
	}
	return runRL(rlTarget{kind: tFull, cfg: c}, strict, evs, "conn-flood", idx)
}

func reqs(n int, dt int64, ip, conn uint64) []rlEvent {
	var evs []rlEvent
	for i := 0; i < n; i++ {
		evs = append(evs, rlEvent{dt: dt, kind: evReq, ip: ip, conn: conn})
	}
	return evs
}

func corpusC18() []Case {
	sec := 512 * tick
	base := absnfs.RateLimiterConfig{GlobalRequestsPerSecond: 1000, PerIPRequestsPerSecond: 1, PerIPBurstSize: 5,
		PerConnectionRequestsPerSecond: 3, PerConnectionBurstSize: 5, ReadLargeOpsPerSecond: 1, WriteLargeOpsPerSecond: 1,
		ReaddirOpsPerSecond: 1, MountOpsPerMinute: 60, CleanupInterval: time.Nanosecond}
	var cs []Case
	// burst then exactly one refill period, again and again: the boundary tokens == 1.0
	cs = append(cs, runRL(rlTarget{kind: tBucket, rate: 1, burst: 1}, true,
		append(reqs(3, 0, 0, 0), reqs(6, sec, 0, 0)...), "bucket-boundary", 0))
	// one tick short of a token
	cs = append(cs, runRL(rlTarget{kind: tBucket, rate: 1, burst: 1}, true,
		append(reqs(2, 0, 0, 0), append(reqs(2, sec-tick, 0, 0), reqs(2, tick, 0, 0)...)...), "bucket-one-tick-short", 1))
	// zero rate, zero burst
	cs = append(cs, runRL(rlTarget{kind: tBucket, rate: 0, burst: 5}, true, reqs(8, sec, 0, 0), "bucket-rate0", 2))
	cs = append(cs, runRL(rlTarget{kind: tBucket, rate: 1000, burst: 0}, true, reqs(8, sec, 0, 0), "bucket-burst0", 3))
	// cleanup on every call (1 ns): the idle bucket of ip0 is deleted while ip1 is served, then re-created
	var evs []rlEvent
	evs = append(evs, reqs(5, 0, 0, 0)...)
	evs = append(evs, reqs(2, 10*sec, 1, 1)...)
	evs = append(evs, reqs(7, 0, 0, 0)...)
	cs = append(cs, runRL(rlTarget{kind: tFull, cfg: base}, true, evs, "cleanup-every-call", 4))
	// mount limiter: 60/min = 1/s, burst 2
	var mv []rlEvent
	for i := 0; i < 4; i++ {
		mv = append(mv, rlEvent{dt: 0, kind: evOp, ip: 0, op: 3})
	}
	for i := 0; i < 4; i++ {
		mv = append(mv, rlEvent{dt: sec, kind: evOp, ip: 0, op: 3})
	}
	mv = append(mv, rlEvent{dt: 400 * sec, kind: evOp, ip: 1, op: 3}, rlEvent{dt: 0, kind: evOp, ip: 0, op: 3},
		rlEvent{dt: 0, kind: evOp, ip: 0, op: 3}, rlEvent{dt: 0, kind: evOp, ip: 0, op: 3})
	cs = append(cs, runRL(rlTarget{kind: tFull, cfg: base}, true, mv, "mount-burst-refill-cleanup", 5))
	// connection closed and its id reused: a fresh per-connection limiter
	b2 := base
	b2.PerIPRequestsPerSecond, b2.PerIPBurstSize, b2.PerConnectionRequestsPerSecond, b2.PerConnectionBurstSize = 1000, 100, 1, 1
	ev2 := append(reqs(3, 0, 0, 7), rlEvent{dt: 0, kind: evClose, conn: 7})
	ev2 = append(ev2, reqs(3, 0, 0, 7)...)
	cs = append(cs, runRL(rlTarget{kind: tFull, cfg: b2}, true, ev2, "close-reuse-conn", 6))
	// 130 idle addresses, cleanup due: one pass deletes only 100 of them (which ones is up to the map order)
	var ev3 []rlEvent
	for i := 0; i < 130; i++ {
		ev3 = append(ev3, rlEvent{dt: 0, kind: evReq, ip: uint64(i)})
	}
	ev3 = append(ev3, rlEvent{dt: 10 * sec, kind: evReq, ip: 0})
	for i := 0; i < 40; i++ {
		ev3 = append(ev3, rlEvent{dt: int64(i%3) * tick, kind: evReq, ip: uint64((i * 7) % 130)})
	}
	cs = append(cs, runRL(rlTarget{kind: tPerIP, rate: 0.5, burst: 1, iv: time.Second}, true, ev3, "perip-over-cap", 7))
	// one connection floods past its per-connection burst (per-connection limit below the per-IP limit, as in the
	// defaults); three fresh clients must then still be admitted: only 2 requests were admitted, the global burst is 5
	cf := absnfs.RateLimiterConfig{GlobalRequestsPerSecond: 5, PerIPRequestsPerSecond: 1000, PerIPBurstSize: 1000,
		PerConnectionRequestsPerSecond: 1, PerConnectionBurstSize: 2, ReadLargeOpsPerSecond: 1, WriteLargeOpsPerSecond: 1,
		ReaddirOpsPerSecond: 1, MountOpsPerMinute: 60, CleanupInterval: 5 * time.Minute}
	ev4 := reqs(200, 0, 0, 0)
	for i := uint64(1); i <= 3; i++ {
		ev4 = append(ev4, rlEvent{dt: 0, kind: evReq, ip: i, conn: i})
	}
	cs = append(cs, runRL(rlTarget{kind: tFull, cfg: cf}, true, ev4, "conn-flood-then-fresh-clients", 8))
	return cs
}

func corpusC18ns() []Case {
	// rate 3: a third of a second is not a whole number of ns -> the exact level is a hair below / above 1
	var cs []Case
	evs := append(reqs(5, 0, 0, 0), reqs(4, 333_333_333, 0, 0)...)
	evs = append(evs, reqs(4, 333_333_334, 0, 0)...)
	cs = append(cs, runRL(rlTarget{kind: tBucket, rate: 3, burst: 5}, false, evs, "third-of-a-second", 0))
	// rate 1000: 1 ms periods (0.001 is not a float64)
	cs = append(cs, runRL(rlTarget{kind: tBucket, rate: 1000, burst: 1}, false,
		append(reqs(2, 0, 0, 0), reqs(10, 1_000_000, 0, 0)...), "millisecond-period", 1))
	// default mount rate 10/min = 1/6 per second
	c := absnfs.DefaultRateLimiterConfig()
	var mv []rlEvent
	for i := 0; i < 3; i++ {
		mv = append(mv, rlEvent{dt: 0, kind: evOp, ip: 0, op: 3})
	}
	for i := 0; i < 5; i++ {
		mv = append(mv, rlEvent{dt: 6_000_000_000, kind: evOp, ip: 0, op: 3})
	}
	cs = append(cs, runRL(rlTarget{kind: tFull, cfg: c}, false, mv, "mount-default-six-seconds", 2))
	return cs
}
