package main

import (
	"time"

	. "verifharness/lib"

	"github.com/absfs/absnfs"
)

// C19: over-limit clients next to compliant ones; the compliant clients' admissions are what is compared.
func init() {
	imports := "From Coq Require Import QArith.\nFrom Verif Require Import Gen.Facts Model.TokenBucket Model.RateLimit Corr.RateLimitCorr Corr.C19."
	nt := func(c *Case) bool { return c.Tags["abusive_denied"] > 0 && c.Tags["compliant_admitted"] > 0 }
	Props["C19"] = &Prop{Imports: imports, Gen: func(r *Rand, idx int, tier string) Case { return genC19(r, idx, true) },
		Corpus: corpusC19, NonTrivial: nt, ShardSize: 25}
	Props["C19ns"] = &Prop{Imports: imports, Gen: func(r *Rand, idx int, tier string) Case { return genC19(r, idx, false) },
		NonTrivial: nt, ShardSize: 25}
}

// shadow is the generator's own pacing aid for compliant clients (not an oracle).
type shadow struct {
	tokens, max, rate float64
	exact             bool // timings on the dyadic grid: the float arithmetic is exact
	last              int64
}

func (s *shadow) ready(now int64) bool {
	t := s.tokens + float64(now-s.last)/1e9*s.rate
	if t > s.max {
		t = s.max
	}
	return t >= 1.000001 || (t >= 1 && (s.exact || t == s.max))
}
func (s *shadow) take(now int64) {
	t := s.tokens + float64(now-s.last)/1e9*s.rate
	if t > s.max {
		t = s.max
	}
	s.tokens, s.last = t-1, now
}

func genC19(r *Rand, idx int, strict bool) Case {
	c := absnfs.RateLimiterConfig{
		GlobalRequestsPerSecond:        PickInt(r, 1, 3, 5, 10, 10, 1000),
		PerIPRequestsPerSecond:         PickInt(r, 1, 1, 3, 10),
		PerIPBurstSize:                 PickInt(r, 1, 1, 5, 2),
		PerConnectionRequestsPerSecond: PickInt(r, 0, 1, 3, 1000),
		PerConnectionBurstSize:         PickInt(r, 1, 5, 2),
		ReadLargeOpsPerSecond:          1, WriteLargeOpsPerSecond: 1, ReaddirOpsPerSecond: 1, MountOpsPerMinute: 60,
		CleanupInterval: pickCleanup(r),
	}
	nAb := 1 + r.Intn(2)
	nOk := 1 + r.Intn(3)
	kind := "abusive+compliant"
	if r.Chance(10) {
		nAb, kind = 0, "compliant-only"
	}
	// client i: address i, connection i; clients 0..nAb-1 are abusive
	type cl struct {
		ip, conn uint64
		ipS, cS  *shadow
	}
	var oks []cl
	for i := 0; i < nOk; i++ {
		k := cl{ip: uint64(nAb + i), conn: uint64(nAb + i)}
		k.ipS = &shadow{tokens: float64(c.PerIPBurstSize), max: float64(c.PerIPBurstSize), rate: float64(c.PerIPRequestsPerSecond), last: -1, exact: strict}
		k.cS = &shadow{tokens: float64(c.PerConnectionBurstSize), max: float64(c.PerConnectionBurstSize), rate: float64(c.PerConnectionRequestsPerSecond), last: -1, exact: strict}
		oks = append(oks, k)
	}
	rates := []float64{float64(c.GlobalRequestsPerSecond), float64(c.PerIPRequestsPerSecond), float64(c.PerConnectionRequestsPerSecond)}
	n := 15 + r.Intn(55)
	var evs []rlEvent
	var now int64
	abPct := PickInt(r, 50, 70, 85)
	for i := 0; i < n; i++ {
		var d int64
		if strict {
			d = gridDt(r, rates)
			if d > 30*512*tick && r.Chance(80) {
				d = int64(1+r.Intn(1024)) * tick
			}
		} else {
			d = nsDt(r, rates)
			if d > 30_000_000_000 && r.Chance(80) {
				d = int64(1 + r.Intn(2_000_000_000))
			}
		}
		now += d
		if nAb > 0 && r.Intn(100) < abPct {
			a := uint64(r.Intn(nAb))
			k := 1 + r.Intn(5) // a volley
			for j := 0; j < k; j++ {
				dd := d
				if j > 0 {
					dd = 0
				}
				evs = append(evs, rlEvent{dt: dd, kind: evReq, ip: a, conn: a, role: "abusive"})
			}
			continue
		}
		k := oks[r.Intn(len(oks))]
		if k.ipS.last < 0 {
			k.ipS.last, k.cS.last = now, now
		}
		if k.ipS.ready(now) && (c.PerConnectionRequestsPerSecond <= 0 || k.cS.ready(now)) {
			k.ipS.take(now)
			k.cS.take(now)
			evs = append(evs, rlEvent{dt: d, kind: evReq, ip: k.ip, conn: k.conn, role: "compliant"})
		} else {
			// not its turn: let the time pass with a request of an abusive client (or nothing to send: a mount op elsewhere)
			if nAb > 0 {
				evs = append(evs, rlEvent{dt: d, kind: evReq, ip: 0, conn: 0, role: "abusive"})
			} else {
				evs = append(evs, rlEvent{dt: d, kind: evOp, ip: k.ip, op: 2})
			}
		}
	}
	return runRL(rlTarget{kind: tFull, cfg: c}, strict, evs, kind, idx)
}

func corpusC19() []Case {
	sec := 512 * tick
	// the probe of the design phase: global 10/s; an abusive client fires 20 requests at once (own limit: burst 1);
	// a compliant client must then still be admitted (the unrepaired AllowRequest charged the global bucket first)
	c := absnfs.RateLimiterConfig{GlobalRequestsPerSecond: 10, PerIPRequestsPerSecond: 1, PerIPBurstSize: 1,
		PerConnectionRequestsPerSecond: 0, PerConnectionBurstSize: 1, ReadLargeOpsPerSecond: 1, WriteLargeOpsPerSecond: 1,
		ReaddirOpsPerSecond: 1, MountOpsPerMinute: 60, CleanupInterval: 5 * time.Minute}
	var evs []rlEvent
	for i := 0; i < 20; i++ {
		evs = append(evs, rlEvent{dt: 0, kind: evReq, ip: 0, conn: 0, role: "abusive"})
	}
	evs = append(evs, rlEvent{dt: 0, kind: evReq, ip: 1, conn: 1, role: "compliant"})
	evs = append(evs, rlEvent{dt: sec, kind: evReq, ip: 1, conn: 1, role: "compliant"})
	cs := []Case{runRL(rlTarget{kind: tFull, cfg: c}, true, evs, "abusive-20-then-compliant", 0)}
	// refused by the per-connection bucket (per-IP generous)
	c2 := c
	c2.GlobalRequestsPerSecond, c2.PerIPRequestsPerSecond, c2.PerIPBurstSize = 3, 1000, 100
	c2.PerConnectionRequestsPerSecond, c2.PerConnectionBurstSize = 1, 1
	var ev2 []rlEvent
	for i := 0; i < 12; i++ {
		ev2 = append(ev2, rlEvent{dt: 0, kind: evReq, ip: 0, conn: 0, role: "abusive"})
	}
	for i := 0; i < 2; i++ {
		ev2 = append(ev2, rlEvent{dt: 0, kind: evReq, ip: uint64(1 + i), conn: uint64(1 + i), role: "compliant"})
	}
	cs = append(cs, runRL(rlTarget{kind: tFull, cfg: c2}, true, ev2, "per-connection-refusals", 1))
	return cs
}
