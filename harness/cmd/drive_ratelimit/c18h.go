package main

import (
	"bytes"
	"encoding/binary"
	"fmt"
	"io"
	"math"
	"net"
	"os"
	"strings"
	"time"

	. "verifharness/lib"
	"verifharness/nfsx"

	"github.com/absfs/absnfs"
)

// C18h: the limiters exercised THROUGH the server.  A real AbsfsNFS (EnableRateLimiting, small varied limits) gets
// NFS / MOUNT calls from several client addresses on the virtual clock:
//
//	handler  each call through NFSProcedureHandler.HandleCall (per-operation limiters: the request limiter lives in
//	         the connection loop and is not involved)
//	tcp      each call over a loopback connection of the exported server (AllowRequest for every call, then the
//	         procedure handler's AllowOperation)
//
// READDIR / READDIRPLUS with cookie 0 and client-chosen non-zero cookies and varied counts, READ / WRITE around the
// 64 KiB threshold, MNT, and plain calls (GETATTR, NULL, FSINFO).  Observation per call: 0 passed the limiters,
// 1 MSG_DENIED (request limiter), 2 NFS3ERR_DELAY / MNT 10006 (operation limiter).
func init() {
	Props["C18h"] = &Prop{
		Imports: "From Coq Require Import QArith.\nFrom Verif Require Import Gen.Facts Model.TokenBucket Model.RateLimit Corr.RateLimitCorr Corr.C18h.",
		Gen:     genC18h, Corpus: corpusC18h, ShardSize: 15,
		NonTrivial: func(c *Case) bool { return c.Tags["passed"] > 0 && (c.Tags["delayed"] > 0 || c.Tags["denied"] > 0) },
	}
}

const (
	pPlain = iota
	pReaddir
	pReaddirplus
	pRead
	pWrite
	pMnt
)

var hprocCoq = []string{"PPlain", "PReaddir", "PReaddirplus", "PRead", "PWrite", "PMnt"}

type hCall struct {
	dt     int64
	ip     uint64 // client address index
	conn   uint64 // connection index (tcp: one loopback connection per index, dialled from the address of its first use)
	proc   int
	count  uint32
	cookie uint64 // READDIR(PLUS); cookieFromReply: the last cookie the server handed to this address
	plain  string // GETATTR | NULL | FSINFO | LOOKUP
	max    uint32 // READDIRPLUS maxcount
}

const cookieFromReply = math.MaxUint64

const setupIP = "10.9.9.9"

func hipStr(tcp bool, ip uint64) string {
	if tcp {
		return fmt.Sprintf("127.0.0.%d", 2+ip)
	}
	return ipStr(ip)
}

func (c hCall) req(dir, file uint64, lastCookie uint64, data []byte) (uint32, uint32, *nfsx.Req) {
	ck := c.cookie
	if ck == cookieFromReply {
		ck = lastCookie
	}
	switch c.proc {
	case pReaddir:
		return nfsx.ProgNFS, 16, &nfsx.Req{Proc: "READDIR", H: dir, Cookie: ck, Cnt: c.count}
	case pReaddirplus:
		return nfsx.ProgNFS, 17, &nfsx.Req{Proc: "READDIRPLUS", H: dir, Cookie: ck, Cnt: c.count, Max: c.max}
	case pRead:
		return nfsx.ProgNFS, 6, &nfsx.Req{Proc: "READ", H: file, Off: 0, Cnt: c.count}
	case pWrite:
		return nfsx.ProgNFS, 7, &nfsx.Req{Proc: "WRITE", H: file, Off: 0, Cnt: c.count, Stable: 2, Data: data[:c.count]}
	case pMnt:
		return nfsx.ProgMount, 1, &nfsx.Req{Proc: "MNT", Name: []byte("/")}
	}
	switch c.plain {
	case "NULL":
		return nfsx.ProgNFS, 0, &nfsx.Req{Proc: "NULL"}
	case "FSINFO":
		return nfsx.ProgNFS, 19, &nfsx.Req{Proc: "FSINFO", H: dir}
	case "LOOKUP":
		return nfsx.ProgNFS, 3, &nfsx.Req{Proc: "LOOKUP", H: dir, Name: []byte("f")}
	}
	return nfsx.ProgNFS, 1, &nfsx.Req{Proc: "GETATTR", H: file}
}

func (c hCall) text(tcp bool) string {
	who := fmt.Sprintf("ip%d", c.ip)
	if tcp {
		who += fmt.Sprintf("/c%d", c.conn)
	}
	ck := fmt.Sprintf("%d", c.cookie)
	if c.cookie == cookieFromReply {
		ck = "next"
	}
	switch c.proc {
	case pReaddir:
		return fmt.Sprintf("READDIR(%s,cookie=%s,count=%d)", who, ck, c.count)
	case pReaddirplus:
		return fmt.Sprintf("READDIRPLUS(%s,cookie=%s,dircount=%d,maxcount=%d)", who, ck, c.count, c.max)
	case pRead:
		return fmt.Sprintf("READ(%s,count=%d)", who, c.count)
	case pWrite:
		return fmt.Sprintf("WRITE(%s,count=%d)", who, c.count)
	case pMnt:
		return fmt.Sprintf("MNT(%s)", who)
	}
	return fmt.Sprintf("%s(%s)", c.plain, who)
}

// lastCookieOf extracts the cookie of the last entry of a READDIR / READDIRPLUS reply (0 if none).
func lastCookieOf(proc string, res []byte) uint64 {
	o := nfsx.Decode(proc, res)
	if o == nil || len(o.Entries) == 0 {
		return 0
	}
	return o.Entries[len(o.Entries)-1].Cookie
}

// classify maps a reply to the observation code.
func classify(proc int, rpcCode uint32, res []byte) int {
	if rpcCode == 2000 {
		return 1
	}
	if rpcCode != 0 || len(res) < 4 {
		return 0
	}
	st := binary.BigEndian.Uint32(res[:4])
	if proc == pMnt {
		if st == 10006 {
			return 2
		}
		return 0
	}
	if st == 10013 && proc != pPlain {
		return 2
	}
	if st == 10013 {
		return 3 // a plain call answered NFS3ERR_DELAY: no limiter explains it (reported by the oracle)
	}
	return 0
}

// hServer is one server instance with its files.
type hServer struct {
	env       *nfsx.Env
	dir, file uint64
	port      int
	conns     map[uint64]net.Conn
	xid       uint32
}

func newHServer(cfg absnfs.RateLimiterConfig, tcp bool, t0 int64) (*hServer, error) {
	absnfs.VerifSetClock(t0)
	c := cfg
	env, err := nfsx.NewEnvKeepClock(absnfs.ExportOptions{EnableRateLimiting: true, RateLimitConfig: &c}, 0)
	if err != nil {
		return nil, err
	}
	s := &hServer{env: env, conns: map[uint64]net.Conn{}}
	// setup from an address of its own (its MNT is charged to that address's mount bucket only)
	env.IP = setupIP
	root := nfsx.Cred{}
	if o := env.Do(root, &nfsx.Req{Proc: "MNT", Name: []byte("/")}); o.FH == nil {
		env.Close()
		return nil, fmt.Errorf("setup MNT failed: status %d rpc %d", o.Status, o.RPC)
	} else {
		s.dir = *o.FH
	}
	mode := uint32(0o644)
	for i := 0; i < 7; i++ {
		env.Do(root, &nfsx.Req{Proc: "CREATE", H: s.dir, Name: []byte(fmt.Sprintf("e%d", i)), Sa: nfsx.Sattr{Mode: &mode}})
	}
	o := env.Do(root, &nfsx.Req{Proc: "CREATE", H: s.dir, Name: []byte("f"), Sa: nfsx.Sattr{Mode: &mode}})
	if o.FH == nil {
		env.Close()
		return nil, fmt.Errorf("setup CREATE failed: status %d", o.Status)
	}
	s.file = *o.FH
	env.Do(root, &nfsx.Req{Proc: "WRITE", H: s.file, Off: 0, Cnt: 8, Stable: 2, Data: []byte("12345678")})
	if tcp {
		if err := env.NFS.Export("/", 0); err != nil {
			env.Close()
			return nil, err
		}
		s.port = env.NFS.VerifLTSExportServer().GetPort()
	}
	return s, nil
}

func (s *hServer) close() {
	for _, c := range s.conns {
		c.Close()
	}
	if s.port != 0 {
		s.env.NFS.Unexport()
	}
	s.env.Close()
}

// tcpCall sends one record-marked AUTH_SYS call and reads the reply.
func (s *hServer) tcpCall(c hCall, prog, proc uint32, body []byte) (uint32, []byte, error) {
	cn, ok := s.conns[c.conn]
	if !ok {
		d := net.Dialer{Timeout: 5 * time.Second, LocalAddr: &net.TCPAddr{IP: net.ParseIP(hipStr(true, c.ip))}}
		var err error
		cn, err = d.Dial("tcp", fmt.Sprintf("127.0.0.1:%d", s.port))
		if err != nil {
			return 0, nil, err
		}
		s.conns[c.conn] = cn
	}
	s.xid++
	var m bytes.Buffer
	w := func(v uint32) { binary.Write(&m, binary.BigEndian, v) }
	w(s.xid)
	w(0)
	w(2)
	w(prog)
	w(3)
	w(proc)
	w(1) // AUTH_SYS, uid 0
	w(20)
	w(0)
	w(0)
	w(0)
	w(0)
	w(0)
	w(0) // verifier
	w(0)
	m.Write(body)
	var hdr [4]byte
	binary.BigEndian.PutUint32(hdr[:], uint32(m.Len())|0x80000000)
	cn.SetDeadline(time.Now().Add(10 * time.Second))
	if _, err := cn.Write(append(hdr[:], m.Bytes()...)); err != nil {
		return 0, nil, err
	}
	var rec []byte
	for {
		if _, err := io.ReadFull(cn, hdr[:]); err != nil {
			return 0, nil, err
		}
		h := binary.BigEndian.Uint32(hdr[:])
		frag := make([]byte, int(h&0x7fffffff))
		if _, err := io.ReadFull(cn, frag); err != nil {
			return 0, nil, err
		}
		rec = append(rec, frag...)
		if h&0x80000000 != 0 {
			break
		}
	}
	code, res := nfsx.ParseReply(rec, s.xid)
	return code, res, nil
}

// execH runs the calls on a fresh server and returns the observation codes (and, per address, nothing else).
func execH(cfg absnfs.RateLimiterConfig, tcp bool, calls []hCall, t0 int64, tags map[string]int) ([]int, error) {
	s, err := newHServer(cfg, tcp, t0)
	if err != nil {
		return nil, err
	}
	defer s.close()
	data := make([]byte, 1<<17)
	last := map[uint64]uint64{}
	var out []int
	for _, c := range calls {
		absnfs.VerifAdvanceClock(c.dt)
		prog, procNum, rq := c.req(s.dir, s.file, last[c.ip], data)
		var code uint32
		var res []byte
		if tcp {
			var err error
			code, res, err = s.tcpCall(c, prog, procNum, rq.Encode())
			if err != nil {
				return nil, fmt.Errorf("tcp call %s: %v", c.text(true), err)
			}
		} else {
			s.env.IP = hipStr(false, c.ip)
			wire, xid, ok := s.env.WireCall(prog, 3, procNum, nfsx.Cred{}, rq.Encode())
			if !ok {
				return nil, fmt.Errorf("HandleCall failed for %s", c.text(false))
			}
			code, res = nfsx.ParseReply(wire, xid)
		}
		o := classify(c.proc, code, res)
		if o == 0 && (c.proc == pReaddir || c.proc == pReaddirplus) && code == 0 {
			if ck := lastCookieOf(rq.Proc, res); ck != 0 {
				last[c.ip] = ck
			}
			if tags != nil && len(res) >= 4 {
				tags[fmt.Sprintf("readdir_status_%d", binary.BigEndian.Uint32(res[:4]))]++
			}
		}
		out = append(out, o)
	}
	return out, nil
}

func runC18h(cfg absnfs.RateLimiterConfig, tcp bool, calls []hCall, kind string, idx int) Case {
	defer absnfs.VerifSetClock(0)
	// the server logs its start-up to os.Stderr (captured when its logger is built): keep the driver's output quiet
	if devnull, err := os.OpenFile(os.DevNull, os.O_WRONLY, 0); err == nil {
		saved := os.Stderr
		os.Stderr = devnull
		defer func() { os.Stderr = saved; devnull.Close() }()
	}
	t0 := t0ns
	if tcp {
		// net deadlines compare the virtual "now + timeout" with the real clock: keep the virtual clock ahead of it
		t0 = time.Now().Add(time.Hour).UnixNano()
	}
	tags := map[string]int{"calls": len(calls)}
	obs, err := execH(cfg, tcp, calls, t0, tags)
	if err != nil {
		panic(err)
	}
	nc := cfg
	nc.CleanupInterval = time.Duration(math.MaxInt64)
	t1 := t0
	if tcp {
		t1 = time.Now().Add(time.Hour).UnixNano()
	}
	obsNC, err := execH(nc, tcp, calls, t1, nil)
	if err != nil {
		panic(err)
	}
	var coqCalls, coqObs, coqObsNC, txt []string
	ips, conns := map[uint64]bool{}, map[uint64]bool{}
	var now int64
	for i, c := range calls {
		now += c.dt
		ips[c.ip] = true
		conns[c.conn] = true
		coqCalls = append(coqCalls, fmt.Sprintf("(%s, %d, %d, %s, %s)", CZ(c.dt), c.ip, c.conn, hprocCoq[c.proc], CZ(int64(c.count))))
		coqObs = append(coqObs, fmt.Sprintf("%d", obs[i]))
		coqObsNC = append(coqObsNC, fmt.Sprintf("%d", obsNC[i]))
		if obs[i] != obsNC[i] {
			tags["cleanup_visible"]++
		}
		tags[[]string{"passed", "denied", "delayed", "unexplained"}[obs[i]]]++
		name := strings.ToLower(hprocCoq[c.proc][1:])
		if c.proc == pPlain {
			name = "plain_" + strings.ToLower(c.plain)
		}
		tags["proc_"+name]++
		switch c.proc {
		case pReaddir, pReaddirplus:
			if c.cookie == 0 {
				tags["readdir_cookie_zero"]++
			} else {
				tags["readdir_cookie_nonzero"]++
				if obs[i] == 0 {
					tags["readdir_cookie_nonzero_passed"]++
				} else {
					tags["readdir_cookie_nonzero_refused"]++
				}
			}
		case pRead, pWrite:
			if c.count > 65536 {
				tags["io_large"]++
			} else {
				tags["io_small"]++
			}
		}
		if c.dt == 0 {
			tags["dt_zero"]++
		}
		if c.dt >= int64(time.Second) {
			tags["dt_ge_1s"]++
		}
		txt = append(txt, fmt.Sprintf("@%.9gs %s%s", float64(now)/1e9, c.text(tcp), []string{"+", "-DENIED", "-DELAY", "?"}[obs[i]]))
	}
	tags["ips"], tags["conns"] = len(ips), len(conns)
	tags["cfg_cleanup_"+cfg.CleanupInterval.String()]++
	if cfg.PerConnectionRequestsPerSecond == 0 {
		tags["cfg_zero_conn_rate"]++
	}
	for _, z := range []struct {
		n string
		v int
	}{{"readdir", cfg.ReaddirOpsPerSecond}, {"read", cfg.ReadLargeOpsPerSecond}, {"write", cfg.WriteLargeOpsPerSecond}, {"mount", cfg.MountOpsPerMinute}} {
		if z.v == 0 {
			tags["cfg_zero_rate_"+z.n]++
		}
	}
	t := rlTarget{kind: tFull, cfg: cfg}
	coq := fmt.Sprintf("{| h_cfg := %s; h_tcp := %s; h_strict := true; h_calls := %s; h_obs := %s; h_obs_nc := %s |}",
		strings.TrimSuffix(strings.TrimPrefix(t.coq(), "(TFull "), ")"), CBool(tcp), CList(coqCalls), CList(coqObs), CList(coqObsNC))
	mode := "handler"
	if tcp {
		mode = "tcp"
	}
	return Case{Index: idx, Kind: kind, Coq: coq, Tags: tags,
		Text: fmt.Sprintf("server[%s] %s %s", mode, t.text(), strings.Join(txt, " "))}
}

func genC18h(r *Rand, idx int, tier string) Case {
	if r.Chance(12) { // over TCP: one connection floods past its per-connection burst, then fresh clients
		cfg := connFloodCfg(r)
		var calls []hCall
		n := 15 + r.Intn(50)
		for i := 0; i < n; i++ {
			calls = append(calls, hCall{dt: 0, ip: 0, conn: 0, proc: pPlain, plain: PickStr(r, "NULL", "GETATTR")})
		}
		for k := 0; k < 2+r.Intn(2); k++ {
			calls = append(calls, hCall{dt: 0, ip: uint64(1 + k%2), conn: uint64(1 + k), proc: pPlain, plain: "NULL"})
		}
		return runC18h(cfg, true, calls, "tcp-conn-flood", idx)
	}
	tcp := r.Chance(35)
	cfg := absnfs.RateLimiterConfig{
		GlobalRequestsPerSecond:        PickInt(r, 3, 5, 10, 1000, 1000),
		PerIPRequestsPerSecond:         PickInt(r, 1, 3, 10, 1000),
		PerIPBurstSize:                 PickInt(r, 1, 2, 5, 100),
		PerConnectionRequestsPerSecond: PickInt(r, 0, 1, 3, 1000),
		PerConnectionBurstSize:         PickInt(r, 1, 2, 5),
		ReadLargeOpsPerSecond:          PickInt(r, 0, 1, 3, 1000),
		WriteLargeOpsPerSecond:         PickInt(r, 0, 1, 3, 1000),
		ReaddirOpsPerSecond:            PickInt(r, 0, 0, 1, 1, 3, 1000),
		MountOpsPerMinute:              PickInt(r, 0, 15, 30, 60, 120, 600),
		CleanupInterval:                pickCleanup(r),
	}
	if !tcp {
		// the request limiter is not on this path: leave it wide open in the configuration too
		cfg.GlobalRequestsPerSecond, cfg.PerIPRequestsPerSecond, cfg.PerIPBurstSize = 1000, 1000, 100
	}
	nips := 1 + r.Intn(3)
	nconns := nips + r.Intn(2)
	connIP := make([]uint64, nconns)
	for i := range connIP {
		connIP[i] = uint64(i % nips)
	}
	focus := r.Intn(5) // 0 mixed, 1 readdir paging, 2 large I/O, 3 mount, 4 plain-heavy
	kind := []string{"mixed", "readdir-paging", "large-io", "mount", "plain-heavy"}[focus]
	if tcp {
		kind = "tcp-" + kind
	}
	rates := []float64{float64(cfg.ReaddirOpsPerSecond), float64(cfg.ReadLargeOpsPerSecond), float64(cfg.WriteLargeOpsPerSecond),
		float64(cfg.MountOpsPerMinute) / 60, float64(cfg.PerIPRequestsPerSecond), float64(cfg.PerConnectionRequestsPerSecond)}
	n := 14 + r.Intn(30)
	var calls []hCall
	for i := 0; i < n; i++ {
		d := gridDt(r, rates)
		if d > 20*512*tick { // connections idle for minutes would be reaped; cleanup is exercised with the 1 ns / 1 s intervals
			d = int64(512+r.Intn(512*10)) * tick
		}
		c := hCall{dt: d, conn: uint64(r.Intn(nconns))}
		c.ip = connIP[c.conn]
		if !tcp {
			c.ip = uint64(r.Intn(nips))
		}
		x := r.Intn(100)
		w := map[int][]int{0: {25, 45, 60, 75, 88}, 1: {45, 85, 90, 93, 96}, 2: {5, 10, 50, 88, 92}, 3: {5, 10, 15, 20, 80}, 4: {8, 16, 24, 32, 40}}[focus]
		switch {
		case x < w[0]:
			c.proc = pReaddir
		case x < w[1]:
			c.proc = pReaddirplus
		case x < w[2]:
			c.proc = pRead
		case x < w[3]:
			c.proc = pWrite
		case x < w[4]:
			c.proc = pMnt
		default:
			c.proc, c.plain = pPlain, PickStr(r, "GETATTR", "GETATTR", "NULL", "FSINFO", "LOOKUP")
		}
		switch c.proc {
		case pReaddir, pReaddirplus:
			c.cookie = PickU64(r, 0, 0, 0, 1, 2, 3, 5, 1000, cookieFromReply, cookieFromReply, cookieFromReply)
			c.count = uint32(PickInt(r, 120, 256, 512, 4096, 65536))
			c.max = uint32(PickInt(r, 300, 1024, 8192, 65536))
		case pRead:
			c.count = uint32(PickInt(r, 1, 4096, 65536, 65537, 70000, 131072))
		case pWrite:
			c.count = uint32(PickInt(r, 1, 4096, 65536, 65537, 70000, 100000))
		}
		calls = append(calls, c)
	}
	return runC18h(cfg, tcp, calls, kind, idx)
}

func corpusC18h() []Case {
	sec := 512 * tick
	base := absnfs.RateLimiterConfig{GlobalRequestsPerSecond: 1000, PerIPRequestsPerSecond: 1000, PerIPBurstSize: 100,
		PerConnectionRequestsPerSecond: 0, PerConnectionBurstSize: 1, ReadLargeOpsPerSecond: 1, WriteLargeOpsPerSecond: 1,
		ReaddirOpsPerSecond: 1, MountOpsPerMinute: 60, CleanupInterval: 5 * time.Minute}
	var cs []Case
	// one address pages through a directory, READDIR and READDIRPLUS alternating, cookies 0,2,4,...: 5 + 1/s
	var pg []hCall
	for i := 0; i < 12; i++ {
		p := pReaddir
		if i%2 == 1 {
			p = pReaddirplus
		}
		pg = append(pg, hCall{dt: 0, proc: p, cookie: uint64(2 * i), count: 512, max: 4096})
	}
	pg = append(pg, hCall{dt: sec, proc: pReaddir, cookie: 3, count: 512}, hCall{dt: 0, proc: pReaddirplus, cookie: 3, count: 512, max: 4096})
	cs = append(cs, runC18h(base, false, pg, "paging-nonzero-cookies", 0))
	// rate 0: five readdir calls for ever, whatever the cookie
	z := base
	z.ReaddirOpsPerSecond = 0
	var pz []hCall
	for i := 0; i < 10; i++ {
		pz = append(pz, hCall{dt: 10 * sec, proc: pReaddir, cookie: uint64(1 + i%2), count: 4096})
	}
	cs = append(cs, runC18h(z, false, pz, "readdir-rate0-cookie-nonzero", 1))
	// the 64 KiB threshold of READ and WRITE
	var io []hCall
	for i := 0; i < 8; i++ {
		io = append(io, hCall{dt: 0, proc: pWrite, count: 65537}, hCall{dt: 0, proc: pWrite, count: 65536},
			hCall{dt: 0, proc: pRead, count: 65537}, hCall{dt: 0, proc: pRead, count: 65536})
	}
	cs = append(cs, runC18h(base, false, io, "io-threshold", 2))
	// over TCP: request limiter (per-IP burst 2) in front of the mount limiter (burst 2)
	t := base
	t.PerIPRequestsPerSecond, t.PerIPBurstSize, t.GlobalRequestsPerSecond = 1, 3, 5
	var tc []hCall
	for i := 0; i < 4; i++ {
		tc = append(tc, hCall{dt: 0, ip: 0, conn: 0, proc: pMnt})
	}
	tc = append(tc, hCall{dt: 0, ip: 1, conn: 1, proc: pMnt}, hCall{dt: 0, ip: 1, conn: 1, proc: pMnt}, hCall{dt: 0, ip: 1, conn: 1, proc: pMnt},
		hCall{dt: 3 * sec, ip: 0, conn: 0, proc: pReaddir, cookie: 7, count: 512}, hCall{dt: 0, ip: 0, conn: 2, proc: pPlain, plain: "NULL"})
	cs = append(cs, runC18h(t, true, tc, "tcp-request-then-mount", 3))
	// over TCP, the numbers of the flood demo: global 5, per-IP 1000/1000, per-connection 1/s burst 2
	cf := base
	cf.GlobalRequestsPerSecond, cf.PerIPRequestsPerSecond, cf.PerIPBurstSize = 5, 1000, 1000
	cf.PerConnectionRequestsPerSecond, cf.PerConnectionBurstSize = 1, 2
	var fl []hCall
	for i := 0; i < 200; i++ {
		fl = append(fl, hCall{dt: 0, ip: 0, conn: 0, proc: pPlain, plain: "NULL"})
	}
	fl = append(fl, hCall{dt: 0, ip: 1, conn: 1, proc: pPlain, plain: "NULL"}, hCall{dt: 0, ip: 2, conn: 2, proc: pPlain, plain: "NULL"},
		hCall{dt: 0, ip: 1, conn: 3, proc: pPlain, plain: "GETATTR"})
	cs = append(cs, runC18h(cf, true, fl, "tcp-conn-flood-then-fresh-clients", 4))
	return cs
}
