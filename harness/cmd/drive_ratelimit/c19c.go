package main

import (
	"fmt"
	"sort"
	"strings"
	"sync"
	"sync/atomic"
	"time"

	. "verifharness/lib"

	"github.com/absfs/absnfs"
)

// C19c: concurrent family of C19 - SAMPLED and ORACLE-ONLY (see coq/Corr/C19c.v).
// Goroutines call RateLimiter.AllowRequest of the real code at the same time while the virtual clock is held still
// (no refill inside a round; the clock is advanced between rounds so that every bucket is full again).
//
//	directed  the global bucket is drained to its last token; a stats poller (the public RateLimiter.GetStats, which
//	          holds the per-IP limiter's read lock while it walks a large per-IP map) keeps the per-IP check of the
//	          abuser's over-limit request waiting; a well-behaved client's first request runs to completion on another
//	          goroutine meanwhile.  If a refused request holds global capacity even transiently, the well-behaved client
//	          finds the global bucket empty.
//	random    one abuser flooding from several goroutines far beyond its per-IP and per-connection limits, 2-4
//	          well-behaved clients within all their limits, a global burst that leaves 1-3 tokens of slack.
//
// Observation per round: one row per (address, connection): attempted, admitted.
func init() {
	Props["C19c"] = &Prop{
		Imports: "From Verif Require Import Corr.C19c.",
		Gen:     genC19c, Corpus: corpusC19c, ShardSize: 40,
		NonTrivial: func(c *Case) bool { return c.Tags["abuser_refused"] > 0 && c.Tags["good_admitted"] > 0 },
	}
}

type crow struct {
	ip, conn uint64
	att, adm int64
}

type cround struct {
	rows []crow
	note string
}

func renderC19c(cfg absnfs.RateLimiterConfig, rounds []cround, kind string, idx int, tags map[string]int) Case {
	var rs, txt []string
	for i, rd := range rounds {
		var rows []string
		var att, adm int64
		for _, r := range rd.rows {
			rows = append(rows, fmt.Sprintf("(%d, %d, %s, %s)", r.ip, r.conn, CZ(r.att), CZ(r.adm)))
			att += r.att
			adm += r.adm
		}
		rs = append(rs, CList(rows))
		if len(txt) < 6 {
			var some []string
			for _, r := range rd.rows {
				if r.adm < r.att || len(rd.rows) <= 8 {
					some = append(some, fmt.Sprintf("ip%d/c%d:%d/%d", r.ip, r.conn, r.adm, r.att))
				}
			}
			if len(some) > 10 {
				some = append(some[:10], "...")
			}
			txt = append(txt, fmt.Sprintf("round %d%s: admitted %d of %d attempted [%s]", i, rd.note, adm, att, strings.Join(some, " ")))
		}
	}
	tags["rounds"] = len(rounds)
	coq := fmt.Sprintf("{| k_global := %s; k_ip_burst := %s; k_conn_on := %s; k_conn_burst := %s; k_rounds := %s |}",
		CZ(int64(cfg.GlobalRequestsPerSecond)), CZ(int64(cfg.PerIPBurstSize)), CBool(cfg.PerConnectionRequestsPerSecond > 0),
		CZ(int64(cfg.PerConnectionBurstSize)), CList(rs))
	return Case{Index: idx, Kind: kind, Coq: coq, Tags: tags,
		Text: fmt.Sprintf("concurrent[%s] global=%d ip=%d/%d conn=%d/%d (admitted/attempted per address/connection; rows with refusals shown) %s",
			kind, cfg.GlobalRequestsPerSecond, cfg.PerIPRequestsPerSecond, cfg.PerIPBurstSize, cfg.PerConnectionRequestsPerSecond,
			cfg.PerConnectionBurstSize, strings.Join(txt, "; "))}
}

// directedC19c: see the file comment.  nfill addresses make the per-IP map large enough for GetStats to hold the
// per-IP read lock for tens of milliseconds.
func directedC19c(G, nfill, attempts int, connOn bool, kind string, idx int) Case {
	defer absnfs.VerifSetClock(0)
	absnfs.VerifSetClock(t0ns)
	cfg := absnfs.RateLimiterConfig{GlobalRequestsPerSecond: G, PerIPRequestsPerSecond: 0, PerIPBurstSize: 1,
		PerConnectionRequestsPerSecond: 0, PerConnectionBurstSize: 3, ReadLargeOpsPerSecond: 1, WriteLargeOpsPerSecond: 1,
		ReaddirOpsPerSecond: 1, MountOpsPerMinute: 60, CleanupInterval: time.Duration(1 << 62)}
	if connOn {
		cfg.PerConnectionRequestsPerSecond = 1
	}
	rl := absnfs.NewRateLimiter(cfg)
	tags := map[string]int{"directed": 1}
	// other clients, each with one request long ago: a large per-IP map (rate 0: their buckets never look idle)
	for i := 0; i < nfill; i++ {
		if i%G == 0 {
			absnfs.VerifAdvanceClock(10_000_000_000)
		}
		id := uint64(1_000_000 + i)
		rl.AllowRequest(ipStr(id), connStr(id))
		rl.CleanupConnection(connStr(id))
	}
	var rounds []cround
	next := uint64(2_000_000)
	for a := 0; a < attempts; a++ {
		absnfs.VerifAdvanceClock(10_000_000_000) // global bucket full again; from here on the clock stands still
		var rows []crow
		abuser := next
		next++
		// the abuser's one legitimate request, then other clients until a single global token is left
		ok := rl.AllowRequest(ipStr(abuser), connStr(abuser))
		abRow := crow{ip: abuser, conn: abuser, att: 1, adm: b2i(ok)}
		for i := 0; i < G-2; i++ {
			id := next
			next++
			rows = append(rows, crow{ip: id, conn: id, att: 1, adm: b2i(rl.AllowRequest(ipStr(id), connStr(id)))})
		}
		// a metrics poller walks the per-IP map under its read lock, again and again
		var stop atomic.Bool
		started := make(chan struct{})
		var wg sync.WaitGroup
		wg.Add(1)
		go func() {
			defer wg.Done()
			close(started)
			for !stop.Load() {
				rl.GetStats()
			}
		}()
		<-started
		time.Sleep(3 * time.Millisecond)
		// the abuser's over-limit request has to wait for the per-IP write lock ...
		abCh := make(chan bool, 1)
		go func() { abCh <- rl.AllowRequest(ipStr(abuser), connStr(abuser)) }()
		time.Sleep(3 * time.Millisecond)
		// ... while a well-behaved client (first request ever) is served on another goroutine
		good := next
		next++
		goodOK := rl.AllowRequest(ipStr(good), connStr(good))
		abOK := <-abCh
		stop.Store(true)
		wg.Wait()
		abRow.att++
		abRow.adm += b2i(abOK)
		rows = append(rows, abRow, crow{ip: good, conn: good, att: 1, adm: b2i(goodOK)})
		tags["abuser_refused"] += int(abRow.att - abRow.adm)
		tags["good_admitted"] += b2i2(goodOK)
		tags["good_refused"] += b2i2(!goodOK)
		rounds = append(rounds, cround{rows: rows, note: " (directed: last global token, abuser's 2nd request in flight, then a new client)"})
	}
	tags["per_ip_map"] = nfill
	return renderC19c(cfg, rounds, kind, idx, tags)
}

func b2i(b bool) int64 {
	if b {
		return 1
	}
	return 0
}
func b2i2(b bool) int { return int(b2i(b)) }

func genC19c(r *Rand, idx int, tier string) Case {
	if r.Chance(6) {
		return directedC19c(PickInt(r, 2, 5, 20), 60000+r.Intn(60000), 2, r.Bool(), "directed", idx)
	}
	defer absnfs.VerifSetClock(0)
	absnfs.VerifSetClock(t0ns)
	ipBurst := PickInt(r, 1, 2, 5, 10)
	connOn := r.Chance(60)
	connBurst := PickInt(r, 1, 2, 5, 10)
	ngood := 2 + r.Intn(3)
	limit := ipBurst
	if connOn && connBurst < limit {
		limit = connBurst
	}
	plan := make([]int, ngood)
	total := 0
	for i := range plan {
		plan[i] = 1 + r.Intn(limit)
		total += plan[i]
	}
	slack := 1 + r.Intn(3)
	cfg := absnfs.RateLimiterConfig{GlobalRequestsPerSecond: ipBurst + total + slack, PerIPRequestsPerSecond: PickInt(r, 1, 3, 10),
		PerIPBurstSize: ipBurst, PerConnectionRequestsPerSecond: 0, PerConnectionBurstSize: connBurst, ReadLargeOpsPerSecond: 1,
		WriteLargeOpsPerSecond: 1, ReaddirOpsPerSecond: 1, MountOpsPerMinute: 60, CleanupInterval: pickCleanup(r)}
	if connOn {
		cfg.PerConnectionRequestsPerSecond = PickInt(r, 1, 3)
	}
	rl := absnfs.NewRateLimiter(cfg)
	abG := 3 + r.Intn(8)     // abuser goroutines
	abN := 40 + r.Intn(200)  // requests per abuser goroutine
	abConns := 1 + r.Intn(3) // abuser connections
	poller := r.Chance(40)
	nrounds := 10 + r.Intn(20)
	tags := map[string]int{"random": 1, "abuser_goroutines": abG, "good_clients": ngood, "slack": slack}
	if poller {
		tags["stats_poller"] = 1
	}
	var rounds []cround
	for rd := 0; rd < nrounds; rd++ {
		absnfs.VerifAdvanceClock(100_000 * 1_000_000_000) // every bucket full; the clock stands still during the round
		counts := map[[2]uint64]*[2]int64{}
		var mu sync.Mutex
		add := func(ip, conn uint64, att, adm int64) {
			mu.Lock()
			c := counts[[2]uint64{ip, conn}]
			if c == nil {
				c = &[2]int64{}
				counts[[2]uint64{ip, conn}] = c
			}
			c[0] += att
			c[1] += adm
			mu.Unlock()
		}
		start := make(chan struct{})
		var wg sync.WaitGroup
		var stop atomic.Bool
		for g := 0; g < abG; g++ {
			wg.Add(1)
			conn := uint64(g % abConns)
			go func() {
				defer wg.Done()
				<-start
				var adm int64
				for i := 0; i < abN; i++ {
					adm += b2i(rl.AllowRequest(ipStr(0), connStr(conn)))
				}
				add(0, conn, int64(abN), adm)
			}()
		}
		for i := 0; i < ngood; i++ {
			wg.Add(1)
			ip, n := uint64(1+i), plan[i]
			spin := r.Intn(2000)
			go func() {
				defer wg.Done()
				<-start
				var adm int64
				for j := 0; j < n; j++ {
					for k := 0; k < spin; k++ { // arrive a little later than the flood starts
						_ = k
					}
					adm += b2i(rl.AllowRequest(ipStr(ip), connStr(10+ip)))
				}
				add(ip, 10+ip, int64(n), adm)
			}()
		}
		var pw sync.WaitGroup
		if poller {
			pw.Add(1)
			go func() {
				defer pw.Done()
				for !stop.Load() {
					rl.GetStats()
				}
			}()
		}
		close(start)
		wg.Wait()
		stop.Store(true)
		pw.Wait()
		var keys [][2]uint64
		for k := range counts {
			keys = append(keys, k)
		}
		sort.Slice(keys, func(i, j int) bool {
			return keys[i][0] < keys[j][0] || (keys[i][0] == keys[j][0] && keys[i][1] < keys[j][1])
		})
		var rows []crow
		for _, k := range keys {
			c := counts[k]
			rows = append(rows, crow{ip: k[0], conn: k[1], att: c[0], adm: c[1]})
			if k[0] == 0 {
				tags["abuser_refused"] += int(c[0] - c[1])
				tags["abuser_admitted"] += int(c[1])
			} else {
				tags["good_admitted"] += int(c[1])
				tags["good_refused"] += int(c[0] - c[1])
			}
		}
		rounds = append(rounds, cround{rows: rows})
	}
	return renderC19c(cfg, rounds, "random", idx, tags)
}

func corpusC19c() []Case {
	return []Case{
		directedC19c(2, 120000, 3, false, "directed-global2", 0),
		directedC19c(20, 120000, 3, true, "directed-global20-conn", 1),
	}
}
