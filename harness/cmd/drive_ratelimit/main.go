// drive_ratelimit: cases for the rate limiters (C18, C19) on the virtual clock.
package main

import "verifharness/lib"

func main() { lib.Main() }
