package main

import (
	"fmt"
	"math"
	"math/big"
	"strings"
	"time"

	. "verifharness/lib"

	"github.com/absfs/absnfs"
)

// One tick of the dyadic grid: 2^-9 s = 1953125 ns.  On this grid Duration.Seconds(), the
// products with dyadic rates and the sums in TokenBucket are exact in float64.
const tick = int64(1953125)
const t0ns = int64(1_000_000_000_000)

const (
	evReq = iota
	evOp
	evClose
)

var opTypes = []absnfs.OperationType{absnfs.OpTypeReadLarge, absnfs.OpTypeWriteLarge, absnfs.OpTypeReaddir, absnfs.OpTypeMount}
var opCoq = []string{"ReadLarge", "WriteLarge", "Readdir", "Mount"}

type rlEvent struct {
	dt   int64 // clock advance before the call, ns
	kind int
	ip   uint64
	conn uint64
	op   int
	role string // generator's label of the sender (C19: "abusive"/"compliant"), not part of the case
}

const (
	tFull = iota
	tPerIP
	tBucket
)

type rlTarget struct {
	kind  int
	cfg   absnfs.RateLimiterConfig
	rate  float64
	burst int
	iv    time.Duration
}

func ipStr(ip uint64) string  { return fmt.Sprintf("10.0.%d.%d", ip/250, 1+ip%250) }
func connStr(c uint64) string { return fmt.Sprintf("conn-%d", c) }
func near1(x float64) bool    { return math.Abs(x-1) <= 1e-6 }
func cq(f float64) string {
	r := new(big.Rat)
	if r.SetFloat64(f) == nil {
		panic("non-finite rate")
	}
	return fmt.Sprintf("(%s # %s)%%Q", r.Num().String(), r.Denom().String())
}
func isDyadic(f float64) bool {
	r := new(big.Rat)
	r.SetFloat64(f)
	d := r.Denom()
	return d.BitLen() <= 12 && new(big.Int).And(d, new(big.Int).Sub(d, big.NewInt(1))).Sign() == 0
}

func (t rlTarget) coq() string {
	switch t.kind {
	case tFull:
		c := t.cfg
		return fmt.Sprintf("(TFull (cfg %s %s %s %s %s %s %s %s %s %s))", CZ(int64(c.GlobalRequestsPerSecond)),
			CZ(int64(c.PerIPRequestsPerSecond)), CZ(int64(c.PerIPBurstSize)),
			CZ(int64(c.PerConnectionRequestsPerSecond)), CZ(int64(c.PerConnectionBurstSize)),
			CZ(int64(c.ReadLargeOpsPerSecond)), CZ(int64(c.WriteLargeOpsPerSecond)), CZ(int64(c.ReaddirOpsPerSecond)),
			CZ(int64(c.MountOpsPerMinute)), CZ(int64(c.CleanupInterval)))
	case tPerIP:
		return fmt.Sprintf("(TPerIP %s %s %s)", cq(t.rate), CZ(int64(t.burst)), CZ(int64(t.iv)))
	default:
		return fmt.Sprintf("(TBucket %s %s)", cq(t.rate), CZ(int64(t.burst)))
	}
}

func (t rlTarget) text() string {
	switch t.kind {
	case tFull:
		c := t.cfg
		return fmt.Sprintf("RateLimiter{global=%d ip=%d/%d conn=%d/%d read=%d write=%d readdir=%d mount/min=%d cleanup=%s}",
			c.GlobalRequestsPerSecond, c.PerIPRequestsPerSecond, c.PerIPBurstSize, c.PerConnectionRequestsPerSecond,
			c.PerConnectionBurstSize, c.ReadLargeOpsPerSecond, c.WriteLargeOpsPerSecond, c.ReaddirOpsPerSecond,
			c.MountOpsPerMinute, c.CleanupInterval)
	case tPerIP:
		return fmt.Sprintf("PerIPLimiter{rate=%g burst=%d cleanup=%s}", t.rate, t.burst, t.iv)
	default:
		return fmt.Sprintf("TokenBucket{rate=%g burst=%d}", t.rate, t.burst)
	}
}

// noCleanup returns the same target with a cleanup interval that never elapses.
func (t rlTarget) noCleanup() rlTarget {
	u := t
	u.cfg.CleanupInterval = time.Duration(math.MaxInt64)
	u.iv = time.Duration(math.MaxInt64)
	return u
}

// execBits replays the calls on a fresh instance and returns only the admit bits.
func execBits(t rlTarget, evs []rlEvent) []bool {
	absnfs.VerifSetClock(t0ns)
	defer absnfs.VerifSetClock(0)
	var rl *absnfs.RateLimiter
	var pl *absnfs.PerIPLimiter
	var tb *absnfs.TokenBucket
	switch t.kind {
	case tFull:
		rl = absnfs.NewRateLimiter(t.cfg)
	case tPerIP:
		pl = absnfs.NewPerIPLimiter(t.rate, t.burst, t.iv)
	default:
		tb = absnfs.NewTokenBucket(t.rate, t.burst)
	}
	out := make([]bool, 0, len(evs))
	for _, e := range evs {
		absnfs.VerifAdvanceClock(e.dt)
		res := true
		switch e.kind {
		case evReq:
			switch t.kind {
			case tFull:
				res = rl.AllowRequest(ipStr(e.ip), connStr(e.conn))
			case tPerIP:
				res = pl.Allow(ipStr(e.ip))
			default:
				res = tb.Allow()
			}
		case evOp:
			res = rl.AllowOperation(ipStr(e.ip), opTypes[e.op])
		case evClose:
			rl.CleanupConnection(connStr(e.conn))
		}
		out = append(out, res)
	}
	return out
}

// runRL executes the calls on the real code under the virtual clock and renders the case.
func runRL(t rlTarget, strict bool, evs []rlEvent, kind string, idx int) Case {
	absnfs.VerifSetClock(t0ns)
	defer absnfs.VerifSetClock(0)
	var rl *absnfs.RateLimiter
	var pl *absnfs.PerIPLimiter
	var tb *absnfs.TokenBucket
	switch t.kind {
	case tFull:
		rl = absnfs.NewRateLimiter(t.cfg)
	case tPerIP:
		pl = absnfs.NewPerIPLimiter(t.rate, t.burst, t.iv)
	default:
		tb = absnfs.NewTokenBucket(t.rate, t.burst)
	}
	tags := map[string]int{"calls": len(evs)}
	var coqEvs, coqObs, txt []string
	ips := map[uint64]bool{}
	conns := map[uint64]bool{}
	var now int64
	for _, e := range evs {
		absnfs.VerifAdvanceClock(e.dt)
		now += e.dt
		if e.dt == 0 {
			tags["dt_zero"]++
		} else if e.dt%tick != 0 {
			tags["dt_offgrid"]++
		}
		if e.dt >= int64(time.Second) {
			tags["dt_ge_1s"]++
		}
		res := true
		var ce, te string
		nIP0, nOp0 := 0, 0
		if rl != nil {
			nIP0, nOp0 = rl.VerifBucketCounts()
		} else if pl != nil {
			nIP0 = pl.VerifLen()
		}
		existed, opEntry := false, false
		switch e.kind {
		case evReq:
			ips[e.ip] = true
			switch t.kind {
			case tFull:
				conns[e.conn] = true
				lv, ok := rl.VerifIPTokens(ipStr(e.ip))
				existed = ok
				if ok && near1(lv) {
					tags["near_threshold"]++
				}
				if lv, ok := rl.VerifConnTokens(connStr(e.conn)); ok && near1(lv) {
					tags["near_threshold"]++
				}
				if near1(rl.VerifGlobalTokens()) {
					tags["near_threshold"]++
				}
				res = rl.AllowRequest(ipStr(e.ip), connStr(e.conn))
				te = fmt.Sprintf("req(ip%d,c%d)", e.ip, e.conn)
			case tPerIP:
				lv, ok := pl.VerifTokens(ipStr(e.ip))
				existed = ok
				if ok && near1(lv) {
					tags["near_threshold"]++
				}
				res = pl.Allow(ipStr(e.ip))
				te = fmt.Sprintf("allow(ip%d)", e.ip)
			default:
				if near1(tb.Tokens()) {
					tags["near_threshold"]++
				}
				res = tb.Allow()
				te = "allow"
			}
			tags["requests"]++
			ce = fmt.Sprintf("Req %d %d", e.ip, e.conn)
		case evOp:
			ips[e.ip] = true
			lv, ok := rl.VerifOpTokens(ipStr(e.ip), opTypes[e.op])
			existed = ok
			for _, o := range opTypes {
				if _, ok := rl.VerifOpTokens(ipStr(e.ip), o); ok {
					opEntry = true
				}
			}
			if ok && near1(lv) {
				tags["near_threshold"]++
			}
			res = rl.AllowOperation(ipStr(e.ip), opTypes[e.op])
			tags["op_"+string(opTypes[e.op])]++
			ce = fmt.Sprintf("Op %d %s", e.ip, opCoq[e.op])
			te = fmt.Sprintf("%s(ip%d)", opTypes[e.op], e.ip)
		case evClose:
			rl.CleanupConnection(connStr(e.conn))
			tags["closes"]++
			ce = fmt.Sprintf("Close %d", e.conn)
			te = fmt.Sprintf("close(c%d)", e.conn)
		}
		// a cleanup pass shows as a drop of the live-bucket count (the bucket of this call is re-created at once)
		nIP1, nOp1 := 0, 0
		if rl != nil {
			nIP1, nOp1 = rl.VerifBucketCounts()
		} else if pl != nil {
			nIP1 = pl.VerifLen()
		}
		add := 0
		if !existed {
			add = 1
		}
		if e.kind == evReq && t.kind != tBucket && nIP1 < nIP0+add {
			tags["cleanup_ip_deleted"] += nIP0 + add - nIP1
		}
		if e.kind == evOp {
			addOp := 1
			if opEntry {
				addOp = 0
			}
			if nOp1 < nOp0+addOp {
				tags["cleanup_op_deleted"] += nOp0 + addOp - nOp1
			}
		}
		if e.kind != evClose {
			if res {
				tags["admitted"]++
			} else {
				tags["denied"]++
			}
			if e.role != "" {
				if res {
					tags[e.role+"_admitted"]++
				} else {
					tags[e.role+"_denied"]++
				}
			}
		}
		coqEvs = append(coqEvs, CPair(CZ(e.dt), ce))
		coqObs = append(coqObs, CBool(res))
		mark := "+"
		if !res {
			mark = "-"
		}
		if e.kind == evClose {
			mark = ""
		}
		txt = append(txt, fmt.Sprintf("@%.9gs %s%s", float64(now)/1e9, te, mark))
	}
	tags["ips"] = len(ips)
	tags["conns"] = len(conns)
	switch t.kind {
	case tFull:
		c := t.cfg
		for _, z := range []struct {
			n string
			v int
		}{{"global", c.GlobalRequestsPerSecond}, {"ip_rate", c.PerIPRequestsPerSecond}, {"ip_burst", c.PerIPBurstSize},
			{"conn_rate", c.PerConnectionRequestsPerSecond}, {"conn_burst", c.PerConnectionBurstSize}} {
			if z.v == 0 {
				tags["cfg_zero_"+z.n]++
			}
		}
		if c.MountOpsPerMinute%60 != 0 {
			tags["cfg_mount_rate_fractional"]++
		}
		tags["cfg_cleanup_"+c.CleanupInterval.String()]++
	case tPerIP:
		if t.rate != math.Trunc(t.rate) {
			tags["cfg_rate_fractional"]++
		}
		if t.rate == 0 {
			tags["cfg_zero_rate"]++
		}
		if t.burst == 0 {
			tags["cfg_zero_burst"]++
		}
		tags["cfg_cleanup_"+t.iv.String()]++
	default:
		if t.rate != math.Trunc(t.rate) {
			tags["cfg_rate_fractional"]++
		}
		if t.rate == 0 {
			tags["cfg_zero_rate"]++
		}
		if t.burst == 0 {
			tags["cfg_zero_burst"]++
		}
	}
	// the same calls on an instance of the real code whose cleanup passes never run
	var coqObsNC []string
	for i, b := range execBits(t.noCleanup(), evs) {
		coqObsNC = append(coqObsNC, CBool(b))
		if CBool(b) != coqObs[i] {
			tags["cleanup_visible"]++
		}
	}
	coq := fmt.Sprintf("{| c_target := %s; c_strict := %s; c_evs := %s; c_obs := %s; c_obs_nc := %s |}",
		t.coq(), CBool(strict), CList(coqEvs), CList(coqObs), CList(coqObsNC))
	mode := "grid"
	if !strict {
		mode = "ns"
	}
	return Case{Index: idx, Kind: kind, Coq: coq, Tags: tags,
		Text: fmt.Sprintf("%s [%s] %s", t.text(), mode, strings.Join(txt, " "))}
}

// ---- timing ----

// gridDt draws a clock advance on the 2^-9 s grid: bursts (0), sub-second steps, exact refill
// periods of the given rates, seconds, and rare long pauses (past the 5-minute cleanup interval).
func gridDt(r *Rand, rates []float64) int64 {
	x := r.Intn(100)
	switch {
	case x < 30:
		return 0
	case x < 50:
		return int64(1+r.Intn(8)) * tick
	case x < 65:
		// one refill period of some rate, when it lies on the grid (rate 1 -> 512 ticks, 0.5 -> 1024, 4 -> 128 ...)
		rt := rates[r.Intn(len(rates))]
		if rt > 0 {
			p := 512 / rt
			if p == math.Trunc(p) && p >= 1 && p < 1e6 {
				k := int64(p)
				if r.Chance(30) {
					k += int64(r.Intn(3)) - 1 // one tick short / long
				}
				if k < 0 {
					k = 0
				}
				return k * tick
			}
		}
		return int64(1+r.Intn(512)) * tick
	case x < 88:
		return int64(1+r.Intn(1024)) * tick
	case x < 96:
		return int64(512+r.Intn(512*20)) * tick
	default:
		return int64(512*290+r.Intn(512*40)) * tick // around 5 minutes
	}
}

// nsDt draws an arbitrary nanosecond advance, including exact refill periods 1e9/rate.
func nsDt(r *Rand, rates []float64) int64 {
	x := r.Intn(100)
	switch {
	case x < 25:
		return 0
	case x < 45:
		return int64(1 + r.Intn(20_000_000))
	case x < 65:
		rt := rates[r.Intn(len(rates))]
		if rt > 0 {
			p := int64(math.Round(1e9 / rt))
			if r.Chance(40) {
				p += int64(r.Intn(5)) - 2
			}
			if p < 0 {
				p = 0
			}
			if p < 4e11 {
				return p
			}
		}
		return int64(1 + r.Intn(1_000_000_000))
	case x < 90:
		return int64(1 + r.Intn(2_000_000_000))
	case x < 97:
		return int64(1_000_000_000 + r.Intn(20)*1_000_000_007)
	default:
		return int64(290_000_000_000) + int64(r.Intn(40_000))*1_000_003
	}
}

func pickCleanup(r *Rand) time.Duration {
	return []time.Duration{time.Nanosecond, time.Second, 5 * time.Minute}[r.Intn(3)]
}
