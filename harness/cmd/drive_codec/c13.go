package main

// C13: XDR, RPC and record-marking codecs are exact and bounded.
//
// Every case runs the real codecs of /repo (through verif_hooks_codec.go for the unexported ones) and prints the
// input together with the observation as a Coq term of type Corr.C13.case:
//   - decoders run under recReader, which records the size of the buffer of every Read call (with this reader
//     io.ReadFull issues exactly one Read per buffer) and the number of bytes handed out (reader offset);
//   - the allocation volume of a call is the runtime.MemStats.TotalAlloc delta across it (GC switched off);
//   - call headers, AUTH_SYS bodies and fragmentations have no encoder in the package: refCall/refAuth/refFrags below
//     are the harness's RFC 1831 encoders, and Coq checks that their output equals the model's encoding.
// Records near 1 MiB are NOT printed into Coq terms: their content is compared here (bytes.Equal) and Coq gets the
// fragment lengths, on which it runs the model with zero payload (KBig/KBigW).

import (
	"bytes"
	"encoding/binary"
	"encoding/hex"
	"fmt"
	"io"
	"runtime"
	"runtime/debug"
	"strings"

	. "verifharness/lib"

	"github.com/absfs/absnfs"
)

func init() {
	warm()
	debug.SetGCPercent(-1) // allocation volumes are measured; collections run explicitly between cases
	Props["C13"] = &Prop{
		Imports:    "From Coq Require Import PrimInt63.\nFrom Verif Require Import Model.Bytes Model.Xdr Model.Rpc Model.RecordMark Corr.C13.",
		Gen:        genC13,
		Corpus:     corpusC13,
		NonTrivial: func(c *Case) bool { return c.Tags["variable_length_item"] > 0 || c.Tags["result_err"] > 0 },
		ShardSize:  60,
	}
}

// ---------------------------------------------------------------- observation

type recReader struct {
	data  []byte
	pos   int
	reads []uint64
}

func (r *recReader) Read(p []byte) (int, error) {
	r.reads = append(r.reads, uint64(len(p)))
	n := copy(p, r.data[r.pos:])
	r.pos += n
	if n < len(p) {
		return n, io.EOF
	}
	return n, nil
}

var ms0, ms1 runtime.MemStats

func measure(f func()) uint64 {
	runtime.ReadMemStats(&ms0)
	f()
	runtime.ReadMemStats(&ms1)
	return ms1.TotalAlloc - ms0.TotalAlloc
}

// maybeGC collects between cases once the heap (as of the last measurement) has grown past 96 MiB.
func maybeGC() {
	if ms1.HeapAlloc > 96<<20 {
		runtime.GC()
		ms1.HeapAlloc = 0
		warm()
	}
}

// warm refills what a collection empties (sync.Pool of fmt, used by the decoders' fmt.Errorf) outside any measurement.
func warm() {
	for i := 0; i < 3; i++ {
		absnfs.VerifXdrDecodeString(bytes.NewReader([]byte{0xff, 0xff, 0xff, 0xff}))
		absnfs.DecodeRPCCall(bytes.NewReader([]byte{0, 0, 0, 1, 0, 0, 0, 9}))
		absnfs.ParseAuthSysCredential([]byte{1})
		absnfs.NewRecordMarkingReader(bytes.NewReader([]byte{0x7f, 0xff, 0xff, 0xff})).ReadRecord()
	}
}

type obs struct {
	ok    bool
	used  uint64
	reads []uint64
	alloc uint64
}

// Panics counts decoder panics (reported in the stream's tags).
var Panics int

func observe(input []byte, f func(r io.Reader) bool) obs {
	rr := &recReader{data: input, reads: make([]uint64, 0, 64)}
	ok := false
	panicked := false
	a := measure(func() {
		defer func() {
			if recover() != nil {
				panicked = true
			}
		}()
		ok = f(rr)
	})
	if panicked {
		// a decoder that panics on its input is recorded as an accepted value with an absurd allocation volume: no
		// bound of the property holds for it, so the oracle reports the case (code 2) with the input as the replay
		Panics++
		return obs{true, uint64(rr.pos), rr.reads, 1 << 62}
	}
	return obs{ok, uint64(rr.pos), rr.reads, a}
}

// ---------------------------------------------------------------- reference encoders (RFC 1831 / 4506)

func be32(v uint32) []byte { b := make([]byte, 4); binary.BigEndian.PutUint32(b, v); return b }
func be64(v uint64) []byte { b := make([]byte, 8); binary.BigEndian.PutUint64(b, v); return b }
func cat(parts ...[]byte) []byte {
	var out []byte
	for _, p := range parts {
		out = append(out, p...)
	}
	if out == nil {
		out = []byte{}
	}
	return out
}
func refOpaque(b []byte) []byte {
	return cat(be32(uint32(len(b))), b, make([]byte, (4-len(b)%4)%4))
}

type callT struct {
	xid, rv, prog, vers, proc, cf, vf uint32
	cb, vb                            []byte
}

func refCall(c callT) []byte {
	return cat(be32(c.xid), be32(0), be32(c.rv), be32(c.prog), be32(c.vers), be32(c.proc),
		be32(c.cf), refOpaque(c.cb), be32(c.vf), refOpaque(c.vb))
}

type authT struct {
	stamp    uint32
	name     []byte
	uid, gid uint32
	gids     []uint32
}

func refAuth(a authT) []byte {
	out := cat(be32(a.stamp), refOpaque(a.name), be32(a.uid), be32(a.gid), be32(uint32(len(a.gids))))
	for _, g := range a.gids {
		out = append(out, be32(g)...)
	}
	return out
}
func refFrags(frs [][]byte) []byte {
	var out []byte
	for i, f := range frs {
		h := uint32(len(f))
		if i == len(frs)-1 {
			h |= 0x80000000
		}
		out = append(out, be32(h)...)
		out = append(out, f...)
	}
	return out
}

// parseFrags splits a record-marked stream into the fragments of its first record.
func parseFrags(s []byte) (lens []uint64, lastOnlyAtEnd bool, rest []byte, ok bool) {
	for {
		if len(s) < 4 {
			return lens, false, s, false
		}
		h := binary.BigEndian.Uint32(s)
		n := int(h & 0x7fffffff)
		if len(s)-4 < n {
			return lens, false, s, false
		}
		lens = append(lens, uint64(n))
		s = s[4+n:]
		if h&0x80000000 != 0 {
			return lens, true, s, true
		}
	}
}

// ---------------------------------------------------------------- Coq printing

// Large random contents come from a small linear congruential generator that Corr/C13.v defines too (G / Gn), so a
// case file carries "(G seed n)" instead of n literal bytes.  hx prints ANY byte string exactly: it cuts it greedily into
// literal pieces and pieces that are sub-slices of recently generated blobs ("Sl off n (G seed total)").
type blob struct {
	seed    uint32
	nulFree bool
	data    []byte
}

var blobs []blob

func prg(seed uint32, n int, nulFree bool) []byte {
	out := make([]byte, n)
	x := uint64(seed)
	for i := range out {
		x = (x*1103515245 + 12345) % (1 << 31)
		if nulFree {
			out[i] = byte(1 + (x>>16)%255)
		} else {
			out[i] = byte((x >> 16) % 256)
		}
	}
	return out
}

func newBlob(r *Rand, n int, nulFree bool) []byte {
	seed := uint32(r.U64() & 0x7fffffff)
	d := prg(seed, n, nulFree)
	blobs = append(blobs, blob{seed, nulFree, d})
	if len(blobs) > 8 {
		blobs = blobs[len(blobs)-8:]
	}
	return d
}

// Coq 8.16 parses primitive-integer literals ~100x faster than N literals or strings: numbers are printed as
// "(n 123)" and byte strings as "(B len [w; ...]%uint63)" with 7 bytes per word, big-endian (see Corr/C13.v).
func cn(x uint64) string {
	if x < 1<<62 {
		return fmt.Sprintf("(n %d)", x)
	}
	return fmt.Sprintf("(n2 %d %d)", x>>32, x&0xffffffff)
}
func cns(xs []uint64) string {
	out := make([]string, len(xs))
	for i, x := range xs {
		if x >= 1<<62 {
			panic("cns: value too large")
		}
		out[i] = fmt.Sprintf("%d", x)
	}
	return "(ns " + CList(out) + "%uint63)"
}
func lit(b []byte) string {
	var ws []string
	for i := 0; i < len(b); i += 7 {
		var w uint64
		for j := i; j < i+7 && j < len(b); j++ {
			w = w<<8 | uint64(b[j])
		}
		ws = append(ws, fmt.Sprintf("%d", w))
	}
	return fmt.Sprintf("(B %d %s%%uint63)", len(b), CList(ws))
}

func hx(b []byte) string {
	if len(b) < 48 {
		return lit(b)
	}
	var segs []string
	litStart, p := 0, 0
	flush := func(end int) {
		if end > litStart {
			segs = append(segs, lit(b[litStart:end]))
		}
	}
outer:
	for p < len(b) {
		if len(b)-p >= 32 {
			probe := b[p : p+16]
			for i := len(blobs) - 1; i >= 0; i-- {
				bl := blobs[i]
				if len(bl.data) > 1<<17 {
					continue
				}
				off := bytes.Index(bl.data, probe)
				if off < 0 {
					continue
				}
				n := 0
				for p+n < len(b) && off+n < len(bl.data) && b[p+n] == bl.data[off+n] {
					n++
				}
				if n < 32 {
					continue
				}
				flush(p)
				g := "G"
				if bl.nulFree {
					g = "Gn"
				}
				whole := fmt.Sprintf("(%s %d %d)", g, bl.seed, len(bl.data))
				if off == 0 && n == len(bl.data) {
					segs = append(segs, whole)
				} else {
					segs = append(segs, fmt.Sprintf("(Sl %d %d %s)", off, n, whole))
				}
				p += n
				litStart = p
				continue outer
			}
		}
		p++
	}
	flush(len(b))
	if len(segs) == 1 {
		return segs[0]
	}
	return "(cat " + CList(segs) + ")"
}
func shortHex(b []byte) string {
	if len(b) > 24 {
		return hex.EncodeToString(b[:20]) + fmt.Sprintf("..(%d bytes)", len(b))
	}
	return hex.EncodeToString(b)
}
func cobs(val string, o obs) string {
	return "(mkObs " + COpt(val, o.ok) + " " + cn(o.used) + " " + cns(o.reads) + " " + cn(o.alloc) + ")"
}
func ccall(c callT) string {
	return fmt.Sprintf("(mkCall (n %d) (n %d) (n %d) (n %d) (n %d) (n %d) %s (n %d) %s)", c.xid, c.rv, c.prog, c.vers, c.proc, c.cf, hx(c.cb), c.vf, hx(c.vb))
}
func cauth(a authT) string {
	g := make([]uint64, len(a.gids))
	for i, x := range a.gids {
		g[i] = uint64(x)
	}
	return fmt.Sprintf("(mkAuthSys (n %d) %s (n %d) (n %d) %s)", a.stamp, hx(a.name), a.uid, a.gid, cns(g))
}
func otext(o obs) string {
	return fmt.Sprintf("ok=%v used=%d reads=%v alloc=%d", o.ok, o.used, o.reads, o.alloc)
}

type tagger map[string]int

func (t tagger) lenTags(what string, n int, limit int) {
	t["variable_length_item"]++
	t[fmt.Sprintf("%s_len_mod4=%d", what, n%4)]++
	switch {
	case n <= 9:
		t[what+"_len_0..9"]++
	case n == limit-1:
		t[what+"_len_limit-1"]++
	case n == limit:
		t[what+"_len_limit"]++
	case n == limit+1:
		t[what+"_len_limit+1"]++
	case n > limit+1:
		t[what+"_len_above_limit+1"]++
	default:
		t[what+"_len_10..limit-2"]++
	}
}
func (t tagger) result(o obs) {
	if o.ok {
		t["result_ok"]++
	} else {
		t["result_err"]++
	}
}

// ---------------------------------------------------------------- case builders

func caseU32(v uint32, rest []byte) Case {
	var w bytes.Buffer
	absnfs.VerifXdrEncodeUint32(&w, v)
	genc := append([]byte{}, w.Bytes()...)
	var got uint32
	o := observe(cat(genc, rest), func(r io.Reader) bool { x, err := absnfs.VerifXdrDecodeUint32(r); got = x; return err == nil })
	t := tagger{"u32": 1}
	t.result(o)
	return Case{Kind: "u32-roundtrip", Tags: t,
		Coq:  fmt.Sprintf("KU32 %s %s %s %s", cn(uint64(v)), hx(genc), hx(rest), cobs(cn(uint64(got)), o)),
		Text: fmt.Sprintf("xdrEncodeUint32(%d)=%x; xdrDecodeUint32(.. ++ %x) = %d %s", v, genc, rest, got, otext(o))}
}

func caseU64(v uint64) Case {
	var w bytes.Buffer
	absnfs.VerifXdrEncodeUint64(&w, v)
	genc := append([]byte{}, w.Bytes()...)
	return Case{Kind: "u64-encode", Tags: tagger{"u64": 1},
		Coq: fmt.Sprintf("KU64 %s %s", cn(v), hx(genc)), Text: fmt.Sprintf("xdrEncodeUint64(%d)=%x", v, genc)}
}

func caseStr(s, rest []byte, kind string) Case {
	var w bytes.Buffer
	absnfs.VerifXdrEncodeString(&w, string(s))
	genc := append([]byte{}, w.Bytes()...)
	var got string
	o := observe(cat(genc, rest), func(r io.Reader) bool { x, err := absnfs.VerifXdrDecodeString(r); got = x; return err == nil })
	t := tagger{}
	t.lenTags("string", len(s), 8192)
	t.result(o)
	if bytes.IndexByte(s, 0) >= 0 {
		t["string_with_nul"]++
	}
	return Case{Kind: kind, Tags: t,
		Coq:  fmt.Sprintf("KStr %s %s %s %s", hx(s), hx(genc), hx(rest), cobs(hx([]byte(got)), o)),
		Text: fmt.Sprintf("xdrEncodeString(len %d: %s) -> %d bytes; xdrDecodeString(.. ++ %x) -> %q.. %s", len(s), shortHex(s), len(genc), rest, trunc(got, 16), otext(o))}
}

func trunc(s string, n int) string {
	if len(s) > n {
		return s[:n]
	}
	return s
}

func caseRawStr(input []byte, kind string) Case {
	var got string
	o := observe(input, func(r io.Reader) bool { x, err := absnfs.VerifXdrDecodeString(r); got = x; return err == nil })
	t := tagger{"variable_length_item": 1, "raw_stream": 1}
	t.result(o)
	if len(input) >= 4 {
		d := binary.BigEndian.Uint32(input)
		if d > 8192 {
			t["declared_above_limit"]++
		}
		if d == 0xffffffff {
			t["declared_2^32-1"]++
		}
	}
	return Case{Kind: kind, Tags: t,
		Coq:  fmt.Sprintf("KRawStr %s %s", hx(input), cobs(hx([]byte(got)), o)),
		Text: fmt.Sprintf("xdrDecodeString(%s) -> %q.. %s", shortHex(input), trunc(got, 16), otext(o))}
}

func caseFh(h uint64, rest []byte) Case {
	var w bytes.Buffer
	absnfs.VerifXdrEncodeFileHandle(&w, h)
	genc := append([]byte{}, w.Bytes()...)
	var got uint64
	o := observe(cat(genc, rest), func(r io.Reader) bool { x, err := absnfs.VerifXdrDecodeFileHandle(r); got = x; return err == nil })
	t := tagger{"variable_length_item": 1, "handle": 1}
	t.result(o)
	return Case{Kind: "handle-roundtrip", Tags: t,
		Coq:  fmt.Sprintf("KFh %s %s %s %s", cn(h), hx(genc), hx(rest), cobs(cn(got), o)),
		Text: fmt.Sprintf("xdrEncodeFileHandle(%d)=%x; xdrDecodeFileHandle(.. ++ %x) = %d %s", h, genc, rest, got, otext(o))}
}

func caseRawFh(input []byte, kind string) Case {
	var got uint64
	o := observe(input, func(r io.Reader) bool { x, err := absnfs.VerifXdrDecodeFileHandle(r); got = x; return err == nil })
	t := tagger{"raw_stream": 1}
	if len(input) >= 4 {
		d := binary.BigEndian.Uint32(input)
		if d < 1<<20 {
			t.lenTags("handle", int(d), 64)
		} else {
			t["variable_length_item"]++
			t["declared_above_limit"]++
		}
	}
	t.result(o)
	return Case{Kind: kind, Tags: t,
		Coq:  fmt.Sprintf("KRawFh %s %s", hx(input), cobs(cn(got), o)),
		Text: fmt.Sprintf("xdrDecodeFileHandle(%s) = %d %s", shortHex(input), got, otext(o))}
}

func caseRawU32(input []byte) Case {
	var got uint32
	o := observe(input, func(r io.Reader) bool { x, err := absnfs.VerifXdrDecodeUint32(r); got = x; return err == nil })
	t := tagger{"raw_stream": 1, "u32": 1}
	t.result(o)
	return Case{Kind: "u32-raw", Tags: t,
		Coq:  fmt.Sprintf("KRawU32 %s %s", hx(input), cobs(cn(uint64(got)), o)),
		Text: fmt.Sprintf("xdrDecodeUint32(%x) = %d %s", input, got, otext(o))}
}

func goCall(c *absnfs.RPCCall) callT {
	return callT{xid: c.Header.Xid, rv: c.Header.RPCVersion, prog: c.Header.Program, vers: c.Header.Version,
		proc: c.Header.Procedure, cf: c.Credential.Flavor, cb: c.Credential.Body, vf: c.Verifier.Flavor, vb: c.Verifier.Body}
}

func observeCall(input []byte) (callT, obs) {
	var got callT
	o := observe(input, func(r io.Reader) bool {
		c, err := absnfs.DecodeRPCCall(r)
		if err == nil {
			got = goCall(c)
		}
		return err == nil
	})
	return got, o
}

func caseCall(c callT, rest []byte, kind string) Case {
	input := cat(refCall(c), rest)
	got, o := observeCall(input)
	t := tagger{}
	t.lenTags("cred", len(c.cb), 400)
	t.lenTags("verf", len(c.vb), 400)
	t.result(o)
	return Case{Kind: kind, Tags: t,
		Coq: fmt.Sprintf("KCall %s %s %s %s", ccall(c), hx(input), hx(rest), cobs(ccall(got), o)),
		Text: fmt.Sprintf("DecodeRPCCall(call xid=%d prog=%d vers=%d proc=%d cred(flavor %d, %d bytes) verf(flavor %d, %d bytes) ++ %d arg bytes) -> xid=%d cred=%d verf=%d %s",
			c.xid, c.prog, c.vers, c.proc, c.cf, len(c.cb), c.vf, len(c.vb), len(rest), got.xid, len(got.cb), len(got.vb), otext(o))}
}

func caseRawCall(input []byte, kind string) Case {
	got, o := observeCall(input)
	t := tagger{"variable_length_item": 1, "raw_stream": 1}
	t.result(o)
	if len(input) >= 32 && binary.BigEndian.Uint32(input[28:]) > 400 {
		t["declared_above_limit"]++
	}
	return Case{Kind: kind, Tags: t,
		Coq:  fmt.Sprintf("KRawCall %s %s", hx(input), cobs(ccall(got), o)),
		Text: fmt.Sprintf("DecodeRPCCall(%s) -> xid=%d cred=%d verf=%d %s", shortHex(input), got.xid, len(got.cb), len(got.vb), otext(o))}
}

func observeAuth(body []byte) (authT, obs) {
	var got authT
	ok := false
	a := measure(func() {
		c, err := absnfs.ParseAuthSysCredential(body)
		if err == nil {
			got = authT{stamp: c.Stamp, name: []byte(c.MachineName), uid: c.UID, gid: c.GID, gids: c.AuxGIDs}
			ok = true
		}
	})
	// []byte(c.MachineName) above is part of the window: it copies len(name) bytes once more (accounted in Coq's factor 2)
	return got, obs{ok: ok, alloc: a, reads: []uint64{}}
}

func caseAuth(a authT, trail []byte, kind string) Case {
	body := cat(refAuth(a), trail)
	got, o := observeAuth(body)
	t := tagger{}
	t.lenTags("machinename", len(a.name), 8192)
	t.lenTags("gids", len(a.gids), 16)
	t.result(o)
	return Case{Kind: kind, Tags: t,
		Coq: fmt.Sprintf("KAuth %s %s %s %s", cauth(a), hx(body), hx(trail), cobs(cauth(got), o)),
		Text: fmt.Sprintf("ParseAuthSysCredential(stamp=%d name=%q uid=%d gid=%d %d gids ++ %d trailing) -> name=%q gids=%d %s",
			a.stamp, trunc(string(a.name), 20), a.uid, a.gid, len(a.gids), len(trail), trunc(string(got.name), 20), len(got.gids), otext(o))}
}

func caseRawAuth(body []byte, kind string) Case {
	got, o := observeAuth(body)
	t := tagger{"variable_length_item": 1, "raw_stream": 1}
	t.result(o)
	return Case{Kind: kind, Tags: t,
		Coq:  fmt.Sprintf("KRawAuth %s %s", hx(body), cobs(cauth(got), o)),
		Text: fmt.Sprintf("ParseAuthSysCredential(%s) -> name=%q gids=%d %s", shortHex(body), trunc(string(got.name), 20), len(got.gids), otext(o))}
}

type replyT struct {
	xid, status, accept, vf uint32
	vb                      []byte
	dkind                   int // 0 nil, 1 []byte, 2 string, 3 uint32
	dbytes                  []byte
	du32                    uint32
}

func caseReply(r replyT) Case {
	rep := &absnfs.RPCReply{Status: r.status, AcceptStatus: r.accept}
	rep.Header.Xid = r.xid
	rep.Verifier.Flavor = r.vf
	rep.Verifier.Body = r.vb
	cd := "DNone"
	switch r.dkind {
	case 1:
		rep.Data = r.dbytes
		cd = "(DBytes " + hx(r.dbytes) + ")"
	case 2:
		rep.Data = string(r.dbytes)
		cd = "(DString " + hx(r.dbytes) + ")"
	case 3:
		rep.Data = r.du32
		cd = fmt.Sprintf("(DU32 (n %d))", r.du32)
	}
	var w bytes.Buffer
	err := absnfs.EncodeRPCReply(&w, rep)
	gout := append([]byte{}, w.Bytes()...)
	st := fmt.Sprintf("reply_status=%d", r.status)
	if r.status > 1 {
		st = "reply_status=other"
	}
	t := tagger{"variable_length_item": 1, "reply": 1, st: 1, fmt.Sprintf("reply_accept=%d", r.accept): 1}
	return Case{Kind: "reply-encode", Tags: t,
		Coq:  fmt.Sprintf("KReply (mkReply (n %d) (n %d) (n %d) (n %d) %s %s) %s", r.xid, r.status, r.accept, r.vf, hx(r.vb), cd, hx(gout)),
		Text: fmt.Sprintf("EncodeRPCReply(xid=%d status=%d accept=%d verf(%d,%d bytes) data kind %d) = %s err=%v", r.xid, r.status, r.accept, r.vf, len(r.vb), r.dkind, shortHex(gout), err)}
}

// readRecords: successive ReadRecord calls on one reader until the first error (at most maxCalls).
func readRecords(input []byte, mx int, maxCalls int) ([][]byte, []obs) {
	rr := &recReader{data: input, reads: make([]uint64, 0, len(input)/4+16)}
	rd := absnfs.NewRecordMarkingReader(rr)
	rd.MaxRecordSize = mx
	var vals [][]byte
	var os []obs
	for i := 0; i < maxCalls; i++ {
		p0, r0 := rr.pos, len(rr.reads)
		var rec []byte
		ok := false
		a := measure(func() {
			x, err := rd.ReadRecord()
			rec, ok = x, err == nil
		})
		os = append(os, obs{ok, uint64(rr.pos - p0), append([]uint64{}, rr.reads[r0:]...), a})
		vals = append(vals, rec)
		if !ok {
			break
		}
	}
	return vals, os
}

func caseRecs(mx int, recs [][][]byte, tail []byte, kind string) Case {
	var input []byte
	t := tagger{"variable_length_item": 1}
	var crecs []string
	for _, frs := range recs {
		input = append(input, refFrags(frs)...)
		var cf []string
		total := 0
		for i, f := range frs {
			cf = append(cf, hx(f))
			total += len(f)
			if len(f) == 0 {
				t["empty_fragments"]++
				if i == len(frs)-1 {
					t["empty_last_fragment"]++
				}
			}
		}
		t["fragments"] += len(frs)
		t["records"]++
		if len(frs) > 1 {
			t["multi_fragment_records"]++
		}
		emax := mx
		if emax <= 0 {
			emax = 1 << 20
		}
		if total > emax {
			t["record_above_limit"]++
		}
		crecs = append(crecs, CList(cf))
	}
	input = append(input, tail...)
	if input == nil {
		input = []byte{}
	}
	vals, os := readRecords(input, mx, len(recs)+4)
	var cos, txt []string
	for i, o := range os {
		cos = append(cos, cobs(hx(vals[i]), o))
		txt = append(txt, fmt.Sprintf("#%d len=%d %s", i, len(vals[i]), otext(o)))
		t.result(o)
	}
	if len(tail) > 0 {
		t["stream_with_tail"]++
	}
	return Case{Kind: kind, Tags: t,
		Coq:  fmt.Sprintf("KRecs %s %s %s %s %s", CZ(int64(mx)), CList(crecs), hx(tail), hx(input), CList(cos)),
		Text: fmt.Sprintf("ReadRecord x%d on %d records (MaxRecordSize=%d, %d stream bytes, tail %s): %s", len(os), len(recs), mx, len(input), shortHex(tail), strings.Join(txt, "; "))}
}

func caseWrite(mf, mx int, data []byte, kind string) Case {
	var w bytes.Buffer
	wr := absnfs.NewRecordMarkingWriterWithSize(&w, mf)
	err := wr.WriteRecord(data)
	gout := append([]byte{}, w.Bytes()...)
	vals, os := readRecords(gout, mx, 1)
	lens, _, _, _ := parseFrags(gout)
	t := tagger{"variable_length_item": 1, "written_records": 1, "written_fragments": len(lens)}
	t.result(os[0])
	return Case{Kind: kind, Tags: t,
		Coq:  fmt.Sprintf("KWrite %s %s %s %s %s", CZ(int64(mf)), CZ(int64(mx)), hx(data), hx(gout), cobs(hx(vals[0]), os[0])),
		Text: fmt.Sprintf("WriteRecord(max fragment %d, %d bytes) = %d bytes in %d fragments err=%v; ReadRecord(MaxRecordSize=%d) -> len=%d %s", mf, len(data), len(gout), len(lens), err, mx, len(vals[0]), otext(os[0]))}
}

func caseTrunc(kind string, input []byte) Case {
	var cos []string
	t := tagger{"variable_length_item": 1, "cut_points": len(input)}
	coqKind := map[string]string{"u32": "TU32", "string": "TStr", "handle": "TFh", "call": "TCall", "authsys": "TAuth"}[kind]
	nerr := 0
	for k := 0; k < len(input); k++ {
		p := input[:k]
		var o obs
		switch kind {
		case "u32":
			o = observe(p, func(r io.Reader) bool { _, err := absnfs.VerifXdrDecodeUint32(r); return err == nil })
		case "string":
			o = observe(p, func(r io.Reader) bool { _, err := absnfs.VerifXdrDecodeString(r); return err == nil })
		case "handle":
			o = observe(p, func(r io.Reader) bool { _, err := absnfs.VerifXdrDecodeFileHandle(r); return err == nil })
		case "call":
			o = observe(p, func(r io.Reader) bool { _, err := absnfs.DecodeRPCCall(r); return err == nil })
		case "authsys":
			_, o = observeAuth(p)
		}
		if !o.ok {
			nerr++
		}
		cos = append(cos, CPair(CBool(o.ok), cn(o.used)))
	}
	t["result_err"] = nerr
	t["result_ok"] = len(input) - nerr
	return Case{Kind: "truncate-" + kind, Tags: t,
		Coq:  fmt.Sprintf("KTrunc %s %s %s", coqKind, hx(input), CList(cos)),
		Text: fmt.Sprintf("%s decoder on every proper prefix of %s (%d cut points): %d errors", kind, shortHex(input), len(input), nerr)}
}

// fill: n random bytes; 48 bytes and more come from the shared generator (printed compactly)
func fill(r *Rand, n int) []byte {
	if n >= 48 && n <= 1<<17 {
		return newBlob(r, n, false)
	}
	return rawFill(r, n)
}

func rawFill(r *Rand, n int) []byte {
	b := make([]byte, n)
	for i := 0; i < n; i += 8 {
		x := r.U64()
		for j := 0; j < 8 && i+j < n; j++ {
			b[i+j] = byte(x >> (8 * j))
		}
	}
	return b
}

func caseBig(r *Rand, mx int, lens []int, tail int, kind string) Case {
	var frs [][]byte
	total := 0
	for _, l := range lens {
		frs = append(frs, rawFill(r, l))
		total += l
	}
	input := cat(refFrags(frs), make([]byte, tail))
	want := cat(frs...)
	vals, os := readRecords(input, mx, 1)
	o := os[0]
	equal := o.ok && bytes.Equal(vals[0], want)
	ul := make([]uint64, len(lens))
	empty := 0
	for i, l := range lens {
		ul[i] = uint64(l)
		if l == 0 {
			empty++
		}
	}
	t := tagger{"variable_length_item": 1, "big_records": 1, "fragments": len(lens), "empty_fragments": empty, "records": 1}
	t.result(o)
	switch total {
	case 1<<20 - 1:
		t["record_len_limit-1"]++
	case 1 << 20:
		t["record_len_limit"]++
	case 1<<20 + 1:
		t["record_len_limit+1"]++
	}
	maybeGC()
	return Case{Kind: kind, Tags: t,
		Coq: fmt.Sprintf("KBig %s %s %s %s %s %s %s %s %s", CZ(int64(mx)), cns(ul), cn(uint64(tail)), CBool(o.ok), CBool(equal), cn(uint64(len(vals[0]))), cn(o.used), cns(o.reads), cn(o.alloc)),
		Text: fmt.Sprintf("ReadRecord(MaxRecordSize=%d) on a %d-byte record in fragments %v (+%d tail): content equal=%v len=%d %s",
			mx, total, lens, tail, equal, len(vals[0]), otext(o))}
}

func caseBigW(r *Rand, mf, mx, total int, kind string) Case {
	data := rawFill(r, total)
	var w bytes.Buffer
	wr := absnfs.NewRecordMarkingWriterWithSize(&w, mf)
	var werr error
	a := measure(func() { werr = wr.WriteRecord(data) })
	gout := w.Bytes()
	lens, lastOK, rest, ok := parseFrags(gout)
	lastOK = lastOK && ok && len(rest) == 0 && werr == nil
	// payload of the fragments must be the data, in order
	pos, off := 0, 0
	for _, l := range lens {
		off += 4
		if !bytes.Equal(gout[off:off+int(l)], data[pos:pos+int(l)]) {
			lastOK = false
		}
		off += int(l)
		pos += int(l)
	}
	vals, os := readRecords(gout, mx, 1)
	backOK := os[0].ok && bytes.Equal(vals[0], data)
	t := tagger{"variable_length_item": 1, "big_records": 1, "written_records": 1, "written_fragments": len(lens)}
	t.result(os[0])
	maybeGC()
	return Case{Kind: kind, Tags: t,
		Coq: fmt.Sprintf("KBigW %s %s %s %s %s %s %s", CZ(int64(mf)), CZ(int64(mx)), cn(uint64(total)), cns(lens), CBool(lastOK), CBool(backOK), cn(a)),
		Text: fmt.Sprintf("WriteRecord(max fragment %d) of %d bytes -> fragments %v wellformed=%v; ReadRecord(MaxRecordSize=%d) returns the data: %v (%s)",
			mf, total, lens, lastOK, mx, backOK, otext(os[0]))}
}

// ---------------------------------------------------------------- generators

func randBytes(r *Rand, n int, nulFree bool) []byte {
	if n >= 48 {
		return newBlob(r, n, nulFree)
	}
	b := rawFill(r, n)
	if nulFree {
		for i := range b {
			if b[i] == 0 {
				b[i] = byte(1 + r.Intn(255))
			}
		}
	}
	return b
}

func randStrLen(r *Rand) int {
	switch x := r.Intn(100); {
	case x < 45:
		return r.Intn(10)
	case x < 75:
		return 10 + r.Intn(90)
	case x < 90:
		return 100 + r.Intn(400)
	case x < 94:
		return 500 + r.Intn(1500)
	default:
		return 8188 + r.Intn(9) // 8188..8196 around the limit
	}
}

func randAuthLen(r *Rand) int {
	switch x := r.Intn(100); {
	case x < 40:
		return r.Intn(10)
	case x < 75:
		return 10 + r.Intn(150)
	case x < 85:
		return 396 + r.Intn(5) // 396..400
	case x < 92:
		return 401 + r.Intn(4)
	default:
		return 160 + r.Intn(240)
	}
}

func randRest(r *Rand) []byte { return fill(r, PickInt(r, 0, 0, 1, 2, 3, 4, 8, 13)) }

func randAuth(r *Rand) authT {
	a := authT{stamp: uint32(r.U64()), uid: uint32(r.U64()), gid: uint32(r.U64())}
	if r.Chance(30) {
		a.uid, a.gid = PickU32(r, 0, 1000, 65534, 0xffffffff), PickU32(r, 0, 100, 65534, 0xffffffff)
	}
	nl := PickInt(r, 0, 1, 2, 3, 4, 5, 6, 7, 8, 9, 12, 31, 64, 255)
	a.name = randBytes(r, nl, !r.Chance(15))
	ng := r.Intn(17)
	if r.Chance(25) {
		ng = PickInt(r, 15, 16, 17, 18, 40)
	}
	for i := 0; i < ng; i++ {
		a.gids = append(a.gids, uint32(r.U64()))
	}
	if a.gids == nil {
		a.gids = []uint32{}
	}
	return a
}

func PickU32(r *Rand, xs ...uint32) uint32 { return xs[r.Intn(len(xs))] }

func randCall(r *Rand) callT {
	c := callT{xid: uint32(r.U64()), rv: 2, prog: PickU32(r, 100003, 100005, 100000, uint32(r.U64())),
		vers: PickU32(r, 3, 2, 4, uint32(r.U64())), proc: uint32(r.Intn(23)), cf: PickU32(r, 0, 1, 1, 1, 2, 3, uint32(r.U64())), vf: PickU32(r, 0, 0, 0, 1, uint32(r.U64()))}
	if r.Chance(10) {
		c.rv = uint32(r.U64())
	}
	switch {
	case c.cf == 1 && r.Chance(70):
		a := randAuth(r)
		if len(a.gids) > 16 {
			a.gids = a.gids[:16]
		}
		c.cb = refAuth(a)
		if len(c.cb) > 400 {
			c.cb = c.cb[:400]
		}
	default:
		c.cb = fill(r, randAuthLen(r))
	}
	if r.Chance(75) {
		c.vb = []byte{}
	} else {
		c.vb = fill(r, randAuthLen(r))
	}
	return c
}

func randFrags(r *Rand, total int) [][]byte {
	data := fill(r, total)
	var frs [][]byte
	emptyPct := PickInt(r, 0, 0, 15, 35)
	for len(data) > 0 {
		if r.Chance(emptyPct) {
			frs = append(frs, []byte{})
			continue
		}
		n := 1 + r.Intn(len(data))
		if r.Chance(50) {
			n = 1 + r.Intn(1+len(data)/4)
		}
		frs = append(frs, data[:n])
		data = data[n:]
	}
	if r.Chance(emptyPct) || len(frs) == 0 {
		frs = append(frs, []byte{}) // empty last fragment
	}
	return frs
}

func mutate(r *Rand, enc []byte, lenOff int, limit uint32) ([]byte, string) {
	b := append([]byte{}, enc...)
	switch r.Intn(7) {
	case 0: // truncate
		if len(b) > 0 {
			return b[:r.Intn(len(b))], "truncated"
		}
		return b, "truncated"
	case 1: // declared length = limit+1 .. far above
		if len(b) >= lenOff+4 {
			binary.BigEndian.PutUint32(b[lenOff:], PickU32(r, limit+1, limit+2, limit*2, 1<<20, 1<<31, 0xffffffff))
		}
		return b, "declared-above-limit"
	case 2: // declared length random within limit (data does not match)
		if len(b) >= lenOff+4 {
			binary.BigEndian.PutUint32(b[lenOff:], uint32(r.Intn(int(limit)+1)))
		}
		return b, "declared-random"
	case 3: // flip one byte
		if len(b) > 0 {
			b[r.Intn(len(b))] ^= byte(1 << uint(r.Intn(8)))
		}
		return b, "bitflip"
	case 4: // garbage
		return fill(r, r.Intn(80)), "garbage"
	case 5: // non-zero padding / trailing bytes
		return append(b, fill(r, r.Intn(6))...), "trailing"
	default:
		if len(b) > 0 {
			b[len(b)-1] = 0xAA // last byte (padding when the length is not a multiple of 4)
		}
		return b, "nonzero-padding"
	}
}

func genC13(r *Rand, idx int, tier string) Case {
	maybeGC()
	x := r.Intn(1000)
	switch {
	case x < 110:
		n := randStrLen(r)
		withNul := r.Chance(12)
		b := randBytes(r, n, !withNul)
		if withNul && n > 0 && n < 48 {
			b[r.Intn(n)] = 0
		}
		return caseStr(b, randRest(r), "string-roundtrip")
	case x < 150:
		return caseU32(PickU32(r, 0, 1, 255, 256, 65535, 1<<31, 0xffffffff, uint32(r.U64()), uint32(r.U64())), randRest(r))
	case x < 170:
		return caseU64(PickU64(r, 0, 1, 1<<32, 1<<63, ^uint64(0), r.U64(), r.U64()))
	case x < 190:
		return caseRawU32(fill(r, r.Intn(7)))
	case x < 240:
		return caseFh(PickU64(r, 0, 1, 1<<32, ^uint64(0), r.U64(), r.U64(), r.U64()), randRest(r))
	case x < 330:
		var w bytes.Buffer
		absnfs.VerifXdrEncodeString(&w, string(randBytes(r, PickInt(r, 0, 1, 2, 3, 4, 5, 6, 7, 8, 9, 17, 40), true)))
		in, how := mutate(r, w.Bytes(), 0, 8192)
		return caseRawStr(in, "string-raw-"+how)
	case x < 400:
		d := uint32(r.Intn(70))
		if r.Chance(20) {
			d = PickU32(r, 63, 64, 65, 66, 1<<16, 1<<31, 0xffffffff)
		}
		avail := int(d+3) &^ 3
		if d > 4096 {
			avail = r.Intn(64)
		}
		if r.Chance(25) {
			avail = r.Intn(avail + 1)
		}
		return caseRawFh(cat(be32(d), fill(r, avail), randRest(r)), "handle-raw")
	case x < 520:
		return caseCall(randCall(r), fill(r, PickInt(r, 0, 0, 4, 12, 40, 77)), "call-roundtrip")
	case x < 600:
		c := randCall(r)
		if len(c.cb) > 400 {
			c.cb = c.cb[:400]
		}
		if len(c.vb) > 400 {
			c.vb = c.vb[:400]
		}
		enc := refCall(c)
		var in []byte
		how := ""
		switch r.Intn(4) {
		case 0:
			in, how = mutate(r, enc, 28, 400)
		case 1:
			in, how = mutate(r, enc, 28+4+((len(c.cb)+3)&^3)+4, 400)
			how = "verf-" + how
		case 2:
			in = append([]byte{}, enc...)
			binary.BigEndian.PutUint32(in[4:], PickU32(r, 1, 2, 0xffffffff))
			how = "msgtype-not-call"
		default:
			in, how = enc[:r.Intn(len(enc))], "truncated"
		}
		return caseRawCall(in, "call-raw-"+how)
	case x < 680:
		return caseAuth(randAuth(r), fill(r, PickInt(r, 0, 0, 0, 1, 4, 9)), "authsys-roundtrip")
	case x < 740:
		a := randAuth(r)
		enc := refAuth(a)
		var in []byte
		how := ""
		switch r.Intn(5) {
		case 0:
			in, how = mutate(r, enc, 4, 8192)
			how = "name-" + how
		case 1:
			in, how = mutate(r, enc, 4+4+((len(a.name)+3)&^3)+8, 16)
			how = "gidcount-" + how
		case 2:
			in, how = []byte{}, "empty"
		default:
			in, how = enc[:r.Intn(len(enc))], "truncated"
		}
		return caseRawAuth(in, "authsys-raw-"+how)
	case x < 780:
		rp := replyT{xid: uint32(r.U64()), status: PickU32(r, 0, 0, 0, 1), accept: uint32(r.Intn(6)), vf: PickU32(r, 0, 0, 1),
			dkind: r.Intn(4), du32: uint32(r.U64())}
		rp.vb = fill(r, PickInt(r, 0, 0, 0, 1, 2, 3, 4, 5, 8, 13))
		rp.dbytes = randBytes(r, PickInt(r, 0, 1, 2, 3, 4, 5, 6, 7, 8, 9, 20, 100), true)
		if r.Chance(5) {
			rp.status = uint32(r.U64())
		}
		return caseReply(rp)
	case x < 890:
		mx := PickInt(r, 0, 0, 0, 0, -1, 16, 64, 100, 1000)
		nrec := 1 + r.Intn(3)
		var recs [][][]byte
		for i := 0; i < nrec; i++ {
			total := PickInt(r, 0, 1, 2, 3, 4, 5, 6, 7, 8, 9, r.Intn(60), r.Intn(200), r.Intn(200), r.Intn(1500))
			if tier == "thorough" && r.Chance(10) {
				total = r.Intn(20000)
			}
			recs = append(recs, randFrags(r, total))
		}
		var tail []byte
		kind := "records"
		switch r.Intn(8) {
		case 0:
			tail, kind = fill(r, 1+r.Intn(3)), "records+truncated-header"
		case 1:
			tail, kind = cat(be32(uint32(10+r.Intn(50))), fill(r, r.Intn(10))), "records+truncated-fragment"
		case 2:
			tail, kind = cat(be32(PickU32(r, 0x7fffffff, 0xffffffff, 1<<20+1, 0x80000000|(1<<20+1))), fill(r, r.Intn(8))), "records+oversized-header"
		case 3:
			tail, kind = fill(r, r.Intn(40)), "records+garbage"
		case 4: // running total crosses the limit on a later fragment
			if mx > 0 {
				tail, kind = refFrags([][]byte{fill(r, mx/2), fill(r, mx/2), fill(r, 3)}), "records+running-total-over"
			}
		}
		return caseRecs(mx, recs, tail, kind)
	case x < 950:
		mf := PickInt(r, -1, 0, 1, 2, 3, 4, 5, 7, 16, 64, 1000, 1<<20, 1<<31-1, 1<<31)
		n := PickInt(r, 0, 1, 2, 3, 4, 5, 6, 7, 8, 9, r.Intn(100), r.Intn(400), r.Intn(400))
		if mf > 16 && r.Chance(30) {
			n = r.Intn(3000)
		}
		return caseWrite(mf, PickInt(r, 0, 0, 0, 64, 1000), fill(r, n), "write-read")
	case x < 994:
		switch r.Intn(5) {
		case 0:
			return caseTrunc("u32", be32(uint32(r.U64())))
		case 1:
			return caseTrunc("string", refOpaque(randBytes(r, r.Intn(24), true)))
		case 2:
			return caseTrunc("handle", cat(be32(8), be64(r.U64())))
		case 3:
			c := randCall(r)
			if len(c.cb) > 40 {
				c.cb = c.cb[:r.Intn(40)]
			}
			if len(c.vb) > 12 {
				c.vb = c.vb[:r.Intn(12)]
			}
			return caseTrunc("call", refCall(c))
		default:
			a := randAuth(r)
			if len(a.gids) > 16 {
				a.gids = a.gids[:16]
			}
			if len(a.name) > 31 {
				a.name = a.name[:31]
			}
			return caseTrunc("authsys", refAuth(a))
		}
	default:
		// a large record (100 KiB .. 1 MiB+) in at most 6 fragments; only lengths go to Coq
		total := 100000 + r.Intn(1<<20-100000+5000)
		if r.Chance(40) {
			total = 1<<20 - 2 + r.Intn(5)
		}
		if r.Bool() {
			return caseBigW(r, PickInt(r, 0, 1<<18, 300000, 1<<20, 1<<20+7), 0, total, "big-write-read")
		}
		k := 1 + r.Intn(5)
		var lens []int
		left := total
		for i := 0; i < k-1; i++ {
			n := r.Intn(left + 1)
			if r.Chance(20) {
				n = 0
			}
			lens = append(lens, n)
			left -= n
		}
		lens = append(lens, left)
		return caseBig(r, 0, lens, r.Intn(9), "big-record")
	}
}

// ---------------------------------------------------------------- corpus: boundary-exhaustive fixed cases

func corpusC13() []Case {
	r := NewRand(13, 13)
	var cs []Case
	add := func(c Case) { cs = append(cs, c) }
	rest := []byte{0xde, 0xad}
	// strings: lengths 0..9 (every residue mod 4) and limit-1..limit+1
	for _, n := range []int{0, 1, 2, 3, 4, 5, 6, 7, 8, 9, 8191, 8192, 8193} {
		add(caseStr(randBytes(r, n, true), rest, fmt.Sprintf("string-len-%d", n)))
	}
	add(caseStr([]byte("a\x00b"), rest, "string-nul"))
	add(caseStr([]byte{0xff, 0xfe, 0x80}, nil, "string-non-utf8"))
	// declared string lengths around the limit with no / partial data, and the largest length word
	for _, d := range []uint32{8191, 8192, 8193, 1 << 31, 0xffffffff} {
		add(caseRawStr(cat(be32(d), fill(r, 16)), fmt.Sprintf("string-declared-%d", d)))
	}
	add(caseRawStr(cat(be32(5), []byte("hello"), []byte{1, 2, 3}, rest), "string-nonzero-padding"))
	// u32 / u64
	for _, v := range []uint32{0, 1, 0x01020304, 0x80000000, 0xffffffff} {
		add(caseU32(v, rest))
	}
	for _, v := range []uint64{0, 0x0102030405060708, 1 << 63, ^uint64(0)} {
		add(caseU64(v))
	}
	// file handles: the one valid length, declared lengths 0..9 and limit-1..limit+1, the largest length word
	for _, h := range []uint64{0, 1, 0x0102030405060708, ^uint64(0)} {
		add(caseFh(h, rest))
	}
	for _, d := range []uint32{0, 1, 2, 3, 4, 5, 6, 7, 8, 9, 63, 64, 65, 0xffffffff} {
		add(caseRawFh(cat(be32(d), fill(r, (int(d%128)+3)&^3), rest), fmt.Sprintf("handle-declared-%d", d)))
	}
	// call header: credential / verifier lengths 0..9 and limit-1..limit+1
	base := callT{xid: 0x11223344, rv: 2, prog: 100003, vers: 3, proc: 1, cf: 1, vf: 0, cb: []byte{}, vb: []byte{}}
	for _, n := range []int{0, 1, 2, 3, 4, 5, 6, 7, 8, 9, 399, 400, 401} {
		c := base
		c.cb = fill(r, n)
		add(caseCall(c, []byte{1, 2, 3, 4}, fmt.Sprintf("call-cred-len-%d", n)))
		c = base
		c.cb = fill(r, 7)
		c.vb = fill(r, n)
		add(caseCall(c, []byte{1, 2, 3, 4}, fmt.Sprintf("call-verf-len-%d", n)))
	}
	{
		c := base
		c.cb, c.vb = fill(r, 400), fill(r, 400)
		add(caseCall(c, fill(r, 64), "call-both-at-limit"))
		enc := refCall(base)
		big := append([]byte{}, enc...)
		binary.BigEndian.PutUint32(big[28:], 0xffffffff)
		add(caseRawCall(big, "call-cred-declared-2^32-1"))
		big = append([]byte{}, enc...)
		binary.BigEndian.PutUint32(big[36:], 0xffffffff)
		add(caseRawCall(big, "call-verf-declared-2^32-1"))
		rep := append([]byte{}, enc...)
		binary.BigEndian.PutUint32(rep[4:], 1)
		add(caseRawCall(rep, "call-msgtype-reply"))
	}
	// AUTH_SYS: 0..9 and 15, 16, 17 gids; name lengths 0..9; over-long name; empty body
	for _, n := range []int{0, 1, 2, 3, 4, 5, 6, 7, 8, 9, 15, 16, 17} {
		a := authT{stamp: 7, name: []byte("host"), uid: 1000, gid: 100}
		a.gids = make([]uint32, n)
		for i := range a.gids {
			a.gids[i] = uint32(r.U64())
		}
		add(caseAuth(a, nil, fmt.Sprintf("authsys-gids-%d", n)))
	}
	for _, n := range []int{0, 1, 2, 3, 4, 5, 6, 7, 8, 9, 255} {
		add(caseAuth(authT{stamp: 1, name: randBytes(r, n, true), uid: 0, gid: 0, gids: []uint32{1, 2}}, []byte{9, 9, 9}, fmt.Sprintf("authsys-name-len-%d", n)))
	}
	add(caseRawAuth([]byte{}, "authsys-empty"))
	add(caseRawAuth(cat(be32(1), be32(8193), fill(r, 32)), "authsys-name-declared-8193"))
	add(caseRawAuth(cat(be32(1), be32(0xffffffff), fill(r, 32)), "authsys-name-declared-2^32-1"))
	add(caseRawAuth(cat(be32(1), be32(0), be32(0), be32(0), be32(0xffffffff)), "authsys-gidcount-2^32-1"))
	// replies
	for _, rp := range []replyT{
		{xid: 1, status: 0, accept: 0, dkind: 0, vb: []byte{}},
		{xid: 2, status: 0, accept: 0, dkind: 1, dbytes: []byte{0, 0, 0, 0}, vb: []byte{}},
		{xid: 3, status: 0, accept: 2, dkind: 1, dbytes: []byte{9}, vb: []byte{}},
		{xid: 4, status: 0, accept: 4, dkind: 3, du32: 5, vb: []byte{1, 2, 3}},
		{xid: 5, status: 1, accept: 0, dkind: 2, dbytes: []byte("x"), vb: []byte{}},
		{xid: 6, status: 0, accept: 0, dkind: 2, dbytes: []byte("hello"), vf: 1, vb: []byte{1, 2, 3, 4, 5}},
	} {
		add(caseReply(rp))
	}
	// records: total lengths 0..9 in one fragment and byte-by-byte; empty fragments everywhere
	for n := 0; n <= 9; n++ {
		d := fill(r, n)
		add(caseRecs(0, [][][]byte{{d}}, rest, fmt.Sprintf("record-len-%d", n)))
		var one [][]byte
		for i := 0; i < n; i++ {
			one = append(one, []byte{}, d[i:i+1])
		}
		one = append(one, []byte{})
		add(caseRecs(0, [][][]byte{one, {d}}, nil, fmt.Sprintf("record-len-%d-bytewise-with-empty", n)))
	}
	// small configured limit: limit-1, limit, limit+1 in one and in two fragments
	for _, n := range []int{15, 16, 17} {
		d := fill(r, n)
		add(caseRecs(16, [][][]byte{{d}}, nil, fmt.Sprintf("record-limit16-len-%d", n)))
		add(caseRecs(16, [][][]byte{{d[:8], d[8:]}}, nil, fmt.Sprintf("record-limit16-len-%d-two-fragments", n)))
	}
	add(caseRecs(0, nil, be32(0x7fffffff), "record-header-2^31-1"))
	add(caseRecs(0, nil, be32(0xffffffff), "record-header-2^32-1"))
	add(caseRecs(0, nil, cat(be32(0), be32(0), be32(0), be32(0x80000000)), "record-only-empty-fragments"))
	// writer: lengths 0..9 with fragment sizes 1..4, degenerate sizes
	for n := 0; n <= 9; n++ {
		add(caseWrite(1+n%4, 0, fill(r, n), fmt.Sprintf("write-len-%d-frag-%d", n, 1+n%4)))
	}
	for _, mf := range []int{-1, 0, 1 << 31, 1<<31 - 1} {
		add(caseWrite(mf, 0, fill(r, 9), fmt.Sprintf("write-frag-%d", mf)))
	}
	// truncation at every cut point
	add(caseTrunc("u32", be32(0xa1b2c3d4)))
	for n := 0; n <= 9; n++ {
		add(caseTrunc("string", refOpaque(randBytes(r, n, true))))
	}
	add(caseTrunc("handle", cat(be32(8), be64(0x0102030405060708))))
	{
		c := base
		c.cb = refAuth(authT{stamp: 1, name: []byte("client"), uid: 1000, gid: 1000, gids: []uint32{4, 24, 27}})
		c.vb = fill(r, 5)
		add(caseTrunc("call", refCall(c)))
		add(caseTrunc("authsys", c.cb))
	}
	// records at the 1 MiB limit: content compared in Go, lengths go to Coq
	for _, n := range []int{1<<20 - 1, 1 << 20, 1<<20 + 1} {
		add(caseBig(r, 0, []int{n}, 2, fmt.Sprintf("big-record-len-%d", n)))
	}
	add(caseBig(r, 0, []int{400000, 0, 500000, 1, 148575, 0}, 0, "big-record-1MiB-six-fragments"))
	add(caseBig(r, 0, []int{1 << 19, 1 << 19, 1}, 0, "big-record-running-total-1MiB+1"))
	add(caseBigW(r, 0, 0, 1<<20, "big-write-1MiB-default-fragment"))
	add(caseBigW(r, 1<<18, 0, 1<<20, "big-write-1MiB-256KiB-fragments"))
	add(caseBigW(r, 0, 0, 1<<20+1, "big-write-1MiB+1"))
	return cs
}
