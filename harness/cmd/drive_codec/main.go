// drive_codec: cases for the XDR / RPC / record-marking codecs (C13).
package main

import "verifharness/lib"

func main() { lib.Main() }
