from props import S

CFG = {
    "properties_file": "Properties/C04.v",
    "corr_files": ["Corr/C04.v", "Corr/C04z.v", "Corr/SRV.v"],
    "streams": [S("C04", "drive_nfs", 120, 3000), S("C04z", "drive_nfs", 60, 1000),
                # the full-fidelity stream: whole decoded replies incl. times, backend tree and mutating backend calls vs Model/Srv.v
                S("SRV", "drive_nfs", 80, 1500)],
    "rule": "(stream C04z: the same histories over a backend whose lstat reports size 0 for symbolic links, oracle only) request histories weighted towards attribute-carrying procedures (LOOKUP GETATTR SETATTR READDIRPLUS ACCESS READ "
            "READLINK WRITE CREATE MKDIR SYMLINK REMOVE RENAME ...) over trees with files, directories, symlinks to files and "
            "directories and dangling symlinks; SETATTR modes incl. 04755, 0x4000, 1<<27, 0170000|0644; all cache settings and "
            "small handle limits; non-trivial = contains SETATTR and READDIRPLUS",
    "assumptions": ["cache-served LOOKUP blocks are covered under the coherence theorem of C02 (no symlink in a handle path)"],
    "level_text": "Proved for Model/Srv.v: every block read through GetAttr (GETATTR, ACCESS, READ, READLINK, FS*, COMMIT, "
                  "READDIR(PLUS) directory and refreshed entries, LOOKUP directory block, all post-op blocks) has the backend's "
                  "lstat type, size and permission bits and fileid = FNV-1a-64(path) (C04_getattr_family, C04_post_op*, "
                  "C04_readdirplus_entries); every block of every procedure in every history carries the fileid of its path "
                  "(C04_history_fileids); links are always NF3LNK, dangling or not (C04_symlink, C04_lstat_symlink); no SETATTR "
                  "changes kind or fileid of anything (C04_setattr_preserves). The unrestricted statement including cache-served "
                  "blocks is refuted on the model for handle paths through a symlinked directory (C04_statement_refuted; that "
                  "door is closed in the code by the MNT/parent-directory fixes) and proved under coherence in C02.",
    "level_note": "Trusted: Coq kernel; Model/Srv.v + Model/Backend.v + Model/Handles.v as a rendering of the code (validated on every run by the correspondence streams incl. the full-fidelity SRV stream); harness/specfs; the oracle's ghost handle map.",
}
