from props import S

CFG = {
    "properties_file": "Properties/C18.v",
    "corr_files": ["Corr/RateLimitCorr.v", "Corr/C18.v", "Corr/C18h.v"],
    "streams": [S("C18", "drive_ratelimit", 320, 20000), S("C18ns", "drive_ratelimit", 160, 12000),
                S("C18h", "drive_ratelimit", 60, 3000)],
    "rule": "one limiter object of the real code (RateLimiter built by NewRateLimiter, bare PerIPLimiter, bare TokenBucket) "
            "driven on the virtual clock by 8-70 calls (AllowRequest / AllowOperation / CleanupConnection; 1-4 addresses, "
            "1-3 connections, all four operation types; rates {0,1,2,3,10,1000} + dyadic fractions, bursts {0,1,2,5,100}, "
            "mount per minute {0,15,30,60,120,600,60000}, cleanup {1ns,1s,5min}; a 130-address variant exceeds the "
            "100-deletions-per-pass cap; 12% conn-flood cases: per-connection limit below the per-IP limit, one connection sends 15-75 "
            "back-to-back requests, then 2-4 fresh clients one request each; also over TCP in C18h)."
            " Stream C18: clock advances on the 2^-9 s grid (bursts, exact refill periods, "
            "one tick short/long, seconds, ~5 minutes) -> bit-for-bit. Stream C18ns: arbitrary ns advances and non-dyadic "
            "rates (0.1, 1/3, mount 1,7,10,59 per minute) -> a disagreement is tolerated only with the exact level "
            "within 1e-6 of 1. Stream C18h: the limiters THROUGH the server - a real AbsfsNFS with EnableRateLimiting and small "
            "varied limits receives 14-43 NFS/MOUNT calls from 1-3 addresses on the grid clock, 65% through "
            "NFSProcedureHandler.HandleCall (per-operation limiters), 35% over loopback TCP connections of the exported server "
            "(AllowRequest in the connection loop, then the handler): READDIR/READDIRPLUS with cookie 0, client-chosen non-zero "
            "cookies and cookies from replies, varied counts; READ/WRITE of 1..131072 bytes (threshold 64 KiB); MNT; plain "
            "GETATTR/NULL/FSINFO/LOOKUP; observation per call = passed / MSG_DENIED / NFS3ERR_DELAY (MNT 10006). "
            "Non-trivial = the case contains both an admission and a refusal; distinct = distinct case term.",
    "assumptions": [
        "ideal arithmetic: TokenBucket's float64 operations are modelled over Q (exact on the dyadic grid of the strict "
        "stream; elsewhere rounding matters only within 1e-6 of the threshold)",
        "rates and bursts are >= 0 (RateLimiterConfig is not validated by the code; negative values are outside the property)",
        "the clock never goes backwards (time.Now is monotonic); requests are processed one at a time (locks not modelled)",
    ],
    "level_text": "Full proof on the model: C18_bound (one bucket: every rate>=0, burst>=0, every non-decreasing timing, every "
                  "prefix; invariant admitted+tokens <= burst+rate*elapsed, tokens>=0), C18_bound_limiters / C18_bound_go (the same "
                  "bound for the global, per-IP, per-connection and the four per-operation limiters of a RateLimiter, accounts kept "
                  "from each limiter's first creation, any order of the limiter calls, cleanup passes at arbitrary points), "
                  "C18_config_values (mount rate n/60, bursts 10/5/5/2, global burst = rate), C18_not_refused / C18_refused_only_if "
                  "(a call is refused iff a consulted bucket holds < 1 token), C18_cleanup_invisible (all consultations and outcomes "
                  "equal those of the cleanup-free limiter for every trigger policy and every choice of full buckets reached) and "
                  "C18_cleanup_deletes_only_full (the idle condition Tokens() >= burst). No bound on histories. Tied to "
                  "rate_limiter.go by astfacts (limiter order, config fields, bursts, divisor 60, call sites) and by differential "
                  "runs on the virtual clock, which also evaluate on the implementation's own bits: the bound per limiter, "
                  "never-refused-within-limits (single buckets and the AllowRequest chain), and equality with a second instance "
                  "of the real code whose cleanup never runs.",
    "level_note": "Trusted: Coq kernel; the hand-written models Model/TokenBucket.v, Model/RateLimit.v (four Go maps rendered as "
                  "one keyed map; Go map iteration order and the 100-deletion cap rendered as an arbitrary selection the theorems "
                  "quantify over); the clock overlay; the Go driver and verif_hooks_ratelimit.go (read-only accessors, used for tags "
                  "only). Modelled, not verified: float64 rounding. The NFS/MOUNT handlers' use of AllowOperation is tied by facts "
                  "(call sites, 64 KiB threshold), not driven over the wire here.",
}
