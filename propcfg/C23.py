from props import S

CFG = {
    "properties_file": "Properties/C23.v",
    "corr_files": ["Corr/C23.v"],
    "streams": [S("C23", "drive_paging", 30, 1500)],
    "rule": "a case = one TransferSize in force: the listed values {1, 512, 4096, 65536, 2^20, 2^20+1, 2^31, cap-1, cap, cap+1 "
            "(cap = 1 044 480), 2^32, 2^32+5, 2^32+2^20, 3*2^32, 2^62+7} first (corpus, all with a TCP part), then seeded: listed "
            "25%, small 1..9000 20%, around 64 Ki 15%, around the cap 15%, around 1 Mi 10%, medium 7%, above 2^32 8%; set at "
            "construction or (50%) at runtime through UpdateTuningOptions on a server built with another value. Per case: the "
            "FSINFO reply (all numeric fields), then WRITE probes at counts {0, 1, wtpref, wtmax-1, wtmax, wtmax+1, ts-1, ts, "
            "ts+1, 65536, 65537, 2^20, 2^20+1, random within / just above wtmax and ts} (capped at 2 MiB + 8) and READ probes at "
            "{0, 1, rtpref, rtmax-1, rtmax, rtmax+1, ts, ts+1, random, 2 MiB} on a sparse 3 000 000-byte file at offsets "
            "{0, 5, 7, 4096, size-1, size-count/2, size}, through the procedure handlers (nfsx.Env); in 70% of the cases also "
            "over a real loopback TCP connection with record marking to a server started with NewServer+Listen or (40%) "
            "AbsfsNFS.Export: counts {1, max-1, max, max+1, ts, ts+1, the largest count whose call fits a 1 MiB record, that "
            "+1 and +4 (record 1 048 580: dropped with the connection), random}, a NULL call after every probe to see whether "
            "the connection survived; the maxima again with the call record FRAGMENTED (RFC 5531 record marking lets a client "
            "use any fragmentation): WRITE(wtmax) in fragments of 64 KiB, 8 KiB, 1 KiB, 512 and 100 bytes (for wtmax < 64 KiB: one "
            "of {1024, 512, 100} and one of {64, 16, 4, 1}), WRITE(wtpref), the exactly-1-MiB record and the 1 MiB + 4 record in "
            "small fragments, READ(rtmax) in 4..40-byte fragments, 0..3 empty non-final fragments interleaved; then 2..3 PHASES: TransferSize is changed again at runtime (UpdateTuningOptions, 25% "
            "UpdateExportOptions; values from {512, 2048, 8192, 65536, 100000, 300000, cap, 2^20, 4 MiB, 2^32, random}, raises and "
            "falls) while one connection stays open, and after each change FSINFO + WRITE(wtmax) + WRITE(wtpref) + READ(rtmax) "
            "are made on that old connection (random fragmentation) and FSINFO + WRITE(wtmax) + READ(rtmax) on a fresh one (two corpus cases keep "
            "one connection across 5..7 changes). Payload bytes are not part of the Coq term (sizes, codes and counts are). Non-trivial = "
            "a WRITE of exactly wtmax bytes accepted and at least one refused WRITE, clamped READ or dropped record; distinct = "
            "distinct Coq term",
    "assumptions": [
        "loopback TCP available (the TCP part of a case is skipped and tagged when the server cannot be started)",
        "TransferSize is a positive Go int (New and UpdateTuningOptions replace values <= 0 by 65536: C24)",
        "the probed file is a plain regular file on a writable export without MaxFileSize; other refusal causes of WRITE "
        "(read-only, offset overflow, FBIG, stale or symlink handle) are C01/C08/C25's business and excluded by construction",
    ],
    "level_text": "Full proof, closed under the global context, for every TransferSize >= 1 (also >= 2^32) and every server "
                  "state. On Model/Srv.v: C23_maxima (rtmax = wtmax = min(TransferSize, 1 MiB - 4096), every number >= 1, "
                  "prefs and mults <= maxima), C23_write_accepted (count <= wtmax never takes the count check), "
                  "C23_write_inval_causes (INVAL then only for 64-bit offset overflow or a symlink handle), C23_write_served "
                  "(status OK, full count, FILE_SYNC, data durable), C23_read_served (min(count, size-offset) >= 1 bytes), "
                  "C23_record_fits (72 + 2 x 400 + wtmax <= 1 MiB; this is the record PAYLOAD, i.e. the reassembled call - the "
                  "4-byte fragment markers are framing, not record bytes, and the limit of ReadRecord applies to the payload "
                  "whatever fragmentation the client uses: the correspondence sends the maxima in 1..10 000 fragments). On the width-faithful Model/Fsinfo32.v (uint32 "
                  "conversions of handleFsinfo / handleWrite read from the source by astfacts): C23_holds (the whole statement), "
                  "C23_models_agree (equal to Model/Srv.v below 2^32). Correspondence evaluated in Coq: FSINFO numbers, WRITE "
                  "status/count, READ count, record drop, handler level and TCP, against both models, plus the statement on the "
                  "implementation's own numbers.",
    "level_note": "Trusted: Coq kernel; Model/Srv.v, Model/Fsinfo32.v as renderings of handleFsinfo / handleWrite / Read "
                  "(tied by astfacts x_paging.go: recordHeadroom, the uint32 clamp, the field list, the WRITE bound and its "
                  "fallback, READ's int64 clamp - unrecognised shape = broken tie - and by the correspondence); the driver's "
                  "RFC 1831 client (copied from drive_config); specfs as backend. Modelled, not verified: record reassembly "
                  "and the connection loop (C13/C15), rate limiting of large transfers (off by default; EnableRateLimiting "
                  "answers NFS3ERR_DELAY for counts > 64 KiB, C18). Oddity reported, not a violation: TransferSize = k*2^32 "
                  "advertises 0 while accepting 1 MiB writes; Model/Srv.v itself is faithful only below 2^32.",
    "trusted_extra": ["driver-side ONC RPC client with record marking (harness/cmd/drive_paging/rpcclient.go)"],
}
