from props import S

CFG = {
    "properties_file": "Properties/C01.v",
    "corr_files": ["Corr/C01.v"],
    "streams": [S("C01", "drive_nfs", 150, 8000)],
    "rule": 'histories of WRITE/READ/SETATTR(size)/CREATE/GETATTR/COMMIT on 1-3 files: transfer size in {1,7,16,64,65536}, offsets {0..100, 2^31, 2^32+-1, 2^63-40..2^63+1, 2^64-1}, counts 0..tsize+2, payloads with zero bytes, truncation up and down, every attribute-cache TTL/size; 25% of the histories play near 2^63; non-trivial = contains both a WRITE and a READ',
    "assumptions": ["offsets >= 2^63 are rejected (NFS3ERR_IO) by design of the int64 backend API: documented guard, not a violation"],
    "level_text": "Proved for Model/Srv.v against an extensional byte-array specification (size, N -> byte): READ returns exactly spec_read with count = min(requested, transfer size, size - offset) and eof iff offset + count >= size (C01_read), a WRITE answering OK stored exactly its payload at its offset, made it durable and changed nothing else (C01_write), SETATTR(size) is spec_trunc (C01_setattr_size), CREATE makes an empty file (C01_create_new), every documented rejection leaves the tree unchanged (C01_*_guard), and histories of any length refine the spec step by step for every cache content (C01_history). The statement is also evaluated on the implementation's own replies and backend dumps.",
    "level_note": "Trusted: Coq kernel; Model/Srv.v + Model/Backend.v as a rendering of the handlers and of the backend contract (validated on every run by the correspondence streams incl. the full-fidelity SRV stream); harness/specfs as the backend (recorded calls, tree dumps); the ghost handle map of the oracle (read off the implementation's replies).",
}
