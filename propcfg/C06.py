from props import S

CFG = {
    "properties_file": "Properties/C06.v",
    "corr_files": ["Corr/C06.v", "Corr/C06t.v"],
    "streams": [S("C06", "drive_nfs", 100, 5000), S("C06t", "drive_handles", 200, 10000)],
    "rule": "request histories over a populated tree with handle limit in {1,2,3,4,6,10} so that values pass through "
            "eviction and the free list and are reissued; LOOKUP/READDIRPLUS/MNT/CREATE/MKDIR interleaved with requests that "
            "reuse every handle value seen so far; non-trivial = some value was returned more than once. C06t: Allocate/Release/ReleaseAll histories on the real "
            "FileHandleMap with frequent ReleaseAll (Unexport/Close then re-export); non-trivial = contains a ReleaseAll",
    "assumptions": ["'served against path p' is read off the reply: fileid = FNV-1a-64(p)"],
    "level_text": "The full statement is false of the code by design (ids are recycled through the free list; the suite "
                  "asserts it): C06_refuted is a kernel-checked witness and the check reports it as known finding k=1. Proved "
                  "instead (C06_partial_*): a value can come to name a different path only after having been in the free "
                  "list; histories that never pop the free list never reissue a value; after ReleaseAll (Unexport/re-export) no "
                  "earlier value is ever reissued; at the server an untracked value is always answered NFS3ERR_STALE with no "
                  "backend access (C06_stale), and a tracked one is served against exactly the table's path (C06_served_path). "
                  "The oracle flags any request served against a path that is neither the first nor the latest path the value "
                  "was issued for.",
    "level_note": "Trusted: Coq kernel; Model/Srv.v + Model/Backend.v + Model/Handles.v as a rendering of the code (validated on every run by the correspondence streams incl. the full-fidelity SRV stream); harness/specfs; the oracle's ghost handle map.",
}
