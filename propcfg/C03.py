from props import S

CFG = {
    "properties_file": "Properties/C03.v",
    "corr_files": ["Corr/C03.v", "Corr/C03x.v"],
    "streams": [S("C03", "drive_nfs", 120, 5000), S("C03x", "drive_nfs", 60, 2000)],
    "rule": 'per case 10 freshly prepared targets (absent / file with data / directory / symlink) each hit by a CREATE with mode (UNCHECKED, GUARDED, EXCLUSIVE, 3) x random sattr3 mask (mode, uid, gid, size) x credentials, often followed by a second create of the same name (retransmission-like); caches warm or cold, negative entries present; non-trivial = at least one create over an existing object',
    "assumptions": ["the request-level model carries no verifier: EXCLUSIVE over an existing object is known finding k=1"],
    "level_text": "Proved for Model/Srv.v: when an object exists at the target name, GUARDED answers EXIST and leaves the tree unchanged (C03_guarded), EXCLUSIVE leaves it unchanged (C03_exclusive_untouched; its status clause is refuted by a kernel-checked witness, known finding k=1), UNCHECKED leaves a regular file untouched unless size is set and then only truncates that file (C03_unchecked_keep/_size/_frame), never replaces a directory or symlink (C03_unchecked_nonfile); no mode changes the tree when size is not set (C03_no_mode_truncates). Evaluated also on the implementation's dumps.",
    "level_note": "Trusted: Coq kernel; Model/Srv.v + Model/Backend.v as a rendering of the handlers and of the backend contract (validated on every run by the correspondence streams incl. the full-fidelity SRV stream); harness/specfs as the backend (recorded calls, tree dumps); the ghost handle map of the oracle (read off the implementation's replies).",
}
