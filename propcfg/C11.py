from props import S

CFG = {
    "properties_file": "Properties/C11.v",
    "corr_files": ["Corr/C11.v"],
    "streams": [S("C11", "drive_nfs", 120, 5000)],
    "rule": 'SETATTR/CREATE/MKDIR/SYMLINK with credentials uid,gid in {0,1,1000,65534,65535,2^31,2^32-1} x sattr3 uid/gid settings over a populated tree, interleaved with REMOVE/RMDIR/RENAME/LOOKUP; non-trivial = at least one non-root request that sets uid or gid',
    "assumptions": ["effective identity = credential after squashing (squash none in this stream; squashing itself is C10)"],
    "level_text": "Proved for Model/Srv.v: for a non-root caller every chown-like backend call of every procedure carries the caller's own uid:gid (C11_calls), SETATTR issues none and ignores its uid/gid fields (C11_setattr_no_chown, C11_setattr_ignored), objects made by CREATE/MKDIR/SYMLINK end up owned by the effective identity - root: the sattr override (C11_owner_*, C11_new_objects_*), and no other backend operation changes an owner (C11_backend_others). Evaluated also on the implementation's backend dumps (owners before/after every request).",
    "level_note": "Trusted: Coq kernel; Model/Srv.v + Model/Backend.v as a rendering of the handlers and of the backend contract (validated on every run by the correspondence streams incl. the full-fidelity SRV stream); harness/specfs as the backend (recorded calls, tree dumps); the ghost handle map of the oracle (read off the implementation's replies).",
}
