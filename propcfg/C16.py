from props import S

CFG = {
    "properties_file": "Properties/C16.v",
    "corr_files": ["Corr/C16.v"],
    "streams": [S("C16", "drive_lts", 160, 4000, race=True)],
    "rule": "seeded random walks over driver actions (issue GETATTR/WRITE/NULL and, in the direct family, MOUNT-program calls - "
            "MNT of a fresh sub-directory / of a nested path / of \"/\", NULL, DUMP, EXPORT, UMNT - through HandleCall or a loopback TCP connection, "
            "hold/release gated backend calls, let HandleCall time out, UpdatePolicyOptions with random ReadOnly/Secure/limiter/"
            "Squash/AllowedIPs (20% refuse the caller) values, lock probe, open connection), each thread a goroutine on the real code; 4 families: direct (66%), "
            "tcp-limiter with frozen clock (20%), tcp-drain (10%), tcp-stress (4%: unsequenced concurrent traffic and updates, no "
            "trace, for the race detector); a case is non-trivial when an update overlapped an executing "
            "request (drain) or the limiter was switched at runtime; schedules that could not be enacted are counted, not judged; "
            "distinct = distinct observed trace",
    "assumptions": [
        "sync.RWMutex: a pending writer makes TryRLock fail and Lock waits for active readers (Go 1.23 sync/rwmutex.go); sync.Mutex",
        "Go memory model approximated by a lockset discipline on the only plain shared field (AbsfsNFS.rateLimiter)",
        "token buckets behind AllowRequest are inputs of the LTS (their decision is checked by burst accounting in the correspondence, clock frozen)",
        "PolicyOptions.MaxFileSize is used by the harness as the policy version tag",
    ],
    "level_text": "Proof over the LTS of Model/PolicyLTS.v, all traces, unbounded requests/updates/connections: C16_atomic, C16_drain, "
                  "C16_drain_exclusive, C16_limiter (anchored at request arrival), C16_juke(+_trace,_ghost), C16_drain_shrinks, "
                  "C16_progress, C16_requests_never_block, C16_norace. Tied to options.go/nfs_handlers.go/server.go by enacting "
                  "sampled schedules on the real code (gated backend, goroutine per thread, loopback TCP); the observed trace must be "
                  "accepted and predicted by the LTS and satisfy the property's statement evaluated on the observations alone. "
                  "Thorough tier runs the driver under -race.",
    "level_note": "Modelled, not verified: Go scheduler, sync primitives, memory model (lockset), timers. The driver moves one thread at a "
                  "time, so the interleavings enacted are the sequentially-enactable ones; internal steps are placed where observations "
                  "force them. Trusted: Coq kernel, Model/PolicyLTS.v, harness/cmd/drive_lts, specfs gate, verif_hooks_lts.go.",
}
