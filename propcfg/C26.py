from props import S

CFG = {
    "properties_file": "Properties/C26.v",
    "corr_files": ["Corr/C26.v", "Corr/C26x.v"],
    "streams": [S("C26", "drive_nfs", 60, 400), S("C26x", "drive_paging", 24, 800)],
    "rule": "stream C26: directories of 0..40 entries (files, directories, symlinks), name lengths {1..8, 63, 64, 254, 255}, "
            "3..6 complete traversals per case following the returned cookies with one count / maxcount per traversal from "
            "{0, 50, 100, 108, 131..133, 140, 160, 200, 236, 240, 300, 400, 512, 700, 1000, 4096, 9000, random}, READDIR or "
            "READDIRPLUS, dir cache on/off, attribute TTLs from 1 ns, clock advances, the directory changed between "
            "traversals (30%). Stream C26x: 1..13 entries with names that stream never produces (containing '..', '...', "
            "leading/trailing dots, spaces, control bytes, bytes >= 0x80, every length residue mod 4, 12% of 61..255 bytes), "
            "parent directory names with '..' (e46ca73), an entry with such a name created through MKDIR/CREATE between "
            "traversals (40%); additionally checks encoded length = RFC 1813 length exactly. Non-trivial = at least one "
            "traversal of more than one page (C26x: and an odd name); distinct = distinct Coq term",
    "assumptions": [
        "names in the backend are names the server accepts (non-empty, no '/', no '\\\\', not '.' or '..'): a name containing "
        "a backslash, which only the backend can have created, is refused by LOOKUP and left out of listings "
        "(C26_listing_unrestricted_refuted)",
        "the directory is not modified during a traversal (cookies are indices into the current listing)",
    ],
    "level_text": "Proof, closed under the global context, for every directory, cookie and count/maxcount (Model/Srv.v page, "
                  "handle_readdir, handle_readdirplus): C26_page_spec (closed form), C26_cookies, C26_progress, C26_maximal, "
                  "C26_complete (any mix of procedures and limits reaches eof within length+1 calls, pages concatenate to "
                  "the list with cookies 1..n), C26_fits (>= 2 entries always fit; one entry = exactly header+entry+trailer) "
                  "and C26_fits_partial; handler level on every coherent state: C26_readdir_listing / "
                  "C26_readdirplus_listing / C26_listing (entries = consecutive slice of the backend listing, fileid = "
                  "FNV-1a(path), eof iff nothing remains). Refuted + partial: C26_fits_refuted (known finding k=1: a limit "
                  "below the smallest reply holding the first entry is answered with that entry, never NFS3ERR_TOOSMALL - "
                  "C26_never_toosmall).",
    "level_note": "Trusted: Coq kernel; Model/Srv.v + Model/Backend.v (tied by the SRV/C26/C26x correspondence and astfacts "
                  "x_paging.go: the literals of entrySize and trailerSize, the guard `entryCount > 0 && ...`, cookie = index + 1, "
                  "pinned by C26_facts); Model/DirEnc.v (RFC 1813 layout; C26x compares it with the length of the bytes "
                  "produced); harness/specfs as backend; the ghost handle map of the oracle. The handler theorems assume Good "
                  "(no symbolic links in the tree: C02's aliasing caveat); C26_fileids needs only the cached-fileid invariant.",
}
