from props import S

CFG = {
    "properties_file": "Properties/C30.v",
    "corr_files": ["Corr/C30.v", "Corr/C30rot.v", "Corr/C30paths.v"],
    "streams": [S("C30", "drive_config", 150, 4000), S("C30rot", "drive_config", 150, 4000),
                S("C30paths", "drive_config", 70, 2000)],
    "rule": "stream C30: one TLSConfig per case (Min in {unset, SSL3, 1.0..1.3, 0x0305}, Max in {unset, 1.0..1.3, 0x0305}, 55% from the "
            "valid shapes; ClientAuth 0..4; CA file none/good/missing/garbage; cert/key file empty/good/missing/garbage in 25%; cipher "
            "suites nil / default list / one ECDSA TLS1.2 suite / RSA-only), server started by absnfs.New + Export, 6-10 real handshakes "
            "(client ranges 1.0 .. 1.3, certificate none / self-signed / foreign CA / CA-signed, always presented) each followed by a NULL "
            "RPC; non-trivial = TLS listener with at least one completed and one refused handshake. Stream C30rot: histories of 0-8 steps "
            "(GetExportOptions().TLS, Clone, ReloadCertificates, certificate file writes, UpdateExportOptions with derived / caller-made / "
            "nil TLS; 70% derived-only) with a handshake after every step, then the documented rotation step; non-trivial = non-empty "
            "history whose rotation reached the listener. Stream C30paths: one set of cert/key/CA file PATHS per case, reused by "
            "successive servers and by two servers alive together while the files are overwritten (CA replaced among 3 CAs 35% of steps, "
            "server leaf replaced 15% - or 10%/40% in the server-cert-rotation kind -, restart 25%, stop 10%, documented reload else; "
            "ClientAuth 4/3 weighted, 0-2 too); every probe = clients with no certificate, self-signed and signed by each of the 3 CAs, "
            "at TLS 1.2 and at 1.3, plus the presented leaf; non-trivial = a start on already used paths with completed and refused "
            "handshakes. PKI generated at run time; server leaves 1,2,7 share one private key and 3,4,8 another (renewals: same key, new "
            "serial and validity), 5 and 6 have keys of their own, all with the same subject; half of the certificate replacements in "
            "C30rot / C30paths are same-key renewals, the others new-key-same-subject, reloaded through GetExportOptions().TLS, clones "
            "and the caller's original object, or not reloaded at all; leaves are identified by serial",
    "assumptions": [
        "go_min_default >= TLS 1.2: crypto/tls serves no version below 1.2 when Config.MinVersion is 0 (Go >= 1.22 without "
        "GODEBUG=tls10server=1); Section variable of Properties/C30.v, confronted with the toolchain by stream C30",
        "crypto/tls honours MinVersion / MaxVersion / ClientAuth / ClientCAs as modelled by negotiate / auth_ok",
        "certificate and key files contain what was last written to them when LoadX509KeyPair reads them",
    ],
    "level_text": "Partial proof (handshakes, chain verification and cipher negotiation are crypto/tls). Proved on Model/Tls.v, fed by facts "
                  "read from tls_config.go / server.go: C30_validate_floor (every enabled configuration Validate accepts has MinVersion "
                  "unset or >= TLS 1.2, and <= MaxVersion; no assumption), C30_floor / C30_range (under the modelled library rule and any "
                  "library default >= 1.2, no completed handshake below TLS 1.2, for all settings and all clients), C30_client_auth / "
                  "C30_verify_if_given (RequireAndVerify: only CA-signed clients; VerifyIfGiven: none or CA-signed), C30_rotation (after "
                  "any history of GetExportOptions / Clone / ReloadCertificates / file writes / UpdateExportOptions with derived settings, "
                  "ReloadCertificates on GetExportOptions().TLS puts the new certificate into the cell the listener reads). Real "
                  "handshakes against real listeners are compared with the model and with the property's statement on every run, "
                  "including histories that reuse the same file paths with changed contents across listeners (a listener enforces the "
                  "CA and presents the certificate that were in the files when it was built / reloaded).",
    "level_note": "Trusted: Coq kernel; Model/Tls.v incl. the modelled crypto/tls rule; astfacts x_config.go (order and constants of "
                  "Validate's checks, BuildConfig validating first and passing Min/Max/ClientAuth through, GetCertificate reading the shared "
                  "cell, Clone sharing it, ReloadCertificates storing into it, Listen taking the settings from the policy); the Go driver "
                  "(run-time PKI, TLS clients). Outside C30_rotation's hypothesis and shown by Example C30_rotation_scope + corpus cases: "
                  "TLS settings replaced or dropped by UpdateExportOptions at runtime are reported by GetExportOptions but the running "
                  "listener keeps the configuration and certificate cell it was started with.",
    "trusted_extra": ["crypto/tls version negotiation and client-certificate verification (modelled, sampled by real handshakes)"],
}
