from props import S

CFG = {
    "properties_file": "Properties/C28.v",
    "corr_files": ["Corr/C28.v"],
    "streams": [S("C28", "drive_config", 160, 4000)],
    "rule": "a case = one real server start over loopback TCP: AbsfsNFS.Export 40% (mount path '/' or '/export'), NewServer+Listen with "
            "UseRecordMarking 25%, StartWithPortmapper 12% (flag true/false; binds port 111, counted 'unavailable' if it cannot), Listen "
            "without record marking 10% (negative control), refused calls 13% (empty mount path, negative port); port 0 / a fixed free "
            "port, Debug on/off, Hostname ''/localhost/127.0.0.1, AUTH_NONE / AUTH_SYS; the client (own code, RFC 1831 record marking) "
            "sends NULL, MOUNT3 MNT, NFS3 GETATTR; Coq parses the raw reply bytes. On the paths that use record marking the client "
            "delivers its calls in varied TCP segmentations (TCP_NODELAY, 3 ms between pieces): whole records 10%, else uniformly byte at a "
            "time / cut inside the record mark after 1, 2, 3 bytes / at the mark-payload boundary / inside the RPC header / "
            "multi-fragment records (incl. empty fragments) / multi-fragment with the cut inside the 2nd mark / two pipelined calls "
            "(NULL+MNT, GETATTR+NULL) whose boundary lies inside one piece / 1-4 random cuts; segmentation never changes the expected "
            "outcome. Non-trivial = documented path with three accepted replies; distinct = distinct case term (reply bytes included)",
    "assumptions": [
        "loopback TCP available; StartWithPortmapper needs to bind port 111 (runs as root here; otherwise the path is reported unavailable)",
        "the MNT path exists in the exported filesystem (MNT resolves the client's path in the filesystem, not against Export's mountPath)",
    ],
    "level_text": "Thin proof + TCP correspondence (partial: sockets, listeners and goroutines are runtime). Proved on Model/Framing.v fed by "
                  "astfacts facts: C28_framing (every documented start path - Export with any non-empty mount path and port >= 0, Listen with "
                  "UseRecordMarking, StartWithPortmapper with either flag value, debug on/off - is served by the record-marking loop), "
                  "C28_raw_only_on_request, C28_facts (Export's ServerOptions literal sets UseRecordMarking, StartWithPortmapper forces it "
                  "before Listen, acceptLoop dispatches on the flag). The substance is the correspondence: every start path is started for "
                  "real and a conformant record-marking client must get well-formed accepted replies with matching XIDs for NULL, MNT and "
                  "GETATTR, parsed in Coq independently of /repo's codecs.",
    "level_note": "Trusted: Coq kernel; the thin model; astfacts x_config.go; the driver's RPC client (harness/cmd/drive_config/rpcclient.go) "
                  "and Corr/C28.v's reply grammar (RFC 1831 accepted reply, MNT3res, GETATTR3res). Modelled, not verified: net.Listen, the "
                  "accept loop, goroutines, record reassembly inside the server (C13/C15). What each of the two connection loops does with "
                  "the bytes is not re-proved here (C13 codecs, C15 serve loop).",
    "trusted_extra": ["driver-side ONC RPC client with record marking (rpcclient.go), written from RFC 1831/1813"],
}
