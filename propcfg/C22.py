from props import S

CFG = {
    "properties_file": "Properties/C22.v",
    "corr_files": ["Corr/C22.v"],
    "streams": [S("C22", "drive_nfs", 120, 5000)],
    "rule": "histories of WRITE (stable_how 0/1/2) / COMMIT / SETATTR(size) / CREATE(size) / RENAME / REMOVE / READ on 2-3 files; "
            "the durable tree (what a crash that drops everything not synced would leave) is recorded after EVERY backend call of "
            "every request = the crash points; a second server instance created later supplies a second write verifier; "
            "non-trivial = more than one WRITE and more than 10 crash points",
    "assumptions": ["crash model: file contents/size durable only after Sync, namespace and metadata operations durable at once "
                    "(Model/Backend.v be_crash; harness/specfs Crash) - an assumption about the environment, stated as a definition",
                    "write verifier = server creation time in ns: distinct instances are created at distinct clock readings"],
    "level_text": "Proved for Model/Srv.v relative to the stated crash model: after a WRITE that answers OK (always FILE_SYNC: "
                  "C22_facts) the crashed tree holds the file with exactly the byte-array result of the write, every other path being "
                  "what it was (C22_durable, C22_crash_frame); COMMIT changes nothing (C22_commit); without Sync the data would be "
                  "lost (C22_unsynced_lost_example: the theorem is not vacuous). On the implementation: every acknowledged byte "
                  "range must be present in the durable tree at the reply and at every later crash point until superseded; the "
                  "model's durable tree must equal the backend's; verifier constant per instance and different across instances.",
    "level_note": "Trusted: Coq kernel; Model/Srv.v + Model/Backend.v as a rendering of the handlers and of the backend contract (validated on every run by the correspondence streams incl. the full-fidelity SRV stream); harness/specfs; the oracle's ghost handle map.",
}
