from props import S

CFG = {
    "properties_file": "Properties/C22.v",
    "corr_files": ["Corr/C22.v", "Corr/C22c.v"],
    "streams": [S("C22", "drive_nfs", 120, 5000), S("C22c", "drive_c29", 40, 2000, race=True)],
    "rule": "histories of WRITE (stable_how 0/1/2) / COMMIT / SETATTR(size) / CREATE(size) / RENAME / REMOVE / READ on 2-3 files; "
            "the durable tree (what a crash that drops everything not synced would leave) is recorded after EVERY backend call of "
            "every request = the crash points; a second server instance created later supplies a second write verifier; "
            "non-trivial = more than one WRITE and more than 10 crash points. Stream C22c (harness/cmd/drive_c29, CONCURRENT, sampled): "
            "2-3 client goroutines x 2-5 requests (WRITE 74% with stable_how 0/1/2, offsets 0-12, 1-8 bytes that identify writer and "
            "request; COMMIT 20% whole-file or ranged; READ) on 1-2 shared files of one real server, half of the cases in lock-step "
            "rounds (durable dump after every round) and half free-running (durable dump after quiescence), seeded schedule noise "
            "before/after every backend call and INSIDE every Sync; specfs in SyncSnapshot mode (a Sync persists what the file held "
            "when it was entered); 4 schedule seeds per history; corpus = 5 directed schedules (a writer's Sync held while another "
            "writer writes, syncs and is answered; the second Sync held while the first writer completes; COMMIT and a third WRITE "
            "overlapping a held WRITE; three writers of the same bytes); non-trivial = two WRITEs of different clients to one file "
            "overlapping in time",
    "assumptions": ["stream C22c: an fsync guarantees only what was written before it was called (specfs SyncSnapshot mode); of concurrent "
                    "writers of the same bytes either one's bytes may be the durable ones",
                    "crash model: file contents/size durable only after Sync, namespace and metadata operations durable at once "
                    "(Model/Backend.v be_crash; harness/specfs Crash) - an assumption about the environment, stated as a definition",
                    "write verifier = server creation time in ns: distinct instances are created at distinct clock readings"],
    "level_text": "Proved for Model/Srv.v relative to the stated crash model: after a WRITE that answers OK (always FILE_SYNC: "
                  "C22_facts) the crashed tree holds the file with exactly the byte-array result of the write, every other path being "
                  "what it was (C22_durable, C22_crash_frame); COMMIT changes nothing (C22_commit); without Sync the data would be "
                  "lost (C22_unsynced_lost_example: the theorem is not vacuous). On the implementation: every acknowledged byte "
                  "range must be present in the durable tree at the reply and at every later crash point until superseded; the "
                  "model's durable tree must equal the backend's; verifier constant per instance and different across instances. "
                  "Concurrent writers are SAMPLED only (stream C22c, thorough under -race; nothing about goroutine interleavings is "
                  "proved): at every instant with no request in flight, every byte of every WRITE acknowledged DATA_SYNC/FILE_SYNC "
                  "(or covered by an OK COMMIT invoked after its response) must be in the durable tree and hold the byte of a "
                  "writer not superseded by a later stable write; one verifier per case.",
    "level_note": "Trusted: Coq kernel; Model/Srv.v + Model/Backend.v as a rendering of the handlers and of the backend contract (validated on every run by the correspondence streams incl. the full-fidelity SRV stream); harness/specfs; the oracle's ghost handle map.",
}
