from props import S

CFG = {
    "properties_file": "Properties/C09.v",
    "corr_files": ["Corr/C09.v", "Corr/C09conn.v"],
    "streams": [S("C09", "drive_auth", 600, 20000), S("C09conn", "drive_auth", 150, 4000)],
    "rule": "one allow-list per case (0-6 entries: single IPv4/IPv6/v4-mapped addresses, IPv4 CIDRs of every length 0-32, IPv6 CIDRs of every "
            "length 0-128, v4-mapped literals with 128-bit lengths around 96, ::/0-style catch-alls, zoned and malformed entries such as /33, "
            "/024, /-1, empty, text) with Secure on/off, and 8-15 probes per case: client address strings (55% derived from an entry: inside its "
            "network or just outside by flipping the last prefix bit, in plain or v4-mapped spelling; random v4/v6; zoned; 29 malformed forms) "
            "x ports {0,1,1023,1024,65535} x calls (NFS NULL/GETATTR/ACCESS/LOOKUP/MKDIR, MOUNT MNT v1/v3, undecodable arguments, unknown "
            "procedure/version/program) x flavours (AUTH_NONE, AUTH_SYS, 2); 6% of the calls are made while a policy update holds policyRWMu (drain). Each probe runs both filters on the strings and HandleCall on a "
            "server configured with the list, recording reply kind, backend calls and handle-table size. Corpus: every IPv4 and IPv6 prefix "
            "length with an inside and an outside client, v4-mapped CIDRs at lengths {0,1,64,80,95,96,97,104,120,128}, ::/0 against IPv4 "
            "clients, empty list, all malformed clients, all malformed entries. Non-trivial = a case with both denied and accepted probes. "
            "Stream C09conn: a real listening server (absnfs.New over specfs, NewServer+Listen on 127.0.0.1:0, record marking) with one or "
            "two long-lived TCP client connections (35% bound to a privileged local port) and ephemeral ones; 2-5 policy updates per case "
            "(UpdatePolicyOptions / UpdateExportOptions alternating; AllowedIPs empty, 15 lists containing 127.0.0.1 in every spelling, 16 "
            "lists not containing it incl. ::/0, malformed entries, random lists; Secure 25%) interleaved with NULL/GETATTR/LOOKUP/ACCESS/"
            "MKDIR/MNT calls on connections opened before and after each update; per call: accepted / denied (reject_stat, auth_stat) / "
            "closed, backend calls, MKDIR effect; judged by the policy in force when the call is sent. Non-trivial there = a call on an "
            "established connection after an update",
    "assumptions": ["net.ParseIP / net.ParseCIDR syntax (Go standard library) is trusted; the driver parses every string with net/netip and hands "
                    "the parsed forms to Coq, so a disagreement between the two parsers shows up as a mismatch",
                    "parsed addresses are 16-byte values (< 2^128); an IPv4 literal's 16-byte form is v4-mapped"],
    "level_text": "Full proof on the model over parsed addresses: C09_sound (processed => listed (when a list is configured) and privileged "
                  "port (when Secure)), C09_agree (accept-time and request-time filters are the same function), C09_exact / "
                  "C09_complete_same_family (Go's mask-based IPNet.Contains = arithmetic membership on the 128-bit space except that a "
                  "16-byte network never matches an IPv4 client: fail-closed), C09_malformed_client, C09_denied_no_effect and "
                  "C09_not_accepted_no_effect for an arbitrary dispatcher/state/backend (every program and procedure), C09_facts (1024, "
                  "step order, MSG_DENIED, gate precedes dispatch - read off the source by astfacts).",
    "level_note": "Trusted: Coq kernel; Model/IpFilter.v (hand transcription of both filters and of net.IPNet.Contains, IP.Equal, IP.To4, "
                  "ParseCIDR's masking - tied by the differential run on both real filters and on HandleCall); tools/astfacts x_auth.go; the Go "
                  "driver, specfs call log. Modelled, not verified: address string syntax; the reply contents of the drain path of HandleCall (answered before "
                  "authentication without dispatch: C09_not_accepted_no_effect; the driver checks that such calls leave no backend call and no handle).",
}
