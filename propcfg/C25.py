from props import S

CFG = {
    "properties_file": "Properties/C25.v",
    "corr_files": ["Corr/C25.v"],
    "streams": [S("C25", "drive_nfs", 150, 6000)],
    "rule": 'WRITE/SETATTR(size)/CREATE(size)/READ on 2 files with MaxFileSize in {1,5,10,16,17,100} set at construction or at runtime (after a file already exceeds it), offsets/counts/sizes at limit-1, limit, limit+1, 2^63-1, 2^64-1; non-trivial = at least one NFS3ERR_FBIG',
    "assumptions": [],
    "level_text": "Proved for Model/Srv.v: WRITE, SETATTR(size) and CREATE(size) that would exceed a positive MaxFileSize answer FBIG with the tree unchanged and no mutating call (C25_*_fbig); after any WRITE/SETATTR every file is at most max(its previous size, limit) (C25_*_bound); requests within the limit behave exactly as with no limit (C25_sim_*). Evaluated also on the implementation's dumps.",
    "level_note": "Trusted: Coq kernel; Model/Srv.v + Model/Backend.v as a rendering of the handlers and of the backend contract (validated on every run by the correspondence streams incl. the full-fidelity SRV stream); harness/specfs as the backend (recorded calls, tree dumps); the ghost handle map of the oracle (read off the implementation's replies).",
}
