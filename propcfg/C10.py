from props import S

CFG = {
    "properties_file": "Properties/C10.v",
    "corr_files": ["Corr/C10.v"],
    "streams": [S("C10", "drive_auth", 1500, 60000)],
    "rule": "one credential per case: flavour (AUTH_SYS 78%, AUTH_NONE 10%, others incl. 2,3,6,2^32-1), body (well-formed with machine names "
            "of length 0-19, 0-16 gids from the boundary ids {0,1,65533,65534,65535,2^31,2^32-1} and random ids; trailing bytes; non-zero "
            "padding; every kind of malformation: truncation at a random point, 17-20 gids, huge counts, missing gids, name length beyond the "
            "limit or the data, empty, random bytes), squash string (random-case root/all/none, empty, junk, non-ASCII and invalid UTF-8), "
            "presented to ValidateAuthentication directly (65%, a third of them with a pre-parsed AuthSys whose slice and backing array the "
            "caller keeps and compares) or through HandleCall on a server configured with the mode (35%, followed by up to 9 ACCESS probes "
            "that show which gids the handler treats the caller as a member of). Corpus: the 7 boundary ids as uid/gid/aux against 9 modes on "
            "all three paths, every truncation of a 16-gid body, 16 vs 17 gids, 8192 vs 8193 byte machine name, flavours. "
            "Non-trivial = squashing changed an id or the request was denied; distinct = distinct case terms",
    "assumptions": ["strings.ToLower on a string with a byte >= 128 never yields root/all/none/\"\" (checked by the driver for every code point: "
                    "no non-ASCII rune lower-cases to one of the letters r,o,t,a,l,n,e)",
                    "the bytes of a Go string/[]byte are below 256 (the model is total on any list N)"],
    "level_text": "Full proof on the model for ids and lists of any size: C10_table (four rows, every spelling), C10_rows_cover, C10_authsys "
                  "(end to end through ValidateAuthentication), C10_auth_none, C10_other_denied, C10_parser_exact (ParseAuthSysCredential accepts "
                  "exactly the AUTH_SYS layout grammar), C10_bad_body_denied, C10_aux_limit, C10_facts (65534, 16, labels read off the source by "
                  "astfacts). The aliasing clause is partial: C10_no_alias_partial/C10_heap_view hold in a two-line heap model of the slice; on "
                  "the real code it is checked by the driver in every case with a shared slice.",
    "level_note": "Trusted: Coq kernel; Model/Auth.v (hand-written, tied by the differential run: allowed, uid, gid, aux list seen afterwards, "
                  "ACCESS probes); tools/astfacts x_auth.go; the Go driver. Modelled, not verified: strings.ToLower beyond ASCII (assumption "
                  "above), Go slice aliasing (heap mini-model).",
}
