from props import S

CFG = {
    "properties_file": "Properties/C19.v",
    "corr_files": ["Corr/RateLimitCorr.v", "Corr/C19.v", "Corr/C19c.v"],
    "streams": [S("C19", "drive_ratelimit", 180, 10000), S("C19ns", "drive_ratelimit", 90, 5000),
                S("C19c", "drive_ratelimit", 40, 1500)],
    "rule": "a RateLimiter (global {1,3,5,10,1000}/s, per-IP {1,3,10}/s burst {1,2,5}, per-connection off or {1,3,1000}/s) "
            "receives interleaved AllowRequest calls of 0-2 abusive clients (volleys of 1-5 calls at one instant, far above their "
            "own limits) and 1-3 compliant clients (paced by a shadow bucket so that they stay within their own limits), 15-70 "
            "scheduling steps, on the 2^-9 s grid (C19) or with arbitrary ns timings (C19ns). Compared: the admit bit of every "
            "call; oracle: every call of a client whose whole stream conforms to its per-IP and per-connection limits is admitted "
            "whenever a reference global bucket charged with the ADMITTED calls only holds a token. Non-trivial = an abusive call "
            "was refused and a compliant call admitted in the same case. Stream C19c (concurrent, SAMPLED, ORACLE-ONLY): goroutines call "
            "AllowRequest of the real code concurrently with the virtual clock held still; directed schedule (global bucket drained to "
            "its last token, a GetStats poller walking a 60-120k-entry per-IP map keeps the abuser's over-limit request waiting "
            "inside the per-IP check while a new well-behaved client is served on another goroutine) and random rounds (1 abuser "
            "on 3-10 goroutines flooding, 2-4 clients within their limits, global burst with 1-3 tokens of slack, 10-29 rounds); "
            "observed per round: attempted/admitted per (address, connection); oracle: admitted <= global burst, and if fewer than "
            "that were admitted every request of a client within its own limits was admitted.",
    "assumptions": [
        "ideal arithmetic (float64 rounding modelled, not verified); rates and bursts >= 0; monotone clock; one request at a time",
    ],
    "level_text": "Full proof on the model, for every order of the limiter calls in which the global limiter comes last: "
                  "C19_no_consume (a request refused by another limiter leaves the global bucket untouched), C19_own_limit_refusal, "
                  "C19_global_tracks_admitted (after any history the global bucket equals a stand-alone bucket charged with the "
                  "admitted requests only), C19_isolation / C19_isolation_go (a client whose own buckets hold a token is admitted "
                  "whenever the admitted traffic leaves a global token), C19_isolation_history (the same with 'within its limits' "
                  "stated on the client's whole request stream via reference buckets), any history, any configuration >= 0, cleanup at arbitrary "
                  "points. C19_facts re-proves on every run that the order extracted from RateLimiter.AllowRequest has the global "
                  "check last; C19_global_first_violates shows the side condition is necessary.",
    "level_note": "The concurrent stream C19c is sampled and oracle-only: it evaluates the interleaving-independent consequences of C19 on the real code's observations; no theorem covers goroutine interleavings (the model processes one request at a time). Trusted: Coq kernel; Model/RateLimit.v; astfacts' reading of AllowRequest (order of the .Allow calls, early "
                  "returns); the clock overlay and the Go driver. Modelled, not verified: float64 rounding; concurrency of the "
                  "three bucket updates inside one AllowRequest (separate locks) is not modelled.",
}
