from props import S

CFG = {
    "properties_file": "Properties/C29.v",
    "corr_files": ["Corr/C29.v"],
    # both streams come from harness/cmd/drive_c29; both tiers are built and run under the Go race detector (the
    # property is about data races: a report makes the driver exit 66, which breaks the tie)
    "streams": [dict(S("C29", "drive_c29", 48, 1600, race=True), race_quick=True),
                dict(S("C29b", "drive_c29", 32, 1600, race=True), race_quick=True)],
    "rule": "concurrent histories against ONE real server (absnfs.New over the mutex-protected specfs, requests through "
            "NFSProcedureHandler.HandleCall, real clock): a sequential set-up (MNT, shared directory, pre-created files), then 2-4 "
            "client goroutines x 3-8 requests, seeded schedule noise (yield / 1-40 us / 60-540 us / 0.3-3 ms stalls) before AND "
            "after every backend call; 4 schedule seeds per generated history; every request stamped on a global atomic logical "
            "clock before invocation and after the response; 20 s deadlock watchdog (a deadlocked history is recorded with the requests invoked and answered so far, its server is never touched again, later random histories get a 3 s watchdog, after three deadlocks or 6 min (quick) only empty place-holders are emitted); after quiescence: backend dump, handle table, "
            "cache sizes, goroutine count, and a sequential probe round (LOOKUP+GETATTR of every known name, READDIR and "
            "READDIRPLUS of every directory) on the server and on a fresh twin server over a copy of the final backend state. "
            "Stream C29 (distinct names): each client works on its own names (CREATE WRITE READ SETATTR REMOVE RENAME SYMLINK "
            "MKDIR RMDIR LOOKUP GETATTR ACCESS COMMIT READDIR(PLUS), 80% state-aware / 20% random incl. error paths) in the "
            "shared root, a shared subdirectory (65%) and an own subdirectory; attribute TTL 1 ns, negative and directory caching "
            "off; Coq searches for a linearization against Model/Srv.step; one history in five concentrates the long stalls right after "
            "backend ReadAt calls with READs of per-client distinguishable files making up ~45% of the requests (the window between a "
            "READ's backend read and its reply); corpus = 5 directed schedules holding a READ just before its post-op attribute "
            "Lstat while other clients READ / WRITE / READDIRPLUS / LOOKUP other files to completion (GOMAXPROCS 1). Stream C29b (caches on, TTL 10 min so nothing "
            "expires): one writer mutating shared names, 1-3 readers LOOKUP/GETATTR/ACCESS/READDIR(PLUS) the same names, negative "
            "and directory caching each on in 60%; the backend state after every successful mutating backend call is recorded "
            "with its logical time; corpus = 17 DIRECTED schedules: 6 of the check-then-cache window (reader delayed between its "
            "backend read and its cache store while a whole REMOVE / CREATE / CREATE-truncate / WRITE / RENAME runs) and 11 mirror "
            "images (the WRITER - REMOVE, RMDIR, RENAME, CREATE - held just before or just after its backend call while a reader's "
            "whole LOOKUP / READDIR / READDIRPLUS runs in between; attribute, negative and directory caches). Distinct = distinct observed "
            "history incl. precedence; non-trivial = at least one pair of overlapping requests of different clients and one "
            "successful backend mutation",
    "assumptions": [
        "in -race builds the driver re-executes itself with GORACE=exitcode=0 log_path=...: a race report marks the history during "
        "which it appeared (k_race, code 2 at step 9009, report text in the replay) instead of only failing the whole driver",
        "the backend is thread-safe (specfs serialises every call under one mutex) and honours the absfs contract of Model/Backend.v",
        "real clock: a 1 ns attribute TTL has expired whenever another goroutine looks (time.Now() steps >= 40 ns here); stream C29b's "
        "10 min TTLs never expire within a run",
        "response stamp of a before invocation stamp of b implies a's HandleCall returned before b's was invoked (atomic counter)",
        "stream C29b reads 'a state the object was in' per path: every attribute block / NOENT / listed name must match the "
        "backend's own state of that path at some instant before the response; a name present throughout must be listed",
        "goroutine interleavings are sampled (Go scheduler + injected delays), never enumerated",
    ],
    "level_text": "PARTIAL by design. Proved (Coq, unbounded, closed under the global context) for the SEQUENTIAL model Model/Srv.step: "
                  "the serial specification is a function (C29_determinism, C29_replay_*); the linearizability checker is sound "
                  "(C29_checker_sound: an accepted order is a permutation of all completed requests, respects real time, replays "
                  "every observed reply and the final tree; the search itself is untrusted, its witness is re-validated); "
                  "non-interfering requests commute on the observable projection (C29_reader_no_disturb, C29_attr_reader_frame, "
                  "C29_commute_attr_reader, C29_commute_reader_remove, C29_backend_commute); cached values are Lstat views of "
                  "their own path (C29_cache_faithful, C29_lookup_provenance, C29_getattr_provenance, C29_cached_values under "
                  "the link-free coherence invariant, C29_lookup_reply_was_state). Kept as unproved Definitions: C29_statement, "
                  "C29_commute_distinct_statement (two allocating requests, needs handle renaming), C29_cached_values_statement. "
                  "NOT proved and never claimed: that the Go implementation is race-free, deadlock-free or linearizable - that is "
                  "SAMPLED: quick 48+32 (+17 directed) concurrent histories, thorough 1600+1600 under -race; development runs on "
                  "the current tree: 2000 distinct-names histories (about 50 000 requests, 60 000 overlapping pairs) all "
                  "linearizable, 4000 caches-on histories with no reply showing a state the object was never in and the probe "
                  "round equal to the twin server's; no race report, panic, deadlock or goroutine leak.",
    "level_note": "Found by this check on the tree before commit 61ca220 and repaired there (known_findings.txt, fixed: property=C29): "
                  "Lookup/GetAttr/ReadDirPlus and ReadDir read the backend and THEN stored into the attribute / directory cache; a "
                  "concurrent REMOVE, RENAME, CREATE or WRITE that changed the backend and invalidated in between was followed by "
                  "the store of the stale value, which survived for the full TTL (LOOKUP answered OK with a handle for a removed "
                  "file, NOENT for a created one, READDIR omitted a created name, LOOKUP reported the size before a completed "
                  "WRITE): 33 of 3000 random caches-on histories and all 5 directed schedules failed the probe round (code 2, "
                  "step 9003). The repair (generation counter per cache bumped by every invalidation, readers store with "
                  "PutIfCurrent; WRITE invalidates again after Chtimes) makes them pass; the directed schedules stay in the "
                  "corpus as the regression guard. "
                  "Trusted: Coq kernel; Model/Srv.v + "
                  "Model/Backend.v (validated by the sequential correspondence streams); harness/cmd/drive_c29 (stamping, schedule "
                  "noise, backend-state recording, twin restore), harness/specfs, harness/nfsx decoding; Go race detector.",
}
