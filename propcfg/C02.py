from props import S

CFG = {
    "properties_file": "Properties/C02.v",
    "corr_files": ["Corr/C02.v"],
    "streams": [S("C02", "drive_nfs", 120, 6000)],
    "rule": "sequential histories of LOOKUP CREATE MKDIR SYMLINK REMOVE RMDIR RENAME READDIR(PLUS) GETATTR READLINK over 5 names, "
            "depth <= 3, 20-60 steps, all 2^3 on/off combinations of negative/dir caching and attr TTL {1ns, 50ms, 5s} with clock "
            "advances straddling the TTLs, attr-cache size {1,3,10000}; name and handle recency bias; a nested set-up and a "
            "move/remove-then-reuse-old-handle probe; corpus = the four cache-invalidation regressions; every request also runs "
            "on a twin server with minimal caches; non-trivial = more than 2 successful backend mutations",
    "assumptions": ["cache transparency is proved for trees without symbolic links (per-path caches cannot be coherent when a "
                    "stale directory handle's path comes to pass through a symlink: C02_transparent_unrestricted_refuted)",
                    "a handle whose path now holds an object of another kind is stale: the tree model has no opinion on its reply"],
    "level_text": "Proved for Model/Srv.v under tree well-formedness and no symlinks: the cache coherence invariant holds initially "
                  "and is preserved by every namespace procedure (C02_good_*), every reply projection and the resulting state "
                  "equal those of the cache-free run for histories of any length, any clock advances and any cache configuration "
                  "(C02_transparent, C02_config_independent), a failed request leaves the tree literally unchanged "
                  "(C02_failed_no_change), and success of LOOKUP/MKDIR/CREATE/REMOVE/RMDIR/RENAME is characterised by tree "
                  "predicates with the resulting tree being the backend operation's (C02_posix_*). On the implementation: "
                  "model comparison incl. backend tree, twin-server comparison of every reply, tree-dictated status, unchanged "
                  "tree on failure.",
    "level_note": "Trusted: Coq kernel; Model/Srv.v + Model/Backend.v as a rendering of the handlers and of the backend contract (validated on every run by the correspondence streams incl. the full-fidelity SRV stream); harness/specfs; the oracle's ghost handle map.",
}
