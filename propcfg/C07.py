from props import S

CFG = {
    "properties_file": "Properties/C07.v",
    "corr_files": ["Corr/C07.v"],
    "streams": [S("C07", "drive_nfs", 120, 5000)],
    "rule": "request histories with adversarial names and symlink targets (alphabet a . / \\ NUL 0x80 up to length 4, lengths "
            "254-257, random long strings up to 9000 bytes, multi-component targets) in every name-taking procedure + MNT, over "
            "an empty tree or one holding foreign symlinks with '..'/absolute targets; corpus = bounded-exhaustive names up to "
            "length 3 in LOOKUP/CREATE/MKDIR/REMOVE/RMDIR/SYMLINK(target)/RENAME; non-trivial = at least one adversarial name",
    "assumptions": ["path.Join/filepath.Clean on a clean base and a validated component equals appending the component "
                    "(checked on every run: the set of raw path strings the backend saw equals the model's rendered paths)",
                    "MNT's Lstat of the cleaned client path is read as 'the path a handle is requested for'"],
    "level_text": "Proved for Model/Srv.v for every state satisfying the handle-path invariant (established at start, preserved by "
                  "every step, hence for every history): every backend call's path is a handle path, a handle path plus one "
                  "validated component (READDIR entries: one sane name from the backend's own listing), or MNT's cleaned path, "
                  "all of them lists of good components whose rendering is an absolute normalized string (C07_paths, "
                  "C07_render_clean, C07_history); no Symlink call has an absolute target or a '..' component "
                  "(C07_symlink_targets); READLINK never returns a relative target with '..' whatever the backend holds "
                  "(C07_readlink). Tied to the code by the raw path strings recorded by the backend under the real handlers, "
                  "on which the statement is also evaluated directly.",
    "level_note": "Trusted: Coq kernel; Model/Srv.v as a rendering of the handlers (validated by SRV/C07 streams); specfs call "
                  "recording; Go's path/filepath for the string form of joined paths (sampled, not proved).",
}
