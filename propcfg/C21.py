from props import S

CFG = {
    "properties_file": "Properties/C21.v",
    "corr_files": ["Corr/C21.v"],
    "streams": [
        S("C21", "drive_cache", 400, 8000),        # AttrCache histories
        S("C21dir", "drive_cache", 300, 5000),     # DirCache histories
        S("C21child", "drive_cache", 2500, 30000),  # isChildOf on byte strings
        S("C21race", "drive_cache", 4, 12, race=True),  # concurrent stress (runtime half; -race in the thorough tier)
    ],
    "rule": "AttrCache / DirCache histories of 10-60 operations (Put, PutNegative, Get, Invalidate, InvalidateNegativeInDir, "
            "InvalidateTree, Resize, UpdateTTL, Clear, ConfigureNegativeCaching) on the real caches under the virtual clock: TTL in "
            "{1 ns, 50 ms, 5 s} (rarely <= 0), capacity in {1, 2, 3, 10} (rarely <= 0 = default), keys over a small tree whose names are "
            "prefixes of each other ('/', '/a', '/a/b', '/ab', ...), clock advances 0, 1 ns, onto / one ns around the expiry instant of a "
            "cached key, around 50 ms / 5 s / 10 s, or random < 30 ms; every value handed to or returned by the cache is mutated "
            "afterwards (copy isolation). Projection: Get result (miss / negative / the seven attribute fields or the listing), Size(), "
            "capacity, NegativeStats() after every step. A history is non-trivial when it has a hit and an eviction, an expiry removal or a "
            "negative hit; distinct = distinct (configuration, operations, clock values). isChildOf: random byte strings over "
            "{'/', a, b, NUL, 0xff, '.'}, paths derived from the directory argument, and the tree alphabet; every pair is non-trivial. "
            "C21race: barrier-released PutNegative vs ConfigureNegativeCaching(false) rounds and mixed concurrent histories; a case counts "
            "rounds that ended with a negative entry while disabled, a foreign/torn value, map/list disagreement or size > capacity.",
    "assumptions": [
        "container/list (MoveToFront, PushFront, Remove, Back) behaves as a sequence with front insertion (stdlib)",
        "Go map iteration with deletion of the current key visits every remaining entry exactly once (language spec)",
        "time.Time.Before/After/Add on the virtual clock are exact integer comparisons/additions of nanoseconds (no overflow for the TTLs used)",
        "each cache method is atomic (holds the cache mutex for its effect); the RLock->Lock upgrade inside Get is not modelled",
    ],
    "level_text": "Proof on the model for the sequential part: for every history of all ten AttrCache / seven DirCache operations and every "
                  "sequence of clock values (induction over fold_left step, no bound) the map+access-list representation keeps its invariants "
                  "(NoDup list, list = dom map, size <= capacity), refines the abstract TTL-LRU association list observation by observation "
                  "(C21_refines_attr, C21_refines_attr_parent_rule, C21_refines_dir), returns only the most recently stored unexpired value "
                  "(C21_get_latest), evicts exactly the last key of an access list that is proved ordered by last use (C21_lru_*), removes by "
                  "InvalidateNegativeInDir exactly the negative entries selected by isChildOf, which is characterised on all byte strings "
                  "(C21_neg_children*), and never shows a negative entry while negative caching is off (C21_neg_enabled). Partial: copy "
                  "isolation and the concurrent half are checked at run time only (value mutation in every history; C21race stream, -race in "
                  "the thorough tier). The model is tied to cache.go by differential runs under the virtual clock, evaluated in Coq together "
                  "with the abstract specification run directly on the implementation's observations.",
    "level_note": "Trusted: Coq kernel; the hand-written Model/Cache.v (both caches share one map+list core; Go's separate isNegative flag is "
                  "merged with attrs == nil; range-with-delete loops are folds over a key snapshot); the Go driver, the clock overlay and "
                  "verif_hooks_cache.go; container/list. Defaults (10000 / 1000 entries, 5 s / 10 s TTL) are literals in cache.go, tied by the "
                  "correspondence (capacity is observed after every step, default TTLs by clock advances around 5 s and 10 s), not by astfacts. "
                  "isChildOf deviates from the parent rule only for keys that do not start with '/', which the server never uses "
                  "(C21_child_is_parent_rule_or_quirk). Concurrency and aliasing: sampled, not proved.",
}
