from props import S

CFG = {
    "properties_file": "Properties/C05.v",
    "extra_properties_files": ["Properties/C05w.v"],
    "corr_files": ["Corr/C05.v", "Corr/C05w.v", "Corr/C05c.v"],
    "streams": [S("C05", "drive_handles", 300, 20000), S("C05w", "drive_nfs", 100, 5000),
                S("C05c", "drive_handles", 150, 4000)],
    "rule": "C05c: concurrent rounds (2-16 goroutines behind a spin barrier allocate the same fresh path, 30-70 rounds per case) on the real FileHandleMap - sampled interleavings, oracle only. C05: allocation histories (Allocate/Release/ReleaseAll) on the real FileHandleMap over 1-40 paths, max in "
            "{<=0,1,2,3,5,10,11,25}, length up to 6x max; non-trivial = contains an eviction or an id reuse. C05w: request "
            "histories over a populated tree with handle limit in {0,1,2,3,5,10,11}; every reply that returns a handle (MNT, "
            "LOOKUP, CREATE, MKDIR, SYMLINK, every READDIRPLUS entry) is followed at once by GETATTR on it; non-trivial = more "
            "than 3 such follow-ups",
    "assumptions": ["container/heap PopMin returns the minimum (stdlib)", "handle ids stay below 2^64"],
    "level_text": "Table level, for every reachable table, path set and maximum (induction over arbitrary histories): a handle is "
                  "live when issued, handles and paths are in bijection so a reissue while live returns the same value, the table "
                  "never exceeds its limit (C05_live, C05_one_per_path, C05_reissue_same, C05_bounded). Wire level on Model/Srv.v, "
                  "for every reachable server state: the handle in a MNT/LOOKUP/CREATE/MKDIR/SYMLINK reply resolves in the "
                  "post-state to the path the request names (C05w_live), the last READDIRPLUS entry's handle is live "
                  "(C05w_readdirplus_last; earlier entries: kernel-checked counterexample for limit 1 = known finding k=1), same "
                  "path -> same handle (C05w_same_handle), bounded (C05w_bounded). Both levels are tied to the code by "
                  "differential runs that also evaluate the statement on the implementation's own tables/replies.",
    "level_note": "Trusted: Coq kernel; Model/Srv.v + Model/Backend.v + Model/Handles.v as a rendering of the code (validated on every run by the correspondence streams incl. the full-fidelity SRV stream); harness/specfs; the oracle's ghost handle map.",
}
