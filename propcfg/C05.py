from props import S

CFG = {
    "properties_file": "Properties/C05.v",
    "corr_files": ["Corr/C05.v"],
    "streams": [S("C05", "drive_handles", 400, 20000)],
    "rule": "allocation histories (Allocate/Release/ReleaseAll) over 1-40 paths, max in {<=0,1,2,3,5,10,11,25}, "
            "length up to 6x max; a case is non-trivial when it contains an eviction or an id reuse; "
            "distinct = distinct (max, op list)",
    "assumptions": ["container/heap PopMin returns the minimum (stdlib)", "handle ids stay below 2^64"],
    "level_text": "Full proof on the model: C05_live, C05_one_per_path, C05_reissue_same, C05_bounded for every reachable state of "
                  "the handle-table model, every path set and every maximum (induction over arbitrary Allocate/Release/ReleaseAll "
                  "histories; no bound). The model is tied to filehandle.go by differential runs of the real FileHandleMap evaluated "
                  "in Coq, which also evaluate the property's own statement on the implementation's tables.",
    "level_note": "Trusted: Coq kernel; the hand-written model Model/Handles.v (min-heap as multiset with pop-min; map iteration order "
                  "irrelevant); the Go driver and verif_hooks.go accessors; container/heap. Wire-level issue of handles "
                  "(MNT/LOOKUP/CREATE/...) is exercised by the NFS session streams, not proved.",
}
