from props import S

CFG = {
    "properties_file": "Properties/C24.v",
    "corr_files": ["Corr/C24.v"],
    "streams": [S("C24", "drive_config", 300, 6000)],
    "rule": "a case = ExportOptions for absnfs.New over memfs (numeric/duration fields 10-85% zero, 10% negative incl. MinInt64, "
            "Timeouts nil / partially filled, Log nil / set, Squash in {'',root,all,none,ROOT}) + 2-7 updates drawn from "
            "UpdateExportOptions 45% (Squash: empty / same / other valid / invalid), UpdateTuningOptions 35% (1-5 field assignments incl. "
            "Timeouts=nil, single timeout fields, EnableDirCache), UpdatePolicyOptions 20% (RateLimitConfig nil / 3 configs, AllowedIPs with "
            "and without loopback, Secure); after New and every update: GetExportOptions, component parameters, LOOKUP/READ/WRITE over TCP. "
            "Non-trivial = has an update carrying zero/negative/nil inputs and (a rejected update or a probe); distinct = distinct case term",
    "assumptions": [
        "runtime.NumCPU() > 0 (the model's parameter ncpu)",
        "updates are serialised (tuningMu / policyMu); interleavings with requests are C16's subject",
        "hasExplicitTCPSettings is unreachable from outside the package (New always forces TCPKeepAlive/TCPNoDelay)",
    ],
    "level_text": "Proof on the model (Model/Config.v, default tables and step orders read from /repo by astfacts): for every history of "
                  "UpdateExportOptions / UpdateTuningOptions(arbitrary function) / UpdatePolicyOptions with arbitrary integer field values: "
                  "C24_serviceable (every defaulted field > 0, transfer size >= 1, all timeouts > 0), C24_defaults_partial (<= 0 / nil take "
                  "New's defaults, positive values kept, nil RateLimitConfig = default as in New), C24_same_as_new (runtime table = "
                  "construction table), C24_reported_partial (report = snapshots; caches / pool / limiter run with the reported parameters), "
                  "C24_atomic + C24_rejected_iff (a rejected update changes nothing; rejected = Squash change). Refuted to the letter, as "
                  "known findings with witnesses: C24_nil_timeouts_refuted (k=1: nil Timeouts/Log via UpdateExportOptions keep the current "
                  "value, documented) and C24_reported_dircache_refuted (k=2: EnableDirCache / DirCacheMaxDirSize reported but not applied). "
                  "Tied to /repo by differential runs against the real server, evaluated in Coq together with the property's own statement.",
    "level_note": "Trusted: Coq kernel; hand-written model Model/Config.v; astfacts x_config.go (reads the defaulting statements of New and "
                  "applyTuningDefaults, the order of the steps of the three update functions, the field lists of the option structs and of the "
                  "conversion functions; refuses unknown shapes); Go driver drive_config, verif_hooks_config.go (VerifConfigInForce, "
                  "VerifExportPort). Modelled, not verified: the structured-logger replacement, New's early errors (nil fs, logger, Stat), "
                  "TLS settings replaced at runtime are reported but the running listener keeps its configuration (see C30). Sampled only: "
                  "READ/WRITE/LOOKUP over loopback TCP after each update (sane positive timeouts >= 1 s).",
    "trusted_extra": ["astfacts extractor x_config.go (syntactic reading of New / applyTuningDefaults / Update*Options)"],
}
