from props import S

CFG = {
    "properties_file": "Properties/C12.v",
    "corr_files": ["Corr/C12.v"],
    # one case = 256 ACCESS calls on the real handler; quick 80 cases = 20 480 points,
    # thorough: cases 0..2559 enumerate all 655 360 class points once, the rest are random
    "streams": [S("C12", "drive_auth", 80, 2700)],
    "rule": "ACCESS calls through HandleCall on exports with Squash none (45%), root (35%) and all (20%): the RAW AUTH_SYS credential is sent (uid 0, "
            "gid 0 and zeros among the aux gids frequent; or AUTH_NONE) and the server derives the effective identity; the oracle recomputes it "
            "with the squash table and judges by the EFFECTIVE identity. Under squashing the object's owner/group are chosen relative to the "
            "effective identity, and wherever the class leaves a choice they are ids only the raw credential has (object gid 0 for a squashed "
            "gid 0, owner uid 0 for a squashed root) or only the effective one has (gid 65534). Object backend mode "
            "(any 32-bit os.FileMode), owner and group are planted per point; a point = (branch of the class selection, 9 "
            "permission bits, directory bit, read-only export, 6 mask bits) made concrete with boundary/random 32-bit ids, "
            "auxiliary gid lists of length 0-16, extra mode bits and extra mask bits; 8% of the points are fully random. "
            "A case (256 points) is non-trivial when it contains both a fully and a partially granted request; "
            "distinct = distinct point lists",
    "assumptions": ["os.ModeDir = 1<<31 (Go standard library io/fs)",
                    "the effective ids and AuthSys the handler reads are those HandleCall stored in the AuthContext (checked per point by the driver)"],
    "level_text": "Full proof on the model: C12_exact (granted is a subset of the requested mask and equals the independently stated UNIX rule "
                  "unix_access) for every mode, owner, group, effective identity, auxiliary gid list (or none), mask and read-only flag - "
                  "all unbounded naturals; proved by a factoring lemma through (branch, mode mod 2^9, directory bit, read-only, mask mod 2^6) "
                  "and an exhaustive vm_compute sweep of the 655 360 points lifted with forallb_forall. Corollaries C12_dir_only, C12_readonly, "
                  "C12_root, C12_per_bit. The model is tied to nfs_proc_attr.go by differential runs of the real handler evaluated in Coq, "
                  "which also evaluate unix_access and the subset condition on the implementation's own reply.",
    "level_note": "Trusted: Coq kernel (vm_compute); the hand-written model Model/Access.v of handleAccess's permission computation; the Go "
                  "driver (specfs backend with a planted Lstat mode, verif_hooks_auth.go accessors for handle issue and owner/group). "
                  "ACCESS3_* values come from Gen/Facts.v (C12_facts pins them to RFC 1813). Not covered: ACCESS error paths (stale handle, "
                  "backend error) - they grant nothing by construction of the reply shape and belong to C14.",
}
