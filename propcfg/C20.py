from props import S

CFG = {
    "properties_file": "Properties/C20.v",
    "corr_files": ["Corr/C20.v"],
    "streams": [
        # schedules in which Stop and Resize calls do not overlap
        S("C20", "drive_pool", 170, 6000, race=True),
        # schedules in which they do (the stream that catches a regression of the resizeMu fix)
        S("C20ov", "drive_pool", 60, 2500, race=True),
    ],
    "rule": "a case = a random walk over the enabled labels of the transition system Model/PoolLTS.v (Go mirror in "
            "harness/cmd/drive_pool/lts.go): 1-4 workers, 1-8 tasks (Submit+receive, SubmitWait or ExecuteWithWorker per task; each task returns its own id, "
            "untyped nil, a nil error, a typed nil pointer, 0, \"\" or struct{}{}; executions of every body are counted on the real code), "
            "0-1 Stop, 0-2 Resize (to 0-4, grow/shrink/same), Finish weight 0/1/3/6 so that queues are empty, partial or full when "
            "Stop/Resize hit; enacted on the real WorkerPool with gate-controlled tasks; plus fixed schedules (the two schedules "
            "fixed by 9607c86, nil/zero results on an idle pool through all three entry points, ExecuteWithWorker refused by a full queue and a stopped pool, full-queue timeout, grow then stop, three Stop/Resize overlaps). Steps the pool could not be "
            "steered into are counted in the tags as not_enacted, never as failures. To keep the set of model states the Coq "
            "monitor must track small, the driver keeps at most one call whose acceptance is unobservable (SubmitWait / "
            "ExecuteWithWorker; others are downgraded to Submit, tag mode_downgraded_to_submit) and at most one call in flight "
            "when it issues Stop or Resize (it waits for Submit's 50 ms timer; tag calm_timeout); the monitor gives up, "
            "reported as a mismatch, above 1500 compatible states (largest seen in 4500 measured cases: 422). A case is non-trivial when a Stop or a "
            "Resize was called while tasks were executing or queued, or when Stop and Resize calls overlapped; "
            "distinct = distinct observed event logs",
    "assumptions": [
        "Go channel / select / RWMutex / WaitGroup / context semantics are as written down in Model/PoolLTS.v "
        "(sequentially consistent interleaving of the atomic steps listed there)",
        "task bodies terminate (an executing worker can always finish)",
        "at most one external Stop call at a time; Start is only called by New and by Resize",
    ],
    "level_text": "Full proof on the model: C20_bounded (executing <= size in force, hence <= max(old,new) during a resize), "
                  "C20_at_most_once (no task executes twice; for every configuration and interleaving) and C20_resolved (in every "
                  "quiescent reachable state the pool has not panicked and every submitter has its own task's result with the task "
                  "executed exactly once, or was told 'not executed'/refused with the task never executed) for every reachable state "
                  "of the transition system - unbounded tasks, workers, queue generations, Stop/Resize calls, trace length - for "
                  "every configuration with the three repairs (Stop drains, Resize overflow closes, Stop holds resizeMu), and "
                  "C20_code_good shows the current source is such a configuration (facts read off the Go AST on every run). "
                  "C20_needs_* are kernel-checked violating traces of the models without each repair. The model is tied to "
                  "worker_pool.go by enacting sampled schedules on the real pool: Coq checks that every observed event log is "
                  "accepted by the transition system (set of compatible states, tau-closure) and evaluates the statement of C20 on "
                  "the log itself (peak concurrency; accepted => executed exactly once, at most once overall, refused ExecuteWithWorker => exactly one direct execution, by per-task counters; the answer is the task's own value, nil included; nobody left blocked).",
    "level_note": "Trusted: Coq kernel; the hand-written LTS Model/PoolLTS.v as a rendering of the Go concurrency primitives "
                  "(modelled, not verified: scheduler, channels, RWMutex writer preference, WaitGroup, context, timers; SC "
                  "interleavings only - the Go memory model is not modelled, the thorough tier runs the driver under -race); "
                  "astfacts x_pool.go (shape recognition of Stop/Resize/Submit/worker); the Go driver and verif_hooks_pool.go; "
                  "internal choices of the real scheduler cannot be forced, so schedule coverage is as measured in the tags "
                  "(not_enacted counts the sampled steps the pool did not take).",
}
