from props import S

CFG = {
    "properties_file": "Properties/C08.v",
    "extra_properties_files": ["Properties/C08t.v"],
    "corr_files": ["Corr/C08.v", "Corr/C08g.v", "Corr/C08t.v"],
    "streams": [S("C08", "drive_nfs", 150, 6000), S("C08g", "drive_nfs", 150, 6000),
                S("C08t", "drive_lts", 120, 3000, race=True)],
    "rule": "C08: request histories (all 22 procedures + MNT, valid and invalid names, stale handles) over a populated "
            "tree with ReadOnly set at construction (60%) or toggled at runtime by UpdateExportOptions; non-trivial = the "
            "history contains at least one NFS3ERR_ROFS reply. C08g: raw argument bytes (valid / truncated / bit-flipped / "
            "junk-appended / random) to NFS procedures 0..23 and MOUNT 0..6; non-trivial = at least one call made while "
            "read-only. Distinct = distinct case text.",
    "assumptions": ["backend = harness/specfs (records every call); mutating = write-mode open, WriteAt, Truncate, Create, "
                    "Remove, Rename, Mkdir, Symlink, Chmod, Chown, Lchown, Chtimes",
                    "byte-level decoding of malformed arguments is not in the Coq model (decoded requests only): covered by "
                    "the C08g implementation-side oracle and the astfacts guard-first fact"],
    "level_text": "Proved for the server model Model/Srv.v, for every state, credential and decoded request: under ReadOnly no "
                  "procedure changes the backend tree or issues a mutating backend call (C08_no_mutation), the eleven mutating "
                  "procedures fail (C08_fail), ACCESS grants no MODIFY/EXTEND/DELETE (C08_access), and this extends to "
                  "histories of any length (C08_history). C08_facts re-checks by computation that in the current source the "
                  "ReadOnly guard is the first statement of every mutating handler. The model is tied to the Go handlers by "
                  "differential histories evaluated in Coq (status, mutating calls, backend tree), and the statement itself is "
                  "evaluated on the implementation's observations, including raw malformed argument bytes. "
                  "Schedules (Properties/C08t.v, over the policy LTS Model/PolicyLTS.v, all traces, any number of requests, "
                  "updates and handler timeouts): C08_lts_readonly_in_force - while read-only is in force (the latest returned "
                  "update set ReadOnly and no update back to read-write has been called since) every backend operation belongs "
                  "to a request admitted under a ReadOnly policy; C08_lts_no_readwrite_request_op, C08_lts_latest_returned. "
                  "Tied to the code by the C08t stream (drive_lts): mutating requests held in the backend, timing out or not, "
                  "overlapping UpdatePolicyOptions/UpdateExportOptions; oracle on the ordered backend-operation log.",
    "level_note": "Trusted: Coq kernel; Model/Srv.v + Model/Backend.v as a rendering of the handlers (validated by the SRV/C08 "
                  "correspondence streams); specfs call recording; astfacts' reading of the guard syntax. Not proved: the "
                  "byte-level decoders in front of the handlers (sampled by C08g).",
}
