from props import S

CFG = {
    "properties_file": "Properties/C27.v",
    "corr_files": ["Corr/C27Bytes.v", "Corr/C27.v"],
    "streams": [S("C27", "drive_portmap", 300, 12000)],
    "rule": "histories of 1-24 events (plus optional pre-registrations) on a fresh Portmapper configured with a listen address "
            "(unset / 0.0.0.0 / :: / specific IPv4 / specific IPv6 / IPv4-mapped spelling / loopback / host name): RPC call records for program "
            "100000 versions 2/3/4, procedures NULL/SET/UNSET/GETPORT|GETADDR/DUMP with keys drawn from a small per-case pool, "
            "plus unknown programs/versions/procedures, non-call records, rpcvers != 2, credentials/verifiers of 0-400 bytes, "
            "over-long/truncated auth, truncated/trailing arguments, malformed XDR strings (NUL, > 8192, truncated, unpadded), "
            "universal addresses from a boundary list (signs, spaces, Unicode spaces, newlines, underscores, int64 overflow, "
            "IPv6, uint32 wrap) and random ones; callers: loopback v4/v6 (4- and 16-byte forms, zoned), nil, remote v4/v6, "
            "zoned link-local v6, UDP addresses, other net.Addr with odd String() values, and peers derived from the configured "
            "listen address (equal to it in 4-byte / 16-byte / IPv4-mapped / zoned / string form, neighbours of it); "
            "Go-API Register/Unregister. "
            "A case is non-trivial when the registry changed and (a non-local caller attempted SET/UNSET or a query hit); "
            "distinct = distinct Coq case term",
    "assumptions": [
        "net.IP.IsLoopback, net.SplitHostPort, net.ParseIP (stdlib) behave as modelled by is_loopback / the driver's parse of odd addresses",
        "fmt.Sscanf(\"%d.%d.%d.%d.%d.%d\") is modelled on bytes (scan6); validated differentially on a boundary list and random strings",
        "the listen address is a byte string shorter than 2^32-296 (la_ok); registry fields are uint32",
        "sequential calls: the RWMutex serialises handlers; interleavings are not modelled",
    ],
    "level_text": "Full proof on the model: C27_loopback (no call record of any bytes/version from a non-local caller changes the "
                  "registry, any state), C27_guard_exact, C27_only_set_unset_modify, C27_map_* (after any history GETPORT/GETADDR/"
                  "both DUMPs report exactly lookup/elements of the abstract map; SET/UNSET/API update it, overwrite semantics as "
                  "coded), C27_uaddr_roundtrip, C27_wellformed (+ XID echo) against an executable RFC 1831/1833 reply grammar that "
                  "consumes all bytes. The model is tied to portmapper.go by differential runs of the real handleCall evaluated "
                  "in Coq byte for byte, which also evaluate the grammar, the map readings and the non-local-caller oracle on the "
                  "implementation's own replies and registry.",
    "level_note": "Trusted: Coq kernel; the hand-written model Model/Portmap.v; the Go driver and verif_hooks_portmap.go; "
                  "net and fmt of the standard library as modelled; TCP framing / accept loop / connection limits of the "
                  "portmapper are not part of this model (handleCall is driven directly).",
}
