from props import S

CFG = {
    "properties_file": "Properties/C13.v",
    "corr_files": ["Corr/C13.v"],
    "streams": [S("C13", "drive_codec", 600, 40000)],
    "rule": "Fixed boundary corpus first (string / opaque / handle / credential / verifier / gid-count / record lengths 0..9 "
            "and limit-1, limit, limit+1 for the limits 8192 / 400 / 64 / 16 / 1 MiB, declared lengths up to 2^32-1, every "
            "residue mod 4, every cut point of sample encodings), then seeded random cases: values encoded by the Go "
            "encoders (or, for call headers, AUTH_SYS bodies and fragmentations, by the harness's RFC encoder, whose output Coq "
            "checks against the model's encoder) and decoded by the Go decoders under a recording reader (result, bytes used, "
            "size of every read buffer) with the allocation volume taken from runtime.MemStats.TotalAlloc; a separate malformed "
            "stream (truncation, bit flips, over-limit and random declared lengths, garbage, non-zero padding, wrong message "
            "type, oversized / truncated fragment headers, running total crossing the limit); random fragmentations with empty "
            "fragments (also as last fragment), several records per stream, writer with maximum fragment sizes 1..2^31 and "
            "degenerate ones. Records near 1 MiB are not printed into Coq terms: their content is compared on the Go side "
            "(bytes.Equal) and Coq receives the fragment lengths, on which it runs the model with zero payload and the "
            "arithmetic oracle. Contents of 48 bytes and more come from a generator shared by the driver and Corr/C13.v and are "
            "printed as (G seed n). A case is non-trivial when it involves a variable-length item or an error path (plain "
            "u32/u64 round trips are trivial); distinct = distinct Coq term.",
    "assumptions": [
        "encoding/binary, io.ReadFull, bytes.Buffer (growth policy) and the Go allocator behave as documented (stdlib/runtime)",
        "allocation sizes are observed as read-buffer sizes plus the TotalAlloc volume of a call, not per object",
        "the decoders are driven through an in-memory reader; socket timeouts and partial TCP reads belong to C15/C17",
    ],
    "level_text": "Full proof on the model: for all values / byte strings / fragmentations, closed under the global context. "
                  "Round trips decode(encode v ++ rest) = (v, rest) consuming exactly the padded length for u32, u64, "
                  "opaque<limit>, string (a NUL byte is rejected after being consumed, as xdrDecodeString does), file handle, call "
                  "header, AUTH_SYS body, reply header; truncation at every cut point is an error; C13_bounds_*: on every input "
                  "every allocation in the trace is within the limit and a declared length above the limit is rejected behind the "
                  "length word with only 4-byte words allocated; C13_fragments: every fragmentation (empty fragments anywhere) of "
                  "every record within the limit reassembles and leaves the rest of the stream; C13_write_read for every maximum "
                  "fragment size. Limits are read from the guards of the current source (astfacts) and pinned by C13_facts. The "
                  "model is tied to rpc_types.go / rpc_transport.go by differential runs in both directions evaluated in Coq, "
                  "which also evaluate the property's statement on the implementation's own outputs.",
    "level_note": "Trusted: Coq kernel; the hand-written models Model/Bytes.v, Xdr.v, Rpc.v, RecordMark.v; astfacts x_codec.go "
                  "(guard extraction); the Go driver, its reference encoders and verif_hooks_codec.go forwarders. Modelled, not "
                  "verified: encoding/binary and io.ReadFull semantics (one buffer per read), bytes.Buffer growth inside "
                  "ReadRecord (not in the trace; bounded by the record limit times a constant, observed via TotalAlloc), Go "
                  "string conversion, *NFSAttrs reply data (C04/C14). The reader accepts an unbounded run of empty non-final "
                  "fragments (4 bytes of input each, no allocation): termination is per input length, the CPU aspect is C15's.",
}
