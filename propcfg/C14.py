from props import S

CFG = {
    "properties_file": "Properties/C14.v",
    "corr_files": ["Corr/C14.v"],
    "streams": [S("C14", "drive_c14", 96, 3000)],
    "rule": "A case = one server over a populated specfs tree (files with data up to a sparse 100 000-byte file, nested and "
            "large directories with names up to 250 bytes, symlinks) and 25-110 calls made to the real HandleCall; every step "
            "carries the server state, (program, version, procedure), xid, the driver's own verdict on whether the argument "
            "bytes decode, and the reply exactly as EncodeRPCReply renders it. Corpus first: in four configurations (writable, "
            "read-only, rate-limited, Secure) every NFSv3 procedure 0..21 and MOUNT v1/v3 0..6 with valid and empty arguments, "
            "unknown program / version / procedure, each in the base state, during a policy drain and (Secure) from an "
            "unprivileged port. Generated case kinds in fixed rotation: hist (structurally valid requests of every procedure "
            "aimed at handles of the right kind: success shapes, READ with data, READDIRPLUS with up to 150 entries), raw "
            "(valid / truncated at a 4-byte boundary / truncated at an odd offset / bit-flipped / junk-appended / random "
            "arguments to every NFS and MOUNT procedure, unknown procedures, versions and programs), sweep (one request cut at "
            "every 4-byte boundary and at odd offsets), ratelimited (EnableRateLimiting with zero per-operation rates: READ and "
            "WRITE above 64 KiB, READDIR(PLUS) and MNT are refused after the fixed bursts), timeouts (1 ns operation timeouts: "
            "ErrTimeout => 10013; or 1 ns DefaultTimeout: HandleCall gives no reply), faults (the backend fails 35% of its "
            "operations with 16 different errors: mapError's range), tcp (a real loopback listener with record marking and a "
            "per-IP burst of 3-8 without refill: the connection-level limiter's MSG_DENIED reply read off the socket). "
            "States per step: normal, read-only (at construction or toggled by UpdateExportOptions), policy drain "
            "(VerifLockPolicy held), denied (Secure + port 40000), rate-limited, timeout, call-timeout, conn-limited. The "
            "distribution is measured per procedure x state x argument kind x status (tags d:...). Non-trivial = the case "
            "contains at least one reply; distinct = distinct Coq term.",
    "assumptions": [
        "the reply bytes are taken from EncodeRPCReply on the RPCReply returned by HandleCall (what WriteReply sends), and for "
        "the tcp cases from the socket after record-mark reassembly",
        "'arguments do not decode' (signature of known finding k=1) is decided by the driver's own argument decoder "
        "(harness/cmd/drive_c14/args.go: RFC 1813 argument grammar with the server's documented limits), not by the server",
        "timeouts are real-time (context.WithTimeout is not on the virtual clock): the 1 ns settings expire before the first "
        "check in practice; the oracle does not depend on whether they do",
    ],
    "level_text": "Proof on the model, oracle on the implementation. Model/Rfc1813.v is an exact decoder for the RFC 1831 reply "
                  "and the RFC 1813 / MOUNT v3 (and RFC 1094 MOUNT v1) result types that must consume all bytes. Proved, closed "
                  "under the global context: every encoding of every result tree / model observation of the right shape parses "
                  "back for all attribute values and all lengths below 2^32 (C14_grammar_roundtrip, C14_encode_parse, "
                  "C14_reply_roundtrip); every reply of Model/Srv.v in every state, for every credential and decoded request, has "
                  "the shape of its procedure's result type and a status in nfsstat3 / mountstat3, or 4 when the request's strings "
                  "do not decode (C14_model_shape); hence every reply of the model to a decodable request is a well-formed RFC 1831 "
                  "/ RFC 1813 reply echoing the xid (C14_wellformed); the drain, MSG_DENIED, PROG_UNAVAIL / PROG_MISMATCH / "
                  "PROC_UNAVAIL / GARBAGE_ARGS / SYSTEM_ERR answers and MOUNT's own procedures are well-formed for every "
                  "(program, version, procedure) (C14_drain_wellformed, C14_dispatch_wellformed). REFUTED for the faithful model "
                  "where the code violates the statement: status 4 for undecodable arguments (C14_status_refuted; "
                  "C14_wellformed_known_k1 states what still holds) and 10013 from rate limiting (C14_ratelimit_refuted / "
                  "C14_ratelimit_known_k2): known findings k=1, k=2. C14_facts ties the status constants, the error helper of every "
                  "handler and every status expression of the current source to the RFC sets. On the implementation every reply of "
                  "every generated call is parsed by the same grammar inside Coq (no model involved), and the grammar is "
                  "cross-checked against the harness's Go decoder.",
    "level_note": "Trusted: Coq kernel; Model/Rfc1813.v as a rendering of RFC 1813 / 1831 / 1094 (cross-checked against nfsx.Decode "
                  "and, for u32, proved equal to the codec model's decoder); Model/Srv.v as a rendering of the handlers (validated "
                  "by the SRV correspondence streams of other properties); the driver and its argument decoder. Modelled, not "
                  "verified: HandleCall's dispatch (Model/Rfc1813Enc.v call_reply, a transcription of nfs_handlers.go / "
                  "mount_handlers.go); the timeout goroutine is not modelled (no reply = nothing to check). Hypothesis kept "
                  "explicit in C14_wellformed: sizes_ok (data and names shorter than 2^32 bytes). MOUNT v1 MNT success is "
                  "answered with the v3 mountres3 body: known finding k=3 (narrow signature in Corr/C14.v).",
}
