from props import S

CFG = {
    "properties_file": "Properties/C17.v",
    "corr_files": ["Corr/C17.v"],
    "streams": [S("C17", "drive_lts", 100, 2500, race=True)],
    "rule": "seeded schedules on a server created by AbsfsNFS.Export over loopback TCP, MaxConnections in {1,2,3,5}, IdleTimeout in "
            "{40,60 ms,1 h} on the virtual clock (reaper ticker real): exact part = 5-16 sequential client actions (open 40%, open "
            "from a filtered address, use, close, advance the clock by 0.25-3x the timeout incl. exactly the timeout + reaper "
            "tick), then either Stop (45%; in 45% of those the quiet Stop is replaced by 1-3 requests - LOOKUP of a new file, "
            "MKDIR, WRITE over TCP - held 300-700 ms inside a backend call while Stop, Close or Unexport is called from another "
            "goroutine; in half of these TWO shutdown calls overlap, the second 50-150 ms later: Stop||Stop, Unexport||Stop and, in the "
            "quick tier only, Close||Unexport, Close||Close - every call is observed right after it returns), concurrent churn of 3-8 clients x 3-8 connections (35%) or churn with Stop in the "
            "middle of a second burst (20%); then Close/Close, Close/Unexport/Stop, Unexport/Close/Close or "
            "Stop/Close/Unexport/Close; non-trivial = a connection was refused at the limit, reaped, or churned concurrently; "
            "distinct = distinct observed trace",
    "assumptions": [
        "sync.Mutex / sync.Once (Do blocks later callers until the first returns) / sync.WaitGroup / context cancellation as defined in Model/ConnLTS.v",
        "real timers: the reaper's ticker fires at any moment in the model (every IdleTimeout/2 in Go); Stop's 5 s timer is the StopTimeout step",
        "a goroutine that has called wg.Done() is given 50 ms to leave the goroutine dump after Stop returns",
        "New/applyTuningDefaults replace MaxConnections <= 0 by 100 and IdleTimeout <= 0 by 5 min, so the reaper always runs",
    ],
    "level_text": "Proof over the LTS of Model/ConnLTS.v, all traces, unbounded connections and Stop callers: C17_bounded (incl. "
                  "simultaneously served <= MaxConnections), C17_once, C17_reap, C17_reap_tick, C17_stop, C17_stop_partial, "
                  "C17_stop_twice, C17_close, C17_unexport, C17_close_history. Partial for timing (real ticker, 5 s shutdown "
                  "timer). Tied to server.go/absnfs.go/operations.go by enacting schedules over loopback TCP: the sequential part "
                  "must be accepted and predicted by the LTS at every quiet point (connCount, len(activeConns), server goroutines, "
                  "served connections), the concurrent part and Close/Unexport are judged by the property's statement on the "
                  "observations (peak served, counters, goroutine dump after Stop, handle/cache counts; for shutdown calls made while "
                  "requests are inside a backend call: backend calls still in flight when the call returned, request/connection/"
                  "accept goroutines left, handle table and caches at the return and again after quiescence, modifying backend "
                  "operations after the return - oracle only, the LTS has no step for a request's backend work). Thorough tier "
                  "under -race.",
    "level_note": "Modelled, not verified: Go scheduler, sync primitives, sockets, timers. The worker goroutine HandleCall may leave "
                  "behind after a handler timeout is not a connection goroutine and is outside this model (C16 covers it). "
                  "Held backend calls last 300-700 ms, well below Stop's 5 s grace: a backend call that outlasts the grace period "
                  "(Stop then returns an error with the request still running) is outside what the stream samples. "
                  "Close||Unexport and Close||Close used to race on AbsfsNFS.exportServer (found by these schedules, repaired by a fix: "
                  "commit - see known_findings.txt); all overlapping pairs now run in both tiers, the thorough one under -race. "
                  "Trusted: Coq kernel, Model/ConnLTS.v, harness/cmd/drive_lts, verif_hooks_lts.go, the goroutine-dump filter.",
}
