"""Per-property configuration of ./check (which Coq files, which generator streams, how many cases)."""

ALLOWED_AXIOMS = {
    # standard-library axioms that a library tactic may bring in; each is named in DESIGN.md section 6
    "functional_extensionality_dep", "FunctionalExtensionality.functional_extensionality_dep",
    "Eqdep.Eq_rect_eq.eq_rect_eq", "eq_rect_eq", "JMeq_eq", "JMeq.JMeq_eq",
    "proof_irrelevance", "ProofIrrelevance.proof_irrelevance", "classic", "Classical_Prop.classic",
}

TRUSTED_BASE = [
    "Coq 8.16.1 kernel (vm_compute used for finite sweeps, witnesses and case evaluation; no native_compute)",
    "coqchk (thorough tier) as independent re-checker",
    "hand-written Gallina model under coq/Model (tied to /repo by tools/astfacts facts and by the correspondence run)",
    "Go harness harness/cmd/drive, verif_hooks.go accessors (-tags verif), generator coverage as measured",
    "Go compiler/runtime and standard library",
]

def S(name, driver, nq, nt, race=False):
    """one generator stream: name known to the driver binary harness/cmd/<driver>"""
    return {"name": name, "driver": driver, "n_quick": nq, "n_thorough": nt, "race": race}

NOT_APPLICABLE = {}


import importlib.util, glob, os

PROPS = {}


def _load():
    here = os.path.dirname(os.path.abspath(__file__))
    for f in sorted(glob.glob(os.path.join(here, "propcfg", "C*.py"))):
        pid = os.path.basename(f)[:-3]
        spec = importlib.util.spec_from_file_location("propcfg_" + pid, f)
        m = importlib.util.module_from_spec(spec)
        spec.loader.exec_module(m)
        PROPS[pid] = m.CFG


_load()
