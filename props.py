"""Per-property configuration of ./check (which Coq files, which generator streams, how many cases)."""

ALLOWED_AXIOMS = {
    # standard-library axioms that a library tactic may bring in; each is named in DESIGN.md section 6
    "functional_extensionality_dep", "FunctionalExtensionality.functional_extensionality_dep",
    "Eqdep.Eq_rect_eq.eq_rect_eq", "eq_rect_eq", "JMeq_eq", "JMeq.JMeq_eq",
    "proof_irrelevance", "ProofIrrelevance.proof_irrelevance", "classic", "Classical_Prop.classic",
}

TRUSTED_BASE = [
    "Coq 8.16.1 kernel (vm_compute used for finite sweeps, witnesses and case evaluation; no native_compute)",
    "coqchk (thorough tier) as independent re-checker",
    "hand-written Gallina model under coq/Model (tied to /repo by tools/astfacts facts and by the correspondence run)",
    "Go harness harness/cmd/drive, verif_hooks.go accessors (-tags verif), generator coverage as measured",
    "Go compiler/runtime and standard library",
]

def S(name, nq, nt):
    return {"name": name, "n_quick": nq, "n_thorough": nt}

NOT_APPLICABLE = {}

PROPS = {
    "C05": {
        "properties_file": "Properties/C05.v",
        "corr_files": ["Corr/C05.v"],
        "streams": [S("C05", 400, 20000)],
        "rule": "allocation histories (Allocate/Release/ReleaseAll) over 1-40 paths, max in {<=0,1,2,3,5,10,11,25}, "
                "length up to 6x max; a case is non-trivial when it contains an eviction or an id reuse; "
                "distinct = distinct (max, op list)",
        "assumptions": ["container/heap PopMin returns the minimum (stdlib)", "handle ids stay below 2^64"],
        "level_text": "Full proof on the model: C05_live, C05_one_per_path, C05_reissue_same, C05_bounded for every reachable state of "
                      "the handle-table model, every path set and every maximum (induction over arbitrary Allocate/Release/ReleaseAll "
                      "histories; no bound). The model is tied to filehandle.go by differential runs of the real FileHandleMap evaluated "
                      "in Coq, which also evaluate the property's own statement on the implementation's tables.",
        "level_note": "Trusted: Coq kernel; the hand-written model Model/Handles.v (min-heap as multiset with pop-min; map iteration order "
                      "irrelevant); the Go driver and verif_hooks.go accessors; container/heap. Wire-level issue of handles "
                      "(MNT/LOOKUP/CREATE/...) is exercised by the NFS session streams, not proved.",
    },
}
