Gen/Facts.vo Gen/Facts.glob Gen/Facts.v.beautified Gen/Facts.required_vo: Gen/Facts.v 
Gen/Facts.vio: Gen/Facts.v 
Gen/Facts.vos Gen/Facts.vok Gen/Facts.required_vos: Gen/Facts.v 
Model/TokenBucket.vo Model/TokenBucket.glob Model/TokenBucket.v.beautified Model/TokenBucket.required_vo: Model/TokenBucket.v 
Model/TokenBucket.vio: Model/TokenBucket.v 
Model/TokenBucket.vos Model/TokenBucket.vok Model/TokenBucket.required_vos: Model/TokenBucket.v 
Model/RateLimit.vo Model/RateLimit.glob Model/RateLimit.v.beautified Model/RateLimit.required_vo: Model/RateLimit.v Gen/Facts.vo Model/TokenBucket.vo
Model/RateLimit.vio: Model/RateLimit.v Gen/Facts.vio Model/TokenBucket.vio
Model/RateLimit.vos Model/RateLimit.vok Model/RateLimit.required_vos: Model/RateLimit.v Gen/Facts.vos Model/TokenBucket.vos
Proofs/TokenBucketProofs.vo Proofs/TokenBucketProofs.glob Proofs/TokenBucketProofs.v.beautified Proofs/TokenBucketProofs.required_vo: Proofs/TokenBucketProofs.v Model/TokenBucket.vo
Proofs/TokenBucketProofs.vio: Proofs/TokenBucketProofs.v Model/TokenBucket.vio
Proofs/TokenBucketProofs.vos Proofs/TokenBucketProofs.vok Proofs/TokenBucketProofs.required_vos: Proofs/TokenBucketProofs.v Model/TokenBucket.vos
Proofs/RateLimitProofs.vo Proofs/RateLimitProofs.glob Proofs/RateLimitProofs.v.beautified Proofs/RateLimitProofs.required_vo: Proofs/RateLimitProofs.v Gen/Facts.vo Model/TokenBucket.vo Model/RateLimit.vo Proofs/TokenBucketProofs.vo
Proofs/RateLimitProofs.vio: Proofs/RateLimitProofs.v Gen/Facts.vio Model/TokenBucket.vio Model/RateLimit.vio Proofs/TokenBucketProofs.vio
Proofs/RateLimitProofs.vos Proofs/RateLimitProofs.vok Proofs/RateLimitProofs.required_vos: Proofs/RateLimitProofs.v Gen/Facts.vos Model/TokenBucket.vos Model/RateLimit.vos Proofs/TokenBucketProofs.vos
Properties/C18.vo Properties/C18.glob Properties/C18.v.beautified Properties/C18.required_vo: Properties/C18.v Gen/Facts.vo Model/TokenBucket.vo Model/RateLimit.vo Proofs/TokenBucketProofs.vo Proofs/RateLimitProofs.vo
Properties/C18.vio: Properties/C18.v Gen/Facts.vio Model/TokenBucket.vio Model/RateLimit.vio Proofs/TokenBucketProofs.vio Proofs/RateLimitProofs.vio
Properties/C18.vos Properties/C18.vok Properties/C18.required_vos: Properties/C18.v Gen/Facts.vos Model/TokenBucket.vos Model/RateLimit.vos Proofs/TokenBucketProofs.vos Proofs/RateLimitProofs.vos
Properties/C19.vo Properties/C19.glob Properties/C19.v.beautified Properties/C19.required_vo: Properties/C19.v Gen/Facts.vo Model/TokenBucket.vo Model/RateLimit.vo Proofs/TokenBucketProofs.vo Proofs/RateLimitProofs.vo
Properties/C19.vio: Properties/C19.v Gen/Facts.vio Model/TokenBucket.vio Model/RateLimit.vio Proofs/TokenBucketProofs.vio Proofs/RateLimitProofs.vio
Properties/C19.vos Properties/C19.vok Properties/C19.required_vos: Properties/C19.v Gen/Facts.vos Model/TokenBucket.vos Model/RateLimit.vos Proofs/TokenBucketProofs.vos Proofs/RateLimitProofs.vos
Corr/Common.vo Corr/Common.glob Corr/Common.v.beautified Corr/Common.required_vo: Corr/Common.v 
Corr/Common.vio: Corr/Common.v 
Corr/Common.vos Corr/Common.vok Corr/Common.required_vos: Corr/Common.v 
Corr/RateLimitCorr.vo Corr/RateLimitCorr.glob Corr/RateLimitCorr.v.beautified Corr/RateLimitCorr.required_vo: Corr/RateLimitCorr.v Gen/Facts.vo Model/TokenBucket.vo Model/RateLimit.vo Corr/Common.vo
Corr/RateLimitCorr.vio: Corr/RateLimitCorr.v Gen/Facts.vio Model/TokenBucket.vio Model/RateLimit.vio Corr/Common.vio
Corr/RateLimitCorr.vos Corr/RateLimitCorr.vok Corr/RateLimitCorr.required_vos: Corr/RateLimitCorr.v Gen/Facts.vos Model/TokenBucket.vos Model/RateLimit.vos Corr/Common.vos
Corr/C18.vo Corr/C18.glob Corr/C18.v.beautified Corr/C18.required_vo: Corr/C18.v Model/TokenBucket.vo Model/RateLimit.vo Corr/Common.vo Corr/RateLimitCorr.vo
Corr/C18.vio: Corr/C18.v Model/TokenBucket.vio Model/RateLimit.vio Corr/Common.vio Corr/RateLimitCorr.vio
Corr/C18.vos Corr/C18.vok Corr/C18.required_vos: Corr/C18.v Model/TokenBucket.vos Model/RateLimit.vos Corr/Common.vos Corr/RateLimitCorr.vos
Corr/C19.vo Corr/C19.glob Corr/C19.v.beautified Corr/C19.required_vo: Corr/C19.v Model/TokenBucket.vo Model/RateLimit.vo Corr/Common.vo Corr/RateLimitCorr.vo
Corr/C19.vio: Corr/C19.v Model/TokenBucket.vio Model/RateLimit.vio Corr/Common.vio Corr/RateLimitCorr.vio
Corr/C19.vos Corr/C19.vok Corr/C19.required_vos: Corr/C19.v Model/TokenBucket.vos Model/RateLimit.vos Corr/Common.vos Corr/RateLimitCorr.vos
