-R . Verif
-arg -w -arg -notation-overridden,-deprecated-hint-without-locality,-deprecated-instance-without-locality
Gen/Facts.v
Model/TokenBucket.v
Model/RateLimit.v
Proofs/TokenBucketProofs.v
Proofs/RateLimitProofs.v
Properties/C18.v
Properties/C19.v
Corr/Common.v
Corr/RateLimitCorr.v
Corr/C18.v
Corr/C19.v
