(* Properties/C12.v — ACCESS decisions follow UNIX permission rules and never over-grant.
   Only statements closed by [exact lemma], non-vacuity examples and Print Assumptions live here.

   [handle_access] is the model of the permission computation of handleAccess (nfs_proc_attr.go);
   [unix_access] is the UNIX rule, written independently with testbit on the mode
   (Model/Access.v).  Every quantifier below ranges over ALL naturals: any os.FileMode value
   (type bits, setuid/setgid/sticky and beyond), any owner/group, any effective ids, any
   auxiliary gid list (or no AUTH_SYS credential at all: [aux_gids = None]), any request mask. *)
From Coq Require Import List NArith ZArith Bool.
From Verif Require Import Gen.Facts Model.Access Proofs.AccessProofs.
Import ListNotations.
Open Scope N_scope.

(* granted ⊆ requested, and granted = exactly what the caller's class permits *)
Theorem C12_exact : forall mode fuid fgid c access ro,
  let granted := handle_access mode fuid fgid c access ro in
  N.land granted access = granted /\ granted = unix_access mode fuid fgid c access ro.
Proof. exact C12_exact_lemma. Qed.

(* read off the rule, per bit: a bit is granted iff it was requested and is permitted *)
Theorem C12_per_bit : forall mode fuid fgid c access ro b,
  N.testbit (unix_access mode fuid fgid c access ro) (abit_index b) =
  N.testbit access (abit_index b) &&
  permitted (class_of fuid fgid c) mode (N.testbit mode mode_dir_bit) ro b.
Proof. exact unix_bit. Qed.

(* LOOKUP and DELETE are granted only on directories *)
Theorem C12_dir_only : forall mode fuid fgid c access ro,
  N.testbit mode mode_dir_bit = false ->
  let granted := handle_access mode fuid fgid c access ro in
  N.testbit granted (abit_index BLookup) = false /\ N.testbit granted (abit_index BDelete) = false.
Proof. exact C12_dir_only_lemma. Qed.

(* MODIFY, EXTEND and DELETE are never granted on a read-only export (root included) *)
Theorem C12_readonly : forall mode fuid fgid c access,
  let granted := handle_access mode fuid fgid c access true in
  N.testbit granted (abit_index BModify) = false /\ N.testbit granted (abit_index BExtend) = false /\
  N.testbit granted (abit_index BDelete) = false.
Proof. exact C12_readonly_lemma. Qed.

(* root gets every permission that exists for the object kind (writable export) *)
Theorem C12_root : forall mode fuid fgid c access,
  eff_uid c = 0 ->
  let granted := handle_access mode fuid fgid c access false in
  forall b, N.testbit granted (abit_index b) =
    N.testbit access (abit_index b) &&
    match b with BLookup | BDelete => N.testbit mode mode_dir_bit | _ => true end.
Proof. exact C12_root_lemma. Qed.

(* the ACCESS3_* package constants of /repo are the RFC 1813 values the rule is stated with *)
Theorem C12_facts :
  ((c_ACCESS3_READ =? 1) && (c_ACCESS3_LOOKUP =? 2) && (c_ACCESS3_MODIFY =? 4) &&
   (c_ACCESS3_EXTEND =? 8) && (c_ACCESS3_DELETE =? 16) && (c_ACCESS3_EXECUTE =? 32))%Z = true.
Proof. vm_compute. reflexivity. Qed.

(* ---- non-vacuity ---- *)
Definition cl (u g : N) (aux : option (list N)) : caller := {| eff_uid := u; eff_gid := g; aux_gids := aux |}.

(* class precedence: the owner's bits apply even when the group's are wider (mode 0070, caller is
   owner and in the group): nothing is granted; the same caller as a mere group member gets rwx *)
Example C12_owner_precedence :
  handle_access 56 1000 100 (cl 1000 100 (Some [100])) 63 false = 0 /\
  handle_access 56 1001 100 (cl 1000 100 None) 63 false = 45 /\
  handle_access 56 1001 100 (cl 1000 7 (Some [5; 100])) 63 false = 45 /\
  handle_access 56 1001 100 (cl 1000 7 (Some [5; 6])) 63 false = 0.
Proof. vm_compute. repeat split; reflexivity. Qed.

(* hypothesis of C12_dir_only met by a file on which the request would otherwise succeed, and the
   directory case grants the two bits (so the theorem is not about a function that never grants them) *)
Example C12_dir_only_nontrivial :
  N.testbit 511 mode_dir_bit = false /\ handle_access 511 1 1 (cl 1 1 None) 63 false = 45 /\
  handle_access (ModeDir + 511) 1 1 (cl 1 1 None) 63 false = 63.
Proof. vm_compute. repeat split; reflexivity. Qed.

(* read-only export: a directory with mode 0777 grants READ|LOOKUP|EXECUTE only, even to root *)
Example C12_readonly_nontrivial :
  handle_access (ModeDir + 511) 1 1 (cl 0 0 (Some [])) 63 true = 35 /\
  handle_access (ModeDir + 511) 1 1 (cl 0 0 (Some [])) 63 false = 63.
Proof. vm_compute. split; reflexivity. Qed.

(* root on a mode-0000 file of somebody else: everything that exists for files; high mask bits ignored *)
Example C12_root_nontrivial :
  eff_uid (cl 0 5 None) = 0 /\ handle_access 0 9 9 (cl 0 5 None) (63 + 2 ^ 31 + 64) false = 45 /\
  handle_access 0 9 9 (cl 3 5 None) 63 false = 0.
Proof. vm_compute. repeat split; reflexivity. Qed.

Print Assumptions C12_exact.
Print Assumptions C12_per_bit.
Print Assumptions C12_dir_only.
Print Assumptions C12_readonly.
Print Assumptions C12_root.
Print Assumptions C12_facts.
